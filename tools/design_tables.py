#!/usr/bin/env python3
"""Regenerate the generated tables of DESIGN.md (between <!-- BEGIN:x --> / <!-- END:x --> markers):
findings (from known_findings.txt), seeded and waves (from seeded/*/meta.json)."""
import re, os, subprocess, json, glob
ROOT=os.path.dirname(os.path.dirname(os.path.abspath(__file__)))
d=open(os.path.join(ROOT,'DESIGN.md')).read()
def put(name, body):
    global d
    b,e='<!-- BEGIN:%s -->'%name,'<!-- END:%s -->'%name
    if b not in d:
        d=d.rstrip('\n')+'\n\n'+b+'\n'+e+'\n'
    d=d[:d.index(b)+len(b)]+'\n'+body.strip('\n')+'\n'+d[d.index(e):]
rows=[]
for l in open(os.path.join(ROOT,'known_findings.txt')):
    m=re.match(r'(fixed|finding):\s+property=(\S+)\s+(\S+)\s+(.*)',l)
    if m:
        kind,pid,ref,txt=m.groups()
        rows.append((pid,kind,ref,txt.strip()))
rows.sort()
body='| property | handling | commit / finding id | what failed on the pinned tree (found by the check, with a replay) |\n|---|---|---|---|\n'
body+='\n'.join('| %s | %s | `%s` | %s |'%(p,'`fix:` commit' if k=='fixed' else '**recorded finding**',r.replace('id=',''),t.replace('|','/')) for p,k,r,t in rows)
nf=sum(1 for r in rows if r[1]=='fixed'); nn=len(rows)-nf
put('findings','%d genuine defects were found by the checks on the pinned tree: %d repaired by `fix:` commits, %d recorded as findings (repair not small and safe).\n\n'%(len(rows),nf,nn)+body)
seed=subprocess.run([os.path.join(ROOT,'tools','seed_table.py')],capture_output=True,text=True).stdout
n=len(glob.glob(os.path.join(ROOT,'seeded','*')))
put('seeded','%d seeded changes (each written by a fresh sub-agent that saw only the property text and a scratch checkout; each confirmed here: compiles, existing tests pass, demonstration fails with / passes without) are kept under `seeded/`. `input` = the check reports a VIOLATION with a concrete failing input; where a change was first missed or only reported as no-failing-input-found the notes say how the check was strengthened.\n\n'%n+seed)
waves=subprocess.run([os.path.join(ROOT,'tools','wave_stats.py')],capture_output=True,text=True).stdout
if '<!-- BEGIN:waves -->' in d: put('waves',waves)
open(os.path.join(ROOT,'DESIGN.md'),'w').write(d)
print('tables regenerated')
