#!/usr/bin/env python3
"""tools/refresh_skeletons.py Cxx [Cyy…] — show the diff between expect/skeleton/*.txt and what the
extractor produces now for the skeletons a property lists, and (with --write) accept it. Expectations
are hand-reviewed: only accept a diff you understand."""
import json, os, subprocess, sys, difflib
ROOT=os.path.dirname(os.path.dirname(os.path.abspath(__file__)))
write='--write' in sys.argv
repo=os.environ.get('VERIF_REPO','/repo')
out=os.path.join(ROOT,'.build','skeleton-refresh'); os.makedirs(out,exist_ok=True)
subprocess.run([os.path.join(ROOT,'.build','extract'),'--repo',repo,'--skeletons',out],check=True)
for pid in [a for a in sys.argv[1:] if not a.startswith('--')]:
    cfg=json.load(open(os.path.join(ROOT,'obligations',pid+'.json')))
    for name in cfg.get('skeletons',[]):
        e=os.path.join(ROOT,'expect','skeleton',name+'.txt'); g=os.path.join(out,name+'.txt')
        a=open(e).read().splitlines() if os.path.exists(e) else []
        b=open(g).read().splitlines() if os.path.exists(g) else ['<missing>']
        if a!=b:
            print('=====',pid,name)
            print('\n'.join(difflib.unified_diff(a,b,'expected','extracted',lineterm='',n=1)))
            if write: open(e,'w').write('\n'.join(b)+'\n')
