#!/bin/bash
# tools/seedtest.sh <property> <mutation-dir> [demo-pkg-dir] [go test flags...]
# Confirms a seeded change in a scratch worktree (builds, existing tests of touched pkgs pass, demo
# fails with / passes without) and runs ./check against it. Scratch worktree is removed afterwards.
set -u
PID=$1; DIR=$2; DEMOPKG=${3:-}; shift 3 2>/dev/null || true
export GOFLAGS=-mod=mod GOPROXY=off
WT=/tmp/mut-$$/repo
mkdir -p /tmp/mut-$$
git -C /repo worktree add -q --detach "$WT" HEAD || exit 2
cleanup() { git -C /repo worktree remove --force "$WT" 2>/dev/null; rm -rf /tmp/mut-$$; }
trap cleanup EXIT
cd "$WT"
RUN=$(grep -o 'func Test[A-Za-z0-9_]*' "$DIR/demo_test.go" 2>/dev/null | sed 's/func //' | paste -sd'|')
if [ -n "$DEMOPKG" ]; then
  cp "$DIR/demo_test.go" "$WT/$DEMOPKG/zz_demo_test.go"
  echo "== demo WITHOUT the change"
  timeout 600 go test -count=1 "$@" -run "^($RUN)\$" "./$DEMOPKG/" 2>&1 | tail -3
fi
git apply "$DIR/patch.diff" || { echo "PATCH DOES NOT APPLY"; exit 3; }
echo "== build"; go build ./... && go build -tags verif ./... && echo build-ok
if [ -n "$DEMOPKG" ]; then
  echo "== demo WITH the change"
  timeout 600 go test -count=1 "$@" -run "^($RUN)\$" "./$DEMOPKG/" 2>&1 | tail -3
  rm -f "$WT/$DEMOPKG/zz_demo_test.go"
fi
if [ -z "${SKIPTESTS:-}" ]; then
echo "== existing tests with the change"
timeout 1500 go test -vet=off -count=1 ./... 2>&1 | grep -v '^ok\|no test files' | tail -5; echo "(non-ok lines above)"
fi
echo "== check"
cd /verif && VERIF_REPO="$WT" ./check "$PID" quick 2>&1 | grep -v KNOWN | tail -4
