#!/usr/bin/env python3
"""Print the markdown table of seeded changes (seeded/*/meta.json) for DESIGN.md §12.4."""
import json, os, glob
ROOT=os.path.dirname(os.path.dirname(os.path.abspath(__file__)))
rows=[]
for d in sorted(glob.glob(os.path.join(ROOT,'seeded','*'))):
    m=json.load(open(os.path.join(d,'meta.json')))
    res={'VIOLATION with a concrete failing input (replay)':'input'}.get(m['check_result'], 'no-failing-input-found' if 'no-failing' in m['check_result'] else ('MISSED' if 'NOT' in m['check_result'] else m['check_result']))
    rows.append('| %s | %s | %s | %s |' % (os.path.basename(d), m['needs_to_manifest'].replace('|','/'), res, (m.get('notes') or '').replace('|','/')))
print('| seeded change | needs, in order to manifest | `./check` reports | notes |\n|---|---|---|---|')
print('\n'.join(rows))
