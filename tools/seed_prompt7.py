#!/usr/bin/env python3
"""tools/seed_prompt3.py — seventh-wave seeding prompts (one per property) into notes/seed_prompts7/.
Each prompt contains only the property text; the sub-agent works in /tmp/s7-Cxx/repo."""
import json, os
ROOT=os.path.dirname(os.path.dirname(os.path.abspath(__file__)))
T='''You are a careful Go engineer doing mutation seeding for a robustness study of the open-source project flant/shell-operator (a Kubernetes operator runtime that runs shell hooks). You work fully offline.

Create your own scratch checkout first (work ONLY there; never touch /repo itself, never look into /verif — it is off limits):

    mkdir -p /tmp/s7-%(id)s/out
    git -C /repo worktree add /tmp/s7-%(id)s/repo -b s7-%(id)s HEAD
    cd /tmp/s7-%(id)s/repo
    export GOFLAGS=-mod=mod GOPROXY=off      # in EVERY shell call; never set GOTOOLCHAIN=local or GOSUMDB=off

Here is a behavioural property the project is supposed to satisfy:

  Title: %(title)s
  Statement: %(statement)s
  Quantifier: %(q)s
  Code anchors (files): %(files)s
  Mechanisms meant to make it hold: %(mech)s

Your task: produce TWO different, realistic code changes ("mutations") to the NON-test sources of the project (Go; bash if the anchors are bash), each of which
  (a) BREAKS this property — as far as possible each one a DIFFERENT clause of the statement (read it sentence by sentence and clause by clause; pick clauses that are easy to overlook: the "exactly", "only", "in order", "once", "never", "unless", "also after …" parts, the second half of a sentence, the defaults),
  (b) still compiles (`go build ./...`) and still passes the project's existing test suite unedited (`timeout 1500 go test -vet=off -count=1 ./... 2>&1 | tail -30` — at least the tests of every package you touched plus ./pkg/shell-operator/... ./pkg/hook/... ./test/...),
  (c) needs something SPECIFIC to manifest — a particular interleaving, a fault or crash at a particular point, a multi-step sequence of operations, an unusual but legal input or configuration, a boundary value, or two cooperating sites that each look fine alone — NOT something ordinary use would expose at once.
This is an adversarial round. Assume the project is guarded by an automated checker that (i) drives the REAL code paths named above and their callers with large numbers of generated configurations, inputs, operation sequences and forced interleavings, (ii) compares every observable result with an independent reference model of the property, and (iii) compares the lock/call structure of the functions named under "Mechanisms" with a recorded expectation. Your three mutations must be the ones you judge HARDEST for such a checker to notice, while still being genuine violations of the property as stated (not of something the statement does not promise). Think about: behaviour that differs only on an input class a generator is unlikely to produce (a rare but legal value, a specific relation between two independently generated values, a size threshold, a particular character or spelling, a third element after two that work); state that goes wrong only after a specific history (third use, use after a failure and a success, two different keys that collide after normalisation); code that the listed callers reach only through an unusual route (another binding type, another task type, a debug/API endpoint, a start-up or shutdown phase, an error answer); effects that are visible only in a field nobody usually looks at (a label, a counter, a secondary output file, the order of equal elements, a message text); a wrong result that coincides with the right one for the most natural test values (0 and 1, empty and singleton, ASCII lower-case names, versions v1/v2).
For each mutation say in its README, in two or three sentences, why you expect it to be hard to detect.
At least ONE of the two must sit OUTSIDE the functions named under "Mechanisms" (callers, glue, config plumbing, operator-level wiring in pkg/shell-operator, pkg/hook, pkg/hook/controller, helper packages under pkg/utils, vendored-style helpers inside this repository), and at least ONE must consist of two cooperating edits in different functions or files, each harmless alone. Prefer the kind of change a plausible refactoring, an "optimisation", a wrong merge, a swapped argument, a wrong comparison or an off-by-one would introduce; do not simply delete the mechanism.
Do not touch files guarded by `//go:build verif`, do not remove or move calls to `verifsched.Point(...)`, and do not edit test files.

For EACH mutation k = 1,2 deliver in /tmp/s7-%(id)s/out/m<k>/ :
  - patch.diff   : `git diff` of the mutation against the worktree HEAD (only the mutation),
  - a demonstration: a Go test file demo_test.go (first line a comment `// copy into <package dir, e.g. pkg/task/queue>`; add `// tags verif` only if it really needs that build tag) or, for bash sources, a script demo.sh <checkout>, that FAILS with the mutation applied and PASSES without it; run it both ways yourself and record the two outcomes. The test must be deterministic (force the interleaving with channels/sleeps/hooks you write inside the test; no reliance on luck),
  - README.md  : first line `# %(id)s / m<k> — <one-line summary>`; then which clause of the property it breaks, what it needs in order to manifest, the exact commands you ran (build, existing tests, demo with/without) and their results.
Never use `git stash` (the stash is shared between all worktrees of the repository — other engineers are seeding other properties in parallel): toggle a mutation with `git apply patch.diff` / `git apply -R patch.diff`.
Keep the worktree clean at the end (`git checkout -- . && git clean -fd` inside /tmp/s7-%(id)s/repo); do not commit anything; do not remove the worktree.
Wrap long-running commands in `timeout`. Final message: ≤ 15 lines summarising the two mutations (one line each: file:function, which clause breaks, what it needs to manifest) and confirming the checks for each (compiles / existing tests pass / demo fails-with passes-without).
'''
for l in open(os.path.join(ROOT,'properties.jsonl')):
    p=json.loads(l)
    a=p['anchors']
    d=dict(id=p['id'],title=p['title'],statement=p['statement'],q=p['quantifier']['text'],
           files=', '.join(a.get('files',[])),
           mech='; '.join('%s (%s)'%(m['name'],m['where']) for m in a.get('mechanism',[])))
    open(os.path.join(ROOT,'notes','seed_prompts7',p['id']+'.md'),'w').write(T%d)
print('ok')
