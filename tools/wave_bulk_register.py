#!/usr/bin/env python3
"""tools/wave_bulk_register.py <prefix> — read /tmp/vseed-results/<prefix>-Cxx-mK.log (written by tools/seedbatch.sh /
tools/seedtest.sh), print per change: build, demo without / with the change, existing tests, what the check said; and
register (tools/seed_register.py) every change that is CONFIRMED: builds, existing tests pass with it, the demonstration
passes without it and fails with it. Unconfirmed changes are listed and not stored."""
import glob, os, re, subprocess, sys
ROOT=os.path.dirname(os.path.dirname(os.path.abspath(__file__)))
pre=sys.argv[1]
for f in sorted(glob.glob('/tmp/vseed-results/%s-C*-m*.log'%pre)):
    m=re.match(r'.*/%s-(C\d\d)-(m\d)\.log'%pre,f); pid,mk=m.groups()
    t=open(f,errors='replace').read()
    def sect(a,b):
        i=t.find(a); 
        if i<0: return ''
        j=t.find(b,i+len(a)) if b else -1
        return t[i+len(a):(j if j>=0 else len(t))]
    wo=sect('== demo WITHOUT the change','== '); wi=sect('== demo WITH the change','== ')
    ex=sect('== existing tests with the change','(non-ok lines above)')
    build='build-ok' in t
    demo_sh=os.path.exists('/tmp/%s-%s/out/%s/demo.sh'%(pre,pid,mk))
    wo_ok=bool(re.search(r'^ok\s',wo,re.M)) and 'FAIL' not in wo
    wi_fail='FAIL' in wi or 'panic' in wi
    ex_ok=not re.search(r'FAIL|panic',ex)
    if 'VIOLATION' in t: res='unshown' if re.search(r'VIOLATION.*no-failing-input-found',t) and not re.search(r'VIOLATION property=\S+ replay=\S+\s*$',t,re.M) else 'input'
    else: res='missed'
    quick=(re.findall(r'^C\d\d quick:.*$',t,re.M) or ['(no check line)'])[-1]
    conf=build and ex_ok and ((wo_ok and wi_fail) or demo_sh)
    print('%s %s build=%s demo-without-ok=%s demo-with-fails=%s existing-tests-ok=%s demo.sh=%s -> %s | %s | %s'%(pid,mk,build,wo_ok,wi_fail,ex_ok,demo_sh,'CONFIRMED' if conf else 'NOT-CONFIRMED',res,quick[:110]))
    if conf and '--register' in sys.argv:
        rd=open('/tmp/%s-%s/out/%s/README.md'%(pre,pid,mk)).read().split('\n')[0]
        needs=rd.split('—',1)[-1].strip()[:300]
        first={'input':'','unshown':'first only no-failing-input-found; ','missed':'first MISSED; '}[res]
        env=dict(os.environ,SEEDPREFIX=pre)
        subprocess.run([os.path.join(ROOT,'tools','seed_register.py'),pid,mk,res,needs,first+'seventh (final, adversarial) wave; run once against the final checks, no strengthening afterwards'],env=env)
