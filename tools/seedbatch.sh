#!/bin/bash
# tools/seedbatch.sh Cxx [Cyy…] — run tools/seedtest.sh for every mutation under /tmp/seed-Cxx/out/m*
# from an isolated copy of /verif (git worktree /tmp/vseed at HEAD, own .build and .lake), so that the
# main checkout can keep running checks. Results: /tmp/vseed-results/<Cxx>-m<k>.log
set -u
VS=${VSEED:-/tmp/vseed}
if [ ! -d $VS ]; then git -C /verif worktree add -q --detach $VS HEAD && (cd $VS && ./setup.sh >/dev/null 2>&1); else git -C $VS checkout -q -f --detach $(git -C /verif rev-parse HEAD) && (cd $VS && ./setup.sh >/dev/null 2>&1); fi
mkdir -p /tmp/vseed-results
SR=${SEEDPREFIX:-seed}
for P in "$@"; do
  for D in /tmp/$SR-$P/out/m*; do
    [ -d "$D" ] || continue
    K=$(basename $D)
    # where does the demo go? README says "copy into <dir>"; default by grep of a pkg path
    PKG=$(grep -ho 'pkg/[a-zA-Z0-9_/-]*\|test/hook/context' $D/README.md | grep -v '\.go' | head -1)
    HEADPKG=$(head -30 $D/demo_test.go 2>/dev/null | grep -o 'pkg/[a-zA-Z0-9_/-]*\|test/hook/context' | head -1)
    [ -n "$HEADPKG" ] && PKG=$HEADPKG
    PKG=${PKG%/}
    TAGS=""; grep -q 'tags verif' $D/README.md $D/demo_test.go 2>/dev/null && TAGS="-tags verif"
    echo "== $P $K demo-pkg=$PKG $TAGS"
    (cd $VS && sed "s#cd /verif \&\& VERIF_REPO#cd $VS \&\& VERIF_REPO#" tools/seedtest.sh > .build/seedtest.sh && bash .build/seedtest.sh $P $D "$PKG" $TAGS) > /tmp/vseed-results/$SR-$P-$K.log 2>&1
    grep -A1 "demo WITH\|demo WITHOUT" /tmp/vseed-results/$SR-$P-$K.log | grep -v "^--" | tr '\n' ' ' ; echo
    grep "VIOLATION\|quick:" /tmp/vseed-results/$SR-$P-$K.log | cut -c1-150
  done
done
