#!/bin/bash
# tools/seedconfirm.sh <prefix> Cxx mK — confirm in a scratch worktree that a seeded change builds and
# that the repository's existing test suite passes with it. Result: /tmp/vseed-results/confirm-<prefix>-Cxx-mK.txt
PRE=$1; P=$2; K=$3
export GOFLAGS=-mod=mod GOPROXY=off
D=/tmp/$PRE-$P/out/$K
WT=/tmp/confirm-$PRE-$P-$K
OUT=/tmp/vseed-results/confirm-$PRE-$P-$K.txt
git -C /repo worktree add -q --detach $WT HEAD || exit 2
trap "git -C /repo worktree remove --force $WT" EXIT
cd $WT
git apply $D/patch.diff || { echo "PATCH-DOES-NOT-APPLY" > $OUT; exit 3; }
{ go build ./... && go build -tags verif ./... && echo BUILD-OK || echo BUILD-FAIL
  timeout 2400 go test -vet=off -count=1 ./... 2>&1 | grep -v '^ok\|no test files' | tail -8
  echo "END rc=${PIPESTATUS[0]}"; } > $OUT 2>&1
