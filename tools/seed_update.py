#!/usr/bin/env python3
"""tools/seed_update.py Cxx-w3mK <input|unshown|missed> "<notes>" — update the result of a stored seeded change."""
import json, os, sys
ROOT=os.path.dirname(os.path.dirname(os.path.abspath(__file__)))
d=os.path.join(ROOT,'seeded',sys.argv[1]); m=json.load(open(os.path.join(d,'meta.json')))
m['check_result']={'input':'VIOLATION with a concrete failing input (replay)','unshown':'VIOLATION … no-failing-input-found (theorem/skeleton/correspondence broke, no failing input found)','missed':'NOT detected'}[sys.argv[2]]
if len(sys.argv)>3: m['notes']=sys.argv[3]
json.dump(m,open(os.path.join(d,'meta.json'),'w'),indent=1)
