#!/usr/bin/env python3
# rewrites MANIFEST.hooks.source_commits as the list of all "verif hooks:" commits of /repo HEAD, oldest first
import json,subprocess
p='/verif/MANIFEST.json'
m=json.load(open(p))
out=subprocess.check_output(['git','-C','/repo','log','--reverse','--format=%h %s'],text=True)
m['hooks']['source_commits']=[l.split(' ',1)[0] for l in out.splitlines() if l.split(' ',1)[1].startswith('verif hooks')]
json.dump(m,open(p,'w'),indent=1,ensure_ascii=False)
print(len(m['hooks']['source_commits']))
