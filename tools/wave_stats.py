#!/usr/bin/env python3
"""tools/wave_stats.py — per seeding wave: number of stored changes, how the check answered at first sight and now
(from seeded/*/meta.json: `notes` records 'first MISSED' / 'first only no-failing-input-found' when a change was not
caught with an input at first sight)."""
import json, glob, os, re, collections
ROOT=os.path.dirname(os.path.dirname(os.path.abspath(__file__)))
W=collections.OrderedDict()
for d in sorted(glob.glob(os.path.join(ROOT,'seeded','*'))):
    n=os.path.basename(d); m=json.load(open(os.path.join(d,'meta.json')))
    mm=re.search(r'-w(\d)m',n); wave='1-2' if not mm else mm.group(1)
    now='input' if m['check_result'].startswith('VIOLATION with') else ('unshown' if 'no-failing' in m['check_result'] else 'missed')
    notes=(m.get('notes') or '')
    if re.search(r'first MISSED|first missed',notes): first='missed'
    elif re.search(r'first only|first reported only|first only no-failing',notes): first='unshown'
    else: first=now
    s=W.setdefault(wave,collections.Counter()); s['n']+=1; s['first_'+first]+=1; s['now_'+now]+=1
print('| wave | changes | first sight: input / without input / missed | now: input / without input / missed |\n|---|---|---|---|')
for w,s in W.items():
    print('| %s | %d | %d / %d / %d | %d / %d / %d |'%(w,s['n'],s['first_input'],s['first_unshown'],s['first_missed'],s['now_input'],s['now_unshown'],s['now_missed']))
