#!/usr/bin/env python3
"""tools/seed_apply_regress.py <results-dir>… — fold the result lines of tools/seedregress.sh (<name> input|unshown|MISSED|no-apply …)
into seeded/<name>/meta.json. A change that was not caught with an input at first sight keeps that fact in `notes`
('first MISSED' / 'first only no-failing-input-found' — tools/wave_stats.py reads it)."""
import json, os, sys, glob
ROOT=os.path.dirname(os.path.dirname(os.path.abspath(__file__)))
TXT={'input':'VIOLATION with a concrete failing input (replay)','unshown':'VIOLATION … no-failing-input-found (theorem/skeleton/correspondence broke, no failing input found)','missed':'NOT detected'}
changed=0
for rd in sys.argv[1:]:
    for f in sorted(glob.glob(os.path.join(rd,'*.txt'))):
        parts=open(f).read().split(None,2)
        if len(parts)<2: continue
        name,res=parts[0],parts[1].lower()
        mp=os.path.join(ROOT,'seeded',name,'meta.json')
        if not os.path.exists(mp) or res=='no-apply': continue
        m=json.load(open(mp))
        old='input' if m['check_result'].startswith('VIOLATION with') else ('unshown' if 'no-failing' in m['check_result'] else 'missed')
        if old==res: continue
        notes=m.get('notes') or ''
        if 'first ' not in notes:
            first={'missed':'first MISSED','unshown':'first only no-failing-input-found'}.get(old)
            if first: notes=(first+'; '+notes).strip('; ')
        notes+='; %s on the re-run of all stored changes against the final checks (tools/seedregress.sh)'%(
            {'input':'caught with input','unshown':'reported without an input','missed':'NOT detected'}[res])
        m['check_result']=TXT[res]; m['notes']=notes
        json.dump(m,open(mp,'w'),indent=1,ensure_ascii=False)
        print(name,old,'->',res); changed+=1
print('changed',changed)
