#!/bin/bash
# tools/seedregress.sh <nlanes> [pattern] — run ./check against every stored seeded change (seeded/<pattern>*/patch.diff)
# on the current /repo HEAD, in <nlanes> parallel copies of /verif (${VREGBASE:-/tmp/vreg}-<k>). Result lines: ${VREGBASE:-/tmp/vreg}-results/<name>.txt
# env ONLY / EXCEPT: extended regexes on the seed name (e.g. EXCEPT='^(C02|C04)-').
# and a summary on stdout: <name> input|unshown|MISSED|no-apply
N=${1:-4}; PAT=${2:-}
export GOFLAGS=-mod=mod GOPROXY=off
mkdir -p ${VREGBASE:-/tmp/vreg}-results; rm -f ${VREGBASE:-/tmp/vreg}-results/*.txt
HEADC=$(git -C /verif rev-parse HEAD)
for k in $(seq 0 $((N-1))); do
  V=${VREGBASE:-/tmp/vreg}-$k
  if [ ! -d $V ]; then git -C /verif worktree add -q --detach $V $HEADC; else git -C $V checkout -q -f --detach $HEADC; fi
  ( cd $V && ./setup.sh >/dev/null 2>&1 ) &
done
wait
i=0
for d in /verif/seeded/${PAT}*/; do
  name=$(basename $d)
  if [ -n "$ONLY" ] && ! echo "$name" | grep -Eq "$ONLY"; then continue; fi
  if [ -n "$EXCEPT" ] && echo "$name" | grep -Eq "$EXCEPT"; then continue; fi
  echo "$((i % N)) $name"; i=$((i+1))
done > ${VREGBASE:-/tmp/vreg}-results/plan
lane() {
  k=$1; V=${VREGBASE:-/tmp/vreg}-$k
  grep "^$k " ${VREGBASE:-/tmp/vreg}-results/plan | while read _ name; do
    P=${name%%-*}
    WT=${VREGBASE:-/tmp/vreg}-wt-$k
    git -C /repo worktree remove --force $WT 2>/dev/null; rm -rf $WT
    git -C /repo worktree add -q --detach $WT HEAD || continue
    if ! git -C $WT apply /verif/seeded/$name/patch.diff 2>/dev/null && ! git -C $WT apply --3way /verif/seeded/$name/patch.diff 2>/dev/null; then
      echo "$name no-apply" > ${VREGBASE:-/tmp/vreg}-results/$name.txt
    else
      out=$(cd $V && VERIF_REPO=$WT timeout 1500 ./check $P quick 2>&1 | grep -v KNOWN | tail -3)
      if echo "$out" | grep -q "VIOLATION.*no-failing-input-found"; then r=unshown
      elif echo "$out" | grep -q "VIOLATION"; then r=input
      else r=MISSED; fi
      echo "$name $r $(echo "$out" | tail -1)" > ${VREGBASE:-/tmp/vreg}-results/$name.txt
    fi
    git -C /repo worktree remove --force $WT 2>/dev/null
  done
}
for k in $(seq 0 $((N-1))); do lane $k & done
wait
cat ${VREGBASE:-/tmp/vreg}-results/*.txt | awk '{print $2}' | sort | uniq -c
grep -v " input " ${VREGBASE:-/tmp/vreg}-results/*.txt | cut -d: -f2- | cut -c1-200
