#!/usr/bin/env python3
"""tools/integrate_notes.py <agent-branch> Cxx [Cyy…] — take notes/Cxx.md (written by the worker that
built the property): put its MANIFEST entry into MANIFEST.json, its known_findings lines into
known_findings.txt (commit ids remapped from the worker's repo branch to /repo main by subject), and
its DESIGN update into DESIGN.md §12.3."""
import json, re, subprocess, sys, os
ROOT=os.path.dirname(os.path.dirname(os.path.abspath(__file__)))
branch=sys.argv[1]; pids=sys.argv[2:]
def gitlog(ref):
    out=subprocess.run(['git','-C','/repo','log','--format=%h\t%s',ref],capture_output=True,text=True).stdout
    return [l.split('\t',1) for l in out.strip().split('\n') if '\t' in l]
main={s:h for h,s in gitlog('main')}
br={h:s for h,s in gitlog(branch)}
def remap(line):
    def f(m):
        h=m.group(0)
        for bh,s in br.items():
            if bh.startswith(h) or h.startswith(bh):
                return main.get(s,h+'(unmerged)')
        return h
    return re.sub(r'\b[0-9a-f]{7,10}\b',f,line)
man=json.load(open(os.path.join(ROOT,'MANIFEST.json')))
kf=open(os.path.join(ROOT,'known_findings.txt')).read()
design=open(os.path.join(ROOT,'DESIGN.md')).read()
for pid in pids:
    txt=open(os.path.join(ROOT,'notes',pid+'.md')).read()
    m=re.search(r'```json\s*(\{.*?\n\})\s*```',txt,re.S)
    entry=json.loads(m.group(1))
    assert entry['property_id']==pid
    man['checks']=[c for c in man['checks'] if c['property_id']!=pid]+[entry]
    man['not_applicable']=[n for n in man.get('not_applicable',[]) if n['property_id']!=pid]
    # known findings lines: every line starting with fixed:/finding: inside code blocks
    for l in re.findall(r'^(?:fixed|finding):.*$',txt,re.M):
        l=remap(l.strip())
        if ('property=%s'%pid) in l and l not in kf:
            kf=kf.rstrip('\n')+'\n'+l+'\n'
    c=re.search(r'^## \(c\).*?$\n(.*)',txt,re.S|re.M)
    body=c.group(1).strip() if c else ''
    body=remap(body)
    marker='**%s** (worker notes).'%pid
    if marker not in design:
        design=design.rstrip('\n')+'\n\n'+marker+'\n\n'+body+'\n'
man['checks'].sort(key=lambda c:c['property_id'])
man['engines'][0]['serves_properties']=sorted(c['property_id'] for c in man['checks'])
hooks=[h for h,s in gitlog('main') if s.startswith('verif hooks:')][::-1]
man['hooks']['source_commits']=hooks
json.dump(man,open(os.path.join(ROOT,'MANIFEST.json'),'w'),indent=1)
open(os.path.join(ROOT,'known_findings.txt'),'w').write(kf)
open(os.path.join(ROOT,'DESIGN.md'),'w').write(design)
print('integrated',pids)
