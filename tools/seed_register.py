#!/usr/bin/env python3
"""tools/seed_register.py Cxx mK <input|unshown|missed> "<what it needs>" ["<what I ran / notes>"] [--patch file]
Store a confirmed seeded change under seeded/Cxx-mK/ (patch.diff, the demonstration, meta.json)."""
import json, os, shutil, sys
ROOT=os.path.dirname(os.path.dirname(os.path.abspath(__file__)))
pid,mk,res,needs=sys.argv[1:5]
notes=sys.argv[5] if len(sys.argv)>5 and not sys.argv[5].startswith('--') else ''
pre=os.environ.get('SEEDPREFIX','seed')
src='/tmp/%s-%s/out/%s'%(pre,pid,mk)
name=mk if pre=='seed' else {'s3':'w3','s4':'w4','s5':'w5','s6':'w6','s7':'w7'}.get(pre,'w2')+mk
patch=os.path.join(src,'patch.diff')
if '--patch' in sys.argv: patch=sys.argv[sys.argv.index('--patch')+1]
dst=os.path.join(ROOT,'seeded','%s-%s'%(pid,name)); os.makedirs(dst,exist_ok=True)
shutil.copy(patch,os.path.join(dst,'patch.diff'))
for f in os.listdir(src):
    if f.startswith('demo') or f=='README.md':
        shutil.copy(os.path.join(src,f),os.path.join(dst,f if f!='README.md' else 'SEEDER_README.md'))
readme=open(os.path.join(src,'README.md')).read() if os.path.exists(os.path.join(src,'README.md')) else ''
meta={'property':pid,'mutation':name,
 'breaks':readme.split('\n')[0][:300],
 'needs_to_manifest':needs,
 'confirmed':'applied in a scratch worktree of /repo HEAD: go build ./... and -tags verif ok; existing test suite passes with the change; demonstration fails with the change and passes without it (tools/seedtest.sh)',
 'check_result':{'input':'VIOLATION with a concrete failing input (replay)','unshown':'VIOLATION … no-failing-input-found (theorem/skeleton/correspondence broke, no failing input found)','missed':'NOT detected'}[res],
 'ran':'tools/seedtest.sh %s %s (VERIF_REPO=<scratch worktree> ./check %s quick)'%(pid,src,pid),
 'notes':notes}
json.dump(meta,open(os.path.join(dst,'meta.json'),'w'),indent=1)
print('registered',dst)
