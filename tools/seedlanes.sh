#!/bin/bash
# tools/seedlanes.sh <nlanes> Cxx [Cyy…] — tools/seedbatch.sh for several properties in parallel lanes,
# each lane with its own copy of /verif (/tmp/vseed-<k>). SEEDPREFIX / SKIPTESTS are passed on.
N=$1; shift
i=0
declare -A L
for P in "$@"; do k=$((i % N)); L[$k]="${L[$k]} $P"; i=$((i+1)); done
for k in "${!L[@]}"; do
  ( VSEED=/tmp/vseed-$k tools/seedbatch.sh ${L[$k]} > /tmp/vseed-results/lane-$k.out 2>&1 ) &
done
wait
cat /tmp/vseed-results/lane-*.out
