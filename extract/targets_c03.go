package main

// C03: skeleton targets (tie T3) and facts (tie T1) of "a queue runs one task at a time, head first;
// queues do not block each other".

import (
	"go/ast"
	"go/token"
	"sort"
	"strconv"
	"strings"
)

func init() {
	skeletonTargets = append(skeletonTargets,
		// the consumer: one goroutine, one DoWithLock per event, AddLast per task, in receive order
		skelTarget{Name: "ManagerEventsHandler.Start", File: "pkg/shell-operator/manager_events_handler.go",
			Recv: "ManagerEventsHandler", Func: "Start",
			Fields: []string{"Queues", "ctx"},
			Calls:  []string{"Ch", "scheduleCb", "kubeEventCb", "DoWithLock", "AddLast", "AddFirst", "GetQueueName", "Done"}},
		skelTarget{Name: "TaskQueueSet.DoWithLock", File: "pkg/task/queue/queue_set.go", Recv: "TaskQueueSet", Func: "DoWithLock",
			Fields: []string{"Queues"}, Calls: []string{"fn"}},
		skelTarget{Name: "TaskQueueSet.NewNamedQueue", File: "pkg/task/queue/queue_set.go", Recv: "TaskQueueSet", Func: "NewNamedQueue",
			Fields: []string{"Queues", "ctx"}, Calls: []string{"NewTasksQueue", "WithName", "WithHandler", "WithContext", "Start"}},
		skelTarget{Name: "TaskQueueSet.Add", File: "pkg/task/queue/queue_set.go", Recv: "TaskQueueSet", Func: "Add",
			Fields: []string{"Queues"}, Calls: []string{"Start"}},
		skelTarget{Name: "TaskQueueSet.GetByName", File: "pkg/task/queue/queue_set.go", Recv: "TaskQueueSet", Func: "GetByName",
			Fields: []string{"Queues"}, Calls: []string{}},
		skelTarget{Name: "TaskQueueSet.StartMain", File: "pkg/task/queue/queue_set.go", Recv: "TaskQueueSet", Func: "StartMain",
			Fields: []string{"Queues", "MainName"}, Calls: []string{"GetByName", "Start"}},
		skelTarget{Name: "TaskQueue.AddLast", File: "pkg/task/queue/task_queue.go", Recv: "TaskQueue", Func: "AddLast",
			Fields: []string{"items"}, Calls: []string{"withLock", "addLast", "Handler"}},
		// the handler's compaction: the callback runs and the new slice is stored inside ONE critical section of the queue lock
		skelTarget{Name: "TaskQueue.Filter", File: "pkg/task/queue/task_queue.go", Recv: "TaskQueue", Func: "Filter",
			Fields: []string{"items"}, Calls: []string{"withLock", "withRLock", "filterFn"}},
		skelTarget{Name: "TaskQueue.GetFirst", File: "pkg/task/queue/task_queue.go", Recv: "TaskQueue", Func: "GetFirst",
			Fields: []string{"items"}, Calls: []string{"isEmpty", "Handler"}},
		// Iterate (live metrics, debug endpoints) holds the read lock once: no GetMain/GetByName under it
		skelTarget{Name: "TaskQueueSet.Iterate", File: "pkg/task/queue/queue_set.go", Recv: "TaskQueueSet", Func: "Iterate",
			Fields: []string{"Queues", "MainName"}, Calls: []string{"GetMain", "GetByName", "doFn", "DoWithLock"}},
		skelTarget{Name: "TaskQueueSet.GetMain", File: "pkg/task/queue/queue_set.go", Recv: "TaskQueueSet", Func: "GetMain",
			Fields: []string{"Queues", "MainName"}, Calls: []string{"GetByName"}},
		// where the queues are created and started: one goroutine, sequential Start() calls, absent names only
		skelTarget{Name: "ShellOperator.initAndStartHookQueues", File: "pkg/shell-operator/operator.go", Recv: "ShellOperator", Func: "initAndStartHookQueues",
			Fields: []string{}, Calls: []string{"GetByName", "NewNamedQueue", "Start"}},
		skelTarget{Name: "ShellOperator.Start", File: "pkg/shell-operator/operator.go", Recv: "ShellOperator", Func: "Start",
			Fields: []string{}, Calls: []string{"bootstrapMainQueue", "StartMain", "initAndStartHookQueues", "Start"}},
	)
	factFns = append(factFns, factsC03, factsC03w3, factsC03w4)
}

// third wave: the key of the per-hook schedule links map, and the locks on the way from the task
// handler to the hook process (a lock held around the execution would couple the queues a hook is bound in)
func factsC03w3(l *leanDefs) {
	// every index expression used with c.ScheduleLinks (assignment or delete) in the schedule controller
	keys := map[string]bool{}
	if f := parse("pkg/hook/controller/schedule_bindings_controller.go"); f != nil {
		ast.Inspect(f, func(n ast.Node) bool {
			switch x := n.(type) {
			case *ast.IndexExpr:
				if sel, ok := x.X.(*ast.SelectorExpr); ok && sel.Sel.Name == "ScheduleLinks" {
					keys[exprStr(x.Index)] = true
				}
			case *ast.CallExpr:
				if id, ok := x.Fun.(*ast.Ident); ok && id.Name == "delete" && len(x.Args) == 2 {
					if sel, ok := x.Args[0].(*ast.SelectorExpr); ok && sel.Sel.Name == "ScheduleLinks" {
						keys[exprStr(x.Args[1])] = true
					}
				}
			}
			return true
		})
	} else {
		keys["<file not found>"] = true
	}
	l.def("c03_scheduleLinksKeys", "List String", leanStrList(sortedKeys(keys)),
		"pkg/hook/controller/schedule_bindings_controller.go: index expressions used with ScheduleLinks")

	// Lock/RLock calls in the functions between the queue worker and the hook process, and
	// mutex-typed fields of the Hook struct
	locks := map[string]bool{}
	scan := func(file, recv, fn string) {
		fd := findFunc(file, recv, fn)
		if fd == nil || fd.Body == nil {
			locks["<"+recv+"."+fn+" not found>"] = true
			return
		}
		ast.Inspect(fd.Body, func(n ast.Node) bool {
			if ce, ok := n.(*ast.CallExpr); ok {
				if sel, ok := ce.Fun.(*ast.SelectorExpr); ok && (sel.Sel.Name == "Lock" || sel.Sel.Name == "RLock") {
					locks[recv+"."+fn+":"+exprStr(sel.X)+"."+sel.Sel.Name] = true
				}
			}
			return true
		})
	}
	scan("pkg/shell-operator/operator.go", "ShellOperator", "taskHandler")
	scan("pkg/shell-operator/operator.go", "ShellOperator", "taskHandleHookRun")
	scan("pkg/shell-operator/operator.go", "ShellOperator", "handleRunHook")
	scan("pkg/hook/hook.go", "Hook", "Run")
	scan("pkg/hook/hook.go", "Hook", "RateLimitWait")
	scan("pkg/executor/executor.go", "Executor", "RunAndLogLines")
	scan("pkg/executor/executor.go", "Executor", "Output")
	if f := parse("pkg/hook/hook.go"); f != nil {
		ast.Inspect(f, func(n ast.Node) bool {
			ts, ok := n.(*ast.TypeSpec)
			if !ok || ts.Name.Name != "Hook" {
				return true
			}
			if st, ok := ts.Type.(*ast.StructType); ok {
				for _, fld := range st.Fields.List {
					t := exprStr(fld.Type)
					if strings.Contains(t, "Mutex") {
						for _, nm := range fld.Names {
							locks["Hook."+nm.Name+":"+t] = true
						}
					}
				}
			}
			return false
		})
	}
	l.def("c03_hookExecutionLocks", "List String", leanStrList(sortedKeys(locks)),
		"taskHandler, taskHandleHookRun, handleRunHook, Hook.Run, Hook.RateLimitWait, Executor.RunAndLogLines/Output: Lock/RLock calls; mutex fields of struct Hook")
}

// string literals assigned to a field named Queue in the hook-config converters, literals passed to
// WithMainName / NewNamedQueue / WithQueueName in operator.go, and the MainQueueName constant
func factsC03(l *leanDefs) {
	lits := map[string]bool{}
	sites := 0
	for _, rel := range []string{"pkg/hook/config/config_v0.go", "pkg/hook/config/config_v1.go"} {
		f := parse(rel)
		if f == nil {
			continue
		}
		ast.Inspect(f, func(n ast.Node) bool {
			as, ok := n.(*ast.AssignStmt)
			if !ok || len(as.Lhs) != 1 || len(as.Rhs) != 1 {
				return true
			}
			sel, ok := as.Lhs[0].(*ast.SelectorExpr)
			if !ok || sel.Sel.Name != "Queue" {
				return true
			}
			if bl, ok := as.Rhs[0].(*ast.BasicLit); ok && bl.Kind == token.STRING {
				s, _ := strconv.Unquote(bl.Value)
				lits[s] = true
				sites++
			}
			return true
		})
	}
	var keys []string
	for k := range lits {
		keys = append(keys, k)
	}
	sort.Strings(keys)
	l.def("c03_defaultQueueLiterals", "List String", leanStrList(keys), "pkg/hook/config/config_v{0,1}.go: string literals assigned to .Queue")
	l.def("c03_defaultQueueSites", "Nat", strconv.Itoa(sites), "number of such assignments")

	mainConst := "?"
	if f := parse("pkg/task/queue/queue_set.go"); f != nil {
		ast.Inspect(f, func(n ast.Node) bool {
			vs, ok := n.(*ast.ValueSpec)
			if ok && len(vs.Names) == 1 && vs.Names[0].Name == "MainQueueName" && len(vs.Values) == 1 {
				if bl, ok := vs.Values[0].(*ast.BasicLit); ok {
					mainConst, _ = strconv.Unquote(bl.Value)
				}
			}
			return true
		})
	}
	l.def("c03_mainQueueName", "String", strconv.Quote(mainConst), "pkg/task/queue/queue_set.go: MainQueueName")

	// literals naming the main queue in operator.go
	opLits := map[string]bool{}
	if f := parse("pkg/shell-operator/operator.go"); f != nil {
		ast.Inspect(f, func(n ast.Node) bool {
			ce, ok := n.(*ast.CallExpr)
			if !ok || len(ce.Args) == 0 {
				return true
			}
			sel, ok := ce.Fun.(*ast.SelectorExpr)
			if !ok {
				return true
			}
			switch sel.Sel.Name {
			case "WithMainName", "NewNamedQueue", "WithQueueName":
				if bl, ok := ce.Args[0].(*ast.BasicLit); ok && bl.Kind == token.STRING {
					s, _ := strconv.Unquote(bl.Value)
					opLits[sel.Sel.Name+":"+s] = true
				}
			}
			return true
		})
	}
	var ok2 []string
	for k := range opLits {
		ok2 = append(ok2, k)
	}
	sort.Strings(ok2)
	// which queue / queue-set methods the task handler calls (it must not hold a queue lock around the hook)
	watched := map[string]bool{"DoWithLock": true, "Lock": true, "RLock": true, "AddFirst": true, "AddLast": true,
		"AddAfter": true, "AddBefore": true, "Remove": true, "RemoveFirst": true, "RemoveLast": true, "Filter": true,
		"GetByName": true, "GetMain": true, "Iterate": true, "Start": true, "Stop": true, "NewNamedQueue": true}
	for _, fn := range []struct{ file, name string }{
		{"pkg/shell-operator/operator.go", "taskHandler"},
		{"pkg/shell-operator/operator.go", "taskHandleHookRun"},
		{"pkg/shell-operator/operator.go", "taskHandleEnableKubernetesBindings"},
		{"pkg/shell-operator/operator.go", "handleRunHook"},
		{"pkg/shell-operator/combine_binding_context.go", "combineBindingContextForHook"},
	} {
		found := map[string]bool{}
		fd := findFunc(fn.file, "ShellOperator", fn.name)
		if fd == nil || fd.Body == nil {
			found["<function not found>"] = true
		} else {
			ast.Inspect(fd.Body, func(n ast.Node) bool {
				if ce, ok := n.(*ast.CallExpr); ok {
					if sel, ok := ce.Fun.(*ast.SelectorExpr); ok && watched[sel.Sel.Name] {
						found[sel.Sel.Name] = true
					}
				}
				return true
			})
		}
		l.def("c03_queueCalls_"+fn.name, "List String", leanStrList(sortedKeys(found)), fn.file+": queue/queue-set methods called in "+fn.name)
	}
	l.def("c03_operatorQueueLiterals", "List String", leanStrList(ok2), "pkg/shell-operator/operator.go: literal queue names")
	_ = strings.Join
}

// fourth wave: which lock is taken while which other lock is held, on the paths of the queue worker
// (Start, waitForTask), of the events consumer (ManagerEventsHandler.Start: DoWithLock{AddLast}) and of
// CancelTaskDelay, following calls into the methods of TaskQueue / TaskQueueSet (depth 4). A linear walk
// in source order: `X.Lock()`/`X.RLock()` adds X to the held set, `X.Unlock()`/`X.RUnlock()` removes it
// (a deferred unlock keeps it to the end of the function), a function literal is walked where it stands
// (withLock(func(){…}), DoWithLock(func(){…})).
func factsC03w4(l *leanDefs) {
	type meth struct {
		recv string
		fd   *ast.FuncDecl
	}
	methods := map[string][]meth{}
	for _, src := range []struct{ file, recv string }{
		{"pkg/task/queue/task_queue.go", "TaskQueue"}, {"pkg/task/queue/queue_set.go", "TaskQueueSet"}} {
		f := parse(src.file)
		if f == nil {
			continue
		}
		for _, d := range f.Decls {
			fd, ok := d.(*ast.FuncDecl)
			if !ok || fd.Recv == nil || len(fd.Recv.List) != 1 || fd.Body == nil {
				continue
			}
			t := exprStr(fd.Recv.List[0].Type)
			if strings.TrimPrefix(t, "*") == src.recv {
				methods[fd.Name.Name] = append(methods[fd.Name.Name], meth{src.recv, fd})
			}
		}
	}
	pairs := map[string]bool{}
	var rows [][2]string
	note := func(held []string, inner string) {
		for _, h := range held {
			k := h + ">" + inner
			if !pairs[k] {
				pairs[k] = true
				rows = append(rows, [2]string{h, inner})
			}
		}
	}
	var walk func(recv string, body ast.Node, held []string, depth int) []string
	walk = func(recv string, body ast.Node, held []string, depth int) []string {
		var deferred map[ast.Node]bool = map[ast.Node]bool{}
		ast.Inspect(body, func(n ast.Node) bool {
			switch x := n.(type) {
			case *ast.DeferStmt:
				// `defer X.Unlock()` releases at the end: ignore the call; a deferred literal is walked (it runs last)
				if sel, ok := x.Call.Fun.(*ast.SelectorExpr); ok && (sel.Sel.Name == "Unlock" || sel.Sel.Name == "RUnlock") {
					deferred[x.Call] = true
				}
			case *ast.CallExpr:
				if deferred[x] {
					return false
				}
				sel, ok := x.Fun.(*ast.SelectorExpr)
				if !ok {
					return true
				}
				name := sel.Sel.Name
				if id, ok := sel.X.(*ast.Ident); ok && id.Obj == nil {
					return true // package-qualified call (time.Since, slog.String, …)
				}
				switch name {
				case "Lock", "RLock":
					if inner, ok := sel.X.(*ast.SelectorExpr); ok {
						id := recv + "." + inner.Sel.Name
						note(held, id)
						held = append(append([]string(nil), held...), id)
					}
					return false
				case "Unlock", "RUnlock":
					if inner, ok := sel.X.(*ast.SelectorExpr); ok {
						id := recv + "." + inner.Sel.Name
						var nh []string
						dropped := false
						for i := len(held) - 1; i >= 0; i-- {
							if !dropped && held[i] == id {
								dropped = true
								continue
							}
							nh = append([]string{held[i]}, nh...)
						}
						held = nh
					}
					return false
				}
				// a call of a method of the queue / the queue set: walk its body with what is held now.
				// The function-literal arguments are walked by that body's call of them (fn(), doFn(…)) —
				// approximated: the method's own locks are entered first, then the literal is walked inside.
				cands := methods[name]
				var m *meth
				switch {
				case len(cands) == 1:
					m = &cands[0]
				case len(cands) > 1:
					for i := range cands {
						if id, ok := sel.X.(*ast.Ident); ok && cands[i].recv == recv && (id.Name == "q" || id.Name == "tqs") {
							m = &cands[i]
						}
					}
				}
				if m == nil || depth >= 4 {
					return true
				}
				inside := walk(m.recv, m.fd.Body, held, depth+1)
				_ = inside
				// literals passed to withLock / withRLock / DoWithLock / Iterate run under that method's lock
				lockOf := map[string]string{"withLock": "m", "withRLock": "m", "DoWithLock": "m", "Iterate": "m", "Filter": "m"}
				for _, a := range x.Args {
					if fl, ok := a.(*ast.FuncLit); ok {
						h2 := held
						if f, ok := lockOf[name]; ok {
							h2 = append(append([]string(nil), held...), m.recv+"."+f)
						}
						// inside the literal the receiver type is the caller's (q.addLast inside AddLast's literal);
						// a literal given to the set's DoWithLock works on queues: TaskQueue methods resolve by name
						walk(recv, fl.Body, h2, depth+1)
					}
				}
				return false
			}
			return true
		})
		return held
	}
	for _, start := range []struct{ file, recv, fn, as string }{
		{"pkg/task/queue/task_queue.go", "TaskQueue", "Start", "TaskQueue"},
		{"pkg/task/queue/task_queue.go", "TaskQueue", "waitForTask", "TaskQueue"},
		{"pkg/task/queue/task_queue.go", "TaskQueue", "CancelTaskDelay", "TaskQueue"},
		{"pkg/task/queue/task_queue.go", "TaskQueue", "AddLast", "TaskQueue"},
		{"pkg/shell-operator/manager_events_handler.go", "ManagerEventsHandler", "Start", "TaskQueue"},
	} {
		fd := findFunc(start.file, start.recv, start.fn)
		if fd == nil || fd.Body == nil {
			rows = append(rows, [2]string{"<" + start.recv + "." + start.fn + " not found>", ""})
			continue
		}
		walk(start.as, fd.Body, nil, 0)
	}
	sort.Slice(rows, func(i, j int) bool { return rows[i][0]+">"+rows[i][1] < rows[j][0]+">"+rows[j][1] })
	var parts []string
	for _, r := range rows {
		parts = append(parts, "("+strconv.Quote(r[0])+", "+strconv.Quote(r[1])+")")
	}
	l.def("c03_lockNesting", "List (String × String)", "["+strings.Join(parts, ", ")+"]",
		"task_queue.go Start/waitForTask/CancelTaskDelay/AddLast, manager_events_handler.go Start, and the queue / queue-set methods they call: (lock held, lock taken)")
}
