package main

import (
	"fmt"
	"go/ast"
	"go/token"
	"math"
	"strconv"
)

// C04 facts: the constants of pkg/utils/exponential_backoff/delay.go and the queue's default
// initial delay (pkg/task/queue/task_queue.go), as integer nanoseconds.
// ExponentialCalculationsCount is the Go expression int(math.Log(max.Seconds())/math.Log(factor)):
// it is evaluated here with the same float64 operations (and the harness compares the result with
// the value of the real package variable).

var c04Units = map[string]int64{"Nanosecond": 1, "Microsecond": 1e3, "Millisecond": 1e6, "Second": 1e9, "Minute": 60e9, "Hour": 3600e9}

// c04Dur evaluates `N * time.Unit`, `time.Unit * N`, `time.Unit` or a plain integer literal.
func c04Dur(e ast.Expr) (int64, bool) {
	switch x := e.(type) {
	case *ast.BasicLit:
		if x.Kind == token.INT {
			n, err := strconv.ParseInt(x.Value, 0, 64)
			return n, err == nil
		}
	case *ast.SelectorExpr:
		if id, ok := x.X.(*ast.Ident); ok && id.Name == "time" {
			u, ok := c04Units[x.Sel.Name]
			return u, ok
		}
	case *ast.ParenExpr:
		return c04Dur(x.X)
	case *ast.BinaryExpr:
		if x.Op == token.MUL {
			a, ok1 := c04Dur(x.X)
			b, ok2 := c04Dur(x.Y)
			return a * b, ok1 && ok2
		}
	}
	return 0, false
}

func c04Value(file, name string) ast.Expr {
	f := parse(file)
	if f == nil {
		return nil
	}
	for _, d := range f.Decls {
		gd, ok := d.(*ast.GenDecl)
		if !ok {
			continue
		}
		for _, s := range gd.Specs {
			vs, ok := s.(*ast.ValueSpec)
			if !ok {
				continue
			}
			for i, n := range vs.Names {
				if n.Name == name && i < len(vs.Values) {
					return vs.Values[i]
				}
			}
		}
	}
	return nil
}

func init() {
	factFns = append(factFns, func(l *leanDefs) {
		const df = "pkg/utils/exponential_backoff/delay.go"
		const qf = "pkg/task/queue/task_queue.go"
		stale := false
		maxNs, ok := c04Dur(c04Value(df, "MaxExponentialBackoffDelay"))
		stale = stale || !ok
		rndMs, ok := c04Dur(c04Value(df, "ExponentialDelayRandomMs"))
		stale = stale || !ok
		initNs, ok := c04Dur(c04Value(qf, "DefaultInitialDelayOnFailedTask"))
		stale = stale || !ok
		factor := int64(0)
		if bl, ok := c04Value(df, "ExponentialDelayFactor").(*ast.BasicLit); ok {
			fv, err := strconv.ParseFloat(bl.Value, 64)
			if err == nil && fv == math.Trunc(fv) && fv >= 2 {
				factor = int64(fv)
			} else {
				stale = true
			}
		} else {
			stale = true
		}
		// the Truncate argument and the shape of the count expression, inside the function bodies
		truncNs := int64(0)
		if fd := findFunc(df, "", "CalculateDelayWithMax"); fd != nil {
			ast.Inspect(fd.Body, func(n ast.Node) bool {
				if c, ok := n.(*ast.CallExpr); ok {
					if s, ok := c.Fun.(*ast.SelectorExpr); ok && s.Sel.Name == "Truncate" && len(c.Args) == 1 {
						if v, ok := c04Dur(c.Args[0]); ok {
							truncNs = v
						}
					}
				}
				return true
			})
		}
		if truncNs == 0 {
			stale = true
		}
		expCount := int64(0)
		if c04ExprShape(c04Value(df, "ExponentialCalculationsCount")) == "int(math.Log(MaxExponentialBackoffDelay.Seconds())/math.Log(ExponentialDelayFactor))" && factor >= 2 {
			expCount = int64(int(math.Log(float64(maxNs)/1e9) / math.Log(float64(factor))))
		} else {
			stale = true
		}
		l.def("c04MaxDelayNs", "Nat", fmt.Sprint(maxNs), df+": MaxExponentialBackoffDelay")
		l.def("c04Factor", "Nat", fmt.Sprint(factor), df+": ExponentialDelayFactor")
		l.def("c04RandomMs", "Nat", fmt.Sprint(rndMs), df+": ExponentialDelayRandomMs")
		l.def("c04ExpCount", "Nat", fmt.Sprint(expCount), df+": ExponentialCalculationsCount (expression evaluated with float64)")
		l.def("c04TruncNs", "Nat", fmt.Sprint(truncNs), df+": delay.Truncate(…)")
		l.def("c04InitialDelayNs", "Nat", fmt.Sprint(initNs), qf+": DefaultInitialDelayOnFailedTask")
		l.def("c04FactsStale", "Bool", fmt.Sprint(stale), "extractor: an expected syntactic shape was not found")
	})
	skeletonTargets = append(skeletonTargets,
		skelTarget{Name: "CalculateDelayWithMax", File: "pkg/utils/exponential_backoff/delay.go", Recv: "", Func: "CalculateDelayWithMax",
			Calls: []string{"Pow", "Int64N", "Truncate", "Nanoseconds", "Duration", "int64", "float64"}},
		skelTarget{Name: "C04.taskHandleHookRun", File: "pkg/shell-operator/operator.go", Recv: "ShellOperator", Func: "taskHandleHookRun",
			Fields: []string{"AllowFailure", "ExecuteOnSynchronization", "BindingContext", "MonitorIDs", "Status", "Version", "Group", "BindingType"},
			Calls:  []string{"combineBindingContextForHook", "handleRunHook", "UpdateMetadata", "UnlockKubernetesEventsFor", "IsSynchronization", "RateLimitWait", "UpdateFailureMessage", "HookMetadataAccessor"}},
		// the decode loop of the metrics file (Model/HookOutput.loop): Decode until io.EOF, any other error is returned
		skelTarget{Name: "C04.MetricOperationsFromReader", File: "pkg/metric_storage/operation/operation.go", Recv: "", Func: "MetricOperationsFromReader",
			Fields: []string{"Set", "Add", "Action", "Value"},
			Calls:  []string{"NewDecoder", "Decode", "More", "Token", "Buffered", "InputOffset", "Unmarshal", "ReadAll"}},
		// Model/Wait.cancelTaskDelay: the flag is set only while a wait is in progress (waitForTask itself: skeleton TaskQueue.waitForTask)
		skelTarget{Name: "C04.CancelTaskDelay", File: "pkg/task/queue/task_queue.go", Recv: "TaskQueue", Func: "CancelTaskDelay",
			Fields: []string{"cancelDelay", "waitInProgress"}},
		// Model/HookOutput.ProcEnd.success: cmd.Run() != nil is the failure, no look at the exit code
		skelTarget{Name: "C04.RunAndLogLines", File: "pkg/executor/executor.go", Recv: "Executor", Func: "RunAndLogLines",
			Fields: []string{"ProcessState"},
			Calls:  []string{"Run", "Start", "Wait", "ExitCode", "Exited", "Success", "Errorf", "Bytes", "Signaled"}},
		// Model/Payload.updateSnapshots: a NEW list is built from struct copies (make, append), Snapshots / Objects
		// are written on the copy; Model/Payload.hookRunH: Hook.Run writes the file from the refreshed copy and
		// writes no Objects / Snapshots itself
		skelTarget{Name: "C04.UpdateSnapshots", File: "pkg/hook/controller/hook_controller.go", Recv: "HookController", Func: "UpdateSnapshots",
			Fields: []string{"Snapshots", "Objects", "IncludeSnapshots", "BindingType", "Type", "Binding", "KubernetesController"},
			Calls:  []string{"make", "append", "SnapshotsFor", "getIncludeSnapshotsFrom"}},
		skelTarget{Name: "C04.HookRun", File: "pkg/hook/hook.go", Recv: "Hook", Func: "Run",
			Fields: []string{"Snapshots", "Objects", "BindingContext"},
			Calls:  []string{"UpdateSnapshots", "ConvertBindingContextList", "prepareBindingContextJsonFile", "RunAndLogLines"}},
		// Model/HookOutput.validOp and applyOp: which combinations the validation accepts and which branches
		// apply an operation (sixth wave: accepted => applied)
		skelTarget{Name: "C04.ValidateMetricOperation", File: "pkg/metric_storage/operation/operation.go", Recv: "", Func: "ValidateMetricOperation",
			Fields: []string{"Action", "Group", "Name", "Value", "Buckets", "Set", "Add"},
			Calls:  []string{"Append", "ErrorOrNil"}},
		skelTarget{Name: "C04.applyGroupOperations", File: "pkg/metric_storage/metric_storage.go", Recv: "MetricStorage", Func: "applyGroupOperations",
			Fields: []string{"Action", "Value", "Set", "Add", "Buckets"},
			Calls:  []string{"ExpireGroupMetrics", "CounterAdd", "GaugeSet", "HistogramObserve"}},
		skelTarget{Name: "C04.sendBatchV0", File: "pkg/metric_storage/metric_storage.go", Recv: "MetricStorage", Func: "sendBatchV0",
			Fields: []string{"Action", "Value", "Set", "Add", "Buckets"},
			Calls:  []string{"CounterAdd", "GaugeSet", "HistogramObserve", "Errorf"}},
		skelTarget{Name: "C04.SendBatch", File: "pkg/metric_storage/metric_storage.go", Recv: "MetricStorage", Func: "SendBatch",
			Fields: []string{"Group"},
			Calls:  []string{"ValidateOperations", "applyGroupOperations", "sendBatchV0"}},
	)
}

// exprShape prints an expression with full selector/call structure (for shape checks).
func c04ExprShape(e ast.Expr) string {
	switch x := e.(type) {
	case nil:
		return ""
	case *ast.Ident:
		return x.Name
	case *ast.SelectorExpr:
		return c04ExprShape(x.X) + "." + x.Sel.Name
	case *ast.BasicLit:
		return x.Value
	case *ast.CallExpr:
		s := c04ExprShape(x.Fun) + "("
		for i, a := range x.Args {
			if i > 0 {
				s += ","
			}
			s += c04ExprShape(a)
		}
		return s + ")"
	case *ast.BinaryExpr:
		return c04ExprShape(x.X) + x.Op.String() + c04ExprShape(x.Y)
	case *ast.ParenExpr:
		return "(" + c04ExprShape(x.X) + ")"
	}
	return "_"
}
