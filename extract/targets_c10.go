package main

import (
	"go/ast"
	"go/token"
	"sort"
	"strconv"
	"strings"
)

// C10 facts (tie T1): the defaults the hook-config conversion applies, read from the sources.
// A shape the extractor does not recognise yields the value "<stale:…>" (or -1), which breaks the
// `defaults` theorems instead of silently keeping an old constant.

// c10Assigns lists, in source order, the right-hand sides assigned to `lhs` (e.g. "kubeConfig.Queue")
// inside one function.
func c10Assigns(file, recv, fn, lhs string) []ast.Expr {
	fd := findFunc(file, recv, fn)
	if fd == nil || fd.Body == nil {
		return nil
	}
	var out []ast.Expr
	ast.Inspect(fd.Body, func(n ast.Node) bool {
		as, ok := n.(*ast.AssignStmt)
		if !ok {
			return true
		}
		for i, l := range as.Lhs {
			if exprStr(l) == lhs && i < len(as.Rhs) {
				out = append(out, as.Rhs[i])
			}
		}
		return true
	})
	return out
}

// c10StringConsts reads `Name Type = "value"` constants of a file.
func c10StringConsts(file string) map[string]string {
	res := map[string]string{}
	f := parse(file)
	if f == nil {
		return res
	}
	for _, d := range f.Decls {
		gd, ok := d.(*ast.GenDecl)
		if !ok || gd.Tok != token.CONST {
			continue
		}
		for _, s := range gd.Specs {
			vs := s.(*ast.ValueSpec)
			for i, n := range vs.Names {
				if i < len(vs.Values) {
					if bl, ok := vs.Values[i].(*ast.BasicLit); ok && bl.Kind == token.STRING {
						if v, err := strconv.Unquote(bl.Value); err == nil {
							res[n.Name] = v
						}
					}
				}
			}
		}
	}
	return res
}

// well-known constants of k8s.io/api/admissionregistration/v1 used as defaults
var c10K8sConsts = map[string]string{"SideEffectClassNone": "None", "Fail": "Fail", "Ignore": "Ignore"}

// c10Str evaluates a default-value expression to a string: a literal, `string(pkg.Const)`, `pkg.Const`.
func c10Str(e ast.Expr, consts map[string]string) string {
	switch x := e.(type) {
	case *ast.BasicLit:
		if x.Kind == token.STRING {
			if v, err := strconv.Unquote(x.Value); err == nil {
				return v
			}
		}
	case *ast.CallExpr:
		if id, ok := x.Fun.(*ast.Ident); ok && id.Name == "string" && len(x.Args) == 1 {
			return c10Str(x.Args[0], consts)
		}
	case *ast.SelectorExpr:
		if v, ok := consts[x.Sel.Name]; ok {
			return v
		}
		if v, ok := c10K8sConsts[x.Sel.Name]; ok {
			return v
		}
	}
	return "<stale:" + exprStr(e) + ">"
}

func c10FirstLit(exprs []ast.Expr, consts map[string]string) string {
	for _, e := range exprs {
		s := c10Str(e, consts)
		if !strings.HasPrefix(s, "<stale:") {
			return s
		}
	}
	if len(exprs) > 0 {
		return c10Str(exprs[0], consts)
	}
	return "<stale:not-found>"
}

func c10FirstBool(exprs []ast.Expr) string {
	if len(exprs) > 0 {
		if id, ok := exprs[0].(*ast.Ident); ok && (id.Name == "true" || id.Name == "false") {
			return id.Name
		}
	}
	return "(\"<stale>\" == \"\")"
}

// c10CallArg: the (only) argument of the only call of `callee` inside one function, as source text
// (`exprStr`: identifiers and selectors verbatim, a call as `f()`); "<stale:…>" for any other shape.
func c10CallArg(file, recv, fn, callee string) string {
	fd := findFunc(file, recv, fn)
	if fd == nil || fd.Body == nil {
		return "<stale:" + fn + ">"
	}
	var found []string
	ast.Inspect(fd.Body, func(n ast.Node) bool {
		if c, ok := n.(*ast.CallExpr); ok {
			name := ""
			switch f := c.Fun.(type) {
			case *ast.Ident:
				name = f.Name
			case *ast.SelectorExpr:
				name = f.Sel.Name
			}
			if name == callee {
				if len(c.Args) == 1 {
					found = append(found, exprStr(c.Args[0]))
				} else {
					found = append(found, "<stale:args>")
				}
			}
		}
		return true
	})
	if len(found) != 1 {
		return "<stale:" + fn + " calls " + callee + " " + strconv.Itoa(len(found)) + " times>"
	}
	return found[0]
}

// c10LitField: the value given to `key` in the composite literals of one function (exactly one), as source text.
func c10LitField(file, recv, fn, key string) string {
	fd := findFunc(file, recv, fn)
	if fd == nil || fd.Body == nil {
		return "<stale:" + fn + ">"
	}
	var found []string
	ast.Inspect(fd.Body, func(n ast.Node) bool {
		if kv, ok := n.(*ast.KeyValueExpr); ok {
			if id, ok := kv.Key.(*ast.Ident); ok && id.Name == key {
				found = append(found, exprStr(kv.Value))
			}
		}
		return true
	})
	// an assignment `x.Crontab = …` anywhere in the function overrides the literal: report it
	ast.Inspect(fd.Body, func(n ast.Node) bool {
		if as, ok := n.(*ast.AssignStmt); ok {
			for _, l := range as.Lhs {
				if se, ok := l.(*ast.SelectorExpr); ok && se.Sel.Name == key {
					found = append(found, "<stale:assigned>")
				}
			}
		}
		return true
	})
	if len(found) != 1 {
		return "<stale:" + fn + " sets " + key + " " + strconv.Itoa(len(found)) + " times>"
	}
	return found[0]
}

func init() {
	factFns = append(factFns, func(l *leanDefs) {
		const v1f = "pkg/hook/config/config_v1.go"
		const v0f = "pkg/hook/config/config_v0.go"
		bt := c10StringConsts("pkg/hook/types/bindings.go")
		q := strconv.Quote
		l.def("c10DefaultKubeName", "String", q(c10FirstLit(c10Assigns(v1f, "HookConfigV1", "ConvertAndCheck", "kubeConfig.BindingName"), bt)), v1f+" ConvertAndCheck kubeConfig.BindingName")
		l.def("c10DefaultQueueKube", "String", q(c10FirstLit(c10Assigns(v1f, "HookConfigV1", "ConvertAndCheck", "kubeConfig.Queue"), bt)), v1f+" ConvertAndCheck kubeConfig.Queue")
		l.def("c10DefaultExecOnSync", "Bool", c10FirstBool(c10Assigns(v1f, "HookConfigV1", "ConvertAndCheck", "kubeConfig.ExecuteHookOnSynchronization")), v1f)
		l.def("c10DefaultWaitForSync", "Bool", c10FirstBool(c10Assigns(v1f, "HookConfigV1", "ConvertAndCheck", "kubeConfig.WaitForSynchronization")), v1f)
		l.def("c10DefaultKeepFull", "Bool", c10FirstBool(c10Assigns(v1f, "HookConfigV1", "ConvertAndCheck", "kubeConfig.KeepFullObjectsInMemory")), v1f)
		l.def("c10DefaultSchedName", "String", q(c10FirstLit(c10Assigns(v1f, "HookConfigV1", "ConvertSchedule", "res.BindingName"), bt)), v1f+" ConvertSchedule res.BindingName")
		l.def("c10DefaultQueueSched", "String", q(c10FirstLit(c10Assigns(v1f, "HookConfigV1", "ConvertSchedule", "res.Queue"), bt)), v1f+" ConvertSchedule res.Queue")
		l.def("c10DefaultSideEffects", "String", q(c10FirstLit(c10Assigns(v1f, "", "convertValidating", "DefaultSideEffects"), bt)), v1f+" convertValidating DefaultSideEffects")
		l.def("c10DefaultMutatingPolicy", "String", q(c10FirstLit(c10Assigns(v1f, "", "convertMutating", "DefaultFailurePolicy"), bt)), v1f+" convertMutating DefaultFailurePolicy")
		// DefaultTimeoutSeconds := int32(10)
		timeout := "-1"
		for _, e := range c10Assigns(v1f, "", "convertValidating", "DefaultTimeoutSeconds") {
			if c, ok := e.(*ast.CallExpr); ok && len(c.Args) == 1 {
				if bl, ok := c.Args[0].(*ast.BasicLit); ok && bl.Kind == token.INT {
					timeout = bl.Value
				}
			}
		}
		l.def("c10DefaultTimeout", "Int", timeout, v1f+" convertValidating DefaultTimeoutSeconds")
		// WithEventTypes(nil): the composite literal assigned to c.EventTypes in the `types == nil` branch
		wt := c10StringConsts("pkg/kube_events_manager/types/types.go")
		var evs []string
		for _, e := range c10Assigns("pkg/kube_events_manager/monitor_config.go", "MonitorConfig", "WithEventTypes", "c.EventTypes") {
			if cl, ok := e.(*ast.CompositeLit); ok && len(cl.Elts) > 0 && len(evs) == 0 {
				for _, el := range cl.Elts {
					evs = append(evs, c10Str(el, wt))
				}
			}
		}
		if len(evs) == 0 {
			evs = []string{"<stale:WithEventTypes>"}
		}
		l.def("c10DefaultEvents", "List String", leanStrList(evs), "pkg/kube_events_manager/monitor_config.go WithEventTypes")
		// v0
		l.def("c10DefaultKubeNameV0", "String", q(c10FirstLit(c10Assigns(v0f, "HookConfigV0", "ConvertAndCheck", "kubeConfig.BindingName"), bt)), v0f)
		l.def("c10DefaultQueueV0Kube", "String", q(c10FirstLit(c10Assigns(v0f, "HookConfigV0", "ConvertAndCheck", "kubeConfig.Queue"), bt)), v0f)
		l.def("c10DefaultQueueV0Sched", "String", q(c10FirstLit(c10Assigns(v0f, "HookConfigV0", "ConvertSchedule", "res.Queue"), bt)), v0f)
		// the crontab expression CheckSchedule hands to ParseCrontab and the one ConvertSchedule stores in
		// ScheduleEntry.Crontab (the text the schedule manager gives to cron.AddFunc): validated = stored
		l.def("c10CheckedCrontabV1", "String", q(c10CallArg(v1f, "HookConfigV1", "CheckSchedule", "ParseCrontab")), v1f+" CheckSchedule ParseCrontab(arg)")
		l.def("c10StoredCrontabV1", "String", q(c10LitField(v1f, "HookConfigV1", "ConvertSchedule", "Crontab")), v1f+" ConvertSchedule ScheduleEntry{Crontab:}")
		l.def("c10CheckedCrontabV0", "String", q(c10CallArg(v0f, "HookConfigV0", "CheckSchedule", "ParseCrontab")), v0f+" CheckSchedule ParseCrontab(arg)")
		l.def("c10StoredCrontabV0", "String", q(c10LitField(v0f, "HookConfigV0", "ConvertSchedule", "Crontab")), v0f+" ConvertSchedule ScheduleEntry{Crontab:}")
		// versions that have a schema: keys of the Schemas map literal
		var vers []string
		if f := parse("pkg/hook/config/schemas.go"); f != nil {
			ast.Inspect(f, func(n ast.Node) bool {
				vs, ok := n.(*ast.ValueSpec)
				if !ok || len(vs.Names) != 1 || vs.Names[0].Name != "Schemas" || len(vs.Values) != 1 {
					return true
				}
				if cl, ok := vs.Values[0].(*ast.CompositeLit); ok {
					for _, el := range cl.Elts {
						if kv, ok := el.(*ast.KeyValueExpr); ok {
							vers = append(vers, c10Str(kv.Key, nil))
						}
					}
				}
				return false
			})
		}
		sort.Strings(vers)
		l.def("c10SchemaVersions", "List String", leanStrList(vers), "pkg/hook/config/schemas.go Schemas")
	})
}

// C10 skeletons (tie T3): the order of steps of the loader and of the v1 conversion.
func init() {
	skeletonTargets = append(skeletonTargets,
		skelTarget{Name: "HookConfig.LoadAndValidate", File: "pkg/hook/config/config.go", Recv: "HookConfig", Func: "LoadAndValidate",
			Fields: []string{"Version"},
			Calls:  []string{"NewDefaultVersionedUntyped", "Load", "ValidateConfig", "GetSchema", "ConvertAndCheck"}},
		skelTarget{Name: "HookConfigV1.ConvertAndCheck.steps", File: "pkg/hook/config/config_v1.go", Recv: "HookConfigV1", Func: "ConvertAndCheck",
			Fields: []string{"Settings", "OnStartup", "OnKubernetesEvents", "Schedules", "KubernetesValidating", "KubernetesMutating", "KubernetesConversion"},
			Calls: []string{"CheckAndConvertSettings", "ConvertOnStartup", "CheckOnKubernetesEvent", "CheckIncludeSnapshots", "CheckSchedule", "ConvertSchedule",
				"CheckAdmission", "convertValidating", "ValidateValidatingWebhooks", "convertMutating", "CheckConversion", "ConvertConversion", "MergeArrays", "WithEventTypes"}},
	)
}
