package main

// C16 facts (tie T1): the two lists of accepted actions of operation.ValidateMetricOperation
// (`if op.Group == "" { if op.Action != "set" && … } else { if op.Action != "expire" && … }`).

import (
	"bytes"
	"go/ast"
	"go/printer"
	"go/token"
	"strconv"
)

func init() { factFns = append(factFns, c16Facts) }

// c16NeqChain reads `op.Action != "a" && op.Action != "b" …` into [a b …]; ok=false on any other shape.
func c16NeqChain(e ast.Expr) ([]string, bool) {
	switch x := e.(type) {
	case *ast.ParenExpr:
		return c16NeqChain(x.X)
	case *ast.BinaryExpr:
		if x.Op == token.LAND {
			l, ok1 := c16NeqChain(x.X)
			r, ok2 := c16NeqChain(x.Y)
			return append(l, r...), ok1 && ok2
		}
		if x.Op == token.NEQ && exprStr(x.X) == "op.Action" {
			if lit, ok := x.Y.(*ast.BasicLit); ok && lit.Kind == token.STRING {
				s, err := strconv.Unquote(lit.Value)
				return []string{s}, err == nil
			}
		}
	}
	return nil, false
}

func c16Facts(l *leanDefs) {
	src := "pkg/metric_storage/operation/operation.go ValidateMetricOperation"
	var ungrouped, grouped []string
	stale := true
	if fd := findFunc("pkg/metric_storage/operation/operation.go", "", "ValidateMetricOperation"); fd != nil && fd.Body != nil {
		for _, s := range fd.Body.List {
			is, ok := s.(*ast.IfStmt)
			if !ok {
				continue
			}
			be, ok := is.Cond.(*ast.BinaryExpr)
			if !ok || be.Op != token.EQL || exprStr(be.X) != "op.Group" || exprStr(be.Y) != `""` {
				continue
			}
			first := func(b *ast.BlockStmt) ([]string, bool) {
				if b == nil || len(b.List) != 1 {
					return nil, false
				}
				inner, ok := b.List[0].(*ast.IfStmt)
				if !ok {
					return nil, false
				}
				return c16NeqChain(inner.Cond)
			}
			eb, _ := is.Else.(*ast.BlockStmt)
			u, ok1 := first(is.Body)
			g, ok2 := first(eb)
			if ok1 && ok2 {
				ungrouped, grouped, stale = u, g, false
			}
		}
	}
	l.def("c16UngroupedActions", "List String", leanStrList(ungrouped), src)
	l.def("c16GroupedActions", "List String", leanStrList(grouped), src)
	l.def("c16Stale", "Bool", map[bool]string{true: "true", false: "false"}[stale], src)
	l.def("c16ReaderLoop", "List String", leanStrList(c16ReaderLoop()), "pkg/metric_storage/operation/operation.go MetricOperationsFromReader")
	l.def("c16ReaderWrites", "List String", leanStrList(c16ReaderWrites()), "pkg/metric_storage/operation/operation.go MetricOperationsFromReader")
	l.def("c16VaultNames", "List String", leanStrList(c16VaultNames()), "pkg/metric_storage/vault/vault.go GetOrCreate{Counter,Gauge}Collector")
	l.def("c16VecNames", "List String", leanStrList(c16VecNames()), "pkg/metric_storage/metric_storage.go Gauge/RegisterGauge/Counter/RegisterCounter/Histogram/RegisterHistogram")
}

func c16Print(n any) string {
	var b bytes.Buffer
	if printer.Fprint(&b, token.NewFileSet(), n) != nil {
		return "?"
	}
	return b.String()
}

// c16ReaderWrites lists, in source order, every place the loop of MetricOperationsFromReader writes to
// after Decode: the targets of its assignments (and ++/--), and the calls whose argument is the address of
// the decoded operation. The model's `normalize` writes Action and Value only: name, group and labels
// reach SendBatch exactly as decoded.
func c16ReaderWrites() []string {
	fd := findFunc("pkg/metric_storage/operation/operation.go", "", "MetricOperationsFromReader")
	if fd == nil || fd.Body == nil {
		return []string{"?"}
	}
	var out []string
	for _, s := range fd.Body.List {
		fs, ok := s.(*ast.ForStmt)
		if !ok || fs.Body == nil {
			continue
		}
		ast.Inspect(fs.Body, func(n ast.Node) bool {
			switch x := n.(type) {
			case *ast.AssignStmt:
				for _, lhs := range x.Lhs {
					out = append(out, c16Print(lhs))
				}
			case *ast.IncDecStmt:
				out = append(out, c16Print(x.X))
			case *ast.CallExpr:
				for _, a := range x.Args {
					if u, ok := a.(*ast.UnaryExpr); ok && u.Op == token.AND {
						out = append(out, c16Print(x.Fun)+"(&"+c16Print(u.X)+")")
					}
				}
			}
			return true
		})
	}
	if len(out) == 0 {
		return []string{"?"}
	}
	return out
}

// c16VaultNames lists, per function, every use of a metric name in the grouped vault's get-or-create path:
// the resolution, the index expressions of `v.collectors` (lookup, store), the name given to the new
// collector (= the name registered in the registry), and what CounterAdd / GaugeSet hand over.
func c16VaultNames() []string {
	var out []string
	for _, fn := range []string{"GetOrCreateCounterCollector", "GetOrCreateGaugeCollector", "CounterAdd", "GaugeSet"} {
		fd := findFunc("pkg/metric_storage/vault/vault.go", "GroupedVault", fn)
		if fd == nil || fd.Body == nil {
			return []string{"?"}
		}
		out = append(out, fn+":")
		ast.Inspect(fd.Body, func(n ast.Node) bool {
			switch x := n.(type) {
			case *ast.AssignStmt:
				if len(x.Rhs) == 1 {
					if c, ok := x.Rhs[0].(*ast.CallExpr); ok && exprStr(c.Fun) == "v.resolveMetricNameFunc" {
						out = append(out, c16Print(x))
					}
				}
			case *ast.IndexExpr:
				if exprStr(x.X) == "v.collectors" {
					out = append(out, c16Print(x))
				}
			case *ast.CallExpr:
				f := exprStr(x.Fun)
				for _, want := range []string{"metric.NewConstCounterCollector", "metric.NewConstGaugeCollector", "v.GetOrCreateCounterCollector", "v.GetOrCreateGaugeCollector"} {
					if f == want && len(x.Args) > 0 {
						out = append(out, f+"("+c16Print(x.Args[0])+", _)")
					}
				}
			}
			return true
		})
	}
	return out
}

// c16ReaderLoop reads the head of the loop of MetricOperationsFromReader
//
//	for { var op MetricOperation; if err := dec.Decode(&op); <A> { break } else if <B> { return nil, err } … }
//
// into [init, A, "break", B, "return nil, err"]; any other shape gives ["?"]. The byte-level model of the
// reader (HookOutput.loop) ends quietly on io.EOF only and fails on every other error of Decode.
func c16ReaderLoop() []string {
	str := func(n any) string {
		var b bytes.Buffer
		if printer.Fprint(&b, token.NewFileSet(), n) != nil {
			return "?"
		}
		return b.String()
	}
	fd := findFunc("pkg/metric_storage/operation/operation.go", "", "MetricOperationsFromReader")
	if fd == nil || fd.Body == nil {
		return []string{"?"}
	}
	for _, s := range fd.Body.List {
		fs, ok := s.(*ast.ForStmt)
		if !ok || fs.Cond != nil || fs.Init != nil || fs.Post != nil || fs.Body == nil {
			continue
		}
		for _, b := range fs.Body.List {
			is, ok := b.(*ast.IfStmt)
			if !ok || is.Init == nil {
				continue
			}
			el, ok := is.Else.(*ast.IfStmt)
			if !ok || el.Else != nil || el.Init != nil || len(is.Body.List) != 1 || len(el.Body.List) != 1 {
				return []string{"?"}
			}
			return []string{str(is.Init), str(is.Cond), str(is.Body.List[0]), str(el.Cond), str(el.Body.List[0])}
		}
	}
	return []string{"?"}
}

// C16 skeletons (tie T3): the vault holds its lock from the lookup of a collector to the store of the
// newly registered one (the model's getOrCreateColl is ONE atomic step); HashLabelValues feeds every
// label value, each followed by the separator, to the hasher (the model keys a series by its values).
func init() {
	skeletonTargets = append(skeletonTargets,
		skelTarget{Name: "C16.GroupedVault.GetOrCreateCounterCollector", File: "pkg/metric_storage/vault/vault.go", Recv: "GroupedVault", Func: "GetOrCreateCounterCollector",
			Fields: []string{"collectors", "registerer"},
			Calls:  []string{"NewConstCounterCollector", "Register", "UpdateLabels", "IsSubset"}},
		skelTarget{Name: "C16.GroupedVault.GetOrCreateGaugeCollector", File: "pkg/metric_storage/vault/vault.go", Recv: "GroupedVault", Func: "GetOrCreateGaugeCollector",
			Fields: []string{"collectors", "registerer"},
			Calls:  []string{"NewConstGaugeCollector", "Register", "UpdateLabels", "IsSubset"}},
		skelTarget{Name: "C16.GroupedVault.ExpireGroupMetrics", File: "pkg/metric_storage/vault/vault.go", Recv: "GroupedVault", Func: "ExpireGroupMetrics",
			Fields: []string{"collectors"},
			Calls:  []string{"ExpireGroupMetrics"}},
		skelTarget{Name: "C16.HashLabelValues", File: "pkg/metric/collector.go", Recv: "", Func: "HashLabelValues",
			Fields: []string{},
			Calls:  []string{"New64a", "Write", "Sum64"}},
	)
}

// c16VecNames: the same for the ungrouped vecs of MetricStorage — the index expressions of m.Gauges /
// m.Counters / m.Histograms (lookup in X(), double check and store in RegisterX()), the resolution, and the
// `Name:` given to the new vec (= the name registered in the registry).
func c16VecNames() []string {
	var out []string
	for _, fn := range []string{"Gauge", "RegisterGauge", "Counter", "RegisterCounter", "Histogram", "RegisterHistogram"} {
		fd := findFunc("pkg/metric_storage/metric_storage.go", "MetricStorage", fn)
		if fd == nil || fd.Body == nil {
			return []string{"?"}
		}
		out = append(out, fn+":")
		ast.Inspect(fd.Body, func(n ast.Node) bool {
			switch x := n.(type) {
			case *ast.AssignStmt:
				if len(x.Rhs) == 1 && len(x.Lhs) == 1 {
					if c, ok := x.Rhs[0].(*ast.CallExpr); ok && exprStr(c.Fun) == "m.resolveMetricName" {
						out = append(out, c16Print(x))
					}
				}
			case *ast.IndexExpr:
				switch exprStr(x.X) {
				case "m.Gauges", "m.Counters", "m.Histograms":
					out = append(out, c16Print(x))
				}
			case *ast.KeyValueExpr:
				if exprStr(x.Key) == "Name" {
					out = append(out, "Name: "+c16Print(x.Value))
				}
			}
			return true
		})
	}
	return out
}
