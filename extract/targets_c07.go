package main

// C07: the internal combine function and its exported textual twin must keep the same
// step skeleton (the model `combineGo` / `combineTwin` is one body).
func init() {
	calls := []string{"Iterate", "Filter", "GetByName", "stopCombineFn", "GetId", "GetType", "GetMetadata",
		"GetHookName", "GetBindingContext", "GetMonitorIDs", "GetQueueName", "append", "len", "make"}
	skeletonTargets = append(skeletonTargets,
		skelTarget{Name: "combineBindingContextForHook", File: "pkg/shell-operator/combine_binding_context.go",
			Recv: "ShellOperator", Func: "combineBindingContextForHook", Fields: []string{"TaskQueues", "Group"}, Calls: calls},
		skelTarget{Name: "CombineBindingContextForHook", File: "pkg/shell-operator/operator.go",
			Recv: "ShellOperator", Func: "CombineBindingContextForHook", Fields: []string{"TaskQueues", "Group"}, Calls: calls},
	)
}
