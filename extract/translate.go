package main

// Tie T4 — translated functions. A small translator from a subset of Go (the slice-level primitives of
// the modelled cores: assignments, if/else, `for … range` with break/continue/return, indexing,
// slicing, append, make, len, integer and boolean operators) into Lean 4 `do` blocks in the `Id`
// monad. The output, ShellOp/Generated/Trans.lean, is regenerated from the current sources on every
// check run; `ShellOp/Proofs/Trans*.lean` proves each translated function equal to the hand-written
// code-shaped model the property theorems are about. A change of the Go function changes the
// generated definition and the equality theorem stops checking.
//
// What the translation fixes by convention (stated in DESIGN.md, trusted base):
//   - the receiver's slice field is the state: a function `f(q, args) ret` becomes
//     `f (items : List Slot) (args) : Ret × List Slot`;
//   - Go `int` is Lean `Int`; an index or a length crosses with `.toNat` / `Int.ofNat`;
//   - an index expression `x[i]` is `x.getD i.toNat nil` (Go would panic out of range; the
//     translated functions are proved equal to models that never read out of range);
//   - `t.GetId() == id` is `hasId t id` (false for a nil slot, where Go would panic);
//   - locks, metrics (`MeasureActionTime`), `defer` are dropped: the `with(R)Lock(func(){…})` wrapper
//     is transparent.

import (
	"fmt"
	"go/ast"
	"go/token"
	"strings"
)

type transTarget struct {
	File, Recv, Func string
	Lean             string            // name of the generated definition
	StateField       string            // receiver field that is the state, e.g. "items"
	Params           map[string]string // Go parameter name -> Lean type
	Ret              string            // Lean type of the result ("Unit" when none)
	Nil              string            // Lean term for nil of the element type
	Inline           map[string]string // receiver methods translated by substitution: name -> Lean term over `items`
	Calls            map[string]string // receiver methods that are themselves translated: Go name -> Lean name
	Subst            map[string]string // free expressions of a translated block (printed by exprStr) -> Lean term
	Block            string            // "" = the whole function; "case:<Name>" = the body of the lock wrapper inside the case clause listing <Name>
	ExtraParams      []string          // Lean binders for the free variables of a block
	Pure             bool              // no receiver state: the definition is `params → ResultType`, the value of Result
	Result           string            // Lean expression returned by a pure block
	Fields           map[string]string // field selector chains (printed after the base expression, e.g. ".Metadata.Group") -> Lean projection
	Literals         map[string]string // Go literals (as written, e.g. `""`) -> Lean term
	Prelude          string            // `open …` line(s) the definition needs
	VarInit          map[string]string // `var x T` declarations with a declared Lean initial value
	CountAppends     map[string]bool   // functions `f` such that `x = f(x, …)` is translated as `x := x + 1`
	IfConvert        bool              // an `if` whose branches only assign one variable becomes `v := if c then e1 else e2`
}

var transTargets []transTarget

type tr struct {
	pureFn bool
	t      transTarget
	recv   string
	err    string
	muts   map[string]bool
}

func (x *tr) fail(format string, a ...interface{}) string {
	if x.err == "" {
		x.err = fmt.Sprintf(format, a...)
	}
	return "sorryUntranslatable"
}

func (x *tr) isState(e ast.Expr) bool {
	s, ok := e.(*ast.SelectorExpr)
	if !ok {
		return false
	}
	id, ok := s.X.(*ast.Ident)
	return ok && id.Name == x.recv && s.Sel.Name == x.t.StateField
}

func isGetId(e ast.Expr) (ast.Expr, bool) {
	c, ok := e.(*ast.CallExpr)
	if !ok || len(c.Args) != 0 {
		return nil, false
	}
	s, ok := c.Fun.(*ast.SelectorExpr)
	if !ok || s.Sel.Name != "GetId" {
		return nil, false
	}
	return s.X, true
}

// txStr prints an expression for the Subst table: like exprStr, with binary / unary operators and
// literals spelled out.
func txStr(e ast.Expr) string {
	switch v := e.(type) {
	case *ast.BinaryExpr:
		return txStr(v.X) + " " + v.Op.String() + " " + txStr(v.Y)
	case *ast.ParenExpr:
		return "(" + txStr(v.X) + ")"
	case *ast.BasicLit:
		return v.Value
	case *ast.UnaryExpr:
		return v.Op.String() + txStr(v.X)
	case *ast.SelectorExpr:
		return txStr(v.X) + "." + v.Sel.Name
	case *ast.CallExpr:
		return txStr(v.Fun) + "()"
	}
	return exprStr(e)
}

func (x *tr) expr(e ast.Expr) string {
	if r, ok := x.t.Subst[exprStr(e)]; ok {
		if _, isLit := e.(*ast.BasicLit); !isLit {
			return r
		}
	}
	if r, ok := x.t.Subst[txStr(e)]; ok {
		if _, isLit := e.(*ast.BasicLit); !isLit {
			return r
		}
	}
	switch v := e.(type) {
	case *ast.ParenExpr:
		return "(" + x.expr(v.X) + ")"
	case *ast.Ident:
		switch v.Name {
		case "nil":
			return x.t.Nil
		case "true", "false":
			return v.Name
		}
		return v.Name
	case *ast.BasicLit:
		if r, ok := x.t.Literals[v.Value]; ok {
			return r
		}
		if v.Kind == token.INT {
			return "(" + v.Value + " : Int)"
		}
		if v.Kind == token.STRING && strings.HasPrefix(v.Value, "\"") && !strings.ContainsAny(v.Value[1:len(v.Value)-1], "\\\"") {
			return v.Value
		}
		return x.fail("literal %s", v.Value)
	case *ast.SelectorExpr:
		if x.isState(v) {
			return "items"
		}
		// a declared field chain: base.F1.F2 with ".F1.F2" in the Fields table
		chain := ""
		var base ast.Expr = v
		for {
			se, ok := base.(*ast.SelectorExpr)
			if !ok {
				break
			}
			chain = "." + se.Sel.Name + chain
			base = se.X
			if proj, ok := x.t.Fields[chain]; ok {
				return "(" + x.expr(base) + ")." + proj
			}
		}
		return x.fail("selector %s", exprStr(v))
	case *ast.UnaryExpr:
		switch v.Op {
		case token.NOT:
			return "(!" + x.expr(v.X) + ")"
		case token.SUB:
			return "(-" + x.expr(v.X) + ")"
		}
		return x.fail("unary %s", v.Op)
	case *ast.BinaryExpr:
		if v.Op == token.EQL || v.Op == token.NEQ {
			var slot, other ast.Expr
			if s, ok := isGetId(v.X); ok {
				slot, other = s, v.Y
			} else if s, ok := isGetId(v.Y); ok {
				slot, other = s, v.X
			}
			if slot != nil {
				r := "(hasId " + x.expr(slot) + " " + x.expr(other) + ")"
				if v.Op == token.NEQ {
					r = "(!" + r + ")"
				}
				return r
			}
		}
		if v.Op == token.EQL || v.Op == token.NEQ {
			// fn == nil for a function-typed parameter declared as `Option (… → …)`
			for _, pr := range [][2]ast.Expr{{v.X, v.Y}, {v.Y, v.X}} {
				id, ok := pr[0].(*ast.Ident)
				n, ok2 := pr[1].(*ast.Ident)
				if ok && ok2 && n.Name == "nil" && strings.HasPrefix(x.t.Params[id.Name], "Option (") {
					if v.Op == token.EQL {
						return "(" + id.Name + ".isNone)"
					}
					return "(" + id.Name + ".isSome)"
				}
			}
		}
		a, b := x.expr(v.X), x.expr(v.Y)
		switch v.Op {
		case token.EQL:
			return "(" + a + " == " + b + ")"
		case token.NEQ:
			return "(" + a + " != " + b + ")"
		case token.LSS:
			return "(decide (" + a + " < " + b + "))"
		case token.LEQ:
			return "(decide (" + a + " ≤ " + b + "))"
		case token.GTR:
			return "(decide (" + a + " > " + b + "))"
		case token.GEQ:
			return "(decide (" + a + " ≥ " + b + "))"
		case token.ADD:
			return "(" + a + " + " + b + ")"
		case token.SUB:
			return "(" + a + " - " + b + ")"
		case token.LAND:
			return "(" + a + " && " + b + ")"
		case token.LOR:
			return "(" + a + " || " + b + ")"
		}
		return x.fail("binary %s", v.Op)
	case *ast.IndexExpr:
		return "(" + x.expr(v.X) + ".getD (" + x.expr(v.Index) + ").toNat " + x.t.Nil + ")"
	case *ast.SliceExpr:
		if v.Slice3 {
			return x.fail("3-index slice")
		}
		r := x.expr(v.X)
		if v.High != nil {
			r = "(" + r + ".take (" + x.expr(v.High) + ").toNat)"
		}
		if v.Low != nil {
			r = "(" + r + ".drop (" + x.expr(v.Low) + ").toNat)"
		}
		return r
	case *ast.CompositeLit:
		if _, ok := v.Type.(*ast.ArrayType); ok {
			var el []string
			for _, e := range v.Elts {
				el = append(el, x.expr(e))
			}
			return "[" + strings.Join(el, ", ") + "]"
		}
		return x.fail("composite literal")
	case *ast.CallExpr:
		if id, ok := v.Fun.(*ast.Ident); ok {
			switch id.Name {
			case "len":
				if len(v.Args) == 1 {
					return "(Int.ofNat " + x.expr(v.Args[0]) + ".length)"
				}
			case "append":
				if len(v.Args) == 2 && v.Ellipsis != token.NoPos {
					return "(" + x.expr(v.Args[0]) + " ++ " + x.expr(v.Args[1]) + ")"
				}
				if len(v.Args) >= 2 && v.Ellipsis == token.NoPos {
					var el []string
					for _, e := range v.Args[1:] {
						el = append(el, x.expr(e))
					}
					return "(" + x.expr(v.Args[0]) + " ++ [" + strings.Join(el, ", ") + "])"
				}
			case "make":
				if len(v.Args) == 2 {
					if _, ok := v.Args[0].(*ast.ArrayType); ok {
						return "(List.replicate (" + x.expr(v.Args[1]) + ").toNat " + x.t.Nil + ")"
					}
				}
			}
			if strings.HasPrefix(x.t.Params[id.Name], "Option (") && len(v.Args) == 1 {
				return "(callFn " + id.Name + " " + x.expr(v.Args[0]) + ")"
			}
			return x.fail("call %s", id.Name)
		}
		if s, ok := v.Fun.(*ast.SelectorExpr); ok {
			if id, ok := s.X.(*ast.Ident); ok && id.Name == x.recv {
				if in, ok := x.t.Inline[s.Sel.Name]; ok && len(v.Args) == 0 {
					return in
				}
			}
		}
		return x.fail("call %s", exprStr(v.Fun))
	}
	return x.fail("expression %T", e)
}

// unwrapLock: `q.withLock(func(){ body })` / `q.withRLock(…)` → body
func (x *tr) unwrapLock(s ast.Stmt) (*ast.BlockStmt, bool) {
	es, ok := s.(*ast.ExprStmt)
	if !ok {
		return nil, false
	}
	c, ok := es.X.(*ast.CallExpr)
	if !ok || len(c.Args) != 1 {
		return nil, false
	}
	sel, ok := c.Fun.(*ast.SelectorExpr)
	if !ok || (sel.Sel.Name != "withLock" && sel.Sel.Name != "withRLock") {
		return nil, false
	}
	fl, ok := c.Args[0].(*ast.FuncLit)
	if !ok {
		return nil, false
	}
	return fl.Body, true
}

func (x *tr) dropped(s ast.Stmt) bool {
	switch v := s.(type) {
	case *ast.DeferStmt:
		return true
	case *ast.ExprStmt:
		if c, ok := v.X.(*ast.CallExpr); ok {
			if sel, ok := c.Fun.(*ast.SelectorExpr); ok {
				switch sel.Sel.Name {
				case "Lock", "Unlock", "RLock", "RUnlock", "Point":
					return true
				}
			}
		}
	}
	return false
}

func (x *tr) ret(val string) string {
	if x.pureFn {
		return "return " + val
	}
	if x.t.Ret == "Unit" {
		return "return ((), items)"
	}
	return "return (" + val + ", items)"
}

func (x *tr) stmts(list []ast.Stmt, ind string, out *[]string) {
	for _, s := range list {
		x.stmt(s, ind, out)
	}
}

func (x *tr) stmt(s ast.Stmt, ind string, out *[]string) {
	emit := func(l string) { *out = append(*out, ind+l) }
	if x.dropped(s) {
		return
	}
	if b, ok := x.unwrapLock(s); ok {
		x.stmts(b.List, ind, out)
		return
	}
	switch v := s.(type) {
	case *ast.DeclStmt:
		gd, ok := v.Decl.(*ast.GenDecl)
		if !ok || gd.Tok != token.VAR {
			emit(x.fail("declaration"))
			return
		}
		for _, sp := range gd.Specs {
			vs := sp.(*ast.ValueSpec)
			for i, n := range vs.Names {
				val := x.t.Nil
				if vi, ok := x.t.VarInit[n.Name]; ok {
					emit("let mut " + n.Name + " := " + vi)
					continue
				}
				if id, ok := vs.Type.(*ast.Ident); ok {
					switch id.Name {
					case "int":
						val = "(0 : Int)"
					case "bool":
						val = "false"
					}
				}
				if i < len(vs.Values) {
					val = x.expr(vs.Values[i])
				}
				emit("let mut " + n.Name + " := " + val)
			}
		}
	case *ast.AssignStmt:
		if len(v.Lhs) != 1 || len(v.Rhs) != 1 {
			emit(x.fail("multi-assignment"))
			return
		}
		// t = q.removeFirst()  — a call of another translated method
		if c, ok := v.Rhs[0].(*ast.CallExpr); ok {
			if sel, ok := c.Fun.(*ast.SelectorExpr); ok {
				if id, ok := sel.X.(*ast.Ident); ok && id.Name == x.recv {
					if ln, ok := x.t.Calls[sel.Sel.Name]; ok {
						var args []string
						for _, a := range c.Args {
							args = append(args, x.expr(a))
						}
						lhs, ok := v.Lhs[0].(*ast.Ident)
						if !ok {
							emit(x.fail("call result assigned to a non-identifier"))
							return
						}
						emit("let r__ := " + ln + " items " + strings.Join(args, " "))
						if v.Tok == token.DEFINE {
							emit("let mut " + lhs.Name + " := r__.1")
						} else {
							emit(lhs.Name + " := r__.1")
						}
						emit("items := r__.2")
						return
					}
				}
			}
		}
		// errs = multierror.Append(errs, …): the error list is translated as its length
		if c, ok := v.Rhs[0].(*ast.CallExpr); ok && x.t.CountAppends[exprStr(c.Fun)] {
			if lhs, ok := v.Lhs[0].(*ast.Ident); ok && len(c.Args) >= 1 && exprStr(c.Args[0]) == lhs.Name && v.Tok == token.ASSIGN {
				emit(lhs.Name + " := " + lhs.Name + " + 1")
				return
			}
		}
		rhs := x.expr(v.Rhs[0])
		switch l := v.Lhs[0].(type) {
		case *ast.Ident:
			if v.Tok == token.DEFINE {
				emit("let mut " + l.Name + " := " + rhs)
			} else {
				emit(l.Name + " := " + rhs)
			}
		case *ast.SelectorExpr:
			if x.isState(l) {
				emit("items := " + rhs)
			} else {
				emit(x.fail("assignment to %s", exprStr(l)))
			}
		case *ast.IndexExpr:
			base, ok := l.X.(*ast.Ident)
			if !ok {
				emit(x.fail("indexed assignment to %s", exprStr(l.X)))
				return
			}
			emit(base.Name + " := " + base.Name + ".set (" + x.expr(l.Index) + ").toNat " + rhs)
		default:
			emit(x.fail("assignment target %T", l))
		}
	case *ast.ExprStmt:
		// q.addFirst(t) — a call of another translated method, result dropped
		if c, ok := v.X.(*ast.CallExpr); ok {
			if sel, ok := c.Fun.(*ast.SelectorExpr); ok {
				if id, ok := sel.X.(*ast.Ident); ok && id.Name == x.recv {
					if ln, ok := x.t.Calls[sel.Sel.Name]; ok {
						var args []string
						for _, a := range c.Args {
							args = append(args, x.expr(a))
						}
						emit("items := (" + ln + " items " + strings.Join(args, " ") + ").2")
						return
					}
				}
			}
		}
		emit(x.fail("statement %s", exprStr(v.X)))
	case *ast.IfStmt:
		if v.Init != nil {
			emit(x.fail("if with init"))
			return
		}
		if x.t.IfConvert {
			if name, val, ok := x.condAssign(v); ok {
				emit(name + " := " + val)
				return
			}
		}
		emit("if " + x.expr(v.Cond) + " then")
		n := len(*out)
		x.stmts(v.Body.List, ind+"  ", out)
		if len(*out) == n {
			emit("  pure ()")
		}
		switch e := v.Else.(type) {
		case nil:
		case *ast.BlockStmt:
			emit("else")
			n := len(*out)
			x.stmts(e.List, ind+"  ", out)
			if len(*out) == n {
				emit("  pure ()")
			}
		case *ast.IfStmt:
			emit("else")
			x.stmt(e, ind+"  ", out)
		}
	case *ast.RangeStmt:
		if v.Tok != token.DEFINE {
			emit(x.fail("range without :="))
			return
		}
		key, _ := v.Key.(*ast.Ident)
		val, _ := v.Value.(*ast.Ident)
		coll := x.expr(v.X)
		switch {
		case key != nil && key.Name != "_" && val != nil:
			emit("for (" + val.Name + ", i__) in " + coll + ".zipIdx do")
			emit("  let " + key.Name + " : Int := Int.ofNat i__")
		case key != nil && key.Name != "_" && val == nil:
			emit("for i__ in List.range " + coll + ".length do")
			emit("  let " + key.Name + " : Int := Int.ofNat i__")
		case val != nil:
			emit("for " + val.Name + " in " + coll + " do")
		default:
			emit(x.fail("range form"))
			return
		}
		n := len(*out)
		x.stmts(v.Body.List, ind+"  ", out)
		if len(*out) == n {
			emit("  pure ()")
		}
	case *ast.ForStmt:
		// only the counting forms `for i := len(X) - 1; i >= 0; i-- { … }` and `for i := 0; i < len(X); i++ { … }`
		iv, coll, ok := countDown(v)
		rev := ".reverse"
		if !ok {
			iv, coll, ok = countUp(v)
			rev = ""
		}
		if !ok {
			emit(x.fail("for statement other than the two counting forms over len(X)"))
			return
		}
		if rev == "" {
			emit("for k__ in List.range " + x.expr(coll) + ".length do")
		} else {
			emit("for k__ in (List.range " + x.expr(coll) + ".length).reverse do")
		}
		emit("  let " + iv + " : Int := Int.ofNat k__")
		n := len(*out)
		x.stmts(v.Body.List, ind+"  ", out)
		if len(*out) == n {
			emit("  pure ()")
		}
	case *ast.ReturnStmt:
		switch len(v.Results) {
		case 0:
			emit(x.ret("()"))
		case 1:
			emit(x.ret(x.expr(v.Results[0])))
		default:
			emit(x.fail("several results"))
		}
	case *ast.BranchStmt:
		switch v.Tok {
		case token.BREAK:
			emit("break")
		case token.CONTINUE:
			emit("continue")
		default:
			emit(x.fail("branch %s", v.Tok))
		}
	case *ast.IncDecStmt:
		id, ok := v.X.(*ast.Ident)
		if !ok {
			emit(x.fail("inc/dec target"))
			return
		}
		op := "+"
		if v.Tok == token.DEC {
			op = "-"
		}
		emit(id.Name + " := " + id.Name + " " + op + " 1")
	case *ast.BlockStmt:
		x.stmts(v.List, ind, out)
	default:
		emit(x.fail("statement %T", s))
	}
}

// countDown recognises `for i := len(X) - 1; i >= 0; i--` and returns i and X.
func countDown(f *ast.ForStmt) (string, ast.Expr, bool) {
	as, ok := f.Init.(*ast.AssignStmt)
	if !ok || as.Tok != token.DEFINE || len(as.Lhs) != 1 || len(as.Rhs) != 1 {
		return "", nil, false
	}
	iv, ok := as.Lhs[0].(*ast.Ident)
	if !ok {
		return "", nil, false
	}
	be, ok := as.Rhs[0].(*ast.BinaryExpr)
	if !ok || be.Op != token.SUB {
		return "", nil, false
	}
	one, ok := be.Y.(*ast.BasicLit)
	if !ok || one.Value != "1" {
		return "", nil, false
	}
	ln, ok := be.X.(*ast.CallExpr)
	if !ok || len(ln.Args) != 1 {
		return "", nil, false
	}
	if id, ok := ln.Fun.(*ast.Ident); !ok || id.Name != "len" {
		return "", nil, false
	}
	cond, ok := f.Cond.(*ast.BinaryExpr)
	if !ok || cond.Op != token.GEQ {
		return "", nil, false
	}
	if ci, ok := cond.X.(*ast.Ident); !ok || ci.Name != iv.Name {
		return "", nil, false
	}
	if z, ok := cond.Y.(*ast.BasicLit); !ok || z.Value != "0" {
		return "", nil, false
	}
	post, ok := f.Post.(*ast.IncDecStmt)
	if !ok || post.Tok != token.DEC {
		return "", nil, false
	}
	if pi, ok := post.X.(*ast.Ident); !ok || pi.Name != iv.Name {
		return "", nil, false
	}
	return iv.Name, ln.Args[0], true
}

// countUp recognises `for i := 0; i < len(X); i++` and returns i and X.
func countUp(f *ast.ForStmt) (string, ast.Expr, bool) {
	as, ok := f.Init.(*ast.AssignStmt)
	if !ok || as.Tok != token.DEFINE || len(as.Lhs) != 1 || len(as.Rhs) != 1 {
		return "", nil, false
	}
	iv, ok := as.Lhs[0].(*ast.Ident)
	if !ok {
		return "", nil, false
	}
	if z, ok := as.Rhs[0].(*ast.BasicLit); !ok || z.Value != "0" {
		return "", nil, false
	}
	cond, ok := f.Cond.(*ast.BinaryExpr)
	if !ok || cond.Op != token.LSS {
		return "", nil, false
	}
	if ci, ok := cond.X.(*ast.Ident); !ok || ci.Name != iv.Name {
		return "", nil, false
	}
	ln, ok := cond.Y.(*ast.CallExpr)
	if !ok || len(ln.Args) != 1 {
		return "", nil, false
	}
	if id, ok := ln.Fun.(*ast.Ident); !ok || id.Name != "len" {
		return "", nil, false
	}
	post, ok := f.Post.(*ast.IncDecStmt)
	if !ok || post.Tok != token.INC {
		return "", nil, false
	}
	if pi, ok := post.X.(*ast.Ident); !ok || pi.Name != iv.Name {
		return "", nil, false
	}
	return iv.Name, ln.Args[0], true
}

// findDefAndNext: the statement `name := …` anywhere in fd (outermost occurrence) together with the
// statement that follows it in the same block.
func findDefAndNext(fd *ast.FuncDecl, name string) []ast.Stmt {
	var res []ast.Stmt
	ast.Inspect(fd, func(n ast.Node) bool {
		b, ok := n.(*ast.BlockStmt)
		if !ok || res != nil {
			return res == nil
		}
		for i, s := range b.List {
			as, ok := s.(*ast.AssignStmt)
			if !ok || as.Tok != token.DEFINE || len(as.Lhs) != 1 {
				continue
			}
			if id, ok := as.Lhs[0].(*ast.Ident); ok && id.Name == name && i+1 < len(b.List) {
				res = []ast.Stmt{s, b.List[i+1]}
				return false
			}
		}
		return true
	})
	return res
}

// findCaseLockBody: inside fd, the case clause that lists the identifier `name`; in it the single
// `recv.withLock(func(){ … })` statement; returns that function literal's body.
func findCaseLockBody(fd *ast.FuncDecl, name string) *ast.BlockStmt {
	var res *ast.BlockStmt
	ast.Inspect(fd, func(n ast.Node) bool {
		cc, ok := n.(*ast.CaseClause)
		if !ok || res != nil {
			return res == nil
		}
		hit := false
		for _, e := range cc.List {
			if id, ok := e.(*ast.Ident); ok && id.Name == name {
				hit = true
			}
		}
		if !hit {
			return true
		}
		for _, s := range cc.Body {
			es, ok := s.(*ast.ExprStmt)
			if !ok {
				continue
			}
			c, ok := es.X.(*ast.CallExpr)
			if !ok || len(c.Args) != 1 {
				continue
			}
			sel, ok := c.Fun.(*ast.SelectorExpr)
			if !ok || sel.Sel.Name != "withLock" {
				continue
			}
			if fl, ok := c.Args[0].(*ast.FuncLit); ok {
				res = fl.Body
			}
		}
		return false
	})
	return res
}

// condAssign: an `if` statement (without init) whose branches each consist of exactly one assignment
// `v = e` to the same variable v — or of one such `if` statement, recursively; a missing else branch
// leaves v as it is — is the conditional assignment `v := if c then e1 else e2`.
func (x *tr) condAssign(s *ast.IfStmt) (string, string, bool) {
	one := func(b *ast.BlockStmt) (string, string, bool) {
		if b == nil || len(b.List) != 1 {
			return "", "", false
		}
		switch st := b.List[0].(type) {
		case *ast.AssignStmt:
			if st.Tok != token.ASSIGN || len(st.Lhs) != 1 || len(st.Rhs) != 1 {
				return "", "", false
			}
			id, ok := st.Lhs[0].(*ast.Ident)
			if !ok {
				return "", "", false
			}
			if c, ok := st.Rhs[0].(*ast.CallExpr); ok && x.t.CountAppends[exprStr(c.Fun)] && len(c.Args) >= 1 && exprStr(c.Args[0]) == id.Name {
				return id.Name, "(" + id.Name + " + 1)", true
			}
			return id.Name, x.expr(st.Rhs[0]), true
		case *ast.IfStmt:
			if st.Init != nil {
				return "", "", false
			}
			return x.condAssign(st)
		}
		return "", "", false
	}
	if s.Init != nil {
		return "", "", false
	}
	n1, v1, ok := one(s.Body)
	if !ok {
		return "", "", false
	}
	v2 := n1
	switch e := s.Else.(type) {
	case nil:
	case *ast.BlockStmt:
		n2, val2, ok := one(e)
		if !ok || n2 != n1 {
			return "", "", false
		}
		v2 = val2
	case *ast.IfStmt:
		n2, val2, ok := x.condAssign(e)
		if !ok || n2 != n1 {
			return "", "", false
		}
		v2 = val2
	}
	return n1, "(if " + x.expr(s.Cond) + " then " + v1 + " else " + v2 + ")", true
}

func endsWithReturn(list []ast.Stmt) bool {
	if len(list) == 0 {
		return false
	}
	_, ok := list[len(list)-1].(*ast.ReturnStmt)
	return ok
}

func translate(t transTarget) (string, string) {
	fd := findFunc(t.File, t.Recv, t.Func)
	if fd == nil || fd.Body == nil {
		return "", "function not found"
	}
	x := &tr{t: t}
	if fd.Recv != nil && len(fd.Recv.List) == 1 && len(fd.Recv.List[0].Names) == 1 {
		x.recv = fd.Recv.List[0].Names[0].Name
	}
	var params []string
	for _, f := range fd.Type.Params.List {
		if t.Block != "" {
			break // a block names its free variables itself (ExtraParams)
		}
		for _, n := range f.Names {
			lt, ok := t.Params[n.Name]
			if !ok {
				return "", "parameter " + n.Name + " has no declared Lean type"
			}
			params = append(params, "("+n.Name+" : "+lt+")")
		}
	}
	params = append(params, t.ExtraParams...)
	var body []string
	list := fd.Body.List
	if strings.HasPrefix(t.Block, "case:") {
		b := findCaseLockBody(fd, strings.TrimPrefix(t.Block, "case:"))
		if b == nil {
			return "", "block " + t.Block + " not found"
		}
		list = b.List
		params = append([]string{}, t.ExtraParams...)
	}
	if strings.HasPrefix(t.Block, "def:") {
		list = findDefAndNext(fd, strings.TrimPrefix(t.Block, "def:"))
		if list == nil {
			return "", "block " + t.Block + " not found"
		}
		params = append([]string{}, t.ExtraParams...)
	}
	if t.Pure && t.Block == "" {
		// the body's `return e` is the value
		x.pureFn = true
	}
	x.stmts(list, "  ", &body)
	if t.Pure && t.Block == "" {
		if x.err != "" {
			return "", x.err
		}
		hdr := fmt.Sprintf("/-- translated from `%s: %s` -/\ndef %s %s : %s := Id.run do\n",
			t.File, t.Func, t.Lean, strings.Join(params, " "), t.Ret)
		return t.Prelude + hdr + strings.Join(body, "\n") + "\n", ""
	}
	if t.Pure {
		if x.err != "" {
			return "", x.err
		}
		hdr := fmt.Sprintf("/-- translated from `%s: (%s).%s`, block `%s` -/\ndef %s %s : %s := Id.run do\n",
			t.File, t.Recv, t.Func, t.Block, t.Lean, strings.Join(params, " "), t.Ret)
		return t.Prelude + hdr + strings.Join(body, "\n") + "\n  return " + t.Result + "\n", ""
	}
	if t.Block != "" {
		body = append(body, "  return ((), items)")
	} else if !endsWithReturn(fd.Body.List) {
		if t.Ret != "Unit" {
			// a function with a result whose body does not end in a return: (only via a lock wrapper)
			last := fd.Body.List[len(fd.Body.List)-1]
			if _, ok := last.(*ast.ReturnStmt); !ok {
				return "", "body does not end in a return"
			}
		}
		body = append(body, "  return ((), items)")
	}
	if x.err != "" {
		return "", x.err
	}
	hdr := fmt.Sprintf("/-- translated from `%s: (%s).%s` -/\ndef %s (items0 : List Slot) %s : %s × List Slot := Id.run do\n  let mut items := items0\n",
		t.File, t.Recv, t.Func, t.Lean, strings.Join(params, " "), t.Ret)
	return hdr + strings.Join(body, "\n") + "\n", ""
}

func genTrans() string {
	var b strings.Builder
	b.WriteString("/- GENERATED by /verif/extract (translate.go) from the current /repo sources on every check run. Do not edit, do not commit. -/\nimport ShellOp.TransPrelude\nimport ShellOp.Model.Combine\nimport ShellOp.Model.Metrics\nset_option linter.unusedVariables false\nnamespace ShellOp.Trans\nopen ShellOp.TransPrelude\n\n")
	for _, t := range transTargets {
		def, err := translate(t)
		if err != "" {
			fmt.Fprintf(&b, "/-- `%s: (%s).%s` is outside the translated subset: %s -/\ndef %s_untranslatable : String := %q\n\n", t.File, t.Recv, t.Func, err, t.Lean, err)
			continue
		}
		b.WriteString(def + "\n")
	}
	b.WriteString("end ShellOp.Trans\n")
	return b.String()
}
