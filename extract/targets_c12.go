package main

import (
	"go/ast"
	"go/token"
	"strconv"
	"strings"
)

// C12: skeleton of Hook.Run (order of file preparation, deferred removal, run, parse steps) and the
// literal tables of pkg/hook/hook.go: the environment variables handed to the hook and the temp file
// name formats. (ShellOperator.handleRunHook is declared in targets_c13.go.)
func init() {
	skeletonTargets = append(skeletonTargets,
		skelTarget{Name: "Hook.Run", File: "pkg/hook/hook.go", Recv: "Hook", Func: "Run",
			Calls: []string{"UpdateSnapshots", "ConvertBindingContextList", "prepareBindingContextJsonFile", "prepareMetricsFile",
				"prepareAdmissionResponseFile", "prepareConversionResponseFile", "prepareObjectPatchFile", "Remove", "Environ",
				"NewExecutor", "RunAndLogLines", "MetricOperationsFromFile", "ResponseFromFile", "ReadFile"}},
	)
	factFns = append(factFns, c12Facts)
}

// string literals that are the first argument of fmt.Sprintf calls inside fn
func c12SprintfFormats(fd *ast.FuncDecl) []string {
	var out []string
	if fd == nil || fd.Body == nil {
		return out
	}
	ast.Inspect(fd.Body, func(n ast.Node) bool {
		c, ok := n.(*ast.CallExpr)
		if !ok {
			return true
		}
		if sel, ok := c.Fun.(*ast.SelectorExpr); ok && sel.Sel.Name == "Sprintf" && len(c.Args) > 0 {
			if bl, ok := c.Args[0].(*ast.BasicLit); ok && bl.Kind == token.STRING {
				if s, err := strconv.Unquote(bl.Value); err == nil {
					out = append(out, s)
				}
			}
		}
		return true
	})
	return out
}

func c12Facts(l *leanDefs) {
	const file = "pkg/hook/hook.go"
	var envs []string
	for _, f := range c12SprintfFormats(findFunc(file, "Hook", "Run")) {
		if strings.HasSuffix(f, "=%s") {
			envs = append(envs, strings.TrimSuffix(f, "=%s"))
		}
	}
	l.def("c12EnvVars", "List String", leanStrList(envs), file+" Hook.Run")
	var names []string
	for _, fn := range []string{"prepareBindingContextJsonFile", "prepareMetricsFile", "prepareAdmissionResponseFile", "prepareConversionResponseFile", "prepareObjectPatchFile"} {
		fs := c12SprintfFormats(findFunc(file, "Hook", fn))
		if len(fs) == 1 {
			names = append(names, fs[0])
		} else {
			names = append(names, "<stale>")
		}
	}
	l.def("c12FileNameFormats", "List String", leanStrList(names), file+" prepare*File")
}
