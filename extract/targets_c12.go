package main

import (
	"go/ast"
	"go/token"
	"strconv"
	"strings"
)

// C12: skeleton of Hook.Run (order of file preparation, deferred removal, run, parse steps) and the
// literal tables of pkg/hook/hook.go: the environment variables handed to the hook and the temp file
// name formats. (ShellOperator.handleRunHook is declared in targets_c13.go.)
func init() {
	skeletonTargets = append(skeletonTargets,
		skelTarget{Name: "Hook.Run", File: "pkg/hook/hook.go", Recv: "Hook", Func: "Run",
			Calls: []string{"UpdateSnapshots", "ConvertBindingContextList", "prepareBindingContextJsonFile", "prepareMetricsFile",
				"prepareAdmissionResponseFile", "prepareConversionResponseFile", "prepareObjectPatchFile", "Remove", "Environ",
				"NewExecutor", "RunAndLogLines", "MetricOperationsFromFile", "ResponseFromFile", "ReadFile"}},
		// third wave: the readers of the output files (decode loops: when do they stop, what is an error)
		skelTarget{Name: "operation.MetricOperationsFromReader", File: "pkg/metric_storage/operation/operation.go", Recv: "", Func: "MetricOperationsFromReader",
			Calls: []string{"NewDecoder", "Decode", "More", "Token", "Buffered", "Unmarshal", "ReadAll"}},
		skelTarget{Name: "conversion.ResponseFromReader", File: "pkg/webhook/conversion/response.go", Recv: "", Func: "ResponseFromReader",
			Calls: []string{"NewDecoder", "Decode", "More", "Token", "Buffered", "Unmarshal", "ReadAll"}},
		// … and the glue between Run and the process: what environment the executor hands over
		skelTarget{Name: "executor.NewExecutor", File: "pkg/executor/executor.go", Recv: "", Func: "NewExecutor",
			Calls: []string{"Command", "Environ", "append"}},
		// fourth wave: which operations of a FAILED hook's patch file are executed
		skelTarget{Name: "objectpatch.GetPatchStatusOperationsOnHookError", File: "pkg/kube/object_patch/operation.go", Recv: "", Func: "GetPatchStatusOperationsOnHookError",
			Calls: []string{"append"}},
		// … and the configuration plumbing of the temp / hooks directories (bootstrap.go)
		skelTarget{Name: "utils.EnsureTempDirectory", File: "pkg/utils/file/dir.go", Recv: "", Func: "EnsureTempDirectory",
			Calls: []string{"Abs", "DirExists", "Mkdir", "MkdirTemp", "MkdirAll", "Clean", "EvalSymlinks", "Getwd", "Join"}},
		skelTarget{Name: "utils.RequireExistingDirectory", File: "pkg/utils/file/dir.go", Recv: "", Func: "RequireExistingDirectory",
			Calls: []string{"Abs", "DirExists", "Mkdir", "MkdirTemp", "MkdirAll", "Clean", "EvalSymlinks", "Getwd", "Join"}},
	)
	factFns = append(factFns, c12Facts)
}

// string literals that are the first argument of fmt.Sprintf calls inside fn
func c12SprintfFormats(fd *ast.FuncDecl) []string {
	var out []string
	if fd == nil || fd.Body == nil {
		return out
	}
	ast.Inspect(fd.Body, func(n ast.Node) bool {
		c, ok := n.(*ast.CallExpr)
		if !ok {
			return true
		}
		if sel, ok := c.Fun.(*ast.SelectorExpr); ok && sel.Sel.Name == "Sprintf" && len(c.Args) > 0 {
			if bl, ok := c.Args[0].(*ast.BasicLit); ok && bl.Kind == token.STRING {
				if s, err := strconv.Unquote(bl.Value); err == nil {
					out = append(out, s)
				}
			}
		}
		return true
	})
	return out
}

// every comparison of app.DebugKeepTmpFilesVar with a string literal in the hook package:
// "<file> <func> <op> <literal>"
func c12KeepCompares() (all []string, runLit string) {
	for _, file := range []string{"pkg/hook/hook.go", "pkg/hook/hook_manager.go"} {
		f := parse(file)
		if f == nil {
			all = append(all, file+" <unparsable>")
			continue
		}
		for _, d := range f.Decls {
			fd, ok := d.(*ast.FuncDecl)
			if !ok || fd.Body == nil {
				continue
			}
			ast.Inspect(fd.Body, func(n ast.Node) bool {
				be, ok := n.(*ast.BinaryExpr)
				if !ok || (be.Op != token.EQL && be.Op != token.NEQ) {
					return true
				}
				x, y := be.X, be.Y
				if _, isLit := x.(*ast.BasicLit); isLit {
					x, y = y, x
				}
				bl, isLit := y.(*ast.BasicLit)
				if !isLit || bl.Kind != token.STRING || !strings.HasSuffix(exprStr(x), "DebugKeepTmpFilesVar") {
					return true
				}
				lit, _ := strconv.Unquote(bl.Value)
				all = append(all, file[strings.LastIndex(file, "/")+1:]+" "+fd.Name.Name+" "+be.Op.String()+" "+lit)
				if fd.Name.Name == "Run" && runLit == "" {
					runLit = lit
				}
				return true
			})
		}
	}
	return all, runLit
}

func c12Facts(l *leanDefs) {
	const file = "pkg/hook/hook.go"
	cmps, runLit := c12KeepCompares()
	l.def("c12KeepCompares", "List String", leanStrList(cmps), "pkg/hook: comparisons of app.DebugKeepTmpFilesVar")
	l.def("c12KeepLiteral", "String", strconv.Quote(runLit), file+" Hook.Run")
	if fd := findFunc("pkg/app/debug.go", "", "DefineDebugFlags"); fd != nil {
		// the help text of --debug-keep-tmp-files
		help := ""
		ast.Inspect(fd.Body, func(n ast.Node) bool {
			c, ok := n.(*ast.CallExpr)
			if !ok || len(c.Args) != 2 {
				return true
			}
			if sel, ok := c.Fun.(*ast.SelectorExpr); ok && sel.Sel.Name == "Flag" {
				if a, ok := c.Args[0].(*ast.BasicLit); ok && a.Value == `"debug-keep-tmp-files"` {
					if b, ok := c.Args[1].(*ast.BasicLit); ok {
						help, _ = strconv.Unquote(b.Value)
					}
				}
			}
			return true
		})
		l.def("c12KeepFlagHelp", "String", strconv.Quote(help), "pkg/app/debug.go --debug-keep-tmp-files")
	}
	// the comparisons of GetPatchStatusOperationsOnHookError: "<selector> <op> <literal>" for string
	// literals, "<selector>" / "!<selector>" for the boolean operands of its conditions
	{
		var cmps []string
		sub := "<stale>"
		if fd := findFunc("pkg/kube/object_patch/operation.go", "", "GetPatchStatusOperationsOnHookError"); fd != nil && fd.Body != nil {
			ast.Inspect(fd.Body, func(n ast.Node) bool {
				be, ok := n.(*ast.BinaryExpr)
				if !ok || (be.Op != token.EQL && be.Op != token.NEQ) {
					return true
				}
				x, y := be.X, be.Y
				if _, isLit := x.(*ast.BasicLit); isLit {
					x, y = y, x
				}
				if bl, isLit := y.(*ast.BasicLit); isLit && bl.Kind == token.STRING {
					lit, _ := strconv.Unquote(bl.Value)
					sel := exprStr(x)
					cmps = append(cmps, sel[strings.LastIndex(sel, ".")+1:]+" "+be.Op.String()+" "+lit)
					if strings.HasSuffix(sel, "subresource") && sub == "<stale>" {
						sub = lit
					}
				}
				return true
			})
		}
		l.def("c12OnErrorCompares", "List String", leanStrList(cmps), "pkg/kube/object_patch/operation.go GetPatchStatusOperationsOnHookError")
		l.def("c12OnErrorSubresource", "String", strconv.Quote(sub), "pkg/kube/object_patch/operation.go GetPatchStatusOperationsOnHookError")
	}
	var envs []string
	for _, f := range c12SprintfFormats(findFunc(file, "Hook", "Run")) {
		if strings.HasSuffix(f, "=%s") {
			envs = append(envs, strings.TrimSuffix(f, "=%s"))
		}
	}
	l.def("c12EnvVars", "List String", leanStrList(envs), file+" Hook.Run")
	var names []string
	for _, fn := range []string{"prepareBindingContextJsonFile", "prepareMetricsFile", "prepareAdmissionResponseFile", "prepareConversionResponseFile", "prepareObjectPatchFile"} {
		fs := c12SprintfFormats(findFunc(file, "Hook", fn))
		if len(fs) == 1 {
			names = append(names, fs[0])
		} else {
			names = append(names, "<stale>")
		}
	}
	l.def("c12FileNameFormats", "List String", leanStrList(names), file+" prepare*File")
}
