package main

import (
	"go/ast"
	"go/token"
	"strconv"
)

// Facts for C14 (tie T1): the regular expressions and replacement texts of SafeURLString and the
// default configuration id, as literal tables.
func init() {
	skeletonTargets = append(skeletonTargets,
		skelTarget{Name: "admission.WebhookHandler.handleReviewRequest", File: "pkg/webhook/admission/handler.go", Recv: "WebhookHandler", Func: "handleReviewRequest",
			Fields: []string{"Allowed", "Warnings", "Patch", "Message", "UID", "PatchType", "Result", "Handler"},
			Calls:  []string{"detectConfigurationAndWebhook", "Handler", "len", "Errorf"}},
		skelTarget{Name: "ShellOperator.initValidatingWebhookManager", File: "pkg/shell-operator/operator.go", Recv: "ShellOperator", Func: "initValidatingWebhookManager",
			Fields: []string{"Status", "Allowed", "Message"},
			Calls:  []string{"Init", "EnableAdmissionBindings", "WithAdmissionEventHandler", "DetectAdmissionEventType", "HandleAdmissionEvent", "taskHandler", "GetProp", "Start", "Errorf"}},
		skelTarget{Name: "admission.FromReader", File: "pkg/webhook/admission/response.go", Recv: "", Func: "FromReader",
			Calls: []string{"ReadAll", "Unmarshal", "NewDecoder", "Decode"}},
	)
	factFns = append(factFns, func(l *leanDefs) {
		var exprs, repls []string
		stale := false
		f := parse("pkg/utils/string_helper/safe_url.go")
		if f == nil {
			stale = true
		} else {
			ast.Inspect(f, func(n ast.Node) bool {
				call, ok := n.(*ast.CallExpr)
				if !ok {
					return true
				}
				sel, ok := call.Fun.(*ast.SelectorExpr)
				if !ok {
					return true
				}
				switch sel.Sel.Name {
				case "MustCompile":
					if len(call.Args) == 1 {
						if lit, ok := call.Args[0].(*ast.BasicLit); ok && lit.Kind == token.STRING {
							if s, err := strconv.Unquote(lit.Value); err == nil {
								exprs = append(exprs, s)
								return true
							}
						}
					}
					stale = true
				case "ReplaceAllString":
					if len(call.Args) == 2 {
						if lit, ok := call.Args[1].(*ast.BasicLit); ok && lit.Kind == token.STRING {
							if s, err := strconv.Unquote(lit.Value); err == nil {
								repls = append(repls, s)
								return true
							}
						}
					}
					stale = true
				}
				return true
			})
		}
		l.def("c14SafeURLExprs", "List String", leanStrList(exprs), "pkg/utils/string_helper/safe_url.go safeReList")
		l.def("c14SafeURLRepls", "List String", leanStrList(repls), "pkg/utils/string_helper/safe_url.go SafeURLString")

		conf := ""
		if f := parse("pkg/webhook/admission/manager.go"); f != nil {
			for _, d := range f.Decls {
				gd, ok := d.(*ast.GenDecl)
				if !ok || gd.Tok != token.CONST {
					continue
				}
				for _, sp := range gd.Specs {
					vs := sp.(*ast.ValueSpec)
					for i, n := range vs.Names {
						if n.Name == "DefaultConfigurationId" && i < len(vs.Values) {
							if lit, ok := vs.Values[i].(*ast.BasicLit); ok {
								conf, _ = strconv.Unquote(lit.Value)
							}
						}
					}
				}
			}
		}
		if conf == "" {
			stale = true
		}
		l.def("c14DefaultConfigurationId", "String", strconv.Quote(conf), "pkg/webhook/admission/manager.go DefaultConfigurationId")

		// the name of a run's admission response file: format string and arguments of the fmt.Sprintf in
		// Hook.prepareAdmissionResponseFile (a per-run uuid keeps overlapping runs of one hook apart)
		respFmt, respArgs := "", []string{}
		if fd := findFunc("pkg/hook/hook.go", "Hook", "prepareAdmissionResponseFile"); fd != nil && fd.Body != nil {
			n := 0
			ast.Inspect(fd.Body, func(x ast.Node) bool {
				call, ok := x.(*ast.CallExpr)
				if !ok {
					return true
				}
				sel, ok := call.Fun.(*ast.SelectorExpr)
				if !ok || sel.Sel.Name != "Sprintf" || len(call.Args) == 0 {
					return true
				}
				lit, ok := call.Args[0].(*ast.BasicLit)
				if !ok || lit.Kind != token.STRING {
					stale = true
					return true
				}
				n++
				respFmt, _ = strconv.Unquote(lit.Value)
				for _, a := range call.Args[1:] {
					respArgs = append(respArgs, srcOf(a))
				}
				return true
			})
			if n != 1 {
				stale = true
			}
		} else {
			stale = true
		}
		l.def("c14ResponseFileFmt", "String", strconv.Quote(respFmt), "pkg/hook/hook.go prepareAdmissionResponseFile: fmt.Sprintf format")
		l.def("c14ResponseFileArgs", "List String", leanStrList(respArgs), "pkg/hook/hook.go prepareAdmissionResponseFile: fmt.Sprintf arguments")
		// the name of a run's binding context file: format string and arguments of the fmt.Sprintf in
		// Hook.prepareBindingContextJsonFile (same per-run uuid mechanism)
		ctxFmt, ctxArgs := "", []string{}
		if fd := findFunc("pkg/hook/hook.go", "Hook", "prepareBindingContextJsonFile"); fd != nil && fd.Body != nil {
			n := 0
			ast.Inspect(fd.Body, func(x ast.Node) bool {
				call, ok := x.(*ast.CallExpr)
				if !ok {
					return true
				}
				sel, ok := call.Fun.(*ast.SelectorExpr)
				if !ok || sel.Sel.Name != "Sprintf" || len(call.Args) == 0 {
					return true
				}
				lit, ok := call.Args[0].(*ast.BasicLit)
				if !ok || lit.Kind != token.STRING {
					stale = true
					return true
				}
				n++
				ctxFmt, _ = strconv.Unquote(lit.Value)
				for _, a := range call.Args[1:] {
					ctxArgs = append(ctxArgs, srcOf(a))
				}
				return true
			})
			if n != 1 {
				stale = true
			}
		} else {
			stale = true
		}
		l.def("c14ContextFileFmt", "String", strconv.Quote(ctxFmt), "pkg/hook/hook.go prepareBindingContextJsonFile: fmt.Sprintf format")
		l.def("c14ContextFileArgs", "List String", leanStrList(ctxArgs), "pkg/hook/hook.go prepareBindingContextJsonFile: fmt.Sprintf arguments")

		// where the BindingContext slice of a request comes from: for every return of
		// AdmissionBindingsController.HandleEvent the source of the BindingContext field of the returned
		// composite literal (a slice literal = built in this call, once per request), and the type of the
		// composite literal the local `bc` is declared with
		ctxExprs, bcType := []string{}, ""
		if fd := findFunc("pkg/hook/controller/admission_bindings_controller.go", "AdmissionBindingsController", "HandleEvent"); fd != nil && fd.Body != nil {
			ast.Inspect(fd.Body, func(x ast.Node) bool {
				switch n := x.(type) {
				case *ast.FuncLit:
					return false
				case *ast.ReturnStmt:
					if len(n.Results) != 1 {
						ctxExprs = append(ctxExprs, "<not one result>")
						return true
					}
					cl, ok := n.Results[0].(*ast.CompositeLit)
					if !ok {
						ctxExprs = append(ctxExprs, "<not a literal: "+srcOf(n.Results[0])+">")
						return true
					}
					found := "<no BindingContext field>"
					for _, el := range cl.Elts {
						if kv, ok := el.(*ast.KeyValueExpr); ok {
							if id, ok := kv.Key.(*ast.Ident); ok && id.Name == "BindingContext" {
								found = srcOf(kv.Value)
							}
						}
					}
					ctxExprs = append(ctxExprs, found)
				case *ast.AssignStmt:
					if n.Tok == token.DEFINE && len(n.Lhs) == 1 && len(n.Rhs) == 1 {
						if id, ok := n.Lhs[0].(*ast.Ident); ok && id.Name == "bc" {
							if cl, ok := n.Rhs[0].(*ast.CompositeLit); ok && cl.Type != nil {
								bcType = srcOf(cl.Type)
							} else {
								bcType = "<not a literal: " + srcOf(n.Rhs[0]) + ">"
							}
						}
					}
				}
				return true
			})
		} else {
			stale = true
		}
		l.def("c14HandleEventCtxExprs", "List String", leanStrList(ctxExprs), "pkg/hook/controller/admission_bindings_controller.go HandleEvent: BindingContext of every returned BindingExecutionInfo")
		l.def("c14HandleEventBcType", "String", strconv.Quote(bcType), "pkg/hook/controller/admission_bindings_controller.go HandleEvent: bc := <type>{…}")
		// how a failed run of the hook process is recognised: the condition of the `if` that directly follows
		// `err := e.cmd.Run()` in Executor.RunAndLogLines and the one that follows
		// `result.Usage, err = hookCmd.RunAndLogLines(…)` in Hook.Run (both must return inside)
		execCond := c14CondAfterCall("pkg/executor/executor.go", "Executor", "RunAndLogLines", "Run")
		hookCond := c14CondAfterCall("pkg/hook/hook.go", "Hook", "Run", "RunAndLogLines")
		if execCond == "" || hookCond == "" {
			stale = true
		}
		l.def("c14ExecRunFailCond", "String", strconv.Quote(execCond), "pkg/executor/executor.go RunAndLogLines: condition of the if after err := e.cmd.Run()")
		l.def("c14HookRunFailCond", "String", strconv.Quote(hookCond), "pkg/hook/hook.go Run: condition of the if after hookCmd.RunAndLogLines(…)")
		// may a failed run of an admission hook count as a success? For every return of HandleEvent the source of the
		// AllowFailure field of the returned BindingExecutionInfo literal ("<absent>" = not set: false)
		afExprs := []string{}
		if fd := findFunc("pkg/hook/controller/admission_bindings_controller.go", "AdmissionBindingsController", "HandleEvent"); fd != nil && fd.Body != nil {
			ast.Inspect(fd.Body, func(x ast.Node) bool {
				switch n := x.(type) {
				case *ast.FuncLit:
					return false
				case *ast.ReturnStmt:
					if len(n.Results) != 1 {
						afExprs = append(afExprs, "<not one result>")
						return true
					}
					cl, ok := n.Results[0].(*ast.CompositeLit)
					if !ok {
						afExprs = append(afExprs, "<not a literal: "+srcOf(n.Results[0])+">")
						return true
					}
					found := "<absent>"
					for _, el := range cl.Elts {
						kv, ok := el.(*ast.KeyValueExpr)
						if !ok {
							found = "<positional literal>"
							break
						}
						if id, ok := kv.Key.(*ast.Ident); ok && id.Name == "AllowFailure" {
							found = srcOf(kv.Value)
						}
					}
					afExprs = append(afExprs, found)
				}
				return true
			})
		} else {
			stale = true
		}
		l.def("c14HandleEventAllowFailure", "List String", leanStrList(afExprs), "pkg/hook/controller/admission_bindings_controller.go HandleEvent: AllowFailure of every returned BindingExecutionInfo")
		// is the admissionResponse task prop stored after everything that can fail? The top-level statements of
		// ShellOperator.handleRunHook that follow the one with SetProp("admissionResponse", …) and contain a return
		// of something else than nil (an if: its condition)
		afterProp := []string{}
		if fd := findFunc("pkg/shell-operator/operator.go", "ShellOperator", "handleRunHook"); fd != nil && fd.Body != nil {
			at := -1
			for i, st := range fd.Body.List {
				ast.Inspect(st, func(x ast.Node) bool {
					call, ok := x.(*ast.CallExpr)
					if !ok {
						return true
					}
					if sel, ok := call.Fun.(*ast.SelectorExpr); ok && sel.Sel.Name == "SetProp" && len(call.Args) > 0 {
						if lit, ok := call.Args[0].(*ast.BasicLit); ok && lit.Value == `"admissionResponse"` && at < 0 {
							at = i
						}
					}
					return true
				})
			}
			if at < 0 {
				stale = true
				afterProp = append(afterProp, "<no SetProp(\"admissionResponse\", …) in handleRunHook>")
			} else {
				for _, st := range fd.Body.List[at+1:] {
					fails := false
					ast.Inspect(st, func(x ast.Node) bool {
						if _, ok := x.(*ast.FuncLit); ok {
							return false
						}
						if r, ok := x.(*ast.ReturnStmt); ok {
							for _, e := range r.Results {
								if id, ok := e.(*ast.Ident); !ok || id.Name != "nil" {
									fails = true
								}
							}
						}
						return true
					})
					if fails {
						if is, ok := st.(*ast.IfStmt); ok {
							afterProp = append(afterProp, srcOf(is.Cond))
						} else {
							afterProp = append(afterProp, "<statement>")
						}
					}
				}
			}
		} else {
			stale = true
		}
		l.def("c14RunHookFailsAfterProp", "List String", leanStrList(afterProp), "pkg/shell-operator/operator.go handleRunHook: statements after SetProp(\"admissionResponse\") that can return an error")
		l.def("c14FactsStale", "Bool", map[bool]string{true: "true", false: "false"}[stale], "extractor: a syntactic shape it expects was not found")
	})
}

// c14CondAfterCall: in the top-level statements of recv.fn, the assignment whose right-hand side is a call
// of a method named callee, directly followed by an `if` without init whose body ends in a return: the
// source of its condition ("" = that shape is not there; "<…>" = the shape differs)
func c14CondAfterCall(file, recv, fn, callee string) string {
	fd := findFunc(file, recv, fn)
	if fd == nil || fd.Body == nil {
		return ""
	}
	for i, st := range fd.Body.List {
		as, ok := st.(*ast.AssignStmt)
		if !ok || len(as.Rhs) != 1 {
			continue
		}
		call, ok := as.Rhs[0].(*ast.CallExpr)
		if !ok {
			continue
		}
		sel, ok := call.Fun.(*ast.SelectorExpr)
		if !ok || sel.Sel.Name != callee {
			continue
		}
		if i+1 >= len(fd.Body.List) {
			return "<no statement follows the call>"
		}
		is, ok := fd.Body.List[i+1].(*ast.IfStmt)
		if !ok || is.Init != nil || len(is.Body.List) == 0 {
			return "<the call is not followed by a plain if>"
		}
		if _, ok := is.Body.List[len(is.Body.List)-1].(*ast.ReturnStmt); !ok {
			return "<the if does not end in a return>"
		}
		return srcOf(is.Cond)
	}
	return ""
}
