package main

// C20 facts (tie T1): the literal tables of pkg/utils/file/file.go the discovery model computes with.
//   c20ExcludedExtensions  case labels of `switch filepath.Ext(f.Name())` in checkExecutableHookFile
//   c20ExcludedDirs        string arguments of `excludedDirs = append(excludedDirs, …)` in RecursiveGetExecutablePaths
//   c20HiddenPrefix        second argument of every strings.HasPrefix(f.Name(), …) in both functions (must be one value)
//   c20ExecMask            the mask of `f.Mode()&<mask> == 0` in CheckExecutablePermissions
//   c20RootExempt          the directory test of the walk callback is guarded by `path != dir`
//   c20InitWalkArgs        the argument expressions of Init's call of RecursiveGetExecutablePaths (the hooks directory
//                          and nothing else: no caller-supplied excluded directory names)
//   c20ProcessState        package-level variables (other than sentinel errors) that the scan
//                          (RecursiveGetExecutablePaths, RecursiveCheckLibDirectory, checkExecutableHookFile,
//                          CheckExecutablePermissions) or Manager.Init / loadHook / NewHookManager mention: what one
//                          start of a hook manager could leave behind for the next start in the same process
// plus the lock-free step skeleton of the walk callback, of Manager.Init and of the legacy (v0) config
// conversion (tie T3).

import (
	"go/ast"
	"go/token"
	"os"
	"path/filepath"
	"sort"
	"strconv"
	"strings"
)

// c20PkgVars: the package-level `var` names of all non-test files of a package directory; sentinel
// errors (`= errors.New(...)`) are values, not state
func c20PkgVars(dir string) map[string]bool {
	res := map[string]bool{}
	ents, err := os.ReadDir(filepath.Join(repo, dir))
	if err != nil {
		return res
	}
	for _, e := range ents {
		if e.IsDir() || !strings.HasSuffix(e.Name(), ".go") || strings.HasSuffix(e.Name(), "_test.go") {
			continue
		}
		f := parse(filepath.Join(dir, e.Name()))
		if f == nil {
			continue
		}
		for _, d := range f.Decls {
			gd, ok := d.(*ast.GenDecl)
			if !ok || gd.Tok != token.VAR {
				continue
			}
			for _, sp := range gd.Specs {
				vs := sp.(*ast.ValueSpec)
				for i, n := range vs.Names {
					if n.Name == "_" {
						continue
					}
					if i < len(vs.Values) {
						if c, ok := vs.Values[i].(*ast.CallExpr); ok && exprStr(c.Fun) == "errors.New" {
							continue
						}
					}
					res[n.Name] = true
				}
			}
		}
	}
	return res
}

// c20Mentions: which of vars the function body mentions (an identifier that is not a selector's field
// and is not shadowed by a parameter / local of the same name is good enough here: over-approximation)
func c20Mentions(fd *ast.FuncDecl, vars map[string]bool, out map[string]bool) {
	if fd == nil || fd.Body == nil {
		return
	}
	ast.Inspect(fd.Body, func(n ast.Node) bool {
		if se, ok := n.(*ast.SelectorExpr); ok {
			// x.f: only x can be a package-level variable of this package
			ast.Inspect(se.X, func(m ast.Node) bool {
				if id, ok := m.(*ast.Ident); ok && vars[id.Name] {
					out[id.Name] = true
				}
				return true
			})
			return false
		}
		if id, ok := n.(*ast.Ident); ok && vars[id.Name] {
			out[id.Name] = true
		}
		return true
	})
}

const c20File = "pkg/utils/file/file.go"

func c20Facts(l *leanDefs) {
	stale := false
	var exts, dirs []string
	prefixes := map[string]bool{}
	mask := int64(-1)
	rootExempt := false

	unq := func(e ast.Expr) (string, bool) {
		b, ok := e.(*ast.BasicLit)
		if !ok || b.Kind != token.STRING {
			return "", false
		}
		s, err := strconv.Unquote(b.Value)
		return s, err == nil
	}
	collectPrefixes := func(fd *ast.FuncDecl) {
		ast.Inspect(fd.Body, func(n ast.Node) bool {
			c, ok := n.(*ast.CallExpr)
			if !ok || exprStr(c.Fun) != "strings.HasPrefix" || len(c.Args) != 2 {
				return true
			}
			if exprStr(c.Args[0]) != "f.Name()" {
				return true
			}
			if s, ok := unq(c.Args[1]); ok {
				prefixes[s] = true
			} else {
				stale = true
			}
			return true
		})
	}

	if fd := findFunc(c20File, "", "checkExecutableHookFile"); fd != nil && fd.Body != nil {
		collectPrefixes(fd)
		nsw := 0
		ast.Inspect(fd.Body, func(n ast.Node) bool {
			sw, ok := n.(*ast.SwitchStmt)
			if !ok {
				return true
			}
			nsw++
			if exprStr(sw.Tag) != "filepath.Ext()" {
				stale = true
				return true
			}
			for _, st := range sw.Body.List {
				cc := st.(*ast.CaseClause)
				if cc.List == nil { // default:
					stale = true
				}
				for _, e := range cc.List {
					if s, ok := unq(e); ok {
						exts = append(exts, s)
					} else {
						stale = true
					}
				}
			}
			return true
		})
		if nsw != 1 {
			stale = true
		}
	} else {
		stale = true
	}

	if fd := findFunc(c20File, "", "RecursiveGetExecutablePaths"); fd != nil && fd.Body != nil {
		collectPrefixes(fd)
		ast.Inspect(fd.Body, func(n ast.Node) bool {
			switch x := n.(type) {
			case *ast.AssignStmt:
				if len(x.Lhs) == 1 && exprStr(x.Lhs[0]) == "excludedDirs" && len(x.Rhs) == 1 {
					if c, ok := x.Rhs[0].(*ast.CallExpr); ok && exprStr(c.Fun) == "append" && len(c.Args) >= 1 && exprStr(c.Args[0]) == "excludedDirs" {
						for _, a := range c.Args[1:] {
							if s, ok := unq(a); ok {
								dirs = append(dirs, s)
							} else {
								stale = true
							}
						}
					} else {
						stale = true
					}
				}
			case *ast.IfStmt:
				// if path != dir && (hidden || excluded) { return filepath.SkipDir }
				if b, ok := x.Cond.(*ast.BinaryExpr); ok && b.Op == token.LAND {
					if g, ok := b.X.(*ast.BinaryExpr); ok && g.Op == token.NEQ {
						a, c := exprStr(g.X), exprStr(g.Y)
						if (a == "path" && c == "dir") || (a == "dir" && c == "path") {
							ast.Inspect(b.Y, func(m ast.Node) bool {
								if cc, ok := m.(*ast.CallExpr); ok && exprStr(cc.Fun) == "strings.HasPrefix" {
									rootExempt = true
								}
								return true
							})
						}
					}
				}
			}
			return true
		})
	} else {
		stale = true
	}

	if fd := findFunc(c20File, "", "CheckExecutablePermissions"); fd != nil && fd.Body != nil {
		// expected shape: exactly one `if f.Mode()&<mask> == 0 { return … }`. The mask is taken from any
		// `<expr>&<int literal>` (so that the model stays as close to a changed function as it can); every
		// other shape of the condition (another operand, further conjuncts / disjuncts) marks the facts stale.
		nIf := 0
		ast.Inspect(fd.Body, func(n ast.Node) bool {
			switch x := n.(type) {
			case *ast.IfStmt:
				nIf++
				ok := false
				if c, isBin := x.Cond.(*ast.BinaryExpr); isBin && c.Op == token.EQL && exprStr(c.Y) == "0" {
					if a, isAnd := c.X.(*ast.BinaryExpr); isAnd && a.Op == token.AND && exprStr(a.X) == "f.Mode()" {
						ok = true
					}
				}
				if !ok || x.Init != nil || x.Else != nil {
					stale = true
				}
			case *ast.BinaryExpr:
				if x.Op != token.AND {
					return true
				}
				if lit, ok := x.Y.(*ast.BasicLit); ok && lit.Kind == token.INT {
					if v, err := strconv.ParseInt(lit.Value, 0, 64); err == nil {
						if mask >= 0 && mask != v {
							stale = true
						}
						mask = v
					}
				}
			}
			return true
		})
		if nIf != 1 {
			stale = true
		}
	}
	if mask < 0 {
		stale = true
		mask = 0
	}
	ps := sortedKeys(prefixes)
	pfx := ""
	if len(ps) == 1 {
		pfx = ps[0]
	} else {
		stale = true
	}
	l.def("c20ExcludedExtensions", "List String", leanStrList(exts), c20File+": checkExecutableHookFile switch")
	l.def("c20ExcludedDirs", "List String", leanStrList(dirs), c20File+": RecursiveGetExecutablePaths append(excludedDirs, …)")
	l.def("c20HiddenPrefix", "String", strconv.Quote(pfx), c20File+": strings.HasPrefix(f.Name(), …)")
	l.def("c20ExecMask", "Nat", strconv.FormatInt(mask, 10), c20File+": CheckExecutablePermissions")
	l.def("c20RootExempt", "Bool", strconv.FormatBool(rootExempt), c20File+": walk callback guards the directory test with path != dir")
	state := map[string]bool{}
	fileVars := c20PkgVars("pkg/utils/file")
	for _, fn := range []string{"RecursiveGetExecutablePaths", "RecursiveCheckLibDirectory", "checkExecutableHookFile", "CheckExecutablePermissions"} {
		fd := findFunc(c20File, "", fn)
		if fd == nil {
			stale = true
		}
		c20Mentions(fd, fileVars, state)
	}
	hookVars := c20PkgVars("pkg/hook")
	for _, fn := range [][2]string{{"Manager", "Init"}, {"Manager", "loadHook"}, {"", "NewHookManager"}} {
		fd := findFunc("pkg/hook/hook_manager.go", fn[0], fn[1])
		if fd == nil {
			stale = true
		}
		c20Mentions(fd, hookVars, state)
	}
	// the arguments Init gives to RecursiveGetExecutablePaths: the model's table of excluded directory
	// names is file.go's own (`lib`) only as long as the caller adds none through the variadic parameter
	walkArgs := []string{}
	nWalkCalls := 0
	if fd := findFunc("pkg/hook/hook_manager.go", "Manager", "Init"); fd != nil && fd.Body != nil {
		ast.Inspect(fd.Body, func(n ast.Node) bool {
			c, ok := n.(*ast.CallExpr)
			if !ok {
				return true
			}
			if se, ok := c.Fun.(*ast.SelectorExpr); ok && se.Sel.Name == "RecursiveGetExecutablePaths" {
				nWalkCalls++
				for _, a := range c.Args {
					walkArgs = append(walkArgs, exprStr(a))
				}
				if c.Ellipsis.IsValid() {
					walkArgs = append(walkArgs, "...")
				}
			}
			return true
		})
	}
	if nWalkCalls != 1 {
		stale = true
	}
	l.def("c20InitWalkArgs", "List String", leanStrList(walkArgs), "pkg/hook/hook_manager.go: arguments of the RecursiveGetExecutablePaths call in Init")
	var stateNames []string
	for k := range state {
		stateNames = append(stateNames, k)
	}
	sort.Strings(stateNames)
	l.def("c20ProcessState", "List String", leanStrList(stateNames), "pkg/utils/file, pkg/hook/hook_manager.go: package-level variables the scan / Init mention")
	l.def("c20FactsStale", "Bool", strconv.FormatBool(stale), c20File+": true when the extractor did not recognise the expected shape")
}

func init() {
	factFns = append(factFns, c20Facts)
	skeletonTargets = append(skeletonTargets,
		skelTarget{Name: "Manager.Init", File: "pkg/hook/hook_manager.go", Recv: "Manager", Func: "Init",
			Fields: []string{"hooksInOrder", "hooksByName", "hookNamesInOrder"},
			Calls:  []string{"RecursiveGetExecutablePaths", "Strings", "loadHook", "UpdateConversionChains", "Bindings"}},
		skelTarget{Name: "Manager.loadHook", File: "pkg/hook/hook_manager.go", Recv: "Manager", Func: "loadHook",
			Fields: []string{},
			Calls:  []string{"Rel", "NewHook", "execCommandOutput", "LoadConfig"}},
		skelTarget{Name: "Manager.execCommandOutput", File: "pkg/hook/hook_manager.go", Recv: "Manager", Func: "execCommandOutput",
			Fields: []string{},
			Calls:  []string{"Output", "ExitCode", "As", "Is"}},
		skelTarget{Name: "c20.HookConfigV0.ConvertAndCheck", File: "pkg/hook/config/config_v0.go", Recv: "HookConfigV0", Func: "ConvertAndCheck",
			Fields: []string{"Schedules", "OnKubernetesEvents", "OnStartup"},
			Calls:  []string{"ConvertOnStartup", "CheckSchedule", "ConvertSchedule", "CheckOnKubernetesEvent"}},
		skelTarget{Name: "RecursiveGetExecutablePaths", File: c20File, Recv: "", Func: "RecursiveGetExecutablePaths",
			Fields: []string{},
			Calls:  []string{"Walk", "IsDir", "HasPrefix", "Contains", "checkExecutableHookFile"}},
	)
}
