package main

// C11: skeletons of the modelled schedule functions (tie T3).
func init() {
	skeletonTargets = append(skeletonTargets,
		skelTarget{Name: "scheduleManager.Add", File: "pkg/schedule_manager/schedule_manager.go", Recv: "scheduleManager", Func: "Add",
			Fields: []string{"Entries", "Ids", "ScheduleCh"},
			Calls:  []string{"AddFunc", "Remove"}},
		skelTarget{Name: "scheduleManager.Remove", File: "pkg/schedule_manager/schedule_manager.go", Recv: "scheduleManager", Func: "Remove",
			Fields: []string{"Entries", "Ids", "EntryID"},
			Calls:  []string{"AddFunc", "Remove", "delete", "len"}},
		skelTarget{Name: "scheduleBindingsController.HandleEvent", File: "pkg/hook/controller/schedule_bindings_controller.go", Recv: "scheduleBindingsController", Func: "HandleEvent",
			Fields: []string{"ScheduleLinks", "Crontab", "BindingName", "IncludeSnapshots", "AllowFailure", "QueueName", "Group"},
			Calls:  []string{"append"}},
		skelTarget{Name: "scheduleBindingsController.EnableScheduleBindings", File: "pkg/hook/controller/schedule_bindings_controller.go", Recv: "scheduleBindingsController", Func: "EnableScheduleBindings",
			Fields: []string{"ScheduleLinks", "ScheduleBindings"},
			Calls:  []string{"Add", "Remove", "delete"}},
		skelTarget{Name: "scheduleBindingsController.DisableScheduleBindings", File: "pkg/hook/controller/schedule_bindings_controller.go", Recv: "scheduleBindingsController", Func: "DisableScheduleBindings",
			Fields: []string{"ScheduleLinks", "ScheduleBindings"},
			Calls:  []string{"Add", "Remove", "delete"}},
		skelTarget{Name: "Manager.HandleScheduleEvent", File: "pkg/hook/hook_manager.go", Recv: "Manager", Func: "HandleScheduleEvent",
			Fields: []string{},
			Calls:  []string{"GetHooksInOrder", "GetHook", "CanHandleScheduleEvent", "HandleScheduleEvent", "createTaskFn"}},
		// sixth wave: the loaders of the `schedule:` section (Model/Schedule.lean convertV0 / convertV1 / mergeArrays)
		skelTarget{Name: "C11.HookConfigV0.ConvertSchedule", File: "pkg/hook/config/config_v0.go", Recv: "HookConfigV0", Func: "ConvertSchedule",
			Fields: []string{"BindingName", "AllowFailure", "ScheduleEntry", "Queue", "Group", "IncludeSnapshotsFrom", "Name", "Crontab"},
			Calls:  []string{"ScheduleID", "ConvertSchedule"}},
		skelTarget{Name: "C11.HookConfigV1.ConvertSchedule", File: "pkg/hook/config/config_v1.go", Recv: "HookConfigV1", Func: "ConvertSchedule",
			Fields: []string{"BindingName", "AllowFailure", "ScheduleEntry", "Queue", "Group", "IncludeSnapshotsFrom", "Name", "Crontab"},
			Calls:  []string{"ScheduleID", "ConvertSchedule"}},
		skelTarget{Name: "C11.MergeArrays", File: "pkg/hook/config/util.go", Func: "MergeArrays",
			Fields: []string{},
			Calls:  []string{"append", "make"}},
	)
}
