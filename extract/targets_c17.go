package main

// C17: skeleton targets (tie T3) and facts (tie T1) of "shutdown stops the queues cleanly".

import (
	"go/ast"
)

func init() {
	skeletonTargets = append(skeletonTargets,
		skelTarget{Name: "TaskQueueSet.Stop", File: "pkg/task/queue/queue_set.go", Recv: "TaskQueueSet", Func: "Stop",
			Fields: []string{"cancel", "Queues"}, Calls: []string{"cancel", "Stop"}},
		// the cancellable context of the set exists from WithContext on (Model/SetContext: a Stop() that finds the set
		// empty is not lost); NewNamedQueue (listed by C03) reads it
		skelTarget{Name: "TaskQueueSet.WithContext", File: "pkg/task/queue/queue_set.go", Recv: "TaskQueueSet", Func: "WithContext",
			Fields: []string{"ctx", "cancel"}, Calls: []string{"WithCancel"}},
		skelTarget{Name: "TaskQueueSet.WaitStopWithTimeout", File: "pkg/task/queue/queue_set.go", Recv: "TaskQueueSet", Func: "WaitStopWithTimeout",
			Fields: []string{"Queues", "Status"}, Calls: []string{"NewTicker", "Stop", "GetStatus"}},
		skelTarget{Name: "TaskQueue.Stop", File: "pkg/task/queue/task_queue.go", Recv: "TaskQueue", Func: "Stop",
			Fields: []string{"cancel"}, Calls: []string{"cancel"}},
		skelTarget{Name: "TaskQueue.WithContext", File: "pkg/task/queue/task_queue.go", Recv: "TaskQueue", Func: "WithContext",
			Fields: []string{"ctx", "cancel"}, Calls: []string{"WithCancel"}},
		skelTarget{Name: "ShellOperator.Shutdown", File: "pkg/shell-operator/operator.go", Recv: "ShellOperator", Func: "Shutdown",
			Fields: []string{"ScheduleManager", "KubeEventsManager", "TaskQueues", "ManagerEventsHandler"},
			Calls:  []string{"Stop", "PauseHandleEvents", "WaitStopWithTimeout", "cancel"}},
		skelTarget{Name: "scheduleManager.Stop", File: "pkg/schedule_manager/schedule_manager.go", Recv: "scheduleManager", Func: "Stop",
			Fields: []string{"cancel", "cron"}, Calls: []string{"cancel", "Stop"}},
		skelTarget{Name: "scheduleManager.Start", File: "pkg/schedule_manager/schedule_manager.go", Recv: "scheduleManager", Func: "Start",
			Fields: []string{"ctx", "cron"}, Calls: []string{"Start", "Stop", "Done"}},
		skelTarget{Name: "kubeEventsManager.PauseHandleEvents", File: "pkg/kube_events_manager/kube_events_manager.go", Recv: "kubeEventsManager", Func: "PauseHandleEvents",
			Fields: []string{"Monitors"}, Calls: []string{"PauseHandleEvents"}},
		// the lock PauseHandleEvents needs is released by StartMonitor before monitor.Start (the wait for the API server)
		skelTarget{Name: "kubeEventsManager.StartMonitor", File: "pkg/kube_events_manager/kube_events_manager.go", Recv: "kubeEventsManager", Func: "StartMonitor",
			Fields: []string{"Monitors"}, Calls: []string{"Start"}},
		skelTarget{Name: "monitor.PauseHandleEvents", File: "pkg/kube_events_manager/monitor.go", Recv: "monitor", Func: "PauseHandleEvents",
			Fields: []string{"ResourceInformers", "VaryingInformers", "NamespaceInformer"}, Calls: []string{"pauseHandleEvents", "RangeValue"}},
		skelTarget{Name: "resourceInformer.pauseHandleEvents", File: "pkg/kube_events_manager/resource_informer.go", Recv: "resourceInformer", Func: "pauseHandleEvents",
			Fields: []string{"stopped"}, Calls: []string{}},
	)
	factFns = append(factFns, factsC17)
}

// the first statement of resourceInformer.handleWatchEvent is `if ei.stopped { … return }`
func factsC17(l *leanDefs) {
	first := false
	if fd := findFunc("pkg/kube_events_manager/resource_informer.go", "resourceInformer", "handleWatchEvent"); fd != nil && fd.Body != nil && len(fd.Body.List) > 0 {
		if is, ok := fd.Body.List[0].(*ast.IfStmt); ok && is.Init == nil && is.Else == nil {
			if sel, ok := is.Cond.(*ast.SelectorExpr); ok && sel.Sel.Name == "stopped" && len(is.Body.List) > 0 {
				if _, ok := is.Body.List[len(is.Body.List)-1].(*ast.ReturnStmt); ok {
					first = true
				}
			}
		}
	}
	v := "false"
	if first {
		v = "true"
	}
	l.def("c17_watchEventChecksStoppedFirst", "Bool", v, "pkg/kube_events_manager/resource_informer.go: handleWatchEvent begins with `if ei.stopped { … return }`")
}
