package main

// Skeleton targets: one per modelled function (tie T3).
func init() {
	skeletonTargets = append(skeletonTargets,
		skelTarget{Name: "TaskQueue.Start", File: "pkg/task/queue/task_queue.go", Recv: "TaskQueue", Func: "Start",
			Fields: []string{"started", "items", "ctx"},
			Calls:  []string{"waitForTask", "Handler", "addAfter", "remove", "addFirst", "addLast", "withLock", "ExponentialBackoffFn", "IncrementFailureCount", "AfterHandle", "Done"}},
		skelTarget{Name: "TaskQueue.waitForTask", File: "pkg/task/queue/task_queue.go", Recv: "TaskQueue", Func: "waitForTask",
			Fields: []string{"items", "ctx", "cancelDelay", "waitInProgress"},
			Calls:  []string{"IsEmpty", "GetFirst", "Done"}},
		// the lock glue every public operation runs through: the translator tie T4 drops `withLock(func(){…})`
		// around the primitives on the assumption that it is Lock; fn(); Unlock and nothing else
		skelTarget{Name: "TaskQueue.withLock", File: "pkg/task/queue/task_queue.go", Recv: "TaskQueue", Func: "withLock",
			Fields: []string{"items", "started", "ctx"}, Calls: []string{"*"}},
		skelTarget{Name: "TaskQueue.withRLock", File: "pkg/task/queue/task_queue.go", Recv: "TaskQueue", Func: "withRLock",
			Fields: []string{"items", "started", "ctx"}, Calls: []string{"*"}},
	)
}
