package main

// Skeleton targets of C01: the three functions of the hand-over protocol (tie T3).
func init() {
	ri := "pkg/kube_events_manager/resource_informer.go"
	skeletonTargets = append(skeletonTargets,
		skelTarget{Name: "resourceInformer.handleWatchEvent", File: ri, Recv: "resourceInformer", Func: "handleWatchEvent",
			Fields: []string{"cachedObjects", "eventBuf", "eventCbEnabled", "stopped"},
			Calls:  []string{"putEvent", "shouldFireEvent"}},
		skelTarget{Name: "resourceInformer.getCachedObjects", File: ri, Recv: "resourceInformer", Func: "getCachedObjects",
			Fields: []string{"cachedObjects", "eventBuf", "eventCbEnabled"}},
		skelTarget{Name: "resourceInformer.enableKubeEventCb", File: ri, Recv: "resourceInformer", Func: "enableKubeEventCb",
			Fields: []string{"eventBuf", "eventCbEnabled"}, Calls: []string{"putEvent"}},
	)
}
