package main

// C06 facts (tie T1):
//   c06StableSort                 GetHooksInOrder sorts the onStartup hooks with sort.SliceStable (not sort.Slice)
//   c06OrderLess                  the less function compares `.Config.OnStartup.Order` with `<`
//   c06StopCombineOnSkippedSync   taskHandleHookRun passes combineBindingContextForHook a stop function that
//                                 mentions IsSynchronization and ExecuteOnSynchronization (not nil)
//   c06V0SkipRule                 taskHandleHookRun, inside a branch on isSynchronization, compares the hook's
//                                 Config.Version with "v0" and assigns false there ("There were no Synchronization
//                                 for v0 hooks, skip hook execution")
//   c06V0SyncFlag                 HookConfigV0.ConvertAndCheck assigns something other than `false` to a
//                                 binding's ExecuteHookOnSynchronization (false: v0 bindings never carry the flag)
//   c06EnableUnlocks              one of taskHandleEnableKubernetesBindings, HookController.HandleEnableKubernetesBindings,
//                                 kubernetesBindingsController.EnableKubernetesBindings calls an Unlock* method or
//                                 EnableKubeEventCb (false: enabling never lets Events through — only
//                                 taskHandleHookRun unlocks, behind the Synchronization; the model's enableKube step
//                                 writes no `unlock` whatever the options of the binding say)
// and the step skeletons of the modelled functions (tie T3).

import (
	"go/ast"
	"go/token"
	"strconv"
	"strings"
)

func c06Facts(l *leanDefs) {
	stable, less, stale := false, false, false
	if fd := findFunc("pkg/hook/hook_manager.go", "Manager", "GetHooksInOrder"); fd != nil && fd.Body != nil {
		n := 0
		ast.Inspect(fd.Body, func(nd ast.Node) bool {
			c, ok := nd.(*ast.CallExpr)
			if !ok {
				return true
			}
			f := exprStr(c.Fun)
			if f != "sort.Slice" && f != "sort.SliceStable" && f != "slices.SortFunc" && f != "slices.SortStableFunc" {
				return true
			}
			n++
			stable = f == "sort.SliceStable"
			if len(c.Args) == 2 {
				if fl, ok := c.Args[1].(*ast.FuncLit); ok && len(fl.Body.List) == 1 {
					if rs, ok := fl.Body.List[0].(*ast.ReturnStmt); ok && len(rs.Results) == 1 {
						if b, ok := rs.Results[0].(*ast.BinaryExpr); ok && b.Op == token.LSS {
							l, r := exprStr(b.X), exprStr(b.Y)
							less = l == "hooks[].Config.OnStartup.Order" && r == "hooks[].Config.OnStartup.Order"
							if less {
								// hooks[i] on the left, hooks[j] on the right
								li := b.X.(*ast.SelectorExpr).X.(*ast.SelectorExpr).X.(*ast.SelectorExpr).X.(*ast.IndexExpr)
								ri := b.Y.(*ast.SelectorExpr).X.(*ast.SelectorExpr).X.(*ast.SelectorExpr).X.(*ast.IndexExpr)
								less = exprStr(li.Index) == "i" && exprStr(ri.Index) == "j"
							}
						}
					}
				}
			}
			return true
		})
		if n != 1 {
			stale = true
		}
	} else {
		stale = true
	}
	stop := false
	if fd := findFunc("pkg/shell-operator/operator.go", "ShellOperator", "taskHandleHookRun"); fd != nil && fd.Body != nil {
		calls := 0
		nonNil := false
		mentions := map[string]bool{}
		ast.Inspect(fd.Body, func(nd ast.Node) bool {
			switch x := nd.(type) {
			case *ast.CallExpr:
				if s, ok := x.Fun.(*ast.SelectorExpr); ok && s.Sel.Name == "combineBindingContextForHook" {
					calls++
					if len(x.Args) == 4 && exprStr(x.Args[3]) != "nil" {
						nonNil = true
					}
				}
			case *ast.FuncLit:
				ast.Inspect(x.Body, func(m ast.Node) bool {
					if s, ok := m.(*ast.SelectorExpr); ok {
						mentions[s.Sel.Name] = true
					}
					return true
				})
			}
			return true
		})
		if calls != 1 {
			stale = true
		}
		stop = nonNil && mentions["IsSynchronization"] && mentions["ExecuteOnSynchronization"]
	} else {
		stale = true
	}
	v0Rule := false
	if fd := findFunc("pkg/shell-operator/operator.go", "ShellOperator", "taskHandleHookRun"); fd != nil && fd.Body != nil {
		isV0Cmp := func(e ast.Expr) bool {
			b, ok := e.(*ast.BinaryExpr)
			if !ok || b.Op != token.EQL {
				return false
			}
			x, y := exprStr(b.X), exprStr(b.Y)
			ver := func(s string) bool { return len(s) >= len("Config.Version") && s[len(s)-len("Config.Version"):] == "Config.Version" }
			return (ver(x) && y == `"v0"`) || (ver(y) && x == `"v0"`)
		}
		assignsFalse := func(body *ast.BlockStmt) bool {
			found := false
			ast.Inspect(body, func(m ast.Node) bool {
				if as, ok := m.(*ast.AssignStmt); ok && len(as.Rhs) == 1 && exprStr(as.Rhs[0]) == "false" {
					found = true
				}
				return true
			})
			return found
		}
		ast.Inspect(fd.Body, func(nd ast.Node) bool {
			outer, ok := nd.(*ast.IfStmt)
			if !ok {
				return true
			}
			c := exprStr(outer.Cond)
			if c != "isSynchronization" && c != "hookMeta.IsSynchronization()" {
				return true
			}
			ast.Inspect(outer.Body, func(m ast.Node) bool {
				if inner, ok := m.(*ast.IfStmt); ok && isV0Cmp(inner.Cond) && assignsFalse(inner.Body) {
					v0Rule = true
				}
				return true
			})
			return true
		})
	} else {
		stale = true
	}
	v0Flag := false
	if fd := findFunc("pkg/hook/config/config_v0.go", "HookConfigV0", "ConvertAndCheck"); fd != nil && fd.Body != nil {
		ast.Inspect(fd.Body, func(nd ast.Node) bool {
			as, ok := nd.(*ast.AssignStmt)
			if !ok || len(as.Lhs) != 1 || len(as.Rhs) != 1 {
				return true
			}
			if sel, ok := as.Lhs[0].(*ast.SelectorExpr); ok && sel.Sel.Name == "ExecuteHookOnSynchronization" && exprStr(as.Rhs[0]) != "false" {
				v0Flag = true
			}
			return true
		})
	} else {
		stale = true
	}
	enableUnlocks := false
	for _, f := range [][3]string{
		{"pkg/shell-operator/operator.go", "ShellOperator", "taskHandleEnableKubernetesBindings"},
		{"pkg/hook/controller/hook_controller.go", "HookController", "HandleEnableKubernetesBindings"},
		{"pkg/hook/controller/kubernetes_bindings_controller.go", "kubernetesBindingsController", "EnableKubernetesBindings"},
	} {
		fd := findFunc(f[0], f[1], f[2])
		if fd == nil || fd.Body == nil {
			stale = true
			continue
		}
		ast.Inspect(fd.Body, func(nd ast.Node) bool {
			c, ok := nd.(*ast.CallExpr)
			if !ok {
				return true
			}
			name := ""
			switch x := c.Fun.(type) {
			case *ast.SelectorExpr:
				name = x.Sel.Name
			case *ast.Ident:
				name = x.Name
			}
			// UnlockEvents, UnlockEventsFor, UnlockKubernetesEvents, UnlockKubernetesEventsFor (not a mutex's Unlock)
			if strings.HasPrefix(name, "UnlockEvents") || strings.HasPrefix(name, "UnlockKubernetesEvents") || name == "EnableKubeEventCb" {
				enableUnlocks = true
			}
			return true
		})
	}
	l.def("c06EnableUnlocks", "Bool", strconv.FormatBool(enableUnlocks), "taskHandleEnableKubernetesBindings / HandleEnableKubernetesBindings / EnableKubernetesBindings call Unlock* or EnableKubeEventCb")
	l.def("c06V0SkipRule", "Bool", strconv.FormatBool(v0Rule), "pkg/shell-operator/operator.go: taskHandleHookRun skips a Synchronization when Config.Version == \"v0\"")
	l.def("c06V0SyncFlag", "Bool", strconv.FormatBool(v0Flag), "pkg/hook/config/config_v0.go: ConvertAndCheck sets ExecuteHookOnSynchronization of a v0 binding")
	l.def("c06StableSort", "Bool", strconv.FormatBool(stable), "pkg/hook/hook_manager.go: GetHooksInOrder")
	l.def("c06OrderLess", "Bool", strconv.FormatBool(less), "pkg/hook/hook_manager.go: GetHooksInOrder less function is hooks[i].Config.OnStartup.Order < hooks[j].Config.OnStartup.Order")
	l.def("c06StopCombineOnSkippedSync", "Bool", strconv.FormatBool(stop), "pkg/shell-operator/operator.go: taskHandleHookRun stop function of combineBindingContextForHook")
	l.def("c06FactsStale", "Bool", strconv.FormatBool(stale), "true when the extractor did not recognise the expected shape")
}

func init() {
	factFns = append(factFns, c06Facts)
	skeletonTargets = append(skeletonTargets,
		skelTarget{Name: "Manager.GetHooksInOrder", File: "pkg/hook/hook_manager.go", Recv: "Manager", Func: "GetHooksInOrder",
			Fields: []string{"hooksInOrder"}, Calls: []string{"Slice", "SliceStable", "HasBinding"}},
		skelTarget{Name: "ShellOperator.bootstrapMainQueue", File: "pkg/shell-operator/operator.go", Recv: "ShellOperator", Func: "bootstrapMainQueue",
			Fields: []string{}, Calls: []string{"GetHooksInOrder", "GetHookNames", "HasBinding", "AddLast", "NewNamedQueue", "NewTask"}},
		skelTarget{Name: "ShellOperator.taskHandleEnableKubernetesBindings", File: "pkg/shell-operator/operator.go", Recv: "ShellOperator", Func: "taskHandleEnableKubernetesBindings",
			Fields: []string{"HeadTasks", "Status"}, Calls: []string{"HandleEnableKubernetesBindings", "NewTask", "WithQueueName"}},
		skelTarget{Name: "C06.taskHandleHookRun", File: "pkg/shell-operator/operator.go", Recv: "ShellOperator", Func: "taskHandleHookRun",
			Fields: []string{"Status", "ExecuteOnSynchronization", "Version", "Group", "AllowFailure", "MonitorIDs", "BindingContext"},
			Calls:  []string{"IsSynchronization", "combineBindingContextForHook", "handleRunHook", "UnlockKubernetesEventsFor", "UpdateMetadata", "RateLimitWait"}},
		// the loop Model/Startup `enableBindings` follows: every attempt walks over all bindings from the first one
		skelTarget{Name: "kubernetesBindingsController.EnableKubernetesBindings", File: "pkg/hook/controller/kubernetes_bindings_controller.go",
			Recv: "kubernetesBindingsController", Func: "EnableKubernetesBindings",
			Fields: []string{"KubernetesBindings"},
			Calls:  []string{"AddMonitor", "HasMonitor", "GetMonitor", "StartMonitor", "StopMonitor", "setBindingMonitorLinks", "getBindingMonitorLinksById", "HandleEvent"}},
		// what `unlock_only_finished_synchronizations` models: the monitor IDs of a combined task are those of the head
		// task followed by those of the merged tasks (combine: `mons := t.mons ++ others.flatMap mons`) …
		skelTarget{Name: "C06.combineBindingContextForHook", File: "pkg/shell-operator/combine_binding_context.go", Recv: "ShellOperator", Func: "combineBindingContextForHook",
			Fields: []string{"MonitorIDs", "BindingContexts", "Group"},
			Calls:  []string{"GetMonitorIDs", "GetBindingContext", "GetHookName", "Iterate", "Filter", "make", "append"}},
		// … and UnlockKubernetesEventsFor(id) enables the event callback of exactly the monitor with that ID
		// (step: `.unlock t'.mons`), only UnlockEvents walks over all monitors of the hook
		skelTarget{Name: "kubernetesBindingsController.UnlockEventsFor", File: "pkg/hook/controller/kubernetes_bindings_controller.go",
			Recv: "kubernetesBindingsController", Func: "UnlockEventsFor",
			Calls: []string{"GetMonitor", "EnableKubeEventCb", "iterateBindingMonitorLinks", "UnlockEvents", "UnlockEventsFor", "append", "len"}},
		skelTarget{Name: "kubernetesBindingsController.UnlockEvents", File: "pkg/hook/controller/kubernetes_bindings_controller.go",
			Recv: "kubernetesBindingsController", Func: "UnlockEvents",
			Calls: []string{"GetMonitor", "EnableKubeEventCb", "iterateBindingMonitorLinks", "UnlockEvents", "UnlockEventsFor", "append", "len"}},
		// the glue between taskHandleEnableKubernetesBindings and the bindings controller: hands every Synchronization
		// info to createTasksFn and does nothing else (the model's enableKube step: the tasks, no `unlock`)
		skelTarget{Name: "HookController.HandleEnableKubernetesBindings", File: "pkg/hook/controller/hook_controller.go",
			Recv: "HookController", Func: "HandleEnableKubernetesBindings",
			Fields: []string{"KubernetesController", "WaitForSynchronization", "Queue", "Monitor"},
			Calls:  []string{"EnableKubernetesBindings", "createTasksFn", "UnlockEvents", "UnlockEventsFor", "UnlockKubernetesEvents", "UnlockKubernetesEventsFor", "EnableKubeEventCb"}},
		skelTarget{Name: "HookController.UnlockKubernetesEventsFor", File: "pkg/hook/controller/hook_controller.go",
			Recv: "HookController", Func: "UnlockKubernetesEventsFor",
			Calls: []string{"UnlockEvents", "UnlockEventsFor"}},
	)
}
