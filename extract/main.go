// Command extract regenerates, from the current sources of the repository,
//   - ShellOp/Generated/Facts.lean: literal tables and constants the property theorems are stated over (tie T1);
//   - one lock/step skeleton per modelled function (tie T3), compared by ../check with expect/skeleton/*.txt.
//
// Stdlib only (go/ast); control flow is not translated.
package main

import (
	"flag"
	"fmt"
	"go/ast"
	"go/parser"
	"go/token"
	"os"
	"path/filepath"
	"sort"
	"strconv"
	"strings"
)

var repo string

func main() {
	flag.StringVar(&repo, "repo", "/repo", "repository root")
	facts := flag.String("facts", "", "output Facts.lean")
	skel := flag.String("skeletons", "", "output directory for skeletons")
	trans := flag.String("trans", "", "output Trans.lean (translated functions, tie T4)")
	flag.Parse()
	if *trans != "" {
		if err := os.WriteFile(*trans, []byte(genTrans()), 0o644); err != nil {
			fmt.Println(err)
			os.Exit(1)
		}
	}
	if *facts != "" {
		if err := os.WriteFile(*facts, []byte(genFacts()), 0o644); err != nil {
			fmt.Println(err)
			os.Exit(1)
		}
	}
	if *skel != "" {
		for _, s := range skeletonTargets {
			txt := skeleton(s)
			_ = os.WriteFile(filepath.Join(*skel, s.Name+".txt"), []byte(txt), 0o644)
		}
	}
}

// ------------------------------------------------------------------ parsing helpers

var fset = token.NewFileSet()
var parsed = map[string]*ast.File{}

func parse(rel string) *ast.File {
	if f, ok := parsed[rel]; ok {
		return f
	}
	f, err := parser.ParseFile(fset, filepath.Join(repo, rel), nil, parser.ParseComments)
	if err != nil {
		parsed[rel] = nil
		return nil
	}
	parsed[rel] = f
	return f
}

func findFunc(rel, recv, name string) *ast.FuncDecl {
	f := parse(rel)
	if f == nil {
		return nil
	}
	for _, d := range f.Decls {
		fd, ok := d.(*ast.FuncDecl)
		if !ok || fd.Name.Name != name {
			continue
		}
		r := ""
		if fd.Recv != nil && len(fd.Recv.List) == 1 {
			t := fd.Recv.List[0].Type
			if s, ok := t.(*ast.StarExpr); ok {
				t = s.X
			}
			if id, ok := t.(*ast.Ident); ok {
				r = id.Name
			}
		}
		if r == recv {
			return fd
		}
	}
	return nil
}

func exprStr(e ast.Expr) string {
	switch x := e.(type) {
	case *ast.Ident:
		return x.Name
	case *ast.SelectorExpr:
		return exprStr(x.X) + "." + x.Sel.Name
	case *ast.BasicLit:
		return x.Value
	case *ast.CallExpr:
		return exprStr(x.Fun) + "()"
	case *ast.StarExpr:
		return "*" + exprStr(x.X)
	case *ast.UnaryExpr:
		return x.Op.String() + exprStr(x.X)
	case *ast.IndexExpr:
		return exprStr(x.X) + "[]"
	case *ast.ParenExpr:
		return exprStr(x.X)
	}
	return "_"
}

// ------------------------------------------------------------------ skeletons (T3)

type skelTarget struct {
	Name, File, Recv, Func string
	Fields                 []string // watched struct fields (read:/write:)
	Calls                  []string // watched callee names (last selector component)
}

var lockNames = map[string]bool{"Lock": true, "Unlock": true, "RLock": true, "RUnlock": true}

type skelWriter struct {
	t     skelTarget
	lines []string
	depth int
}

func (w *skelWriter) emit(s string) {
	w.lines = append(w.lines, strings.Repeat("  ", w.depth)+s)
}

func has(xs []string, s string) bool {
	for _, x := range xs {
		if x == s || x == "*" { // "*": every name is watched
			return true
		}
	}
	return false
}

// exprEvents lists, in evaluation order (approximately: source order), the watched events in e.
func (w *skelWriter) exprEvents(e ast.Node, lhs map[ast.Expr]bool) {
	if e == nil {
		return
	}
	ast.Inspect(e, func(n ast.Node) bool {
		switch x := n.(type) {
		case *ast.FuncLit:
			w.emit("func{")
			w.depth++
			w.block(x.Body)
			w.depth--
			w.emit("}")
			return false
		case *ast.CallExpr:
			if sel, ok := x.Fun.(*ast.SelectorExpr); ok {
				if lockNames[sel.Sel.Name] {
					w.emit(exprStr(sel.X) + "." + sel.Sel.Name)
					return false
				}
				if exprStr(sel.X) == "verifsched" && sel.Sel.Name == "Point" && len(x.Args) > 0 {
					w.emit("point:" + strings.Trim(exprStr(x.Args[0]), "\""))
					return false
				}
				if has(w.t.Calls, sel.Sel.Name) {
					for _, a := range x.Args {
						w.exprEvents(a, nil)
					}
					w.exprEvents(sel.X, nil)
					w.emit("call:" + sel.Sel.Name)
					return false
				}
			}
			if id, ok := x.Fun.(*ast.Ident); ok && has(w.t.Calls, id.Name) {
				for _, a := range x.Args {
					w.exprEvents(a, nil)
				}
				w.emit("call:" + id.Name)
				return false
			}
		case *ast.SelectorExpr:
			if has(w.t.Fields, x.Sel.Name) {
				if lhs[x] {
					w.emit("write:" + x.Sel.Name)
				} else {
					w.emit("read:" + x.Sel.Name)
				}
				return false
			}
		case *ast.UnaryExpr:
			if x.Op == token.ARROW {
				w.emit("recv:" + exprStr(x.X))
			}
		}
		return true
	})
}

func (w *skelWriter) stmt(s ast.Stmt) {
	switch x := s.(type) {
	case nil:
	case *ast.BlockStmt:
		w.block(x)
	case *ast.ExprStmt:
		w.exprEvents(x.X, nil)
	case *ast.AssignStmt:
		for _, r := range x.Rhs {
			w.exprEvents(r, nil)
		}
		lhs := map[ast.Expr]bool{}
		for _, l := range x.Lhs {
			lhs[l] = true
			// m[k] = v / delete-like writes on a watched field
			if ix, ok := l.(*ast.IndexExpr); ok {
				lhs[ix.X] = true
			}
		}
		for _, l := range x.Lhs {
			w.exprEvents(l, lhs)
		}
	case *ast.IncDecStmt:
		w.exprEvents(x.X, map[ast.Expr]bool{x.X: true})
	case *ast.DeclStmt:
		w.exprEvents(x, nil)
	case *ast.ReturnStmt:
		for _, r := range x.Results {
			w.exprEvents(r, nil)
		}
		w.emit("return")
	case *ast.DeferStmt:
		w.emit("defer{")
		w.depth++
		w.exprEvents(x.Call, nil)
		w.depth--
		w.emit("}")
	case *ast.GoStmt:
		w.emit("go{")
		w.depth++
		w.exprEvents(x.Call, nil)
		w.depth--
		w.emit("}")
	case *ast.IfStmt:
		w.stmt(x.Init)
		w.exprEvents(x.Cond, nil)
		w.emit("if{")
		w.depth++
		w.block(x.Body)
		w.depth--
		if x.Else != nil {
			w.emit("}else{")
			w.depth++
			w.stmt(x.Else)
			w.depth--
		}
		w.emit("}")
	case *ast.ForStmt:
		w.stmt(x.Init)
		w.emit("for{")
		w.depth++
		w.exprEvents(x.Cond, nil)
		w.block(x.Body)
		w.stmt(x.Post)
		w.depth--
		w.emit("}")
	case *ast.RangeStmt:
		w.exprEvents(x.X, nil)
		w.emit("range{")
		w.depth++
		w.block(x.Body)
		w.depth--
		w.emit("}")
	case *ast.SwitchStmt:
		w.stmt(x.Init)
		w.exprEvents(x.Tag, nil)
		w.emit("switch{")
		w.depth++
		for _, c := range x.Body.List {
			cc := c.(*ast.CaseClause)
			var lbl []string
			for _, e := range cc.List {
				lbl = append(lbl, exprStr(e))
			}
			if cc.List == nil {
				lbl = []string{"default"}
			}
			w.emit("case " + strings.Join(lbl, ",") + ":")
			w.depth++
			for _, b := range cc.Body {
				w.stmt(b)
			}
			w.depth--
		}
		w.depth--
		w.emit("}")
	case *ast.TypeSwitchStmt:
		w.emit("typeswitch{")
		w.depth++
		for _, c := range x.Body.List {
			cc := c.(*ast.CaseClause)
			w.emit("case:")
			w.depth++
			for _, b := range cc.Body {
				w.stmt(b)
			}
			w.depth--
		}
		w.depth--
		w.emit("}")
	case *ast.SelectStmt:
		w.emit("select{")
		w.depth++
		for _, c := range x.Body.List {
			cc := c.(*ast.CommClause)
			if cc.Comm == nil {
				w.emit("default:")
			} else {
				w.emit("comm:")
				w.depth++
				w.stmt(cc.Comm)
				w.depth--
			}
			w.depth++
			for _, b := range cc.Body {
				w.stmt(b)
			}
			w.depth--
		}
		w.depth--
		w.emit("}")
	case *ast.SendStmt:
		w.exprEvents(x.Value, nil)
		w.emit("send:" + exprStr(x.Chan))
	case *ast.LabeledStmt:
		w.stmt(x.Stmt)
	case *ast.BranchStmt:
		w.emit(x.Tok.String())
	}
}

func (w *skelWriter) block(b *ast.BlockStmt) {
	if b == nil {
		return
	}
	for _, s := range b.List {
		w.stmt(s)
	}
}

func skeleton(t skelTarget) string {
	fd := findFunc(t.File, t.Recv, t.Func)
	if fd == nil || fd.Body == nil {
		return "<function not found in source>\n"
	}
	w := &skelWriter{t: t}
	w.block(fd.Body)
	return strings.Join(prune(w.lines), "\n") + "\n"
}

// prune drops control-flow constructs that contain no watched event (lock op, yield point, watched
// field access, watched call, channel op) and no exit (return/continue/break), so that unrelated code
// (logging, metrics) does not show in a skeleton.
func prune(lines []string) []string {
	type node struct {
		text string
		kids []*node
	}
	depthOf := func(l string) int { return (len(l) - len(strings.TrimLeft(l, " "))) / 2 }
	root := &node{}
	stack := []*node{root}
	for _, l := range lines {
		d := depthOf(l)
		if d+1 < len(stack) {
			stack = stack[:d+1]
		}
		for d+1 > len(stack) { // defensive: a jump of two levels
			stack = append(stack, stack[len(stack)-1])
		}
		n := &node{text: strings.TrimSpace(l)}
		stack[len(stack)-1].kids = append(stack[len(stack)-1].kids, n)
		stack = append(stack[:d+1], n)
	}
	var significant func(n *node) bool
	significant = func(n *node) bool {
		t := n.text
		if strings.Contains(t, ".Lock") || strings.Contains(t, ".Unlock") || strings.Contains(t, ".RLock") || strings.Contains(t, ".RUnlock") ||
			strings.HasPrefix(t, "point:") || strings.HasPrefix(t, "read:") || strings.HasPrefix(t, "write:") ||
			strings.HasPrefix(t, "call:") || strings.HasPrefix(t, "send:") || strings.HasPrefix(t, "recv:") ||
			t == "return" || t == "continue" || t == "break" || t == "goto" {
			return true
		}
		for _, k := range n.kids {
			if significant(k) {
				return true
			}
		}
		return false
	}
	var out []string
	var emit func(ns []*node, depth int)
	emit = func(ns []*node, depth int) {
		for i := 0; i < len(ns); i++ {
			n := ns[i]
			opener := strings.HasSuffix(n.text, "{") && n.text != "}else{"
			if opener {
				// the construct spans up to its closing "}" sibling (with optional "}else{" parts)
				j := i + 1
				sig := significant(n)
				for j < len(ns) && ns[j].text != "}" {
					if significant(ns[j]) {
						sig = true
					}
					j++
				}
				if sig {
					for k := i; k <= j && k < len(ns); k++ {
						out = append(out, strings.Repeat("  ", depth)+ns[k].text)
						emit(ns[k].kids, depth+1)
					}
				}
				i = j
				continue
			}
			if n.text == "}" || n.text == "}else{" {
				continue
			}
			if strings.HasPrefix(n.text, "case ") || n.text == "default:" || n.text == "comm:" || n.text == "case:" {
				out = append(out, strings.Repeat("  ", depth)+n.text)
				emit(n.kids, depth+1)
				continue
			}
			out = append(out, strings.Repeat("  ", depth)+n.text)
			emit(n.kids, depth+1)
		}
	}
	emit(root.kids, 0)
	return out
}

// ------------------------------------------------------------------ facts (T1)

type leanDefs struct{ b strings.Builder }

func (l *leanDefs) def(name, typ, val, src string) {
	fmt.Fprintf(&l.b, "/-- extracted from `%s` -/\ndef %s : %s := %s\n\n", src, name, typ, val)
}

func leanStrList(xs []string) string {
	q := make([]string, len(xs))
	for i, x := range xs {
		q[i] = strconv.Quote(x)
	}
	return "[" + strings.Join(q, ", ") + "]"
}

func sortedKeys(m map[string]bool) []string {
	var ks []string
	for k := range m {
		ks = append(ks, k)
	}
	sort.Strings(ks)
	return ks
}

func genFacts() string {
	l := &leanDefs{}
	l.b.WriteString("/- GENERATED by /verif/extract from the current /repo sources on every check run. Do not edit, do not commit. -/\nnamespace ShellOp.Facts\n\n")
	for _, f := range factFns {
		f(l)
	}
	l.b.WriteString("end ShellOp.Facts\n")
	return l.b.String()
}

var factFns []func(*leanDefs)
var skeletonTargets []skelTarget
