package main

// Translated functions (tie T4): the slice-level primitives of pkg/task/queue/task_queue.go.
func init() {
	q := func(fn, lean, ret string, params map[string]string) transTarget {
		return transTarget{File: "pkg/task/queue/task_queue.go", Recv: "TaskQueue", Func: fn, Lean: lean,
			StateField: "items", Params: params, Ret: ret, Nil: "(none : Slot)",
			Inline: map[string]string{"isEmpty": "(Int.ofNat items.length == (0 : Int))"},
			Calls: map[string]string{"addFirst": "addFirst", "addLast": "addLast", "removeFirst": "removeFirst",
				"removeLast": "removeLast", "get": "get", "getLast": "getLast", "addAfter": "addAfter", "addBefore": "addBefore", "remove": "remove"}}
	}
	task := map[string]string{"t": "Slot"}
	transTargets = append(transTargets,
		q("addFirst", "addFirst", "Unit", task),
		q("addLast", "addLast", "Unit", task),
		q("removeFirst", "removeFirst", "Slot", nil),
		q("removeLast", "removeLast", "Slot", nil),
		q("getLast", "getLast", "Slot", nil),
		q("get", "get", "Slot", map[string]string{"id": "TaskId"}),
		q("addAfter", "addAfter", "Unit", map[string]string{"id": "TaskId", "newTask": "Slot"}),
		q("addBefore", "addBefore", "Unit", map[string]string{"id": "TaskId", "newTask": "Slot"}),
		q("remove", "remove", "Slot", map[string]string{"id": "TaskId"}),
		q("Filter", "filterQ", "Unit", map[string]string{"filterFn": "Option (Slot → Bool)"}),
		// public wrappers: lock + metrics dropped, the call of the primitive kept
		q("AddFirst", "AddFirst", "Unit", task),
		q("AddLast", "AddLast", "Unit", task),
		q("RemoveFirst", "RemoveFirst", "Slot", nil),
		q("RemoveLast", "RemoveLast", "Slot", nil),
		q("AddAfter", "AddAfter", "Unit", map[string]string{"id": "TaskId", "newTask": "Slot"}),
		q("AddBefore", "AddBefore", "Unit", map[string]string{"id": "TaskId", "newTask": "Slot"}),
		q("Remove", "Remove", "Slot", map[string]string{"id": "TaskId"}),
		q("GetFirst", "GetFirst", "Slot", nil),
	)
	// the result application of the worker loop: the critical section of `case Success, Keep:` in Start()
	ar := q("Start", "applyOk", "Unit", nil)
	ar.Block = "case:Success"
	ar.ExtraParams = []string{"(tid : TaskId)", "(status : ShellOp.Queue.Status)", "(afterTasks headTasks tailTasks : List Slot)"}
	ar.Subst = map[string]string{"t.GetId()": "tid", "taskRes.Status": "status", "Success": "ShellOp.Queue.Status.success",
		"taskRes.AfterTasks": "afterTasks", "taskRes.HeadTasks": "headTasks", "taskRes.TailTasks": "tailTasks"}
	transTargets = append(transTargets, ar)
	// C07: the group-compaction index loop, in combineBindingContextForHook and in its exported twin
	for _, tw := range [][3]string{
		{"pkg/shell-operator/combine_binding_context.go", "combineBindingContextForHook", "compactInt"},
		{"pkg/shell-operator/operator.go", "CombineBindingContextForHook", "compactTwin"}} {
		transTargets = append(transTargets, transTarget{File: tw[0], Recv: "ShellOperator", Func: tw[1], Lean: tw[2],
			Block: "def:compactedContext", Pure: true, Result: "compactedContext", Ret: "List ShellOp.Combine.Ctx",
			ExtraParams: []string{"(combinedContext : List ShellOp.Combine.Ctx)"},
			Nil:         "(default : ShellOp.Combine.Ctx)",
			Fields:      map[string]string{".Metadata.Group": "group"},
			Literals:    map[string]string{`""`: "(0 : Nat)"}})
	}
	// C16: the validation of a metric operation and of a batch (errors are counted)
	msub := map[string]string{"op.Action": "op.action", `op.Group == ""`: "(op.group == 0)", `op.Group != ""`: "(op.group != 0)",
		`op.Name == ""`: "(op.name == 0)", "op.Value == nil": "op.value.isNone", "op.Buckets == nil": "(!op.buckets)",
		"op.Set != nil": "op.set.isSome", "op.Add != nil": "op.add.isSome", "opErrs.ErrorOrNil()": "opErrs",
		"opsErrs.ErrorOrNil()": "opsErrs", "ValidateMetricOperation()": "(validateMetricOperation op)", "err != nil": "(err != 0)"}
	for _, f := range [][3]string{{"ValidateMetricOperation", "validateMetricOperation", "(op : ShellOp.Metrics.Op)"},
		{"ValidateOperations", "validateOperations", "(ops : List ShellOp.Metrics.Op)"}} {
		transTargets = append(transTargets, transTarget{File: "pkg/metric_storage/operation/operation.go", Func: f[0], Lean: f[1],
			Pure: true, Ret: "Nat", Params: map[string]string{"op": "ShellOp.Metrics.Op", "ops": "List ShellOp.Metrics.Op"},
			Subst: msub, VarInit: map[string]string{"opErrs": "(0 : Nat)", "opsErrs": "(0 : Nat)"},
			CountAppends: map[string]bool{"multierror.Append": true}, IfConvert: true})
	}
}
