package main

import (
	"fmt"
	"go/ast"
	"strings"
)

// C13: facts from pkg/kube/object_patch/operation.go (what NewFromOperationSpec builds per operation
// name, which options it forwards, the propagation policy of each delete constructor, the flags of
// each create variant) and skeletons of ParseOperations / ExecuteOperations / handleRunHook.
func init() {
	skeletonTargets = append(skeletonTargets,
		skelTarget{Name: "object_patch.ParseOperations", File: "pkg/kube/object_patch/operation.go", Recv: "", Func: "ParseOperations",
			Calls: []string{"unmarshalFromJSONOrYAML", "ValidateOperationSpec", "NewFromOperationSpec", "Append", "ErrorOrNil"}},
		skelTarget{Name: "object_patch.unmarshalFromJSONOrYAML", File: "pkg/kube/object_patch/helpers.go", Recv: "", Func: "unmarshalFromJSONOrYAML",
			Calls: []string{"unmarshalFromJson", "unmarshalFromYaml"}},
		skelTarget{Name: "object_patch.unmarshalFromJson", File: "pkg/kube/object_patch/helpers.go", Recv: "", Func: "unmarshalFromJson",
			Calls: []string{"Decode", "Unmarshal", "checkKnownField"}},
		skelTarget{Name: "object_patch.unmarshalFromYaml", File: "pkg/kube/object_patch/helpers.go", Recv: "", Func: "unmarshalFromYaml",
			Calls: []string{"Decode", "checkKnownField", "normalizeFreeFormFields"}},
		skelTarget{Name: "ObjectPatcher.ExecuteOperations", File: "pkg/kube/object_patch/patch.go", Recv: "ObjectPatcher", Func: "ExecuteOperations",
			Calls: []string{"ExecuteOperation", "Append", "ErrorOrNil"}},
		skelTarget{Name: "ObjectPatcher.ExecuteOperation", File: "pkg/kube/object_patch/patch.go", Recv: "ObjectPatcher", Func: "ExecuteOperation",
			Calls: []string{"executeCreateOperation", "executeDeleteOperation", "executeFilterOperation", "executePatchOperation", "hasFilterFn"}},
		// the two executors that write with Get ... Update under retry.RetryOnConflict (Model/Patch: updateAttempts, filterAttempts)
		skelTarget{Name: "ObjectPatcher.executeFilterOperation", File: "pkg/kube/object_patch/patch.go", Recv: "ObjectPatcher", Func: "executeFilterOperation",
			Calls: []string{"GroupVersionResource", "RetryOnConflict", "Get", "IsNotFound", "filterFunc", "DeepEqual", "Update", "SetResourceVersion"}},
		skelTarget{Name: "ObjectPatcher.executeCreateOperation", File: "pkg/kube/object_patch/patch.go", Recv: "ObjectPatcher", Func: "executeCreateOperation",
			Calls: []string{"toUnstructured", "GroupVersionResource", "Create", "IsAlreadyExists", "RetryOnConflict", "Get", "DeepCopy", "SetResourceVersion", "Update"}},
		// the other two executors: each resolves the resource for the apiVersion and kind of ITS operation
		// (Model/Patch, section "addressing": `targets` = one GroupVersionResource lookup per operation)
		skelTarget{Name: "ObjectPatcher.executePatchOperation", File: "pkg/kube/object_patch/patch.go", Recv: "ObjectPatcher", Func: "executePatchOperation",
			Calls: []string{"convertPatchToBytes", "GroupVersionResource", "Patch", "IsNotFound"}},
		skelTarget{Name: "ObjectPatcher.executeDeleteOperation", File: "pkg/kube/object_patch/patch.go", Recv: "ObjectPatcher", Func: "executeDeleteOperation",
			Calls: []string{"GroupVersionResource", "Delete", "IsNotFound", "PollUntilContextTimeout", "Get"}},
		skelTarget{Name: "ShellOperator.handleRunHook", File: "pkg/shell-operator/operator.go", Recv: "ShellOperator", Func: "handleRunHook",
			Calls: []string{"Run", "ParseOperations", "ExecuteOperations", "GetPatchStatusOperationsOnHookError", "SendBatch", "SetProp"}},
		// the patch file of a run: a name with a fresh uuid per call, written empty (Model/Patch: FStep.prepare,
		// `path` injective in `overlapping_runs_read_own`); Hook.Run itself is declared in targets_c12.go
		skelTarget{Name: "Hook.prepareObjectPatchFile", File: "pkg/hook/hook.go", Recv: "Hook", Func: "prepareObjectPatchFile",
			Calls: []string{"Join", "Sprintf", "SafeName", "Must", "NewV4", "String", "WriteFile"}},
	)
	factFns = append(factFns, c13Facts)
}

func c13CallName(e ast.Expr) (string, *ast.CallExpr) {
	c, ok := e.(*ast.CallExpr)
	if !ok {
		return "", nil
	}
	switch f := c.Fun.(type) {
	case *ast.Ident:
		return f.Name, c
	case *ast.SelectorExpr:
		return f.Sel.Name, c
	}
	return "", c
}

func c13Facts(l *leanDefs) {
	const file = "pkg/kube/object_patch/operation.go"
	stale := false
	// (operation name, constructor, options forwarded)
	type row struct {
		op, ctor string
		opts     []string
	}
	var rows []row
	if fd := findFunc(file, "", "NewFromOperationSpec"); fd != nil && fd.Body != nil {
		for _, st := range fd.Body.List {
			sw, ok := st.(*ast.SwitchStmt)
			if !ok {
				continue
			}
			for _, c := range sw.Body.List {
				cc := c.(*ast.CaseClause)
				if len(cc.List) != 1 || len(cc.Body) != 1 {
					stale = true
					continue
				}
				ret, ok := cc.Body[0].(*ast.ReturnStmt)
				if !ok || len(ret.Results) != 1 {
					stale = true
					continue
				}
				name, call := c13CallName(ret.Results[0])
				if call == nil {
					stale = true
					continue
				}
				r := row{op: exprStr(cc.List[0]), ctor: name}
				for _, a := range call.Args {
					if on, oc := c13CallName(a); oc != nil {
						r.opts = append(r.opts, on)
					}
				}
				rows = append(rows, r)
			}
		}
	}
	if len(rows) == 0 {
		stale = true
	}
	var items []string
	for _, r := range rows {
		items = append(items, fmt.Sprintf("(%q, %q, %s)", r.op, r.ctor, leanStrList(r.opts)))
	}
	l.def("c13OperationTable", "List (String × String × List String)", "["+strings.Join(items, ", ")+"]", file+" NewFromOperationSpec")

	// delete constructors -> propagation constant
	var dels []string
	for _, fn := range []string{"NewDeleteOperation", "NewDeleteInBackgroundOperation", "NewDeleteNonCascadingOperation"} {
		fd := findFunc(file, "", fn)
		prop := ""
		if fd != nil && fd.Body != nil && len(fd.Body.List) == 1 {
			if ret, ok := fd.Body.List[0].(*ast.ReturnStmt); ok && len(ret.Results) == 1 {
				if n, call := c13CallName(ret.Results[0]); call != nil && n == "newDeleteOperation" && len(call.Args) > 0 {
					prop = exprStr(call.Args[0])
				}
			}
		}
		if prop == "" {
			stale = true
		}
		dels = append(dels, fmt.Sprintf("(%q, %q)", fn, prop))
	}
	l.def("c13DeletePropagation", "List (String × String)", "["+strings.Join(dels, ", ")+"]", file+" NewDelete*Operation")

	// create variants -> flag set in newCreateOperation
	var creates []string
	if fd := findFunc(file, "", "newCreateOperation"); fd != nil && fd.Body != nil {
		for _, st := range fd.Body.List {
			sw, ok := st.(*ast.SwitchStmt)
			if !ok {
				continue
			}
			for _, c := range sw.Body.List {
				cc := c.(*ast.CaseClause)
				if len(cc.List) != 1 {
					stale = true
					continue
				}
				var flags []string
				for _, b := range cc.Body {
					if as, ok := b.(*ast.AssignStmt); ok && len(as.Lhs) == 1 && len(as.Rhs) == 1 {
						flags = append(flags, exprStr(as.Lhs[0])+"="+exprStr(as.Rhs[0]))
					} else {
						stale = true
					}
				}
				creates = append(creates, fmt.Sprintf("(%q, %s)", exprStr(cc.List[0]), leanStrList(flags)))
			}
		}
	}
	if len(creates) == 0 {
		stale = true
	}
	l.def("c13CreateFlags", "List (String × List String)", "["+strings.Join(creates, ", ")+"]", file+" newCreateOperation")
	l.def("c13FactsStale", "Bool", fmt.Sprint(stale), file)
}
