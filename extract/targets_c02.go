package main

// C02 skeleton targets (tie T3): the functions whose step structure Model/Snapshot.lean mirrors.
func init() {
	skeletonTargets = append(skeletonTargets,
		skelTarget{Name: "c02.monitor.Snapshot", File: "pkg/kube_events_manager/monitor.go", Recv: "monitor", Func: "Snapshot",
			Fields: []string{"ResourceInformers", "VaryingInformers"},
			Calls:  []string{"getCachedObjects", "RangeValue", "Sort", "ByNamespaceAndName"}},
		skelTarget{Name: "c02.HookController.UpdateSnapshots", File: "pkg/hook/controller/hook_controller.go", Recv: "HookController", Func: "UpdateSnapshots",
			Fields: []string{"KubernetesController", "Snapshots", "Objects", "IncludeSnapshots"},
			Calls:  []string{"getIncludeSnapshotsFrom", "SnapshotsFor"}},
		skelTarget{Name: "c02.monitor.CreateInformersForNamespace", File: "pkg/kube_events_manager/monitor.go", Recv: "monitor", Func: "createInformersForNamespace",
			Fields: []string{"Config"},
			Calls:  []string{"names", "newResourceInformer", "createSharedInformer"}},
		skelTarget{Name: "c02.ByNamespaceAndName.Less", File: "pkg/kube_events_manager/types/types.go", Recv: "ByNamespaceAndName", Func: "Less",
			Fields: []string{"Object", "ResourceId"},
			Calls:  []string{"GetNamespace", "GetName"}},
		skelTarget{Name: "c02.MonitorConfig.namespaces", File: "pkg/kube_events_manager/monitor_config.go", Recv: "MonitorConfig", Func: "namespaces",
			Fields: []string{"NamespaceSelector", "LabelSelector", "NameSelector", "MatchNames"},
			Calls:  []string{"uniqueStrings"}},
		// third wave: the glue the informer count and the event delivery depend on
		skelTarget{Name: "c02.MonitorConfig.names", File: "pkg/kube_events_manager/monitor_config.go", Recv: "MonitorConfig", Func: "names",
			Fields: []string{"NameSelector", "MatchNames"},
			Calls:  []string{"uniqueStrings"}},
		skelTarget{Name: "c02.uniqueStrings", File: "pkg/kube_events_manager/monitor_config.go", Recv: "", Func: "uniqueStrings",
			Fields: []string{},
			Calls:  []string{"append", "make", "Compact", "Clone", "Sort", "Strings"}},
		skelTarget{Name: "c02.FactoryStore.Start", File: "pkg/kube_events_manager/factory.go", Recv: "FactoryStore", Func: "Start",
			Fields: []string{"data", "handlerRegistrations", "shared", "ctx", "cancel", "users"},
			Calls:  []string{"get", "AddEventHandler", "Run", "HasSynced", "PollUntilContextCancel"}},
		skelTarget{Name: "c02.FactoryStore.Stop", File: "pkg/kube_events_manager/factory.go", Recv: "FactoryStore", Func: "Stop",
			Fields: []string{"data", "handlerRegistrations", "shared", "ctx", "cancel", "users"},
			Calls:  []string{"RemoveEventHandler", "delete", "cancel", "len"}},
		skelTarget{Name: "c02.FactoryStore.get", File: "pkg/kube_events_manager/factory.go", Recv: "FactoryStore", Func: "get",
			Fields: []string{"data"},
			Calls:  []string{"add", "NewFilteredDynamicSharedInformerFactory"}},
	)
}
