package main

// C02 skeleton targets (tie T3): the functions whose step structure Model/Snapshot.lean mirrors.
func init() {
	skeletonTargets = append(skeletonTargets,
		skelTarget{Name: "c02.monitor.Snapshot", File: "pkg/kube_events_manager/monitor.go", Recv: "monitor", Func: "Snapshot",
			Fields: []string{"ResourceInformers", "VaryingInformers"},
			Calls:  []string{"getCachedObjects", "RangeValue", "Sort", "ByNamespaceAndName"}},
		skelTarget{Name: "c02.HookController.UpdateSnapshots", File: "pkg/hook/controller/hook_controller.go", Recv: "HookController", Func: "UpdateSnapshots",
			Fields: []string{"KubernetesController", "Snapshots", "Objects", "IncludeSnapshots"},
			Calls:  []string{"getIncludeSnapshotsFrom", "SnapshotsFor"}},
		skelTarget{Name: "c02.monitor.CreateInformersForNamespace", File: "pkg/kube_events_manager/monitor.go", Recv: "monitor", Func: "createInformersForNamespace",
			Fields: []string{"Config"},
			Calls:  []string{"names", "newResourceInformer", "createSharedInformer"}},
		skelTarget{Name: "c02.ByNamespaceAndName.Less", File: "pkg/kube_events_manager/types/types.go", Recv: "ByNamespaceAndName", Func: "Less",
			Fields: []string{"Object", "ResourceId"},
			Calls:  []string{"GetNamespace", "GetName"}},
		skelTarget{Name: "c02.MonitorConfig.namespaces", File: "pkg/kube_events_manager/monitor_config.go", Recv: "MonitorConfig", Func: "namespaces",
			Fields: []string{"NamespaceSelector", "LabelSelector", "NameSelector", "MatchNames"},
			Calls:  []string{"uniqueStrings"}},
	)
}
