package main

// C19 facts (tie T1): the handler-candidate table of frameworks/shell/hook.sh, read line-wise from
// the `if/elif/case` text of hook::_get_possible_handler_names, plus the three literals of hook::run
// (config function, default binding name, fallback handler). Control flow is not translated; a
// shape the reader does not recognise sets c19Stale := true (the table theorems then fail).

import (
	"fmt"
	"os"
	"path/filepath"
	"regexp"
	"sort"
	"strings"
)

func init() { factFns = append(factFns, c19Facts) }

type c19Row struct {
	key  string
	pats [][]string
}

var (
	c19ReFunc    = regexp.MustCompile(`^function\s+([A-Za-z_:]+)\(\)\s*\{`)
	c19ReIfBind  = regexp.MustCompile(`^if \[\[ "\$BINDING_CONTEXT_CURRENT_BINDING" == "([^"]+)" \]\]; then$`)
	c19ReElifTy  = regexp.MustCompile(`^elif BINDING_CONTEXT_CURRENT_TYPE=\$\(context::jq -er '\.type'\); then$`)
	c19ReCaseTy  = regexp.MustCompile(`^case "\$\{BINDING_CONTEXT_CURRENT_TYPE\}" in$`)
	c19ReCaseEv  = regexp.MustCompile(`^case "\$\(context::jq -r '\.watchEvent'\)" in$`)
	c19ReLabel   = regexp.MustCompile(`^"([A-Za-z]+)"\)$`)
	c19ReGroup   = regexp.MustCompile(`^BINDING_CONTEXT_GROUP_NAME=\$\(context::jq -er '\.groupName'\)$`)
	c19ReBinding = regexp.MustCompile(`^export BINDING_CONTEXT_CURRENT_BINDING=\$\(context::jq -r '\.binding // "([^"]+)"'\)$`)
	c19ReFallb   = regexp.MustCompile(`^HANDLERS="\$\{HANDLERS\} ([A-Za-z_]+)"$`)
	c19ReConfig  = regexp.MustCompile(`^if \[\[ "\$\{1:-\}" == "(--[a-z]+)" \]\] ; then$`)
)

var (
	// `function name() {`, `function name {`, `name() {` — anywhere, also nested or indented
	c19ReAnyFunc = regexp.MustCompile(`^(function\s+([^\s(){}]+)|([^\s(){}=$"']+)\s*\(\s*\))\s*(\(\s*\))?\s*(\{|$)`)
	c19ReRebind  = regexp.MustCompile(`(^|[\s;&|(])(eval|alias|unset|declare\s+-[a-zA-Z]*f|typeset\s+-[a-zA-Z]*f|enable|builtin\s+unset)([\s;]|$)`)
)

// c19Body: the statements of a top-level function of hook.sh (trimmed, comments and blank lines dropped).
func c19Body(lines []string, fn string) []string {
	var body []string
	in := false
	for _, raw := range lines {
		if m := c19ReFunc.FindStringSubmatch(raw); m != nil {
			in = m[1] == fn
			continue
		}
		if raw == "}" {
			in = false
			continue
		}
		t := strings.TrimSpace(raw)
		if i := strings.Index(t, " # "); i >= 0 {
			t = strings.TrimSpace(t[:i])
		}
		if !in || t == "" || strings.HasPrefix(t, "#") {
			continue
		}
		body = append(body, t)
	}
	return body
}

var c19ReIdxExp = regexp.MustCompile(`\$\{?BINDING_CONTEXT_CURRENT_INDEX(:?[-=]([^}]*))?\}?`)

func c19Atoi(s string) int {
	if s == "" {
		return -1
	}
	n := 0
	for _, ch := range s {
		if ch < '0' || ch > '9' {
			return -1
		}
		n = n*10 + int(ch-'0')
	}
	return n
}

const c19VerExpr = `$(context::jq -er '[.fromVersion,.toVersion]| map(sub("/";".")) | join("::")')`

// c19Pattern splits the argument of an `echo` into segments: literals and the placeholders
// "$B" (current binding), "$G" (group name), "$V" (from::to versions with the first "/" of each → ".").
func c19Pattern(arg string) ([]string, bool) {
	var segs []string
	ok := true
	for arg != "" {
		switch {
		case strings.HasPrefix(arg, "${BINDING_CONTEXT_CURRENT_BINDING}"):
			segs = append(segs, "$B")
			arg = arg[len("${BINDING_CONTEXT_CURRENT_BINDING}"):]
		case strings.HasPrefix(arg, "${BINDING_CONTEXT_GROUP_NAME}"):
			segs = append(segs, "$G")
			arg = arg[len("${BINDING_CONTEXT_GROUP_NAME}"):]
		case strings.HasPrefix(arg, c19VerExpr):
			segs = append(segs, "$V")
			arg = arg[len(c19VerExpr):]
		default:
			i := strings.IndexByte(arg, '$')
			if i == 0 {
				return nil, false
			}
			if i < 0 {
				i = len(arg)
			}
			lit := arg[:i]
			if strings.ContainsAny(lit, " \t\"'`\\*?[") {
				ok = false
			}
			segs = append(segs, lit)
			arg = arg[i:]
		}
	}
	return segs, ok
}

func c19Facts(l *leanDefs) {
	src := "frameworks/shell/hook.sh"
	b, err := os.ReadFile(filepath.Join(repo, src))
	stale := err != nil
	var rows []c19Row
	cfgFlag, cfgFn, defBinding, fallback := "", "", "", ""
	runSteps := []string{}
	runExports := []string{}
	cur := ""                // current function
	var stack []string       // case nesting: "type" / "event"
	key := ""                // current table key
	var row *c19Row          // row being filled
	var groupLabels []string // labels whose branch assigns BINDING_CONTEXT_GROUP_NAME
	noGlob := false
	flush := func() {
		if row != nil {
			rows = append(rows, *row)
			row = nil
		}
	}
	lines := strings.Split(string(b), "\n")
	for li, raw := range lines {
		t := strings.TrimSpace(raw)
		if i := strings.Index(t, " # "); i >= 0 {
			t = strings.TrimSpace(t[:i])
		}
		if m := c19ReFunc.FindStringSubmatch(raw); m != nil {
			cur = m[1]
			continue
		}
		if raw == "}" {
			flush()
			cur = ""
			continue
		}
		switch cur {
		case "hook::run":
			switch {
			case c19ReConfig.MatchString(t):
				cfgFlag = c19ReConfig.FindStringSubmatch(t)[1]
				// the two lines of the branch: `<fn>` then `exit 0`
				if li+3 < len(lines) && strings.TrimSpace(lines[li+2]) == "exit 0" && strings.TrimSpace(lines[li+3]) == "fi" {
					cfgFn = strings.TrimSpace(lines[li+1])
				} else {
					stale = true
				}
				runSteps = append(runSteps, "config-branch")
			case c19ReBinding.MatchString(t):
				defBinding = c19ReBinding.FindStringSubmatch(t)[1]
				runSteps = append(runSteps, "select-binding")
			case c19ReFallb.MatchString(t):
				fallback = c19ReFallb.FindStringSubmatch(t)[1]
				runSteps = append(runSteps, "append-fallback")
			case t == "HANDLERS=$(hook::_get_possible_handler_names)":
				runSteps = append(runSteps, "candidates")
			case t == `hook::_run_first_available_handler "${HANDLERS}"`:
				runSteps = append(runSteps, "run-first")
			case t == `export BINDING_CONTEXT_CURRENT_INDEX="${i}"`:
				runSteps = append(runSteps, "select-index")
			case t == "for i in `seq 0 $((CONTEXT_LENGTH - 1))`; do":
				runSteps = append(runSteps, "for-each-index")
			case t == "done":
				runSteps = append(runSteps, "done")
			case t == "CONTEXT_LENGTH=$(context::global::jq -r 'length')":
				runSteps = append(runSteps, "length")
			case t == "" || strings.HasPrefix(t, "#"):
			case cfgFlag != "" && len(runSteps) == 1 && (t == cfgFn || t == "exit 0" || t == "fi"):
				// the body of the --config branch, checked above
			default:
				stale = true // a statement of hook::run the reader does not know
				runSteps = append(runSteps, "unknown")
			}
			if strings.HasPrefix(t, "export ") {
				// what hook::run puts into the environment of every command it starts afterwards
				for _, w := range strings.Fields(t)[1:] {
					if i := strings.IndexByte(w, '='); i > 0 {
						runExports = append(runExports, w[:i])
					} else {
						runExports = append(runExports, w)
					}
					break // one variable per export statement; anything after `=` is its value
				}
			}
		case "hook::_get_possible_handler_names":
			switch {
			case t == "" || strings.HasPrefix(t, "#"):
			case t == "set -f":
				noGlob = true // names are not subject to pathname expansion (the function runs in a command substitution)
			case c19ReIfBind.MatchString(t):
				flush()
				key = "binding=" + c19ReIfBind.FindStringSubmatch(t)[1]
				row = &c19Row{key: key}
			case c19ReElifTy.MatchString(t):
				flush()
				key = ""
			case c19ReCaseTy.MatchString(t):
				stack = append(stack, "type")
			case c19ReCaseEv.MatchString(t):
				if key != "Event" {
					stale = true
				}
				flush()
				stack = append(stack, "event")
			case c19ReLabel.MatchString(t):
				flush()
				lbl := c19ReLabel.FindStringSubmatch(t)[1]
				if len(stack) == 2 {
					key = "Event/" + lbl
				} else if len(stack) == 1 {
					key = lbl
				} else {
					stale = true
				}
				row = &c19Row{key: key}
			case t == ";;":
				flush()
				if len(stack) == 2 {
					key = "Event"
				} else {
					key = ""
				}
			case t == "esac":
				flush()
				if len(stack) > 0 {
					stack = stack[:len(stack)-1]
				} else {
					stale = true
				}
			case t == "fi":
				flush()
			case c19ReGroup.MatchString(t):
				if row == nil || len(stack) != 1 {
					stale = true
				} else {
					groupLabels = append(groupLabels, key)
				}
			case strings.HasPrefix(t, "echo "):
				segs, ok := c19Pattern(strings.TrimSpace(t[5:]))
				if !ok || row == nil {
					stale = true
				} else {
					row.pats = append(row.pats, segs)
				}
			default:
				stale = true // a statement the reader does not know
			}
		}
	}
	if cfgFlag == "" || cfgFn == "" || defBinding == "" || fallback == "" || len(rows) == 0 || len(stack) != 0 {
		stale = true
	}
	// three tables: the `if binding == X` branch, the outer `case` on .type (the label that nests the
	// watchEvent case keeps an empty row), the inner `case` on .watchEvent
	startupBinding, eventLabel := "", ""
	var startup [][]string
	var typeRows, eventRows []c19Row
	for _, r := range rows {
		switch {
		case strings.HasPrefix(r.key, "binding="):
			startupBinding = strings.TrimPrefix(r.key, "binding=")
			startup = r.pats
		case strings.Contains(r.key, "/"):
			i := strings.IndexByte(r.key, '/')
			if eventLabel != "" && eventLabel != r.key[:i] {
				stale = true
			}
			eventLabel = r.key[:i]
			eventRows = append(eventRows, c19Row{r.key[i+1:], r.pats})
		default:
			typeRows = append(typeRows, r)
		}
	}
	if startupBinding == "" || eventLabel == "" {
		stale = true
	}
	table := func(rs []c19Row) string {
		var items []string
		for _, r := range rs {
			var ps []string
			for _, p := range r.pats {
				ps = append(ps, leanStrList(p))
			}
			items = append(items, fmt.Sprintf("(%q, [%s])", r.key, strings.Join(ps, ", ")))
		}
		return "[" + strings.Join(items, ",\n   ") + "]"
	}
	var sp []string
	for _, p := range startup {
		sp = append(sp, leanStrList(p))
	}
	fn := src + " hook::_get_possible_handler_names"
	l.def("c19StartupBinding", "String", fmt.Sprintf("%q", startupBinding), fn)
	l.def("c19StartupHandlers", "List (List String)", "["+strings.Join(sp, ", ")+"]", fn)
	l.def("c19TypeTable", "List (String × List (List String))", table(typeRows), fn+" (outer case on .type)")
	l.def("c19EventLabel", "String", fmt.Sprintf("%q", eventLabel), fn)
	l.def("c19EventTable", "List (String × List (List String))", table(eventRows), fn+" (inner case on .watchEvent)")
	l.def("c19GroupNameLabels", "List String", leanStrList(groupLabels), fn+" (labels that read .groupName with jq -e)")
	l.def("c19ConfigFlag", "String", fmt.Sprintf("%q", cfgFlag), src+" hook::run")
	l.def("c19ConfigFn", "String", fmt.Sprintf("%q", cfgFn), src+" hook::run")
	l.def("c19DefaultBinding", "String", fmt.Sprintf("%q", defBinding), src+" hook::run")
	l.def("c19Fallback", "String", fmt.Sprintf("%q", fallback), src+" hook::run")
	l.def("c19RunSteps", "List String", leanStrList(runSteps), src+" hook::run (order of the loop body statements)")
	l.def("c19RunExports", "List String", leanStrList(runExports), src+" hook::run (variables exported inside the loop)")
	// frameworks/shell/context.sh: how the current context is read (bodies of the two accessors)
	csrc := "frameworks/shell/context.sh"
	cb, cerr := os.ReadFile(filepath.Join(repo, csrc))
	if cerr != nil {
		stale = true
	}
	bodies := map[string][]string{}
	ccur := ""
	for _, raw := range strings.Split(string(cb), "\n") {
		if m := c19ReFunc.FindStringSubmatch(raw); m != nil {
			ccur = m[1]
			continue
		}
		if raw == "}" {
			ccur = ""
			continue
		}
		t := strings.TrimSpace(raw)
		if ccur == "" || t == "" || strings.HasPrefix(t, "#") {
			continue
		}
		bodies[ccur] = append(bodies[ccur], t)
	}
	l.def("c19GlobalJqBody", "List String", leanStrList(bodies["context::global::jq"]), csrc+" context::global::jq")
	l.def("c19CtxJqBody", "List String", leanStrList(bodies["context::jq"]), csrc+" context::jq")
	// the expansion of the index variable inside context::jq: a plain ${VAR} (unset → the call dies
	// under `set -u`) or a ${VAR:-d} / ${VAR-d} default (unset → context d)
	idxDefault := "none"
	idxExpansions := 0
	for _, t := range bodies["context::jq"] {
		for _, m := range c19ReIdxExp.FindAllStringSubmatch(t, -1) {
			idxExpansions++
			if m[1] != "" {
				if n := c19Atoi(m[2]); n >= 0 {
					idxDefault = fmt.Sprintf("some %d", n)
				} else {
					stale = true // a default that is not a number: the reader does not know what it selects
				}
			}
		}
	}
	if idxExpansions != 1 {
		stale = true
	}
	l.def("c19CtxIndexDefault", "Option Nat", idxDefault, csrc+" context::jq (default of the index expansion, none = plain ${BINDING_CONTEXT_CURRENT_INDEX})")
	// every function the bundled library defines when it is loaded (shell_lib.sh and the framework files
	// it sources): loading it — before, after or between the hook's own definitions, once or twice — must
	// not bind a name of the hook's namespace (__config__, __main__, __on_*). A statement that can bind or
	// remove a function in another way (eval, alias, unset, declare -f) is not understood: stale.
	var libFns []string
	libFiles := []string{"shell_lib.sh"}
	if ms, err := filepath.Glob(filepath.Join(repo, "frameworks/shell/*.sh")); err == nil {
		sort.Strings(ms)
		for _, m := range ms {
			libFiles = append(libFiles, "frameworks/shell/"+filepath.Base(m))
		}
	}
	for _, f := range libFiles {
		fb, err := os.ReadFile(filepath.Join(repo, f))
		if err != nil {
			stale = true
			continue
		}
		for _, raw := range strings.Split(string(fb), "\n") {
			t := strings.TrimSpace(raw)
			if strings.HasPrefix(t, "#") {
				continue
			}
			if m := c19ReAnyFunc.FindStringSubmatch(t); m != nil {
				if m[2] != "" {
					libFns = append(libFns, m[2])
				} else {
					libFns = append(libFns, m[3])
				}
			}
			if c19ReRebind.MatchString(t) {
				stale = true
			}
		}
	}
	l.def("c19LibFunctions", "List String", leanStrList(libFns), "shell_lib.sh + frameworks/shell/*.sh (every function defined by loading the library)")
	// hook::_run_first_available_handler runs in the hook's main shell (only the handler itself is put into a
	// sub-shell): its statements, verbatim, and the loop header of hook::run
	l.def("c19RunnerBody", "List String", leanStrList(c19Body(lines, "hook::_run_first_available_handler")), src+" hook::_run_first_available_handler")
	l.def("c19NoGlob", "Bool", fmt.Sprintf("%v", noGlob), src+" hook::_get_possible_handler_names (set -f)")
	l.def("c19Stale", "Bool", fmt.Sprintf("%v", stale), src)
}
