package main

import (
	"go/ast"
	"go/token"
	"strconv"
)

// C08 facts: the default event types of MonitorConfig.WithEventTypes(nil) (monitor_config.go),
// resolved to the string values of the constants in kube_events_manager/types/types.go.
// Skeletons: applyFilter (filter.go) — the order filter → marshal → store → checksum;
// getCachedObjects (resource_informer.go) — no access through the copied entries.
func init() {
	factFns = append(factFns, factsC08)
	skeletonTargets = append(skeletonTargets,
		skelTarget{Name: "C08.applyFilter", File: "pkg/kube_events_manager/filter.go", Recv: "", Func: "applyFilter",
			Fields: []string{"FilterResult", "Checksum", "JqFilter", "ResourceId"},
			Calls:  []string{"ApplyFilter", "ApplyFilterValue", "Marshal", "CalculateChecksum", "filterFn", "resourceId", "UnstructuredContent"}},
		// getCachedObjects (what Monitor.Snapshot collects): copies the entry structs and never goes
		// through their fields — in particular not through `Object`, which still points at the object
		// in the shared informer's store (model: `snapshotHeap id`).
		skelTarget{Name: "C08.getCachedObjects", File: "pkg/kube_events_manager/resource_informer.go", Recv: "resourceInformer", Func: "getCachedObjects",
			Fields: []string{"cachedObjects", "Object", "FilterResult", "Metadata"}},
		// OnAdd: the `isInInitialList` argument of client-go plays no part — an Added of the list the
		// informer made on start is handled like any other (model: `onAdd`, which ignores the flag).
		skelTarget{Name: "C08.OnAdd", File: "pkg/kube_events_manager/resource_informer.go", Recv: "resourceInformer", Func: "OnAdd",
			Calls: []string{"handleWatchEvent"}},
		// loadExistedObjects: the listed objects are filed under the ResourceId applyFilter gave them
		// (= resourceId(obj), see C08.applyFilter) — the key handleWatchEvent looks the object up by;
		// no key is built here (model: `loadKey`).
		skelTarget{Name: "C08.loadExistedObjects", File: "pkg/kube_events_manager/resource_informer.go", Recv: "resourceInformer", Func: "loadExistedObjects",
			Fields: []string{"cachedObjects", "ResourceId"},
			Calls:  []string{"applyFilter", "RemoveFullObject", "resourceId", "Sprintf", "Sprint", "GetKind", "GetName", "GetNamespace", "List"}},
		// jq.run: the text of the filter is parsed by gojq.Parse on every call and that very query is
		// run — no table of parsed programs, no other helper between the text and the program (model:
		// `parseEach`; `memoParse` is the shape that is NOT in the code).
		skelTarget{Name: "C08.jq.run", File: "pkg/filter/jq/apply.go", Recv: "", Func: "run",
			Calls: []string{"Parse", "parse", "Compile", "Load", "Store", "LoadOrStore", "Get", "Run", "RunWithContext", "deepCopy", "Next"}},
	)
}

// stringConsts returns name -> value for the string constants declared in a file.
func stringConsts(rel string) map[string]string {
	res := map[string]string{}
	f := parse(rel)
	if f == nil {
		return res
	}
	for _, d := range f.Decls {
		gd, ok := d.(*ast.GenDecl)
		if !ok || gd.Tok != token.CONST {
			continue
		}
		for _, s := range gd.Specs {
			vs := s.(*ast.ValueSpec)
			for i, n := range vs.Names {
				if i < len(vs.Values) {
					if bl, ok := vs.Values[i].(*ast.BasicLit); ok && bl.Kind == token.STRING {
						if v, err := strconv.Unquote(bl.Value); err == nil {
							res[n.Name] = v
						}
					}
				}
			}
		}
	}
	return res
}

func factsC08(l *leanDefs) {
	consts := stringConsts("pkg/kube_events_manager/types/types.go")
	var vals []string
	ok := false
	if fd := findFunc("pkg/kube_events_manager/monitor_config.go", "MonitorConfig", "WithEventTypes"); fd != nil && fd.Body != nil {
		// shape: if types == nil { c.EventTypes = []T{ A, B, C } } else { … }
		for _, st := range fd.Body.List {
			ifs, isIf := st.(*ast.IfStmt)
			if !isIf {
				continue
			}
			be, isBin := ifs.Cond.(*ast.BinaryExpr)
			if !isBin || be.Op != token.EQL || exprStr(be.Y) != "nil" {
				continue
			}
			for _, bs := range ifs.Body.List {
				as, isAs := bs.(*ast.AssignStmt)
				if !isAs || len(as.Lhs) != 1 || len(as.Rhs) != 1 || exprStr(as.Lhs[0]) != "c.EventTypes" {
					continue
				}
				cl, isCl := as.Rhs[0].(*ast.CompositeLit)
				if !isCl {
					continue
				}
				ok = true
				for _, e := range cl.Elts {
					name := ""
					switch x := e.(type) {
					case *ast.SelectorExpr:
						name = x.Sel.Name
					case *ast.Ident:
						name = x.Name
					}
					v, has := consts[name]
					if !has {
						ok = false
					}
					vals = append(vals, v)
				}
			}
		}
	}
	if !ok {
		vals = nil
	}
	l.def("c08DefaultEventTypes", "List String", leanStrList(vals), "pkg/kube_events_manager/monitor_config.go WithEventTypes(nil)")
	stale := "false"
	if !ok {
		stale = "true"
	}
	l.def("c08FactsStale", "Bool", stale, "extract/targets_c08.go: true when the expected syntactic shape was not found")
}
