package main

// Skeleton targets of C01 at monitor level.
func init() {
	mo := "pkg/kube_events_manager/monitor.go"
	skeletonTargets = append(skeletonTargets,
		skelTarget{Name: "monitor.EnableKubeEventCb", File: mo, Recv: "monitor", Func: "EnableKubeEventCb",
			Fields: []string{"eventsEnabled", "ResourceInformers", "VaryingInformers"},
			Calls:  []string{"enableKubeEventCb", "RangeValue", "Store", "Load"}},
		skelTarget{Name: "monitor.CreateInformers", File: mo, Recv: "monitor", Func: "CreateInformers",
			Fields: []string{"eventsEnabled", "VaryingInformers"},
			Calls:  []string{"enableKubeEventCb", "CreateInformersForNamespace", "createInformersForNamespace", "Store", "Load", "Delete", "start"}},
	)
}
