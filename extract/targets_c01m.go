package main

// Skeleton targets of C01 at monitor level.
func init() {
	mo := "pkg/kube_events_manager/monitor.go"
	skeletonTargets = append(skeletonTargets,
		skelTarget{Name: "monitor.EnableKubeEventCb", File: mo, Recv: "monitor", Func: "EnableKubeEventCb",
			Fields: []string{"eventsEnabled", "ResourceInformers", "VaryingInformers"},
			Calls:  []string{"enableKubeEventCb", "RangeValue", "Store", "Load"}},
		skelTarget{Name: "monitor.CreateInformers", File: mo, Recv: "monitor", Func: "CreateInformers",
			Fields: []string{"eventsEnabled", "VaryingInformers"},
			Calls:  []string{"enableKubeEventCb", "CreateInformersForNamespace", "createInformersForNamespace", "Store", "Load", "Delete", "start"}},
		// Start(): the model's `initial` state (eventsEnabled false, every informer locked, a cancel
		// entry per namespace that existed) is what CreateInformers + Start leave behind
		skelTarget{Name: "monitor.Start", File: mo, Recv: "monitor", Func: "Start",
			Fields: []string{"eventsEnabled", "ResourceInformers", "VaryingInformers", "cancelForNs"},
			Calls:  []string{"enableKubeEventCb", "Store", "Load", "CompareAndSwap", "Range", "start"}},
	)
}

// Translated function (tie T4) of C01: HookMetadata.IsSynchronization — the test taskHandleHookRun
// applies, also on a retry of a combined run, before it unlocks the monitors of a task.
func init() {
	transTargets = append(transTargets, transTarget{
		File: "pkg/hook/task_metadata/task_metadata.go", Recv: "HookMetadata", Func: "IsSynchronization",
		Lean: "hookMetaIsSynchronization", Pure: true, Ret: "Bool",
		ExtraParams: []string{"(btype : Nat)", "(bindingContext : List ShellOp.Combine.Ctx)"},
		Subst: map[string]string{
			// keys are printed by exprStr: call arguments and index expressions are not part of the key
			"m.BindingContext":                       "bindingContext",
			"m.BindingContext[].IsSynchronization()": "(btype == 2 && (bindingContext.getD 0 default).typ == 0)",
		}})
}
