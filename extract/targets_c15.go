package main

// Skeleton targets for C15 (tie T3 used as a structural expectation: the order of calls and of the
// reads/writes of the modelled fields in the functions the model mirrors).
func init() {
	skeletonTargets = append(skeletonTargets,
		skelTarget{Name: "ChainStorage.FindConversionChain", File: "pkg/webhook/conversion/chain.go", Recv: "ChainStorage", Func: "FindConversionChain",
			Fields: []string{"PathsCache", "Chains"},
			Calls:  []string{"HasTargetVersion", "SearchPathForRule", "RulesWithSimilarFromVersion", "NextRules", "ShortToVersion", "ShortFromVersion", "append", "make", "len"}},
		skelTarget{Name: "Chain.NextRules", File: "pkg/webhook/conversion/chain.go", Recv: "Chain", Func: "NextRules",
			Fields: []string{"BaseFromToIndex"},
			Calls:  []string{"VersionsMatched", "Index", "TrimGroup", "append"}},
		skelTarget{Name: "ShellOperator.conversionEventHandler", File: "pkg/shell-operator/operator.go", Recv: "ShellOperator", Func: "conversionEventHandler",
			Fields: []string{"FailedMessage", "Objects", "ConvertedObjects", "Status", "DesiredAPIVersion"},
			Calls:  []string{"ExtractAPIVersions", "FindConversionChain", "HandleConversionEvent", "taskHandler", "GetProp", "len"}},
		skelTarget{Name: "conversion.WebhookHandler.handleReviewRequest", File: "pkg/webhook/conversion/handler.go", Recv: "WebhookHandler", Func: "handleReviewRequest",
			Fields: []string{"FailedMessage", "Objects", "ConvertedObjects"},
			Calls:  []string{"EventHandlerFn", "len", "New", "Errorf"}},
		// sixth wave: the glue modelled in Model/ConversionGlue.lean (the chain is fetched per binding,
		// inside the range over the bindings) and the order of the cases of MapV1 (conversion before group)
		skelTarget{Name: "Manager.UpdateConversionChains", File: "pkg/hook/hook_manager.go", Recv: "Manager", Func: "UpdateConversionChains",
			Fields: []string{"KubernetesConversion", "CrdName", "Rules", "conversionChains"},
			Calls:  []string{"GetHooksInOrder", "GetHook", "Get", "Put"}},
		skelTarget{Name: "BindingContext.MapV1.cases", File: "pkg/hook/binding_context/binding_context.go", Recv: "BindingContext", Func: "MapV1",
			Fields: []string{"BindingType", "Group", "FromVersion", "ToVersion", "ConversionReview", "AdmissionReview"},
			Calls:  []string{}},
	)
}
