package main

// Skeleton targets for C15 (tie T3 used as a structural expectation: the order of calls and of the
// reads/writes of the modelled fields in the functions the model mirrors).
func init() {
	skeletonTargets = append(skeletonTargets,
		skelTarget{Name: "ChainStorage.FindConversionChain", File: "pkg/webhook/conversion/chain.go", Recv: "ChainStorage", Func: "FindConversionChain",
			Fields: []string{"PathsCache", "Chains"},
			Calls:  []string{"HasTargetVersion", "SearchPathForRule", "RulesWithSimilarFromVersion", "NextRules", "ShortToVersion", "ShortFromVersion", "append", "make", "len"}},
		skelTarget{Name: "Chain.NextRules", File: "pkg/webhook/conversion/chain.go", Recv: "Chain", Func: "NextRules",
			Fields: []string{"BaseFromToIndex"},
			Calls:  []string{"VersionsMatched", "Index", "TrimGroup", "append"}},
		skelTarget{Name: "ShellOperator.conversionEventHandler", File: "pkg/shell-operator/operator.go", Recv: "ShellOperator", Func: "conversionEventHandler",
			Fields: []string{"FailedMessage", "Objects", "ConvertedObjects", "Status", "DesiredAPIVersion"},
			Calls:  []string{"ExtractAPIVersions", "FindConversionChain", "HandleConversionEvent", "taskHandler", "GetProp", "len"}},
		skelTarget{Name: "conversion.WebhookHandler.handleReviewRequest", File: "pkg/webhook/conversion/handler.go", Recv: "WebhookHandler", Func: "handleReviewRequest",
			Fields: []string{"FailedMessage", "Objects", "ConvertedObjects"},
			Calls:  []string{"EventHandlerFn", "len", "New", "Errorf"}},
	)
}
