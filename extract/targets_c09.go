package main

import (
	"bytes"
	"go/ast"
	"go/printer"
	"go/token"
	"strconv"
	"strings"
)

// C09 facts: for BindingContext.MapV1 / MapV0 (binding_context.go) and ObjectAndFilterResult.Map
// (types.go) the flattened list of guarded effects on the result map, in source order:
//
//	(guard path, effect)   effect = `key` for res["key"] = …, `*expr` for `for k, v := range expr { res[k] = v }`,
//	                       `return` for a return statement
//
// The guard path is the conjunction of the enclosing if/switch conditions, printed as Go source.
// Control flow is not translated; the Lean side states the expected table literally, so any added,
// removed, reordered or re-guarded assignment breaks the table theorem.
func init() {
	factFns = append(factFns, factsC09)
	skeletonTargets = append(skeletonTargets,
		skelTarget{Name: "C09.ConvertKubeEventToBindingContext", File: "pkg/hook/controller/kubernetes_bindings_controller.go", Recv: "", Func: "ConvertKubeEventToBindingContext",
			Fields: []string{"JqFilter", "BindingType", "IncludeSnapshots", "Group", "Objects", "WatchEvents", "Type", "BindingName", "IncludeSnapshotsFrom"},
			Calls:  []string{}},
		// the conversion links (model: enableConversion / handleConversion): a link is built from the binding and
		// the rule inside the rules loop and stored under the rule; HandleEvent reads the link found for the rule
		skelTarget{Name: "C09.EnableConversionBindings", File: "pkg/hook/controller/conversion_bindings_controller.go", Recv: "ConversionBindingsController", Func: "EnableConversionBindings",
			Fields: []string{"Bindings", "Links", "Rules", "CrdName", "BindingName", "IncludeSnapshotsFrom", "IncludeSnapshots", "Group", "FromVersion", "ToVersion"},
			Calls:  []string{}},
		skelTarget{Name: "C09.ConversionHandleEvent", File: "pkg/hook/controller/conversion_bindings_controller.go", Recv: "ConversionBindingsController", Func: "HandleEvent",
			Fields: []string{"Links", "BindingName", "IncludeSnapshots", "Group", "FromVersion", "ToVersion", "BindingType"},
			Calls:  []string{}},
		// the jq helper applyFilter calls into (model: applyFilterValue / copyJ): the program runs on the plain
		// Marshal/Unmarshal copy of the object - one straight line, no branch, nothing removed or rewritten on the way
		skelTarget{Name: "C09.jqRun", File: "pkg/filter/jq/apply.go", Recv: "", Func: "run",
			Fields: []string{}, Calls: []string{"Parse", "deepCopy", "Run", "Next"}},
		skelTarget{Name: "C09.jqDeepCopy", File: "pkg/filter/jq/apply.go", Recv: "", Func: "deepCopy",
			Fields: []string{}, Calls: []string{"Marshal", "Unmarshal", "Clone", "Copy", "delete", "DeepCopyJSON"}},
	)
}

func srcOf(e ast.Node) string {
	var b bytes.Buffer
	_ = printer.Fprint(&b, fset, e)
	return strings.Join(strings.Fields(b.String()), " ")
}

type guardedRow struct{ guard, effect string }

type mapWalker struct {
	mapName string
	rows    []guardedRow
}

func (w *mapWalker) emit(guards []string, eff string) {
	gs := make([]string, len(guards))
	for i, g := range guards {
		gs[i] = "(" + g + ")"
	}
	w.rows = append(w.rows, guardedRow{strings.Join(gs, " && "), eff})
}

func with(guards []string, g string) []string {
	out := append([]string{}, guards...)
	return append(out, g)
}

func (w *mapWalker) stmts(list []ast.Stmt, guards []string) {
	for _, s := range list {
		w.stmt(s, guards)
	}
}

func (w *mapWalker) stmt(s ast.Stmt, guards []string) {
	switch x := s.(type) {
	case *ast.AssignStmt:
		for _, l := range x.Lhs {
			if ix, ok := l.(*ast.IndexExpr); ok && exprStr(ix.X) == w.mapName {
				key := srcOf(ix.Index)
				if bl, ok := ix.Index.(*ast.BasicLit); ok && bl.Kind == token.STRING {
					key, _ = strconv.Unquote(bl.Value)
				}
				w.emit(guards, key)
			}
		}
	case *ast.ReturnStmt:
		w.emit(guards, "return")
	case *ast.BlockStmt:
		w.stmts(x.List, guards)
	case *ast.IfStmt:
		if x.Init != nil {
			w.stmt(x.Init, guards)
		}
		c := srcOf(x.Cond)
		w.stmts(x.Body.List, with(guards, c))
		if x.Else != nil {
			w.stmt(x.Else, with(guards, "!("+c+")"))
		}
	case *ast.SwitchStmt:
		tag := ""
		if x.Tag != nil {
			tag = srcOf(x.Tag)
		}
		for _, c := range x.Body.List {
			cc := c.(*ast.CaseClause)
			var ls []string
			for _, e := range cc.List {
				ls = append(ls, srcOf(e))
			}
			g := tag + " == " + strings.Join(ls, "|")
			if cc.List == nil {
				g = tag + " == default"
			}
			w.stmts(cc.Body, with(guards, g))
		}
	case *ast.RangeStmt:
		// for k, v := range X { res[k] = v }
		inner := &mapWalker{mapName: w.mapName}
		inner.stmts(x.Body.List, nil)
		if len(inner.rows) > 0 {
			w.emit(guards, "*"+srcOf(x.X))
		}
	}
}

func leanRows(rows []guardedRow) string {
	var ps []string
	for _, r := range rows {
		ps = append(ps, "("+strconv.Quote(r.guard)+", "+strconv.Quote(r.effect)+")")
	}
	return "[" + strings.Join(ps, ",\n  ") + "]"
}

func factsC09(l *leanDefs) {
	emit := func(name, file, recv, fn, mapName string) {
		var rows []guardedRow
		if fd := findFunc(file, recv, fn); fd != nil && fd.Body != nil {
			w := &mapWalker{mapName: mapName}
			w.stmts(fd.Body.List, nil)
			rows = w.rows
		}
		l.def(name, "List (String × String)", leanRows(rows), file+" "+recv+"."+fn)
	}
	emit("c09MapV1", "pkg/hook/binding_context/binding_context.go", "BindingContext", "MapV1", "res")
	emit("c09MapV0", "pkg/hook/binding_context/binding_context.go", "BindingContext", "MapV0", "res")
	emit("c09ObjMap", "pkg/kube_events_manager/types/types.go", "ObjectAndFilterResult", "Map", "m")
	// binding type constants (hook/types/bindings.go)
	consts := stringConsts("pkg/hook/types/bindings.go")
	var ps []string
	for _, k := range []string{"Schedule", "OnStartup", "OnKubernetesEvent", "KubernetesConversion", "KubernetesValidating", "KubernetesMutating"} {
		ps = append(ps, "("+strconv.Quote(k)+", "+strconv.Quote(consts[k])+")")
	}
	l.def("c09BindingTypes", "List (String × String)", "["+strings.Join(ps, ", ")+"]", "pkg/hook/types/bindings.go")
}
