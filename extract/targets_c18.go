package main

// C18 facts (tie T1): the defaults and the two guards of hook.CreateRateLimiter; skeleton (tie T3):
// the RateLimitWait call dominates handleRunHook in ShellOperator.taskHandleHookRun.

import (
	"fmt"
	"go/ast"
	"go/token"
	"strconv"
)

func init() {
	factFns = append(factFns, c18Facts)
	skeletonTargets = append(skeletonTargets,
		skelTarget{Name: "C18.taskHandleHookRun", File: "pkg/shell-operator/operator.go", Recv: "ShellOperator", Func: "taskHandleHookRun",
			Calls: []string{"RateLimitWait", "handleRunHook", "combineBindingContextForHook"}},
		skelTarget{Name: "Hook.RateLimitWait", File: "pkg/hook/hook.go", Recv: "Hook", Func: "RateLimitWait",
			Calls: []string{"Wait", "WaitN", "Allow", "Reserve"}},
	)
}

func c18Facts(l *leanDefs) {
	src := "pkg/hook/hook.go CreateRateLimiter"
	stale := true
	defLimit, defBurst := "", ""
	guardI, guardB := "", ""
	setI, setB := "", ""
	ret := ""
	if fd := findFunc("pkg/hook/hook.go", "", "CreateRateLimiter"); fd != nil && fd.Body != nil {
		for _, s := range fd.Body.List {
			switch x := s.(type) {
			case *ast.AssignStmt:
				if len(x.Lhs) == 1 && len(x.Rhs) == 1 && x.Tok == token.DEFINE {
					switch exprStr(x.Lhs[0]) {
					case "limit":
						defLimit = exprStr(x.Rhs[0])
					case "burst":
						defBurst = exprStr(x.Rhs[0])
					}
				}
			case *ast.IfStmt:
				if exprStr(x.Cond.(*ast.BinaryExpr).X) != "cfg.Settings" {
					continue
				}
				for _, in := range x.Body.List {
					is, ok := in.(*ast.IfStmt)
					if !ok || len(is.Body.List) != 1 {
						continue
					}
					be, ok := is.Cond.(*ast.BinaryExpr)
					as, ok2 := is.Body.List[0].(*ast.AssignStmt)
					if !ok || !ok2 || len(as.Rhs) != 1 {
						continue
					}
					cond := exprStr(be.X) + " " + be.Op.String() + " " + exprStr(be.Y)
					switch exprStr(as.Lhs[0]) {
					case "limit":
						guardI = cond
						if ce, ok := as.Rhs[0].(*ast.CallExpr); ok && len(ce.Args) == 1 {
							setI = exprStr(ce.Fun) + "(" + exprStr(ce.Args[0]) + ")"
						}
					case "burst":
						guardB = cond
						setB = exprStr(as.Rhs[0])
					}
				}
			case *ast.ReturnStmt:
				if len(x.Results) == 1 {
					if ce, ok := x.Results[0].(*ast.CallExpr); ok && len(ce.Args) == 2 {
						ret = exprStr(ce.Fun) + "(" + exprStr(ce.Args[0]) + ", " + exprStr(ce.Args[1]) + ")"
					}
				}
			}
		}
		stale = false
	}
	l.def("c18DefaultLimit", "String", fmt.Sprintf("%q", defLimit), src)
	l.def("c18DefaultBurst", "String", fmt.Sprintf("%q", defBurst), src)
	bv := "0"
	if _, err := strconv.Atoi(defBurst); err == nil {
		bv = defBurst
	} else {
		stale = true
	}
	l.def("c18DefaultBurstVal", "Int", bv, src)
	l.def("c18IntervalGuard", "String", fmt.Sprintf("%q", guardI), src)
	l.def("c18IntervalSet", "String", fmt.Sprintf("%q", setI), src)
	l.def("c18BurstGuard", "String", fmt.Sprintf("%q", guardB), src)
	l.def("c18BurstSet", "String", fmt.Sprintf("%q", setB), src)
	l.def("c18Return", "String", fmt.Sprintf("%q", ret), src)
	l.def("c18Stale", "Bool", map[bool]string{true: "true", false: "false"}[stale], src)
}
