package main

// C18 facts (tie T1): the defaults and the two guards of hook.CreateRateLimiter; skeleton (tie T3):
// the RateLimitWait call dominates handleRunHook in ShellOperator.taskHandleHookRun.

import (
	"bytes"
	"fmt"
	"go/ast"
	"go/printer"
	"go/token"
	"os"
	"path/filepath"
	"sort"
	"strconv"
	"strings"
)

func init() {
	factFns = append(factFns, c18Facts, c18LimiterFacts, c18WaitFacts)
	skeletonTargets = append(skeletonTargets,
		skelTarget{Name: "C18.taskHandleHookRun", File: "pkg/shell-operator/operator.go", Recv: "ShellOperator", Func: "taskHandleHookRun",
			Calls: []string{"RateLimitWait", "handleRunHook", "combineBindingContextForHook"}},
		skelTarget{Name: "Hook.RateLimitWait", File: "pkg/hook/hook.go", Recv: "Hook", Func: "RateLimitWait",
			Calls: []string{"Wait", "WaitN", "Allow", "Reserve"}},
		// fourth wave: one token pays for ONE process start — the chain below the wait: handleRunHook calls
		// Hook.Run once, Hook.Run builds one executor and calls RunAndLogLines once, RunAndLogLines starts
		// the command once (no loop, no second call on any branch)
		skelTarget{Name: "C18.handleRunHook", File: "pkg/shell-operator/operator.go", Recv: "ShellOperator", Func: "handleRunHook",
			Calls: []string{"Run", "RunHook", "RateLimitWait", "handleRunHook"}},
		skelTarget{Name: "C18.Hook.Run", File: "pkg/hook/hook.go", Recv: "Hook", Func: "Run",
			Calls: []string{"NewExecutor", "RunAndLogLines", "Run", "Start", "Output", "CombinedOutput", "RateLimitWait", "newHookCmd"}},
		skelTarget{Name: "C18.Executor.RunAndLogLines", File: "pkg/executor/executor.go", Recv: "Executor", Func: "RunAndLogLines",
			Calls: []string{"Run", "Start", "Output", "CombinedOutput", "RunAndLogLines"}},
	)
}

func c18Facts(l *leanDefs) {
	src := "pkg/hook/hook.go CreateRateLimiter"
	stale := true
	defLimit, defBurst := "", ""
	guardI, guardB := "", ""
	setI, setB := "", ""
	ret := ""
	if fd := findFunc("pkg/hook/hook.go", "", "CreateRateLimiter"); fd != nil && fd.Body != nil {
		for _, s := range fd.Body.List {
			switch x := s.(type) {
			case *ast.AssignStmt:
				if len(x.Lhs) == 1 && len(x.Rhs) == 1 && x.Tok == token.DEFINE {
					switch exprStr(x.Lhs[0]) {
					case "limit":
						defLimit = exprStr(x.Rhs[0])
					case "burst":
						defBurst = exprStr(x.Rhs[0])
					}
				}
			case *ast.IfStmt:
				if exprStr(x.Cond.(*ast.BinaryExpr).X) != "cfg.Settings" {
					continue
				}
				for _, in := range x.Body.List {
					is, ok := in.(*ast.IfStmt)
					if !ok || len(is.Body.List) != 1 {
						continue
					}
					be, ok := is.Cond.(*ast.BinaryExpr)
					as, ok2 := is.Body.List[0].(*ast.AssignStmt)
					if !ok || !ok2 || len(as.Rhs) != 1 {
						continue
					}
					cond := exprStr(be.X) + " " + be.Op.String() + " " + exprStr(be.Y)
					switch exprStr(as.Lhs[0]) {
					case "limit":
						guardI = cond
						if ce, ok := as.Rhs[0].(*ast.CallExpr); ok && len(ce.Args) == 1 {
							setI = exprStr(ce.Fun) + "(" + exprStr(ce.Args[0]) + ")"
						}
					case "burst":
						guardB = cond
						setB = exprStr(as.Rhs[0])
					}
				}
			case *ast.ReturnStmt:
				if len(x.Results) == 1 {
					if ce, ok := x.Results[0].(*ast.CallExpr); ok && len(ce.Args) == 2 {
						ret = exprStr(ce.Fun) + "(" + exprStr(ce.Args[0]) + ", " + exprStr(ce.Args[1]) + ")"
					}
				}
			}
		}
		stale = false
	}
	l.def("c18DefaultLimit", "String", fmt.Sprintf("%q", defLimit), src)
	l.def("c18DefaultBurst", "String", fmt.Sprintf("%q", defBurst), src)
	bv := "0"
	if _, err := strconv.Atoi(defBurst); err == nil {
		bv = defBurst
	} else {
		stale = true
	}
	l.def("c18DefaultBurstVal", "Int", bv, src)
	l.def("c18IntervalGuard", "String", fmt.Sprintf("%q", guardI), src)
	l.def("c18IntervalSet", "String", fmt.Sprintf("%q", setI), src)
	l.def("c18BurstGuard", "String", fmt.Sprintf("%q", guardB), src)
	l.def("c18BurstSet", "String", fmt.Sprintf("%q", setB), src)
	l.def("c18Return", "String", fmt.Sprintf("%q", ret), src)
	l.def("c18Stale", "Bool", map[bool]string{true: "true", false: "false"}[stale], src)
}

// c18LimiterFacts (tie T1, closed world): every statement of the repository (pkg/, cmd/; tests and
// `//go:build verif` files left out) that mentions the field `RateLimiter`, as "file:func: statement",
// and every call of one of rate.Limiter's re-tuning methods. The model of Hook.LoadConfig
// (`hookLimiter` = CreateRateLimiter of the settings, whatever the bindings) was written against
// exactly two uses: the assignment in LoadConfig and the Wait in RateLimitWait.
func c18LimiterFacts(l *leanDefs) {
	src := "pkg/**, cmd/** (uses of Hook.RateLimiter)"
	tuners := map[string]bool{"SetLimit": true, "SetBurst": true, "SetLimitAt": true, "SetBurstAt": true}
	var uses, tunes []string
	render := func(n ast.Node) string {
		var b bytes.Buffer
		_ = printer.Fprint(&b, fset, n)
		return strings.Join(strings.Fields(b.String()), " ")
	}
	mentions := func(n ast.Node) bool {
		found := false
		ast.Inspect(n, func(x ast.Node) bool {
			switch y := x.(type) {
			case *ast.SelectorExpr:
				if y.Sel.Name == "RateLimiter" {
					found = true
				}
			case *ast.KeyValueExpr:
				if id, ok := y.Key.(*ast.Ident); ok && id.Name == "RateLimiter" {
					found = true
				}
			}
			return !found
		})
		return found
	}
	for _, top := range []string{"pkg", "cmd"} {
		_ = filepath.Walk(filepath.Join(repo, top), func(p string, info os.FileInfo, err error) error {
			if err != nil || info.IsDir() || !strings.HasSuffix(p, ".go") || strings.HasSuffix(p, "_test.go") {
				return nil
			}
			if raw, err := os.ReadFile(p); err != nil || bytes.Contains(raw, []byte("//go:build verif")) ||
				!(bytes.Contains(raw, []byte("RateLimiter")) || bytes.Contains(raw, []byte("SetLimit")) || bytes.Contains(raw, []byte("SetBurst"))) {
				return nil
			}
			rel, _ := filepath.Rel(repo, p)
			f := parse(rel)
			if f == nil {
				return nil
			}
			for _, d := range f.Decls {
				fd, ok := d.(*ast.FuncDecl)
				if !ok || fd.Body == nil {
					continue
				}
				ast.Inspect(fd.Body, func(n ast.Node) bool {
					switch x := n.(type) {
					case *ast.AssignStmt, *ast.ExprStmt, *ast.ReturnStmt, *ast.DeclStmt, *ast.GoStmt, *ast.DeferStmt, *ast.SendStmt, *ast.IncDecStmt:
						if mentions(x) {
							uses = append(uses, fmt.Sprintf("%s:%s: %s", rel, fd.Name.Name, render(x)))
						}
					case *ast.IfStmt:
						if x.Cond != nil && mentions(x.Cond) {
							uses = append(uses, fmt.Sprintf("%s:%s: if %s", rel, fd.Name.Name, render(x.Cond)))
						}
					case *ast.SwitchStmt:
						if x.Tag != nil && mentions(x.Tag) {
							uses = append(uses, fmt.Sprintf("%s:%s: switch %s", rel, fd.Name.Name, render(x.Tag)))
						}
					case *ast.RangeStmt:
						if mentions(x.X) {
							uses = append(uses, fmt.Sprintf("%s:%s: range %s", rel, fd.Name.Name, render(x.X)))
						}
					case *ast.CallExpr:
						if se, ok := x.Fun.(*ast.SelectorExpr); ok && tuners[se.Sel.Name] {
							tunes = append(tunes, fmt.Sprintf("%s:%s: %s", rel, fd.Name.Name, render(x)))
						}
					}
					return true
				})
			}
			return nil
		})
	}
	sort.Strings(uses)
	sort.Strings(tunes)
	l.def("c18LimiterUses", "List String", leanStrList(uses), src)
	l.def("c18LimiterTuners", "List String", leanStrList(tunes), src)
}

// c18WaitFacts (tie T1, fifth wave): the context the wait is given. `c18WaitBody` = every top-level
// statement of Hook.RateLimitWait (the model `waitCtx … none` was written against a body that hands its
// ctx to the limiter unchanged); `c18WaitCalls` = every statement of pkg/ and cmd/ (tests and
// `//go:build verif` files left out) that calls RateLimitWait, as "file:func: statement" (the model
// was written against one call, with context.Background(): a wait without a deadline never fails).
func c18WaitFacts(l *leanDefs) {
	src := "pkg/hook/hook.go RateLimitWait; pkg/**, cmd/** (calls of RateLimitWait)"
	render := func(n ast.Node) string {
		var b bytes.Buffer
		_ = printer.Fprint(&b, fset, n)
		return strings.Join(strings.Fields(b.String()), " ")
	}
	var body, calls []string
	if fd := findFunc("pkg/hook/hook.go", "Hook", "RateLimitWait"); fd != nil && fd.Body != nil {
		for _, st := range fd.Body.List {
			body = append(body, render(st))
		}
	}
	callsIt := func(n ast.Node) bool {
		found := false
		ast.Inspect(n, func(x ast.Node) bool {
			if ce, ok := x.(*ast.CallExpr); ok {
				if se, ok := ce.Fun.(*ast.SelectorExpr); ok && se.Sel.Name == "RateLimitWait" {
					found = true
				}
			}
			return !found
		})
		return found
	}
	for _, top := range []string{"pkg", "cmd"} {
		_ = filepath.Walk(filepath.Join(repo, top), func(p string, info os.FileInfo, err error) error {
			if err != nil || info.IsDir() || !strings.HasSuffix(p, ".go") || strings.HasSuffix(p, "_test.go") {
				return nil
			}
			if raw, err := os.ReadFile(p); err != nil || bytes.Contains(raw, []byte("//go:build verif")) || !bytes.Contains(raw, []byte("RateLimitWait")) {
				return nil
			}
			rel, _ := filepath.Rel(repo, p)
			f := parse(rel)
			if f == nil {
				return nil
			}
			for _, d := range f.Decls {
				fd, ok := d.(*ast.FuncDecl)
				if !ok || fd.Body == nil {
					continue
				}
				ast.Inspect(fd.Body, func(n ast.Node) bool {
					switch x := n.(type) {
					case *ast.AssignStmt, *ast.ExprStmt, *ast.ReturnStmt, *ast.DeclStmt, *ast.GoStmt, *ast.DeferStmt:
						if callsIt(x) {
							calls = append(calls, fmt.Sprintf("%s:%s: %s", rel, fd.Name.Name, render(x)))
							return false
						}
					case *ast.IfStmt:
						if x.Cond != nil && callsIt(x.Cond) {
							calls = append(calls, fmt.Sprintf("%s:%s: if %s", rel, fd.Name.Name, render(x.Cond)))
						}
					}
					return true
				})
			}
			return nil
		})
	}
	sort.Strings(calls)
	l.def("c18WaitBody", "List String", leanStrList(body), src)
	l.def("c18WaitCalls", "List String", leanStrList(calls), src)
}
