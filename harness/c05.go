package main

import (
	"context"
	"fmt"
	"strconv"
	"strings"
	"time"

	"encoding/json"
	"sort"

	"github.com/flant/shell-operator/pkg/task"
	"github.com/flant/shell-operator/pkg/task/dump"
	"github.com/flant/shell-operator/pkg/task/queue"
	"github.com/flant/shell-operator/pkg/utils/verifsched"
)

func init() { suites["c05"] = runC05 }

func mkTask(id int) task.Task {
	t := task.NewTask("T")
	t.Id = strconv.Itoa(id)
	return t
}

func taskID(t task.Task) string {
	if t == nil {
		return "nil"
	}
	return t.GetId()
}

// qObs is the observation function of C05: Iterate / Length / GetFirst / GetLast after each op.
func qObs(q *queue.TaskQueue, cur, ret string) string {
	return Catch(func() string {
		var ids []string
		q.Iterate(func(t task.Task) { ids = append(ids, taskID(t)) })
		return fmt.Sprintf("items=%s len=%d first=%s last=%s cur=%s ret=%s",
			joinStrs(ids), q.Length(), taskID(q.GetFirst()), taskID(q.GetLast()), cur, ret)
	})
}

func qItems(q *queue.TaskQueue) string {
	return Catch(func() string {
		var ids []string
		q.Iterate(func(t task.Task) { ids = append(ids, taskID(t)) })
		return fmt.Sprintf("items=%s len=%d", joinStrs(ids), q.Length())
	})
}

// workerQ is a real started TaskQueue whose worker is parked at the `queue.loop` yield point and
// whose handler waits for a scripted result.
type workerQ struct {
	q       *queue.TaskQueue
	name    string
	arrive  <-chan *verifsched.Arrival
	picked  chan string
	result  chan queue.TaskResult
	applied chan struct{}
	cancel  context.CancelFunc
	cur     string
	started bool

	poisoned bool
	parked   *verifsched.Arrival
}

func newWorkerQ(name string) *workerQ {
	w := &workerQ{name: name, picked: make(chan string, 1), result: make(chan queue.TaskResult),
		applied: make(chan struct{}, 1), cur: "nil"}
	q := queue.NewTasksQueue()
	ctx, cancel := context.WithCancel(context.Background())
	w.cancel = cancel
	q.WithContext(ctx)
	q.WithName(name)
	q.WaitLoopCheckInterval = time.Millisecond
	q.DelayOnQueueIsEmpty = time.Millisecond
	q.DelayOnRepeat = time.Millisecond
	q.ExponentialBackoffFn = func(int) time.Duration { return time.Millisecond }
	q.WithHandler(func(t task.Task) queue.TaskResult {
		w.picked <- taskID(t)
		return <-w.result
	})
	w.q = q
	return w
}

// pick lets the parked worker take the head task; returns the id handed to the handler.
func (w *workerQ) pick() string {
	if w.cur != "nil" {
		return "busy"
	}
	if w.q.Length() == 0 {
		return "nil"
	}
	if !w.started {
		w.arrive = sched.Subscribe(w.name)
		w.q.Start()
		w.started = true
	}
	if w.parked != nil {
		w.parked.Release()
		w.parked = nil
	} else {
		select {
		case a := <-w.arrive:
			if a.Name != "queue.loop" {
				a.Release()
				return "unexpected-point-" + a.Name
			}
			a.Release()
		case <-time.After(3 * time.Second):
			return "timeout-loop"
		}
	}
	for {
		select {
		case a := <-w.arrive:
			a.Release() // inner points of waitForTask: not controlled in this suite
		case id := <-w.picked:
			w.cur = id
			return id
		case <-time.After(3 * time.Second):
			return "timeout-handler"
		}
	}
}

func (w *workerQ) answer(res queue.TaskResult) string {
	if w.cur == "nil" {
		return "idle"
	}
	res.AfterHandle = func() { w.applied <- struct{}{} }
	w.result <- res
	for {
		select {
		case a := <-w.arrive:
			if a.Name == "queue.loop" {
				w.parked = a // the worker is back at the top of its loop: keep it there until the next pick
			} else {
				a.Release() // queue.afterHandler
			}
		case <-w.applied:
			w.cur = "nil"
			return "-"
		case <-time.After(3 * time.Second):
			return "timeout-apply"
		}
	}
}

// filter runs q.Filter; on a started queue the harness is subscribed to the queue's yield points,
// so the one inside Filter has to be let through.
func (w *workerQ) filter(fn func(task.Task) bool) string {
	if !w.started {
		return Catch(func() string { w.q.Filter(fn); return "-" })
	}
	done := make(chan string, 1)
	go func() { done <- Catch(func() string { w.q.Filter(fn); return "-" }) }()
	for {
		select {
		case a := <-w.arrive:
			if a.Name == "queue.loop" {
				w.parked = a
			} else {
				a.Release()
			}
		case r := <-done:
			return r
		case <-time.After(3 * time.Second):
			return "timeout-filter"
		}
	}
}

func (w *workerQ) close() {
	sched.Unsubscribe(w.name)
	w.cancel()
	if w.parked != nil {
		w.parked.Release()
	}
	if w.cur != "nil" {
		select {
		case w.result <- queue.TaskResult{Status: queue.Keep}:
		case <-time.After(time.Second):
		}
	}
	for {
		select {
		case a := <-w.arrive:
			a.Release()
		case <-time.After(20 * time.Millisecond):
			return
		}
	}
}

// iterRemove: a walk over the queue (Iterate) is parked inside its callback at the park-th element
// while Remove(id) is attempted from another goroutine. Returns what the walk saw, whether the
// removal waited for the walk, and what it returned.
func (w *workerQ) iterRemove(park, id int) ([]string, int, string) {
	q := w.q
	inside, goOn, done := make(chan struct{}), make(chan struct{}), make(chan struct{})
	var seen []string
	go func() {
		defer close(done)
		idx := 0
		_ = Catch(func() string {
			q.Iterate(func(t task.Task) {
				if idx == park {
					close(inside)
					<-goOn
				}
				seen = append(seen, taskID(t))
				idx++
			})
			return "-"
		})
	}()
	parked := false
	select {
	case <-inside:
		parked = true
	case <-done:
	case <-time.After(5 * time.Second):
		close(goOn)
		return nil, 0, "timeout-iterate"
	}
	if !parked {
		close(goOn)
		return seen, 0, Catch(func() string { return taskID(q.Remove(strconv.Itoa(id))) })
	}
	rd := make(chan string, 1)
	go func() { rd <- Catch(func() string { return taskID(q.Remove(strconv.Itoa(id))) }) }()
	blocked, ret := 0, ""
	select {
	case ret = <-rd:
	case <-time.After(40 * time.Millisecond):
		blocked = 1
	}
	close(goOn)
	select {
	case <-done:
	case <-time.After(5 * time.Second):
		return nil, blocked, "timeout-iterate-end"
	}
	if blocked == 1 {
		select {
		case ret = <-rd:
		case <-time.After(5 * time.Second):
			return seen, blocked, "timeout-remove"
		}
	}
	return seen, blocked, ret
}

// sharedBacking builds the three task lists of a handler result as consecutive sub-slices of ONE
// backing array with spare capacity behind each of them (what a handler that fills one buffer and
// slices it hands back): an append to one of them that is not a copy overwrites the next.
func sharedBacking(h, a, tl []int) ([]task.Task, []task.Task, []task.Task) {
	buf := make([]task.Task, 0, len(h)+len(a)+len(tl)+16)
	for _, l := range [][]int{h, a, tl} {
		for _, i := range l {
			buf = append(buf, mkTask(i))
		}
	}
	return buf[0:len(h)], buf[len(h) : len(h)+len(a)], buf[len(h)+len(a) : len(h)+len(a)+len(tl)]
}

func idsTasks(ids []int) []task.Task {
	var ts []task.Task
	for _, i := range ids {
		ts = append(ts, mkTask(i))
	}
	return ts
}

// c05Op applies one generated op to the real queue; returns the protocol line and the answer.
func c05Op(c *Case, w *workerQ, op string, args []int, st string, h, a, tl []int) {
	if w.poisoned {
		return
	}
	q := w.q
	ret := "-"
	var line string
	switch op {
	case "addFirst":
		line = fmt.Sprintf("addFirst %d", args[0])
		ret = Catch(func() string { q.AddFirst(mkTask(args[0])); return "-" })
	case "addLast":
		line = fmt.Sprintf("addLast %d", args[0])
		ret = Catch(func() string { q.AddLast(mkTask(args[0])); return "-" })
	case "addAfter":
		line = fmt.Sprintf("addAfter %d %d", args[0], args[1])
		ret = Catch(func() string { q.AddAfter(strconv.Itoa(args[0]), mkTask(args[1])); return "-" })
	case "addBefore":
		line = fmt.Sprintf("addBefore %d %d", args[0], args[1])
		ret = Catch(func() string { q.AddBefore(strconv.Itoa(args[0]), mkTask(args[1])); return "-" })
	case "remove":
		line = fmt.Sprintf("remove %d", args[0])
		ret = Catch(func() string { return taskID(q.Remove(strconv.Itoa(args[0]))) })
	case "removeFirst":
		line = "removeFirst"
		ret = Catch(func() string { return taskID(q.RemoveFirst()) })
	case "removeLast":
		line = "removeLast"
		ret = Catch(func() string { return taskID(q.RemoveLast()) })
	case "filter":
		line = "filter " + joinInts(args)
		keep := map[string]bool{}
		for _, i := range args {
			keep[strconv.Itoa(i)] = true
		}
		ret = w.filter(func(t task.Task) bool { return keep[taskID(t)] })
	case "get":
		line = fmt.Sprintf("get %d", args[0])
		ret = Catch(func() string { return taskID(q.Get(strconv.Itoa(args[0]))) })
	case "pick":
		line = "pick"
		ret = w.pick()
	case "result":
		line = fmt.Sprintf("result %s h=%s a=%s t=%s", st, joinInts(h), joinInts(a), joinInts(tl))
		status := map[string]queue.TaskStatus{"success": queue.Success, "fail": queue.Fail,
			"repeat": queue.Repeat, "keep": queue.Keep}[st]
		if w.cur == "nil" {
			ret = "-"
		} else {
			ht, at, tt := idsTasks(h), idsTasks(a), idsTasks(tl)
			if len(args) > 0 && args[0] == 1 {
				ht, at, tt = sharedBacking(h, a, tl)
				c.Note("result:shared-backing-array")
			}
			ret = w.answer(queue.TaskResult{Status: status, HeadTasks: ht, AfterTasks: at, TailTasks: tt})
		}
	case "iterRemove":
		line = fmt.Sprintf("iterRemove %d %d", args[0], args[1])
		seen, blocked, r := w.iterRemove(args[0], args[1])
		c.Note("op:" + op)
		if r == "panic" {
			w.poisoned = true
			c.Op(line, "panic")
			c.Oracle("panic")
			return
		}
		c.Op(line, fmt.Sprintf("seen=%s blocked=%d ", joinStrs(seen), blocked)+qObs(q, w.cur, r))
		c.Oracle("iter seen=" + joinStrs(seen))
		c.Oracle(qItems(q))
		return
	}
	c.Note("op:" + op)
	if ret == "panic" {
		// a panic inside withLock leaves q.m locked for ever: stop using this queue
		w.poisoned = true
		c.Op(line, "panic")
		c.Oracle("panic")
		return
	}
	c.Op(line, qObs(q, w.cur, ret))
	c.Oracle(qItems(q))
}

// c05Dump: the queue dump of the debug endpoint is the other place where a queue's length is reported.
// A set of 2..5 queues (the main one among them) with 0..5 tasks each; per queue the dump must report
// the number of tasks the queue holds, list exactly those tasks, and the summary must add up.
func c05Dump(c *Case, rng *Rng) {
	tqs := queue.NewTaskQueueSet()
	ctx, cancel := context.WithCancel(context.Background())
	defer cancel()
	tqs.WithContext(ctx)
	nq := rng.Range(2, 5)
	names := []string{"main"}
	for i := 1; i < nq; i++ {
		names = append(names, fmt.Sprintf("q%d", i))
	}
	id := 0
	var want []string
	total := 0
	for _, n := range names {
		tqs.NewNamedQueue(n, func(task.Task) queue.TaskResult { return queue.TaskResult{Status: queue.Success} })
		k := rng.Intn(6)
		for j := 0; j < k; j++ {
			id++
			tqs.GetByName(n).AddLast(mkTask(id))
		}
		want = append(want, fmt.Sprintf("%s:%d", n, k))
		total += k
	}
	c.Desc = "queue dump of a set: " + joinStrs(want)
	c.Nontrivial = nq >= 3 && total > 0
	for _, format := range []string{"json"} {
		res := Catch(func() string {
			out := dump.TaskQueues(tqs, format, true)
			var got []string
			sum := -1
			if format == "json" {
				b, err := json.Marshal(out)
				if err != nil {
					return "marshal-error"
				}
				var d struct {
					Active, Empty []struct {
						Name       string
						TasksCount int
						Tasks      []struct{ Index int }
					}
					Summary struct{ TotalTasks int }
				}
				if json.Unmarshal(b, &d) != nil {
					return "unmarshal-error"
				}
				for _, q := range append(d.Active, d.Empty...) {
					got = append(got, fmt.Sprintf("%s:%d:%d", q.Name, q.TasksCount, len(q.Tasks)))
				}
				sum = d.Summary.TotalTasks
			}
			sort.Strings(got)
			return fmt.Sprintf("got=%s sum=%d", joinStrs(got), sum)
		})
		sw := append([]string{}, want...)
		sort.Strings(sw)
		c.Oracle(fmt.Sprintf("dump fmt=%s want=%s total=%d %s", format, joinStrs(sw), total, res))
	}
	c.Note("dump")
}

func runC05(r *Run) {
	r.Rule = "random histories of the public TaskQueue operations (addFirst/addLast/addAfter/addBefore/remove/removeFirst/removeLast/Filter/Get) over ids 1..4 (ids present, absent, duplicated), a walk (Iterate) parked at its k-th element while Remove is attempted from another goroutine, a queue-dump family (pkg/task/dump over a set of 2..5 queues: per queue the reported length equals the tasks held and listed, the summary adds up), interleaved with worker picks and scripted handler results (Success/Keep/Fail/Repeat with head/after/tail tasks, in half of the results three slices of one backing array with spare capacity) on a real started queue; thorough adds every history of length <= 4 over 2 ids of the slice-level ops. A case is non-trivial when it has >= 3 ops and at least one op addressed an id (addAfter/addBefore/remove/get/result); distinct = distinct op-line sequences."
	// corpus: the minimal failing history of the repaired defect (addAfter with an absent id)
	r.One(0, func(c *Case, _ *Rng) {
		c.Desc = "corpus: addAfter/addBefore with an absent id"
		c.Nontrivial = true
		w := newWorkerQ("c05-corpus-0")
		defer w.close()
		c05Op(c, w, "addLast", []int{1}, "", nil, nil, nil)
		c05Op(c, w, "addAfter", []int{7, 2}, "", nil, nil, nil)
		c05Op(c, w, "addBefore", []int{7, 3}, "", nil, nil, nil)
		c05Op(c, w, "get", []int{1}, "", nil, nil, nil)
	})
	r.One(1, func(c *Case, _ *Rng) {
		c.Desc = "corpus: handled task removed before its result carries AfterTasks"
		c.Nontrivial = true
		w := newWorkerQ("c05-corpus-1")
		defer w.close()
		c05Op(c, w, "addLast", []int{1}, "", nil, nil, nil)
		c05Op(c, w, "addLast", []int{2}, "", nil, nil, nil)
		c05Op(c, w, "pick", nil, "", nil, nil, nil)
		c05Op(c, w, "remove", []int{1}, "", nil, nil, nil)
		c05Op(c, w, "result", nil, "success", []int{3}, []int{4}, []int{5})
		c05Op(c, w, "get", []int{2}, "", nil, nil, nil)
	})
	r.One(2, func(c *Case, _ *Rng) {
		c.Desc = "corpus: a walk over the queue parked at its third element while an earlier task is removed"
		c.Nontrivial = true
		w := newWorkerQ("c05-corpus-2")
		defer w.close()
		for i := 1; i <= 5; i++ {
			c05Op(c, w, "addLast", []int{i}, "", nil, nil, nil)
		}
		c05Op(c, w, "iterRemove", []int{2, 2}, "", nil, nil, nil)
		c05Op(c, w, "iterRemove", []int{0, 5}, "", nil, nil, nil)
		c05Op(c, w, "iterRemove", []int{7, 1}, "", nil, nil, nil)
	})
	r.One(3, func(c *Case, _ *Rng) {
		c.Desc = "corpus: head, after and tail tasks of a result are slices of one backing array"
		c.Nontrivial = true
		w := newWorkerQ("c05-corpus-3")
		defer w.close()
		for i := 1; i <= 3; i++ {
			c05Op(c, w, "addLast", []int{i}, "", nil, nil, nil)
		}
		c05Op(c, w, "pick", nil, "", nil, nil, nil)
		c05Op(c, w, "result", []int{1}, "success", []int{11, 12}, []int{13}, []int{14, 15})
		c05Op(c, w, "pick", nil, "", nil, nil, nil)
		c05Op(c, w, "result", []int{1}, "keep", []int{21, 22}, nil, []int{24, 25})
	})
	r.Cases(500000, r.N(60, 600), 0, c05Dump)
	n := r.N(3000, 40000)
	r.Cases(10, n, 0, func(c *Case, rng *Rng) {
		w := newWorkerQ(fmt.Sprintf("c05-%d", c.Idx))
		defer w.close()
		withWorker := rng.Chance(40)
		nops := rng.Range(2, 14)
		idOps := 0
		next := 5
		for i := 0; i < nops; i++ {
			id := func() int { return rng.Range(1, 4) }
			fresh := func() int {
				if rng.Chance(70) {
					next++
					return next
				}
				return id()
			}
			k := rng.Intn(100)
			switch {
			case k < 14:
				c05Op(c, w, "addFirst", []int{fresh()}, "", nil, nil, nil)
			case k < 30:
				c05Op(c, w, "addLast", []int{id()}, "", nil, nil, nil)
			case k < 42:
				idOps++
				c05Op(c, w, "addAfter", []int{id(), fresh()}, "", nil, nil, nil)
			case k < 54:
				idOps++
				c05Op(c, w, "addBefore", []int{id(), fresh()}, "", nil, nil, nil)
			case k < 62:
				idOps++
				c05Op(c, w, "remove", []int{id()}, "", nil, nil, nil)
			case k < 66:
				c05Op(c, w, "removeFirst", nil, "", nil, nil, nil)
			case k < 70:
				c05Op(c, w, "removeLast", nil, "", nil, nil, nil)
			case k < 76:
				var keep []int
				for j := 1; j <= next; j++ {
					if rng.Chance(70) {
						keep = append(keep, j)
					}
				}
				c05Op(c, w, "filter", keep, "", nil, nil, nil)
			case k < 80:
				idOps++
				c05Op(c, w, "get", []int{id()}, "", nil, nil, nil)
			case k < 83:
				idOps++
				c05Op(c, w, "iterRemove", []int{rng.Intn(4), id()}, "", nil, nil, nil)
			default:
				if !withWorker {
					c05Op(c, w, "addLast", []int{fresh()}, "", nil, nil, nil)
					continue
				}
				if w.cur == "nil" {
					c05Op(c, w, "pick", nil, "", nil, nil, nil)
				} else {
					idOps++
					st := PickOne(rng, []string{"success", "success", "keep", "fail", "repeat"})
					lst := func() []int {
						var l []int
						for j := rng.Intn(3); j > 0; j-- {
							l = append(l, fresh())
						}
						return l
					}
					var shared []int
					if rng.Chance(50) {
						shared = []int{1}
					}
					c05Op(c, w, "result", shared, st, lst(), lst(), lst())
				}
			}
		}
		c.Nontrivial = nops >= 3 && idOps > 0
		if withWorker {
			c.Note("case:worker")
		} else {
			c.Note("case:plain")
		}
	})
	if r.Thorough() {
		// exhaustive small scope: every history of length <= 4 over ids {1,2} of the slice-level ops
		type op struct {
			name string
			args []int
		}
		var alphabet []op
		for _, i := range []int{1, 2} {
			alphabet = append(alphabet, op{"addFirst", []int{i}}, op{"addLast", []int{i}}, op{"remove", []int{i}})
			for _, j := range []int{1, 2} {
				alphabet = append(alphabet, op{"addAfter", []int{i, j}}, op{"addBefore", []int{i, j}})
			}
		}
		alphabet = append(alphabet, op{"removeFirst", nil}, op{"removeLast", nil}, op{"filter", []int{1}})
		total := 0
		for l, p := 1, len(alphabet); l <= 4; l++ {
			total += p
			p *= len(alphabet)
		}
		A := len(alphabet)
		r.Cases(1000000, total, 0, func(c *Case, _ *Rng) {
			k := c.Idx - 1000000
			l := 1
			for p := A; k >= p; p *= A {
				k -= p
				l++
			}
			w := newWorkerQ(fmt.Sprintf("c05x-%d", c.Idx))
			defer w.close()
			var names []string
			for i := 0; i < l; i++ {
				o := alphabet[k%A]
				k /= A
				c05Op(c, w, o.name, o.args, "", nil, nil, nil)
				names = append(names, o.name)
			}
			c.Nontrivial = l >= 3 && strings.Contains(strings.Join(names, " "), "add")
		})
		r.Exhaust = true
		r.Extra["exhaustive_scope"] = fmt.Sprintf("all %d histories of length<=4 over %d slice-level ops on ids {1,2}", total, A)
	}
}
