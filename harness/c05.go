package main

import (
	"context"
	"fmt"
	"strconv"
	"strings"
	"time"

	"encoding/json"
	"sort"
	"sync"

	"github.com/flant/shell-operator/pkg/task"
	"github.com/flant/shell-operator/pkg/task/dump"
	"github.com/flant/shell-operator/pkg/task/queue"
	"github.com/flant/shell-operator/pkg/utils/verifsched"
)

func init() { suites["c05"] = runC05 }

func mkTask(id int) task.Task {
	t := task.NewTask("T")
	t.Id = strconv.Itoa(id)
	return t
}

// taskPool hands out the task objects of one case. A generator that builds a fresh object for every
// add never passes the very same object (pointer) twice; the pool does: with chance pct (or always,
// when force is set) an id that was used before comes back as the object that was used before. An
// ordinary list holds a value as often as it was added, whether or not it is the same object.
type taskPool struct {
	last  map[int]task.Task
	pct   int
	rng   *Rng
	force bool
	sp    *idSpell
}

func newTaskPool(rng *Rng, pct int) *taskPool {
	return &taskPool{last: map[int]task.Task{}, pct: pct, rng: rng}
}

func (p *taskPool) get(id int) task.Task {
	if p == nil {
		return mkTask(id)
	}
	mkTask := p.sp.mk
	if t, ok := p.last[id]; ok && (p.force || (p.pct > 0 && p.rng != nil && p.rng.Intn(100) < p.pct)) {
		return t
	}
	t := mkTask(id)
	p.last[id] = t
	return t
}

func taskID(t task.Task) string {
	if t == nil {
		return "nil"
	}
	return t.GetId()
}

// idSpell is the spelling of the task ids of one case. The protocol (op lines, observations, oracle
// lines) speaks of ids as numbers; on the real queue the id of a task is a Go string, and an ordinary
// list treats EVERY string alike. By default id n is spelled strconv.Itoa(n); a case with a spelling
// writes some of its ids as unusual strings (the empty string - a task.BaseTask built without Id -, a
// blank, a NUL byte, a string that only differs from another id by a trailing blank or by case, a very
// long one, non-ASCII). The spelling is a bijection, so every observation is translated back.
type idSpell struct {
	to   map[int]string
	from map[string]int
}

var c05OddSpellings = []string{"", "", "", " ", "\x00", "1 ", " 2", "T", "t", "\n", "\u2163", "nil ", "-1", "01", "+3",
	strings.Repeat("x", 300)}

// newIdSpell spells k of the given ids (distinct ones) oddly; every odd string is used at most once.
func newIdSpell(rng *Rng, ids []int, k int) *idSpell {
	sp := &idSpell{to: map[int]string{}, from: map[string]int{}}
	for ; k > 0; k-- {
		id := PickOne(rng, ids)
		str := PickOne(rng, c05OddSpellings)
		if _, ok := sp.to[id]; ok {
			continue
		}
		if _, ok := sp.from[str]; ok {
			continue
		}
		sp.to[id], sp.from[str] = str, id
	}
	return sp
}

func (sp *idSpell) str(id int) string {
	if sp != nil {
		if s, ok := sp.to[id]; ok {
			return s
		}
	}
	return strconv.Itoa(id)
}

// name: the protocol name (the number) of a task id string of the real queue.
func (sp *idSpell) name(s string) string {
	if sp != nil {
		if id, ok := sp.from[s]; ok {
			return strconv.Itoa(id)
		}
	}
	return s
}

func (sp *idSpell) id(t task.Task) string {
	if t == nil {
		return "nil"
	}
	return sp.name(t.GetId())
}

func (sp *idSpell) mk(id int) task.Task {
	t := task.NewTask("T")
	t.Id = sp.str(id)
	return t
}

func (sp *idSpell) describe() string {
	if sp == nil || len(sp.to) == 0 {
		return ""
	}
	var ks []int
	for k := range sp.to {
		ks = append(ks, k)
	}
	sort.Ints(ks)
	var out []string
	for _, k := range ks {
		str := sp.to[k]
		if len(str) > 12 {
			str = str[:12] + "..."
		}
		out = append(out, fmt.Sprintf("%d=%q", k, str))
	}
	return "ids spelled " + strings.Join(out, " ")
}

// c05Spells: the spelling of the ids of a live queue (set by workerQ.setSpell, dropped by close).
var c05Spells sync.Map // *queue.TaskQueue -> *idSpell

func spellOf(q *queue.TaskQueue) *idSpell {
	if v, ok := c05Spells.Load(q); ok {
		return v.(*idSpell)
	}
	return nil
}

// c05Join writes a list of slots ("nil" or a number); a maximal run of >= 3 consecutive ascending
// numbers a,a+1,..,b is written "a..b" (the driver prints and parses the same form): the
// observations of a queue of thousands of tasks stay short.
func c05Join(ids []string) string {
	if len(ids) == 0 {
		return "-"
	}
	var sb strings.Builder
	num := func(s string) (int, bool) {
		n, err := strconv.Atoi(s)
		return n, err == nil && n >= 0 && strconv.Itoa(n) == s
	}
	for i := 0; i < len(ids); {
		if i > 0 {
			sb.WriteByte(',')
		}
		v, ok := num(ids[i])
		j := i + 1
		if ok {
			for j < len(ids) {
				w, ok2 := num(ids[j])
				if !ok2 || w != v+(j-i) {
					break
				}
				j++
			}
		}
		switch {
		case j-i >= 3:
			sb.WriteString(ids[i] + ".." + ids[j-1])
		case j-i == 2:
			sb.WriteString(ids[i] + "," + ids[i+1])
		default:
			sb.WriteString(ids[i])
		}
		i = j
	}
	return sb.String()
}

func c05JoinInts(xs []int) string {
	ss := make([]string, len(xs))
	for i, x := range xs {
		ss[i] = strconv.Itoa(x)
	}
	return c05Join(ss)
}

// qObs is the observation function of C05: Iterate / Length / GetFirst / GetLast after each op.
func qObs(q *queue.TaskQueue, cur, ret string) string {
	taskID := spellOf(q).id
	return Catch(func() string {
		var ids []string
		q.Iterate(func(t task.Task) { ids = append(ids, taskID(t)) })
		return fmt.Sprintf("items=%s len=%d first=%s last=%s cur=%s ret=%s",
			c05Join(ids), q.Length(), taskID(q.GetFirst()), taskID(q.GetLast()), cur, ret)
	})
}

func qItems(q *queue.TaskQueue) string {
	taskID := spellOf(q).id
	return Catch(func() string {
		var ids []string
		q.Iterate(func(t task.Task) { ids = append(ids, taskID(t)) })
		return fmt.Sprintf("items=%s len=%d", c05Join(ids), q.Length())
	})
}

// workerQ is a real started TaskQueue whose worker is parked at the `queue.loop` yield point and
// whose handler waits for a scripted result.
type workerQ struct {
	q       *queue.TaskQueue
	name    string
	arrive  <-chan *verifsched.Arrival
	picked  chan string
	result  chan queue.TaskResult
	applied chan struct{}
	cancel  context.CancelFunc
	cur     string
	started bool

	poisoned bool
	stuck    bool // the worker did not come back within workerWait: it is not asked again
	parked   *verifsched.Arrival

	pool *taskPool // nil: a fresh task object for every add
	sp   *idSpell  // nil: every id is spelled as its decimal number
}

func (w *workerQ) task(id int) task.Task {
	if w.pool == nil {
		return w.sp.mk(id)
	}
	w.pool.sp = w.sp
	return w.pool.get(id)
}

// setSpell: from now on the ids of this queue are spelled by sp (call it before the first op).
func (w *workerQ) setSpell(sp *idSpell) {
	w.sp = sp
	c05Spells.Store(w.q, sp)
}

func (w *workerQ) tasks(ids []int) []task.Task {
	var ts []task.Task
	for _, i := range ids {
		ts = append(ts, w.task(i))
	}
	return ts
}

func newWorkerQ(name string) *workerQ {
	w := &workerQ{name: name, picked: make(chan string, 1), result: make(chan queue.TaskResult),
		applied: make(chan struct{}, 1), cur: "nil"}
	q := queue.NewTasksQueue()
	ctx, cancel := context.WithCancel(context.Background())
	w.cancel = cancel
	q.WithContext(ctx)
	q.WithName(name)
	q.WaitLoopCheckInterval = time.Millisecond
	q.DelayOnQueueIsEmpty = time.Millisecond
	q.DelayOnRepeat = time.Millisecond
	q.ExponentialBackoffFn = func(int) time.Duration { return time.Millisecond }
	q.WithHandler(func(t task.Task) queue.TaskResult {
		w.picked <- w.sp.id(t)
		return <-w.result
	})
	w.q = q
	return w
}

// workerWait: how long the harness waits for the worker goroutine of a queue (a lower bound on
// patience, not an assertion: on a loaded machine a hand-over may take seconds). A worker that did
// not come back once is not asked again (the case goes on without it).
const workerWait = 12 * time.Second

// pick lets the parked worker take the head task; returns the id handed to the handler.
func (w *workerQ) pick() string {
	if w.stuck {
		return "stuck"
	}
	if w.cur != "nil" {
		return "busy"
	}
	if w.q.Length() == 0 {
		return "nil"
	}
	if !w.started {
		w.arrive = sched.Subscribe(w.name)
		w.q.Start()
		w.started = true
	}
	if w.parked != nil {
		w.parked.Release()
		w.parked = nil
	} else {
		select {
		case a := <-w.arrive:
			if a.Name != "queue.loop" {
				a.Release()
				return "unexpected-point-" + a.Name
			}
			a.Release()
		case <-time.After(workerWait):
			w.stuck = true
			return "timeout-loop"
		}
	}
	for {
		select {
		case a := <-w.arrive:
			a.Release() // inner points of waitForTask: not controlled in this suite
		case id := <-w.picked:
			w.cur = id
			return id
		case <-time.After(workerWait):
			w.stuck = true
			return "timeout-handler"
		}
	}
}

func (w *workerQ) answer(res queue.TaskResult) string {
	if w.cur == "nil" {
		return "idle"
	}
	if w.stuck {
		return "stuck"
	}
	res.AfterHandle = func() { w.applied <- struct{}{} }
	w.result <- res
	for {
		select {
		case a := <-w.arrive:
			if a.Name == "queue.loop" {
				w.parked = a // the worker is back at the top of its loop: keep it there until the next pick
			} else {
				a.Release() // queue.afterHandler
			}
		case <-w.applied:
			w.cur = "nil"
			return "-"
		case <-time.After(workerWait):
			w.stuck = true
			return "timeout-apply"
		}
	}
}

// filter runs q.Filter; on a started queue the harness is subscribed to the queue's yield points,
// so the one inside Filter has to be let through.
func (w *workerQ) filter(fn func(task.Task) bool) string {
	if !w.started {
		return Catch(func() string { w.q.Filter(fn); return "-" })
	}
	done := make(chan string, 1)
	go func() { done <- Catch(func() string { w.q.Filter(fn); return "-" }) }()
	for {
		select {
		case a := <-w.arrive:
			if a.Name == "queue.loop" {
				w.parked = a
			} else {
				a.Release()
			}
		case r := <-done:
			return r
		case <-time.After(workerWait):
			return "timeout-filter"
		}
	}
}

func (w *workerQ) close() {
	defer c05Spells.Delete(w.q)
	sched.Unsubscribe(w.name)
	w.cancel()
	if w.parked != nil {
		w.parked.Release()
	}
	if w.cur != "nil" {
		select {
		case w.result <- queue.TaskResult{Status: queue.Keep}:
		case <-time.After(time.Second):
		}
	}
	for {
		select {
		case a := <-w.arrive:
			a.Release()
		case <-time.After(20 * time.Millisecond):
			return
		}
	}
}

// iterRemove: a walk over the queue (Iterate) is parked inside its callback at the park-th element
// while Remove(id) is attempted from another goroutine. Returns what the walk saw, whether the
// removal waited for the walk, and what it returned.
func (w *workerQ) iterRemove(park, id int) ([]string, int, string) {
	q := w.q
	taskID, idStr := w.sp.id, w.sp.str
	inside, goOn, done := make(chan struct{}), make(chan struct{}), make(chan struct{})
	var seen []string
	go func() {
		defer close(done)
		idx := 0
		_ = Catch(func() string {
			q.Iterate(func(t task.Task) {
				if idx == park {
					close(inside)
					<-goOn
				}
				seen = append(seen, taskID(t))
				idx++
			})
			return "-"
		})
	}()
	parked := false
	select {
	case <-inside:
		parked = true
	case <-done:
	case <-time.After(5 * time.Second):
		close(goOn)
		return nil, 0, "timeout-iterate"
	}
	if !parked {
		close(goOn)
		return seen, 0, Catch(func() string { return taskID(q.Remove(idStr(id))) })
	}
	rd := make(chan string, 1)
	go func() { rd <- Catch(func() string { return taskID(q.Remove(idStr(id))) }) }()
	blocked, ret := 0, ""
	select {
	case ret = <-rd:
	case <-time.After(40 * time.Millisecond):
		blocked = 1
	}
	close(goOn)
	select {
	case <-done:
	case <-time.After(5 * time.Second):
		return nil, blocked, "timeout-iterate-end"
	}
	if blocked == 1 {
		select {
		case ret = <-rd:
		case <-time.After(5 * time.Second):
			return seen, blocked, "timeout-remove"
		}
	}
	return seen, blocked, ret
}

// sharedBacking builds the three task lists of a handler result as consecutive sub-slices of ONE
// backing array with spare capacity behind each of them (what a handler that fills one buffer and
// slices it hands back): an append to one of them that is not a copy overwrites the next.
func sharedBacking(w *workerQ, h, a, tl []int) ([]task.Task, []task.Task, []task.Task) {
	buf := make([]task.Task, 0, len(h)+len(a)+len(tl)+16)
	for _, l := range [][]int{h, a, tl} {
		for _, i := range l {
			buf = append(buf, w.task(i))
		}
	}
	return buf[0:len(h)], buf[len(h) : len(h)+len(a)], buf[len(h)+len(a) : len(h)+len(a)+len(tl)]
}

// c05Op applies one generated op to the real queue; returns the protocol line and the answer.
func c05Op(c *Case, w *workerQ, op string, args []int, st string, h, a, tl []int) {
	if w.poisoned {
		return
	}
	q := w.q
	taskID, idStr := w.sp.id, w.sp.str
	ret := "-"
	var line string
	switch op {
	case "addFirst":
		line = fmt.Sprintf("addFirst %d", args[0])
		ret = Catch(func() string { q.AddFirst(w.task(args[0])); return "-" })
	case "addLast":
		line = fmt.Sprintf("addLast %d", args[0])
		ret = Catch(func() string { q.AddLast(w.task(args[0])); return "-" })
	case "addAfter":
		line = fmt.Sprintf("addAfter %d %d", args[0], args[1])
		ret = Catch(func() string { q.AddAfter(idStr(args[0]), w.task(args[1])); return "-" })
	case "addBefore":
		line = fmt.Sprintf("addBefore %d %d", args[0], args[1])
		ret = Catch(func() string { q.AddBefore(idStr(args[0]), w.task(args[1])); return "-" })
	case "remove":
		line = fmt.Sprintf("remove %d", args[0])
		ret = Catch(func() string { return taskID(q.Remove(idStr(args[0]))) })
	case "removeFirst":
		line = "removeFirst"
		ret = Catch(func() string { return taskID(q.RemoveFirst()) })
	case "removeLast":
		line = "removeLast"
		ret = Catch(func() string { return taskID(q.RemoveLast()) })
	case "filter":
		line = "filter " + c05JoinInts(args)
		keep := map[string]bool{}
		for _, i := range args {
			keep[idStr(i)] = true
		}
		ret = w.filter(func(t task.Task) bool { return keep[t.GetId()] })
	case "get":
		line = fmt.Sprintf("get %d", args[0])
		ret = Catch(func() string { return taskID(q.Get(idStr(args[0]))) })
	case "pick":
		line = "pick"
		ret = w.pick()
	case "result":
		line = fmt.Sprintf("result %s h=%s a=%s t=%s", st, c05JoinInts(h), c05JoinInts(a), c05JoinInts(tl))
		status := map[string]queue.TaskStatus{"success": queue.Success, "fail": queue.Fail,
			"repeat": queue.Repeat, "keep": queue.Keep}[st]
		if w.cur == "nil" {
			ret = "-"
		} else {
			ht, at, tt := w.tasks(h), w.tasks(a), w.tasks(tl)
			if len(args) > 0 && args[0] == 1 {
				ht, at, tt = sharedBacking(w, h, a, tl)
				c.Note("result:shared-backing-array")
			}
			ret = w.answer(queue.TaskResult{Status: status, HeadTasks: ht, AfterTasks: at, TailTasks: tt})
		}
	case "iterRemove":
		line = fmt.Sprintf("iterRemove %d %d", args[0], args[1])
		seen, blocked, r := w.iterRemove(args[0], args[1])
		c.Note("op:" + op)
		if r == "panic" {
			w.poisoned = true
			c.Op(line, "panic")
			c.Oracle("panic")
			return
		}
		c.Op(line, fmt.Sprintf("seen=%s blocked=%d ", c05Join(seen), blocked)+qObs(q, w.cur, r))
		c.Oracle("iter seen=" + c05Join(seen))
		c.Oracle(qItems(q))
		return
	}
	c.Note("op:" + op)
	if ret == "panic" {
		// a panic inside withLock leaves q.m locked for ever: stop using this queue
		w.poisoned = true
		c.Op(line, "panic")
		c.Oracle("panic")
		return
	}
	c.Op(line, qObs(q, w.cur, ret))
	c.Oracle(qItems(q))
}

// c05Dump: the queue dump of the debug endpoint is the other place where a queue's length is reported.
// A set of 2..5 queues (the main one among them) with 0..5 tasks each; per queue the dump must report
// the number of tasks the queue holds, list exactly those tasks, and the summary must add up.
func c05Dump(c *Case, rng *Rng) {
	tqs := queue.NewTaskQueueSet()
	ctx, cancel := context.WithCancel(context.Background())
	defer cancel()
	tqs.WithContext(ctx)
	nq := rng.Range(2, 5)
	names := []string{"main"}
	for i := 1; i < nq; i++ {
		names = append(names, fmt.Sprintf("q%d", i))
	}
	id := 0
	var want []string
	total := 0
	for _, n := range names {
		tqs.NewNamedQueue(n, func(task.Task) queue.TaskResult { return queue.TaskResult{Status: queue.Success} })
		k := rng.Intn(6)
		for j := 0; j < k; j++ {
			id++
			tqs.GetByName(n).AddLast(mkTask(id))
		}
		want = append(want, fmt.Sprintf("%s:%d", n, k))
		total += k
	}
	c.Desc = "queue dump of a set: " + joinStrs(want)
	c.Nontrivial = nq >= 3 && total > 0
	for _, format := range []string{"json"} {
		res := Catch(func() string {
			out := dump.TaskQueues(tqs, format, true)
			var got []string
			sum := -1
			if format == "json" {
				b, err := json.Marshal(out)
				if err != nil {
					return "marshal-error"
				}
				var d struct {
					Active, Empty []struct {
						Name       string
						TasksCount int
						Tasks      []struct{ Index int }
					}
					Summary struct{ TotalTasks int }
				}
				if json.Unmarshal(b, &d) != nil {
					return "unmarshal-error"
				}
				for _, q := range append(d.Active, d.Empty...) {
					got = append(got, fmt.Sprintf("%s:%d:%d", q.Name, q.TasksCount, len(q.Tasks)))
				}
				sum = d.Summary.TotalTasks
			}
			sort.Strings(got)
			return fmt.Sprintf("got=%s sum=%d", joinStrs(got), sum)
		})
		sw := append([]string{}, want...)
		sort.Strings(sw)
		c.Oracle(fmt.Sprintf("dump fmt=%s want=%s total=%d %s", format, joinStrs(sw), total, res))
	}
	c.Note("dump")
}

// ---------------------------------------------------------------- several live queues in one case

// qset is a set of live queues of one case. The queues of a process share the package: whatever one
// queue does must leave every other queue exactly as its own ordinary list says. `sel k` makes queue k
// the one the following op lines address; after every op the items and length of EVERY other queue
// are put to the property oracle as well (`oracle q=j items=… len=…`).
type qset struct {
	c   *Case
	ws  []*workerQ
	cur int
}

func (s *qset) op(k int, op string, args []int, st string, h, a, tl []int) {
	w := s.ws[k]
	if w.poisoned {
		return
	}
	if k != s.cur {
		s.c.Op(fmt.Sprintf("sel %d", k), "-")
		s.cur = k
	}
	c05Op(s.c, w, op, args, st, h, a, tl)
	for j, o := range s.ws {
		if j != k && !o.poisoned {
			s.c.Oracle(fmt.Sprintf("q=%d %s", j, qItems(o.q)))
		}
	}
}

func headID(q *queue.TaskQueue) (int, bool) {
	n, err := strconv.Atoi(Catch(func() string { return spellOf(q).id(q.GetFirst()) }))
	return n, err == nil
}

func lastID(q *queue.TaskQueue) (int, bool) {
	n, err := strconv.Atoi(Catch(func() string { return spellOf(q).id(q.GetLast()) }))
	return n, err == nil
}

var c05DrainRoutes = []string{"removeLast", "removeFirst", "removeHeadById", "filter", "success"}

// shrink takes tasks out of queue k by one route until at most `left` are left (at most maxOps ops):
// RemoveLast, RemoveFirst, Remove(id of the head), one Filter, or the worker handling the head with
// Success. Every step is an ordinary op line with its observations and oracle lines.
func (s *qset) shrink(k int, route string, left, maxOps int) {
	w := s.ws[k]
	s.c.Note("shrink:" + route)
	for n := 0; n < maxOps && !w.poisoned; n++ {
		l := w.q.Length()
		if l <= left {
			return
		}
		switch route {
		case "removeLast":
			s.op(k, "removeLast", nil, "", nil, nil, nil)
		case "removeFirst":
			s.op(k, "removeFirst", nil, "", nil, nil, nil)
		case "removeHeadById":
			if id, ok := headID(w.q); ok {
				s.op(k, "remove", []int{id}, "", nil, nil, nil)
			} else {
				s.op(k, "removeFirst", nil, "", nil, nil, nil)
			}
		case "filter":
			// keep the ids of the first `left` tasks
			var keep []int
			i := 0
			w.q.Iterate(func(t task.Task) {
				if i < left {
					if id, err := strconv.Atoi(w.sp.id(t)); err == nil {
						keep = append(keep, id)
					}
				}
				i++
			})
			s.op(k, "filter", keep, "", nil, nil, nil)
			return
		case "success":
			if w.cur == "nil" {
				s.op(k, "pick", nil, "", nil, nil, nil)
				if w.cur == "nil" || w.stuck {
					return
				}
			}
			s.op(k, "result", nil, "success", nil, nil, nil)
			if w.stuck {
				return
			}
		}
	}
}

// c05Set: a history over 2..3 live queues that share the task ids 1..4 (and, with a pool, the task
// objects), with whole-queue drains by every removal route followed by refills.
func c05Set(c *Case, rng *Rng) {
	nq := rng.Range(2, 3)
	pool := newTaskPool(rng, PickOne(rng, []int{0, 0, 50}))
	s := &qset{c: c}
	for i := 0; i < nq; i++ {
		w := newWorkerQ(fmt.Sprintf("c05s-%d-%d", c.Idx, i))
		w.pool = pool
		defer w.close()
		s.ws = append(s.ws, w)
	}
	withWorker := rng.Chance(30)
	bias := PickOne(rng, c05DrainRoutes)
	c.Desc = fmt.Sprintf("%d live queues, drains mostly by %s", nq, bias)
	if rng.Chance(33) {
		// one spelling of the ids for all queues of the set (they share the task objects)
		sp := newIdSpell(rng, []int{1, 2, 3, 4, 1, 2, 3, 4, 5, 6, 7, 8}, rng.Range(1, 3))
		for _, w := range s.ws {
			w.setSpell(sp)
		}
		c.Desc += ", " + sp.describe()
		c.Note("ids:odd-spelling")
		if _, ok := sp.from[""]; ok {
			c.Note("ids:empty-string")
		}
	}
	nops := rng.Range(6, 24)
	next := 5
	idOps, drains := 0, 0
	id := func() int { return rng.Range(1, 4) }
	fresh := func() int {
		if rng.Chance(70) {
			next++
			return next
		}
		return id()
	}
	for i := 0; i < nops; i++ {
		k := rng.Intn(nq)
		w := s.ws[k]
		r := rng.Intn(100)
		switch {
		case r < 30:
			s.op(k, "addLast", []int{fresh()}, "", nil, nil, nil)
		case r < 36:
			s.op(k, "addFirst", []int{fresh()}, "", nil, nil, nil)
		case r < 42:
			idOps++
			s.op(k, "addAfter", []int{id(), fresh()}, "", nil, nil, nil)
		case r < 48:
			idOps++
			s.op(k, "addBefore", []int{id(), fresh()}, "", nil, nil, nil)
		case r < 56:
			idOps++
			s.op(k, "remove", []int{id()}, "", nil, nil, nil)
		case r < 61:
			s.op(k, "removeFirst", nil, "", nil, nil, nil)
		case r < 66:
			s.op(k, "removeLast", nil, "", nil, nil, nil)
		case r < 69:
			var keep []int
			for j := 1; j <= next; j++ {
				if rng.Chance(70) {
					keep = append(keep, j)
				}
			}
			s.op(k, "filter", keep, "", nil, nil, nil)
		case r < 72:
			idOps++
			s.op(k, "get", []int{id()}, "", nil, nil, nil)
		case r < 90:
			route := bias
			if rng.Chance(40) {
				route = PickOne(rng, c05DrainRoutes)
			}
			if route == "success" && !withWorker {
				route = "removeHeadById"
			}
			drains++
			s.shrink(k, route, 0, 40)
		default:
			if !withWorker {
				s.op(k, "addLast", []int{id()}, "", nil, nil, nil)
				continue
			}
			if w.cur == "nil" {
				s.op(k, "pick", nil, "", nil, nil, nil)
			} else {
				idOps++
				st := PickOne(rng, []string{"success", "success", "keep", "fail", "repeat"})
				lst := func() []int {
					var l []int
					for j := rng.Intn(3); j > 0; j-- {
						l = append(l, fresh())
					}
					return l
				}
				s.op(k, "result", nil, st, lst(), lst(), lst())
			}
		}
	}
	c.Nontrivial = nops >= 3 && (idOps > 0 || drains > 0)
	c.Note(fmt.Sprintf("set:%d-queues", nq))
}

// c05Burst: one queue that grows to hundreds or thousands of tasks and is drained again, phase by
// phase, every single step observed. The ids of a growth phase are consecutive, so the observations
// stay short (see c05Join). `nominal` is the life of a queue in the operator: a burst of events
// queued at the tail (AddLast, TailTasks of a result), then the worker (Success = removal by id) and
// callers take them out again; the other cases mix every growth and removal route.
func c05Burst(c *Case, rng *Rng, maxPeak int, worker bool) {
	w := newWorkerQ(fmt.Sprintf("c05b-%d", c.Idx))
	defer w.close()
	s := &qset{c: c, ws: []*workerQ{w}}
	q := w.q
	nominal := rng.Chance(50)
	peak := rng.Range(maxPeak*2/5, maxPeak)
	if !nominal && rng.Chance(40) {
		peak = rng.Range(20, maxPeak*2/5)
	}
	next := 0
	budget := 3*peak + 200 // ops
	// a panic inside withLock leaves q.m locked for ever: never touch the queue of a poisoned case again
	qlen := func() int {
		if w.poisoned {
			return 0
		}
		return q.Length()
	}
	grow := func(k int, route string) {
		c.Note("grow:" + route)
		for k > 0 && budget > 0 && !w.poisoned {
			if (w.stuck || !worker) && route == "tailTasks" {
				route = "addLast"
			}
			switch route {
			case "addLast":
				next++
				s.op(0, "addLast", []int{next}, "", nil, nil, nil)
				k--
				budget--
			case "addFirst":
				n := k
				if n > 300 {
					n = 300
				}
				for i := n; i >= 1 && !w.poisoned; i-- {
					s.op(0, "addFirst", []int{next + i}, "", nil, nil, nil)
				}
				next += n
				k -= n
				budget -= n
			case "addAfterLast":
				if w.poisoned {
					return
				}
				if id, ok := lastID(q); ok {
					next++
					s.op(0, "addAfter", []int{id, next}, "", nil, nil, nil)
				} else {
					next++
					s.op(0, "addLast", []int{next}, "", nil, nil, nil)
				}
				k--
				budget--
			case "tailTasks":
				if qlen() == 0 {
					next++
					s.op(0, "addLast", []int{next}, "", nil, nil, nil)
					k--
				}
				if w.cur == "nil" {
					s.op(0, "pick", nil, "", nil, nil, nil)
				}
				if w.cur == "nil" || w.stuck {
					budget--
					continue
				}
				n := rng.Range(1, 400)
				if n > k {
					n = k
				}
				var tl []int
				for i := 0; i < n; i++ {
					next++
					tl = append(tl, next)
				}
				s.op(0, "result", nil, PickOne(rng, []string{"keep", "success"}), nil, nil, tl)
				k -= n
				budget -= 2
			}
		}
	}
	shrink := func(left int, route string) {
		if w.poisoned {
			return
		}
		n := qlen() - left
		if n <= 0 {
			return
		}
		if route == "success" && (w.stuck || !worker) {
			route = "removeHeadById"
		}
		if route == "success" && n > 150 {
			n = 150 // every pick is a round trip through the worker goroutine
		}
		if n > budget {
			n = budget
		}
		if route == "removeRandom" {
			c.Note("shrink:removeRandom")
			if n > 120 {
				n = 120 // every hole splits a run of consecutive ids
			}
			for i := 0; i < n && !w.poisoned; i++ {
				s.op(0, "remove", []int{rng.Range(1, next+1)}, "", nil, nil, nil)
			}
		} else {
			s.shrink(0, route, qlen()-n, n)
		}
		budget -= n
	}
	if nominal {
		c.Desc = fmt.Sprintf("burst of %d tasks queued at the tail, then taken out by the worker and by callers", peak)
		for qlen() < peak && budget > 0 && !w.poisoned {
			k := rng.Range(1, peak)
			if k > peak-qlen() {
				k = peak - qlen()
			}
			grow(k, PickOne(rng, []string{"addLast", "addLast", "tailTasks"}))
		}
		left := rng.Range(0, peak/8)
		for qlen() > left && budget > 0 && !w.poisoned {
			l := qlen() - rng.Range(1, peak)
			if l < left {
				l = left
			}
			shrink(l, PickOne(rng, []string{"removeHeadById", "removeHeadById", "success", "removeLast"}))
		}
		if rng.Chance(50) {
			grow(rng.Range(1, 30), "addLast")
			shrink(0, "removeHeadById")
		}
	} else {
		c.Desc = fmt.Sprintf("queue of up to %d tasks, growth and removal phases by every route", peak)
		for ph := rng.Range(3, 7); ph > 0 && budget > 0 && !w.poisoned; ph-- {
			if l := qlen(); l < peak && (l == 0 || rng.Chance(55)) {
				grow(rng.Range(1, peak-l), PickOne(rng, []string{"addLast", "addLast", "tailTasks", "addFirst", "addAfterLast"}))
			} else {
				shrink(rng.Range(0, l), PickOne(rng, append([]string{"removeRandom"}, c05DrainRoutes...)))
			}
		}
	}
	c.Nontrivial = true
	switch {
	case peak > 2048:
		c.Note("burst:peak>2048")
	case peak > 1024:
		c.Note("burst:peak>1024")
	case peak > 256:
		c.Note("burst:peak>256")
	default:
		c.Note("burst:peak<=256")
	}
	if nominal {
		c.Note("burst:nominal")
	}
}

func runC05(r *Run) {
	r.Rule = "random histories of the public TaskQueue operations (addFirst/addLast/addAfter/addBefore/remove/removeFirst/removeLast/Filter/Get) over ids 1..4 (ids present, absent, duplicated; in a third of the cases 1..3 of the ids are spelled as unusual strings on the real queue - the empty string, blanks, NUL, near-duplicates of other ids, a 300-byte one - and translated back for the protocol; task objects per case always fresh / 40% / always the object used before for the id, plus 'the previous add once more with the very same object'), a set family (2..3 live queues sharing ids and task objects, whole-queue drains by RemoveLast/RemoveFirst/Remove(head id)/Filter/worker Success followed by refills, after every op the items and length of EVERY queue are put to the oracle), a burst family (one queue grown to hundreds..thousands of tasks by AddLast/TailTasks/AddFirst/AddAfter and drained by Remove(id)/worker Success/RemoveLast/RemoveFirst/Filter, every step observed; half of them the operator's pattern tail-burst then worker), a walk (Iterate) parked at its k-th element while Remove is attempted from another goroutine, a queue-dump family (pkg/task/dump over a set of 2..5 queues: per queue the reported length equals the tasks held and listed, the summary adds up), interleaved with worker picks and scripted handler results (Success/Keep/Fail/Repeat with head/after/tail tasks, in half of the results three slices of one backing array with spare capacity) on a real started queue; thorough adds every history of length <= 4 over 2 ids of the slice-level ops (one task object per id). A case is non-trivial when it has >= 3 ops and at least one op addressed an id (addAfter/addBefore/remove/get/result); distinct = distinct op-line sequences."
	// corpus: the minimal failing history of the repaired defect (addAfter with an absent id)
	r.One(0, func(c *Case, _ *Rng) {
		c.Desc = "corpus: addAfter/addBefore with an absent id"
		c.Nontrivial = true
		w := newWorkerQ("c05-corpus-0")
		defer w.close()
		c05Op(c, w, "addLast", []int{1}, "", nil, nil, nil)
		c05Op(c, w, "addAfter", []int{7, 2}, "", nil, nil, nil)
		c05Op(c, w, "addBefore", []int{7, 3}, "", nil, nil, nil)
		c05Op(c, w, "get", []int{1}, "", nil, nil, nil)
	})
	r.One(1, func(c *Case, _ *Rng) {
		c.Desc = "corpus: handled task removed before its result carries AfterTasks"
		c.Nontrivial = true
		w := newWorkerQ("c05-corpus-1")
		defer w.close()
		c05Op(c, w, "addLast", []int{1}, "", nil, nil, nil)
		c05Op(c, w, "addLast", []int{2}, "", nil, nil, nil)
		c05Op(c, w, "pick", nil, "", nil, nil, nil)
		c05Op(c, w, "remove", []int{1}, "", nil, nil, nil)
		c05Op(c, w, "result", nil, "success", []int{3}, []int{4}, []int{5})
		c05Op(c, w, "get", []int{2}, "", nil, nil, nil)
	})
	r.One(2, func(c *Case, _ *Rng) {
		c.Desc = "corpus: a walk over the queue parked at its third element while an earlier task is removed"
		c.Nontrivial = true
		w := newWorkerQ("c05-corpus-2")
		defer w.close()
		for i := 1; i <= 5; i++ {
			c05Op(c, w, "addLast", []int{i}, "", nil, nil, nil)
		}
		c05Op(c, w, "iterRemove", []int{2, 2}, "", nil, nil, nil)
		c05Op(c, w, "iterRemove", []int{0, 5}, "", nil, nil, nil)
		c05Op(c, w, "iterRemove", []int{7, 1}, "", nil, nil, nil)
	})
	r.One(3, func(c *Case, _ *Rng) {
		c.Desc = "corpus: head, after and tail tasks of a result are slices of one backing array"
		c.Nontrivial = true
		w := newWorkerQ("c05-corpus-3")
		defer w.close()
		for i := 1; i <= 3; i++ {
			c05Op(c, w, "addLast", []int{i}, "", nil, nil, nil)
		}
		c05Op(c, w, "pick", nil, "", nil, nil, nil)
		c05Op(c, w, "result", []int{1}, "success", []int{11, 12}, []int{13}, []int{14, 15})
		c05Op(c, w, "pick", nil, "", nil, nil, nil)
		c05Op(c, w, "result", []int{1}, "keep", []int{21, 22}, nil, []int{24, 25})
	})
	r.One(4, func(c *Case, _ *Rng) {
		c.Desc = "corpus: the very same task object added twice in a row (tail, head, after, before, tail tasks of a result)"
		c.Nontrivial = true
		w := newWorkerQ("c05-corpus-4")
		defer w.close()
		w.pool = newTaskPool(nil, 0)
		w.pool.force = true
		for _, o := range []struct {
			op   string
			args []int
		}{{"addLast", []int{1}}, {"addLast", []int{1}}, {"addFirst", []int{2}}, {"addFirst", []int{2}},
			{"addAfter", []int{1, 3}}, {"addAfter", []int{1, 3}}, {"addBefore", []int{1, 3}}, {"addLast", []int{1}}, {"addLast", []int{1}}} {
			c05Op(c, w, o.op, o.args, "", nil, nil, nil)
		}
		c05Op(c, w, "pick", nil, "", nil, nil, nil)
		c05Op(c, w, "result", nil, "keep", []int{2, 2}, []int{4, 4}, []int{1, 1})
	})
	r.One(5, func(c *Case, _ *Rng) {
		c.Desc = "corpus: two live queues, each drained by every removal route and refilled"
		c.Nontrivial = true
		s := &qset{c: c}
		for i := 0; i < 2; i++ {
			w := newWorkerQ(fmt.Sprintf("c05-corpus-5-%d", i))
			defer w.close()
			s.ws = append(s.ws, w)
		}
		next := 0
		for _, route := range c05DrainRoutes {
			for k := 0; k < 2; k++ {
				next++
				s.op(k, "addLast", []int{next}, "", nil, nil, nil)
			}
			for k := 0; k < 2; k++ {
				s.shrink(k, route, 0, 4)
			}
			for k := 0; k < 2; k++ {
				for j := 0; j < 2; j++ {
					next++
					s.op(k, "addLast", []int{next}, "", nil, nil, nil)
				}
			}
			for k := 0; k < 2; k++ {
				s.shrink(k, route, 0, 4)
			}
		}
	})
	r.One(6, func(c *Case, _ *Rng) {
		c.Desc = "corpus: a task whose id is the empty string (a BaseTask built without Id) is found, removed by id and removed by the worker like any other"
		c.Nontrivial = true
		w := newWorkerQ("c05-corpus-6")
		defer w.close()
		w.setSpell(&idSpell{to: map[int]string{2: "", 4: " "}, from: map[string]int{"": 2, " ": 4}})
		c.Note("ids:odd-spelling")
		c.Note("ids:empty-string")
		c05Op(c, w, "remove", []int{2}, "", nil, nil, nil)
		c05Op(c, w, "addLast", []int{1}, "", nil, nil, nil)
		c05Op(c, w, "addLast", []int{2}, "", nil, nil, nil)
		c05Op(c, w, "addAfter", []int{2, 3}, "", nil, nil, nil)
		c05Op(c, w, "addBefore", []int{2, 4}, "", nil, nil, nil)
		c05Op(c, w, "get", []int{2}, "", nil, nil, nil)
		c05Op(c, w, "remove", []int{2}, "", nil, nil, nil)
		c05Op(c, w, "remove", []int{4}, "", nil, nil, nil)
		c05Op(c, w, "addFirst", []int{2}, "", nil, nil, nil)
		c05Op(c, w, "pick", nil, "", nil, nil, nil)
		c05Op(c, w, "result", nil, "success", nil, []int{5}, []int{6})
		c05Op(c, w, "pick", nil, "", nil, nil, nil)
		c05Op(c, w, "result", nil, "success", nil, nil, nil)
	})
	r.Cases(500000, r.N(60, 600), 0, c05Dump)
	r.Cases(600000, r.N(1200, 8000), 0, c05Set)
	maxPeak := r.N(2600, 4500)
	ct := r.CaseTimeout
	r.CaseTimeout = 4 * time.Minute // thousands of observed steps per case; the machine may be loaded
	// callers only (AddLast/AddFirst/AddAfter, Remove/RemoveLast/RemoveFirst/Filter), in parallel …
	r.Cases(700000, r.N(16, 32), 0, func(c *Case, rng *Rng) { c05Burst(c, rng, maxPeak, false) })
	// … and with the real worker (TailTasks of results, Success), one case at a time: a panic in the
	// queue's own goroutine takes the process down, the supervisor then has exactly one case to blame
	r.Cases(710000, r.N(4, 8), 1, func(c *Case, rng *Rng) { c05Burst(c, rng, maxPeak, true) })
	r.CaseTimeout = ct
	n := r.N(3000, 40000)
	r.Cases(10, n, 0, func(c *Case, rng *Rng) {
		w := newWorkerQ(fmt.Sprintf("c05-%d", c.Idx))
		defer w.close()
		// task objects: always fresh / sometimes / whenever possible the object used before for the id
		w.pool = newTaskPool(rng, PickOne(rng, []int{0, 0, 40, 100}))
		c.Note(fmt.Sprintf("objects:reuse%d%%", w.pool.pct))
		// the spelling of the ids: in a third of the cases 1..3 of the ids 1..7 are unusual strings
		if rng.Chance(33) {
			w.setSpell(newIdSpell(rng, []int{1, 2, 3, 4, 1, 2, 3, 4, 5, 6, 7}, rng.Range(1, 3)))
			c.Desc = w.sp.describe()
			c.Note("ids:odd-spelling")
			if _, ok := w.sp.from[""]; ok {
				c.Note("ids:empty-string")
			}
		}
		var lastAdd struct {
			op   string
			args []int
		}
		withWorker := rng.Chance(40)
		nops := rng.Range(2, 14)
		idOps := 0
		next := 5
		for i := 0; i < nops; i++ {
			id := func() int { return rng.Range(1, 4) }
			fresh := func() int {
				if rng.Chance(70) {
					next++
					return next
				}
				return id()
			}
			k := rng.Intn(106)
			add := func(op string, args []int) {
				lastAdd.op, lastAdd.args = op, args
				c05Op(c, w, op, args, "", nil, nil, nil)
			}
			switch {
			case k >= 100:
				// the previous add once more, with the very same task object
				if lastAdd.op == "" {
					add("addLast", []int{id()})
					continue
				}
				w.pool.force = true
				c05Op(c, w, lastAdd.op, lastAdd.args, "", nil, nil, nil)
				w.pool.force = false
				c.Note("op:same-object-again")
			case k < 14:
				add("addFirst", []int{fresh()})
			case k < 30:
				add("addLast", []int{id()})
			case k < 42:
				idOps++
				add("addAfter", []int{id(), fresh()})
			case k < 54:
				idOps++
				add("addBefore", []int{id(), fresh()})
			case k < 62:
				idOps++
				c05Op(c, w, "remove", []int{id()}, "", nil, nil, nil)
			case k < 66:
				c05Op(c, w, "removeFirst", nil, "", nil, nil, nil)
			case k < 70:
				c05Op(c, w, "removeLast", nil, "", nil, nil, nil)
			case k < 76:
				var keep []int
				for j := 1; j <= next; j++ {
					if rng.Chance(70) {
						keep = append(keep, j)
					}
				}
				c05Op(c, w, "filter", keep, "", nil, nil, nil)
			case k < 80:
				idOps++
				c05Op(c, w, "get", []int{id()}, "", nil, nil, nil)
			case k < 83:
				idOps++
				c05Op(c, w, "iterRemove", []int{rng.Intn(4), id()}, "", nil, nil, nil)
			default:
				if !withWorker {
					add("addLast", []int{fresh()})
					continue
				}
				if w.cur == "nil" {
					c05Op(c, w, "pick", nil, "", nil, nil, nil)
				} else {
					idOps++
					st := PickOne(rng, []string{"success", "success", "keep", "fail", "repeat"})
					lst := func() []int {
						var l []int
						for j := rng.Intn(3); j > 0; j-- {
							l = append(l, fresh())
						}
						return l
					}
					var shared []int
					if rng.Chance(50) {
						shared = []int{1}
					}
					c05Op(c, w, "result", shared, st, lst(), lst(), lst())
				}
			}
		}
		c.Nontrivial = nops >= 3 && idOps > 0
		if withWorker {
			c.Note("case:worker")
		} else {
			c.Note("case:plain")
		}
	})
	if r.Thorough() {
		// exhaustive small scope: every history of length <= 4 over ids {1,2} of the slice-level ops
		type op struct {
			name string
			args []int
		}
		var alphabet []op
		for _, i := range []int{1, 2} {
			alphabet = append(alphabet, op{"addFirst", []int{i}}, op{"addLast", []int{i}}, op{"remove", []int{i}})
			for _, j := range []int{1, 2} {
				alphabet = append(alphabet, op{"addAfter", []int{i, j}}, op{"addBefore", []int{i, j}})
			}
		}
		alphabet = append(alphabet, op{"removeFirst", nil}, op{"removeLast", nil}, op{"filter", []int{1}})
		total := 0
		for l, p := 1, len(alphabet); l <= 4; l++ {
			total += p
			p *= len(alphabet)
		}
		A := len(alphabet)
		r.Cases(1000000, total, 0, func(c *Case, _ *Rng) {
			k := c.Idx - 1000000
			l := 1
			for p := A; k >= p; p *= A {
				k -= p
				l++
			}
			w := newWorkerQ(fmt.Sprintf("c05x-%d", c.Idx))
			defer w.close()
			// one task object per id: a repeated id is the very same object again
			w.pool = newTaskPool(nil, 0)
			w.pool.force = true
			var names []string
			for i := 0; i < l; i++ {
				o := alphabet[k%A]
				k /= A
				c05Op(c, w, o.name, o.args, "", nil, nil, nil)
				names = append(names, o.name)
			}
			c.Nontrivial = l >= 3 && strings.Contains(strings.Join(names, " "), "add")
		})
		r.Exhaust = true
		r.Extra["exhaustive_scope"] = fmt.Sprintf("all %d histories of length<=4 over %d slice-level ops on ids {1,2}", total, A)
	}
}
