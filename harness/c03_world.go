package main

// Shared by the C03 and C17 suites: a real TaskQueueSet with real started TaskQueue workers, the real
// ManagerEventsHandler as the consumer, the real ScheduleManager; every worker is stepped from one
// verifsched yield point to the next, so the real code executes exactly the schedule the harness
// (and the Lean model, reading the same op lines) executes.

import (
	"context"
	"fmt"
	"strconv"
	"strings"
	"sync"
	"sync/atomic"
	"time"

	"github.com/deckhouse/deckhouse/pkg/log"

	kubeeventsmanager "github.com/flant/shell-operator/pkg/kube_events_manager"
	kemtypes "github.com/flant/shell-operator/pkg/kube_events_manager/types"
	"github.com/flant/shell-operator/pkg/metric"
	schedulemanager "github.com/flant/shell-operator/pkg/schedule_manager"
	shell_operator "github.com/flant/shell-operator/pkg/shell-operator"
	"github.com/flant/shell-operator/pkg/task"
	"github.com/flant/shell-operator/pkg/task/queue"
	"github.com/flant/shell-operator/pkg/utils/verifsched"
)

// fakeKem is a KubeEventsManager whose only live part is the event channel.
type fakeKem struct {
	ch     chan kemtypes.KubeEvent
	paused bool
}

func (f *fakeKem) WithMetricStorage(metric.Storage)                       {}
func (f *fakeKem) AddMonitor(*kubeeventsmanager.MonitorConfig) error      { return nil }
func (f *fakeKem) HasMonitor(string) bool                                 { return false }
func (f *fakeKem) GetMonitor(string) kubeeventsmanager.Monitor            { return nil }
func (f *fakeKem) StartMonitor(string)                                    {}
func (f *fakeKem) StopMonitor(string) error                               { return nil }
func (f *fakeKem) Ch() chan kemtypes.KubeEvent                            { return f.ch }
func (f *fakeKem) PauseHandleEvents()                                     { f.paused = true }

type pickInfo struct{ id, head string }

type wq struct {
	n       int
	name    string
	q       *queue.TaskQueue
	arrive  <-chan *verifsched.Arrival
	parked  *verifsched.Arrival
	at      string // "-", loop, afterCheck, beforeSelect, tick, run:<t>, afterHandler, exit
	extra   []string
	picked  chan pickInfo
	result  chan queue.TaskResult
	started bool
	cur     string
}

type world struct {
	c       *Case
	prefix  string
	tqs     *queue.TaskQueueSet
	cancel  context.CancelFunc
	meh     *shell_operator.ManagerEventsHandler
	kem     *fakeKem
	sm      schedulemanager.ScheduleManager
	qs      map[int]*wq
	order   []int
	trace   []string
	mu      sync.Mutex
	pending map[string][]task.Task
	barrier map[string]chan struct{}
	evSeq   int
	stopped bool
	bad     string
}

const wStepTimeout = 6 * time.Second

// hangs counts cases in which the implementation stopped responding; after a few of them the rest of
// the suite is skipped (each would only wait for its timeouts): the hanging cases are the finding.
var hangs atomic.Int64

func tooManyHangs(c *Case) bool {
	if hangs.Load() >= 3 {
		c.Inconcl = "skipped: the implementation already hung in 3 cases of this run"
		return true
	}
	return false
}

func newWorld(c *Case, prefix string) *world {
	w := &world{c: c, prefix: prefix, qs: map[int]*wq{}, pending: map[string][]task.Task{}, barrier: map[string]chan struct{}{}}
	ctx, cancel := context.WithCancel(context.Background())
	w.cancel = cancel
	w.tqs = queue.NewTaskQueueSet()
	w.tqs.WithMainName(prefix + "-1")
	w.tqs.WithContext(ctx)
	w.kem = &fakeKem{ch: make(chan kemtypes.KubeEvent, 1)}
	w.sm = schedulemanager.NewScheduleManager(ctx, log.NewNop())
	w.meh = shell_operator.VerifNewManagerEventsHandler(ctx, w.tqs, w.kem, w.sm)
	cb := func(key string) []task.Task {
		w.mu.Lock()
		defer w.mu.Unlock()
		if ch, ok := w.barrier[key]; ok {
			close(ch)
			delete(w.barrier, key)
		}
		return w.pending[key]
	}
	w.meh.WithKubeEventHandler(func(ev kemtypes.KubeEvent) []task.Task { return cb(ev.MonitorId) })
	w.meh.WithScheduleEventHandler(func(crontab string) []task.Task { return cb(crontab) })
	w.meh.Start()
	return w
}

func (w *world) close() {
	for _, n := range w.order {
		sched.Unsubscribe(w.qs[n].name)
	}
	w.cancel()
	for _, n := range w.order {
		q := w.qs[n]
		if q.parked != nil {
			q.parked.Release()
			q.parked = nil
		}
		if q.cur != "" {
			select {
			case q.result <- queue.TaskResult{Status: queue.Keep}:
			case <-time.After(time.Second):
			}
		}
	}
	deadline := time.After(50 * time.Millisecond)
	for {
		progressed := false
		for _, n := range w.order {
			q := w.qs[n]
			select {
			case a := <-q.arrive:
				a.Release()
				progressed = true
			case <-q.picked:
				select {
				case q.result <- queue.TaskResult{Status: queue.Keep}:
				case <-time.After(time.Second):
				}
				progressed = true
			default:
			}
		}
		if !progressed {
			select {
			case <-deadline:
				return
			case <-time.After(2 * time.Millisecond):
			}
		}
	}
}

func canonStatus(s string) string {
	switch {
	case s == "":
		return "idle"
	case s == "stop":
		return "stop"
	case s == "run first task":
		return "run"
	case s == "no handler set":
		return "nohandler"
	case strings.Contains(s, " left of "):
		return "delayleft"
	case strings.HasPrefix(s, "sleep after fail for"):
		return "sleepfail"
	case s == "repeat head task":
		return "repeat"
	case strings.HasPrefix(s, "sleep for"):
		return "sleepfor"
	case strings.HasPrefix(s, "waiting for task"):
		return "waiting"
	}
	return "other:" + strings.ReplaceAll(s, " ", "_")
}

func itemsOf(q *queue.TaskQueue) string {
	var ids []string
	q.Iterate(func(t task.Task) { ids = append(ids, taskID(t)) })
	return joinStrs(ids)
}

func (w *world) obs() string {
	if w.bad != "" {
		return "hang" // the implementation stopped responding: its locks may be held for ever
	}
	if len(w.order) == 0 {
		return "empty"
	}
	var parts []string
	for _, n := range w.order {
		q := w.qs[n]
		at := q.at
		if len(q.extra) > 0 {
			at += "+" + strings.Join(q.extra, "+")
		}
		parts = append(parts, fmt.Sprintf("%d[items=%s st=%s at=%s]", n, itemsOf(q.q), canonStatus(q.q.GetStatus()), at))
	}
	return strings.Join(parts, " ")
}

func (w *world) ev(e string) { w.trace = append(w.trace, e) }

func (w *world) traceStr() string { return joinStrs(w.trace) }

func (w *world) names() string { return joinInts(w.order) }

var pointLetter = map[string]string{"queue.loop": "L", "queue.wait.afterCtxCheck": "A",
	"queue.wait.beforeSelect": "B", "queue.wait.tick": "T", "queue.afterHandler": "F"}
var pointAt = map[string]string{"queue.loop": "loop", "queue.wait.afterCtxCheck": "afterCheck",
	"queue.wait.beforeSelect": "beforeSelect", "queue.wait.tick": "tick", "queue.afterHandler": "afterHandler"}

// opNew: NewNamedQueue (the real TaskQueueSet method), shortened timings, handler scripted by the harness.
func (w *world) opNew(n int, withHandler bool) {
	if w.bad != "" {
		return
	}
	name := fmt.Sprintf("%s-%d", w.prefix, n)
	q := &wq{n: n, name: name, at: "-", picked: make(chan pickInfo, 4), result: make(chan queue.TaskResult)}
	var h func(task.Task) queue.TaskResult
	if withHandler {
		h = func(t task.Task) queue.TaskResult {
			q.picked <- pickInfo{taskID(t), taskID(q.q.GetFirst())}
			return <-q.result
		}
	}
	w.tqs.NewNamedQueue(name, h)
	q.q = w.tqs.GetByName(name)
	q.q.WaitLoopCheckInterval = time.Millisecond
	q.q.DelayOnQueueIsEmpty = time.Millisecond
	q.q.DelayOnRepeat = time.Millisecond
	q.arrive = sched.Subscribe(name)
	w.qs[n] = q
	w.order = append(w.order, n)
	line := fmt.Sprintf("new %d", n)
	if !withHandler {
		line += " nohandler"
	}
	w.c.Op(line, w.obs())
}

// await waits for the next observable position of q's worker: a yield point, the handler, or exit.
func (w *world) await(q *wq) string {
	// the status is polled from a helper goroutine: a deadlocked implementation may hold q.m for ever
	stopPoll := make(chan struct{})
	exitCh := make(chan struct{}, 1)
	go func() {
		for {
			select {
			case <-stopPoll:
				return
			default:
			}
			if q.q.GetStatus() == "stop" {
				exitCh <- struct{}{}
				return
			}
			time.Sleep(time.Millisecond)
		}
	}()
	defer close(stopPoll)
	deadline := time.After(wStepTimeout)
	for {
		select {
		case a := <-q.arrive:
			q.parked = a
			q.at = pointAt[a.Name]
			if q.at == "" {
				q.at = "point:" + a.Name
			}
			w.ev(fmt.Sprintf("p%d:%s", q.n, pointLetter[a.Name]))
			return q.at
		case p := <-q.picked:
			q.cur = p.id
			q.at = "run:" + p.id
			w.ev(fmt.Sprintf("s%d:%s:%s", q.n, p.id, p.head))
			return q.at
		case <-exitCh:
			q.at = "exit"
			w.ev(fmt.Sprintf("x%d", q.n))
			return q.at
		case <-deadline:
			q.at = "timeout"
			w.bad = "timeout"
			hangs.Add(1)
			return q.at
		}
	}
}

// opStart: one Start() call from the harness goroutine (the single caller thread).
func (w *world) opStart(n int) {
	if w.bad != "" {
		return
	}
	q := w.qs[n]
	first := !q.started && q.q.Handler != nil
	q.q.Start()
	if first {
		q.started = true
		w.await(q)
	} else {
		// a repeated Start() must not spawn a second worker: give one a chance to show up
		select {
		case a := <-q.arrive:
			q.extra = append(q.extra, pointAt[a.Name])
			w.ev(fmt.Sprintf("p%d:%s", q.n, pointLetter[a.Name]))
			a.Release()
		case <-time.After(15 * time.Millisecond):
		}
	}
	w.c.Op(fmt.Sprintf("start %d", n), w.obs())
}

func (w *world) release(q *wq) {
	if q.parked != nil {
		q.parked.Release()
		q.parked = nil
	}
}

// opGo: from loop / afterCheck / afterHandler to the next observable position.
func (w *world) opGo(n int) {
	if w.bad != "" {
		return
	}
	q := w.qs[n]
	w.release(q)
	w.await(q)
	w.c.Op(fmt.Sprintf("go %d", n), w.obs())
}

// opSel: release the worker parked before the select; which branch the real select took is read off
// the next position (tick point = ticker branch, exit = Done branch) and becomes part of the op line.
func (w *world) opSel(n int, bothReady bool) string {
	if w.bad != "" {
		return "done"
	}
	q := w.qs[n]
	if bothReady {
		time.Sleep(4 * time.Millisecond) // let the ticker channel fill while the worker is parked
	}
	w.release(q)
	at := w.await(q)
	br := "done"
	if at == "tick" {
		br = "tick"
	}
	w.c.Op(fmt.Sprintf("sel %d %s", n, br), w.obs())
	return br
}

// opTickGo: from the tick point on; whether the wait had expired is read off what happens next.
func (w *world) opTickGo(n int) {
	if w.bad != "" {
		return
	}
	q := w.qs[n]
	w.release(q)
	at := w.await(q)
	e := 0
	if strings.HasPrefix(at, "run:") {
		e = 1
	}
	w.c.Op(fmt.Sprintf("tgo %d %d", n, e), w.obs())
}

type wResult struct {
	status          string
	head, after, tl []int
	delayMs, backMs int
}

func (w *world) mkTasks(n int, ids []int) []task.Task {
	var ts []task.Task
	for _, i := range ids {
		ts = append(ts, mkTask(i).(*task.BaseTask).WithQueueName(w.qs[n].name))
	}
	return ts
}

// opRet: the handler of q returns the scripted result.
func (w *world) opRet(n int, r wResult) {
	if w.bad != "" {
		return
	}
	q := w.qs[n]
	status := map[string]queue.TaskStatus{"success": queue.Success, "fail": queue.Fail,
		"repeat": queue.Repeat, "keep": queue.Keep}[r.status]
	back := time.Duration(r.backMs) * time.Millisecond
	q.q.ExponentialBackoffFn = func(int) time.Duration { return back }
	res := queue.TaskResult{Status: status, HeadTasks: w.mkTasks(n, r.head), AfterTasks: w.mkTasks(n, r.after),
		TailTasks: w.mkTasks(n, r.tl), DelayBeforeNextTask: time.Duration(r.delayMs) * time.Millisecond}
	id := q.cur
	select {
	case q.result <- res:
	case <-time.After(wStepTimeout):
		w.bad = "timeout"
	}
	q.cur = ""
	w.ev(fmt.Sprintf("f%d:%s", n, id))
	w.await(q)
	w.c.Op(fmt.Sprintf("ret %d %s h=%s a=%s t=%s d=%d b=%d", n, r.status, joinInts(r.head), joinInts(r.after),
		joinInts(r.tl), r.delayMs, r.backMs), w.obs())
}

// opFilter: what combineBindingContextForHook does from inside the handler: Filter on the own queue,
// keeping the handled task.
func (w *world) opFilter(n int, keep []int) {
	if w.bad != "" {
		return
	}
	q := w.qs[n]
	ks := map[string]bool{q.cur: true}
	for _, k := range keep {
		ks[strconv.Itoa(k)] = true
	}
	// Filter has a yield point of its own (inside the queue lock) with the queue's key: let it through
	fdone := make(chan struct{})
	go func() {
		defer close(fdone)
		w.tqs.GetByName(q.name).Filter(func(t task.Task) bool { return ks[taskID(t)] })
	}()
	for waiting := true; waiting; {
		select {
		case a := <-q.arrive:
			a.Release()
		case <-fdone:
			waiting = false
		case <-time.After(20 * time.Second):
			w.bad = "hang"
			w.c.Op(fmt.Sprintf("filter %d %s", n, joinInts(keep)), "hang")
			return
		}
	}
	w.c.Op(fmt.Sprintf("filter %d %s", n, joinInts(keep)), w.obs())
}

// opCancelDelay: the real CancelTaskDelay (cuts a back-off or an empty-queue wait short).
func (w *world) opCancelDelay(n int) {
	if w.bad != "" {
		return
	}
	w.qs[n].q.CancelTaskDelay()
	w.c.Op(fmt.Sprintf("cancelDelay %d", n), w.obs())
}

type delivery struct{ q, t int }

// opDeliver sends one event through the real ManagerEventsHandler (schedule channel or kube channel);
// its callback answers with the scripted tasks; a barrier event tells when the consumer is done with it.
func (w *world) opDeliver(ts []delivery, viaKube bool, opName string) {
	if w.bad != "" {
		return
	}
	var tasks []task.Task
	var parts []string
	before := map[int]string{}
	for _, n := range w.order {
		before[n] = itemsOf(w.qs[n].q)
	}
	for _, d := range ts {
		name := fmt.Sprintf("%s-%d", w.prefix, d.q) // the queue may not exist
		tasks = append(tasks, mkTask(d.t).(*task.BaseTask).WithQueueName(name))
		parts = append(parts, fmt.Sprintf("%d:%d", d.q, d.t))
	}
	w.mu.Lock()
	w.evSeq++
	key := fmt.Sprintf("ev-%d", w.evSeq)
	w.pending[key] = tasks
	// barrier: the consumer is one goroutine; when it asks for the tasks of the next event, the
	// DoWithLock of the previous one is over
	w.evSeq++
	bkey := fmt.Sprintf("ev-%d", w.evSeq)
	done := make(chan struct{})
	w.barrier[bkey] = done
	w.mu.Unlock()
	send := func(k string) bool {
		if viaKube {
			select {
			case w.kem.ch <- kemtypes.KubeEvent{MonitorId: k}:
				return true
			case <-time.After(wStepTimeout):
				return false
			}
		}
		select {
		case w.sm.Ch() <- k:
			return true
		case <-time.After(wStepTimeout):
			return false
		}
	}
	if !send(key) {
		w.bad = "timeout"
	}
	if !send(bkey) {
		w.bad = "timeout"
	}
	select {
	case <-done:
	case <-time.After(wStepTimeout):
		w.bad = "timeout"
	}
	if w.bad != "" {
		hangs.Add(1)
		w.c.Op(opName+" "+joinStrs(parts), "hang")
		return
	}
	for _, d := range ts {
		if _, ok := w.qs[d.q]; ok {
			w.ev(fmt.Sprintf("r%d:%d", d.q, d.t))
		} else {
			w.ev(fmt.Sprintf("d%d:%d", d.q, d.t))
		}
	}
	w.c.Op(opName+" "+joinStrs(parts), w.obs())
	for _, n := range w.order {
		w.c.Oracle(fmt.Sprintf("routing q=%d before=%s ts=%s after=%s", n, before[n], joinStrs(parts), itemsOf(w.qs[n].q)))
	}
}

// opStop: the real TaskQueueSet.Stop().
func (w *world) opStop() {
	if w.bad != "" {
		return
	}
	w.tqs.Stop()
	if !w.stopped {
		w.ev("S")
	}
	w.stopped = true
	w.c.Op("stop", w.obs())
}

func (w *world) oracleLog() {
	if w.bad != "" {
		w.c.Op("harness-timeout", "hang")
		return
	}
	w.c.Op("log", w.traceStr())
	w.c.Oracle(fmt.Sprintf("log q=%s ev=%s", w.names(), w.traceStr()))
}

// drain steps every worker until it is inside a handler, gone, or (without a stop request) waiting on
// an empty queue; handlers are answered with `res`. Bounded.
func (w *world) drain(res func(n int, id string) wResult, maxSteps int) {
	for i := 0; i < maxSteps; i++ {
		progressed := false
		for _, n := range w.order {
			q := w.qs[n]
			switch {
			case q.at == "loop" || q.at == "afterCheck" || q.at == "afterHandler":
				w.opGo(n)
				progressed = true
			case q.at == "beforeSelect":
				if w.stopped || q.q.Length() > 0 {
					w.opSel(n, false)
					progressed = true
				}
			case q.at == "tick":
				w.opTickGo(n)
				progressed = true
			case strings.HasPrefix(q.at, "run:"):
				w.opRet(n, res(n, q.cur))
				progressed = true
			}
			if w.bad != "" {
				return
			}
		}
		if !progressed {
			return
		}
	}
}
