package main

// C02, several bindings over one cluster: the resource informers of different monitors (bindings of
// one hook, of different hooks, a restarted binding) with the same kind / namespace / label / field
// selector are served by ONE process-wide shared informer (DefaultFactoryStore). The property
// quantifies over all configurations and all histories ("namespaces deleted", "objects moving
// between static and dynamic namespaces"): a binding's snapshot must keep following the cluster
// whatever its siblings do — start later, stop (StopMonitor), lose a namespace.

import (
	"context"
	"fmt"
	"strings"
	"time"

	"github.com/deckhouse/deckhouse/pkg/log"

	kem "github.com/flant/shell-operator/pkg/kube_events_manager"
	metricstorage "github.com/flant/shell-operator/pkg/metric_storage"
)

// c02SiblingSpec: a binding over the same kind whose selectors mostly agree with base (so that
// informers of both fall on the same factory index) while the namespace scope varies.
func c02SiblingSpec(rng *Rng, base c02MonSpec, id int) c02MonSpec {
	s := base
	s.id = id
	if rng.Chance(25) {
		return s // an equal binding (another hook with the same binding, a restart)
	}
	s.keep, s.flt = rng.Bool(), rng.Intn(3)
	s.nss, s.nsSel = nil, false
	switch rng.Intn(7) {
	case 0: // whole cluster
	case 1, 2, 3: // static namespaces
		s.nss = c02PickList(rng, 3)
	case 4, 5: // namespace label selector
		s.nsSel = true
	case 6:
		s.nsSel = true
		s.nss = c02PickList(rng, 2)
	}
	if rng.Chance(15) {
		s.lblSel = !s.lblSel
	}
	if rng.Chance(15) {
		s.names = nil
		if rng.Bool() {
			s.names = c02PickList(rng, 2)
		}
	}
	return s
}

type c02Multi struct {
	e      *c02Env
	h      *c02Hist
	rng    *Rng
	base   c02MonSpec
	shared kem.KubeEventsManager
	nextID int
	active []*c02Mon

	stops, sharedStops, sharedLeaves, joins int
	sawShared                               bool
}

// indexUsers: factory index -> monitors (by position in active) that hold an informer on it,
// and the ids of the varying informers on an index that another monitor uses too.
func (x *c02Multi) sharing() (byMon []map[kem.FactoryIndex]bool, sharedVarying map[string]bool) {
	users := map[kem.FactoryIndex]map[int]bool{}
	for i, m := range x.active {
		set := map[kem.FactoryIndex]bool{}
		for _, inf := range kem.VerifC02Describe(m.mgr.GetMonitor(m.id)) {
			set[inf.Index] = true
			if users[inf.Index] == nil {
				users[inf.Index] = map[int]bool{}
			}
			users[inf.Index][i] = true
		}
		byMon = append(byMon, set)
	}
	sharedVarying = map[string]bool{}
	for _, m := range x.active {
		for _, inf := range kem.VerifC02Describe(m.mgr.GetMonitor(m.id)) {
			if len(users[inf.Index]) >= 2 {
				x.sawShared = true
				if inf.Varying {
					sharedVarying[inf.ID] = true
				}
			}
		}
	}
	return byMon, sharedVarying
}

func (x *c02Multi) spawn() bool {
	e := x.e
	x.nextID++
	spec := x.base
	spec.id = x.nextID
	if x.nextID > 1 {
		spec = c02SiblingSpec(x.rng, x.base, x.nextID)
	}
	var m *c02Mon
	if x.shared != nil && x.rng.Chance(60) {
		m = e.newMonOn(spec, x.shared)
	} else {
		m = e.newMon(spec)
	}
	if !e.add(m) {
		m.cancel()
		return false
	}
	e.start(m)
	x.active = append(x.active, m)
	e.setActive(x.active)
	x.joins++
	return true
}

// stopOne stops a random live monitor and waits (bounded, nothing is asserted) until its handlers
// have left the shared informers, so that what follows is the history "after the sibling left".
func (x *c02Multi) stopOne() {
	e := x.e
	i := x.rng.Intn(len(x.active))
	m := x.active[i]
	byMon, _ := x.sharing()
	for j := range x.active {
		if j == i {
			continue
		}
		for idx := range byMon[i] {
			if byMon[j][idx] {
				x.sharedStops++
			}
		}
	}
	mon := m.mgr.GetMonitor(m.id)
	_ = m.mgr.StopMonitor(m.id)
	e.c.Op(fmt.Sprintf("stop %d", m.spec.id), "ok")
	x.stops++
	x.active = append(append([]*c02Mon{}, x.active[:i]...), x.active[i+1:]...)
	e.setActive(x.active)
	deadline := time.Now().Add(5 * time.Second)
	for time.Now().Before(deadline) {
		left := false
		for _, inf := range kem.VerifC02Describe(mon) {
			if inf.Registered {
				left = true
			}
		}
		if !left {
			break
		}
		time.Sleep(time.Millisecond)
	}
	m.cancel()
}

func (x *c02Multi) snapAll() bool {
	for _, m := range x.active {
		if !x.e.snap(m) {
			return false
		}
	}
	return true
}

func c02MultiCase(c *Case, rng *Rng) {
	rng = NewRng(rng.U64() ^ 0x2545f491) // the lib derives neighbouring cases from shifted copies of one stream
	kem.DefaultSyncTime = time.Millisecond
	e := &c02Env{c: c, cl: newC02Cluster(c.Idx)}
	defer e.setActive(nil)
	c.Op(c02RidLine(), "ok")
	h := &c02Hist{e: e, rng: rng, deleted: map[c02Key]bool{}}
	x := &c02Multi{e: e, h: h, rng: rng, base: c02RandSpec(rng, 1)}
	h.seedWorld(x.base.kind)
	if rng.Chance(70) {
		ctx, cancel := context.WithCancel(context.Background())
		defer cancel()
		x.shared = kem.NewKubeEventsManager(ctx, e.cl.fc.Client, log.NewNop())
		x.shared.WithMetricStorage(metricstorage.NewMetricStorage(ctx, "c02m_", true, log.NewNop()))
	}
	defer func() {
		for _, m := range x.active {
			e.stop(m)
		}
	}()
	ok := true
	for i := rng.Range(2, 3); ok && i > 0; i-- {
		ok = x.spawn() && x.snapAll()
	}
	changesAfterLeave := 0
	for step := rng.Range(5, 10); ok && step > 0; step-- {
		r := rng.Intn(100)
		var held *c02Held
		switch {
		case r < 22 && len(x.active) >= 2:
			x.stopOne()
		case r < 32 && x.nextID < 5:
			ok = x.spawn()
		default:
			if len(x.active) > 0 && rng.Chance(40) {
				held = e.hold(x.active[rng.Intn(len(x.active))])
			}
			_, before := x.sharing()
			for j := rng.Range(1, 3); j > 0; j-- {
				h.randomOp(x.base.kind, false)
			}
			if x.stops+x.sharedLeaves > 0 {
				changesAfterLeave++
			}
			still := map[string]bool{}
			for _, m := range x.active {
				for _, inf := range kem.VerifC02Describe(m.mgr.GetMonitor(m.id)) {
					still[inf.ID] = true
				}
			}
			for id := range before {
				if !still[id] {
					x.sharedLeaves++
				}
			}
		}
		ok = ok && x.snapAll()
		if held != nil && c.Inconcl == "" {
			ok = e.lookAgain(held) && ok
		}
	}
	x.sharing()
	c.Nontrivial = h.creates >= 2 && (h.deletes+h.mods+h.nsOps) >= 2 && x.joins >= 2
	c.Note("multi")
	if x.shared != nil {
		c.Note("multi:one-manager")
	}
	if x.sawShared {
		c.Note("multi:shared-informer")
	}
	if x.stops > 0 {
		c.Note("multi:stop-monitor")
	}
	if x.sharedStops > 0 {
		c.Note("multi:stop-while-sibling-shares-informer")
	}
	if x.sharedLeaves > 0 {
		c.Note("multi:namespace-leaves-while-sibling-shares-informer")
	}
	if (x.sharedStops > 0 || x.sharedLeaves > 0) && changesAfterLeave > 0 {
		c.Note("multi:changes-after-a-sibling-left")
	}
	for _, b := range strings.Split(x.base.bucket(), "+") {
		c.Note("cfg:" + b)
	}
	if h.recreate > 0 {
		c.Note("hist:delete+recreate")
	}
	if h.nsOps > 0 {
		c.Note("hist:namespace-ops")
	}
	c.Desc = fmt.Sprintf("multi: %d monitors (%d stopped) base %s, %d creates %d mods %d deletes %d ns-ops", x.joins, x.stops, x.base.bucket(), h.creates, h.mods, h.deletes, h.nsOps)
}
