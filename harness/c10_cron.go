package main

import "strings"

// Grammar-directed generator of crontab texts, following the input grammar of gopkg.in/robfig/cron.v2
// (the library that validates the hook configuration AND that the schedule manager hands the loaded text to):
//
//	crontab    := ws? ( "TZ=" zone sep )? body ws?
//	body       := "@" descriptor | "@every " duration | field (sep field){4,5}
//	field      := expr ("," expr)*        expr := range ("/" step)?      range := "*" | "?" | v | v "-" v
//
// Every dimension is drawn independently — body kind, time zone prefix, leading / trailing / inner white space
// (blank, tab, newline), letter case, and at most one fault (field count, value out of range, zero / negative /
// empty step, reversed range, junk, unknown descriptor, bad duration, unknown zone, prefix without body). Whether a
// text is a good crontab is NOT decided here: the cron library is asked (c10ParseOK), the zero step is decided
// from the text (c10ZeroStep). The returned classes feed the input distribution (c.Note).

var c10CronFields = [6][]string{
	{"*", "0", "30", "59", "*/5", "*/15", "0-30", "0-30/10", "1,2,3", "5,10-20/5", "?"},       // seconds
	{"*", "0", "15", "59", "*/5", "*/10", "0-29", "10-50/20", "0,30", "1,2-10/2,59", "?"},     // minutes
	{"*", "0", "3", "23", "*/2", "8-18", "8-18/2", "0,12", "?"},                                // hours
	{"*", "1", "15", "31", "*/10", "1-15", "1,15", "?"},                                        // day of month
	{"*", "1", "12", "JAN", "jan-mar", "Dec", "*/3", "6,12", "?"},                              // month
	{"*", "0", "6", "MON", "mon-fri", "1-5", "Sun,sat", "?", "*/2"},                            // day of week
}

var c10CronDescriptors = []string{"@yearly", "@annually", "@monthly", "@weekly", "@daily", "@midnight", "@hourly"}
var c10CronDurations = []string{"10m", "1h", "1h30m", "90s", "1s", "500ms", "24h", "1m30s"}
var c10CronZones = []string{"UTC", "Europe/Berlin", "America/New_York", "Asia/Tokyo", "Local"}
var c10CronWs = []string{" ", "\t", "  ", "\n", " \t", "\r\n"}

func c10GenCrontab(rng *Rng) (string, []string) {
	var classes []string
	fault := ""
	if rng.Chance(25) {
		fault = PickOne(rng, []string{"count", "range", "zero-step", "bad-step", "reversed", "junk", "descriptor", "duration", "zone", "no-body", "descr-tail"})
	}
	sep := func() string {
		if rng.Chance(85) {
			return " "
		}
		classes = append(classes, "ws-inner")
		return PickOne(rng, []string{"  ", "\t", " \t ", "\n"})
	}
	body := ""
	switch k := rng.Intn(10); {
	case fault == "descriptor":
		body = PickOne(rng, []string{"@reboot", "@minutely", "@", "@@hourly", "@hourly@", "@every", "@ hourly", "@never"})
		classes = append(classes, "fault-descriptor")
	case fault == "duration":
		body = "@every " + PickOne(rng, []string{"", "1x", "10", "m10", "1h 30m", "-", "1.5.h", "ten minutes"})
		classes = append(classes, "fault-duration")
	case fault == "descr-tail":
		body = PickOne(rng, c10CronDescriptors) + PickOne(rng, []string{" x", " *", " * * * * *", "x", ",@daily"})
		classes = append(classes, "fault-descr-tail")
	case k < 3 && fault == "":
		body = PickOne(rng, c10CronDescriptors)
		classes = append(classes, "descriptor")
	case k < 5 && fault == "":
		body = "@every" + PickOne(rng, []string{" ", " ", " ", "  ", "\t"}) + PickOne(rng, c10CronDurations)
		classes = append(classes, "every")
	default:
		first := 1
		if rng.Chance(35) {
			first = 0
		}
		var fs []string
		for p := first; p < 6; p++ {
			fs = append(fs, PickOne(rng, c10CronFields[p]))
		}
		classes = append(classes, map[int]string{0: "fields6", 1: "fields5"}[first])
		at := rng.Intn(len(fs))
		switch fault {
		case "count":
			if rng.Bool() && len(fs) > 1 {
				fs = append(fs[:at], fs[at+1:]...)
				if first == 0 {
					// six minus one is five: still a crontab; drop one more
					fs = fs[1:]
				}
			} else {
				fs = append(fs, "*")
				if first == 1 {
					fs = append(fs, "*")
				}
			}
			classes = append(classes, "fault-count")
		case "range":
			fs[at] = PickOne(rng, []string{"60", "61", "99", "100", "-1", "1-99", "0-60", "99999999999999999999"})
			classes = append(classes, "fault-range")
		case "zero-step":
			fs[at] = PickOne(rng, []string{"*/0", "1-5/00", "0-0/0", "1,2-3/0", "*/+0", "*/-0", "2/0"})
			classes = append(classes, "fault-zero-step")
		case "bad-step":
			fs[at] = PickOne(rng, []string{"*/", "/5", "*/-1", "*/x", "*/1/2", "*/1.5", "*/ 5"})
			classes = append(classes, "fault-bad-step")
		case "reversed":
			fs[at] = PickOne(rng, []string{"5-1", "3-2", "1-2-3", "-", "5-"})
			classes = append(classes, "fault-reversed")
		case "junk":
			fs[at] = PickOne(rng, []string{"x", "1,,2", ",", "1,", "**", "#", "L", "1W", "MONDAY", "jan1", "⏰"})
			classes = append(classes, "fault-junk")
		}
		for i, f := range fs {
			if i > 0 {
				body += sep()
			}
			body += f
		}
	}
	s := body
	// time zone prefix
	tz := rng.Chance(25) || fault == "zone" || fault == "no-body"
	if tz {
		zone := PickOne(rng, c10CronZones)
		pre := "TZ="
		switch fault {
		case "zone":
			zone = PickOne(rng, []string{"Nowhere", "", "Europe/", "UTC+25", "../UTC", "Europe/berlin", "utc "})
			if rng.Chance(20) {
				pre, zone = PickOne(rng, []string{"tz=", "TZ:", "CRON_TZ=", "TZ ="}), "UTC"
			}
			classes = append(classes, "fault-zone")
		}
		classes = append(classes, "tz")
		switch {
		case fault == "no-body":
			s = pre + zone + PickOne(rng, []string{"", "", " ", "  ", "\t"})
			classes = append(classes, "fault-no-body")
		case rng.Chance(85):
			s = pre + zone + " " + s
		default:
			s = pre + zone + PickOne(rng, []string{"  ", "\t", " \t", "\n"}) + s
			classes = append(classes, "tz-odd-sep")
		}
	}
	// letter case
	if rng.Chance(6) {
		if rng.Bool() {
			s = strings.ToUpper(s)
		} else {
			s = strings.ToLower(s)
		}
		classes = append(classes, "case-folded")
	}
	// white space around the text: cron recognises `@` and `TZ=` at the first character only
	if rng.Chance(30) {
		s = PickOne(rng, c10CronWs) + s
		classes = append(classes, "ws-lead")
	}
	if rng.Chance(25) {
		s = s + PickOne(rng, c10CronWs)
		classes = append(classes, "ws-trail")
	}
	if len(s) > 0 && (s[0] == ' ' || s[0] == '\t' || s[0] == '\n' || s[0] == '\r') && (strings.Contains(s, "@") || strings.Contains(s, "TZ=")) {
		classes = append(classes, "ws-lead+prefix")
	}
	if fault == "" {
		classes = append(classes, "no-fault")
	}
	return s, classes
}
