package main

// Whole-operator case of C17, shutdown requested in the middle of a handler that waits for the API
// server: the main queue is inside EnableKubernetesBindings of a later hook — in AddMonitor (the list of
// the existing objects) or in StartMonitor (the informer's first list, i.e. the wait for the cache sync)
// — because the fake API server holds exactly that LIST request (a reactor on the fake dynamic client,
// released by the case). The hooks before it are fully enabled: ticks make work for their queues, hook h1
// is in the middle of its run in a queue of its own with more work queued behind it, every other queue
// has run dry. Then the real ShellOperator.Shutdown() is requested from a goroutine of its own.
// Observed (hook processes' markers, queue statuses, the queues' contexts):
//   shutdownreturns — Shutdown() comes back although the main queue's handler still waits for the API server;
//   stopheard       — the stop request reached every queue (before the API server answers);
//   weakstop        — after the request a queue starts at most the one task it had picked, nothing after "stop";
//   terminated      — once h1 returns, every queue but main shows "stop" (the API server still silent); once
//                     the API server answers, main does too;
//   shutdownwaits   — Shutdown() does not come back ahead of WaitQueuesTimeout while workers are inside handlers.
// Only one API request is ever held, and the case itself makes no cluster call while it is (the fake
// client serialises all its calls behind a reactor). The cases of this family run one at a time: an informer
// that waits for its cache sync holds the process-wide DefaultFactoryStore lock, so a second operator in the
// same process could not start or finish a monitor of its own meanwhile.

import (
	"context"
	"fmt"
	"os"
	"path/filepath"
	"strings"
	"sync"
	"time"

	corev1 "k8s.io/api/core/v1"
	metav1 "k8s.io/apimachinery/pkg/apis/meta/v1"
	"k8s.io/apimachinery/pkg/runtime"
	fakedynamic "k8s.io/client-go/dynamic/fake"
	clienttesting "k8s.io/client-go/testing"

	"github.com/flant/kube-client/fake"
	shell_operator "github.com/flant/shell-operator/pkg/shell-operator"
	"github.com/flant/shell-operator/pkg/task/queue"
)

func c17OperatorSlowAPI(r *Run, c *Case, rng *Rng) {
	if tooManyHangs(c) {
		return
	}
	ns := fmt.Sprintf("c17s-%d", c.Idx)
	dir := filepath.Join(r.Scratch, ns)
	if abs, err := filepath.Abs(dir); err == nil {
		dir = abs
	}
	_ = os.MkdirAll(filepath.Join(dir, "hooks"), 0o755)
	_ = os.MkdirAll(filepath.Join(dir, "tmp"), 0o755)
	defer os.RemoveAll(dir)
	logFile := filepath.Join(dir, "run.log")

	// --- configuration
	nq := rng.Range(1, 3)
	nh := rng.Range(2, 4)
	if nh == 2 && rng.Chance(60) {
		nh = rng.Range(3, 4) // mostly at least two hooks are enabled before the slow one: their runs alternate behind h1
	}
	qa := rng.Range(1, nq)      // the queue hook h1 hangs in
	slowHook := nh // the hook whose kubernetes binding meets the silent API server: mostly the last one
	if rng.Chance(30) {
		slowHook = rng.Range(2, nh)
	}
	var hooks []*c17Hook
	var namespaces []string
	for i := 1; i <= nh; i++ {
		h := &c17Hook{idx: i, name: fmt.Sprintf("h%d", i)}
		nb := rng.Range(1, 3)
		for j := 1; j <= nb; j++ {
			b := &c17Bind{kube: rng.Chance(40), queueNo: rng.Range(0, nq), explicit: rng.Chance(30), sync: rng.Chance(25)}
			switch {
			case i == 1 && j == 1:
				b.kube, b.queueNo = false, qa
			case i == slowHook && j == 1:
				b.kube = true
			case i < slowHook && j == 1 && rng.Chance(80):
				b.kube, b.queueNo = false, qa // other hooks' work behind the hanging h1: not combined with its run
			}
			if b.kube {
				b.name = fmt.Sprintf("k%d", j)
				b.ns = fmt.Sprintf("%s-%d-%d", ns, i, j) // a namespace (and so an informer and a list request) of its own
				namespaces = append(namespaces, b.ns)
			} else {
				b.name = fmt.Sprintf("s%d", j)
				b.crontab = fmt.Sprintf("%d %d 1 1 *", i, j)
			}
			h.binds = append(h.binds, b)
		}
		hooks = append(hooks, h)
	}
	slowBind := hooks[slowHook-1].binds[0]
	heldNth := 2 // the informer's list: the handler is inside StartMonitor, waiting for the cache sync
	phase := "StartMonitor"
	if rng.Chance(30) {
		heldNth, phase = 1, "AddMonitor" // the list of the existing objects: the handler is inside AddMonitor
	}
	var desc []string
	named := map[int]bool{}
	for _, h := range hooks {
		if err := c17WriteHook(dir, ns, h, logFile); err != nil {
			c.Inconcl = "cannot write hook: " + err.Error()
			return
		}
		for _, b := range h.binds {
			desc = append(desc, fmt.Sprintf("%s/%s->%s", h.name, b.name, c17QueueName(b.queueNo)))
			named[b.queueNo] = true
		}
	}
	var want, wantNamed []int
	for k := 0; k <= nq; k++ {
		if k == 0 || named[k] {
			want = append(want, k)
			if k > 0 {
				wantNamed = append(wantNamed, k)
			}
		}
	}
	c.Desc = fmt.Sprintf("whole operator, API server silent on the list of %s/%s (%s) when Shutdown() is requested: bindings %s",
		hooks[slowHook-1].name, slowBind.name, phase, strings.Join(desc, " "))

	// --- the cluster: one LIST request is held until the case lets it go
	fc := fake.NewFakeCluster(fake.ClusterVersionV121)
	for _, n := range namespaces {
		nsObj := &corev1.Namespace{}
		nsObj.SetName(n)
		_, _ = fc.Client.CoreV1().Namespaces().Create(context.TODO(), nsObj, metav1.CreateOptions{})
		for i := rng.Range(0, 2); i > 0; i-- {
			if err := c01OpObj(fc, n, c01Ev{i, "a", 10 + i}); err != nil {
				c.Inconcl = "cluster operation failed: " + err.Error()
				return
			}
		}
	}
	dyn, ok := fc.Client.Dynamic().(*fakedynamic.FakeDynamicClient)
	if !ok {
		c.Inconcl = fmt.Sprintf("the fake cluster's dynamic client is a %T: no reactor possible", fc.Client.Dynamic())
		return
	}
	var mu sync.Mutex
	lists := map[string]int{}
	held := make(chan struct{})
	apiBack := make(chan struct{})
	var apiOnce sync.Once
	releaseAPI := func() { apiOnce.Do(func() { close(apiBack) }) }
	defer releaseAPI()
	dyn.PrependReactor("list", "configmaps", func(a clienttesting.Action) (bool, runtime.Object, error) {
		mu.Lock()
		lists[a.GetNamespace()]++
		hold := a.GetNamespace() == slowBind.ns && lists[a.GetNamespace()] == heldNth
		mu.Unlock()
		if hold {
			close(held)
			<-apiBack
		}
		return false, nil, nil
	})

	ctx, cancel := context.WithCancel(context.Background())
	hd, td := filepath.Join(dir, "hooks"), filepath.Join(dir, "tmp")
	op, err := shell_operator.VerifAssembleC01(ctx, fc.Client, hd, td, c17KubeMetrics, c17KubeMetrics)
	for try := 0; err != nil && strings.Contains(err.Error(), "text file busy") && try < 10; try++ {
		time.Sleep(30 * time.Millisecond)
		op, err = shell_operator.VerifAssembleC01(ctx, fc.Client, hd, td, c17KubeMetrics, c17KubeMetrics)
	}
	if err != nil && strings.Contains(err.Error(), "text file busy") {
		cancel()
		c.Inconcl = "hook script busy (fork/exec race between parallel cases)"
		return
	}
	if err != nil {
		cancel()
		c.Oracle("opflag what=assembled:" + strings.ReplaceAll(firstLine(err.Error()), " ", "_") + " ok=false")
		return
	}
	sdDone := make(chan struct{})
	sdCalled := false
	defer func() {
		_ = os.Remove(filepath.Join(dir, "block-h1"))
		releaseAPI()
		if sdCalled {
			select {
			case <-sdDone:
			case <-time.After(5 * time.Second):
			}
		}
		op.TaskQueues.Stop()
		// The operator's context is cancelled only once the main queue's worker has exited, i.e. no handler can be
		// inside an informer's cache sync any more: a sync that is aborted by the cancellation reports through
		// MonitorConfig.Logger, which nothing sets (nil dereference in resourceInformer.start — see notes/C17.md).
		// Otherwise the informers of this case are left running.
		deadline := time.Now().Add(10 * time.Second)
		for time.Now().Before(deadline) {
			if q := op.TaskQueues.GetMain(); q != nil && q.GetStatus() == "stop" {
				op.Stop()
				cancel()
				break
			}
			time.Sleep(5 * time.Millisecond)
		}
		time.Sleep(10 * time.Millisecond)
	}()
	op.VerifC03Run(func(q *queue.TaskQueue) {
		q.WaitLoopCheckInterval = time.Millisecond
		q.DelayOnQueueIsEmpty = time.Millisecond
		q.DelayOnRepeat = time.Millisecond
		q.ExponentialBackoffFn = func(int) time.Duration { return 2 * time.Millisecond }
	})
	waitFor := func(cond func() bool, d time.Duration) bool {
		deadline := time.Now().Add(d)
		for time.Now().Before(deadline) {
			if cond() {
				return true
			}
			time.Sleep(2 * time.Millisecond)
		}
		return cond()
	}
	// start-up runs until the main queue's handler meets the silent API server
	select {
	case <-held:
	case <-time.After(30 * time.Second):
		c.Inconcl = "the start-up did not reach the list request that was to be held within 30 s"
		return
	}
	// --- work for the hooks that are enabled already
	var schedBinds []*c17Bind
	bindHook := map[*c17Bind]*c17Hook{}
	for _, h := range hooks[:slowHook-1] {
		for _, b := range h.binds {
			// (a run of h1 hangs wherever it runs: its bindings in other named queues get no ticks, those queues are to run dry)
			if !b.kube && !(h == hooks[0] && b.queueNo != qa && b.queueNo != 0) {
				schedBinds = append(schedBinds, b)
				bindHook[b] = h
			}
		}
	}
	tick := func(b *c17Bind, d time.Duration) bool {
		select {
		case op.ScheduleManager.Ch() <- b.crontab:
			return true
		case <-time.After(d):
			return false
		}
	}
	startsOf := func(h *c17Hook) int {
		execs, _, _ := c17ReadExecs(logFile, hooks)
		n := 0
		for _, e := range execs {
			if e.hook == h {
				n++
			}
		}
		return n
	}
	_ = os.WriteFile(filepath.Join(dir, "block-h1"), nil, 0o644)
	before := startsOf(hooks[0]) // its Synchronization runs, if any, are over: the main queue is past h1
	if !tick(hooks[0].binds[0], wStepTimeout) || !waitFor(func() bool { return startsOf(hooks[0]) > before }, 30*time.Second) {
		c.Inconcl = "hook h1 did not start within 30 s"
		return
	}
	behind := 0 // ticks for queue qa: they wait behind the hanging h1
	var lastHook *c17Hook = hooks[0]
	var inQa []*c17Bind // bindings whose runs queue up behind the hanging h1
	for _, b := range schedBinds {
		if b.queueNo == qa {
			inQa = append(inQa, b)
		}
	}
	for i := rng.Range(1, 6); i > 0; i-- {
		b := schedBinds[rng.Intn(len(schedBinds))]
		if rng.Chance(60) {
			// prefer a run of its own behind h1: a binding of another hook than the last one that went into qa
			if n := len(inQa); n > 0 {
				for k, off := 0, rng.Intn(n); k < n; k++ {
					if o := inQa[(off+k)%n]; bindHook[o] != lastHook {
						b = o
						break
					}
				}
			}
		}
		if !tick(b, wStepTimeout) {
			c.Inconcl = "the events consumer did not accept a tick before the shutdown"
			return
		}
		if b.queueNo == qa {
			if bindHook[b] != lastHook {
				behind++ // a run of its own (tasks of one hook in a row are combined into one run)
			}
			lastHook = bindHook[b]
		}
		if rng.Chance(40) {
			time.Sleep(time.Duration(rng.Intn(15)) * time.Millisecond)
		}
	}
	// every other named queue runs dry before the request: what a queue starts after the request is then
	// not work it was in the middle of (no bound on how fast a hook process gets going is needed)
	time.Sleep(20 * time.Millisecond) // the consumer places the last ticks
	if !waitFor(func() bool {
		for _, k := range wantNamed {
			if q := op.TaskQueues.GetByName(c17QueueName(k)); k != qa && q != nil && q.Length() > 0 {
				return false
			}
		}
		return true
	}, 30*time.Second) {
		c.Inconcl = "the queues did not run dry within 30 s before the shutdown"
		return
	}
	c.Note(fmt.Sprintf("slowapi:runs-queued-behind-h1=%d", behind))
	c.Note("slowapi:handler-in-" + phase)

	appendLine := func(l string) {
		if f, err := os.OpenFile(logFile, os.O_APPEND|os.O_CREATE|os.O_WRONLY, 0o644); err == nil {
			fmt.Fprintln(f, l)
			f.Close()
		}
	}
	// --- the shutdown request
	appendLine("STOP - -")
	sdCalled = true
	t0 := time.Now()
	var took time.Duration
	go func() {
		op.Shutdown()
		took = time.Since(t0)
		close(sdDone)
	}()
	returned := false
	select {
	case <-sdDone:
		returned = true
	case <-time.After(10 * time.Second):
	}
	stopped := func(k int) bool {
		q := op.TaskQueues.GetByName(c17QueueName(k))
		return q != nil && q.GetStatus() == "stop"
	}
	exitPos := map[int]int{}
	observe := func(ks []int) func() bool {
		return func() bool {
			all := true
			for _, k := range ks {
				if _, ok := exitPos[k]; ok {
					continue
				}
				if stopped(k) {
					exitPos[k] = len(readLog(logFile))
				} else {
					all = false
				}
			}
			return all
		}
	}
	observe(want)()
	var heard []int
	for k := 0; k <= nq; k++ {
		if q := op.TaskQueues.GetByName(c17QueueName(k)); q != nil && q.VerifStopRequested() {
			heard = append(heard, k)
		}
	}
	// ticks keep arriving; the handler of h1 returns; the API server is still silent
	for i := rng.Range(1, 3); i > 0; i-- {
		_ = tick(schedBinds[rng.Intn(len(schedBinds))], 200*time.Millisecond) // nobody has to listen any more
	}
	_ = os.Remove(filepath.Join(dir, "block-h1"))
	limit := 20 * time.Second
	if !returned {
		limit = 3 * time.Second
	}
	namedStopped := waitFor(observe(wantNamed), limit)
	if !namedStopped || !returned {
		hangs.Add(1)
		time.Sleep(500 * time.Millisecond) // what a worker that is still alive starts meanwhile is evidence
	} else {
		time.Sleep(30 * time.Millisecond)
	}
	trace := func(qsOf []int) (string, string) {
		execs, stopLine, nLines := c17ReadExecs(logFile, hooks)
		pos := map[int]int{}
		for k, p := range exitPos {
			pos[k] = p
		}
		var ev []string
		putExits := func(upTo int) {
			for _, k := range want {
				if p, ok := pos[k]; ok && p <= upTo {
					ev = append(ev, fmt.Sprintf("x%d", k+1))
					delete(pos, k)
				}
			}
		}
		next := 0
		for i := 0; i < nLines; i++ {
			putExits(i)
			if i == stopLine {
				ev = append(ev, "S")
			}
			for next < len(execs) && execs[next].line == i {
				e := execs[next]
				next++
				qn := e.bind.queueNo
				if e.typ == "Synchronization" {
					qn = 0
				}
				id := e.hook.idx*1000 + next
				ev = append(ev, fmt.Sprintf("s%d:%d:%d", qn+1, id, id))
			}
		}
		putExits(nLines + 1)
		var qs []int
		for _, k := range qsOf {
			qs = append(qs, k+1)
		}
		return joinInts(qs), joinStrs(ev)
	}
	c.Oracle(fmt.Sprintf("shutdownreturns returned=%v handler=main-queue-inside-%s", returned, phase))
	c.Oracle(fmt.Sprintf("stopheard want=%s heard=%s", joinInts(want), joinInts(heard)))
	qs, ev := trace(wantNamed)
	c.Oracle(fmt.Sprintf("weakstop q=%s ev=%s", qs, ev))
	c.Oracle(fmt.Sprintf("terminated q=%s ev=%s", qs, ev))
	if returned {
		// main and qa were inside their handlers for the whole call: the wait for the queues cannot have ended early
		c.Oracle(fmt.Sprintf("shutdownwaits busy=%s early=%v", joinInts([]int{0, qa}), took < shell_operator.WaitQueuesTimeout))
	}
	// --- the API server answers: the handler of the main queue returns, its worker exits
	releaseAPI()
	if !returned {
		select {
		case <-sdDone:
		case <-time.After(15 * time.Second):
		}
	}
	if !waitFor(observe(want), 20*time.Second) {
		hangs.Add(1)
	}
	time.Sleep(20 * time.Millisecond)
	qs, ev = trace(want)
	c.Oracle(fmt.Sprintf("weakstop q=%s ev=%s", qs, ev))
	c.Oracle(fmt.Sprintf("terminated q=%s ev=%s", qs, ev))
	c.Nontrivial = true
	c.Note("kind:whole-operator-shutdown-while-handler-waits-for-api")
}
