package main

import (
	"bytes"
	"context"
	"encoding/json"
	"fmt"
	"os"
	"reflect"
	"regexp"
	"runtime/debug"
	"sort"
	"strconv"
	"strings"
	"sync"
	"time"

	"github.com/deckhouse/deckhouse/pkg/log"
	"github.com/hashicorp/go-multierror"
	apierrors "k8s.io/apimachinery/pkg/api/errors"
	metav1 "k8s.io/apimachinery/pkg/apis/meta/v1"
	"k8s.io/apimachinery/pkg/apis/meta/v1/unstructured"
	"k8s.io/apimachinery/pkg/runtime"
	"k8s.io/apimachinery/pkg/runtime/schema"
	dynamicfake "k8s.io/client-go/dynamic/fake"
	clienttesting "k8s.io/client-go/testing"
	k8yaml "sigs.k8s.io/yaml"

	klient "github.com/flant/kube-client/client"
	"github.com/flant/kube-client/fake"
	"github.com/flant/kube-client/manifest"
	objectpatch "github.com/flant/shell-operator/pkg/kube/object_patch"
)

func init() { suites["c13"] = runC13 }

// ---------------------------------------------------------------- the abstract vocabulary

type c13Kind struct {
	name, apiVersion, resource, root string
	fields                           []string
	ints                             bool // payload values are integer literals (else strings "s<n>")
	known                            bool
}

var c13Kinds = []c13Kind{
	{"ConfigMap", "v1", "configmaps", "data", []string{"f1", "f2", "f3"}, false, true},
	{"Deployment", "apps/v1", "deployments", "spec", []string{"replicas", "minReadySeconds", "revisionHistoryLimit"}, true, true},
	{"Frobnicator", "example.io/v1", "frobnicators", "spec", []string{"replicas", "minReadySeconds", "revisionHistoryLimit"}, true, false},
	// one kind served at two versions of its group (a CRD with two `versions`): two resources of the
	// fake cluster, one object store each - a document addresses the version it names, an omitted
	// apiVersion the preferred one (the entry listed first, registered first in the fake's discovery)
	{"Widget", "example.com/v1", "widgets", "spec", []string{"f1", "f2", "f3"}, false, true},
	{"Widget", "example.com/v1alpha1", "widgets", "spec", []string{"f1", "f2", "f3"}, false, true},
}
var c13Namespaces = []string{"default", "prod"}
var c13Names = []string{"a", "b"}
var c13Subs = []string{"", "status", "/status", "scale"}

type c13Key struct {
	id   int
	kind *c13Kind
	ns   string
	name string
}

func c13AllKeys() []*c13Key {
	var ks []*c13Key
	id := 1
	for i := range c13Kinds {
		for _, ns := range c13Namespaces {
			for _, n := range c13Names {
				ks = append(ks, &c13Key{id, &c13Kinds[i], ns, n})
				id++
			}
		}
	}
	return ks
}

var c13Pool = c13AllKeys()

// c13KindFor: the entry a document naming (apiVersion, kind) addresses: the one served at that
// apiVersion; an omitted apiVersion means the preferred version (the first entry of that name); an
// apiVersion nobody serves gives the first entry of that name (the operation fails before it reaches
// the cluster, see c13Resolvable).
func c13KindFor(apiVersion, kind string) *c13Kind {
	var first *c13Kind
	for i := range c13Kinds {
		if !strings.EqualFold(c13Kinds[i].name, kind) {
			continue
		}
		if first == nil {
			first = &c13Kinds[i]
		}
		if apiVersion != "" && c13Kinds[i].apiVersion == apiVersion {
			return &c13Kinds[i]
		}
	}
	return first
}

// c13KindByGVR: the entry whose objects live under this resource of the fake cluster.
func c13KindByGVR(gvr schema.GroupVersionResource) *c13Kind {
	for i := range c13Kinds {
		if c13Kinds[i].resource == gvr.Resource && c13Kinds[i].apiVersion == gvr.GroupVersion().String() {
			return &c13Kinds[i]
		}
	}
	return nil
}

func c13KeyOf(k *c13Kind, ns, name string) *c13Key {
	for _, key := range c13Pool {
		if key.kind == k && key.ns == ns && key.name == name {
			return key
		}
	}
	return nil
}

func c13FindKey(apiVersion, kind, ns, name string) *c13Key {
	return c13KeyOf(c13KindFor(apiVersion, kind), ns, name)
}

func c13KindByName(kind string) *c13Kind { return c13KindFor("", kind) }

// c13Preferred: k is the version an omitted apiVersion resolves to.
func c13Preferred(k *c13Kind) bool { return c13KindFor("", k.name) == k }

func c13KnownKeys() []*c13Key {
	var ks []*c13Key
	for _, k := range c13Pool {
		if k.kind.known {
			ks = append(ks, k)
		}
	}
	return ks
}

// resolvable mirrors what GroupVersionResource(apiVersion, kind) can answer on the fake cluster.
func c13Resolvable(apiVersion, kind string) bool {
	k := c13KindFor(apiVersion, kind)
	return k != nil && k.known && (apiVersion == "" || apiVersion == k.apiVersion)
}

type c13Obj map[int]int // field id (1-based) -> value n

func (k *c13Kind) val(n int) any {
	if n >= c13ExoBase {
		return c13ExoVal{n - c13ExoBase}
	}
	if k.ints {
		return n
	}
	return "s" + strconv.Itoa(n)
}

func (k *c13Kind) tok(n int) string {
	if n >= c13ExoBase {
		// two JSON texts may denote one value (MaxInt64 and MaxInt64+1 are the same float64)
		for i, e := range c13Exotics {
			if reflect.DeepEqual(e.want, c13Exotics[n-c13ExoBase].want) {
				return e.class + strconv.Itoa(c13ExoBase+i)
			}
		}
	}
	if k.ints {
		return "i" + strconv.Itoa(n)
	}
	return "s" + strconv.Itoa(n)
}

// ---------------------------------------------------------------- scalars the two decoders type differently
//
// "The same documents written as JSON or as YAML": a scalar of the table below is ONE JSON value (`json`,
// the text a hook would write into a JSON patch file) and the spellings of the same value a hook may
// write into a YAML patch file (`yaml`; "" = the rendering sigs.k8s.io/yaml gives for the JSON text).
// yaml.v3 resolves these spellings to Go types encoding/json never yields (int, uint64 for integers
// above MaxInt64, time.Time for unquoted timestamps, bool / nil for several spellings) or to the same
// type by another route (hex / octal integers, exponents, folded long strings, strings that would be
// another type if they were not quoted). For the model such a scalar is one more interned value
// (`i<1000+k>`: a number literal, `s<1000+k>`: a string-like scalar): what it has to be after decoding
// is what encoding/json - used by the harness itself, on the JSON text - makes of it.
const c13ExoBase = 1000

type c13Exo struct {
	class string   // "i": a number literal, "s": any other scalar
	json  string   // the scalar as JSON text
	yaml  []string // spellings of the same scalar in a YAML document
	want  any      // json.Unmarshal(json) into any: float64 | string | bool
	str   bool     // usable as a ConfigMap data value (a JSON string)
}

func c13MkExo(class, js string, yaml ...string) c13Exo {
	var want any
	if err := json.Unmarshal([]byte(js), &want); err != nil {
		panic("c13 exotic table: " + js + ": " + err.Error())
	}
	_, isStr := want.(string)
	if len(yaml) == 0 {
		yaml = []string{""}
	}
	return c13Exo{class: class, json: js, yaml: yaml, want: want, str: isStr}
}

func c13Q(s string) string { b, _ := json.Marshal(s); return string(b) }

var c13Exotics = []c13Exo{
	// integers around and above the int64 range (yaml.v3: int / uint64 / float64)
	c13MkExo("i", "18446744073709551615", "18446744073709551615", "0xFFFFFFFFFFFFFFFF"),
	c13MkExo("i", "9223372036854775808", "9223372036854775808"),
	c13MkExo("i", "9223372036854775807", "9223372036854775807", "0x7FFFFFFFFFFFFFFF"),
	c13MkExo("i", "-9223372036854775808", "-9223372036854775808"),
	c13MkExo("i", "12345678901234567890", "12345678901234567890"),
	c13MkExo("i", "1000000000000000000000000000000", "1000000000000000000000000000000", "1e+30"),
	// floats, exponents
	c13MkExo("i", "1e+21", "1e+21", "1.0e+21", "1E21"),
	c13MkExo("i", "1.5e-07", "1.5e-07", "1.5e-7", "0.00000015"),
	c13MkExo("i", "2.5", "2.5", "2.50", "25e-1"),
	// hex / octal spellings of a small integer
	c13MkExo("i", "31", "0x1F", "0o37", "31"),
	// timestamps: an unquoted YAML timestamp is the scalar whose canonical form is the RFC 3339 string
	c13MkExo("s", c13Q("2024-05-01T00:00:00Z"), "2024-05-01", "2024-05-01T00:00:00Z"),
	c13MkExo("s", c13Q("2001-12-14T21:59:43Z"), "2001-12-14T21:59:43Z", "2001-12-14t21:59:43Z"),
	// booleans
	c13MkExo("s", "true", "true", "True", "TRUE"),
	c13MkExo("s", "false", "false", "False"),
	// strings that would be another type if they were not quoted
	c13MkExo("s", c13Q("yes"), "", `"yes"`, `'yes'`),
	c13MkExo("s", c13Q("off"), "", `"off"`),
	c13MkExo("s", c13Q("~"), "", `"~"`),
	c13MkExo("s", c13Q("null"), "", `'null'`),
	c13MkExo("s", c13Q("123"), "", `"123"`, `'123'`),
	c13MkExo("s", c13Q("0x1F"), "", `"0x1F"`),
	c13MkExo("s", c13Q("1e3"), "", `'1e3'`),
	c13MkExo("s", c13Q("2024-05-01"), "", `"2024-05-01"`, `'2024-05-01'`),
	c13MkExo("s", c13Q("18446744073709551615"), "", `"18446744073709551615"`),
	c13MkExo("s", c13Q(""), "", `""`, `''`),
	// the same scalars one level down: inside a map / a list (written in flow style)
	c13MkExo("s", `{"limit":18446744073709551615,"since":"2024-05-01T00:00:00Z"}`,
		"{limit: 18446744073709551615, since: 2024-05-01}", "{limit: 0xFFFFFFFFFFFFFFFF, since: 2024-05-01T00:00:00Z}", ""),
	c13MkExo("s", `[1e+21,31,true,"yes"]`, `[1e+21, 0x1F, True, "yes"]`, `[1E21, 31, true, 'yes']`, ""),
	// very long strings (the second one is folded by the YAML emitter)
	c13MkExo("s", c13Q(strings.Repeat("x", 700))),
	c13MkExo("s", c13Q(strings.TrimSpace(strings.Repeat("lorem ipsum dolor ", 40)))),
	// values that make ONE PHYSICAL LINE of the patch file longer than the buffers line- / chunk-wise
	// readers work with (64 KiB: bufio.Scanner's token limit, pipe buffers; 256 KiB): an embedded
	// dashboard, CA bundle or script in `jq -c` output. No spaces: the YAML emitter cannot fold them.
	c13MkExo("s", c13Q(strings.Repeat("x", 65536)), "", `"`+strings.Repeat("x", 65536)+`"`),
	c13MkExo("s", c13Q(strings.Repeat("y", 300000))),
	// LAST entry, never drawn as a value: null, the "delete this field" of a merge patch, in its YAML spellings
	c13MkExo("s", "null", "~", "null", "Null", "NULL"),
}

var c13NullIdx = len(c13Exotics) - 1

// c13LongValue: the value number of the 64 KiB string of the table (for hand-written cases).
var c13LongValue = func() int {
	for i, e := range c13Exotics {
		if s, ok := e.want.(string); ok && len(s) == 65536 {
			return c13ExoBase + i
		}
	}
	panic("c13 exotic table: no 64 KiB string")
}()

// c13ExoVal is the value put into the generic document; JSON rendering writes the JSON text.
type c13ExoVal struct{ idx int }

func (v c13ExoVal) MarshalJSON() ([]byte, error) { return []byte(c13Exotics[v.idx].json), nil }

// exo picks an exotic scalar for a field of kind k (ConfigMap data: strings only).
func (g *c13Gen) exo(k *c13Kind) int {
	for {
		i := g.rng.Intn(c13NullIdx)
		if k.ints || c13Exotics[i].str {
			return c13ExoBase + i
		}
	}
}

// c13ExoTok: the token of a decoded value that is an exotic scalar - only if it has a Go type the
// JSON world knows (float64, int64 after a trip through the API machinery, string, bool).
func c13ExoTok(v any) (string, bool) {
	n, ok := c13JSONNorm(v)
	if !ok {
		return "", false
	}
	for i, e := range c13Exotics {
		if reflect.DeepEqual(n, e.want) {
			return e.class + strconv.Itoa(c13ExoBase+i), true
		}
	}
	return "", false
}

// c13JSONNorm: v with every int64 (integers after a trip through the API machinery) as float64;
// false when v holds a Go type the JSON world does not know (int, uint64, time.Time, ...).
func c13JSONNorm(v any) (any, bool) {
	switch x := v.(type) {
	case float64, string, bool:
		return v, true
	case int64:
		return float64(x), true
	case map[string]any:
		o := map[string]any{}
		for k, e := range x {
			n, ok := c13JSONNorm(e)
			if !ok {
				return nil, false
			}
			o[k] = n
		}
		return o, true
	case []any:
		o := make([]any, len(x))
		for i, e := range x {
			n, ok := c13JSONNorm(e)
			if !ok {
				return nil, false
			}
			o[i] = n
		}
		return o, true
	}
	return nil, false
}

var c13Placeholder = regexp.MustCompile(`XQ([0-9]+)S([0-9]+)QX`)

// c13YAMLDoc renders one generic document as YAML; exotic scalars are written in the spelling
// number (salt + occurrence) of their table entry ("" = left to the YAML emitter).
func c13YAMLDoc(m map[string]any, salt *int) []byte {
	var walk func(v any) any
	walk = func(v any) any {
		switch x := v.(type) {
		case map[string]any:
			o := map[string]any{}
			keys := make([]string, 0, len(x))
			for k := range x {
				keys = append(keys, k)
			}
			sort.Strings(keys)
			for _, k := range keys {
				o[k] = walk(x[k])
			}
			return o
		case []any:
			o := make([]any, len(x))
			for i, e := range x {
				o[i] = walk(e)
			}
			return o
		case c13ExoVal:
			e := c13Exotics[x.idx]
			sp := *salt % len(e.yaml)
			*salt++
			if e.yaml[sp] == "" {
				return e.want
			}
			return fmt.Sprintf("XQ%dS%dQX", x.idx, sp)
		}
		return v
	}
	b, _ := k8yaml.Marshal(walk(m))
	return c13Placeholder.ReplaceAllFunc(b, func(ph []byte) []byte {
		g := c13Placeholder.FindSubmatch(ph)
		idx, _ := strconv.Atoi(string(g[1]))
		sp, _ := strconv.Atoi(string(g[2]))
		return []byte(c13Exotics[idx].yaml[sp])
	})
}

func c13ObjTok(k *c13Kind, o c13Obj) string {
	if len(o) == 0 {
		return "-"
	}
	var fs []int
	for f := range o {
		fs = append(fs, f)
	}
	sort.Ints(fs)
	var ps []string
	for _, f := range fs {
		ps = append(ps, fmt.Sprintf("%d=%s", f, k.tok(o[f])))
	}
	return strings.Join(ps, "+")
}

// the object as a generic document (what a hook would write)
func c13Manifest(key *c13Key, apiVersion string, o c13Obj) map[string]any {
	root := map[string]any{}
	for f, n := range o {
		root[key.kind.fields[f-1]] = key.kind.val(n)
	}
	return map[string]any{
		"apiVersion":  apiVersion,
		"kind":        key.kind.name,
		"metadata":    map[string]any{"name": key.name, "namespace": key.ns},
		key.kind.root: root,
	}
}

type c13Edit struct {
	op string // set del rep rem
	f  int
	n  int
}

func (e c13Edit) tok(k *c13Kind) string {
	switch e.op {
	case "set", "rep":
		return fmt.Sprintf("%s.%d.%s", e.op, e.f, k.tok(e.n))
	}
	return fmt.Sprintf("%s.%d", e.op, e.f)
}

func c13EditsTok(k *c13Kind, es []c13Edit) string {
	if len(es) == 0 {
		return "-"
	}
	var ps []string
	for _, e := range es {
		ps = append(ps, e.tok(k))
	}
	return strings.Join(ps, "+")
}

// one generated document: the generic map to render + its abstract descriptor for the model
type c13Doc struct {
	m      map[string]any
	valid  bool
	inline bool
	desc   string // op token for the model
	family string
	fault  string
	extra  bool // carries a key outside the documented set
	key    int  // id of the object the operation addresses (0: none / not in the pool)
	locks  bool // the operation writes with Get ... Update under the optimistic lock (CreateOrUpdate, JQPatch)
}

// c13Writer: one change somebody else makes to object `key`; it lands right before the next Update the
// code under test sends for that object, and that Update is answered 409 Conflict.
type c13Writer struct {
	key   int
	edits []c13Edit // set / del only
}

func c13WritersTok(ws []c13Writer) string {
	if len(ws) == 0 {
		return "-"
	}
	var ps []string
	for _, w := range ws {
		ps = append(ps, fmt.Sprintf("%d:%s", w.key, c13EditsTok(c13Pool[w.key-1].kind, w.edits)))
	}
	return strings.Join(ps, ";")
}

// ---------------------------------------------------------------- rendering

func c13RenderJSON(docs []c13Doc, garbled bool, rng *Rng) []byte {
	var sb strings.Builder
	for i, d := range docs {
		b, _ := json.Marshal(d.m)
		s := string(b)
		if garbled && i == len(docs)-1 {
			cut := 2 + rng.Intn(len(s)/2)
			s = s[:len(s)-cut] // truncated: the closing brace (at least) is missing
		}
		sb.WriteString(s)
		sb.WriteString("\n")
	}
	return []byte(sb.String())
}

func c13RenderYAML(docs []c13Doc, garbled bool, salt int) []byte {
	var sb strings.Builder
	for i, d := range docs {
		if i > 0 {
			sb.WriteString("---\n")
		}
		sb.Write(c13YAMLDoc(d.m, &salt))
	}
	if garbled {
		// truncated inside a quoted scalar of one more document
		sb.WriteString("---\noperation: \"Dele\n")
	}
	return []byte(sb.String())
}

// ---------------------------------------------------------------- physical layout of the file
//
// The property speaks about the DOCUMENTS of the stream; how they are laid out in the file - how long
// a physical line is, how much white space / how many comment lines stand between two documents - is
// not part of it. c13Layout re-writes a rendered stream without touching a single token: it inserts
// one long physical line (a run of blanks behind / a blank line before a JSON document; a comment line
// before a YAML document) whose length sits at a buffer-size boundary (4 KiB page, 64 KiB = bufio.Scanner
// token limit / pipe buffer, 1 MiB), at a random document boundary. Together with the long VALUES of
// the table c13Exotics (a long line INSIDE a document) this makes "a reader that works line- or
// chunk-wise loses / splits something at a threshold" visible wherever the bytes travel through one.
var c13LineLengths = []int{4095, 4096, 65535, 65536, 65537, 70000, 131072, 1<<20 + 1}

// c13DocStarts: offsets at which a document of the rendered stream starts (JSON: every line; YAML:
// offset 0 and behind every "---\n" separator at the beginning of a line).
func c13DocStarts(data []byte, form string) []int {
	starts := []int{0}
	for i := 0; i < len(data); i++ {
		if data[i] != '\n' || i+1 >= len(data) {
			continue
		}
		if form == "json" {
			starts = append(starts, i+1)
		} else if bytes.HasPrefix(data[i+1:], []byte("---\n")) {
			starts = append(starts, i+5)
		}
	}
	return starts
}

func c13Layout(data []byte, form string, rng *Rng) ([]byte, string) {
	if len(data) == 0 {
		return data, "as-rendered"
	}
	L := PickOne(rng, c13LineLengths)
	starts := c13DocStarts(data, form)
	at := PickOne(rng, starts)
	var pad []byte
	how := ""
	switch {
	case form == "yaml":
		pad = append([]byte("# "), bytes.Repeat([]byte("-"), L-2)...)
		pad = append(pad, '\n')
		how = "comment-line-behind-the-separator"
		if at > 0 && rng.Chance(50) {
			at -= 4 // in front of the "---\n" that starts the document: the last line of the previous one
			how = "comment-line-in-front-of-the-separator"
		}
	case rng.Chance(50):
		pad = append(bytes.Repeat([]byte(" "), L), '\n')
		how = "blank-line"
	default:
		// trailing blanks behind the document that ends right before `at` (or leading blanks of the first one)
		pad = bytes.Repeat([]byte(" "), L)
		if at > 0 {
			at-- // in front of the "\n" that ends the previous document
		}
		how = "blanks-next-to-a-document"
	}
	out := make([]byte, 0, len(data)+len(pad))
	out = append(out, data[:at]...)
	out = append(out, pad...)
	out = append(out, data[at:]...)
	nth := 0
	for i, s := range starts {
		if s <= at+4 {
			nth = i
		}
	}
	return out, fmt.Sprintf("%s:%d-bytes:at-document-%d/%d", how, L, nth+1, len(starts))
}

// c13LongestLine: length of the longest physical line of the file.
func c13LongestLine(data []byte) int {
	best, cur := 0, 0
	for _, b := range data {
		if b == '\n' {
			cur = 0
			continue
		}
		cur++
		if cur > best {
			best = cur
		}
	}
	return best
}

func c13LineClass(n int) string {
	switch {
	case n >= 1<<20:
		return ">=1MiB"
	case n >= 65536:
		return ">=64KiB"
	case n >= 4096:
		return ">=4KiB"
	}
	return "<4KiB"
}

// c13Show: the file for a note line / a replay file: every run of more than 64 equal bytes is
// written `<byte>{N}` (the exact bytes derive from (seed, case) anyway).
func c13Show(data []byte) string {
	var sb strings.Builder
	for i := 0; i < len(data); {
		j := i
		for j < len(data) && data[j] == data[i] {
			j++
		}
		if j-i > 64 {
			fmt.Fprintf(&sb, "%c{%d}", data[i], j-i)
		} else {
			sb.Write(data[i:j])
		}
		i = j
	}
	return sb.String()
}

// ---------------------------------------------------------------- abstraction of what the code built

func c13Num(v any) (int, bool) {
	switch x := v.(type) {
	case int:
		return x, true
	case int64:
		return int(x), true
	case uint64:
		return int(x), true
	case float64:
		if x == float64(int(x)) {
			return int(x), true
		}
	case json.Number:
		if n, err := x.Int64(); err == nil {
			return int(n), true
		}
	}
	return 0, false
}

func c13ValTok(v any) string {
	if s, ok := v.(string); ok {
		if strings.HasPrefix(s, "s") {
			if n, err := strconv.Atoi(s[1:]); err == nil {
				return "s" + strconv.Itoa(n)
			}
		}
		if t, ok := c13ExoTok(v); ok {
			return t
		}
		return "?str"
	}
	if t, ok := c13ExoTok(v); ok {
		return t
	}
	switch v.(type) {
	case uint64, time.Time:
		// Go types neither encoding/json nor the API machinery know: never the value of a JSON document
		return fmt.Sprintf("?%T", v)
	}
	if n, ok := c13Num(v); ok {
		return "i" + strconv.Itoa(n)
	}
	return fmt.Sprintf("?%T", v)
}

func c13FieldID(k *c13Kind, name string) int {
	for i, f := range k.fields {
		if f == name {
			return i + 1
		}
	}
	return 0
}

// payload of an object (generic map) -> "<key>/<gvr>/<obj>"
func c13AbstractObject(o map[string]any) string {
	av, _ := o["apiVersion"].(string)
	kind, _ := o["kind"].(string)
	md, _ := o["metadata"].(map[string]any)
	name, _ := md["name"].(string)
	ns, _ := md["namespace"].(string)
	key := c13FindKey(av, kind, ns, name)
	if key == nil {
		return fmt.Sprintf("?key-%s-%s-%s", kind, ns, name)
	}
	return fmt.Sprintf("%d/%s/%s", key.id, c13B01(c13Resolvable(av, kind)), c13RootTok(key.kind, o))
}

func c13RootTok(k *c13Kind, o map[string]any) string {
	root, ok := o[k.root].(map[string]any)
	if !ok {
		if o[k.root] == nil {
			return "-"
		}
		return "?root"
	}
	type fv struct {
		f int
		v string
	}
	var fs []fv
	for name, v := range root {
		fs = append(fs, fv{c13FieldID(k, name), c13ValTok(v)})
	}
	if len(fs) == 0 {
		return "-"
	}
	sort.Slice(fs, func(i, j int) bool { return fs[i].f < fs[j].f })
	var ps []string
	for _, x := range fs {
		ps = append(ps, fmt.Sprintf("%d=%s", x.f, x.v))
	}
	return strings.Join(ps, "+")
}

func c13B01(b bool) string {
	if b {
		return "1"
	}
	return "0"
}

func c13SubID(s string) string {
	for i, x := range c13Subs {
		if x == s {
			return strconv.Itoa(i)
		}
	}
	return "?sub-" + s
}

func c13AbstractOp(info objectpatch.VerifOpInfo) string {
	switch info.Type {
	case "create":
		fl := c13B01(info.IgnoreIfExists) + c13B01(info.UpdateIfExists)
		if info.Subresource != "" {
			fl += "?sub"
		}
		switch o := info.Object.(type) {
		case map[string]any:
			return "C/" + fl + "/" + c13AbstractObject(o)
		case string:
			mft, err := manifest.NewFromYAML(o)
			if err != nil {
				return "C/" + fl + "/bad"
			}
			return "C/" + fl + "/" + c13AbstractObject(mft.Unstructured().Object)
		default:
			return fmt.Sprintf("C/%s/?%T", fl, o)
		}
	case "delete":
		p := map[string]string{"Foreground": "fg", "Background": "bg", "Orphan": "or"}[info.Propagation]
		if p == "" {
			p = "?" + info.Propagation
		}
		return fmt.Sprintf("D/%s/%s/%s", p, c13Coord(info), c13SubID(info.Subresource))
	case "patch":
		kd := "?" + info.PatchType
		switch {
		case info.HasFilter:
			kd = "q"
		case info.PatchType == "application/merge-patch+json":
			kd = "m"
		case info.PatchType == "application/json-patch+json":
			kd = "j"
		}
		body := "?"
		if !info.HasFilter {
			body = c13AbstractPatch(kd, c13KindByName(info.Kind), info.Patch)
		}
		return fmt.Sprintf("P/%s/%s/%s/%s%s/%s", kd, c13Coord(info), c13SubID(info.Subresource),
			c13B01(info.IgnoreMissingObject), c13B01(info.IgnoreHookError), body)
	}
	return info.Type
}

func c13Coord(info objectpatch.VerifOpInfo) string {
	key := c13FindKey(info.ApiVersion, info.Kind, info.Namespace, info.Name)
	if key == nil {
		return fmt.Sprintf("?key-%s-%s-%s/?", info.Kind, info.Namespace, info.Name)
	}
	return fmt.Sprintf("%d/%s", key.id, c13B01(c13Resolvable(info.ApiVersion, info.Kind)))
}

func c13AbstractPatch(kd string, k *c13Kind, p any) string {
	if k == nil {
		return "?kind"
	}
	if s, ok := p.(string); ok {
		var v any
		if err := k8yaml.Unmarshal([]byte(s), &v); err != nil {
			return "none"
		}
		p = v
	}
	switch kd {
	case "m":
		m, ok := p.(map[string]any)
		if !ok {
			return fmt.Sprintf("?%T", p)
		}
		root, ok := m[k.root].(map[string]any)
		if !ok || len(m) != 1 {
			return "?merge-shape"
		}
		type fe struct {
			f int
			s string
		}
		var es []fe
		for name, v := range root {
			f := c13FieldID(k, name)
			if v == nil {
				es = append(es, fe{f, fmt.Sprintf("del.%d", f)})
			} else {
				es = append(es, fe{f, fmt.Sprintf("set.%d.%s", f, c13ValTok(v))})
			}
		}
		sort.Slice(es, func(i, j int) bool { return es[i].f < es[j].f })
		var ps []string
		for _, e := range es {
			ps = append(ps, e.s)
		}
		if len(ps) == 0 {
			return "-"
		}
		return strings.Join(ps, "+")
	case "j":
		arr, ok := p.([]any)
		if !ok {
			return fmt.Sprintf("?%T", p)
		}
		var ps []string
		for _, it := range arr {
			m, _ := it.(map[string]any)
			op, _ := m["op"].(string)
			path, _ := m["path"].(string)
			parts := strings.Split(path, "/")
			if len(parts) != 3 || parts[1] != k.root {
				ps = append(ps, "?path")
				continue
			}
			f := c13FieldID(k, parts[2])
			switch op {
			case "add":
				ps = append(ps, fmt.Sprintf("set.%d.%s", f, c13ValTok(m["value"])))
			case "replace":
				ps = append(ps, fmt.Sprintf("rep.%d.%s", f, c13ValTok(m["value"])))
			case "remove":
				ps = append(ps, fmt.Sprintf("rem.%d", f))
			default:
				ps = append(ps, "?op")
			}
		}
		if len(ps) == 0 {
			return "-"
		}
		return strings.Join(ps, "+")
	}
	return "?"
}

// ---------------------------------------------------------------- the fake cluster

type c13Cluster struct {
	fc  *fake.Cluster
	dyn *dynamicfake.FakeDynamicClient

	mu      sync.Mutex
	writers []c13Writer // not landed yet
	werr    string      // a problem inside the reactor (harness error)
}

// interfere is the "update" reactor: the history of the other clients of the API server. If a change
// of somebody else is pending for the object being updated it is written to the store first and the
// Update is answered 409 Conflict (its resourceVersion is stale), as a real API server does. The
// object tracker of the fake has no optimistic lock of its own.
func (cl *c13Cluster) interfere(action clienttesting.Action) (bool, runtime.Object, error) {
	ua, ok := action.(clienttesting.UpdateActionImpl)
	if !ok {
		return false, nil, nil
	}
	u, ok := ua.GetObject().(*unstructured.Unstructured)
	if !ok {
		return false, nil, nil
	}
	key := c13KeyOf(c13KindByGVR(action.GetResource()), action.GetNamespace(), u.GetName())
	if key == nil {
		return false, nil, nil
	}
	cl.mu.Lock()
	defer cl.mu.Unlock()
	at := -1
	for i, w := range cl.writers {
		if w.key == key.id {
			at = i
			break
		}
	}
	if at < 0 {
		return false, nil, nil
	}
	gvr := action.GetResource()
	cur, err := cl.dyn.Tracker().Get(gvr, key.ns, key.name)
	if err != nil {
		return false, nil, nil // nothing stored: the default reaction answers NotFound
	}
	w := cl.writers[at]
	cl.writers = append(append([]c13Writer{}, cl.writers[:at]...), cl.writers[at+1:]...)
	changed := cur.(*unstructured.Unstructured).DeepCopy()
	for _, e := range w.edits {
		f := key.kind.fields[e.f-1]
		switch e.op {
		case "set":
			var v any = "s" + strconv.Itoa(e.n)
			if key.kind.ints {
				v = int64(e.n)
			}
			if err := unstructured.SetNestedField(changed.Object, v, key.kind.root, f); err != nil {
				cl.werr = "writer: " + err.Error()
			}
		case "del":
			unstructured.RemoveNestedField(changed.Object, key.kind.root, f)
		}
	}
	if err := cl.dyn.Tracker().Update(gvr, changed, key.ns); err != nil {
		cl.werr = "writer: " + err.Error()
	}
	return true, nil, apierrors.NewConflict(gvr.GroupResource(), key.name, fmt.Errorf("the object has been modified; please apply your changes to the latest version and try again"))
}

func c13NewCluster(init map[int]c13Obj, writers ...c13Writer) (*c13Cluster, error) {
	fc := fake.NewFakeCluster(fake.ClusterVersionV119)
	for _, ns := range c13Namespaces {
		fc.CreateNs(ns)
	}
	for i := range c13Kinds {
		// custom resources: one registration per served version (the built-in kinds are in the fake's tables)
		if k := &c13Kinds[i]; k.known && fc.MustFindGVR(k.apiVersion, k.name) == nil {
			gv, _ := schema.ParseGroupVersion(k.apiVersion)
			fc.RegisterCRD(gv.Group, gv.Version, k.name, true)
		}
	}
	for id, o := range init {
		key := c13Pool[id-1]
		b, _ := json.Marshal(c13Manifest(key, key.kind.apiVersion, o))
		mft, err := manifest.NewFromYAML(string(b))
		if err != nil {
			return nil, err
		}
		if err := fc.Create(key.ns, mft); err != nil {
			return nil, err
		}
	}
	dyn, ok := fc.Client.Dynamic().(*dynamicfake.FakeDynamicClient)
	if !ok {
		return nil, fmt.Errorf("dynamic client is %T", fc.Client.Dynamic())
	}
	dyn.ClearActions()
	cl := &c13Cluster{fc: fc, dyn: dyn, writers: append([]c13Writer{}, writers...)}
	dyn.PrependReactor("update", "*", cl.interfere)
	return cl, nil
}

// c13Client adapts the test double: kube-client's fake has no cached discovery client, and its
// GroupVersionResource dereferences it (nil) exactly when a kind / apiVersion does not resolve; a
// real client answers with an error there. The wrapper turns that nil dereference into the error.
type c13Client struct{ *klient.Client }

func (c c13Client) GroupVersionResource(apiVersion, kind string) (gvr schema.GroupVersionResource, err error) {
	defer func() {
		if p := recover(); p != nil {
			err = fmt.Errorf("apiVersion '%s', kind '%s' is not supported by cluster", apiVersion, kind)
		}
	}()
	return c.Client.GroupVersionResource(apiVersion, kind)
}

// log of API calls made since the cluster was prepared
func (cl *c13Cluster) actionLog() string {
	var out []string
	for _, a := range cl.dyn.Actions() {
		name := ""
		verb := a.GetVerb()
		switch x := a.(type) {
		case clienttesting.CreateActionImpl:
			if u, ok := x.GetObject().(*unstructured.Unstructured); ok {
				name = u.GetName()
			}
		case clienttesting.UpdateActionImpl:
			if u, ok := x.GetObject().(*unstructured.Unstructured); ok {
				name = u.GetName()
			}
		case clienttesting.GetActionImpl:
			name = x.GetName()
		case clienttesting.DeleteActionImpl:
			name = x.GetName()
		case clienttesting.PatchActionImpl:
			name = x.GetName()
			switch string(x.GetPatchType()) {
			case "application/merge-patch+json":
				verb = "patchMerge"
			case "application/json-patch+json":
				verb = "patchJson"
			default:
				verb = "patch?" + string(x.GetPatchType())
			}
		}
		// the object an API call reaches is named by the RESOURCE (group, version, plural) it is sent to
		key := c13KeyOf(c13KindByGVR(a.GetResource()), a.GetNamespace(), name)
		kid := fmt.Sprintf("?%s-%s-%s", a.GetResource().Resource, a.GetNamespace(), name)
		if key != nil {
			kid = strconv.Itoa(key.id)
		}
		out = append(out, fmt.Sprintf("%s.%s.%s", verb, kid, c13SubID(a.GetSubresource())))
	}
	if len(out) == 0 {
		return "-"
	}
	return strings.Join(out, ";")
}

func (cl *c13Cluster) contents() string {
	type ent struct {
		id int
		s  string
	}
	var es []ent
	var extra []string
	for i := range c13Kinds {
		k := &c13Kinds[i]
		if !k.known {
			continue
		}
		gvr := cl.fc.MustFindGVR(k.apiVersion, k.name)
		if gvr == nil {
			extra = append(extra, "?nogvr-"+k.name)
			continue
		}
		l, err := cl.dyn.Resource(*gvr).Namespace("").List(context.TODO(), metav1.ListOptions{})
		if err != nil {
			extra = append(extra, "?list-"+k.name)
			continue
		}
		for _, it := range l.Items {
			key := c13KeyOf(k, it.GetNamespace(), it.GetName()) // stored under k's resource, whatever the object says
			if key == nil {
				extra = append(extra, fmt.Sprintf("?obj-%s-%s-%s", it.GetKind(), it.GetNamespace(), it.GetName()))
				continue
			}
			es = append(es, ent{key.id, fmt.Sprintf("%d:%s", key.id, c13RootTok(k, it.Object))})
		}
	}
	sort.Slice(es, func(i, j int) bool { return es[i].id < es[j].id })
	var ps []string
	for _, e := range es {
		ps = append(ps, e.s)
	}
	sort.Strings(extra)
	ps = append(ps, extra...)
	if len(ps) == 0 {
		return "-"
	}
	return strings.Join(ps, ";")
}

// ---------------------------------------------------------------- running the real code

// c13Parse: ParseOperations on the rendered bytes -> (answer, descriptor list, error?)
func c13Parse(data []byte) (ans string, opsTok string, isErr bool) {
	defer func() {
		if p := recover(); p != nil {
			ans, opsTok, isErr = "panic "+firstLine(fmt.Sprint(p)), "-", true
		}
	}()
	ops, err := objectpatch.ParseOperations(data)
	var ds []string
	for _, op := range ops {
		ds = append(ds, c13AbstractOp(objectpatch.VerifDescribeOperation(op)))
	}
	tok := "-"
	if len(ds) > 0 {
		tok = strings.Join(ds, ";")
	}
	if err != nil {
		return "err", "-", true
	}
	return "ok ops=" + tok, tok, false
}

type c13ExecObs struct {
	ans      string
	executed bool
	fail     bool
	log      string
	cluster  string
}

// c13Session: one fake cluster and ONE ObjectPatcher (the operator has a single ObjectPatcher for all
// executions of all hooks) on which the patch files of successive executions are handled.
type c13Session struct {
	cl      *c13Cluster
	patcher *objectpatch.ObjectPatcher
	dead    string
}

func c13NewSession(init map[int]c13Obj) (*c13Session, error) {
	cl, err := c13NewCluster(init)
	if err != nil {
		return nil, err
	}
	return &c13Session{cl: cl, patcher: objectpatch.NewObjectPatcher(c13Client{cl.fc.Client}, log.NewNop())}, nil
}

// handle does what handleRunHook does with the bytes of the patch file of one execution:
// ParseOperations; on error fail without applying anything; else ExecuteOperations and fail on its
// error. The API-call log starts anew; `writers` is the history of the other clients during this execution.
func (s *c13Session) handle(data []byte, writers []c13Writer) (obs c13ExecObs) {
	if s.dead != "" {
		return c13ExecObs{ans: "not-run (an earlier execution of this case ended with " + s.dead + ")"}
	}
	cl := s.cl
	cl.mu.Lock()
	cl.writers = append([]c13Writer{}, writers...)
	cl.mu.Unlock()
	cl.dyn.ClearActions()
	defer func() {
		if p := recover(); p != nil {
			s.dead = "a panic"
			obs = c13ExecObs{ans: "panic " + firstLine(fmt.Sprint(p)) + " @ " + c13PanicSite(), executed: true, fail: true, log: "?", cluster: "?"}
		}
	}()
	ops, err := objectpatch.ParseOperations(data)
	if err != nil {
		lg := cl.actionLog()
		c := cl.contents()
		return c13ExecObs{ans: "skipped fail=1 cluster=" + c, executed: false, fail: true, log: lg, cluster: c}
	}
	err = s.patcher.ExecuteOperations(ops)
	nerr := 0
	if err != nil {
		nerr = 1
		if me, ok := err.(*multierror.Error); ok {
			nerr = len(me.Errors)
		}
	}
	lg := cl.actionLog()
	cl.dyn.ClearActions()
	c := cl.contents()
	if cl.werr != "" {
		return c13ExecObs{ans: "harness-error " + cl.werr}
	}
	return c13ExecObs{
		ans:      fmt.Sprintf("done fail=%s nerr=%d panic=0 log=%s cluster=%s", c13B01(err != nil), nerr, lg, c),
		executed: true, fail: err != nil, log: lg, cluster: c,
	}
}

// c13PanicSite names the innermost frame of the panic that lies in the repository or its modules
// (file:line without the checkout prefix).
func c13PanicSite() string {
	st := string(debug.Stack())
	if os.Getenv("VERIF_HARNESS_DEBUG") != "" {
		fmt.Fprintln(os.Stderr, st)
	}
	seenPanic := false
	for _, l := range strings.Split(st, "\n") {
		t := strings.TrimSpace(l)
		if strings.HasPrefix(t, "panic(") {
			seenPanic = true
			continue
		}
		if !seenPanic || !strings.HasPrefix(t, "/") || strings.Contains(t, "/runtime/") {
			continue
		}
		if i := strings.IndexByte(t, ' '); i > 0 {
			t = t[:i]
		}
		for _, mark := range []string{"/pkg/mod/", "/pkg/"} {
			if j := strings.Index(t, mark); j >= 0 {
				if mark == "/pkg/" {
					return t[j+1:]
				}
				return t[j+len(mark):]
			}
		}
		return t
	}
	return "?"
}

// ---------------------------------------------------------------- generator

type c13Gen struct {
	rng        *Rng
	hot        []*c13Key
	c          *Case
	ints       bool      // the case contains an inline object with an integer field
	exotic     int       // number of exotic scalars in inline payloads
	only       []*c13Key // when set: every document addresses one of these objects
	statusBias int       // percentage of patches forced to subresource "/status" + ignoreHookError
}

func (g *c13Gen) key() *c13Key {
	if len(g.only) > 0 {
		return PickOne(g.rng, g.only)
	}
	if g.rng.Chance(85) {
		return PickOne(g.rng, g.hot)
	}
	return PickOne(g.rng, c13Pool)
}

func (g *c13Gen) obj() c13Obj {
	o := c13Obj{}
	for f := 1; f <= 3; f++ {
		if g.rng.Chance(45) {
			o[f] = g.rng.Range(1, 9)
		}
	}
	return o
}

// n picks a payload value for an INLINE payload of kind k: one of the nine ordinary values or (25%)
// a scalar the two decoders type differently.
func (g *c13Gen) n(k *c13Kind, inline bool) int {
	if inline && g.rng.Chance(25) {
		g.exotic++
		return g.exo(k)
	}
	return g.rng.Range(1, 9)
}

// apiVersion written into a delete/patch document: correct, omitted, or one that does not resolve
func (g *c13Gen) apiVersionFor(k *c13Key) (string, bool) {
	r := g.rng.Intn(10)
	switch {
	case r < 6:
		return k.kind.apiVersion, true
	case r < 9:
		if !c13Preferred(k.kind) {
			return k.kind.apiVersion, true // an omitted apiVersion would address the preferred version's object
		}
		return "", true
	}
	return "bogus/v9", true
}

func (g *c13Gen) sub() (string, int) {
	if g.rng.Chance(55) {
		return "", 0
	}
	i := g.rng.Range(1, len(c13Subs)-1)
	return c13Subs[i], i
}

func (g *c13Gen) genDoc() c13Doc {
	rng := g.rng
	switch r := rng.Intn(100); {
	case r < 36:
		return g.genCreate()
	case r < 58:
		return g.genDelete()
	default:
		return g.genPatch()
	}
}

func (g *c13Gen) genCreate() c13Doc {
	rng := g.rng
	mode := PickOne(rng, []string{"Create", "CreateOrUpdate", "CreateIfNotExists"})
	fl := map[string]string{"Create": "00", "CreateOrUpdate": "01", "CreateIfNotExists": "10"}[mode]
	key := g.key()
	av := key.kind.apiVersion
	if rng.Chance(7) {
		av = "bogus/v9"
	}
	o := g.obj()
	r := rng.Intn(100)
	if r < 60 {
		for f := range o {
			o[f] = g.n(key.kind, true)
		}
	}
	mf := c13Manifest(key, av, o)
	key = c13FindKey(av, key.kind.name, key.ns, key.name) // an apiVersion nobody serves names no particular version
	d := c13Doc{valid: true, family: "create:" + mode, key: key.id, locks: mode == "CreateOrUpdate"}
	gvr := c13Resolvable(av, key.kind.name)
	desc := fmt.Sprintf("C/%s/%d/%s/%s", fl, key.id, c13B01(gvr), c13ObjTok(key.kind, o))
	switch {
	case r < 60:
		d.inline = true
		d.m = map[string]any{"operation": mode, "object": mf}
		if key.kind.ints && len(o) > 0 {
			g.ints = true
		}
	case r < 76:
		b, _ := json.Marshal(mf)
		d.m = map[string]any{"operation": mode, "object": string(b)}
	case r < 92:
		b, _ := k8yaml.Marshal(mf)
		d.m = map[string]any{"operation": mode, "object": string(b)}
	default:
		d.m = map[string]any{"operation": mode, "object": "this is: [not a manifest"}
		desc = fmt.Sprintf("C/%s/bad", fl)
		d.family += ":badstring"
	}
	d.desc = desc
	return d
}

func (g *c13Gen) coords(m map[string]any, keyp **c13Key) bool {
	key := *keyp
	av, _ := g.apiVersionFor(key)
	*keyp = c13FindKey(av, key.kind.name, key.ns, key.name) // an apiVersion nobody serves names no particular version
	if av != "" {
		m["apiVersion"] = av
	}
	m["kind"] = key.kind.name
	if g.rng.Chance(15) {
		m["kind"] = strings.ToLower(key.kind.name) // kinds are matched case-insensitively
	}
	m["namespace"] = key.ns
	m["name"] = key.name
	return c13Resolvable(av, key.kind.name)
}

func (g *c13Gen) genDelete() c13Doc {
	rng := g.rng
	mode := PickOne(rng, []string{"Delete", "DeleteInBackground", "DeleteInBackground", "DeleteNonCascading", "DeleteNonCascading"})
	p := map[string]string{"Delete": "fg", "DeleteInBackground": "bg", "DeleteNonCascading": "or"}[mode]
	key := g.key()
	m := map[string]any{"operation": mode}
	gvr := g.coords(m, &key)
	if rng.Chance(20) {
		m["subresource"] = "status" // accepted by the schema, not used by delete operations
	}
	return c13Doc{m: m, valid: true, inline: true, family: "delete:" + mode, key: key.id,
		desc: fmt.Sprintf("D/%s/%d/%s/0", p, key.id, c13B01(gvr))}
}

func (g *c13Gen) genPatch() c13Doc {
	rng := g.rng
	kd := PickOne(rng, []string{"m", "j", "q"})
	key := g.key()
	if kd == "q" && key.kind.ints && key.kind.known {
		// executeFilterOperation skips the Update when Semantic.DeepEqual(object, filtered) holds; gojq
		// re-types every number (int64 -> float64), so for objects holding numbers the outcome of that
		// test depends on Go number types kept by the tracker - outside the model. jq patches therefore
		// target the string-valued kind (or the unregistered one, which fails before the Get).
		key = c13Pool[(key.id-1)%4]
	}
	k := key.kind
	m := map[string]any{}
	gvr := g.coords(m, &key)
	sub, subID := g.sub()
	if sub != "" {
		m["subresource"] = sub
	}
	im, ihe := rng.Chance(40), rng.Chance(20)
	if g.statusBias > 0 && rng.Chance(g.statusBias) {
		// what survives a failed hook: a patch of the subresource "/status" marked ignoreHookError
		sub, subID, ihe = "/status", 2, true
		m["subresource"] = sub
	}
	if im || rng.Chance(20) {
		m["ignoreMissingObject"] = im
	}
	if ihe {
		m["ignoreHookError"] = true
	}
	d := c13Doc{m: m, valid: true, inline: true, key: key.id, locks: kd == "q"}
	var es []c13Edit
	body := ""
	switch kd {
	case "m":
		m["operation"] = "MergePatch"
		root := map[string]any{}
		form := rng.Intn(100)
		for f := 1; f <= 3 && len(es) < 2; f++ {
			if rng.Chance(45) || (f == 3 && len(es) == 0) {
				if rng.Chance(70) {
					n := g.n(k, form < 55)
					es = append(es, c13Edit{"set", f, n})
					root[k.fields[f-1]] = k.val(n)
				} else {
					es = append(es, c13Edit{"del", f, 0})
					root[k.fields[f-1]] = nil
					if form < 55 && rng.Chance(50) {
						root[k.fields[f-1]] = c13ExoVal{c13NullIdx} // `~`, `Null`, ... in the YAML rendering
					}
				}
			}
		}
		p := map[string]any{k.root: root}
		body = c13EditsTok(k, es)
		switch r := form; {
		case r < 55:
			m["mergePatch"] = p
		case r < 75:
			b, _ := json.Marshal(p)
			m["mergePatch"] = string(b)
			d.inline = false
		case r < 92:
			b, _ := k8yaml.Marshal(p)
			m["mergePatch"] = string(b)
			d.inline = false
		default:
			m["mergePatch"] = "{unclosed: [1, 2"
			body = "none"
			d.inline = false
		}
	case "j":
		m["operation"] = "JSONPatch"
		var arr []any
		form := rng.Intn(100)
		for i := rng.Range(1, 2); i > 0; i-- {
			f := rng.Range(1, 3)
			n := g.n(k, form < 55)
			path := "/" + k.root + "/" + k.fields[f-1]
			switch rng.Intn(3) {
			case 0:
				es = append(es, c13Edit{"set", f, n})
				arr = append(arr, map[string]any{"op": "add", "path": path, "value": k.val(n)})
			case 1:
				es = append(es, c13Edit{"rep", f, n})
				arr = append(arr, map[string]any{"op": "replace", "path": path, "value": k.val(n)})
			default:
				es = append(es, c13Edit{"rem", f, 0})
				arr = append(arr, map[string]any{"op": "remove", "path": path, "value": 0})
			}
		}
		body = c13EditsTok(k, es)
		switch r := form; {
		case r < 55:
			m["jsonPatch"] = arr
		case r < 75:
			b, _ := json.Marshal(arr)
			m["jsonPatch"] = string(b)
			d.inline = false
		case r < 92:
			b, _ := k8yaml.Marshal(arr)
			m["jsonPatch"] = string(b)
			d.inline = false
		default:
			m["jsonPatch"] = "[{unclosed: [1, 2"
			body = "none"
			d.inline = false
		}
	case "q":
		m["operation"] = "JQPatch"
		var parts []string
		for i := rng.Range(1, 2); i > 0; i-- {
			f := rng.Range(1, 3)
			n := rng.Range(1, 9)
			path := "." + k.root + "." + k.fields[f-1]
			if rng.Chance(65) {
				es = append(es, c13Edit{"set", f, n})
				b, _ := json.Marshal(k.val(n))
				lit := string(b)
				if k.ints {
					// gojq turns the literal `2` into a Go int, and client-go's FAKE deep-copies the object
					// handed to Update (`cannot deep copy int`); a real client JSON-encodes it. To keep this
					// artefact of the test double out of the way the literal is written `2.0` (float64).
					lit += ".0"
				}
				parts = append(parts, path+" = "+lit)
			} else {
				es = append(es, c13Edit{"del", f, 0})
				parts = append(parts, "del("+path+")")
			}
		}
		body = c13EditsTok(k, es)
		m["jqFilter"] = strings.Join(parts, " | ")
		if rng.Chance(8) {
			m["jqFilter"] = "." + k.root + ".f1 = | |"
			body = "none"
		}
		d.inline = false
	}
	d.family = "patch:" + kd
	if body == "none" {
		d.family += ":badbody"
	}
	d.desc = fmt.Sprintf("P/%s/%d/%s/%d/%s%s/%s", kd, key.id, c13B01(gvr), subID, c13B01(im), c13B01(ihe), body)
	return d
}

// c13Faults: single-fault mutations that make a valid document invalid (per the documented schema).
var c13Faults = []string{"unknownOperation", "extraProperty", "missingRequired", "wrongPayloadType", "emptyPayload", "operationNotString", "missingOperation", "patchItemField"}

// c13BoundaryFaults: the faults that keep the set of keys and the JSON type of every value of the
// document (only a value-level rule of the schema is broken: minProperties, minItems, required /
// minLength inside the first jsonPatch item).
var c13BoundaryFaults = []string{"emptyPayload", "patchItemField"}

// c13InlinePayload: the name of the free-form field of the document when it is written inline.
func c13InlinePayload(d c13Doc) string {
	for _, p := range []string{"object", "mergePatch", "jsonPatch"} {
		switch d.m[p].(type) {
		case map[string]any, []any:
			return p
		}
	}
	return ""
}

func c13ApplyFault(d c13Doc, fault string, rng *Rng) c13Doc {
	m := map[string]any{}
	for k, v := range d.m {
		m[k] = v
	}
	payload := ""
	for _, p := range []string{"object", "mergePatch", "jsonPatch", "jqFilter"} {
		if _, ok := m[p]; ok {
			payload = p
		}
	}
	switch fault {
	case "unknownOperation":
		m["operation"] = PickOne(rng, []string{"Frobnicate", "create", "Patch", ""})
	case "missingOperation":
		delete(m, "operation")
	case "operationNotString":
		m["operation"] = PickOne(rng, []any{7, []any{"Create"}, map[string]any{"a": "Create"}})
	case "extraProperty":
		m[PickOne(rng, []string{"colour", "ignoreMissingObjects", "spec", "metadata", "Object", "Kind"})] = "red"
	case "missingRequired":
		var cands []string
		if payload != "" {
			cands = append(cands, payload)
		}
		if payload != "object" {
			cands = append(cands, "kind", "name")
		}
		delete(m, PickOne(rng, cands))
	case "wrongPayloadType":
		switch payload {
		case "object", "mergePatch":
			m[payload] = PickOne(rng, []any{5, []any{1, 2}, true})
		case "jsonPatch":
			m[payload] = PickOne(rng, []any{5, map[string]any{"op": "add"}, true})
		case "jqFilter":
			m[payload] = PickOne(rng, []any{[]any{1, 2}, map[string]any{"a": 1}})
		default: // delete documents: a coordinate of the wrong type
			m["name"] = PickOne(rng, []any{[]any{"a"}, map[string]any{"a": 1}})
		}
	case "emptyPayload":
		switch payload {
		case "object", "mergePatch":
			m[payload] = map[string]any{}
		case "jsonPatch":
			m[payload] = []any{}
		default:
			delete(m, "name")
		}
	case "patchItemField":
		// the schema validates the first item of an inline jsonPatch: op, path, value are required,
		// op and path are non-empty strings
		arr, ok := m["jsonPatch"].([]any)
		if !ok || len(arr) == 0 {
			return c13ApplyFault(d, "emptyPayload", rng)
		}
		it := map[string]any{}
		for k, v := range arr[0].(map[string]any) {
			it[k] = v
		}
		switch rng.Intn(5) {
		case 0:
			delete(it, "op")
		case 1:
			delete(it, "path")
		case 2:
			delete(it, "value")
		case 3:
			it["op"] = ""
		default:
			it["path"] = ""
		}
		m["jsonPatch"] = append([]any{it}, arr[1:]...)
	}
	if fault == "extraProperty" {
		// the rest of the document stays as it is (the unrepaired typed decoders dropped the key)
		return c13Doc{m: m, valid: d.valid, inline: d.inline, desc: d.desc, family: d.family, fault: fault, extra: true}
	}
	return c13Doc{m: m, valid: false, inline: true, desc: "D/bg/1/1/0", family: d.family, fault: fault}
}

// ---------------------------------------------------------------- one case

func c13Init(rng *Rng, hot []*c13Key) (map[int]c13Obj, string) {
	init := map[int]c13Obj{}
	for _, k := range hot {
		if k.kind.known && rng.Chance(55) {
			o := c13Obj{}
			for f := 1; f <= 3; f++ {
				if rng.Chance(50) {
					o[f] = rng.Range(1, 9)
				}
			}
			init[k.id] = o
		}
	}
	if rng.Chance(25) {
		k := PickOne(rng, c13KnownKeys())
		init[k.id] = c13Obj{1: rng.Range(1, 9)}
	}
	return init, c13InitTok(init)
}

func c13InitTok(init map[int]c13Obj) string {
	var ids []int
	for id := range init {
		ids = append(ids, id)
	}
	sort.Ints(ids)
	var ps []string
	for _, id := range ids {
		ps = append(ps, fmt.Sprintf("%d:%s", id, c13ObjTok(c13Pool[id-1].kind, init[id])))
	}
	if len(ps) == 0 {
		return "-"
	}
	return strings.Join(ps, ";")
}

// c13Exec1: the patch file of one execution + the history of the other clients while it is handled.
type c13Exec1 struct {
	docs    []c13Doc
	garbled bool
	writers []c13Writer
	layout  bool // re-lay the rendered files out with one long physical line (c13Layout)
}

func c13RunCase(c *Case, rng *Rng, init map[int]c13Obj, initTok string, docs []c13Doc, garbled bool, writers ...c13Writer) {
	c13RunSeq(c, rng, init, initTok, []c13Exec1{{docs: docs, garbled: garbled, writers: writers}})
}

// c13RunSeq: successive executions on one cluster and one ObjectPatcher (per rendering). Each
// execution is judged by the property on the cluster state it started from (line `next`: the state the
// documented semantics give for the executions so far).
func c13RunSeq(c *Case, rng *Rng, init map[int]c13Obj, initTok string, runs []c13Exec1) {
	c.Op("init "+initTok, "cluster="+initTok)
	sessions := map[string]*c13Session{}
	for i, run := range runs {
		if i > 0 {
			c.Op("next", "ok")
		}
		c.Op("garbled "+c13B01(run.garbled), "ok")
		c.Op("writers "+c13WritersTok(run.writers), "ok")
		for _, d := range run.docs {
			x := ""
			if d.extra {
				x = " x"
			}
			c.Op(fmt.Sprintf("doc %s %s %s%s", c13B01(d.valid), c13B01(d.inline), d.desc, x), "ok")
		}
		renderings := map[string][]byte{
			"json": c13RenderJSON(run.docs, run.garbled, rng),
			"yaml": c13RenderYAML(run.docs, run.garbled, rng.Intn(60)),
		}
		if run.layout {
			for _, form := range []string{"json", "yaml"} {
				how := ""
				renderings[form], how = c13Layout(renderings[form], form, rng)
				c.Op("note "+form+" layout: "+how, "ok")
			}
		}
		sig := map[string]string{}
		for _, form := range []string{"json", "yaml"} {
			data := renderings[form]
			c.Op("note "+form+" rendering: "+c13Show(data), "ok")
			pans, ptok, perr := c13Parse(data)
			c.Op("parse "+form, pans)
			c.Oracle(fmt.Sprintf("parse form=%s err=%s ops=%s", form, c13B01(perr), ptok))
			var obs c13ExecObs
			if sessions[form] == nil {
				s, err := c13NewSession(init)
				if err != nil {
					obs = c13ExecObs{ans: "harness-error " + err.Error()}
				}
				sessions[form] = s
			}
			if s := sessions[form]; s != nil {
				obs = s.handle(data, run.writers)
			}
			c.Op("exec "+form, obs.ans)
			c.Oracle(fmt.Sprintf("exec form=%s executed=%s fail=%s log=%s cluster=%s", form, c13B01(obs.executed), c13B01(obs.fail), obs.log, obs.cluster))
			sig[form] = strings.ReplaceAll(pans+"|"+obs.ans, " ", ",")
		}
		c.Oracle(fmt.Sprintf("agree json=%s yaml=%s", sig["json"], sig["yaml"]))
	}
}

// c13Reseed: lib.go seeds case idx with NewRng(seed*1000003+idx) and the generator's state is additive,
// so the streams of neighbouring cases are one splitmix sequence shifted by one position (neighbouring
// cases would reuse each other's random numbers). The first output is well mixed: reseeding from it
// gives every case an unrelated stream and keeps (seed, case) replays exact.
func c13Reseed(rng *Rng) *Rng { return NewRng(rng.U64() ^ 0xD1B54A32D192ED03) }

// stream generates one patch file: 1-6 documents, valid / one invalid document / an invalid document
// behind its valid twin / truncated.
func (g *c13Gen) stream(c *Case) ([]c13Doc, bool, string) {
	rng := g.rng
	n := rng.Range(1, 6)
	var docs []c13Doc
	for i := 0; i < n; i++ {
		docs = append(docs, g.genDoc())
	}
	garbled := false
	mode := "valid"
	switch r := rng.Intn(100); {
	case r < 24:
		i := rng.Intn(n)
		f := PickOne(rng, c13Faults)
		docs[i] = c13ApplyFault(docs[i], f, rng)
		mode = "invalid:" + f
		c.Note(fmt.Sprintf("invalid-at:%d/%d", i+1, n))
	case r < 40:
		// an invalid document AFTER its valid twin: the single-fault copy of a valid document of the
		// stream is inserted somewhere behind it (same operation, same keys; 60%: same JSON types too -
		// only a value-level rule of the schema is broken)
		i := rng.Intn(n)
		f := PickOne(rng, c13Faults)
		if rng.Chance(60) {
			f = PickOne(rng, c13BoundaryFaults)
			for try := 0; try < 40; try++ {
				p := c13InlinePayload(docs[i])
				if p != "" && (f != "patchItemField" || p == "jsonPatch") {
					break
				}
				docs[i] = g.genDoc()
			}
			c.Note("twin:boundary:" + f + ":" + c13InlinePayload(docs[i]))
		}
		j := rng.Range(i+1, n)
		twin := c13ApplyFault(docs[i], f, rng)
		docs = append(docs[:j:j], append([]c13Doc{twin}, docs[j:]...)...)
		n++
		mode = "invalid-after-valid-twin:" + f
		c.Note(fmt.Sprintf("invalid-at:%d/%d", j+1, n))
		c.Note(fmt.Sprintf("twin-distance:%d", j-i))
	case r < 47:
		garbled = true
		mode = "truncated"
	}
	return docs, garbled, mode
}

// c13Versioned: the keys of the kinds served at more than one version, grouped by (namespace, name):
// the "same" object at each version.
func c13Versioned() [][]*c13Key {
	var out [][]*c13Key
	for _, k := range c13Pool {
		if !k.kind.known || !c13Preferred(k.kind) {
			continue
		}
		grp := []*c13Key{k}
		for _, o := range c13Pool {
			if o != k && o.kind.known && o.kind.name == k.kind.name && o.ns == k.ns && o.name == k.name {
				grp = append(grp, o)
			}
		}
		if len(grp) > 1 {
			out = append(out, grp)
		}
	}
	return out
}

// otherWriters generates the history of the other clients for one execution: changes of somebody else
// that land between a Get and the Update of an operation that writes under the optimistic lock
// (CreateOrUpdate, JQPatch). init != nil: the objects concerned may be added to the initial state.
func (g *c13Gen) otherWriters(docs []c13Doc, init map[int]c13Obj) []c13Writer {
	rng := g.rng
	var writers []c13Writer
	for _, d := range docs {
		if !d.locks || d.key == 0 || !c13Pool[d.key-1].kind.known || !rng.Chance(70) {
			continue
		}
		if init != nil {
			if _, ok := init[d.key]; !ok && rng.Chance(60) {
				init[d.key] = g.obj()
			}
		}
		nw := 1
		switch r := rng.Intn(100); {
		case r < 8:
			nw = rng.Range(4, 5) // the retry budget (retry.DefaultBackoff: 4 attempts) is used up
		case r < 35:
			nw = rng.Range(2, 3)
		}
		for ; nw > 0; nw-- {
			w := c13Writer{key: d.key}
			for e := rng.Range(1, 2); e > 0; e-- {
				if rng.Chance(70) {
					w.edits = append(w.edits, c13Edit{"set", rng.Range(1, 3), rng.Range(1, 9)})
				} else {
					w.edits = append(w.edits, c13Edit{"del", rng.Range(1, 3), 0})
				}
			}
			writers = append(writers, w)
		}
	}
	if len(writers) > 1 && rng.Chance(30) {
		rng.Shuffle(len(writers), func(a, b int) { writers[a], writers[b] = writers[b], writers[a] })
	}
	return writers
}

func c13Random(c *Case, rng *Rng) {
	rng = c13Reseed(rng)
	g := &c13Gen{rng: rng, c: c}
	known := c13KnownKeys()
	// 30%: the case is about a kind served at two versions - the hot objects are the same (namespace,
	// name) at both versions (two different objects of the cluster), so that streams and successive
	// executions address both versions of one group/kind
	twoVersions := rng.Chance(30)
	if twoVersions {
		g.hot = append(g.hot, PickOne(rng, c13Versioned())...)
		if rng.Chance(35) {
			g.hot = append(g.hot, PickOne(rng, known))
		}
	} else {
		nhot := rng.Range(1, 3)
		for i := 0; i < nhot; i++ {
			if rng.Chance(90) {
				g.hot = append(g.hot, PickOne(rng, known))
			} else {
				g.hot = append(g.hot, PickOne(rng, c13Pool))
			}
		}
	}
	init, initTok := c13Init(rng, g.hot)
	// successive executions (patch files of hook runs one after the other) on the same cluster and the
	// same ObjectPatcher: 1 (55%; two-version cases 25%), 2 or 3
	nruns := 1
	if r := rng.Intn(100); (twoVersions && r < 75) || r < 45 {
		nruns = rng.Range(2, 3)
	}
	withWriters := rng.Chance(45)
	var runs []c13Exec1
	ndocs, nwriters := 0, 0
	var descs []string
	for i := 0; i < nruns; i++ {
		docs, garbled, mode := g.stream(c)
		if nruns > 1 && i < nruns-1 && mode != "valid" && rng.Chance(60) {
			docs, garbled, mode = g.stream(c) // mostly valid files before the last execution
		}
		var writers []c13Writer
		if withWriters {
			if i == 0 {
				writers = g.otherWriters(docs, init)
				initTok = c13InitTok(init)
			} else {
				writers = g.otherWriters(docs, nil)
			}
		}
		// 8%: the files of this execution carry one long physical line between / next to two documents
		layout := rng.Chance(8)
		if layout {
			c.Note("layout:long-physical-line-outside-the-documents")
		}
		runs = append(runs, c13Exec1{docs, garbled, writers, layout})
		ndocs += len(docs)
		nwriters += len(writers)
		c.Note("stream:" + mode)
		c.Note(fmt.Sprintf("docs:%d", len(docs)))
		for _, d := range docs {
			c.Note("op:" + d.family)
		}
		descs = append(descs, fmt.Sprintf("%d docs %s, other writers=%s", len(docs), mode, c13WritersTok(writers)))
	}
	if nwriters > 0 {
		c.Note(fmt.Sprintf("other-writers:%d", nwriters))
	} else {
		c.Note("other-writers:0")
	}
	c.Note(fmt.Sprintf("executions:%d", nruns))
	// how many (group, kind) pairs are addressed at two versions within the case, and whether across executions
	type gk struct {
		ver map[string]int // apiVersion -> first execution that addressed it
	}
	seen := map[string]*gk{}
	cross, within := false, false
	for i, run := range runs {
		for _, d := range run.docs {
			if d.key == 0 || !d.valid {
				continue
			}
			k := c13Pool[d.key-1].kind
			e := seen[k.name]
			if e == nil {
				e = &gk{ver: map[string]int{}}
				seen[k.name] = e
			}
			for v, at := range e.ver {
				if v != k.apiVersion {
					if at == i {
						within = true
					} else {
						cross = true
					}
				}
			}
			if _, ok := e.ver[k.apiVersion]; !ok {
				e.ver[k.apiVersion] = i
			}
		}
	}
	c.Note(fmt.Sprintf("one-kind-at-two-versions:within-a-stream=%v,across-executions=%v", within, cross))
	if g.ints {
		c.Note("inline-object-with-integer-field")
	}
	if g.exotic > 0 {
		c.Note("scalars-typed-differently-by-the-decoders:1+")
	} else {
		c.Note("scalars-typed-differently-by-the-decoders:0")
	}
	c.Desc = fmt.Sprintf("%d execution(s): %s; init=%s", nruns, strings.Join(descs, " | "), initTok)
	c.Nontrivial = ndocs >= 2
	c13RunSeq(c, rng, init, initTok, runs)
}

func runC13(r *Run) {
	r.Rule = "a case = initial cluster (0-4 objects among 16 keys: ConfigMap, Deployment and a custom kind Widget served at two versions of its group " +
		"(example.com/v1 preferred, example.com/v1alpha1: two resources, one object store each) x 2 namespaces x 2 names, plus an unregistered kind) " +
		"+ 1-3 successive executions (55% one; each with its own patch file, all on the same cluster and the same ObjectPatcher, each judged on the state the " +
		"documented semantics give for the ones before) - 30% of the cases are about the same (namespace, name) of the Widget at both versions, addressed " +
		"within one stream and across executions (apiVersion explicit, or omitted = preferred version) - " +
		"a patch file = a stream of 1-6 operation documents (3 create variants, 3 delete modes, merge/JSON/jq patches with subresource, " +
		"ignoreMissingObject, payloads inline / JSON string / YAML string / undecodable string; Deployment payloads carry integer fields) " +
		"that is valid (53%), has exactly one invalid document (24%: unknown operation, extra property, missing required field, wrong payload type, " +
		"empty payload, non-string operation, a required field / non-empty string missing inside the first jsonPatch item), has an invalid document " +
		"placed behind the valid document it was derived from (16%; 60% of them differ from the valid twin only by a value-level rule of the schema) " +
		"or is truncated (7%); 45% of the cases carry a history of other writers: 1-5 changes of somebody else to objects that a CreateOrUpdate / " +
		"JQPatch of the stream updates, each landing right before the next Update of that object, which a reactor on the fake client then answers " +
		"409 Conflict; the stream is rendered as JSON and as YAML, both are run through the real " +
		"ParseOperations + ExecuteOperations on a fresh kube-client/fake cluster and compared with each other and with the model. " +
		"25% of the values of inline payloads are scalars the two decoders type differently (integers around and above the int64 range, " +
		"exponents, hex/octal, unquoted timestamps, booleans, strings that look like another type, long strings incl. one of 64 KiB and one of 300 000 bytes " +
		"= one physical line of the file above 64 KiB), written in YAML in one of their spellings; 8% of the files of the random cases and 25% of the files of " +
		"the operator-level cases are re-laid out without touching a token: one physical line of 4095 / 4096 / 65535 / 65536 / 65537 / 70000 / 131072 / 1 MiB+1 " +
		"bytes (blanks behind or in front of a JSON document, a blank line, a YAML comment line behind or in front of a `---`) at a random document boundary. " +
		"Operator-level cases (64 quick / 700 thorough + 4 corpus): 1-2 executions through the real taskHandler -> handleRunHook -> Hook.Run with a real " +
		"bash hook that writes such a stream into $KUBERNETES_PATCH_PATH and exits 0 (60%) or non-zero (40%; then 60% of the patches are /status patches " +
		"with ignoreHookError), the two executions (70%: the same hook in two queues) overlapping in a random interleaving of launch / write / exit " +
		"events enforced with marker files; every execution addresses its own objects and is judged on them. " +
		"Non-trivial = at least 2 documents; distinct = distinct op-line sequence."
	// corpus: the observed defect (YAML Create with an integer field) and hand-written order/validity cases
	r.One(0, func(c *Case, rng *Rng) {
		key := c13Pool[4] // Deployment default/a
		o := c13Obj{1: 1}
		d := c13Doc{valid: true, inline: true, family: "create:Create",
			m:    map[string]any{"operation": "Create", "object": c13Manifest(key, key.kind.apiVersion, o)},
			desc: fmt.Sprintf("C/00/%d/1/%s", key.id, c13ObjTok(key.kind, o))}
		c.Desc = "corpus: Create of a Deployment with `replicas: 1`, inline (yaml.v3 yields int)"
		c.Nontrivial = true
		c.Note("corpus")
		c13RunCase(c, rng, map[int]c13Obj{}, "-", []c13Doc{d}, false)
	})
	r.One(1, func(c *Case, rng *Rng) {
		key := c13Pool[4]
		o := c13Obj{1: 3, 2: 5}
		mk := func(mode, fl string) c13Doc {
			return c13Doc{valid: true, inline: true, family: "create:" + mode,
				m:    map[string]any{"operation": mode, "object": c13Manifest(key, key.kind.apiVersion, o)},
				desc: fmt.Sprintf("C/%s/%d/1/%s", fl, key.id, c13ObjTok(key.kind, o))}
		}
		c.Desc = "corpus: CreateOrUpdate / CreateIfNotExists / Create of an existing Deployment with integer fields"
		c.Nontrivial = true
		c.Note("corpus")
		c13RunCase(c, rng, map[int]c13Obj{key.id: {1: 1}}, fmt.Sprintf("%d:1=i1", key.id),
			[]c13Doc{mk("CreateOrUpdate", "01"), mk("CreateIfNotExists", "10"), mk("Create", "00")}, false)
	})
	r.One(2, func(c *Case, rng *Rng) {
		// six documents, the last one invalid: nothing may be applied
		g := &c13Gen{rng: rng, c: c, hot: []*c13Key{c13Pool[0], c13Pool[4]}}
		var docs []c13Doc
		for i := 0; i < 5; i++ {
			docs = append(docs, g.genCreate())
		}
		docs = append(docs, c13ApplyFault(g.genDelete(), "unknownOperation", rng))
		c.Desc = "corpus: five valid creates followed by one invalid document"
		c.Nontrivial = true
		c.Note("corpus")
		c13RunCase(c, rng, map[int]c13Obj{}, "-", docs, false)
	})
	for i, withValid := range []bool{false, true} {
		withValid := withValid
		r.One(3+i, func(c *Case, rng *Rng) {
			g := &c13Gen{rng: rng, c: c, hot: []*c13Key{c13Pool[0]}}
			var docs []c13Doc
			if withValid {
				docs = append(docs, g.genCreate())
			}
			docs = append(docs, c13ApplyFault(g.genDelete(), "extraProperty", rng))
			c.Desc = "corpus (repaired defect): a document with a key outside the documented set must fail the whole stream"
			c.Nontrivial = true
			c.Note("corpus")
			c13RunCase(c, rng, map[int]c13Obj{1: {1: 2}}, "1:1=s2", docs, false)
		})
	}
	// corpus: histories with other writers (an Update answered 409 Conflict after somebody else's change)
	{
		cm, dep := c13Pool[0], c13Pool[4]
		jq := func(filter, body string, sub string, subID int) c13Doc {
			m := map[string]any{"operation": "JQPatch", "apiVersion": "v1", "kind": "ConfigMap", "namespace": cm.ns, "name": cm.name, "jqFilter": filter}
			if sub != "" {
				m["subresource"] = sub
			}
			return c13Doc{valid: true, family: "patch:q", m: m, key: cm.id, locks: true,
				desc: fmt.Sprintf("P/q/%d/1/%d/00/%s", cm.id, subID, body)}
		}
		cou := func(o c13Obj) c13Doc {
			return c13Doc{valid: true, inline: true, family: "create:CreateOrUpdate", key: dep.id, locks: true,
				m:    map[string]any{"operation": "CreateOrUpdate", "object": c13Manifest(dep, dep.kind.apiVersion, o)},
				desc: fmt.Sprintf("C/01/%d/1/%s", dep.id, c13ObjTok(dep.kind, o))}
		}
		type hist struct {
			desc    string
			init    map[int]c13Obj
			docs    []c13Doc
			writers []c13Writer
		}
		hs := []hist{
			{"a jq patch meets one other writer who added another field", map[int]c13Obj{cm.id: {1: 1}},
				[]c13Doc{jq(`.data.f2 = "s4"`, "set.2.s4", "", 0)}, []c13Writer{{cm.id, []c13Edit{{"set", 3, 7}}}}},
			{"a jq patch meets two other writers; the second one makes the patch a no-op", map[int]c13Obj{cm.id: {1: 1, 2: 2}},
				[]c13Doc{jq(`del(.data.f2)`, "del.2", "status", 1)}, []c13Writer{{cm.id, []c13Edit{{"set", 1, 5}}}, {cm.id, []c13Edit{{"del", 2, 0}}}}},
			{"a jq patch loses against four other writers in a row (retry budget), the next one goes through", map[int]c13Obj{cm.id: {1: 1}},
				[]c13Doc{jq(`.data.f2 = "s4"`, "set.2.s4", "", 0), jq(`.data.f3 = "s5"`, "set.3.s5", "", 0)},
				[]c13Writer{{cm.id, []c13Edit{{"set", 1, 2}}}, {cm.id, []c13Edit{{"set", 1, 3}}}, {cm.id, []c13Edit{{"set", 1, 4}}}, {cm.id, []c13Edit{{"set", 1, 5}}}}},
			{"CreateOrUpdate of an existing object meets another writer, then a jq patch meets one", map[int]c13Obj{cm.id: {3: 3}, dep.id: {1: 1}},
				[]c13Doc{cou(c13Obj{2: 6}), jq(`.data.f1 = "s9" | del(.data.f3)`, "set.1.s9+del.3", "", 0)},
				[]c13Writer{{cm.id, []c13Edit{{"set", 2, 8}}}, {dep.id, []c13Edit{{"set", 3, 4}}}}},
		}
		for i, h := range hs {
			h := h
			r.One(5+i, func(c *Case, rng *Rng) {
				c.Desc = "corpus (history): " + h.desc
				c.Nontrivial = true
				c.Note("corpus")
				c13RunCase(c, rng, h.init, c13InitTok(h.init), h.docs, false, h.writers...)
			})
		}
		// corpus: an invalid document behind a valid document with the same keys and JSON types
		twins := []struct {
			fault string
			doc   c13Doc
		}{
			{"emptyPayload", cou(c13Obj{1: 2})},
			{"emptyPayload", c13Doc{valid: true, inline: true, family: "patch:m", key: cm.id,
				m:    map[string]any{"operation": "MergePatch", "kind": "ConfigMap", "namespace": cm.ns, "name": cm.name, "mergePatch": map[string]any{"data": map[string]any{"f1": "s3"}}},
				desc: fmt.Sprintf("P/m/%d/1/0/00/set.1.s3", cm.id)}},
			{"emptyPayload", c13Doc{valid: true, inline: true, family: "patch:j", key: cm.id,
				m:    map[string]any{"operation": "JSONPatch", "kind": "ConfigMap", "namespace": cm.ns, "name": cm.name, "jsonPatch": []any{map[string]any{"op": "add", "path": "/data/f2", "value": "s3"}}},
				desc: fmt.Sprintf("P/j/%d/1/0/00/set.2.s3", cm.id)}},
			{"patchItemField", c13Doc{valid: true, inline: true, family: "patch:j", key: cm.id,
				m:    map[string]any{"operation": "JSONPatch", "kind": "ConfigMap", "namespace": cm.ns, "name": cm.name, "jsonPatch": []any{map[string]any{"op": "add", "path": "/data/f2", "value": "s3"}}},
				desc: fmt.Sprintf("P/j/%d/1/0/00/set.2.s3", cm.id)}},
		}
		for i, tw := range twins {
			tw := tw
			r.One(9+i, func(c *Case, rng *Rng) {
				c.Desc = "corpus: a valid document followed by its copy with one value-level fault (" + tw.fault + ")"
				c.Nontrivial = true
				c.Note("corpus")
				init := map[int]c13Obj{cm.id: {1: 1}}
				c13RunCase(c, rng, init, c13InitTok(init), []c13Doc{tw.doc, c13ApplyFault(tw.doc, tw.fault, rng)}, false)
			})
		}
	}
	c13OperatorCorpus(r, 13)
	r.One(17, func(c *Case, rng *Rng) {
		// scalars the decoders type differently, in all three kinds of inline payload
		dep := c13Pool[4]
		big, date, nested := c13ExoBase+0, c13ExoBase+10, c13ExoBase+24
		o := c13Obj{1: big, 2: date}
		docs := []c13Doc{
			{valid: true, inline: true, family: "create:CreateOrUpdate", key: dep.id, locks: true,
				m:    map[string]any{"operation": "CreateOrUpdate", "object": c13Manifest(dep, dep.kind.apiVersion, o)},
				desc: fmt.Sprintf("C/01/%d/1/%s", dep.id, c13ObjTok(dep.kind, o))},
			{valid: true, inline: true, family: "patch:m", key: dep.id,
				m: map[string]any{"operation": "MergePatch", "apiVersion": "apps/v1", "kind": "Deployment", "namespace": dep.ns, "name": dep.name,
					"mergePatch": map[string]any{"spec": map[string]any{"revisionHistoryLimit": dep.kind.val(nested)}}},
				desc: fmt.Sprintf("P/m/%d/1/0/00/set.3.%s", dep.id, dep.kind.tok(nested))},
			{valid: true, inline: true, family: "patch:j", key: dep.id,
				m: map[string]any{"operation": "JSONPatch", "apiVersion": "apps/v1", "kind": "Deployment", "namespace": dep.ns, "name": dep.name,
					"jsonPatch": []any{map[string]any{"op": "add", "path": "/spec/replicas", "value": dep.kind.val(date)}}},
				desc: fmt.Sprintf("P/j/%d/1/0/00/set.1.%s", dep.id, dep.kind.tok(date))},
		}
		c.Desc = "corpus: an integer above MaxInt64, an unquoted timestamp and a nested map of both in an inline object / mergePatch / jsonPatch (existing object)"
		c.Nontrivial = true
		c.Note("corpus")
		init := map[int]c13Obj{dep.id: {1: 1}}
		c13RunCase(c, rng, init, c13InitTok(init), docs, false)
	})
	// corpus: one kind served at two versions, addressed at both within a stream and across executions
	{
		w1, wa := c13FindKey("example.com/v1", "Widget", "default", "a"), c13FindKey("example.com/v1alpha1", "Widget", "default", "a")
		coords := func(m map[string]any, k *c13Key) map[string]any {
			m["apiVersion"], m["kind"], m["namespace"], m["name"] = k.kind.apiVersion, k.kind.name, k.ns, k.name
			return m
		}
		merge := func(k *c13Key, f, n int) c13Doc {
			return c13Doc{valid: true, inline: true, family: "patch:m", key: k.id,
				m:    coords(map[string]any{"operation": "MergePatch", "mergePatch": map[string]any{"spec": map[string]any{k.kind.fields[f-1]: k.kind.val(n)}}}, k),
				desc: fmt.Sprintf("P/m/%d/1/0/00/set.%d.%s", k.id, f, k.kind.tok(n))}
		}
		del := func(k *c13Key) c13Doc {
			return c13Doc{valid: true, inline: true, family: "delete:DeleteInBackground", key: k.id,
				m: coords(map[string]any{"operation": "DeleteInBackground"}, k), desc: fmt.Sprintf("D/bg/%d/1/0", k.id)}
		}
		jq := func(k *c13Key, f, n int) c13Doc {
			return c13Doc{valid: true, family: "patch:q", key: k.id, locks: true,
				m:    coords(map[string]any{"operation": "JQPatch", "jqFilter": fmt.Sprintf(`.spec.%s = "s%d"`, k.kind.fields[f-1], n)}, k),
				desc: fmt.Sprintf("P/q/%d/1/0/00/set.%d.s%d", k.id, f, n)}
		}
		cou := func(k *c13Key, o c13Obj) c13Doc {
			return c13Doc{valid: true, inline: true, family: "create:CreateOrUpdate", key: k.id, locks: true,
				m:    map[string]any{"operation": "CreateOrUpdate", "object": c13Manifest(k, k.kind.apiVersion, o)},
				desc: fmt.Sprintf("C/01/%d/1/%s", k.id, c13ObjTok(k.kind, o))}
		}
		seqs := []struct {
			desc string
			init map[int]c13Obj
			runs []c13Exec1
		}{
			{"merge patches of the v1alpha1 and of the v1 object in one stream, then (next execution) a delete of the v1 object",
				map[int]c13Obj{w1.id: {1: 1}, wa.id: {1: 2}},
				[]c13Exec1{{docs: []c13Doc{merge(wa, 2, 3), merge(w1, 3, 4)}}, {docs: []c13Doc{del(w1)}}}},
			{"CreateOrUpdate at v1, next execution: jq patch and delete at v1alpha1, third execution: jq patch at v1",
				map[int]c13Obj{wa.id: {1: 5}},
				[]c13Exec1{{docs: []c13Doc{cou(w1, c13Obj{2: 6})}}, {docs: []c13Doc{jq(wa, 3, 7), del(wa)}}, {docs: []c13Doc{jq(w1, 1, 8)}}}},
		}
		if r.Thorough() {
			// exhaustive small scope: every sequence of 1-3 operations over {merge patch, jq patch, background
			// delete, CreateOrUpdate} x {v1, v1alpha1} of one Widget, cut into successive executions in every
			// possible way, on both initial states (both objects absent / present)
			alphabet := []c13Doc{merge(w1, 1, 3), merge(wa, 1, 4), jq(w1, 2, 5), jq(wa, 2, 6), del(w1), del(wa), cou(w1, c13Obj{3: 7}), cou(wa, c13Obj{3: 8})}
			A := len(alphabet)
			type shape struct{ l, seq, cut int }
			var shapes []shape
			for l, p := 1, A; l <= 3; l, p = l+1, p*A {
				for seq := 0; seq < p; seq++ {
					for cut := 0; cut < 1<<(l-1); cut++ {
						shapes = append(shapes, shape{l, seq, cut})
					}
				}
			}
			r.Cases(2000000, 2*len(shapes), 64, func(c *Case, rng *Rng) {
				k := c.Idx - 2000000
				present := k%2 == 1
				sh := shapes[k/2]
				var runs []c13Exec1
				cur := c13Exec1{}
				for i, q := 0, sh.seq; i < sh.l; i, q = i+1, q/A {
					cur.docs = append(cur.docs, alphabet[q%A])
					if i == sh.l-1 || sh.cut&(1<<i) != 0 {
						runs = append(runs, cur)
						cur = c13Exec1{}
					}
				}
				init := map[int]c13Obj{}
				if present {
					init = map[int]c13Obj{w1.id: {1: 1}, wa.id: {1: 2}}
				}
				c.Nontrivial = sh.l >= 2
				c13RunSeq(c, rng, init, c13InitTok(init), runs)
			})
			r.Extra["exhaustive_scope_two_versions"] = fmt.Sprintf("all %d ways to cut a sequence of 1-3 operations over an %d-symbol alphabet (merge / jq patch, delete, CreateOrUpdate x Widget at v1 / v1alpha1) into successive executions x (objects absent | present)", len(shapes), A)
		}
		for i, sq := range seqs {
			sq := sq
			r.One(18+i, func(c *Case, rng *Rng) {
				c.Desc = "corpus (one kind at two versions): " + sq.desc
				c.Nontrivial = true
				c.Note("corpus")
				c13RunSeq(c, rng, sq.init, c13InitTok(sq.init), sq.runs)
			})
		}
	}
	n := r.N(400, 6000)
	r.Cases(100, n, 64, c13Random)
	// operator-level: real hook processes, Hook.Run, handleRunHook (hook succeeded / failed), two
	// executions overlapping in a prescribed interleaving (see c13_operator.go)
	r.Cases(20000, r.N(64, 700), 16, c13OperatorRandom(r))

	if r.Thorough() {
		// exhaustive small scope: every stream of 1-3 documents over a 12-symbol alphabet (3 create
		// variants of a Deployment with an integer field, 3 delete modes, merge / JSON patches with and
		// without ignoreMissingObject on it, a jq patch on a ConfigMap, one invalid document), on both
		// initial states (objects absent / present)
		dep, cm := c13Pool[4], c13Pool[0]
		create := func(mode, fl string) c13Doc {
			o := c13Obj{1: 1}
			return c13Doc{valid: true, inline: true, family: "create:" + mode,
				m:    map[string]any{"operation": mode, "object": c13Manifest(dep, dep.kind.apiVersion, o)},
				desc: fmt.Sprintf("C/%s/%d/1/%s", fl, dep.id, c13ObjTok(dep.kind, o))}
		}
		coords := func(m map[string]any, k *c13Key) map[string]any {
			m["apiVersion"], m["kind"], m["namespace"], m["name"] = k.kind.apiVersion, k.kind.name, k.ns, k.name
			return m
		}
		del := func(mode, p string) c13Doc {
			return c13Doc{valid: true, inline: true, family: "delete:" + mode,
				m: coords(map[string]any{"operation": mode}, dep), desc: fmt.Sprintf("D/%s/%d/1/0", p, dep.id)}
		}
		alphabet := []c13Doc{
			create("Create", "00"), create("CreateOrUpdate", "01"), create("CreateIfNotExists", "10"),
			del("Delete", "fg"), del("DeleteInBackground", "bg"), del("DeleteNonCascading", "or"),
			{valid: true, inline: true, family: "patch:m",
				m:    coords(map[string]any{"operation": "MergePatch", "subresource": "status", "mergePatch": map[string]any{"spec": map[string]any{"minReadySeconds": 7}}}, dep),
				desc: fmt.Sprintf("P/m/%d/1/1/00/set.2.i7", dep.id)},
			{valid: true, inline: true, family: "patch:m",
				m:    coords(map[string]any{"operation": "MergePatch", "ignoreMissingObject": true, "mergePatch": map[string]any{"spec": map[string]any{"replicas": nil}}}, dep),
				desc: fmt.Sprintf("P/m/%d/1/0/10/del.1", dep.id)},
			{valid: true, inline: true, family: "patch:j",
				m:    coords(map[string]any{"operation": "JSONPatch", "jsonPatch": []any{map[string]any{"op": "remove", "path": "/spec/minReadySeconds", "value": 0}}}, dep),
				desc: fmt.Sprintf("P/j/%d/1/0/00/rem.2", dep.id)},
			{valid: true, inline: true, family: "patch:j",
				m:    coords(map[string]any{"operation": "JSONPatch", "ignoreMissingObject": true, "subresource": "scale", "jsonPatch": []any{map[string]any{"op": "add", "path": "/spec/replicas", "value": 3}}}, dep),
				desc: fmt.Sprintf("P/j/%d/1/3/10/set.1.i3", dep.id)},
			{valid: true, inline: false, family: "patch:q",
				m:    coords(map[string]any{"operation": "JQPatch", "subresource": "/status", "jqFilter": `.data.f1 = "s4"`}, cm),
				desc: fmt.Sprintf("P/q/%d/1/2/00/set.1.s4", cm.id)},
		}
		alphabet = append(alphabet, c13ApplyFault(alphabet[3], "unknownOperation", NewRng(7)))
		A := len(alphabet)
		total := 0
		for l, p := 1, A; l <= 3; l++ {
			total += p
			p *= A
		}
		r.Cases(1000000, 3*total, 64, func(c *Case, rng *Rng) {
			k := c.Idx - 1000000
			present := k%3 >= 1
			withWriters := k%3 == 2
			k /= 3
			l := 1
			for p := A; k >= p; p *= A {
				k -= p
				l++
			}
			var docs []c13Doc
			for i := 0; i < l; i++ {
				docs = append(docs, alphabet[k%A])
				k /= A
			}
			init, initTok := map[int]c13Obj{}, "-"
			if present {
				init = map[int]c13Obj{cm.id: {1: 2}, dep.id: {1: 5, 2: 6}}
				initTok = fmt.Sprintf("%d:1=s2;%d:1=i5+2=i6", cm.id, dep.id)
			}
			c.Nontrivial = l >= 2
			var writers []c13Writer
			if withWriters {
				// somebody else changes both objects once before the first Update of each
				writers = []c13Writer{{cm.id, []c13Edit{{"set", 3, 7}}}, {dep.id, []c13Edit{{"set", 3, 8}}}}
			}
			c13RunCase(c, rng, init, initTok, docs, false, writers...)
		})
		r.Exhaust = true
		r.Extra["exhaustive_scope"] = fmt.Sprintf("all %d streams of 1-3 documents over a %d-symbol alphabet x (objects absent | present | present with one other writer per object)", total, A)
	}
}
