package main

import (
	"bufio"
	"bytes"
	"encoding/json"
	"fmt"
	"os"
	"os/exec"
	"path/filepath"
	"strconv"
	"strings"
)

// suites maps a suite name (c05, c07, …) to its entry point.
var suites = map[string]func(*Run){}

func main() {
	if len(os.Args) < 2 {
		fmt.Fprintln(os.Stderr, "usage: harness <suite> [--seed N] [--tier quick|thorough] [--out DIR] [--case N]")
		os.Exit(2)
	}
	name := os.Args[1]
	fn, ok := suites[name]
	if !ok {
		fmt.Fprintf(os.Stderr, "unknown suite %q\n", name)
		os.Exit(2)
	}
	if os.Getenv("VERIF_HARNESS_CHILD") == "1" {
		r := newRun(name, os.Args[2:])
		warmCaches()
		fn(r)
		r.finish()
		return
	}
	supervise(name, os.Args[2:])
}

// supervise runs the suite in a child process. A panic in a goroutine of the implementation kills
// the child; the supervisor then finds the crashing case (journal of started/finished cases, then
// each in-flight case alone), records it as a `process-crash` observation and runs the rest again.
func supervise(name string, args []string) {
	probe := newRun(name, args) // parses flags, creates out dir
	out := probe.OutDir
	type crash struct {
		Idx   int
		Lines []string
		Msg   string
	}
	var crashes []crash
	skip := map[int]bool{}
	for attempt := 0; ; attempt++ {
		_ = os.Remove(filepath.Join(out, "journal.txt"))
		msg, ok := runChild(name, args, skip, -1, out)
		if ok {
			break
		}
		if len(crashes) >= 3 {
			// the implementation keeps crashing: report the crash cases found and stop exploring
			_ = os.WriteFile(filepath.Join(out, "ops.txt"), nil, 0o644)
			_ = os.WriteFile(filepath.Join(out, "impl.txt"), nil, 0o644)
			b, _ := json.Marshal(map[string]any{"suite": name, "seed": probe.Seed, "tier": probe.Tier,
				"evaluations": 0, "distinct_nontrivial": 0, "rule": "aborted: the implementation crashed the process in >= 3 cases",
				"samples": []any{}, "cases": []any{}, "aborted": true})
			_ = os.WriteFile(filepath.Join(out, "meta.json"), b, 0o644)
			break
		}
		inflight := readInflight(filepath.Join(out, "journal.txt"))
		found := false
		for _, idx := range inflight {
			sub := filepath.Join(out, fmt.Sprintf("solo-%d", idx))
			_ = os.MkdirAll(sub, 0o755)
			m, ok2 := runChild(name, args, nil, idx, sub)
			if !ok2 {
				lines := readLines(filepath.Join(sub, "case-journal.txt"))
				crashes = append(crashes, crash{idx, lines, m})
				skip[idx] = true
				found = true
			}
			_ = os.RemoveAll(sub)
		}
		if !found {
			// not reproducible alone: blame every in-flight case conservatively
			for _, idx := range inflight {
				crashes = append(crashes, crash{idx, nil, msg + " (not reproduced alone)"})
				skip[idx] = true
			}
			if len(inflight) == 0 {
				fmt.Fprintln(os.Stderr, "harness: child crashed outside any case: "+msg)
				os.Exit(3)
			}
		}
	}
	if len(crashes) == 0 {
		return
	}
	// append the crash cases to the outputs of the last (successful) child run
	opsF, _ := os.OpenFile(filepath.Join(out, "ops.txt"), os.O_APPEND|os.O_WRONLY, 0o644)
	implF, _ := os.OpenFile(filepath.Join(out, "impl.txt"), os.O_APPEND|os.O_WRONLY, 0o644)
	var meta map[string]any
	b, _ := os.ReadFile(filepath.Join(out, "meta.json"))
	_ = json.Unmarshal(b, &meta)
	cases, _ := meta["cases"].([]any)
	for _, c := range crashes {
		fmt.Fprintf(opsF, "case %d\n", c.Idx)
		fmt.Fprintf(implF, "case %d\n", c.Idx)
		n := 0
		for _, l := range c.Lines {
			parts := strings.SplitN(l, "\t", 2)
			if len(parts) != 2 {
				continue
			}
			fmt.Fprintln(opsF, parts[0])
			fmt.Fprintln(implF, parts[1])
			n++
		}
		fmt.Fprintln(opsF, "process-crash")
		fmt.Fprintln(implF, "crash "+c.Msg)
		cases = append(cases, map[string]any{"idx": c.Idx, "desc": "implementation crashed the process", "lines": n + 1})
	}
	meta["cases"] = cases
	meta["process_crashes"] = len(crashes)
	if ev, ok := meta["evaluations"].(float64); ok {
		meta["evaluations"] = int(ev) + len(crashes)
	}
	b, _ = json.MarshalIndent(meta, "", " ")
	_ = os.WriteFile(filepath.Join(out, "meta.json"), b, 0o644)
	opsF.Close()
	implF.Close()
}

func runChild(name string, args []string, skip map[int]bool, only int, out string) (string, bool) {
	a := append([]string{name}, args...)
	a = append(a, "--out", out) // later flag wins
	if only >= 0 {
		a = append(a, "--case", strconv.Itoa(only))
	}
	cmd := exec.Command(os.Args[0], a...)
	var sk []string
	for k := range skip {
		sk = append(sk, strconv.Itoa(k))
	}
	cmd.Env = append(os.Environ(), "VERIF_HARNESS_CHILD=1", "VERIF_SKIP_CASES="+strings.Join(sk, ","))
	var stderr bytes.Buffer
	cmd.Stdout = os.Stdout
	cmd.Stderr = &stderr
	err := cmd.Run()
	if err == nil {
		return "", true
	}
	msg := "exit: " + err.Error()
	site := ""
	for _, l := range strings.Split(stderr.String(), "\n") {
		if strings.HasPrefix(l, "panic:") || strings.HasPrefix(l, "fatal error:") {
			msg = strings.TrimSpace(l)
		}
		t := strings.TrimSpace(l)
		if site == "" && strings.HasPrefix(t, "/repo/") {
			if i := strings.IndexByte(t, ' '); i > 0 {
				t = t[:i]
			}
			site = t
		}
	}
	if len(stderr.String()) > 0 && os.Getenv("VERIF_HARNESS_DEBUG") != "" {
		fmt.Fprintln(os.Stderr, stderr.String())
	}
	return msg + " @ " + site, false
}

func readInflight(path string) []int {
	started := map[int]bool{}
	var order []int
	for _, l := range readLines(path) {
		f := strings.Fields(l)
		if len(f) != 2 {
			continue
		}
		n, _ := strconv.Atoi(f[1])
		if f[0] == "start" {
			started[n] = true
			order = append(order, n)
		} else {
			delete(started, n)
		}
	}
	var res []int
	for _, n := range order {
		if started[n] {
			res = append(res, n)
		}
	}
	return res
}

func readLines(path string) []string {
	f, err := os.Open(path)
	if err != nil {
		return nil
	}
	defer f.Close()
	var ls []string
	sc := bufio.NewScanner(f)
	sc.Buffer(make([]byte, 1<<20), 1<<26)
	for sc.Scan() {
		ls = append(ls, sc.Text())
	}
	return ls
}
