package main

import (
	"context"
	"encoding/hex"
	"encoding/json"
	"fmt"
	"io"
	"os"
	"path/filepath"
	"reflect"
	"regexp"
	"sort"
	"strings"
	"sync"
	"time"

	"github.com/deckhouse/deckhouse/pkg/log"
	metav1 "k8s.io/apimachinery/pkg/apis/meta/v1"

	"github.com/flant/kube-client/fake"
	"github.com/flant/kube-client/manifest"
	"github.com/flant/shell-operator/pkg/app"
	"github.com/flant/shell-operator/pkg/hook"
	bctx "github.com/flant/shell-operator/pkg/hook/binding_context"
	"github.com/flant/shell-operator/pkg/hook/task_metadata"
	htypes "github.com/flant/shell-operator/pkg/hook/types"
	objectpatch "github.com/flant/shell-operator/pkg/kube/object_patch"
	metricstorage "github.com/flant/shell-operator/pkg/metric_storage"
	shell_operator "github.com/flant/shell-operator/pkg/shell-operator"
	"github.com/flant/shell-operator/pkg/task"
	"github.com/flant/shell-operator/pkg/task/queue"
	utils "github.com/flant/shell-operator/pkg/utils/file"
	"gopkg.in/alecthomas/kingpin.v2"
	"gopkg.in/yaml.v3"
)

func init() { suites["c12"] = runC12 }

// ---------------------------------------------------------------- the generated hook

const c12HookScript = `#!/bin/bash
if [[ "$1" == "--config" ]]; then
  echo '{"configVersion":"v1","onStartup":10}'
  exit 0
fi
B=%q
id=$(jq -r '.[0].binding' "$BINDING_CONTEXT_PATH" 2>/dev/null)
if [[ -z "$id" ]]; then id="lost-$$"; fi
R="$B/rec/$id"; S="$B/scripts/$id"
mkdir -p "$R"
pwd > "$R/pwd"
for v in BINDING_CONTEXT_PATH METRICS_PATH CONVERSION_RESPONSE_PATH VALIDATING_RESPONSE_PATH ADMISSION_RESPONSE_PATH KUBERNETES_PATCH_PATH; do
  if [[ -n "${!v}" && -f "${!v}" && -r "${!v}" && -w "${!v}" ]]; then echo 1; else echo 0; fi
done > "$R/access"
for v in BINDING_CONTEXT_PATH METRICS_PATH CONVERSION_RESPONSE_PATH VALIDATING_RESPONSE_PATH ADMISSION_RESPONSE_PATH KUBERNETES_PATCH_PATH; do
  echo "$v=${!v}"
done > "$R/env"
for v in METRICS_PATH CONVERSION_RESPONSE_PATH ADMISSION_RESPONSE_PATH KUBERNETES_PATCH_PATH; do
  stat -c %%s "${!v}"
done > "$R/sizes"
cp "$BINDING_CONTEXT_PATH" "$R/context"
for f in metrics:METRICS_PATH conversion:CONVERSION_RESPONSE_PATH admission:ADMISSION_RESPONSE_PATH patch:KUBERNETES_PATCH_PATH; do
  n=${f%%%%:*}; v=${f##*:}
  if [[ -f "$S/$n.delete" ]]; then rm -f "${!v}"; elif [[ -f "$S/$n" ]]; then cat "$S/$n" > "${!v}"; fi
done
if [[ -f "$S/sleep" ]]; then sleep "$(cat "$S/sleep")"; fi
if [[ -f "$S/stderr" ]]; then echo "hook $id complains on stderr" >&2; fi
if [[ -f "$S/kill" ]]; then kill -KILL $$; fi
if [[ ! -f "$S/exit" ]]; then exit 97; fi
exit "$(cat "$S/exit")"
`

// ---------------------------------------------------------------- scripted outputs

type c12Exec struct {
	eid     int
	hook    int
	q       int
	allow   bool
	exit    int
	metrics string
	adm     string
	conv    string
	patch   string
	nctx    int
	sleepMs int
	stderr  bool // the hook writes a line to stderr (not a failure by itself)
	killed  bool // the hook process ends by SIGKILL instead of exit (a non-zero exit for the executor)

	// the text written into each output file (decided at generation; "" + class deleted/empty = untouched)
	mtext, atext, ctext, ptext string
	pfmt                       string // patch text is a JSON stream ("json") or YAML ("yaml")
	texted                     bool

	// patch class "marked": the operations of the patch file (the own Create first), see c12Marked
	pops []c12POp

	// sixth wave: chance (percent, per file kind) that the generated text is padded so that a landmark
	// of it falls on a read boundary, see c12SizeRandom; what was done, for the input distribution
	sizePct   map[string]int
	sizeNotes []string

	// observed
	status   string
	admProp  bool
	convProp bool
}

// one operation of a "marked" patch file
type c12POp struct {
	isPatch bool   // MergePatch / JSONPatch / JQPatch (a *patchOperation) — otherwise Create
	ignore  bool   // ignoreHookError: true
	sub     string // subresource
	target  string // the ConfigMap it creates / patches
}

func c12Pm(ops []c12POp) string {
	if len(ops) == 0 {
		return "-"
	}
	var fs []string
	for _, o := range ops {
		k := "c"
		if o.isPatch {
			k = "p"
		}
		fs = append(fs, k+c13B01(o.ignore)+":"+c12Hex(o.sub))
	}
	return strings.Join(fs, ",")
}

func c12Mask(bs []bool) string {
	if len(bs) == 0 {
		return "-"
	}
	var fs []string
	for _, b := range bs {
		fs = append(fs, c13B01(b))
	}
	return strings.Join(fs, ",")
}

func c12TargetName(eid, i int) string { return fmt.Sprintf("c12-t-%d-%d", eid, i) }

// one patch-type operation on target, as JSON or as a YAML document
func c12PatchOpText(rng *Rng, typ string, o c12POp, asYAML bool, explicitFalse bool) string {
	if asYAML {
		t := fmt.Sprintf("operation: %s\napiVersion: v1\nkind: ConfigMap\nnamespace: default\nname: %s\n", typ, o.target)
		if o.sub != "" {
			t += fmt.Sprintf("subresource: %q\n", o.sub)
		}
		if o.ignore {
			t += "ignoreHookError: true\n"
		} else if explicitFalse {
			t += "ignoreHookError: false\n"
		}
		switch typ {
		case "MergePatch":
			t += "mergePatch:\n  data:\n    p: \"1\"\n"
		case "JSONPatch":
			t += "jsonPatch:\n- op: add\n  path: /data/p\n  value: \"1\"\n"
		default:
			t += "jqFilter: '.data.p = \"1\"'\n"
		}
		return t
	}
	fields := []string{fmt.Sprintf(`"operation":"%s"`, typ), `"apiVersion":"v1"`, `"kind":"ConfigMap"`, `"namespace":"default"`, fmt.Sprintf(`"name":"%s"`, o.target)}
	var extra []string
	if o.sub != "" {
		extra = append(extra, fmt.Sprintf(`"subresource":%q`, o.sub))
	}
	if o.ignore {
		extra = append(extra, `"ignoreHookError":true`)
	} else if explicitFalse {
		extra = append(extra, `"ignoreHookError":false`)
	}
	switch typ {
	case "MergePatch":
		extra = append(extra, `"mergePatch":{"data":{"p":"1"}}`)
	case "JSONPatch":
		extra = append(extra, `"jsonPatch":[{"op":"add","path":"/data/p","value":"1"}]`)
	default:
		extra = append(extra, `"jqFilter":".data.p = \"1\""`)
	}
	// the markers before or after the payload
	if rng.Bool() {
		for i, j := 0, len(extra)-1; i < j; i, j = i+1, j-1 {
			extra[i], extra[j] = extra[j], extra[i]
		}
	}
	return "{" + strings.Join(append(fields, extra...), ",") + "}"
}

var c12PatchTypes = []string{"MergePatch", "JSONPatch", "JQPatch"}

// the text of a "marked" patch file: the execution's own Create operation, then 1-4 patch-type
// operations, each on its own pre-created ConfigMap, with every combination of the two markers
// `ignoreHookError` and `subresource: /status` (kube-client/fake applies a patch of a subresource
// to the object itself, so "applied" is visible as data.p = "1")
func c12Marked(x *c12Exec, rng *Rng) (string, string) {
	asYAML := rng.Chance(30)
	own := c12POp{isPatch: false, target: c12ObjName(x.eid)}
	if rng.Chance(25) { // the markers on an operation that is no patch: never eligible
		own.ignore = true
	}
	x.pops = []c12POp{own}
	var docs []string
	if asYAML {
		t := fmt.Sprintf("operation: Create\nobject:\n  apiVersion: v1\n  kind: ConfigMap\n  metadata:\n    name: %s\n    namespace: default\n  data:\n    k: v\n", own.target)
		if own.ignore {
			t += "ignoreHookError: true\n"
		}
		docs = append(docs, t)
	} else {
		ig := ""
		if own.ignore {
			ig = `,"ignoreHookError":true`
		}
		docs = append(docs, fmt.Sprintf(`{"operation":"Create","object":{"apiVersion":"v1","kind":"ConfigMap","metadata":{"name":"%s","namespace":"default"},"data":{"k":"v"}}%s}`, own.target, ig))
	}
	n := rng.Range(1, 4)
	for i := 1; i <= n; i++ {
		o := c12POp{isPatch: true, ignore: rng.Bool(), target: c12TargetName(x.eid, i)}
		switch r := rng.Intn(100); {
		case r < 50:
			o.sub = "/status"
		case r < 58: // other subresources / spellings: not the status subresource of the exception
			o.sub = PickOne(rng, []string{"/scale", "status", "/Status", "/status/"})
		}
		x.pops = append(x.pops, o)
		docs = append(docs, c12PatchOpText(rng, PickOne(rng, c12PatchTypes), o, asYAML, rng.Chance(30)))
	}
	if asYAML {
		return strings.Join(docs, "---\n"), "yaml"
	}
	return strings.Join(docs, PickOne(rng, []string{"\n", "\n", " ", ""})) + "\n", "json"
}

var c12MetricsClasses = []string{"empty", "valid", "badbatch", "truncated", "wrongtype", "deleted"}
var c12RespClasses = []string{"empty", "valid", "truncated", "wrongtype", "deleted"}
var c12PatchClasses = []string{"empty", "valid", "applyerr", "invaliddoc", "truncated", "wrongtype", "deleted"}

// third wave: more shapes of malformed text (the driver decides from the text whether a file is
// well-formed; the class is the generator's intention and the bucket name)
var c12MalformedShapes = []string{"strayclose", "garbage", "badtoken", "blank"}
var c12MetricsClassesAll = append(append([]string{}, c12MetricsClasses...), c12MalformedShapes...)
var c12RespClassesAll = append(append(append([]string{}, c12RespClasses...), c12MalformedShapes...), "twodocs")
var c12PatchClassesAll = append(append(append([]string{}, c12PatchClasses...), c12MalformedShapes...), "marked")

// does a YAML reader accept the whole text (as a sequence of documents of any shape)?
func c12IsYAML(text string) bool {
	dec := yaml.NewDecoder(strings.NewReader(text))
	for {
		var n yaml.Node
		err := dec.Decode(&n)
		if err == io.EOF {
			return true
		}
		if err != nil {
			return false
		}
	}
}

func c12Hex(s string) string { return "x" + hex.EncodeToString([]byte(s)) }

var c12Seps = []string{"\n", "\n", " ", "", "\r\n", "\t", "\n\n"}

// a number in every form encoding/json accepts
func c12Num(rng *Rng) string {
	return PickOne(rng, []string{"1", "2", "7", "10", "0", "-3", "2.50", "0.5", "-0.25", "1e2", "1E+2", "25e-1", "1.5e1"})
}

// a field encoding/json ignores (unknown name), with a value that exercises the whole grammar
func c12ExtraField(rng *Rng) string {
	return PickOne(rng, []string{
		`"zz":null`, `"zz":[]`, `"zz":{}`, `"zz":[1,-2.5e-3,null,true,false,"s"]`, `"zz":{"k":{"l":[{"m":"\u0041\n\"q\"\\"}]}}`,
		`"zz" : [ 1 , 2 ]`, `"zz":"{not a } brace]"`, `"zz":"\/\b\f\r\t"`,
	})
}

// damage a well-formed text (recs = its records / documents, joined by sep): the result is malformed
// JSON whatever the records are
func c12Malform(rng *Rng, shape string, recs []string, sep string) string {
	join := func(rs []string) string { return strings.Join(rs, sep) }
	last := recs[len(recs)-1]
	switch shape {
	case "truncated":
		// cut strictly inside the last record: what is left of it is an unclosed value
		cut := 1 + rng.Intn(len(last)-1)
		return join(append(append([]string{}, recs[:len(recs)-1]...), last[:cut]))
	case "strayclose":
		cl := PickOne(rng, []string{"}", "]", "}", "]", "}}", "]}", "} ]"})
		switch rng.Intn(6) {
		case 0: // glued to the last record: {...}}
			return join(recs) + cl + PickOne(rng, []string{"", "\n"})
		case 1: // on its own line after the last record (a badly sliced array)
			return join(recs) + "\n" + cl + "\n"
		case 2: // before the first record (tail of a torn write)
			return cl + PickOne(rng, []string{"", "\n", " "}) + join(recs) + "\n"
		case 3: // nothing but the closer
			return cl + PickOne(rng, []string{"", "\n"})
		case 4: // between two records
			return join(recs) + PickOne(rng, []string{"", "\n", " "}) + cl + "\n" + last + "\n"
		default: // after white space
			return join(recs) + " \t" + cl
		}
	case "garbage":
		g := PickOne(rng, []string{"garbage", "x", ",", "{", "[", ":", "\"", "nul", "tru", "-", "\x00", "{\"name\"", "//c", "undefined", "'a'", ";"})
		switch rng.Intn(4) {
		case 0:
			return join(recs) + g
		case 1:
			return join(recs) + "\n" + g + "\n"
		case 2:
			return g + PickOne(rng, []string{"", "\n", " "}) + join(recs) + "\n"
		default:
			return join(recs) + " " + g + " " + last
		}
	case "badtoken":
		bad := last
		switch rng.Intn(9) {
		case 0:
			bad = strings.Replace(bad, ":", "=", 1)
		case 1:
			bad = strings.ReplaceAll(bad, "\"", "'")
		case 2: // unquoted first key
			if i := strings.Index(bad, "\""); i >= 0 {
				if j := strings.Index(bad[i+1:], "\""); j >= 0 {
					bad = bad[:i] + bad[i+1:i+1+j] + bad[i+2+j:]
				}
			}
		case 3: // trailing comma
			if i := strings.LastIndex(bad, "}"); i >= 0 {
				bad = bad[:i] + "," + bad[i:]
			}
		case 4: // a number that is none, as the value of an ignored field
			if i := strings.Index(bad, "{"); i >= 0 {
				bad = bad[:i+1] + `"zz":` + PickOne(rng, []string{"01", "+1", ".5", "1.", "1e", "0x10", "NaN", "-", "1.e2", "--1", "1e+"}) + "," + bad[i+1:]
			}
		case 5: // a raw control character inside a string
			if i := strings.Index(bad, "{"); i >= 0 {
				bad = bad[:i+1] + "\"zz\":\"a" + PickOne(rng, []string{"\n", "\t", "\x01"}) + "b\"," + bad[i+1:]
			}
		case 6: // an escape that does not exist
			if i := strings.Index(bad, "{"); i >= 0 {
				bad = bad[:i+1] + `"zz":"a` + PickOne(rng, []string{`\x41`, `\u00g1`, `\a`, `\'`, `\u12`}) + `b",` + bad[i+1:]
			}
		case 7: // a literal that does not exist
			if i := strings.Index(bad, "{"); i >= 0 {
				bad = bad[:i+1] + `"zz":` + PickOne(rng, []string{"True", "nil", "NULL", "tru", "falsey", "nulll"}) + "," + bad[i+1:]
			}
		default: // missing comma / colon
			if i := strings.Index(bad, "{"); i >= 0 {
				bad = bad[:i+1] + PickOne(rng, []string{`"zz":1 `, `"zz" 1,`, `"zz":,`, `,`, `"zz":1,,`, `1:2,`}) + bad[i+1:]
			}
		}
		if bad == last { // a record without braces / quotes (null): make it a non-token
			bad = last + "?"
		}
		return join(append(append([]string{}, recs[:len(recs)-1]...), bad)) + "\n"
	case "blank": // nothing but white space: not a document
		return PickOne(rng, []string{" ", "\n", "\t\n", "  \r\n "})
	case "twodocs":
		return last + PickOne(rng, []string{"", "\n", " "}) + last + "\n"
	}
	return join(recs)
}

// ---------------------------------------------------------------- sixth wave: the SIZE of an output file
//
// The readers of the output files take their input in pieces (encoding/json's Decoder reads 512 bytes
// first and grows its buffer to 1536, 3584, 7680 ...; io.ReadAll starts with 512 bytes; bufio with
// 4096): "what follows the first document" may or may not have been read yet when a reader decides.
// Whether a file is well-formed does not depend on where these boundaries fall, so the generator puts
// the landmarks of a text — the end of its first value, the end of the white space after it, its end —
// exactly on, one before and one after such a boundary, by padding that never changes what the text
// means: white space before the text / after the first `{` / after the first value, or an ignored
// field holding one long string after the first `{`.
var c12ReadBoundaries = []int{512, 512, 512, 512, 1536, 1536, 1536, 3584, 3584, 1024, 2048, 4096, 7680, 8192}

// the first JSON value of a text: where it starts and ends, and where the white space after it ends
func c12FirstValue(text string) (int, int, int, bool) {
	dec := json.NewDecoder(strings.NewReader(text))
	var raw json.RawMessage
	if err := dec.Decode(&raw); err != nil {
		return 0, 0, 0, false
	}
	end := int(dec.InputOffset())
	wsEnd := end
	for wsEnd < len(text) && strings.ContainsRune(" \t\r\n", rune(text[wsEnd])) {
		wsEnd++
	}
	return end - len(raw), end, wsEnd, true
}

func c12WsPad(rng *Rng, n int, spacesOnly bool) string {
	if spacesOnly || rng.Chance(40) {
		return strings.Repeat(" ", n)
	}
	b := make([]byte, n)
	for i := range b {
		const ws = " \n\t \r "
		b[i] = ws[rng.Intn(len(ws))]
	}
	return string(b)
}

// c12Size pads text so that the landmark ("first": end of the first value; "firstws": end of the
// white space after it; "total": end of the text) is at byte offset `at`. pad: "before" (white space
// in front), "inside" (white space after the first `{`), "field" (an ignored field after the first `{`),
// "after" (white space after the first value). false = not possible for this text.
func c12Size(rng *Rng, kind, text string, at int, landmark, pad string) (string, bool) {
	start, end, wsEnd, ok := c12FirstValue(text)
	var lm int
	switch {
	case landmark == "total":
		lm = len(text)
	case !ok:
		return "", false
	case landmark == "first":
		lm = end
	default:
		lm = wsEnd
	}
	need := at - lm
	if need < 0 {
		return "", false
	}
	if need == 0 {
		return text, true
	}
	brace := -1 // the `{` that opens the first value (or the text, when the first value is damaged)
	if ok && text[start] == '{' {
		brace = start
	} else if !ok {
		if t := strings.TrimLeft(text, " \t\r\n"); strings.HasPrefix(t, "{") {
			brace = len(text) - len(t)
		}
	}
	spacesOnly := kind == "patch" // a damaged patch text goes to the YAML reader: no tabs
	var out string
	switch pad {
	case "before":
		out = c12WsPad(rng, need, spacesOnly) + text
	case "after":
		if !ok || landmark == "first" {
			return "", false
		}
		out = text[:end] + c12WsPad(rng, need, spacesOnly) + text[end:]
	case "inside":
		if brace < 0 {
			return "", false
		}
		out = text[:brace+1] + c12WsPad(rng, need, spacesOnly) + text[brace+1:]
	case "field":
		// not for the patch file (its fields are checked against the list of known ones)
		if brace < 0 || kind == "patch" {
			return "", false
		}
		rest := strings.TrimLeft(text[brace+1:], " \t\r\n")
		f, min := `"pad":"%s",`, 9
		if !ok || strings.HasPrefix(rest, "}") || rest == "" {
			f, min = `"pad":"%s"`, 8
			if !strings.HasPrefix(rest, "}") {
				return "", false
			}
		}
		if need < min {
			return "", false
		}
		out = text[:brace+1] + fmt.Sprintf(f, strings.Repeat(PickOne(rng, []string{"p", "a", "}", "{", " "}), need-min)) + text[brace+1:]
	default:
		return "", false
	}
	return out, true
}

// c12SizeRandom: a random landmark on (60%) / next to a random read boundary, by a random padding
func c12SizeRandom(rng *Rng, kind, text string) (string, string, bool) {
	if kind == "patch" && !strings.HasPrefix(strings.TrimLeft(text, " \t\r\n"), "{") {
		return "", "", false // a YAML patch: indentation matters
	}
	wasYAML := kind == "patch" && c12IsYAML(text)
	for try := 0; try < 6; try++ {
		b := PickOne(rng, c12ReadBoundaries)
		d := PickOne(rng, []int{0, 0, 0, 0, 0, 0, -1, 1, 1, 2})
		lm := PickOne(rng, []string{"first", "first", "firstws", "firstws", "total"})
		pad := PickOne(rng, []string{"inside", "inside", "field", "field", "before", "after"})
		t, ok := c12Size(rng, kind, text, b+d, lm, pad)
		if !ok || t == text {
			continue
		}
		if kind == "patch" && c12IsYAML(t) != wasYAML {
			continue // (the generator stays out of "damaged JSON that a YAML reader accepts")
		}
		ds := "on"
		if d < 0 {
			ds = "before"
		} else if d > 0 {
			ds = "after"
		}
		return t, fmt.Sprintf("%s-%s-boundary-%d", lm, ds, b), true
	}
	return "", "", false
}

func c12MetricName(eid int) string { return fmt.Sprintf("c12_m_%d", eid) }
func c12ObjName(eid int) string    { return fmt.Sprintf("c12-%d", eid) }

// content of an output file for a class ("" + false = leave the file as it is: empty); the third
// result says whether a patch text is a JSON stream or YAML
func c12Content(kind, class string, eid int, rng *Rng) (string, bool, string) {
	switch class {
	case "empty":
		return "", false, "json"
	case "deleted":
		return "", false, "json"
	}
	sep := PickOne(rng, c12Seps)
	ws := func(rec string) string { // optional insignificant white space inside a compact record
		if !rng.Chance(25) {
			return rec
		}
		return strings.NewReplacer(`":`, `" : `, `,"`, ` ,`+PickOne(rng, []string{" ", "\n\t", "\r\n"})+`"`, `{"`, `{ "`).Replace(rec)
	}
	isShape := func() bool {
		for _, sh := range c12MalformedShapes {
			if class == sh {
				return true
			}
		}
		return class == "truncated" || class == "twodocs"
	}()
	switch kind {
	case "metrics":
		own := fmt.Sprintf(`{"name":"%s","set":%s,"labels":{"a":"b"}}`, c12MetricName(eid), c12Num(rng))
		if rng.Chance(30) {
			own = fmt.Sprintf(`{"name":"%s","action":"set","value":%s,%s}`, c12MetricName(eid), c12Num(rng), c12ExtraField(rng))
		}
		own = ws(own)
		recs := []string{own}
		if rng.Chance(40) {
			recs = append(recs, ws(PickOne(rng, []string{`{"name":"c12_extra","action":"add","value":1}`, `{"name":"c12_extra2","add":2.5,"labels":{}}`, `{"group":"g","action":"expire"}`})))
		}
		switch {
		case class == "valid":
			return strings.Join(recs, sep) + PickOne(rng, []string{"\n", "", " ", "\r\n"}), true, "json"
		case class == "badbatch":
			return own + "\n" + PickOne(rng, []string{
				`{"name":"c12_bad","action":"frobnicate","value":1}`,
				`{"action":"set","value":1}`,
				`{"name":"c12_bad","action":"set"}`,
				`null`,
				`{}`,
			}) + "\n", true, "json"
		case class == "wrongtype":
			return PickOne(rng, []string{`[1,2,3]`, `"metrics"`, `42`, `true`, `{"name":7}`, own + sep + `[{"name":"x"}]`,
				own + sep + `{"name":"x","labels":{"a":1}}`, `{"name":"x","buckets":[1,"2"]}`, `{"name":"x","set":"1"}`, `{"Name":7}`,
				own + sep + `{"name":"x","value":true}`, `{"name":"x","labels":["a"]}`, `{"name":"x","action":1}`, own + "\n" + `{"group":{}}`}), true, "json"
		case isShape:
			return c12Malform(rng, class, recs, sep), true, "json"
		}
	case "admission", "conversion":
		var valid string
		if kind == "admission" {
			valid = PickOne(rng, []string{`{"allowed":true}`, `{"allowed":false,"message":"no"}`, `{"allowed":true,"warnings":["w"]}`,
				`{"allowed":true,` + c12ExtraField(rng) + `}`, `{"message":null,"allowed":true,"warnings":null}`, `{}`})
		} else {
			valid = PickOne(rng, []string{`{"convertedObjects":[{"apiVersion":"v1","kind":"X"}]}`, `{"failedMessage":"nope"}`,
				`{"convertedObjects":[],` + c12ExtraField(rng) + `}`, `{"failedMessage":"","convertedObjects":null}`, `{}`})
		}
		valid = ws(valid)
		switch {
		case class == "valid":
			return PickOne(rng, []string{"", "", " ", "\n"}) + valid + PickOne(rng, []string{"\n", "", " \n\t", "\r\n"}), true, "json"
		case class == "wrongtype" && kind == "admission":
			return PickOne(rng, []string{`[true]`, `"yes"`, `42`, `true`, `{"allowed":"yes"}`, `{"allowed":true,"warnings":"w"}`,
				`{"allowed":1}`, `{"allowed":true,"message":5}`, `{"allowed":true,"warnings":[1]}`, `{"ALLOWED":"x"}`, `{"allowed":{}}`}), true, "json"
		case class == "wrongtype":
			return PickOne(rng, []string{`["x"]`, `"done"`, `42`, `false`, `{"convertedObjects":"none"}`, `{"failedMessage":["a"]}`,
				`{"failedMessage":7}`, `{"convertedObjects":{}}`, `{"FailedMessage":true}`, `{"convertedObjects":1}`}), true, "json"
		case isShape:
			return c12Malform(rng, class, []string{valid}, sep), true, "json"
		}
	case "patch":
		mk := func(name string) string {
			if rng.Bool() {
				return fmt.Sprintf(`{"operation":"Create","object":{"apiVersion":"v1","kind":"ConfigMap","metadata":{"name":"%s","namespace":"default"},"data":{"k":"v"}}}`, name)
			}
			return fmt.Sprintf("operation: Create\nobject:\n  apiVersion: v1\n  kind: ConfigMap\n  metadata:\n    name: %s\n    namespace: default\n  data:\n    k: v\n", name)
		}
		mkJSON := func(name string) string {
			return ws(fmt.Sprintf(`{"operation":"Create","object":{"apiVersion":"v1","kind":"ConfigMap","metadata":{"name":"%s","namespace":"default"},"data":{"k":"v"}}}`, name))
		}
		isJ := func(d string) bool { return strings.HasPrefix(d, "{") }
		join := func(a, b string) (string, string) {
			if isJ(a) && isJ(b) {
				return a + "\n" + b + "\n", "json"
			}
			// mixed or YAML: both as YAML documents (JSON is YAML)
			return a + "\n---\n" + b + "\n", "yaml"
		}
		fmtOf := func(d string) string {
			if isJ(d) {
				return "json"
			}
			return "yaml"
		}
		own := mk(c12ObjName(eid))
		switch {
		case class == "valid":
			return own + "\n", true, fmtOf(own)
		case class == "applyerr":
			t, f := join(own, mk("existing"))
			return t, true, f
		case class == "invaliddoc":
			bad := PickOne(rng, []string{`{"operation":"Frobnicate","kind":"ConfigMap","name":"x"}`, `{"operation":"Delete","name":"x"}`, `{"operation":"Create"}`})
			if rng.Bool() {
				t, f := join(own, bad)
				return t, true, f
			}
			t, f := join(bad, own)
			return t, true, f
		case class == "wrongtype":
			return PickOne(rng, []string{`[1,2]`, `"just a string"`, `42`, `{"operation":["Create"]}`}), true, "json"
		case isShape:
			recs := []string{mkJSON(c12ObjName(eid))}
			if rng.Chance(30) {
				recs = append(recs, mkJSON(fmt.Sprintf("c12-second-%d", eid)))
			}
			// The patch file is "JSON or YAML": a text that is not JSON is handed to the YAML reader, and
			// YAML's flow syntax accepts some damaged JSON (trailing comma, unquoted or single-quoted
			// keys). Whether a text is YAML is not modelled: the generator stays out of that class — a
			// damaged text that any YAML reader still accepts is replaced (a cut inside a record never is).
			for try := 0; try < 8; try++ {
				if t := c12Malform(rng, class, recs, PickOne(rng, []string{"\n", "\n", " ", ""})); !c12IsYAML(t) {
					return t, true, "json"
				}
			}
			return c12Malform(rng, "truncated", recs, "\n"), true, "json"
		}
	}
	return "", false, "json"
}

// ---------------------------------------------------------------- one operator per case

type c12Env struct {
	dir, hooksDir, tmpDir, recDir, scriptsDir string
	hookNames                                 []string // relative paths, as the hook manager names them
	op                                        *shell_operator.ShellOperator
	fc                                        *fake.Cluster
	hookMetrics                               *metricstorage.MetricStorage
	cancel                                    context.CancelFunc
	setting                                   *string // value of --debug-keep-tmp-files the case runs with (nil: the default)
	restoreCwd                                func()  // configured directories: back to the harness's working directory
	dirsObs                                   string  // configured directories: what the plumbing returned (flags of `oracle dirs`)
	setupFailed                               bool    // the plumbing refused the directories
}

func c12Setup(r *Run, c *Case, hookFiles []string) (*c12Env, error) {
	return c12SetupCfg(r, c, hookFiles, nil)
}

// How the operator is told its two directories (fourth wave). nil = the harness hands absolute,
// canonical paths straight to the hook manager. Otherwise the case plays bootstrap.go: the process
// changes into the operator's working directory, --hooks-dir / --tmp-dir (or SHELL_OPERATOR_HOOKS_DIR /
// SHELL_OPERATOR_TMP_DIR) go through the real flag definitions, then RequireExistingDirectory and
// EnsureTempDirectory, and what they return goes to the hook manager.
type c12DirCfg struct {
	tmpInCwd   bool   // the temp dir lies inside the operator's working directory (else: a sibling of it)
	hooksInCwd bool   // same for the hooks dir
	tmpSpell   string // how the directory is spelled: abs rel dotrel relslash reldots absdirty absdots rellink abslink
	hooksSpell string
	tmpExists  bool // the temp dir exists before the start (else EnsureTempDirectory creates it)
	viaEnv     bool
}

var c12Spellings = []string{"abs", "rel", "dotrel", "relslash", "reldots", "absdirty", "absdots", "rellink", "abslink"}

// spell the directory `real` (absolute, canonical) as seen from the working directory cwd; link is
// where a symbolic link to it may be put (inside cwd)
func c12Spell(kind, cwd, real, link string) (string, error) {
	rel, err := filepath.Rel(cwd, real)
	if err != nil {
		return "", err
	}
	switch kind {
	case "abs":
		return real, nil
	case "rel":
		return rel, nil
	case "dotrel":
		return "./" + rel, nil
	case "relslash":
		return rel + "/", nil
	case "reldots": // through an existing sub-directory and back
		return "sub/../" + rel, nil
	case "absdirty":
		return strings.Replace(filepath.Dir(real), "/", "//", 1) + "/./" + filepath.Base(real) + "/", nil
	case "absdots":
		return real + "/../" + filepath.Base(real), nil
	case "rellink", "abslink":
		if err := os.Symlink(real, link); err != nil {
			return "", err
		}
		if kind == "rellink" {
			return filepath.Base(link), nil
		}
		return link, nil
	}
	return "", fmt.Errorf("unknown spelling %q", kind)
}

var c12CwdMu sync.Mutex // the working directory is process-global: configured cases run one at a time

func c12SetupCfg(r *Run, c *Case, hookFiles []string, cfg *c12DirCfg) (*c12Env, error) {
	e := &c12Env{dir: filepath.Join(r.Scratch, fmt.Sprintf("c12-%d", c.Idx))}
	if abs, err := filepath.Abs(r.Scratch); err == nil {
		if d, err := filepath.EvalSymlinks(abs); err == nil {
			e.dir = filepath.Join(d, fmt.Sprintf("c12-%d", c.Idx))
		}
	}
	e.hooksDir = filepath.Join(e.dir, "hooks")
	e.tmpDir = filepath.Join(e.dir, "tmp")
	e.recDir = filepath.Join(e.dir, "rec")
	e.scriptsDir = filepath.Join(e.dir, "scripts")
	opCwd := filepath.Join(e.dir, "opcwd")
	if cfg != nil {
		if cfg.hooksInCwd {
			e.hooksDir = filepath.Join(opCwd, "hooks")
		}
		if cfg.tmpInCwd {
			e.tmpDir = filepath.Join(opCwd, "tmp")
		}
	}
	mk := []string{e.hooksDir, e.recDir, e.scriptsDir}
	if cfg == nil || cfg.tmpExists {
		mk = append(mk, e.tmpDir)
	}
	if cfg != nil {
		mk = append(mk, opCwd, filepath.Join(opCwd, "sub"), filepath.Dir(e.tmpDir))
	}
	for _, d := range mk {
		if err := os.MkdirAll(d, 0o755); err != nil {
			return nil, err
		}
	}
	script := fmt.Sprintf(c12HookScript, e.dir)
	for _, hf := range hookFiles {
		p := filepath.Join(e.hooksDir, hf)
		if err := os.MkdirAll(filepath.Dir(p), 0o755); err != nil {
			return nil, err
		}
		if err := writeScript(p, []byte(script), 0o755); err != nil {
			return nil, err
		}
	}
	e.hookNames = hookFiles

	// the directories as the operator gets them
	hooksArg, tmpArg := e.hooksDir, e.tmpDir
	if cfg != nil {
		back, err := os.Getwd()
		if err != nil {
			return nil, err
		}
		if err := os.Chdir(opCwd); err != nil {
			return nil, err
		}
		e.restoreCwd = func() { _ = os.Chdir(back) }
		hooksSpelled, err := c12Spell(cfg.hooksSpell, opCwd, e.hooksDir, filepath.Join(opCwd, "hooks-link"))
		if err != nil {
			e.restoreCwd()
			return nil, err
		}
		tmpSpelled, err := c12Spell(cfg.tmpSpell, opCwd, e.tmpDir, filepath.Join(opCwd, "tmp-link"))
		if err != nil {
			e.restoreCwd()
			return nil, err
		}
		gotHooks, gotTmp, err := c12ConfigureDirs(hooksSpelled, tmpSpelled, cfg.viaEnv)
		if err != nil {
			e.restoreCwd()
			return nil, fmt.Errorf("flag parse: %w", err)
		}
		// bootstrap.go: Init
		hooksRet, herr := utils.RequireExistingDirectory(gotHooks)
		tmpRet, terr := utils.EnsureTempDirectory(gotTmp)
		// what the plumbing returned names — from the operator's working directory — the configured
		// directories, and they exist
		e.dirsObs = fmt.Sprintf("hookserr=%s tmperr=%s hooks=%s tmp=%s", c13B01(herr != nil), c13B01(terr != nil),
			c13B01(herr == nil && c12SameDir(hooksRet, e.hooksDir)), c13B01(terr == nil && c12SameDir(tmpRet, e.tmpDir)))
		if herr != nil || terr != nil {
			e.restoreCwd()
			e.setupFailed = true
			return e, nil
		}
		hooksArg, tmpArg = hooksRet, tmpRet
	}

	ctx, cancel := context.WithCancel(context.Background())
	e.cancel = cancel
	nop := log.NewNop()
	e.fc = fake.NewFakeCluster(fake.ClusterVersionV119)
	e.fc.CreateNs("default")
	if err := e.fc.Create("default", manifest.MustFromYAML("apiVersion: v1\nkind: ConfigMap\nmetadata:\n  name: existing\n  namespace: default\ndata:\n  k: v\n")); err != nil {
		e.close()
		return nil, err
	}
	op := shell_operator.NewShellOperator(ctx, shell_operator.WithLogger(nop))
	op.MetricStorage = metricstorage.NewMetricStorage(ctx, "shell_operator_", true, nop)
	e.hookMetrics = metricstorage.NewMetricStorage(ctx, "", true, nop)
	op.HookMetricStorage = e.hookMetrics
	op.KubeClient = e.fc.Client
	op.ObjectPatcher = objectpatch.NewObjectPatcher(e.fc.Client, nop)
	op.TaskQueues = queue.NewTaskQueueSet()
	op.HookManager = hook.NewHookManager(&hook.ManagerConfig{WorkingDir: hooksArg, TempDir: tmpArg, Logger: nop})
	// ETXTBSY: a script just written can still be open for writing in a child forked concurrently by
	// another case (the descriptor is closed on exec); a property of fork/exec, not of the code under test.
	var initErr error
	for try := 0; try < 50; try++ {
		if initErr = op.HookManager.Init(); initErr == nil || !strings.Contains(initErr.Error(), "text file busy") {
			break
		}
		time.Sleep(20 * time.Millisecond)
	}
	if initErr != nil {
		e.close()
		return nil, fmt.Errorf("hook manager init: %w", initErr)
	}
	e.op = op
	return e, nil
}

// --hooks-dir / --tmp-dir the way the operator gets them: the real flag definitions
// (app.DefineStartCommandFlags), on the command line or through the documented environment variables
func c12ConfigureDirs(hooks, tmp string, viaEnv bool) (string, string, error) {
	oldH, oldT := app.HooksDir, app.TempDir
	defer func() { app.HooksDir, app.TempDir = oldH, oldT }()
	kp := kingpin.New("shell-operator", "")
	kp.Terminate(func(int) {})
	cmd := kp.Command("start", "")
	app.DefineStartCommandFlags(kp, cmd)
	args := []string{"start"}
	if viaEnv {
		_ = os.Setenv("SHELL_OPERATOR_HOOKS_DIR", hooks)
		_ = os.Setenv("SHELL_OPERATOR_TMP_DIR", tmp)
		defer os.Unsetenv("SHELL_OPERATOR_HOOKS_DIR")
		defer os.Unsetenv("SHELL_OPERATOR_TMP_DIR")
	} else {
		args = append(args, "--hooks-dir="+hooks, "--tmp-dir="+tmp)
	}
	if _, err := kp.Parse(args); err != nil {
		return "", "", err
	}
	return app.HooksDir, app.TempDir, nil
}

func (e *c12Env) close() {
	if e.cancel != nil {
		e.cancel()
	}
	if e.restoreCwd != nil {
		e.restoreCwd()
	}
}

// the ConfigMaps the patch-type operations of a "marked" patch file work on
func (e *c12Env) createTargets(x *c12Exec) error {
	for _, o := range x.pops {
		if !o.isPatch {
			continue
		}
		if err := e.fc.Create("default", manifest.MustFromYAML(fmt.Sprintf("apiVersion: v1\nkind: ConfigMap\nmetadata:\n  name: %s\n  namespace: default\ndata:\n  k: v\n", o.target))); err != nil {
			return err
		}
	}
	return nil
}

func (e *c12Env) writeScripts(x *c12Exec, rng *Rng) error {
	d := filepath.Join(e.scriptsDir, fmt.Sprintf("exec-%d", x.eid))
	if err := os.MkdirAll(d, 0o755); err != nil {
		return err
	}
	if x.patch == "marked" && !x.texted {
		// decided first (and only here): the operations and their markers
		x.ptext, x.pfmt = c12Marked(x, rng)
	}
	if err := e.createTargets(x); err != nil {
		return err
	}
	if x.texted { // corpus: the texts are given
		if x.pfmt == "" {
			x.pfmt = "json"
		}
		for _, kt := range [][2]string{{"metrics", x.mtext}, {"admission", x.atext}, {"conversion", x.ctext}, {"patch", x.ptext}} {
			if kt[1] != "" {
				if err := os.WriteFile(filepath.Join(d, kt[0]), []byte(kt[1]), 0o644); err != nil {
					return err
				}
			}
		}
		return os.WriteFile(filepath.Join(d, "exit"), []byte(fmt.Sprint(x.exit)), 0o644)
	}
	if x.patch != "marked" {
		x.pfmt = "json"
	}
	for _, kc := range [][2]string{{"metrics", x.metrics}, {"admission", x.adm}, {"conversion", x.conv}, {"patch", x.patch}} {
		kind, class := kc[0], kc[1]
		if kind == "patch" && class == "marked" {
			if err := os.WriteFile(filepath.Join(d, kind), []byte(x.ptext), 0o644); err != nil {
				return err
			}
			continue
		}
		if class == "deleted" {
			if err := os.WriteFile(filepath.Join(d, kind+".delete"), nil, 0o644); err != nil {
				return err
			}
			continue
		}
		if content, ok, pf := c12Content(kind, class, x.eid, rng); ok {
			if p := x.sizePct[kind]; p > 0 && rng.Chance(p) {
				if t, note, ok := c12SizeRandom(rng, kind, content); ok {
					content = t
					x.sizeNotes = append(x.sizeNotes, "sized-file:"+kind, "sized-at:"+note)
				}
			}
			if err := os.WriteFile(filepath.Join(d, kind), []byte(content), 0o644); err != nil {
				return err
			}
			switch kind {
			case "metrics":
				x.mtext = content
			case "admission":
				x.atext = content
			case "conversion":
				x.ctext = content
			case "patch":
				x.ptext, x.pfmt = content, pf
			}
		}
	}
	if x.stderr {
		_ = os.WriteFile(filepath.Join(d, "stderr"), nil, 0o644)
	}
	if x.killed {
		_ = os.WriteFile(filepath.Join(d, "kill"), nil, 0o644)
	}
	if x.sleepMs > 0 {
		_ = os.WriteFile(filepath.Join(d, "sleep"), []byte(fmt.Sprintf("0.%03d", x.sleepMs)), 0o644)
	}
	return os.WriteFile(filepath.Join(d, "exit"), []byte(fmt.Sprint(x.exit)), 0o644)
}

// the contexts of the task of execution x, and what the context file must hold for them
func c12Contexts(x *c12Exec) ([]bctx.BindingContext, []any) {
	var bcs []bctx.BindingContext
	var want []any
	first := bctx.BindingContext{Binding: fmt.Sprintf("exec-%d", x.eid)}
	first.Metadata.BindingType = htypes.OnStartup
	bcs = append(bcs, first)
	want = append(want, map[string]any{"binding": first.Binding})
	for i := 1; i < x.nctx; i++ {
		bc := bctx.BindingContext{Binding: fmt.Sprintf("b%d", i)}
		bc.Metadata.BindingType = htypes.Schedule
		w := map[string]any{"binding": bc.Binding, "type": "Schedule"}
		if i%2 == 0 {
			bc.Metadata.Group = fmt.Sprintf("g%d", i)
			w = map[string]any{"binding": bc.Binding, "type": "Group", "groupName": bc.Metadata.Group}
		}
		bcs = append(bcs, bc)
		want = append(want, w)
	}
	return bcs, want
}

func (e *c12Env) runTask(x *c12Exec) {
	bcs, _ := c12Contexts(x)
	meta := task_metadata.HookMetadata{
		HookName:       e.hookNames[x.hook],
		Binding:        "onStartup",
		BindingType:    htypes.OnStartup,
		BindingContext: bcs,
		AllowFailure:   x.allow,
	}
	t := task.NewTask(task_metadata.HookRun).WithMetadata(meta).WithQueueName(fmt.Sprintf("q%d", x.q))
	t.WithQueuedAt(time.Now())
	x.status = Catch(func() string { return string(e.op.VerifC12TaskHandler(t).Status) })
	x.admProp = t.GetProp("admissionResponse") != nil
	x.convProp = t.GetProp("conversionResponse") != nil
}

// run the executions: one goroutine per queue (the queue worker), tasks of a queue in order
func (e *c12Env) runAll(xs []*c12Exec) {
	byQ := map[int][]*c12Exec{}
	for _, x := range xs {
		byQ[x.q] = append(byQ[x.q], x)
	}
	var wg sync.WaitGroup
	for _, q := range byQ {
		q := q
		wg.Add(1)
		go func() {
			defer wg.Done()
			for _, x := range q {
				e.runTask(x)
			}
		}()
	}
	wg.Wait()
}

func (e *c12Env) objectExists(name string) bool {
	gvr := e.fc.MustFindGVR("v1", "ConfigMap")
	_, err := e.fc.Client.Dynamic().Resource(*gvr).Namespace("default").Get(context.TODO(), name, metav1.GetOptions{})
	return err == nil
}

// did operation i of a "marked" patch file take effect: the own Create made the object, a patch set data.p
func (e *c12Env) opsApplied(x *c12Exec) []bool {
	var out []bool
	gvr := e.fc.MustFindGVR("v1", "ConfigMap")
	for _, o := range x.pops {
		if !o.isPatch {
			out = append(out, e.objectExists(o.target))
			continue
		}
		obj, err := e.fc.Client.Dynamic().Resource(*gvr).Namespace("default").Get(context.TODO(), o.target, metav1.GetOptions{})
		if err != nil {
			out = append(out, false)
			continue
		}
		data, _ := obj.Object["data"].(map[string]any)
		out = append(out, data != nil && data["p"] == "1")
	}
	return out
}

// ParseOperations + GetPatchStatusOperationsOnHookError on the text of the patch file: which
// operations (by position) does the filter keep
func c12FilterObs(x *c12Exec) string {
	return Catch(func() string {
		ops, err := objectpatch.ParseOperations([]byte(x.ptext))
		if err != nil {
			return "parse-error"
		}
		if len(ops) != len(x.pops) {
			return fmt.Sprintf("parsed=%d", len(ops))
		}
		kept := objectpatch.GetPatchStatusOperationsOnHookError(ops)
		mask := make([]bool, len(ops))
		for i, o := range ops {
			for _, k := range kept {
				if k == o {
					mask[i] = true
				}
			}
		}
		return "kept=" + c12Mask(mask)
	})
}

func (e *c12Env) metricPresent(name string) bool {
	mfs, err := e.hookMetrics.Gatherer.Gather()
	if err != nil {
		return false
	}
	for _, mf := range mfs {
		if mf.GetName() == name {
			return true
		}
	}
	return false
}

func (e *c12Env) leftover() int {
	es, err := os.ReadDir(e.tmpDir)
	if err != nil {
		return -1
	}
	return len(es)
}

var c12UUID = `[0-9a-f]{8}-[0-9a-f]{4}-[0-9a-f]{4}-[0-9a-f]{4}-[0-9a-f]{12}`

// what the hook process recorded -> flags of the `oracle env` line, and the five file names
func (e *c12Env) envObs(x *c12Exec) (string, []string) {
	rd := filepath.Join(e.recDir, fmt.Sprintf("exec-%d", x.eid))
	h := e.op.HookManager.GetHook(e.hookNames[x.hook])
	safe := regexp.QuoteMeta(h.SafeName())
	read := func(f string) string {
		b, _ := os.ReadFile(filepath.Join(rd, f))
		return strings.TrimSpace(string(b))
	}
	env := map[string]string{}
	for _, l := range strings.Split(read("env"), "\n") {
		if i := strings.IndexByte(l, '='); i > 0 && l[i+1:] != "" {
			env[l[:i]] = l[i+1:]
		}
	}
	// the directories as the hook process sees them: a relative value is resolved from the hook's own
	// working directory; "the same directory" is decided by the file system (device + inode), so that
	// non-canonical spellings of the configured directories (.., //, symbolic links) do not matter
	hookPwd := read("pwd")
	pwdOK := c12SameDir(hookPwd, filepath.Dir(h.Path)) && c12SameDir(hookPwd, filepath.Join(e.hooksDir, filepath.Dir(e.hookNames[x.hook])))
	dirOK := len(env) > 0
	for _, p := range env {
		if !filepath.IsAbs(p) {
			p = filepath.Join(hookPwd, p)
		}
		if !c12SameDir(filepath.Dir(p), e.tmpDir) {
			dirOK = false
		}
	}
	accessOK := read("access") == "1\n1\n1\n1\n1\n1"
	pats := map[string]string{
		"BINDING_CONTEXT_PATH":     `^hook-` + safe + `-binding-context-` + c12UUID + `\.json$`,
		"METRICS_PATH":             `^hook-` + safe + `-metrics-` + c12UUID + `\.json$`,
		"CONVERSION_RESPONSE_PATH": `^hook-` + safe + `-conversion-response-` + c12UUID + `\.json$`,
		"VALIDATING_RESPONSE_PATH": `^hook-` + safe + `-admission-response-` + c12UUID + `\.json$`,
		"ADMISSION_RESPONSE_PATH":  `^hook-` + safe + `-admission-response-` + c12UUID + `\.json$`,
		"KUBERNETES_PATCH_PATH":    `^` + safe + `-object-patch-` + c12UUID + `$`,
	}
	patOK := true
	for v, pat := range pats {
		if !regexp.MustCompile(pat).MatchString(filepath.Base(env[v])) {
			patOK = false
		}
	}
	sizesOK := read("sizes") == "0\n0\n0\n0"
	_, want := c12Contexts(x)
	var got any
	ctxOK := json.Unmarshal([]byte(read("context")), &got) == nil && reflect.DeepEqual(got, any(want))
	aliasOK := env["VALIDATING_RESPONSE_PATH"] != "" && env["VALIDATING_RESPONSE_PATH"] == env["ADMISSION_RESPONSE_PATH"]
	names := []string{env["BINDING_CONTEXT_PATH"], env["METRICS_PATH"], env["CONVERSION_RESPONSE_PATH"], env["ADMISSION_RESPONSE_PATH"], env["KUBERNETES_PATCH_PATH"]}
	return fmt.Sprintf("inherit=%d vars=%d pwd=%s dir=%s pattern=%s sizes=%s ctx=%s alias=%s access=%s", c12InheritedVars(), len(env), c13B01(pwdOK), c13B01(dirOK), c13B01(patOK), c13B01(sizesOK), c13B01(ctxOK), c13B01(aliasOK), c13B01(accessOK)), names
}

// do two paths name the same existing directory
func c12SameDir(a, b string) bool {
	sa, err1 := os.Stat(a)
	sb, err2 := os.Stat(b)
	return err1 == nil && err2 == nil && sa.IsDir() && sb.IsDir() && os.SameFile(sa, sb)
}

// a hook process that could not read its binding context (the variable does not point to the file)
// recorded under rec/lost-<pid>: hand these records to the executions that have none
func (e *c12Env) adoptLostRecords(xs []*c12Exec) {
	lost, _ := filepath.Glob(filepath.Join(e.recDir, "lost-*"))
	sort.Strings(lost)
	for _, x := range xs {
		rd := filepath.Join(e.recDir, fmt.Sprintf("exec-%d", x.eid))
		if _, err := os.Stat(rd); err == nil || len(lost) == 0 {
			continue
		}
		if os.Rename(lost[0], rd) == nil {
			lost = lost[1:]
		}
	}
}

// ---------------------------------------------------------------- the operator's own environment

var c12PathVars = []string{"BINDING_CONTEXT_PATH", "METRICS_PATH", "CONVERSION_RESPONSE_PATH", "VALIDATING_RESPONSE_PATH", "ADMISSION_RESPONSE_PATH", "KUBERNETES_PATCH_PATH"}

// how many of the six variables the operator process (this process) has in its own environment
func c12InheritedVars() int {
	n := 0
	for _, v := range c12PathVars {
		if _, ok := os.LookupEnv(v); ok {
			n++
		}
	}
	return n
}

// The operator itself runs as a hook of an outer operator (or under a wrapper that exports these
// variables): its environment already holds the six variables, pointing to somebody else's files.
// which: bit i set = variable i is present. Returns the undo.
func c12SetOuterEnv(r *Run, which int) func() {
	d := filepath.Join(r.Scratch, "c12-outer")
	_ = os.MkdirAll(d, 0o755)
	files := map[string]string{
		"BINDING_CONTEXT_PATH":     `[{"binding":"outer-binding"}]`,
		"METRICS_PATH":             "",
		"CONVERSION_RESPONSE_PATH": "",
		"VALIDATING_RESPONSE_PATH": "",
		"ADMISSION_RESPONSE_PATH":  "",
		"KUBERNETES_PATCH_PATH":    "",
	}
	var set []string
	for i, v := range c12PathVars {
		if which&(1<<i) == 0 {
			continue
		}
		p := filepath.Join(d, "outer-"+strings.ToLower(v))
		_ = os.WriteFile(p, []byte(files[v]), 0o644)
		_ = os.Setenv(v, p)
		set = append(set, v)
	}
	return func() {
		for _, v := range set {
			_ = os.Unsetenv(v)
		}
	}
}

// ---------------------------------------------------------------- the keep-tmp-files setting

// configure --debug-keep-tmp-files the way the operator does: the real flag definition
// (app.DefineDebugFlags), given on the command line or through DEBUG_KEEP_TMP_FILES
func c12ConfigureKeep(value string, viaEnv bool) (string, error) {
	kp := kingpin.New("shell-operator", "")
	kp.Terminate(func(int) {})
	cmd := kp.Command("start", "")
	app.DefineDebugFlags(kp, cmd)
	args := []string{"start"}
	if viaEnv {
		_ = os.Setenv("DEBUG_KEEP_TMP_FILES", value)
		defer os.Unsetenv("DEBUG_KEEP_TMP_FILES")
	} else {
		args = append(args, "--debug-keep-tmp-files="+value)
	}
	if _, err := kp.Parse(args); err != nil {
		return "", err
	}
	return app.DebugKeepTmpFilesVar, nil
}

func (x *c12Exec) line() string {
	pf := x.pfmt
	if pf == "" {
		pf = "json"
	}
	return fmt.Sprintf("exec %d hook=%d q=%d nctx=%d allow=%s exit=%d metrics=%s adm=%s conv=%s patch=%s mt=%s at=%s ct=%s pt=%s pf=%s pm=%s",
		x.eid, x.hook, x.q, x.nctx, c13B01(x.allow), x.exit, x.metrics, x.adm, x.conv, x.patch,
		c12Hex(x.mtext), c12Hex(x.atext), c12Hex(x.ctext), c12Hex(x.ptext), pf, c12Pm(x.pops))
}

// report: one exec line + oracles per execution (in eid order), then the temp dir and the names
func (e *c12Env) report(c *Case, xs []*c12Exec) {
	var all []string
	e.adoptLostRecords(xs)
	for _, x := range xs {
		p, m := e.objectExists(c12ObjName(x.eid)), e.metricPresent(c12MetricName(x.eid))
		obs := fmt.Sprintf("status=%s patch=%s metrics=%s adm=%s conv=%s", x.status, c13B01(p), c13B01(m), c13B01(x.admProp), c13B01(x.convProp))
		applied := e.opsApplied(x)
		c.Op(x.line(), obs+" ops="+c12Mask(applied))
		c.Oracle(fmt.Sprintf("outcome eid=%d %s", x.eid, obs))
		if len(x.pops) > 0 {
			// which operations of the patch file took effect in the cluster
			c.Oracle(fmt.Sprintf("ops eid=%d applied=%s", x.eid, c12Mask(applied)))
			// the real reader + the real filter of the error branch on the very text the hook wrote
			c.Op("filter pm="+c12Pm(x.pops), c12FilterObs(x))
		}
		envLine, names := e.envObs(x)
		c.Oracle(fmt.Sprintf("env eid=%d %s", x.eid, envLine))
		all = append(all, names...)
	}
	left := e.leftover()
	c.Op("tmpdir", fmt.Sprintf("leftover=%d", left))
	if e.setting != nil {
		c.Oracle(fmt.Sprintf("tmpdir leftover=%d setting=%s", left, c12Hex(*e.setting)))
	} else {
		c.Oracle(fmt.Sprintf("tmpdir leftover=%d", left))
	}
	in := NewInterner()
	var ids []int
	for _, n := range all {
		if n == "" {
			ids = append(ids, 0) // a variable that was not set: all such count as one (repeated) name
			continue
		}
		ids = append(ids, in.Id(n))
	}
	c.Oracle("unique ids=" + joinInts(ids))
}

// ---------------------------------------------------------------- generator

var c12HookFiles = []string{"h1.sh", "sub/h2.sh", "003-deep/nested dir/h3.sh"}

// ---------------------------------------------------------------- temp files that cannot be created

// Length of each temp file name beyond the hook's safe name, in creation order (binding-context,
// metrics, admission-response, conversion-response, object-patch): "hook-" + safe + "-<kind>-" + uuid
// [+ ".json"]. With NAME_MAX = 255 a safe name of L bytes gets: L <= 188 all five files; L = 189 the
// conversion-response file (4th) fails after three were created; L = 190..192 the admission-response
// file (3rd) fails after two; L >= 193 the first one fails. The removal list of Run is NOT in creation
// order (conversion before admission), so every one of these points is a different situation.
var c12NameExtra = []int{63, 55, 66, 67, 50}

func c12CreatedFor(safeLen int) int {
	created := 0
	for _, extra := range c12NameExtra {
		if safeLen+extra > 255 {
			break
		}
		created++
	}
	return created
}

// a hook file whose safe name has safeLen bytes
func c12LongHook(safeLen int) string { return strings.Repeat("a", safeLen-3) + ".sh" }

var c12NameMaxOnce sync.Once
var c12NameMaxIs255 bool

// does the scratch file system refuse exactly the names longer than 255 bytes?
func c12NameMax255(r *Run) bool {
	c12NameMaxOnce.Do(func() {
		d := filepath.Join(r.Scratch, "c12-namemax-probe")
		if os.MkdirAll(d, 0o755) != nil {
			return
		}
		defer os.RemoveAll(d)
		ok255 := os.WriteFile(filepath.Join(d, strings.Repeat("n", 255)), nil, 0o644) == nil
		ok256 := os.WriteFile(filepath.Join(d, strings.Repeat("n", 256)), nil, 0o644) == nil
		c12NameMaxIs255 = ok255 && !ok256
	})
	return c12NameMaxIs255
}

// one execution, alone, of a hook some of whose temp files cannot be created: the process must not be
// started, the task fails, and — "whatever the outcome" — no temp file may stay
func (e *c12Env) runPrepFail(c *Case, x *c12Exec, created int, rng *Rng) {
	_ = e.writeScripts(x, rng)
	e.runAll([]*c12Exec{x})
	_, statErr := os.Stat(filepath.Join(e.recDir, fmt.Sprintf("exec-%d", x.eid)))
	left := e.leftover()
	c.Op(fmt.Sprintf("prepfail %d created=%d allow=%s", x.eid, created, c13B01(x.allow)),
		fmt.Sprintf("status=%s started=%s leftover=%d", x.status, c13B01(statErr == nil), left))
	c.Oracle(fmt.Sprintf("tmpdir leftover=%d", left))
	c.Note(fmt.Sprintf("prepare-fails-after:%d-files", created))
}

func c12PickClass(rng *Rng, classes []string) string {
	// empty and valid are the common cases; every other class gets a fair share
	switch r := rng.Intn(100); {
	case r < 30:
		return "empty"
	case r < 55:
		return "valid"
	}
	return classes[2+rng.Intn(len(classes)-2)]
}

func c12GenExec(rng *Rng, eid, nhooks, nq int) *c12Exec {
	x := &c12Exec{eid: eid, hook: rng.Intn(nhooks), q: 1 + rng.Intn(nq), allow: rng.Chance(20), nctx: rng.Range(1, 3), sleepMs: rng.Intn(40)}
	if rng.Chance(25) {
		x.exit = PickOne(rng, []int{1, 2, 3, 127, 255})
		if rng.Chance(15) {
			x.exit, x.killed = 137, true
		}
	}
	x.stderr = rng.Chance(30)
	x.metrics = c12PickClass(rng, c12MetricsClassesAll)
	x.adm = c12PickClass(rng, c12RespClassesAll)
	x.conv = c12PickClass(rng, c12RespClassesAll)
	x.patch = c12PickClass(rng, c12PatchClassesAll)
	if rng.Chance(12) || (x.exit != 0 && rng.Chance(45)) {
		// operations with / without the two markers of the "on hook error" exception; a failing hook
		// leaves such a file behind in about half of the cases
		x.patch = "marked"
	}
	// sixth wave: one generated text in eight gets a landmark on / next to a read boundary
	x.sizePct = map[string]int{"metrics": 12, "admission": 12, "conversion": 12, "patch": 12}
	return x
}

func c12Notes(c *Case, xs []*c12Exec) {
	for _, x := range xs {
		if x.stderr {
			c.Note("stderr-output")
		}
		if x.killed {
			c.Note("exit:killed-by-signal")
		} else if x.exit != 0 {
			c.Note("exit:nonzero")
		} else {
			c.Note("exit:0")
		}
		c.Note("metrics:" + x.metrics)
		c.Note("admission:" + x.adm)
		c.Note("conversion:" + x.conv)
		c.Note("patch:" + x.patch)
		for _, n := range x.sizeNotes {
			c.Note(n)
		}
		if x.exit != 0 {
			for _, o := range x.pops {
				if o.isPatch {
					c.Note(fmt.Sprintf("failed-hook-patch:ignoreHookError=%s,status=%s", c13B01(o.ignore), c13B01(o.sub == "/status")))
				}
			}
		}
	}
}

func c12GenDirCfg(rng *Rng) *c12DirCfg {
	cfg := &c12DirCfg{tmpInCwd: rng.Chance(60), hooksInCwd: rng.Chance(50), tmpExists: rng.Chance(60), viaEnv: rng.Chance(30)}
	// relative spellings are the common way to run the operator from a checkout; the rest evenly
	cfg.tmpSpell = PickOne(rng, append([]string{"rel", "rel", "dotrel"}, c12Spellings...))
	// (the hooks dir is not spelled through a symbolic link: the hook search does not follow a link at
	// its root and takes the link itself for a hook file — hook discovery is C20's subject)
	cfg.hooksSpell = PickOne(rng, append([]string{"rel", "rel"}, c12Spellings[:7]...))
	if strings.HasSuffix(cfg.tmpSpell, "link") {
		cfg.tmpExists = true // a dangling link is no directory and cannot be created over
	}
	return cfg
}

func c12Random(r *Run) func(c *Case, rng *Rng) { return c12RandomCfg(r, nil) }

// gen != nil: the case runs with configured directories (see c12DirCfg) — one at a time, the working
// directory is process-global
func c12RandomCfg(r *Run, gen func(rng *Rng) *c12DirCfg) func(c *Case, rng *Rng) {
	return func(c *Case, rng *Rng) {
		rng = c13Reseed(rng) // see c13.go: neighbouring cases must not share their random numbers
		nh := rng.Range(1, 3)
		hookFiles := c12HookFiles[:nh]
		// 35%: one more hook whose name makes the creation of a temp file fail at one of the reachable
		// points (after 3, 2 or 0 files); it gets one execution after the concurrent part
		longLen := 0
		if rng.Chance(35) && c12NameMax255(r) {
			longLen = PickOne(rng, []int{189, 189, 190, 191, 192, 193})
			hookFiles = append(append([]string{}, hookFiles...), c12LongHook(longLen))
		}
		var cfg *c12DirCfg
		if gen != nil {
			cfg = gen(rng)
			c12CwdMu.Lock()
			defer c12CwdMu.Unlock()
		}
		env, err := c12SetupCfg(r, c, hookFiles, cfg)
		if err != nil {
			c.Op("setup", "harness-error "+err.Error())
			return
		}
		defer env.close()
		if cfg != nil {
			c.Note("tmp-dir-spelling:" + cfg.tmpSpell)
			c.Note("hooks-dir-spelling:" + cfg.hooksSpell)
			c.Note(fmt.Sprintf("tmp-dir-exists-before-start:%v", cfg.tmpExists))
			c.Note(fmt.Sprintf("tmp-dir-in-cwd:%v hooks-dir-in-cwd:%v", cfg.tmpInCwd, cfg.hooksInCwd))
			// the plumbing must accept every spelling of an existing hooks dir and of an existing or
			// creatable temp dir, and return names of exactly these directories
			c.Oracle("dirs " + env.dirsObs)
			if env.setupFailed {
				c.Desc = "configured directories refused"
				c.Nontrivial = true
				return
			}
		}
		n := rng.Range(1, 6)
		nq := rng.Range(1, 3)
		var xs []*c12Exec
		for i := 1; i <= n; i++ {
			x := c12GenExec(rng, i, nh, nq)
			if err := env.writeScripts(x, rng); err != nil {
				c.Op("setup", "harness-error "+err.Error())
				return
			}
			xs = append(xs, x)
		}
		qs := map[int]bool{}
		for _, x := range xs {
			qs[x.q] = true
		}
		env.runAll(xs)
		env.report(c, xs)
		if longLen > 0 {
			if safe := env.op.HookManager.GetHook(hookFiles[nh]).SafeName(); len(safe) == longLen {
				env.runPrepFail(c, &c12Exec{eid: n + 1, hook: nh, q: 1, allow: rng.Chance(20), metrics: "empty", adm: "empty", conv: "empty", patch: "empty", nctx: rng.Range(1, 3)},
					c12CreatedFor(longLen), rng)
			}
		}
		c12Notes(c, xs)
		c.Note(fmt.Sprintf("executions:%d", n))
		c.Note(fmt.Sprintf("concurrent-queues:%d", len(qs)))
		c.Desc = fmt.Sprintf("%d executions of %d hooks in %d queues", n, nh, len(qs))
		c.Nontrivial = n >= 2 || xs[0].exit != 0 || xs[0].metrics != "empty" || xs[0].patch != "empty"
	}
}

func runC12(r *Run) {
	r.Rule = "a case = 1-3 generated bash hooks loaded by the real hook manager + 1-6 executions spread over 1-3 queue workers running " +
		"concurrently; each execution has a scripted exit code (25% non-zero, some killed by a signal; 30% write to stderr) and scripted TEXT of the metrics / admission / conversion / patch " +
		"files (empty, valid in many spellings — white space, every number form, escapes, ignored fields —, cut inside a record, wrong type, stray closing brackets at a record boundary, leading / trailing garbage, bad tokens, blank, second document, deleted; metrics also valid-but-rejected batch; patch also failing application and invalid document, JSON or YAML); the text goes to the Lean driver, which decides from it whether the file is well-formed; " +
		"a third of the cases run with an operator process whose own environment already holds (all / some of) the six path variables; at the end 8 (thorough: 17) values of --debug-keep-tmp-files, each through the real flag definition (command line or DEBUG_KEEP_TMP_FILES) before the hooks are loaded; " +
		"every execution goes through the real taskHandler -> handleRunHook -> Hook.Run with a real process, real MetricStorage and kube-client/fake; " +
		"the hook records pwd, the six path variables, initial file sizes and the context file, and checks from its own working directory that every variable names a file it can read and write. " +
		"Fourth wave: 12% of the executions (45% of those with a non-zero exit) write a patch file of 1-4 MergePatch / JSONPatch / JQPatch operations, each on its own object, with every combination of ignoreHookError and subresource (none, /status, other spellings) plus the own Create — which of them took effect is observed per operation; " +
		"24 (thorough: 160) further cases run one at a time with the directories configured the way bootstrap.go does it: the process changes into an operator working directory that is not the hooks directory, --hooks-dir / --tmp-dir (or the environment variables) go through the real flag definitions, RequireExistingDirectory and EnsureTempDirectory, spelled absolute, relative, ./relative, with a trailing slash, through sub/.., with // and /./, through dir/../dir, through a relative or absolute symbolic link; the temp dir existing or not before the start, inside or beside the working directory. 35% of the cases add a hook whose name (189-193 characters) makes the creation of the 4th / 3rd / 1st temp file fail (NAME_MAX) and run it once more at the end: not started, failed, nothing left behind. " +
		"Sixth wave (file SIZE): 12% of the generated texts — and every execution of 16 (thorough: 240) further cases, plus corpus case 11 for 512 / 1536 / 3584 bytes in each of the four files — are padded (white space in front / after the first brace / after the first value, or an ignored field holding one long string) so that the end of the first JSON value, the end of the white space after it, or the end of the text falls exactly on (60%), one byte before or one / two bytes after a boundary at which a reader has just filled its buffer (512, 1024, 1536, 2048, 3584, 4096, 7680, 8192 bytes): well-formed texts of exactly that size, and texts with garbage / a stray closer / a second document / a cut right behind it. Non-trivial = at least 2 executions or a non-empty output/non-zero exit."
	app.DebugKeepTmpFilesVar = "no"

	// corpus 0: every failure stage in one case, sequentially
	r.One(0, func(c *Case, rng *Rng) {
		env, err := c12Setup(r, c, c12HookFiles[:2])
		if err != nil {
			c.Op("setup", "harness-error "+err.Error())
			return
		}
		defer env.close()
		mk := func(eid, exit int, m, a, cv, p string) *c12Exec {
			return &c12Exec{eid: eid, hook: eid % 2, q: 1, exit: exit, metrics: m, adm: a, conv: cv, patch: p, nctx: 1 + eid%3}
		}
		xs := []*c12Exec{
			mk(1, 0, "valid", "valid", "valid", "valid"),
			mk(2, 3, "valid", "valid", "valid", "valid"),
			mk(3, 0, "truncated", "valid", "valid", "valid"),
			mk(4, 0, "valid", "wrongtype", "valid", "valid"),
			mk(5, 0, "valid", "valid", "truncated", "valid"),
			mk(6, 0, "valid", "valid", "valid", "invaliddoc"),
			mk(7, 0, "valid", "valid", "valid", "applyerr"),
			mk(8, 0, "badbatch", "valid", "valid", "valid"),
			mk(9, 0, "empty", "empty", "empty", "empty"),
			mk(10, 0, "valid", "valid", "valid", "deleted"),
		}
		for _, x := range xs {
			_ = env.writeScripts(x, rng)
		}
		env.runAll(xs)
		env.report(c, xs)
		c12Notes(c, xs)
		c.Note("corpus")
		c.Desc = "corpus: one execution per failure stage (exit, metrics, admission, conversion, patch parse, patch apply, metric batch) + success"
		c.Nontrivial = true
	})

	// corpus 1: the repaired defect — a temp file cannot be created half-way (hook name so long that
	// the admission-response file name exceeds NAME_MAX while the first two names still fit); the
	// unrepaired Run left the first two files behind on every retry
	r.One(1, func(c *Case, rng *Rng) {
		long := strings.Repeat("a", 187) + ".sh" // SafeName: 190 characters
		env, err := c12Setup(r, c, []string{long})
		if err != nil {
			c.Inconcl = "cannot set up a hook with a 190-character name: " + err.Error()
			return
		}
		defer env.close()
		safe := env.op.HookManager.GetHook(long).SafeName()
		created := 0
		for _, extra := range []int{63, 55, 66, 67, 50} { // name lengths beyond the safe name, creation order
			if len(safe)+extra > 255 {
				break
			}
			created++
		}
		if created == 5 || created == 0 {
			c.Inconcl = fmt.Sprintf("safe name length %d does not hit the half-way point", len(safe))
			return
		}
		x := &c12Exec{eid: 1, hook: 0, q: 1, metrics: "empty", adm: "empty", conv: "empty", patch: "empty", nctx: 1}
		_ = env.writeScripts(x, rng)
		env.runAll([]*c12Exec{x})
		_, statErr := os.Stat(filepath.Join(env.recDir, "exec-1"))
		left := env.leftover()
		c.Op(fmt.Sprintf("prepfail 1 created=%d", created),
			fmt.Sprintf("status=%s started=%s leftover=%d", x.status, c13B01(statErr == nil), left))
		// "all temporary files of an execution are deleted when it ends, whatever the outcome"
		c.Oracle(fmt.Sprintf("tmpdir leftover=%d", left))
		c.Note("corpus")
		c.Desc = "temp file creation fails half-way (190-character hook name): the process is not started, the execution fails, no file may stay"
		c.Nontrivial = true
	})

	// corpus 3: every point at which the creation of the temp files can stop, one hook per safe-name
	// length 186..194 (all five created / the 4th fails after three / the 3rd fails after two / the
	// first fails). The removal list of Run is not in creation order, so "what was created so far" is a
	// different subset of it at every point; nothing may stay at any of them.
	r.One(3, func(c *Case, rng *Rng) {
		if !c12NameMax255(r) {
			c.Inconcl = "the scratch file system does not have NAME_MAX = 255"
			return
		}
		var files []string
		for l := 186; l <= 194; l++ {
			files = append(files, c12LongHook(l))
		}
		env, err := c12Setup(r, c, files)
		if err != nil {
			c.Inconcl = "cannot set up hooks with 186..194-character names: " + err.Error()
			return
		}
		defer env.close()
		var full []*c12Exec
		for i, f := range files {
			safe := env.op.HookManager.GetHook(f).SafeName()
			x := &c12Exec{eid: i + 1, hook: i, q: 1, metrics: "empty", adm: "empty", conv: "empty", patch: "empty", nctx: 1}
			if created := c12CreatedFor(len(safe)); created < 5 {
				env.runPrepFail(c, x, created, rng)
				continue
			}
			x.metrics, x.adm, x.conv, x.patch = "valid", "valid", "valid", "valid"
			_ = env.writeScripts(x, rng)
			env.runAll([]*c12Exec{x})
			full = append(full, x)
		}
		env.report(c, full)
		c.Note("corpus")
		c.Desc = "hook names of 186..194 characters: the creation of the temp files stops after 5 (runs), 3, 2 or 0 files; the process is not started, the execution fails, no file may stay"
		c.Nontrivial = true
	})

	// corpus 4: malformed text at a record boundary — stray closing brackets, trailing garbage, a second
	// document — in each of the four files (one execution per shape, everything else well-formed)
	r.One(4, func(c *Case, rng *Rng) {
		env, err := c12Setup(r, c, c12HookFiles[:2])
		if err != nil {
			c.Op("setup", "harness-error "+err.Error())
			return
		}
		defer env.close()
		var xs []*c12Exec
		add := func(m, a, cv, p string) {
			eid := len(xs) + 1
			x := &c12Exec{eid: eid, hook: eid % 2, q: 1, nctx: 1, texted: true, pfmt: "json",
				metrics: "valid", adm: "valid", conv: "valid", patch: "valid"}
			own := fmt.Sprintf(`{"name":"%s","set":1}`, c12MetricName(eid))
			x.mtext = own + "\n"
			x.atext = `{"allowed":true}` + "\n"
			x.ctext = `{"failedMessage":"nope"}` + "\n"
			po := fmt.Sprintf(`{"operation":"Create","object":{"apiVersion":"v1","kind":"ConfigMap","metadata":{"name":"%s","namespace":"default"}}}`, c12ObjName(eid))
			x.ptext = po + "\n"
			if m != "" {
				x.metrics, x.mtext = "strayclose", strings.ReplaceAll(m, "OWN", own)
			}
			if a != "" {
				x.adm, x.atext = "strayclose", a
			}
			if cv != "" {
				x.conv, x.ctext = "strayclose", cv
			}
			if p != "" {
				x.patch, x.ptext = "strayclose", strings.ReplaceAll(p, "OWN", po)
			}
			xs = append(xs, x)
		}
		add("", "", "", "")
		add("OWN}", "", "", "")
		add("OWN\n]\n", "", "", "")
		add("}", "", "", "")
		add("}\nOWN\n", "", "", "")
		add("OWN\nOWN]", "", "", "")
		add("OWN garbage", "", "", "")
		add(" \n", "", "", "")
		add("", `{"allowed":true}}`, "", "")
		add("", `{"allowed":true}`+"\n"+`{"allowed":false}`, "", "")
		add("", "", `{"failedMessage":"nope"}}`, "")
		add("", "", `{"convertedObjects":[]}`+"\n]", "")
		add("", "", `{"failedMessage":""} garbage`, "")
		add("", "", "", "OWN}")
		add("", "", "", "OWN\n]\n")
		add("", "", "", "OWN\ngarbage\n")
		for _, x := range xs {
			_ = env.writeScripts(x, rng)
		}
		env.runAll(xs)
		env.report(c, xs)
		c12Notes(c, xs)
		c.Note("corpus")
		c.Desc = "corpus: stray closing brackets / trailing garbage / a second document at a record boundary, in each of the four output files"
		c.Nontrivial = true
	})

	// sixth wave, corpus 11: the SIZE of an output file. For each of the four files and each size at
	// which encoding/json's Decoder has just filled its buffer (512, 1536, 3584 bytes): a well-formed
	// text of exactly that size (accepted), the same followed by garbage glued to it, and a text whose
	// first document plus the line end after it has that size, followed by the cut-off beginning of a
	// second document (both malformed: the execution fails, nothing is applied). Everything else in the
	// execution is well-formed.
	r.One(11, func(c *Case, rng *Rng) {
		env, err := c12Setup(r, c, c12HookFiles[:2])
		if err != nil {
			c.Op("setup", "harness-error "+err.Error())
			return
		}
		defer env.close()
		var xs []*c12Exec
		for _, kind := range []string{"metrics", "admission", "conversion", "patch"} {
			for bi, b := range []int{512, 1536, 3584} {
				for variant := 0; variant < 3; variant++ {
					eid := len(xs) + 1
					x := &c12Exec{eid: eid, hook: eid % 2, q: 1 + eid%2, nctx: 1, texted: true, pfmt: "json",
						metrics: "valid", adm: "valid", conv: "valid", patch: "valid"}
					x.mtext = fmt.Sprintf(`{"name":"%s","set":1}`, c12MetricName(eid)) + "\n"
					x.atext = `{"allowed":true}` + "\n"
					x.ctext = `{"convertedObjects":[{"apiVersion":"v1","kind":"X"}]}` + "\n"
					x.ptext = fmt.Sprintf(`{"operation":"Create","object":{"apiVersion":"v1","kind":"ConfigMap","metadata":{"name":"%s","namespace":"default"}}}`, c12ObjName(eid)) + "\n"
					field := map[string]*string{"metrics": &x.mtext, "admission": &x.atext, "conversion": &x.ctext, "patch": &x.ptext}[kind]
					doc := strings.TrimSuffix(*field, "\n")
					pad := []string{"field", "inside", "before"}[(bi+variant)%3]
					if kind == "patch" && pad == "field" {
						pad = "inside"
					}
					var text string
					var ok bool
					class := "garbage"
					switch variant {
					case 0: // exactly b bytes, line end included
						text, ok = c12Size(rng, kind, doc+"\n", b, "total", pad)
						class = "valid"
					case 1: // b bytes, then garbage
						text, ok = c12Size(rng, kind, doc+PickOne(rng, []string{"x", "}", "]", "garbage", ",", "\x00"}), b, "first", pad)
					default: // b bytes with the line end, then the beginning of a second document
						text, ok = c12Size(rng, kind, doc+"\n"+doc[:1+rng.Intn(len(doc)-1)], b, "firstws", pad)
					}
					if ok && kind == "patch" && variant > 0 && c12IsYAML(text) {
						// (damaged JSON that a YAML reader accepts is outside the generator's class)
						text, ok = c12Size(rng, kind, doc+"}", b, "first", pad)
						ok = ok && !c12IsYAML(text)
					}
					if !ok {
						c.Op("setup", "harness-error cannot size the "+kind+" text")
						return
					}
					*field = text
					switch kind {
					case "metrics":
						x.metrics = class
					case "admission":
						x.adm = class
					case "conversion":
						x.conv = class
					case "patch":
						x.patch = class
					}
					x.sizeNotes = []string{"sized-file:" + kind, fmt.Sprintf("sized-at:%s-on-boundary-%d", []string{"total", "first", "firstws"}[variant], b)}
					xs = append(xs, x)
				}
			}
		}
		for _, x := range xs {
			_ = env.writeScripts(x, rng)
		}
		env.runAll(xs)
		env.report(c, xs)
		c12Notes(c, xs)
		c.Note("corpus")
		c.Desc = "corpus: output files whose first document ends exactly where a reader's buffer ends (512 / 1536 / 3584 bytes): well-formed, followed by garbage, followed by the beginning of a second document — in each of the four files"
		c.Nontrivial = true
	})

	// sixth wave: generated cases in which every execution has ONE file with a landmark on / next to a
	// read boundary (well-formed, or with something after the first document, or cut), the other files
	// well-formed or empty, exit 0 mostly
	r.Cases(80000, r.N(16, 240), 0, func(c *Case, rng *Rng) {
		rng = c13Reseed(rng)
		nh := rng.Range(1, 2)
		env, err := c12Setup(r, c, c12HookFiles[:nh])
		if err != nil {
			c.Op("setup", "harness-error "+err.Error())
			return
		}
		defer env.close()
		n := rng.Range(2, 5)
		nq := rng.Range(1, 2)
		var xs []*c12Exec
		for i := 1; i <= n; i++ {
			good := func() string { return PickOne(rng, []string{"valid", "valid", "empty"}) }
			x := &c12Exec{eid: i, hook: rng.Intn(nh), q: 1 + rng.Intn(nq), allow: rng.Chance(15), nctx: rng.Range(1, 2),
				metrics: good(), adm: good(), conv: good(), patch: good()}
			if rng.Chance(10) {
				x.exit = PickOne(rng, []int{1, 2, 255})
			}
			kind := PickOne(rng, []string{"metrics", "admission", "conversion", "conversion", "patch"})
			class := PickOne(rng, []string{"valid", "valid", "garbage", "garbage", "strayclose", "strayclose", "truncated", "badtoken", "twodocs"})
			if class == "twodocs" && (kind == "metrics" || kind == "patch") {
				class = "garbage" // (two documents are a well-formed stream)
			}
			switch kind {
			case "metrics":
				x.metrics = class
			case "admission":
				x.adm = class
			case "conversion":
				x.conv = class
			case "patch":
				x.patch = class
			}
			x.sizePct = map[string]int{kind: 100}
			if err := env.writeScripts(x, rng); err != nil {
				c.Op("setup", "harness-error "+err.Error())
				return
			}
			xs = append(xs, x)
		}
		env.runAll(xs)
		env.report(c, xs)
		c12Notes(c, xs)
		c.Note(fmt.Sprintf("executions:%d", n))
		c.Desc = fmt.Sprintf("%d executions, each with one output file sized to a read boundary", n)
		c.Nontrivial = true
	})

	n := r.N(150, 1500)
	r.Cases(100, n-n/3, 0, c12Random(r))

	// the same with an operator whose own environment already holds (some of) the six variables
	// (shell-operator started from a hook of an outer operator): what the hook process sees must
	// still be the files of its own execution. The environment is process-global: these cases run
	// after the others; which variables are present is fixed per batch.
	{
		pick := NewRng(r.Seed*104729 + 5)
		batches := []int{63, 1 + pick.Intn(62)}
		per := n / 3 / len(batches)
		for bi, which := range batches {
			undo := c12SetOuterEnv(r, which)
			if bi == 0 {
				r.One(5, func(c *Case, rng *Rng) {
					env, err := c12Setup(r, c, c12HookFiles[:2])
					if err != nil {
						c.Op("setup", "harness-error "+err.Error())
						return
					}
					defer env.close()
					xs := []*c12Exec{
						{eid: 1, hook: 0, q: 1, metrics: "valid", adm: "valid", conv: "valid", patch: "valid", nctx: 2},
						{eid: 2, hook: 1, q: 2, exit: 1, metrics: "valid", adm: "empty", conv: "empty", patch: "empty", nctx: 1},
						{eid: 3, hook: 1, q: 2, metrics: "truncated", adm: "empty", conv: "empty", patch: "valid", nctx: 3},
					}
					for _, x := range xs {
						_ = env.writeScripts(x, rng)
					}
					env.runAll(xs)
					env.report(c, xs)
					c12Notes(c, xs)
					c.Note("corpus")
					c.Note("operator-env:has-hook-vars")
					c.Desc = "corpus: the operator's own environment holds the six path variables (it runs as a hook of an outer operator)"
					c.Nontrivial = true
				})
			}
			inner := c12Random(r)
			r.Cases(50000+bi*10000, per, 0, func(c *Case, rng *Rng) {
				inner(c, rng)
				c.Note("operator-env:has-hook-vars")
			})
			undo()
		}
	}

	// fourth wave: the operator is told its directories the way bootstrap.go does it (flags / env
	// variables -> RequireExistingDirectory / EnsureTempDirectory -> hook manager), in its own working
	// directory, which is not the hooks directory. One at a time: the working directory is process-global.
	{
		// corpus 7: `--tmp-dir=tmp --hooks-dir=hooks` from a checkout, second start (tmp/ is there)
		fixed := []*c12DirCfg{
			{tmpInCwd: true, hooksInCwd: true, tmpSpell: "rel", hooksSpell: "rel", tmpExists: true},
			{tmpInCwd: true, hooksInCwd: false, tmpSpell: "dotrel", hooksSpell: "abs", tmpExists: false},
			{tmpInCwd: false, hooksInCwd: true, tmpSpell: "rellink", hooksSpell: "reldots", tmpExists: true, viaEnv: true},
			{tmpInCwd: false, hooksInCwd: false, tmpSpell: "rel", hooksSpell: "rel", tmpExists: true},
		}
		for i, f := range fixed {
			f := f
			r.Cases(7+i, 1, 1, c12RandomCfg(r, func(*Rng) *c12DirCfg { return f }))
		}
		r.Cases(70000, r.N(24, 160), 1, c12RandomCfg(r, c12GenDirCfg))
	}

	// corpus 6: the patch file of a FAILED hook — every combination of the two markers of the "on hook
	// error" exception, for each patch type, JSON and YAML; the same file after a zero exit
	r.One(6, func(c *Case, rng *Rng) {
		env, err := c12Setup(r, c, c12HookFiles[:2])
		if err != nil {
			c.Op("setup", "harness-error "+err.Error())
			return
		}
		defer env.close()
		var xs []*c12Exec
		for ti, typ := range c12PatchTypes {
			for _, asYAML := range []bool{false, true} {
				for _, exit := range []int{1, 0} {
					eid := len(xs) + 1
					x := &c12Exec{eid: eid, hook: eid % 2, q: 1 + ti%2, exit: exit, nctx: 1, texted: true, pfmt: "json",
						metrics: "empty", adm: "empty", conv: "empty", patch: "marked"}
					if exit != 0 && ti == 1 {
						x.exit = PickOne(rng, []int{2, 3, 127, 255})
					}
					// the own Create first (never eligible on an error, marked or not)
					own := c12POp{isPatch: false, ignore: asYAML, target: c12ObjName(eid)}
					x.pops = append(x.pops, own)
					var docs []string
					if asYAML {
						docs = append(docs, fmt.Sprintf("operation: Create\nignoreHookError: true\nobject:\n  apiVersion: v1\n  kind: ConfigMap\n  metadata:\n    name: %s\n    namespace: default\n", own.target))
					} else {
						docs = append(docs, fmt.Sprintf(`{"operation":"Create","object":{"apiVersion":"v1","kind":"ConfigMap","metadata":{"name":"%s","namespace":"default"}}}`, own.target))
					}
					for i, m := range [][2]bool{{false, false}, {true, false}, {false, true}, {true, true}} {
						o := c12POp{isPatch: true, ignore: m[0], target: c12TargetName(eid, i+1)}
						if m[1] {
							o.sub = "/status"
						}
						x.pops = append(x.pops, o)
						docs = append(docs, c12PatchOpText(rng, typ, o, asYAML, false))
					}
					if asYAML {
						x.ptext, x.pfmt = strings.Join(docs, "---\n"), "yaml"
					} else {
						x.ptext = strings.Join(docs, "\n") + "\n"
					}
					xs = append(xs, x)
				}
			}
		}
		for _, x := range xs {
			if err := env.writeScripts(x, rng); err != nil {
				c.Op("setup", "harness-error "+err.Error())
				return
			}
		}
		env.runAll(xs)
		env.report(c, xs)
		c12Notes(c, xs)
		c.Note("corpus")
		c.Desc = "corpus: a failing (and a succeeding) hook leaves patch operations with / without ignoreHookError and subresource /status behind, MergePatch / JSONPatch / JQPatch, JSON and YAML"
		c.Nontrivial = true
	})

	if r.Thorough() {
		// exhaustive small scope: one execution, every combination of exit in {0,1} and file classes
		type combo struct {
			exit        int
			m, a, cv, p string
		}
		var combos []combo
		for _, ex := range []int{0, 1} {
			for _, m := range c12MetricsClasses {
				for _, a := range c12RespClasses {
					for _, cv := range c12RespClasses {
						for _, p := range c12PatchClasses {
							combos = append(combos, combo{ex, m, a, cv, p})
						}
					}
				}
			}
		}
		r.Cases(1000000, len(combos), 0, func(c *Case, rng *Rng) {
			rng = c13Reseed(rng)
			k := combos[c.Idx-1000000]
			env, err := c12Setup(r, c, c12HookFiles[:1])
			if err != nil {
				c.Op("setup", "harness-error "+err.Error())
				return
			}
			defer env.close()
			x := &c12Exec{eid: 1, hook: 0, q: 1, exit: k.exit, metrics: k.m, adm: k.a, conv: k.cv, patch: k.p, nctx: 1}
			_ = env.writeScripts(x, rng)
			env.runAll([]*c12Exec{x})
			env.report(c, []*c12Exec{x})
			c.Nontrivial = true
		})
		// third wave: every malformed-text shape in every file, one at a time (the other files well-formed
		// or empty), exit 0 and 1, 12 random variants of each
		type one struct {
			kind, shape string
			exit        int
		}
		var ones []one
		for _, kind := range []string{"metrics", "admission", "conversion", "patch"} {
			shapes := append([]string{"truncated", "wrongtype"}, c12MalformedShapes...)
			if kind == "admission" || kind == "conversion" {
				shapes = append(shapes, "twodocs")
			}
			for _, sh := range shapes {
				for _, ex := range []int{0, 0, 0, 1} {
					for v := 0; v < 4; v++ {
						ones = append(ones, one{kind, sh, ex})
					}
				}
			}
		}
		r.Cases(2000000, len(ones), 0, func(c *Case, rng *Rng) {
			rng = c13Reseed(rng)
			k := ones[c.Idx-2000000]
			env, err := c12Setup(r, c, c12HookFiles[:1])
			if err != nil {
				c.Op("setup", "harness-error "+err.Error())
				return
			}
			defer env.close()
			good := PickOne(rng, []string{"valid", "valid", "empty"})
			x := &c12Exec{eid: 1, hook: 0, q: 1, exit: k.exit, metrics: good, adm: good, conv: good, patch: good, nctx: 1}
			switch k.kind {
			case "metrics":
				x.metrics = k.shape
			case "admission":
				x.adm = k.shape
			case "conversion":
				x.conv = k.shape
			case "patch":
				x.patch = k.shape
			}
			_ = env.writeScripts(x, rng)
			env.runAll([]*c12Exec{x})
			env.report(c, []*c12Exec{x})
			c12Notes(c, []*c12Exec{x})
			c.Nontrivial = true
		})
		r.Exhaust = true
		r.Extra["malformed_shapes_scope"] = fmt.Sprintf("%d cases: every shape of malformed text (truncated, wrong type, stray closer, garbage, bad token, blank, second document) in each of the four files alone", len(ones))
		r.Extra["exhaustive_scope"] = fmt.Sprintf("all %d combinations of exit in {0,1} x 6 metrics classes x 5 admission x 5 conversion x 7 patch classes, one execution each", len(combos))
	}

	// last, alone and one after the other (the setting is process-global): the values of
	// --debug-keep-tmp-files. Documented (flag help, RUNNING.md): "set to yes to disable cleanup",
	// default "no": exactly "yes" keeps the files, every other value removes them. The value goes
	// through the real flag definition and the hooks are loaded by the real hook manager AFTER the
	// setting is in place (loadHook hands the setting to NewHook).
	keepValues := []string{"yes", "no", "false", "0", "true", "off", "No", "Yes", "YES", "1", "n", "y", "nope", "yes ", "ye", "none", "on"}
	keepChosen := map[int]bool{0: true, 1: true, 2: true, 3: true}
	{
		// quick: the four fixed ones + four more picked by the seed
		pick := NewRng(r.Seed*7919 + 17)
		for len(keepChosen) < 8 {
			keepChosen[4+pick.Intn(len(keepValues)-4)] = true
		}
	}
	for i, v := range keepValues {
		v := v
		if !r.Thorough() && !keepChosen[i] && r.OnlyCase != 20+i {
			continue
		}
		idx := 2
		if i > 0 {
			idx = 20 + i
		}
		r.One(idx, func(c *Case, rng *Rng) {
			defer func() { app.DebugKeepTmpFilesVar = "no" }()
			viaEnv := rng.Bool()
			got, err := c12ConfigureKeep(v, viaEnv)
			if err != nil {
				c.Op("setup", "harness-error flag parse: "+err.Error())
				return
			}
			env, err := c12Setup(r, c, c12HookFiles[:2])
			if err != nil {
				c.Op("setup", "harness-error "+err.Error())
				return
			}
			defer env.close()
			c.Op("keepvar "+c12Hex(got), "ok")
			xs := []*c12Exec{
				{eid: 1, hook: 0, q: 1, metrics: "valid", adm: "empty", conv: "empty", patch: "valid", nctx: 1},
				{eid: 2, hook: 1, q: 2, exit: 1, metrics: "empty", adm: "empty", conv: "empty", patch: "empty", nctx: 2},
				{eid: 3, hook: 0, q: 1, metrics: PickOne(rng, []string{"truncated", "strayclose", "valid"}), adm: "valid", conv: "empty", patch: "empty", nctx: 1},
			}
			for _, x := range xs {
				_ = env.writeScripts(x, rng)
			}
			env.runAll(xs)
			env.setting = &got
			env.report(c, xs)
			c.Note("corpus")
			c.Note(fmt.Sprintf("keep-setting:%q", got))
			c.Desc = fmt.Sprintf("--debug-keep-tmp-files = %q (via env: %v): only \"yes\" keeps the files", got, viaEnv)
			c.Nontrivial = true
		})
	}
	_ = sort.Strings
}
