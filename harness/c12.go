package main

import (
	"context"
	"encoding/hex"
	"encoding/json"
	"fmt"
	"io"
	"os"
	"path/filepath"
	"reflect"
	"regexp"
	"sort"
	"strings"
	"sync"
	"time"

	"github.com/deckhouse/deckhouse/pkg/log"
	metav1 "k8s.io/apimachinery/pkg/apis/meta/v1"

	"github.com/flant/kube-client/fake"
	"github.com/flant/kube-client/manifest"
	"github.com/flant/shell-operator/pkg/app"
	"github.com/flant/shell-operator/pkg/hook"
	bctx "github.com/flant/shell-operator/pkg/hook/binding_context"
	"github.com/flant/shell-operator/pkg/hook/task_metadata"
	htypes "github.com/flant/shell-operator/pkg/hook/types"
	objectpatch "github.com/flant/shell-operator/pkg/kube/object_patch"
	metricstorage "github.com/flant/shell-operator/pkg/metric_storage"
	shell_operator "github.com/flant/shell-operator/pkg/shell-operator"
	"github.com/flant/shell-operator/pkg/task"
	"github.com/flant/shell-operator/pkg/task/queue"
	"gopkg.in/alecthomas/kingpin.v2"
	"gopkg.in/yaml.v3"
)

func init() { suites["c12"] = runC12 }

// ---------------------------------------------------------------- the generated hook

const c12HookScript = `#!/bin/bash
if [[ "$1" == "--config" ]]; then
  echo '{"configVersion":"v1","onStartup":10}'
  exit 0
fi
B=%q
id=$(jq -r '.[0].binding' "$BINDING_CONTEXT_PATH")
R="$B/rec/$id"; S="$B/scripts/$id"
mkdir -p "$R"
pwd > "$R/pwd"
for v in BINDING_CONTEXT_PATH METRICS_PATH CONVERSION_RESPONSE_PATH VALIDATING_RESPONSE_PATH ADMISSION_RESPONSE_PATH KUBERNETES_PATCH_PATH; do
  echo "$v=${!v}"
done > "$R/env"
for v in METRICS_PATH CONVERSION_RESPONSE_PATH ADMISSION_RESPONSE_PATH KUBERNETES_PATCH_PATH; do
  stat -c %%s "${!v}"
done > "$R/sizes"
cp "$BINDING_CONTEXT_PATH" "$R/context"
for f in metrics:METRICS_PATH conversion:CONVERSION_RESPONSE_PATH admission:ADMISSION_RESPONSE_PATH patch:KUBERNETES_PATCH_PATH; do
  n=${f%%%%:*}; v=${f##*:}
  if [[ -f "$S/$n.delete" ]]; then rm -f "${!v}"; elif [[ -f "$S/$n" ]]; then cat "$S/$n" > "${!v}"; fi
done
if [[ -f "$S/sleep" ]]; then sleep "$(cat "$S/sleep")"; fi
if [[ -f "$S/stderr" ]]; then echo "hook $id complains on stderr" >&2; fi
if [[ -f "$S/kill" ]]; then kill -KILL $$; fi
exit "$(cat "$S/exit")"
`

// ---------------------------------------------------------------- scripted outputs

type c12Exec struct {
	eid     int
	hook    int
	q       int
	allow   bool
	exit    int
	metrics string
	adm     string
	conv    string
	patch   string
	nctx    int
	sleepMs int
	stderr  bool // the hook writes a line to stderr (not a failure by itself)
	killed  bool // the hook process ends by SIGKILL instead of exit (a non-zero exit for the executor)

	// the text written into each output file (decided at generation; "" + class deleted/empty = untouched)
	mtext, atext, ctext, ptext string
	pfmt                       string // patch text is a JSON stream ("json") or YAML ("yaml")
	texted                     bool

	// observed
	status   string
	admProp  bool
	convProp bool
}

var c12MetricsClasses = []string{"empty", "valid", "badbatch", "truncated", "wrongtype", "deleted"}
var c12RespClasses = []string{"empty", "valid", "truncated", "wrongtype", "deleted"}
var c12PatchClasses = []string{"empty", "valid", "applyerr", "invaliddoc", "truncated", "wrongtype", "deleted"}

// third wave: more shapes of malformed text (the driver decides from the text whether a file is
// well-formed; the class is the generator's intention and the bucket name)
var c12MalformedShapes = []string{"strayclose", "garbage", "badtoken", "blank"}
var c12MetricsClassesAll = append(append([]string{}, c12MetricsClasses...), c12MalformedShapes...)
var c12RespClassesAll = append(append(append([]string{}, c12RespClasses...), c12MalformedShapes...), "twodocs")
var c12PatchClassesAll = append(append([]string{}, c12PatchClasses...), c12MalformedShapes...)

// does a YAML reader accept the whole text (as a sequence of documents of any shape)?
func c12IsYAML(text string) bool {
	dec := yaml.NewDecoder(strings.NewReader(text))
	for {
		var n yaml.Node
		err := dec.Decode(&n)
		if err == io.EOF {
			return true
		}
		if err != nil {
			return false
		}
	}
}

func c12Hex(s string) string { return "x" + hex.EncodeToString([]byte(s)) }

var c12Seps = []string{"\n", "\n", " ", "", "\r\n", "\t", "\n\n"}

// a number in every form encoding/json accepts
func c12Num(rng *Rng) string {
	return PickOne(rng, []string{"1", "2", "7", "10", "0", "-3", "2.50", "0.5", "-0.25", "1e2", "1E+2", "25e-1", "1.5e1"})
}

// a field encoding/json ignores (unknown name), with a value that exercises the whole grammar
func c12ExtraField(rng *Rng) string {
	return PickOne(rng, []string{
		`"zz":null`, `"zz":[]`, `"zz":{}`, `"zz":[1,-2.5e-3,null,true,false,"s"]`, `"zz":{"k":{"l":[{"m":"\u0041\n\"q\"\\"}]}}`,
		`"zz" : [ 1 , 2 ]`, `"zz":"{not a } brace]"`, `"zz":"\/\b\f\r\t"`,
	})
}

// damage a well-formed text (recs = its records / documents, joined by sep): the result is malformed
// JSON whatever the records are
func c12Malform(rng *Rng, shape string, recs []string, sep string) string {
	join := func(rs []string) string { return strings.Join(rs, sep) }
	last := recs[len(recs)-1]
	switch shape {
	case "truncated":
		// cut strictly inside the last record: what is left of it is an unclosed value
		cut := 1 + rng.Intn(len(last)-1)
		return join(append(append([]string{}, recs[:len(recs)-1]...), last[:cut]))
	case "strayclose":
		cl := PickOne(rng, []string{"}", "]", "}", "]", "}}", "]}", "} ]"})
		switch rng.Intn(6) {
		case 0: // glued to the last record: {...}}
			return join(recs) + cl + PickOne(rng, []string{"", "\n"})
		case 1: // on its own line after the last record (a badly sliced array)
			return join(recs) + "\n" + cl + "\n"
		case 2: // before the first record (tail of a torn write)
			return cl + PickOne(rng, []string{"", "\n", " "}) + join(recs) + "\n"
		case 3: // nothing but the closer
			return cl + PickOne(rng, []string{"", "\n"})
		case 4: // between two records
			return join(recs) + PickOne(rng, []string{"", "\n", " "}) + cl + "\n" + last + "\n"
		default: // after white space
			return join(recs) + " \t" + cl
		}
	case "garbage":
		g := PickOne(rng, []string{"garbage", "x", ",", "{", "[", ":", "\"", "nul", "tru", "-", "\x00", "{\"name\"", "//c", "undefined", "'a'", ";"})
		switch rng.Intn(4) {
		case 0:
			return join(recs) + g
		case 1:
			return join(recs) + "\n" + g + "\n"
		case 2:
			return g + PickOne(rng, []string{"", "\n", " "}) + join(recs) + "\n"
		default:
			return join(recs) + " " + g + " " + last
		}
	case "badtoken":
		bad := last
		switch rng.Intn(9) {
		case 0:
			bad = strings.Replace(bad, ":", "=", 1)
		case 1:
			bad = strings.ReplaceAll(bad, "\"", "'")
		case 2: // unquoted first key
			if i := strings.Index(bad, "\""); i >= 0 {
				if j := strings.Index(bad[i+1:], "\""); j >= 0 {
					bad = bad[:i] + bad[i+1:i+1+j] + bad[i+2+j:]
				}
			}
		case 3: // trailing comma
			if i := strings.LastIndex(bad, "}"); i >= 0 {
				bad = bad[:i] + "," + bad[i:]
			}
		case 4: // a number that is none, as the value of an ignored field
			if i := strings.Index(bad, "{"); i >= 0 {
				bad = bad[:i+1] + `"zz":` + PickOne(rng, []string{"01", "+1", ".5", "1.", "1e", "0x10", "NaN", "-", "1.e2", "--1", "1e+"}) + "," + bad[i+1:]
			}
		case 5: // a raw control character inside a string
			if i := strings.Index(bad, "{"); i >= 0 {
				bad = bad[:i+1] + "\"zz\":\"a" + PickOne(rng, []string{"\n", "\t", "\x01"}) + "b\"," + bad[i+1:]
			}
		case 6: // an escape that does not exist
			if i := strings.Index(bad, "{"); i >= 0 {
				bad = bad[:i+1] + `"zz":"a` + PickOne(rng, []string{`\x41`, `\u00g1`, `\a`, `\'`, `\u12`}) + `b",` + bad[i+1:]
			}
		case 7: // a literal that does not exist
			if i := strings.Index(bad, "{"); i >= 0 {
				bad = bad[:i+1] + `"zz":` + PickOne(rng, []string{"True", "nil", "NULL", "tru", "falsey", "nulll"}) + "," + bad[i+1:]
			}
		default: // missing comma / colon
			if i := strings.Index(bad, "{"); i >= 0 {
				bad = bad[:i+1] + PickOne(rng, []string{`"zz":1 `, `"zz" 1,`, `"zz":,`, `,`, `"zz":1,,`, `1:2,`}) + bad[i+1:]
			}
		}
		if bad == last { // a record without braces / quotes (null): make it a non-token
			bad = last + "?"
		}
		return join(append(append([]string{}, recs[:len(recs)-1]...), bad)) + "\n"
	case "blank": // nothing but white space: not a document
		return PickOne(rng, []string{" ", "\n", "\t\n", "  \r\n "})
	case "twodocs":
		return last + PickOne(rng, []string{"", "\n", " "}) + last + "\n"
	}
	return join(recs)
}

func c12MetricName(eid int) string { return fmt.Sprintf("c12_m_%d", eid) }
func c12ObjName(eid int) string    { return fmt.Sprintf("c12-%d", eid) }

// content of an output file for a class ("" + false = leave the file as it is: empty); the third
// result says whether a patch text is a JSON stream or YAML
func c12Content(kind, class string, eid int, rng *Rng) (string, bool, string) {
	switch class {
	case "empty":
		return "", false, "json"
	case "deleted":
		return "", false, "json"
	}
	sep := PickOne(rng, c12Seps)
	ws := func(rec string) string { // optional insignificant white space inside a compact record
		if !rng.Chance(25) {
			return rec
		}
		return strings.NewReplacer(`":`, `" : `, `,"`, ` ,`+PickOne(rng, []string{" ", "\n\t", "\r\n"})+`"`, `{"`, `{ "`).Replace(rec)
	}
	isShape := func() bool {
		for _, sh := range c12MalformedShapes {
			if class == sh {
				return true
			}
		}
		return class == "truncated" || class == "twodocs"
	}()
	switch kind {
	case "metrics":
		own := fmt.Sprintf(`{"name":"%s","set":%s,"labels":{"a":"b"}}`, c12MetricName(eid), c12Num(rng))
		if rng.Chance(30) {
			own = fmt.Sprintf(`{"name":"%s","action":"set","value":%s,%s}`, c12MetricName(eid), c12Num(rng), c12ExtraField(rng))
		}
		own = ws(own)
		recs := []string{own}
		if rng.Chance(40) {
			recs = append(recs, ws(PickOne(rng, []string{`{"name":"c12_extra","action":"add","value":1}`, `{"name":"c12_extra2","add":2.5,"labels":{}}`, `{"group":"g","action":"expire"}`})))
		}
		switch {
		case class == "valid":
			return strings.Join(recs, sep) + PickOne(rng, []string{"\n", "", " ", "\r\n"}), true, "json"
		case class == "badbatch":
			return own + "\n" + PickOne(rng, []string{
				`{"name":"c12_bad","action":"frobnicate","value":1}`,
				`{"action":"set","value":1}`,
				`{"name":"c12_bad","action":"set"}`,
				`null`,
				`{}`,
			}) + "\n", true, "json"
		case class == "wrongtype":
			return PickOne(rng, []string{`[1,2,3]`, `"metrics"`, `42`, `true`, `{"name":7}`, own + sep + `[{"name":"x"}]`,
				own + sep + `{"name":"x","labels":{"a":1}}`, `{"name":"x","buckets":[1,"2"]}`, `{"name":"x","set":"1"}`, `{"Name":7}`,
				own + sep + `{"name":"x","value":true}`, `{"name":"x","labels":["a"]}`, `{"name":"x","action":1}`, own + "\n" + `{"group":{}}`}), true, "json"
		case isShape:
			return c12Malform(rng, class, recs, sep), true, "json"
		}
	case "admission", "conversion":
		var valid string
		if kind == "admission" {
			valid = PickOne(rng, []string{`{"allowed":true}`, `{"allowed":false,"message":"no"}`, `{"allowed":true,"warnings":["w"]}`,
				`{"allowed":true,` + c12ExtraField(rng) + `}`, `{"message":null,"allowed":true,"warnings":null}`, `{}`})
		} else {
			valid = PickOne(rng, []string{`{"convertedObjects":[{"apiVersion":"v1","kind":"X"}]}`, `{"failedMessage":"nope"}`,
				`{"convertedObjects":[],` + c12ExtraField(rng) + `}`, `{"failedMessage":"","convertedObjects":null}`, `{}`})
		}
		valid = ws(valid)
		switch {
		case class == "valid":
			return PickOne(rng, []string{"", "", " ", "\n"}) + valid + PickOne(rng, []string{"\n", "", " \n\t", "\r\n"}), true, "json"
		case class == "wrongtype" && kind == "admission":
			return PickOne(rng, []string{`[true]`, `"yes"`, `42`, `true`, `{"allowed":"yes"}`, `{"allowed":true,"warnings":"w"}`,
				`{"allowed":1}`, `{"allowed":true,"message":5}`, `{"allowed":true,"warnings":[1]}`, `{"ALLOWED":"x"}`, `{"allowed":{}}`}), true, "json"
		case class == "wrongtype":
			return PickOne(rng, []string{`["x"]`, `"done"`, `42`, `false`, `{"convertedObjects":"none"}`, `{"failedMessage":["a"]}`,
				`{"failedMessage":7}`, `{"convertedObjects":{}}`, `{"FailedMessage":true}`, `{"convertedObjects":1}`}), true, "json"
		case isShape:
			return c12Malform(rng, class, []string{valid}, sep), true, "json"
		}
	case "patch":
		mk := func(name string) string {
			if rng.Bool() {
				return fmt.Sprintf(`{"operation":"Create","object":{"apiVersion":"v1","kind":"ConfigMap","metadata":{"name":"%s","namespace":"default"},"data":{"k":"v"}}}`, name)
			}
			return fmt.Sprintf("operation: Create\nobject:\n  apiVersion: v1\n  kind: ConfigMap\n  metadata:\n    name: %s\n    namespace: default\n  data:\n    k: v\n", name)
		}
		mkJSON := func(name string) string {
			return ws(fmt.Sprintf(`{"operation":"Create","object":{"apiVersion":"v1","kind":"ConfigMap","metadata":{"name":"%s","namespace":"default"},"data":{"k":"v"}}}`, name))
		}
		isJ := func(d string) bool { return strings.HasPrefix(d, "{") }
		join := func(a, b string) (string, string) {
			if isJ(a) && isJ(b) {
				return a + "\n" + b + "\n", "json"
			}
			// mixed or YAML: both as YAML documents (JSON is YAML)
			return a + "\n---\n" + b + "\n", "yaml"
		}
		fmtOf := func(d string) string {
			if isJ(d) {
				return "json"
			}
			return "yaml"
		}
		own := mk(c12ObjName(eid))
		switch {
		case class == "valid":
			return own + "\n", true, fmtOf(own)
		case class == "applyerr":
			t, f := join(own, mk("existing"))
			return t, true, f
		case class == "invaliddoc":
			bad := PickOne(rng, []string{`{"operation":"Frobnicate","kind":"ConfigMap","name":"x"}`, `{"operation":"Delete","name":"x"}`, `{"operation":"Create"}`})
			if rng.Bool() {
				t, f := join(own, bad)
				return t, true, f
			}
			t, f := join(bad, own)
			return t, true, f
		case class == "wrongtype":
			return PickOne(rng, []string{`[1,2]`, `"just a string"`, `42`, `{"operation":["Create"]}`}), true, "json"
		case isShape:
			recs := []string{mkJSON(c12ObjName(eid))}
			if rng.Chance(30) {
				recs = append(recs, mkJSON(fmt.Sprintf("c12-second-%d", eid)))
			}
			// The patch file is "JSON or YAML": a text that is not JSON is handed to the YAML reader, and
			// YAML's flow syntax accepts some damaged JSON (trailing comma, unquoted or single-quoted
			// keys). Whether a text is YAML is not modelled: the generator stays out of that class — a
			// damaged text that any YAML reader still accepts is replaced (a cut inside a record never is).
			for try := 0; try < 8; try++ {
				if t := c12Malform(rng, class, recs, PickOne(rng, []string{"\n", "\n", " ", ""})); !c12IsYAML(t) {
					return t, true, "json"
				}
			}
			return c12Malform(rng, "truncated", recs, "\n"), true, "json"
		}
	}
	return "", false, "json"
}

// ---------------------------------------------------------------- one operator per case

type c12Env struct {
	dir, hooksDir, tmpDir, recDir, scriptsDir string
	hookNames                                 []string // relative paths, as the hook manager names them
	op                                        *shell_operator.ShellOperator
	fc                                        *fake.Cluster
	hookMetrics                               *metricstorage.MetricStorage
	cancel                                    context.CancelFunc
	setting                                   *string // value of --debug-keep-tmp-files the case runs with (nil: the default)
}

func c12Setup(r *Run, c *Case, hookFiles []string) (*c12Env, error) {
	e := &c12Env{dir: filepath.Join(r.Scratch, fmt.Sprintf("c12-%d", c.Idx))}
	if abs, err := filepath.Abs(r.Scratch); err == nil {
		if d, err := filepath.EvalSymlinks(abs); err == nil {
			e.dir = filepath.Join(d, fmt.Sprintf("c12-%d", c.Idx))
		}
	}
	e.hooksDir = filepath.Join(e.dir, "hooks")
	e.tmpDir = filepath.Join(e.dir, "tmp")
	e.recDir = filepath.Join(e.dir, "rec")
	e.scriptsDir = filepath.Join(e.dir, "scripts")
	for _, d := range []string{e.hooksDir, e.tmpDir, e.recDir, e.scriptsDir} {
		if err := os.MkdirAll(d, 0o755); err != nil {
			return nil, err
		}
	}
	script := fmt.Sprintf(c12HookScript, e.dir)
	for _, hf := range hookFiles {
		p := filepath.Join(e.hooksDir, hf)
		if err := os.MkdirAll(filepath.Dir(p), 0o755); err != nil {
			return nil, err
		}
		if err := writeScript(p, []byte(script), 0o755); err != nil {
			return nil, err
		}
	}
	e.hookNames = hookFiles

	ctx, cancel := context.WithCancel(context.Background())
	e.cancel = cancel
	nop := log.NewNop()
	e.fc = fake.NewFakeCluster(fake.ClusterVersionV119)
	e.fc.CreateNs("default")
	if err := e.fc.Create("default", manifest.MustFromYAML("apiVersion: v1\nkind: ConfigMap\nmetadata:\n  name: existing\n  namespace: default\ndata:\n  k: v\n")); err != nil {
		return nil, err
	}
	op := shell_operator.NewShellOperator(ctx, shell_operator.WithLogger(nop))
	op.MetricStorage = metricstorage.NewMetricStorage(ctx, "shell_operator_", true, nop)
	e.hookMetrics = metricstorage.NewMetricStorage(ctx, "", true, nop)
	op.HookMetricStorage = e.hookMetrics
	op.KubeClient = e.fc.Client
	op.ObjectPatcher = objectpatch.NewObjectPatcher(e.fc.Client, nop)
	op.TaskQueues = queue.NewTaskQueueSet()
	op.HookManager = hook.NewHookManager(&hook.ManagerConfig{WorkingDir: e.hooksDir, TempDir: e.tmpDir, Logger: nop})
	// ETXTBSY: a script just written can still be open for writing in a child forked concurrently by
	// another case (the descriptor is closed on exec); a property of fork/exec, not of the code under test.
	var initErr error
	for try := 0; try < 50; try++ {
		if initErr = op.HookManager.Init(); initErr == nil || !strings.Contains(initErr.Error(), "text file busy") {
			break
		}
		time.Sleep(20 * time.Millisecond)
	}
	if initErr != nil {
		return nil, fmt.Errorf("hook manager init: %w", initErr)
	}
	e.op = op
	return e, nil
}

func (e *c12Env) close() { e.cancel() }

func (e *c12Env) writeScripts(x *c12Exec, rng *Rng) error {
	d := filepath.Join(e.scriptsDir, fmt.Sprintf("exec-%d", x.eid))
	if err := os.MkdirAll(d, 0o755); err != nil {
		return err
	}
	if x.texted { // corpus: the texts are given
		if x.pfmt == "" {
			x.pfmt = "json"
		}
		for _, kt := range [][2]string{{"metrics", x.mtext}, {"admission", x.atext}, {"conversion", x.ctext}, {"patch", x.ptext}} {
			if kt[1] != "" {
				if err := os.WriteFile(filepath.Join(d, kt[0]), []byte(kt[1]), 0o644); err != nil {
					return err
				}
			}
		}
		return os.WriteFile(filepath.Join(d, "exit"), []byte(fmt.Sprint(x.exit)), 0o644)
	}
	x.pfmt = "json"
	for _, kc := range [][2]string{{"metrics", x.metrics}, {"admission", x.adm}, {"conversion", x.conv}, {"patch", x.patch}} {
		kind, class := kc[0], kc[1]
		if class == "deleted" {
			if err := os.WriteFile(filepath.Join(d, kind+".delete"), nil, 0o644); err != nil {
				return err
			}
			continue
		}
		if content, ok, pf := c12Content(kind, class, x.eid, rng); ok {
			if err := os.WriteFile(filepath.Join(d, kind), []byte(content), 0o644); err != nil {
				return err
			}
			switch kind {
			case "metrics":
				x.mtext = content
			case "admission":
				x.atext = content
			case "conversion":
				x.ctext = content
			case "patch":
				x.ptext, x.pfmt = content, pf
			}
		}
	}
	if x.stderr {
		_ = os.WriteFile(filepath.Join(d, "stderr"), nil, 0o644)
	}
	if x.killed {
		_ = os.WriteFile(filepath.Join(d, "kill"), nil, 0o644)
	}
	if x.sleepMs > 0 {
		_ = os.WriteFile(filepath.Join(d, "sleep"), []byte(fmt.Sprintf("0.%03d", x.sleepMs)), 0o644)
	}
	return os.WriteFile(filepath.Join(d, "exit"), []byte(fmt.Sprint(x.exit)), 0o644)
}

// the contexts of the task of execution x, and what the context file must hold for them
func c12Contexts(x *c12Exec) ([]bctx.BindingContext, []any) {
	var bcs []bctx.BindingContext
	var want []any
	first := bctx.BindingContext{Binding: fmt.Sprintf("exec-%d", x.eid)}
	first.Metadata.BindingType = htypes.OnStartup
	bcs = append(bcs, first)
	want = append(want, map[string]any{"binding": first.Binding})
	for i := 1; i < x.nctx; i++ {
		bc := bctx.BindingContext{Binding: fmt.Sprintf("b%d", i)}
		bc.Metadata.BindingType = htypes.Schedule
		w := map[string]any{"binding": bc.Binding, "type": "Schedule"}
		if i%2 == 0 {
			bc.Metadata.Group = fmt.Sprintf("g%d", i)
			w = map[string]any{"binding": bc.Binding, "type": "Group", "groupName": bc.Metadata.Group}
		}
		bcs = append(bcs, bc)
		want = append(want, w)
	}
	return bcs, want
}

func (e *c12Env) runTask(x *c12Exec) {
	bcs, _ := c12Contexts(x)
	meta := task_metadata.HookMetadata{
		HookName:       e.hookNames[x.hook],
		Binding:        "onStartup",
		BindingType:    htypes.OnStartup,
		BindingContext: bcs,
		AllowFailure:   x.allow,
	}
	t := task.NewTask(task_metadata.HookRun).WithMetadata(meta).WithQueueName(fmt.Sprintf("q%d", x.q))
	t.WithQueuedAt(time.Now())
	x.status = Catch(func() string { return string(e.op.VerifC12TaskHandler(t).Status) })
	x.admProp = t.GetProp("admissionResponse") != nil
	x.convProp = t.GetProp("conversionResponse") != nil
}

// run the executions: one goroutine per queue (the queue worker), tasks of a queue in order
func (e *c12Env) runAll(xs []*c12Exec) {
	byQ := map[int][]*c12Exec{}
	for _, x := range xs {
		byQ[x.q] = append(byQ[x.q], x)
	}
	var wg sync.WaitGroup
	for _, q := range byQ {
		q := q
		wg.Add(1)
		go func() {
			defer wg.Done()
			for _, x := range q {
				e.runTask(x)
			}
		}()
	}
	wg.Wait()
}

func (e *c12Env) objectExists(name string) bool {
	gvr := e.fc.MustFindGVR("v1", "ConfigMap")
	_, err := e.fc.Client.Dynamic().Resource(*gvr).Namespace("default").Get(context.TODO(), name, metav1.GetOptions{})
	return err == nil
}

func (e *c12Env) metricPresent(name string) bool {
	mfs, err := e.hookMetrics.Gatherer.Gather()
	if err != nil {
		return false
	}
	for _, mf := range mfs {
		if mf.GetName() == name {
			return true
		}
	}
	return false
}

func (e *c12Env) leftover() int {
	es, err := os.ReadDir(e.tmpDir)
	if err != nil {
		return -1
	}
	return len(es)
}

var c12UUID = `[0-9a-f]{8}-[0-9a-f]{4}-[0-9a-f]{4}-[0-9a-f]{4}-[0-9a-f]{12}`

// what the hook process recorded -> flags of the `oracle env` line, and the five file names
func (e *c12Env) envObs(x *c12Exec) (string, []string) {
	rd := filepath.Join(e.recDir, fmt.Sprintf("exec-%d", x.eid))
	h := e.op.HookManager.GetHook(e.hookNames[x.hook])
	safe := regexp.QuoteMeta(h.SafeName())
	read := func(f string) string {
		b, _ := os.ReadFile(filepath.Join(rd, f))
		return strings.TrimSpace(string(b))
	}
	env := map[string]string{}
	for _, l := range strings.Split(read("env"), "\n") {
		if i := strings.IndexByte(l, '='); i > 0 && l[i+1:] != "" {
			env[l[:i]] = l[i+1:]
		}
	}
	pwdOK := read("pwd") == filepath.Dir(h.Path)
	dirOK := len(env) > 0
	for _, p := range env {
		if filepath.Dir(p) != e.tmpDir {
			dirOK = false
		}
	}
	pats := map[string]string{
		"BINDING_CONTEXT_PATH":     `^hook-` + safe + `-binding-context-` + c12UUID + `\.json$`,
		"METRICS_PATH":             `^hook-` + safe + `-metrics-` + c12UUID + `\.json$`,
		"CONVERSION_RESPONSE_PATH": `^hook-` + safe + `-conversion-response-` + c12UUID + `\.json$`,
		"VALIDATING_RESPONSE_PATH": `^hook-` + safe + `-admission-response-` + c12UUID + `\.json$`,
		"ADMISSION_RESPONSE_PATH":  `^hook-` + safe + `-admission-response-` + c12UUID + `\.json$`,
		"KUBERNETES_PATCH_PATH":    `^` + safe + `-object-patch-` + c12UUID + `$`,
	}
	patOK := true
	for v, pat := range pats {
		if !regexp.MustCompile(pat).MatchString(filepath.Base(env[v])) {
			patOK = false
		}
	}
	sizesOK := read("sizes") == "0\n0\n0\n0"
	_, want := c12Contexts(x)
	var got any
	ctxOK := json.Unmarshal([]byte(read("context")), &got) == nil && reflect.DeepEqual(got, any(want))
	aliasOK := env["VALIDATING_RESPONSE_PATH"] != "" && env["VALIDATING_RESPONSE_PATH"] == env["ADMISSION_RESPONSE_PATH"]
	names := []string{env["BINDING_CONTEXT_PATH"], env["METRICS_PATH"], env["CONVERSION_RESPONSE_PATH"], env["ADMISSION_RESPONSE_PATH"], env["KUBERNETES_PATCH_PATH"]}
	return fmt.Sprintf("inherit=%d vars=%d pwd=%s dir=%s pattern=%s sizes=%s ctx=%s alias=%s", c12InheritedVars(), len(env), c13B01(pwdOK), c13B01(dirOK), c13B01(patOK), c13B01(sizesOK), c13B01(ctxOK), c13B01(aliasOK)), names
}

// ---------------------------------------------------------------- the operator's own environment

var c12PathVars = []string{"BINDING_CONTEXT_PATH", "METRICS_PATH", "CONVERSION_RESPONSE_PATH", "VALIDATING_RESPONSE_PATH", "ADMISSION_RESPONSE_PATH", "KUBERNETES_PATCH_PATH"}

// how many of the six variables the operator process (this process) has in its own environment
func c12InheritedVars() int {
	n := 0
	for _, v := range c12PathVars {
		if _, ok := os.LookupEnv(v); ok {
			n++
		}
	}
	return n
}

// The operator itself runs as a hook of an outer operator (or under a wrapper that exports these
// variables): its environment already holds the six variables, pointing to somebody else's files.
// which: bit i set = variable i is present. Returns the undo.
func c12SetOuterEnv(r *Run, which int) func() {
	d := filepath.Join(r.Scratch, "c12-outer")
	_ = os.MkdirAll(d, 0o755)
	files := map[string]string{
		"BINDING_CONTEXT_PATH":     `[{"binding":"outer-binding"}]`,
		"METRICS_PATH":             "",
		"CONVERSION_RESPONSE_PATH": "",
		"VALIDATING_RESPONSE_PATH": "",
		"ADMISSION_RESPONSE_PATH":  "",
		"KUBERNETES_PATCH_PATH":    "",
	}
	var set []string
	for i, v := range c12PathVars {
		if which&(1<<i) == 0 {
			continue
		}
		p := filepath.Join(d, "outer-"+strings.ToLower(v))
		_ = os.WriteFile(p, []byte(files[v]), 0o644)
		_ = os.Setenv(v, p)
		set = append(set, v)
	}
	return func() {
		for _, v := range set {
			_ = os.Unsetenv(v)
		}
	}
}

// ---------------------------------------------------------------- the keep-tmp-files setting

// configure --debug-keep-tmp-files the way the operator does: the real flag definition
// (app.DefineDebugFlags), given on the command line or through DEBUG_KEEP_TMP_FILES
func c12ConfigureKeep(value string, viaEnv bool) (string, error) {
	kp := kingpin.New("shell-operator", "")
	kp.Terminate(func(int) {})
	cmd := kp.Command("start", "")
	app.DefineDebugFlags(kp, cmd)
	args := []string{"start"}
	if viaEnv {
		_ = os.Setenv("DEBUG_KEEP_TMP_FILES", value)
		defer os.Unsetenv("DEBUG_KEEP_TMP_FILES")
	} else {
		args = append(args, "--debug-keep-tmp-files="+value)
	}
	if _, err := kp.Parse(args); err != nil {
		return "", err
	}
	return app.DebugKeepTmpFilesVar, nil
}

func (x *c12Exec) line() string {
	pf := x.pfmt
	if pf == "" {
		pf = "json"
	}
	return fmt.Sprintf("exec %d hook=%d q=%d nctx=%d allow=%s exit=%d metrics=%s adm=%s conv=%s patch=%s mt=%s at=%s ct=%s pt=%s pf=%s",
		x.eid, x.hook, x.q, x.nctx, c13B01(x.allow), x.exit, x.metrics, x.adm, x.conv, x.patch,
		c12Hex(x.mtext), c12Hex(x.atext), c12Hex(x.ctext), c12Hex(x.ptext), pf)
}

// report: one exec line + oracles per execution (in eid order), then the temp dir and the names
func (e *c12Env) report(c *Case, xs []*c12Exec) {
	var all []string
	for _, x := range xs {
		p, m := e.objectExists(c12ObjName(x.eid)), e.metricPresent(c12MetricName(x.eid))
		obs := fmt.Sprintf("status=%s patch=%s metrics=%s adm=%s conv=%s", x.status, c13B01(p), c13B01(m), c13B01(x.admProp), c13B01(x.convProp))
		c.Op(x.line(), obs)
		c.Oracle(fmt.Sprintf("outcome eid=%d %s", x.eid, obs))
		envLine, names := e.envObs(x)
		c.Oracle(fmt.Sprintf("env eid=%d %s", x.eid, envLine))
		all = append(all, names...)
	}
	left := e.leftover()
	c.Op("tmpdir", fmt.Sprintf("leftover=%d", left))
	if e.setting != nil {
		c.Oracle(fmt.Sprintf("tmpdir leftover=%d setting=%s", left, c12Hex(*e.setting)))
	} else {
		c.Oracle(fmt.Sprintf("tmpdir leftover=%d", left))
	}
	in := NewInterner()
	var ids []int
	for _, n := range all {
		if n == "" {
			ids = append(ids, 0) // a variable that was not set: all such count as one (repeated) name
			continue
		}
		ids = append(ids, in.Id(n))
	}
	c.Oracle("unique ids=" + joinInts(ids))
}

// ---------------------------------------------------------------- generator

var c12HookFiles = []string{"h1.sh", "sub/h2.sh", "003-deep/nested dir/h3.sh"}

// ---------------------------------------------------------------- temp files that cannot be created

// Length of each temp file name beyond the hook's safe name, in creation order (binding-context,
// metrics, admission-response, conversion-response, object-patch): "hook-" + safe + "-<kind>-" + uuid
// [+ ".json"]. With NAME_MAX = 255 a safe name of L bytes gets: L <= 188 all five files; L = 189 the
// conversion-response file (4th) fails after three were created; L = 190..192 the admission-response
// file (3rd) fails after two; L >= 193 the first one fails. The removal list of Run is NOT in creation
// order (conversion before admission), so every one of these points is a different situation.
var c12NameExtra = []int{63, 55, 66, 67, 50}

func c12CreatedFor(safeLen int) int {
	created := 0
	for _, extra := range c12NameExtra {
		if safeLen+extra > 255 {
			break
		}
		created++
	}
	return created
}

// a hook file whose safe name has safeLen bytes
func c12LongHook(safeLen int) string { return strings.Repeat("a", safeLen-3) + ".sh" }

var c12NameMaxOnce sync.Once
var c12NameMaxIs255 bool

// does the scratch file system refuse exactly the names longer than 255 bytes?
func c12NameMax255(r *Run) bool {
	c12NameMaxOnce.Do(func() {
		d := filepath.Join(r.Scratch, "c12-namemax-probe")
		if os.MkdirAll(d, 0o755) != nil {
			return
		}
		defer os.RemoveAll(d)
		ok255 := os.WriteFile(filepath.Join(d, strings.Repeat("n", 255)), nil, 0o644) == nil
		ok256 := os.WriteFile(filepath.Join(d, strings.Repeat("n", 256)), nil, 0o644) == nil
		c12NameMaxIs255 = ok255 && !ok256
	})
	return c12NameMaxIs255
}

// one execution, alone, of a hook some of whose temp files cannot be created: the process must not be
// started, the task fails, and — "whatever the outcome" — no temp file may stay
func (e *c12Env) runPrepFail(c *Case, x *c12Exec, created int, rng *Rng) {
	_ = e.writeScripts(x, rng)
	e.runAll([]*c12Exec{x})
	_, statErr := os.Stat(filepath.Join(e.recDir, fmt.Sprintf("exec-%d", x.eid)))
	left := e.leftover()
	c.Op(fmt.Sprintf("prepfail %d created=%d allow=%s", x.eid, created, c13B01(x.allow)),
		fmt.Sprintf("status=%s started=%s leftover=%d", x.status, c13B01(statErr == nil), left))
	c.Oracle(fmt.Sprintf("tmpdir leftover=%d", left))
	c.Note(fmt.Sprintf("prepare-fails-after:%d-files", created))
}

func c12PickClass(rng *Rng, classes []string) string {
	// empty and valid are the common cases; every other class gets a fair share
	switch r := rng.Intn(100); {
	case r < 30:
		return "empty"
	case r < 55:
		return "valid"
	}
	return classes[2+rng.Intn(len(classes)-2)]
}

func c12GenExec(rng *Rng, eid, nhooks, nq int) *c12Exec {
	x := &c12Exec{eid: eid, hook: rng.Intn(nhooks), q: 1 + rng.Intn(nq), allow: rng.Chance(20), nctx: rng.Range(1, 3), sleepMs: rng.Intn(40)}
	if rng.Chance(25) {
		x.exit = PickOne(rng, []int{1, 2, 3, 127, 255})
		if rng.Chance(15) {
			x.exit, x.killed = 137, true
		}
	}
	x.stderr = rng.Chance(30)
	x.metrics = c12PickClass(rng, c12MetricsClassesAll)
	x.adm = c12PickClass(rng, c12RespClassesAll)
	x.conv = c12PickClass(rng, c12RespClassesAll)
	x.patch = c12PickClass(rng, c12PatchClassesAll)
	return x
}

func c12Notes(c *Case, xs []*c12Exec) {
	for _, x := range xs {
		if x.stderr {
			c.Note("stderr-output")
		}
		if x.killed {
			c.Note("exit:killed-by-signal")
		} else if x.exit != 0 {
			c.Note("exit:nonzero")
		} else {
			c.Note("exit:0")
		}
		c.Note("metrics:" + x.metrics)
		c.Note("admission:" + x.adm)
		c.Note("conversion:" + x.conv)
		c.Note("patch:" + x.patch)
	}
}

func c12Random(r *Run) func(c *Case, rng *Rng) {
	return func(c *Case, rng *Rng) {
		rng = c13Reseed(rng) // see c13.go: neighbouring cases must not share their random numbers
		nh := rng.Range(1, 3)
		hookFiles := c12HookFiles[:nh]
		// 35%: one more hook whose name makes the creation of a temp file fail at one of the reachable
		// points (after 3, 2 or 0 files); it gets one execution after the concurrent part
		longLen := 0
		if rng.Chance(35) && c12NameMax255(r) {
			longLen = PickOne(rng, []int{189, 189, 190, 191, 192, 193})
			hookFiles = append(append([]string{}, hookFiles...), c12LongHook(longLen))
		}
		env, err := c12Setup(r, c, hookFiles)
		if err != nil {
			c.Op("setup", "harness-error "+err.Error())
			return
		}
		defer env.close()
		n := rng.Range(1, 6)
		nq := rng.Range(1, 3)
		var xs []*c12Exec
		for i := 1; i <= n; i++ {
			x := c12GenExec(rng, i, nh, nq)
			if err := env.writeScripts(x, rng); err != nil {
				c.Op("setup", "harness-error "+err.Error())
				return
			}
			xs = append(xs, x)
		}
		qs := map[int]bool{}
		for _, x := range xs {
			qs[x.q] = true
		}
		env.runAll(xs)
		env.report(c, xs)
		if longLen > 0 {
			if safe := env.op.HookManager.GetHook(hookFiles[nh]).SafeName(); len(safe) == longLen {
				env.runPrepFail(c, &c12Exec{eid: n + 1, hook: nh, q: 1, allow: rng.Chance(20), metrics: "empty", adm: "empty", conv: "empty", patch: "empty", nctx: rng.Range(1, 3)},
					c12CreatedFor(longLen), rng)
			}
		}
		c12Notes(c, xs)
		c.Note(fmt.Sprintf("executions:%d", n))
		c.Note(fmt.Sprintf("concurrent-queues:%d", len(qs)))
		c.Desc = fmt.Sprintf("%d executions of %d hooks in %d queues", n, nh, len(qs))
		c.Nontrivial = n >= 2 || xs[0].exit != 0 || xs[0].metrics != "empty" || xs[0].patch != "empty"
	}
}

func runC12(r *Run) {
	r.Rule = "a case = 1-3 generated bash hooks loaded by the real hook manager + 1-6 executions spread over 1-3 queue workers running " +
		"concurrently; each execution has a scripted exit code (25% non-zero, some killed by a signal; 30% write to stderr) and scripted TEXT of the metrics / admission / conversion / patch " +
		"files (empty, valid in many spellings — white space, every number form, escapes, ignored fields —, cut inside a record, wrong type, stray closing brackets at a record boundary, leading / trailing garbage, bad tokens, blank, second document, deleted; metrics also valid-but-rejected batch; patch also failing application and invalid document, JSON or YAML); the text goes to the Lean driver, which decides from it whether the file is well-formed; " +
		"a third of the cases run with an operator process whose own environment already holds (all / some of) the six path variables; at the end 8 (thorough: 17) values of --debug-keep-tmp-files, each through the real flag definition (command line or DEBUG_KEEP_TMP_FILES) before the hooks are loaded; " +
		"every execution goes through the real taskHandler -> handleRunHook -> Hook.Run with a real process, real MetricStorage and kube-client/fake; " +
		"the hook records pwd, the six path variables, initial file sizes and the context file. 35% of the cases add a hook whose name (189-193 characters) makes the creation of the 4th / 3rd / 1st temp file fail (NAME_MAX) and run it once more at the end: not started, failed, nothing left behind. Non-trivial = at least 2 executions or a non-empty output/non-zero exit."
	app.DebugKeepTmpFilesVar = "no"

	// corpus 0: every failure stage in one case, sequentially
	r.One(0, func(c *Case, rng *Rng) {
		env, err := c12Setup(r, c, c12HookFiles[:2])
		if err != nil {
			c.Op("setup", "harness-error "+err.Error())
			return
		}
		defer env.close()
		mk := func(eid, exit int, m, a, cv, p string) *c12Exec {
			return &c12Exec{eid: eid, hook: eid % 2, q: 1, exit: exit, metrics: m, adm: a, conv: cv, patch: p, nctx: 1 + eid%3}
		}
		xs := []*c12Exec{
			mk(1, 0, "valid", "valid", "valid", "valid"),
			mk(2, 3, "valid", "valid", "valid", "valid"),
			mk(3, 0, "truncated", "valid", "valid", "valid"),
			mk(4, 0, "valid", "wrongtype", "valid", "valid"),
			mk(5, 0, "valid", "valid", "truncated", "valid"),
			mk(6, 0, "valid", "valid", "valid", "invaliddoc"),
			mk(7, 0, "valid", "valid", "valid", "applyerr"),
			mk(8, 0, "badbatch", "valid", "valid", "valid"),
			mk(9, 0, "empty", "empty", "empty", "empty"),
			mk(10, 0, "valid", "valid", "valid", "deleted"),
		}
		for _, x := range xs {
			_ = env.writeScripts(x, rng)
		}
		env.runAll(xs)
		env.report(c, xs)
		c12Notes(c, xs)
		c.Note("corpus")
		c.Desc = "corpus: one execution per failure stage (exit, metrics, admission, conversion, patch parse, patch apply, metric batch) + success"
		c.Nontrivial = true
	})

	// corpus 1: the repaired defect — a temp file cannot be created half-way (hook name so long that
	// the admission-response file name exceeds NAME_MAX while the first two names still fit); the
	// unrepaired Run left the first two files behind on every retry
	r.One(1, func(c *Case, rng *Rng) {
		long := strings.Repeat("a", 187) + ".sh" // SafeName: 190 characters
		env, err := c12Setup(r, c, []string{long})
		if err != nil {
			c.Inconcl = "cannot set up a hook with a 190-character name: " + err.Error()
			return
		}
		defer env.close()
		safe := env.op.HookManager.GetHook(long).SafeName()
		created := 0
		for _, extra := range []int{63, 55, 66, 67, 50} { // name lengths beyond the safe name, creation order
			if len(safe)+extra > 255 {
				break
			}
			created++
		}
		if created == 5 || created == 0 {
			c.Inconcl = fmt.Sprintf("safe name length %d does not hit the half-way point", len(safe))
			return
		}
		x := &c12Exec{eid: 1, hook: 0, q: 1, metrics: "empty", adm: "empty", conv: "empty", patch: "empty", nctx: 1}
		_ = env.writeScripts(x, rng)
		env.runAll([]*c12Exec{x})
		_, statErr := os.Stat(filepath.Join(env.recDir, "exec-1"))
		left := env.leftover()
		c.Op(fmt.Sprintf("prepfail 1 created=%d", created),
			fmt.Sprintf("status=%s started=%s leftover=%d", x.status, c13B01(statErr == nil), left))
		// "all temporary files of an execution are deleted when it ends, whatever the outcome"
		c.Oracle(fmt.Sprintf("tmpdir leftover=%d", left))
		c.Note("corpus")
		c.Desc = "temp file creation fails half-way (190-character hook name): the process is not started, the execution fails, no file may stay"
		c.Nontrivial = true
	})

	// corpus 3: every point at which the creation of the temp files can stop, one hook per safe-name
	// length 186..194 (all five created / the 4th fails after three / the 3rd fails after two / the
	// first fails). The removal list of Run is not in creation order, so "what was created so far" is a
	// different subset of it at every point; nothing may stay at any of them.
	r.One(3, func(c *Case, rng *Rng) {
		if !c12NameMax255(r) {
			c.Inconcl = "the scratch file system does not have NAME_MAX = 255"
			return
		}
		var files []string
		for l := 186; l <= 194; l++ {
			files = append(files, c12LongHook(l))
		}
		env, err := c12Setup(r, c, files)
		if err != nil {
			c.Inconcl = "cannot set up hooks with 186..194-character names: " + err.Error()
			return
		}
		defer env.close()
		var full []*c12Exec
		for i, f := range files {
			safe := env.op.HookManager.GetHook(f).SafeName()
			x := &c12Exec{eid: i + 1, hook: i, q: 1, metrics: "empty", adm: "empty", conv: "empty", patch: "empty", nctx: 1}
			if created := c12CreatedFor(len(safe)); created < 5 {
				env.runPrepFail(c, x, created, rng)
				continue
			}
			x.metrics, x.adm, x.conv, x.patch = "valid", "valid", "valid", "valid"
			_ = env.writeScripts(x, rng)
			env.runAll([]*c12Exec{x})
			full = append(full, x)
		}
		env.report(c, full)
		c.Note("corpus")
		c.Desc = "hook names of 186..194 characters: the creation of the temp files stops after 5 (runs), 3, 2 or 0 files; the process is not started, the execution fails, no file may stay"
		c.Nontrivial = true
	})

	// corpus 4: malformed text at a record boundary — stray closing brackets, trailing garbage, a second
	// document — in each of the four files (one execution per shape, everything else well-formed)
	r.One(4, func(c *Case, rng *Rng) {
		env, err := c12Setup(r, c, c12HookFiles[:2])
		if err != nil {
			c.Op("setup", "harness-error "+err.Error())
			return
		}
		defer env.close()
		var xs []*c12Exec
		add := func(m, a, cv, p string) {
			eid := len(xs) + 1
			x := &c12Exec{eid: eid, hook: eid % 2, q: 1, nctx: 1, texted: true, pfmt: "json",
				metrics: "valid", adm: "valid", conv: "valid", patch: "valid"}
			own := fmt.Sprintf(`{"name":"%s","set":1}`, c12MetricName(eid))
			x.mtext = own + "\n"
			x.atext = `{"allowed":true}` + "\n"
			x.ctext = `{"failedMessage":"nope"}` + "\n"
			po := fmt.Sprintf(`{"operation":"Create","object":{"apiVersion":"v1","kind":"ConfigMap","metadata":{"name":"%s","namespace":"default"}}}`, c12ObjName(eid))
			x.ptext = po + "\n"
			if m != "" {
				x.metrics, x.mtext = "strayclose", strings.ReplaceAll(m, "OWN", own)
			}
			if a != "" {
				x.adm, x.atext = "strayclose", a
			}
			if cv != "" {
				x.conv, x.ctext = "strayclose", cv
			}
			if p != "" {
				x.patch, x.ptext = "strayclose", strings.ReplaceAll(p, "OWN", po)
			}
			xs = append(xs, x)
		}
		add("", "", "", "")
		add("OWN}", "", "", "")
		add("OWN\n]\n", "", "", "")
		add("}", "", "", "")
		add("}\nOWN\n", "", "", "")
		add("OWN\nOWN]", "", "", "")
		add("OWN garbage", "", "", "")
		add(" \n", "", "", "")
		add("", `{"allowed":true}}`, "", "")
		add("", `{"allowed":true}`+"\n"+`{"allowed":false}`, "", "")
		add("", "", `{"failedMessage":"nope"}}`, "")
		add("", "", `{"convertedObjects":[]}`+"\n]", "")
		add("", "", `{"failedMessage":""} garbage`, "")
		add("", "", "", "OWN}")
		add("", "", "", "OWN\n]\n")
		add("", "", "", "OWN\ngarbage\n")
		for _, x := range xs {
			_ = env.writeScripts(x, rng)
		}
		env.runAll(xs)
		env.report(c, xs)
		c12Notes(c, xs)
		c.Note("corpus")
		c.Desc = "corpus: stray closing brackets / trailing garbage / a second document at a record boundary, in each of the four output files"
		c.Nontrivial = true
	})

	n := r.N(150, 1500)
	r.Cases(100, n-n/3, 0, c12Random(r))

	// the same with an operator whose own environment already holds (some of) the six variables
	// (shell-operator started from a hook of an outer operator): what the hook process sees must
	// still be the files of its own execution. The environment is process-global: these cases run
	// after the others; which variables are present is fixed per batch.
	{
		pick := NewRng(r.Seed*104729 + 5)
		batches := []int{63, 1 + pick.Intn(62)}
		per := n / 3 / len(batches)
		for bi, which := range batches {
			undo := c12SetOuterEnv(r, which)
			if bi == 0 {
				r.One(5, func(c *Case, rng *Rng) {
					env, err := c12Setup(r, c, c12HookFiles[:2])
					if err != nil {
						c.Op("setup", "harness-error "+err.Error())
						return
					}
					defer env.close()
					xs := []*c12Exec{
						{eid: 1, hook: 0, q: 1, metrics: "valid", adm: "valid", conv: "valid", patch: "valid", nctx: 2},
						{eid: 2, hook: 1, q: 2, exit: 1, metrics: "valid", adm: "empty", conv: "empty", patch: "empty", nctx: 1},
						{eid: 3, hook: 1, q: 2, metrics: "truncated", adm: "empty", conv: "empty", patch: "valid", nctx: 3},
					}
					for _, x := range xs {
						_ = env.writeScripts(x, rng)
					}
					env.runAll(xs)
					env.report(c, xs)
					c12Notes(c, xs)
					c.Note("corpus")
					c.Note("operator-env:has-hook-vars")
					c.Desc = "corpus: the operator's own environment holds the six path variables (it runs as a hook of an outer operator)"
					c.Nontrivial = true
				})
			}
			inner := c12Random(r)
			r.Cases(50000+bi*10000, per, 0, func(c *Case, rng *Rng) {
				inner(c, rng)
				c.Note("operator-env:has-hook-vars")
			})
			undo()
		}
	}

	if r.Thorough() {
		// exhaustive small scope: one execution, every combination of exit in {0,1} and file classes
		type combo struct {
			exit        int
			m, a, cv, p string
		}
		var combos []combo
		for _, ex := range []int{0, 1} {
			for _, m := range c12MetricsClasses {
				for _, a := range c12RespClasses {
					for _, cv := range c12RespClasses {
						for _, p := range c12PatchClasses {
							combos = append(combos, combo{ex, m, a, cv, p})
						}
					}
				}
			}
		}
		r.Cases(1000000, len(combos), 0, func(c *Case, rng *Rng) {
			rng = c13Reseed(rng)
			k := combos[c.Idx-1000000]
			env, err := c12Setup(r, c, c12HookFiles[:1])
			if err != nil {
				c.Op("setup", "harness-error "+err.Error())
				return
			}
			defer env.close()
			x := &c12Exec{eid: 1, hook: 0, q: 1, exit: k.exit, metrics: k.m, adm: k.a, conv: k.cv, patch: k.p, nctx: 1}
			_ = env.writeScripts(x, rng)
			env.runAll([]*c12Exec{x})
			env.report(c, []*c12Exec{x})
			c.Nontrivial = true
		})
		// third wave: every malformed-text shape in every file, one at a time (the other files well-formed
		// or empty), exit 0 and 1, 12 random variants of each
		type one struct {
			kind, shape string
			exit        int
		}
		var ones []one
		for _, kind := range []string{"metrics", "admission", "conversion", "patch"} {
			shapes := append([]string{"truncated", "wrongtype"}, c12MalformedShapes...)
			if kind == "admission" || kind == "conversion" {
				shapes = append(shapes, "twodocs")
			}
			for _, sh := range shapes {
				for _, ex := range []int{0, 0, 0, 1} {
					for v := 0; v < 4; v++ {
						ones = append(ones, one{kind, sh, ex})
					}
				}
			}
		}
		r.Cases(2000000, len(ones), 0, func(c *Case, rng *Rng) {
			rng = c13Reseed(rng)
			k := ones[c.Idx-2000000]
			env, err := c12Setup(r, c, c12HookFiles[:1])
			if err != nil {
				c.Op("setup", "harness-error "+err.Error())
				return
			}
			defer env.close()
			good := PickOne(rng, []string{"valid", "valid", "empty"})
			x := &c12Exec{eid: 1, hook: 0, q: 1, exit: k.exit, metrics: good, adm: good, conv: good, patch: good, nctx: 1}
			switch k.kind {
			case "metrics":
				x.metrics = k.shape
			case "admission":
				x.adm = k.shape
			case "conversion":
				x.conv = k.shape
			case "patch":
				x.patch = k.shape
			}
			_ = env.writeScripts(x, rng)
			env.runAll([]*c12Exec{x})
			env.report(c, []*c12Exec{x})
			c12Notes(c, []*c12Exec{x})
			c.Nontrivial = true
		})
		r.Exhaust = true
		r.Extra["malformed_shapes_scope"] = fmt.Sprintf("%d cases: every shape of malformed text (truncated, wrong type, stray closer, garbage, bad token, blank, second document) in each of the four files alone", len(ones))
		r.Extra["exhaustive_scope"] = fmt.Sprintf("all %d combinations of exit in {0,1} x 6 metrics classes x 5 admission x 5 conversion x 7 patch classes, one execution each", len(combos))
	}

	// last, alone and one after the other (the setting is process-global): the values of
	// --debug-keep-tmp-files. Documented (flag help, RUNNING.md): "set to yes to disable cleanup",
	// default "no": exactly "yes" keeps the files, every other value removes them. The value goes
	// through the real flag definition and the hooks are loaded by the real hook manager AFTER the
	// setting is in place (loadHook hands the setting to NewHook).
	keepValues := []string{"yes", "no", "false", "0", "true", "off", "No", "Yes", "YES", "1", "n", "y", "nope", "yes ", "ye", "none", "on"}
	keepChosen := map[int]bool{0: true, 1: true, 2: true, 3: true}
	{
		// quick: the four fixed ones + four more picked by the seed
		pick := NewRng(r.Seed*7919 + 17)
		for len(keepChosen) < 8 {
			keepChosen[4+pick.Intn(len(keepValues)-4)] = true
		}
	}
	for i, v := range keepValues {
		v := v
		if !r.Thorough() && !keepChosen[i] && r.OnlyCase != 20+i {
			continue
		}
		idx := 2
		if i > 0 {
			idx = 20 + i
		}
		r.One(idx, func(c *Case, rng *Rng) {
			defer func() { app.DebugKeepTmpFilesVar = "no" }()
			viaEnv := rng.Bool()
			got, err := c12ConfigureKeep(v, viaEnv)
			if err != nil {
				c.Op("setup", "harness-error flag parse: "+err.Error())
				return
			}
			env, err := c12Setup(r, c, c12HookFiles[:2])
			if err != nil {
				c.Op("setup", "harness-error "+err.Error())
				return
			}
			defer env.close()
			c.Op("keepvar "+c12Hex(got), "ok")
			xs := []*c12Exec{
				{eid: 1, hook: 0, q: 1, metrics: "valid", adm: "empty", conv: "empty", patch: "valid", nctx: 1},
				{eid: 2, hook: 1, q: 2, exit: 1, metrics: "empty", adm: "empty", conv: "empty", patch: "empty", nctx: 2},
				{eid: 3, hook: 0, q: 1, metrics: PickOne(rng, []string{"truncated", "strayclose", "valid"}), adm: "valid", conv: "empty", patch: "empty", nctx: 1},
			}
			for _, x := range xs {
				_ = env.writeScripts(x, rng)
			}
			env.runAll(xs)
			env.setting = &got
			env.report(c, xs)
			c.Note("corpus")
			c.Note(fmt.Sprintf("keep-setting:%q", got))
			c.Desc = fmt.Sprintf("--debug-keep-tmp-files = %q (via env: %v): only \"yes\" keeps the files", got, viaEnv)
			c.Nontrivial = true
		})
	}
	_ = sort.Strings
}
