package main

// C16 — real MetricStorage (own registry) + real operation parsing + real SendBatch, observed through
// Gatherer.Gather(); histories of batches written the way hooks write them (JSON lines).

import (
	"context"
	"encoding/json"
	"fmt"
	"math"
	"sort"
	"strconv"
	"strings"
	"sync"
	"sync/atomic"
	"time"

	"github.com/deckhouse/deckhouse/pkg/log"
	"github.com/prometheus/client_golang/prometheus"

	metricstorage "github.com/flant/shell-operator/pkg/metric_storage"
	"github.com/flant/shell-operator/pkg/metric_storage/operation"
	"github.com/flant/shell-operator/pkg/metric_storage/vault"
	shell_operator "github.com/flant/shell-operator/pkg/shell-operator"
)

func init() { suites["c16"] = runC16 }

// c16Op is one operation as the hook writes it; values are counted in halves (3 = 1.5).
type c16Op struct {
	Name, Group, Action string
	Value, Add, Set     *int
	Buckets             bool
	BucketsEmpty        bool // with Buckets: the list is spelled `[]` (present, no bounds: the default bounds are used)
	Labels              map[string]string
}

func half(h int) float64 { return float64(h) / 2 }

func (o c16Op) jsonLine() string {
	m := map[string]any{}
	if o.Name != "" {
		m["name"] = o.Name
	}
	if o.Group != "" {
		m["group"] = o.Group
	}
	if o.Action != "" {
		m["action"] = o.Action
	}
	if o.Value != nil {
		m["value"] = half(*o.Value)
	}
	if o.Add != nil {
		m["add"] = half(*o.Add)
	}
	if o.Set != nil {
		m["set"] = half(*o.Set)
	}
	if o.Buckets {
		m["buckets"] = []float64{1, 2, 5}
		if o.BucketsEmpty {
			m["buckets"] = []float64{}
		}
	}
	if o.Labels != nil {
		m["labels"] = o.Labels
	}
	b, _ := json.Marshal(m)
	return string(b)
}

type c16World struct {
	in *Interner
	ms *metricstorage.MetricStorage
	c  *Case
	// bookkeeping of the generator / classifier (not used to judge answers)
	owner  map[string]string // live grouped series "name|labels" -> group
	gfam   map[string]string // metric name -> "grouped" | "ungrouped"
	ushape map[string]string // ungrouped metric name -> label names
	gate   *c16Gate
	fresh  int // counter for metric names never used before in this case
	// what the generator of THIS case draws from (not used to judge answers): the groups (plain names, or
	// names that differ only in surrounding blanks / letter case, an all-blank group) and label values
	groups []string
	vals   []string
	run    *c16Runner // the text path's scratch directory and bash hook (c16text.go)
	// operator world (c16text.go): the storage is the HookMetricStorage of an assembled ShellOperator
	op     *shell_operator.ShellOperator
	opDir  string
	cancel func()
}

// c16Gate is the prometheus.Registerer handed to the storage (ungrouped vecs) and to the grouped vault:
// while armed, a goroutine that arrives in Register() reports it and waits until the coordinator of the
// concurrent step opens the gate — this holds the first registration of a metric name open while the
// other hooks of the step are started (check-then-act windows around Register become reachable).
// Unarmed it is a plain pass-through.
type c16Gate struct {
	inner   prometheus.Registerer
	mu      sync.Mutex
	release chan struct{} // nil = not armed
	entered chan struct{}
	waits   atomic.Int64
}

func (g *c16Gate) Register(c prometheus.Collector) error {
	g.mu.Lock()
	rel, ent := g.release, g.entered
	g.mu.Unlock()
	if rel != nil {
		g.waits.Add(1)
		select {
		case ent <- struct{}{}:
		default:
		}
		select {
		case <-rel:
		case <-time.After(20 * time.Second): // never hang on the gate itself
		}
	}
	return g.inner.Register(c)
}

func (g *c16Gate) MustRegister(cs ...prometheus.Collector) {
	for _, c := range cs {
		if err := g.Register(c); err != nil {
			panic(err)
		}
	}
}

func (g *c16Gate) Unregister(c prometheus.Collector) bool { return g.inner.Unregister(c) }

func (g *c16Gate) arm() {
	g.mu.Lock()
	g.release, g.entered = make(chan struct{}), make(chan struct{}, 64)
	g.mu.Unlock()
}

func (g *c16Gate) open() {
	g.mu.Lock()
	if g.release != nil {
		close(g.release)
	}
	g.release, g.entered = nil, nil
	g.mu.Unlock()
}

func newC16World(c *Case) *c16World {
	w := &c16World{in: NewInterner(), c: c, owner: map[string]string{}, gfam: map[string]string{}, ushape: map[string]string{}, groups: c16Groups, vals: c16LabelVals}
	w.ms = metricstorage.NewMetricStorage(context.Background(), "", true, log.NewNop())
	w.gate = &c16Gate{inner: w.ms.Registry}
	w.ms.Registerer = w.gate
	if gv, ok := w.ms.Grouped().(*vault.GroupedVault); ok {
		gv.SetRegisterer(w.gate)
	}
	w.in.Id("hook") // the label name `hook` is id 1
	return w
}

// c16PrefixTemplate is the placeholder a metric name may carry; the storage replaces its first occurrence
// by its prefix. The IDENTITY of a metric (what the op lines and the scrape are compared on) is the
// resolved name: `{PREFIX}x` and `x` are one metric under the empty prefix, two under the prefix `p_`.
const c16PrefixTemplate = "{PREFIX}"

// setPrefix gives the storage of the world a metrics prefix (production: app.PrometheusMetricsPrefix).
func (w *c16World) setPrefix(p string) { w.ms.Prefix = p }

// resolve is the harness's own reading of a metric name as a hook writes it (no call into the repo).
func (w *c16World) resolve(name string) string {
	if i := strings.Index(name, c16PrefixTemplate); i >= 0 {
		return name[:i] + w.ms.Prefix + name[i+len(c16PrefixTemplate):]
	}
	return name
}

func (w *c16World) id(s string) int {
	if s == "" {
		return 0
	}
	return w.in.Id(s)
}

func optI(p *int) string {
	if p == nil {
		return "-"
	}
	return fmt.Sprint(*p)
}

func (w *c16World) opLine(o c16Op) string {
	var ls []string
	var ks []string
	for k := range o.Labels {
		ks = append(ks, k)
	}
	sort.Strings(ks)
	for _, k := range ks {
		ls = append(ls, fmt.Sprintf("%d:%d", w.id(k), w.id(o.Labels[k])))
	}
	lab := "-"
	if len(ls) > 0 {
		lab = strings.Join(ls, ";")
	}
	b := 0
	if o.Buckets {
		b = 1
	}
	return fmt.Sprintf("op name=%d group=%d action=%s value=%s add=%s set=%s buckets=%d labels=%s",
		w.id(w.resolve(o.Name)), w.id(o.Group), dash(o.Action), optI(o.Value), optI(o.Add), optI(o.Set), b, lab)
}

func halves(v float64) string {
	d := v * 2
	if d != math.Trunc(d) || math.Abs(d) > 1e15 {
		return fmt.Sprintf("notahalf(%v)", v)
	}
	return fmt.Sprintf("%d", int64(d))
}

// dump is the observation: Gather() as sorted `name{k:v,…}=value/count` with interned ids; labels
// with an empty value are dropped (prometheus: an empty label value is the same as no label).
func (w *c16World) dump() string {
	mfs, err := w.ms.Gatherer.Gather()
	if err != nil {
		return "gather-error"
	}
	var out []string
	for _, mf := range mfs {
		for _, m := range mf.Metric {
			type kv struct{ k, v int }
			var ls []kv
			for _, l := range m.Label {
				if l.GetValue() == "" {
					continue
				}
				ls = append(ls, kv{w.id(l.GetName()), w.id(l.GetValue())})
			}
			sort.Slice(ls, func(i, j int) bool { return ls[i].k < ls[j].k })
			var ss []string
			for _, l := range ls {
				ss = append(ss, fmt.Sprintf("%d:%d", l.k, l.v))
			}
			val, cnt := "?", uint64(0)
			switch {
			case m.Counter != nil:
				val = halves(m.Counter.GetValue())
			case m.Gauge != nil:
				val = halves(m.Gauge.GetValue())
			case m.Histogram != nil:
				val = halves(m.Histogram.GetSampleSum())
				cnt = m.Histogram.GetSampleCount()
			}
			out = append(out, fmt.Sprintf("%d{%s}=%s/%d", w.id(mf.GetName()), strings.Join(ss, ","), val, cnt))
		}
	}
	if len(out) == 0 {
		return "-"
	}
	sort.Strings(out)
	return strings.Join(out, ";")
}

// send writes the batch as JSON lines, parses it with the real parser and calls the real SendBatch.
func (w *c16World) send(hook string, ops []c16Op) {
	var sb strings.Builder
	for _, o := range ops {
		sb.WriteString(o.jsonLine() + "\n")
	}
	parsed, err := operation.MetricOperationsFromBytes([]byte(sb.String()))
	if err != nil {
		w.c.Op("parse", "err")
		return
	}
	for _, o := range ops {
		w.c.Op(w.opLine(o), "ok")
	}
	var order []string
	seen := map[string]bool{}
	for _, o := range ops {
		if o.Group != "" && !seen[o.Group] {
			seen[o.Group] = true
			order = append(order, fmt.Sprint(w.id(o.Group)))
		}
	}
	ans := Catch(func() string {
		e := w.ms.SendBatch(parsed, map[string]string{"hook": hook})
		code := 0
		if e != nil {
			code = 1
		}
		return fmt.Sprintf("err=%d %s", code, w.dump())
	})
	w.c.Op(fmt.Sprintf("send hooklabel=%d hook=%d order=%s", w.id("hook"), w.id(hook), joinStrs(order)), ans)
	f := strings.SplitN(ans, " ", 2)
	if len(f) == 2 {
		w.c.Oracle(fmt.Sprintf("send %s dump=%s", f[0], f[1]))
	} else {
		w.c.Oracle("send " + ans + " dump=?")
	}
}

// c16Batch is one batch of a concurrent step.
type c16Batch struct {
	hook string
	ops  []c16Op
}

// c16Window is how long the coordinator of a concurrent step waits for a freshly started SendBatch to
// either finish or arrive in Register() before it starts the next one. It is only a scheduling aid: the
// step is judged against every linearisation whatever the real interleaving was.
const c16Window = 12 * time.Millisecond

// sendPar sends the batches CONCURRENTLY (one goroutine per batch, started in startOrder). The gate holds
// every first registration of a metric open until all goroutines were started, so that the other hooks
// meet the half-finished registration. Observation: the return value of every call and the scrape after
// all calls returned. Oracle: some linearisation of the batches through the reference registry shows
// exactly this.
func (w *c16World) sendPar(bs []c16Batch, startOrder []int) {
	parsed := make([][]operation.MetricOperation, len(bs))
	for i, b := range bs {
		var sb strings.Builder
		for _, o := range b.ops {
			sb.WriteString(o.jsonLine() + "\n")
		}
		p, err := operation.MetricOperationsFromBytes([]byte(sb.String()))
		if err != nil {
			w.c.Op("parse", "err")
			return
		}
		parsed[i] = p
	}
	for _, b := range bs {
		for _, o := range b.ops {
			w.c.Op(w.opLine(o), "ok")
		}
		var order []string
		seen := map[string]bool{}
		for _, o := range b.ops {
			if o.Group != "" && !seen[o.Group] {
				seen[o.Group] = true
				order = append(order, fmt.Sprint(w.id(o.Group)))
			}
		}
		w.c.Op(fmt.Sprintf("pbatch hooklabel=%d hook=%d order=%s", w.id("hook"), w.id(b.hook), joinStrs(order)), "ok")
	}
	errs := make([]int, len(bs))
	done := make([]chan struct{}, len(bs))
	for i := range done {
		done[i] = make(chan struct{})
	}
	w.gate.arm()
	w.gate.mu.Lock()
	ent := w.gate.entered
	w.gate.mu.Unlock()
	before := w.gate.waits.Load()
	for _, i := range startOrder {
		go func(i int) {
			defer close(done[i])
			defer func() {
				if p := recover(); p != nil {
					errs[i] = 2
				}
			}()
			if e := w.ms.SendBatch(parsed[i], map[string]string{"hook": bs[i].hook}); e != nil {
				errs[i] = 1
			}
		}(i)
		select {
		case <-done[i]:
		case <-ent:
		case <-time.After(c16Window):
		}
	}
	held := w.gate.waits.Load() - before
	w.gate.open()
	hang := false
	for i := range done {
		select {
		case <-done[i]:
		case <-time.After(30 * time.Second):
			hang = true
		}
	}
	if held >= 2 {
		w.c.Note("concurrent:2+-registrations-held-at-once")
	} else if held == 1 {
		w.c.Note("concurrent:1-registration-held")
	} else {
		w.c.Note("concurrent:no-registration")
	}
	if hang {
		w.c.Op("psend", "hang")
		return
	}
	var es []string
	for _, e := range errs {
		es = append(es, fmt.Sprint(e))
	}
	ans := Catch(func() string { return fmt.Sprintf("errs=%s %s", strings.Join(es, ","), w.dump()) })
	w.c.Op("psend", ans)
	f := strings.SplitN(ans, " ", 2)
	if len(f) == 2 {
		w.c.Oracle(fmt.Sprintf("psend %s dump=%s", f[0], f[1]))
	} else {
		w.c.Oracle("psend " + ans + " dump=?")
	}
}

func ip(i int) *int { return &i }

func labelKey(name string, labels map[string]string, hook string) string {
	m := map[string]string{}
	for k, v := range labels {
		if v != "" { // an empty value is the same series as an absent label
			m[k] = v
		}
	}
	m["hook"] = hook
	var ks []string
	for k := range m {
		ks = append(ks, k)
	}
	sort.Strings(ks)
	s := name + "|"
	for _, k := range ks {
		s += k + "=" + m[k] + ","
	}
	return s
}

// c16Valid mirrors nothing of the code: it only tells the generator's bookkeeping whether it made the
// batch invalid on purpose.
type c16Gen struct {
	w   *c16World
	rng *Rng
	// metric names the grouped operations of the next batches prefer (a concurrent step lets all its
	// hooks report the same, never used before, names)
	hotG, hotC string
}

var c16Groups = []string{"ga", "gb", "gc", "gd"}
var c16Hooks = []string{"h1", "h2", "h3", "h4"}

// label names on both sides of `hook` in the collectors' sorted label-name list, ONE pool of values for
// every name (so equal values occur under different names), and explicit empty values.
var c16LabelKeys = []string{"a", "b", "x", "y"}
var c16LabelVals = []string{"1", "2", "3"}

const c16HookBit = 16

// group pools whose members are DIFFERENT groups that a "sanitising" reader would merge (surrounding
// blanks, an all-blank group, letter case, inner blanks), and label-value pools of the same kind.
var c16GroupPools = [][]string{
	{"ga", "ga ", " ga", " "},
	{"pods", " pods ", "\tpods", "  "},
	{"ga", "Ga", "GA", "gA"},
	{"a b", "a  b", "ab", "a b "},
	{"ga", "gb", " ", "\t"},
}
var c16ValPools = [][]string{
	{"1", " 1", "1 "},
	{"a", "A", "a "},
	{"1", "01", "1.0"},
}

// styleWorld draws the prefix of the storage and the pools of the case.
func (w *c16World) styleWorld(rng *Rng) {
	if rng.Chance(40) {
		w.setPrefix("p_")
		w.c.Note("world:prefix-p_")
	} else {
		w.c.Note("world:prefix-empty")
	}
	if rng.Chance(35) {
		w.groups = c16GroupPools[rng.Intn(len(c16GroupPools))]
		w.c.Note("groups:near-equal-names")
	} else {
		w.c.Note("groups:plain")
	}
	if rng.Chance(20) {
		w.vals = c16ValPools[rng.Intn(len(c16ValPools))]
		w.c.Note("label-values:near-equal")
	}
}

func (g *c16Gen) shape() int {
	s := 0
	for i := range c16LabelKeys {
		if g.rng.Chance(30) {
			s |= 1 << i
		}
	}
	if g.rng.Chance(15) {
		s |= c16HookBit
	}
	return s
}

func (g *c16Gen) labels(shape int) map[string]string {
	rng := g.rng
	m := map[string]string{}
	for i, k := range c16LabelKeys {
		if shape&(1<<i) == 0 {
			continue
		}
		m[k] = PickOne(rng, g.w.vals)
		if rng.Chance(10) {
			m[k] = ""
			g.w.c.Note("label:empty-value")
		}
	}
	if shape&c16HookBit != 0 {
		m["hook"] = "zz" // overridden by the hook label
	}
	return m
}

// batch generates one batch for a hook that stays outside the recorded finding classes
// (cross-group series, grouped/ungrouped name clash, ungrouped label-shape change, type clash).
func (g *c16Gen) batch(hook string, pool []string) ([]c16Op, bool) {
	rng, w := g.rng, g.w
	n := rng.Range(1, 6)
	var ops []c16Op
	pending := map[string]string{} // series written by this batch -> group
	groupsHere := []string{PickOne(rng, pool)}
	if rng.Chance(40) {
		groupsHere = append(groupsHere, PickOne(rng, pool))
	}
	for i := 0; i < n; i++ {
		k := rng.Intn(100)
		switch {
		case k < 55: // grouped set / add
			grp := PickOne(rng, groupsHere)
			isAdd := rng.Chance(40)
			name := PickOne(rng, []string{"gg1", "gg2", "shared_g"})
			if isAdd {
				name = PickOne(rng, []string{"gc1", "gc2_total"})
			}
			if hot := map[bool]string{true: g.hotC, false: g.hotG}[isAdd]; hot != "" && rng.Chance(60) {
				name = hot
			}
			// the spelling of the name: with the storage's `{PREFIX}` placeholder in front (25%); both
			// spellings of one name occur in one case (one metric under the empty prefix, two otherwise)
			if rng.Chance(25) {
				name = c16PrefixTemplate + name
				w.c.Note("name:with-{PREFIX}")
			}
			rname := w.resolve(name)
			var lab map[string]string
			okp := false
			for try := 0; try < 6 && !okp; try++ {
				lab = g.labels(g.shape())
				key := labelKey(rname, lab, hook)
				o1, live := w.owner[key]
				o2, pend := pending[key]
				okp = (!live || o1 == grp) && (!pend || o2 == grp)
			}
			if !okp {
				continue
			}
			pending[labelKey(rname, lab, hook)] = grp
			o := c16Op{Name: name, Group: grp, Labels: lab}
			v := rng.Range(-4, 20)
			if isAdd {
				v = rng.Range(0, 8)
			}
			if rng.Chance(35) { // shortcut form
				if isAdd {
					o.Add = ip(v)
				} else {
					o.Set = ip(v)
				}
				w.c.Note("form:shortcut")
			} else {
				o.Value = ip(v)
				o.Action = map[bool]string{true: "add", false: "set"}[isAdd]
			}
			if v%2 != 0 {
				w.c.Note("value:fractional")
			}
			ops = append(ops, o)
			w.c.Note("op:grouped-" + map[bool]string{true: "add", false: "set"}[isAdd])
		case k < 65: // explicit expire
			ops = append(ops, c16Op{Group: PickOne(rng, groupsHere), Action: "expire"})
			w.c.Note("op:expire")
		default: // ungrouped
			kind := rng.Intn(3)
			name := []string{"ug1", "uc1_total", "uh1"}[kind]
			if rng.Chance(30) {
				name = []string{"ug2", "uc2_total", "uh2"}[kind]
			}
			// both spellings of an ungrouped name, too (one metric under the empty prefix)
			if rng.Chance(25) {
				name = c16PrefixTemplate + name
				w.c.Note("name:with-{PREFIX}")
			}
			uname := name
			name = w.resolve(name) // the label-name shape belongs to the metric, not to its spelling
			shape, seen := w.ushape[name]
			var lab map[string]string
			if seen {
				sh, _ := strconv.Atoi(shape)
				lab = g.labels(sh)
			} else {
				s := g.shape()
				w.ushape[name] = fmt.Sprint(s)
				lab = g.labels(s)
			}
			o := c16Op{Name: uname, Labels: lab}
			switch kind {
			case 0:
				o.Action, o.Value = "set", ip(rng.Range(-4, 20))
			case 1:
				o.Action, o.Value = "add", ip(rng.Range(0, 8))
			case 2:
				o.Action, o.Value, o.Buckets = "observe", ip(rng.Range(0, 12)), true
				// the bucket list is present but empty (legal: the default bounds are used; a histogram
				// keeps the bounds of its first registration, and the scrape is compared on sum/count)
				if rng.Chance(40) {
					o.BucketsEmpty = true
					w.c.Note("buckets:empty-list")
				}
			}
			if kind < 2 && rng.Chance(25) {
				if kind == 0 {
					o.Set, o.Value, o.Action = o.Value, nil, ""
				} else {
					o.Add, o.Value, o.Action = o.Value, nil, ""
				}
			}
			ops = append(ops, o)
			w.c.Note("op:ungrouped-" + []string{"set", "add", "observe"}[kind])
			// the same line once more (hooks emit runs of identical lines)
			if rng.Chance(12) {
				ops = append(ops, o)
				w.c.Note("op:repeated-line")
			}
		}
	}
	if len(ops) == 0 {
		ops = append(ops, c16Op{Group: groupsHere[0], Action: "expire"})
	}
	invalid := false
	if rng.Chance(14) {
		invalid = true
		bad := []c16Op{
			{Name: "ug1", Action: "bogus", Value: ip(2)},
			{Name: "ug1", Action: "set"},
			{Action: "set", Value: ip(2)},
			{Name: "uh1", Action: "observe", Value: ip(2)},
			{Name: "gg1", Group: "ga", Action: "observe", Value: ip(2), Buckets: true},
			{Name: "ug1", Action: "expire"},
			{Name: "gg1", Group: "ga", Set: ip(1), Add: ip(1)},
			{Name: "gg1", Group: "ga"},
			{Group: "ga", Action: "set", Value: ip(1)},
			{Name: "ug1", Value: ip(1)},
		}[rng.Intn(10)]
		at := rng.Intn(len(ops) + 1)
		// 45%: the invalid operation is a TWIN of an operation of this batch — the same line with one
		// member taken away or spoiled (value, buckets, name, action; a second shortcut) — placed somewhere
		// behind it: the two differ in nothing but what makes one of them invalid.
		if rng.Chance(45) {
			src := rng.Intn(len(ops))
			if tw, how, ok := c16Twin(rng, ops[src]); ok {
				bad = tw
				at = src + 1 + rng.Intn(len(ops)-src)
				w.c.Note("invalid:twin-" + how)
			}
		}
		ops = append(ops[:at:at], append([]c16Op{bad}, ops[at:]...)...)
		w.c.Note("batch:invalid")
	} else {
		w.c.Note("batch:valid")
	}
	return ops, invalid
}

// c16Twin makes an invalid operation out of a valid one by taking away / spoiling exactly one member.
func c16Twin(rng *Rng, o c16Op) (c16Op, string, bool) {
	var hows []string
	if o.Action == "expire" {
		return o, "", false
	}
	if o.Value != nil && o.Action != "" {
		hows = append(hows, "no-value")
	}
	if o.Action == "observe" && o.Buckets {
		hows = append(hows, "no-buckets", "no-buckets")
	}
	if o.Action != "" {
		hows = append(hows, "bogus-action")
	}
	if o.Name != "" {
		hows = append(hows, "no-name")
	}
	if o.Action == "" && (o.Set != nil) != (o.Add != nil) {
		hows = append(hows, "both-shortcuts")
	}
	if len(hows) == 0 {
		return o, "", false
	}
	how := PickOne(rng, hows)
	switch how {
	case "no-value":
		o.Value = nil
	case "no-buckets":
		o.Buckets, o.BucketsEmpty = false, false
	case "bogus-action":
		o.Action = "bogus"
	case "no-name":
		o.Name = ""
	case "both-shortcuts":
		if o.Set != nil {
			o.Add = o.Set
		} else {
			o.Set = o.Add
		}
	}
	return o, how, true
}

// commit updates the generator's ownership bookkeeping after a valid batch.
func (g *c16Gen) commit(hook string, ops []c16Op) {
	w := g.w
	mentioned := map[string]bool{}
	for _, o := range ops {
		if o.Group != "" {
			mentioned[o.Group] = true
		}
	}
	for k, grp := range w.owner {
		if mentioned[grp] {
			delete(w.owner, k)
		}
	}
	// per group, ops after its last expire
	for grp := range mentioned {
		var mine []c16Op
		for _, o := range ops {
			if o.Group != grp {
				continue
			}
			if o.Action == "expire" {
				mine = nil
				continue
			}
			mine = append(mine, o)
		}
		for _, o := range mine {
			w.owner[labelKey(w.resolve(o.Name), o.Labels, hook)] = grp
		}
	}
}

func runC16(r *Run) {
	r.Rule = "histories of 1..8 steps by 4 hooks through the real operation parser + MetricStorage.SendBatch on a private registry, observed by Gatherer.Gather() after every step. A step is one batch, or (22%) a CONCURRENT step: 2..4 batches of different hooks, each with its own group(s), sent by one goroutine each in a random start order while a gated Registerer (installed as MetricStorage.Registerer and as the vault's registerer) holds every first registration of a metric open until all calls were started; 70% of the concurrent steps let all their hooks report the same never-used grouped gauge and counter names. A concurrent step is judged against EVERY linearisation of its batches through the reference registry (return value of each call + scrape after all returned). Batches of 1..6 operations mixing up to 2 of 4 groups with ungrouped operations; metric names shared between groups; label sets over the names a, b, x, y (two sorting before `hook`, two after; each present with 30%) with ONE pool of 3 values for all names (equal values under different names), 10% explicit empty values, a `hook` label that must be overridden (15%); action/value and shortcut (`add`/`set`) forms, integer and half-fractional values, explicit expire at any position, 14% of the batches carry one invalid operation at a random position: one of 10 fixed kinds or (45% of them) a TWIN of an operation of the same batch — that line with one member taken away or spoiled (value, buckets, name, action, a second shortcut) — placed behind it; 40% of the ungrouped observe operations spell their bucket list as `[]` (present, empty: default bounds), 12% of the ungrouped operations are written twice in a row. Generators stay outside the recorded finding classes (same series written by two groups, name used grouped and ungrouped, ungrouped label-name change, one name with two types), which are replayed as separate known cases. Non-trivial: >= 2 batches, at least one grouped and one valid batch; distinct = distinct op-line sequences. TEXT steps (30% of the sequential steps): the batch is spelled as the text of the metrics file a hook leaves behind (member order, blanks between all tokens, key case, six number spellings per value, \\u escapes, unknown members with nested brackets in strings, nulls for absent fields, duplicate keys; documents joined with or without blanks) and, in 35% of them, damaged in the shapes of harness/c04out.go (cut off inside the last document, stray closers before/between/after documents, trailing garbage, wrong JSON types per field, bad tokens, separators, top-level non-objects, an operation validation rejects; 4%: blank file); the text goes the way a hook's file goes: MetricOperationsFromFile + SendBatch with the hook label unless reading failed (what Hook.Run + handleRunHook do), 10% through a real bash hook and Hook.Run, and in operator worlds (4% of the cases: an assembled ShellOperator with a real hook manager and four bash hooks, its HookMetricStorage is the registry of the case) through the real queue handler taskHandler -> taskHandleHookRun -> handleRunHook. Whether a text is acceptable is decided by the Lean driver from the bytes (HookOutput.metricsOk); a rejected text must fail the execution and leave the scrape unchanged, an accepted one goes through the reference registry. NAMES: 25% of the metric names (grouped and ungrouped, hot names of concurrent steps included) are spelled with the storage's {PREFIX} placeholder, 40% of the worlds give the storage the prefix p_ (else empty): both spellings of one metric occur in one history; op lines and scrape are compared on the RESOLVED name (the harness's own reading of the placeholder). GROUPS: 35% of the cases draw their groups from a pool of near-equal names that are different groups (surrounding blanks, tab, an all-blank group, letter case, inner blanks), 20% draw label values from such a pool ('1', ' 1', '1 ' / 'a', 'A' / '1', '01', '1.0')."
	// ---- corpus: the repaired defects (must now hold) ----
	r.One(0, func(c *Case, _ *Rng) {
		c.Desc = "corpus: grouped {\"add\":1} shortcut counts once (was applied twice)"
		c.Nontrivial = true
		w := newC16World(c)
		w.send("h1", []c16Op{{Name: "gc1", Group: "ga", Add: ip(2)}})
		w.send("h1", []c16Op{{Name: "gc1", Group: "ga", Add: ip(2)}, {Name: "gc1", Group: "ga", Action: "add", Value: ip(4)}})
	})
	r.One(1, func(c *Case, _ *Rng) {
		c.Desc = "corpus: grouped counter keeps fractional values (was truncated by uint64(value))"
		c.Nontrivial = true
		w := newC16World(c)
		w.send("h1", []c16Op{{Name: "gc1", Group: "ga", Action: "add", Value: ip(3)}, {Name: "gc1", Group: "ga", Action: "add", Value: ip(3)}})
	})
	r.One(2, func(c *Case, _ *Rng) {
		c.Desc = "corpus: invalid operation in the middle of a batch: nothing applied, error"
		c.Nontrivial = true
		w := newC16World(c)
		w.send("h1", []c16Op{{Name: "ug1", Action: "set", Value: ip(4)}, {Name: "gg1", Group: "ga", Action: "set", Value: ip(6), Labels: map[string]string{"x": "1"}}})
		w.send("h2", []c16Op{{Name: "ug1", Action: "set", Value: ip(10)}, {Name: "zz", Action: "bogus", Value: ip(2)}, {Group: "ga", Action: "expire"}})
	})
	r.One(3, func(c *Case, _ *Rng) {
		c.Desc = "corpus: one name, label sets that differ only in WHICH label is empty (equal values under different label names, both before / both after `hook`), two groups, then each group expires"
		c.Nontrivial = true
		w := newC16World(c)
		w.send("h1", []c16Op{{Name: "gg1", Group: "ga", Action: "set", Value: ip(20), Labels: map[string]string{"a": "1"}}})
		w.send("h1", []c16Op{{Name: "gg1", Group: "gb", Action: "set", Value: ip(1), Labels: map[string]string{"b": "1"}}})
		w.send("h1", []c16Op{{Name: "gc1", Group: "ga", Action: "add", Value: ip(3), Labels: map[string]string{"x": "2", "y": ""}},
			{Name: "gc1", Group: "ga", Action: "add", Value: ip(4), Labels: map[string]string{"y": "2"}},
			{Name: "gg1", Group: "ga", Action: "set", Value: ip(7), Labels: map[string]string{"a": "1", "b": ""}}})
		w.send("h1", []c16Op{{Group: "gb", Action: "expire"}})
		w.send("h1", []c16Op{{Group: "ga", Action: "expire"}})
	})
	r.One(4, func(c *Case, _ *Rng) {
		c.Desc = "corpus: two hooks report the same, new, grouped metric name at the same time (each under its own group)"
		c.Nontrivial = true
		w := newC16World(c)
		w.sendPar([]c16Batch{
			{"h1", []c16Op{{Name: "gn", Group: "ga", Action: "set", Value: ip(2), Labels: map[string]string{"x": "1"}}}},
			{"h2", []c16Op{{Name: "gn", Group: "gb", Action: "set", Value: ip(5), Labels: map[string]string{"x": "2"}}}},
		}, []int{0, 1})
		w.send("h1", []c16Op{{Group: "ga", Action: "expire"}})
	})
	r.One(5, func(c *Case, _ *Rng) {
		c.Desc = "corpus: three hooks at the same time: new grouped counter + gauge with different label shapes, a new ungrouped counter, one invalid batch"
		c.Nontrivial = true
		w := newC16World(c)
		w.sendPar([]c16Batch{
			{"h1", []c16Op{{Name: "gcn_total", Group: "ga", Add: ip(3)}, {Name: "uc_total", Action: "add", Value: ip(2)}}},
			{"h2", []c16Op{{Name: "gcn_total", Group: "gb", Action: "add", Value: ip(1), Labels: map[string]string{"a": "1"}}, {Name: "gn", Group: "gb", Set: ip(9)}, {Name: "uc_total", Action: "add", Value: ip(2)}}},
			{"h3", []c16Op{{Name: "gn", Group: "gc", Action: "set", Value: ip(4), Labels: map[string]string{"y": "3"}}, {Name: "uc_total", Action: "expire"}}},
		}, []int{2, 0, 1})
		w.sendPar([]c16Batch{
			{"h2", []c16Op{{Group: "gb", Action: "expire"}}},
			{"h1", []c16Op{{Name: "gn", Group: "ga", Action: "set", Value: ip(6), Labels: map[string]string{"b": "1"}}}},
		}, []int{0, 1})
	})
	r.One(6, func(c *Case, _ *Rng) {
		c.Desc = "corpus text: a real bash hook writes its metrics file; then a file whose LAST operation is cut off (after two complete ones that would replace group ga): nothing applied, the execution fails"
		c.Nontrivial = true
		w := newC16World(c)
		a := c16Op{Name: "gg1", Group: "ga", Action: "set", Value: ip(6), Labels: map[string]string{"x": "1"}}
		b := c16Op{Name: "gg1", Group: "ga", Action: "set", Value: ip(8), Labels: map[string]string{"x": "2"}}
		u := c16Op{Name: "ug1", Set: ip(3)}
		w.sendText(r, "h1", []c16Op{a, b, u}, a.jsonLine()+"\n"+b.jsonLine()+"\n"+u.jsonLine()+"\n", "run")
		full := a.jsonLine() + "\n" + u.jsonLine() + "\n" + b.jsonLine()
		w.sendText(r, "h1", []c16Op{a, u, b}, full[:len(full)-1], "run")
		w.sendText(r, "h1", []c16Op{a, u, b}, full[:len(full)-9], "file")
		w.sendText(r, "h1", []c16Op{a, u}, a.jsonLine()+u.jsonLine()+"\n{", "file")
		w.sendText(r, "h2", []c16Op{a}, "\n "+a.jsonLine(), "file")
	})
	r.One(7, func(c *Case, _ *Rng) {
		c.Desc = "corpus text: blank file, stray closer, wrong type, text between documents, an operation validation rejects, top-level null, array of operations — all after a valid first document"
		c.Nontrivial = true
		w := newC16World(c)
		a := c16Op{Name: "gc1", Group: "gb", Add: ip(3)}
		u := c16Op{Name: "uh1", Action: "observe", Value: ip(4), Buckets: true}
		w.sendText(r, "h1", []c16Op{a, u}, "{ \"add\" : 15e-1 , \"GROUP\":\"gb\",\"name\":\"\\u0067c1\",\"labels\":null}"+u.jsonLine(), "file")
		w.sendText(r, "h1", nil, "", "file")
		w.sendText(r, "h1", nil, " \n\t", "run")
		for _, tail := range []string{"}", "\n]\n", ",", " xyz", "{\"name\":5,\"set\":1}", "{\"name\":\"ug1\",\"set\":\"1\"}", "{\"name\":\"ug1\",\"action\":\"bogus\",\"value\":1}",
			"null", "{}", "[" + u.jsonLine() + "]", "{\"name\":\"ug1\",\"set\":1,}", "{\"name\":\"ug1\",\"set\":01}", "{\"name\":\"ug1\",\"set\":1"} {
			w.sendText(r, "h1", []c16Op{{Name: "gc1", Group: "gb", Add: ip(5)}}, "{\"name\":\"gc1\",\"group\":\"gb\",\"add\":2.5}\n"+tail, "file")
		}
		w.send("h1", []c16Op{{Group: "gb", Action: "expire"}})
	})
	r.One(8, func(c *Case, _ *Rng) {
		c.Desc = "corpus text: the real queue handler (taskHandler -> handleRunHook -> Hook.Run) of an assembled ShellOperator runs bash hooks: a valid file, a file cut off in its last operation, a file with an operation validation rejects, a blank file, then a typed batch on the same registry"
		c.Nontrivial = true
		w, err := newC16OpWorld(r, c)
		if err != nil {
			c.Inconcl = "operator world: " + firstLine(err.Error())
			return
		}
		defer w.cancel()
		a := c16Op{Name: "gg1", Group: "ga", Action: "set", Value: ip(6), Labels: map[string]string{"x": "1"}}
		b := c16Op{Name: "gc1", Group: "ga", Add: ip(3), Labels: map[string]string{"x": "2"}}
		u := c16Op{Name: "ug1", Set: ip(3)}
		w.sendText(r, "h1.sh", []c16Op{a, b, u}, a.jsonLine()+"\n"+b.jsonLine()+"\n"+u.jsonLine()+"\n", "operator")
		full := b.jsonLine() + "\n" + u.jsonLine() + "\n" + a.jsonLine()
		w.sendText(r, "h1.sh", []c16Op{b, u, a}, full[:len(full)-3], "operator")
		w.sendText(r, "h2.sh", []c16Op{b, {Name: "ug1", Action: "expire"}}, b.jsonLine()+"{\"name\":\"ug1\",\"action\":\"expire\"}", "operator")
		w.sendText(r, "h1.sh", nil, "\n", "operator")
		w.send("h1.sh", []c16Op{{Name: "gg1", Group: "ga", Action: "set", Value: ip(2), Labels: map[string]string{"x": "3"}}})
		w.sendText(r, "h1.sh", []c16Op{{Group: "ga", Action: "expire"}}, "{\"group\":\"ga\",\"action\":\"expire\"}", "operator")
	})
	r.One(9, func(c *Case, _ *Rng) {
		c.Desc = "corpus text: EVERY prefix of a three-operation metrics file, shortest first, as one history on one registry: only the cuts at the end of a document are accepted (and apply exactly the complete documents), every cut inside a document fails and applies nothing"
		c.Nontrivial = true
		w := newC16World(c)
		ops := []c16Op{
			{Name: "gg1", Group: "ga", Action: "set", Value: ip(7), Labels: map[string]string{"x": "1"}},
			{Name: "uc1_total", Add: ip(2)},
			{Name: "gc1", Group: "ga", Action: "add", Value: ip(3), Labels: map[string]string{"b": "2"}},
		}
		text, ends := "", []int{}
		for _, o := range ops {
			text += o.jsonLine()
			ends = append(ends, len(text))
			text += "\n"
		}
		for n := 0; n <= len(text); n++ {
			k := 0
			for k < len(ends) && ends[k] <= n {
				k++
			}
			w.sendText(r, "h1", ops[:k], text[:n], "file")
		}
	})
	// ---- known findings, replayed on every run ----
	r.One(10, func(c *Case, _ *Rng) {
		c.Desc = "finding: A sets m{l}; B sets m{l}; A expires -> B's series disappears (ownership by label hash)"
		c.Known = "group-ownership-by-label-hash"
		c.Nontrivial = true
		w := newC16World(c)
		l := map[string]string{"x": "1"}
		w.send("h1", []c16Op{{Name: "gg1", Group: "ga", Action: "set", Value: ip(10), Labels: l}})
		w.send("h1", []c16Op{{Name: "gg1", Group: "gb", Action: "set", Value: ip(14), Labels: l}})
		w.send("h1", []c16Op{{Group: "ga", Action: "expire"}})
		w.send("h1", []c16Op{{Group: "gb", Action: "expire"}})
	})
	r.One(11, func(c *Case, _ *Rng) {
		c.Desc = "finding: a name used grouped, then ungrouped: the ungrouped operations are dropped silently"
		c.Known = "grouped-ungrouped-name-clash"
		c.Nontrivial = true
		w := newC16World(c)
		w.send("h1", []c16Op{{Name: "m", Group: "ga", Action: "set", Value: ip(10)}})
		w.send("h1", []c16Op{{Name: "m", Action: "set", Value: ip(4)}})
	})
	r.One(12, func(c *Case, _ *Rng) {
		c.Desc = "finding: ungrouped operations whose label names differ from the metric's first use are dropped silently"
		c.Known = "ungrouped-label-names-change"
		c.Nontrivial = true
		w := newC16World(c)
		w.send("h1", []c16Op{{Name: "u", Action: "set", Value: ip(2), Labels: map[string]string{"x": "1"}}})
		w.send("h1", []c16Op{{Name: "u", Action: "set", Value: ip(4), Labels: map[string]string{"x": "1", "y": "a"}}})
	})
	r.One(13, func(c *Case, _ *Rng) {
		c.Desc = "finding: one metric name used with two types (set then add): the second type is dropped silently"
		c.Known = "metric-type-clash"
		c.Nontrivial = true
		w := newC16World(c)
		w.send("h1", []c16Op{{Name: "t", Group: "ga", Action: "set", Value: ip(2)}})
		w.send("h1", []c16Op{{Name: "t", Group: "gb", Action: "add", Value: ip(4)}})
		w.send("h1", []c16Op{{Name: "tu", Action: "set", Value: ip(2)}})
		w.send("h1", []c16Op{{Name: "tu", Action: "add", Value: ip(4)}})
	})

	r.One(14, func(c *Case, _ *Rng) {
		c.Desc = "finding: counter series shared by two groups: gb's add accumulates onto ga's value, ga's next batch wipes both"
		c.Known = "group-ownership-by-label-hash"
		c.Nontrivial = true
		w := newC16World(c)
		l := map[string]string{"x": "1", "y": "a"}
		w.send("h2", []c16Op{{Name: "gc1", Group: "ga", Action: "add", Value: ip(4), Labels: l}})
		w.send("h2", []c16Op{{Name: "gc1", Group: "gb", Add: ip(6), Labels: l}})
		w.send("h2", []c16Op{{Name: "gg2", Group: "ga", Action: "set", Value: ip(2)}})
	})
	r.One(15, func(c *Case, _ *Rng) {
		c.Desc = "finding: a name used ungrouped, then grouped: the grouped operations are dropped silently (and still expire the group)"
		c.Known = "grouped-ungrouped-name-clash"
		c.Nontrivial = true
		w := newC16World(c)
		w.send("h1", []c16Op{{Name: "m2", Action: "add", Value: ip(3)}})
		w.send("h1", []c16Op{{Name: "m2", Group: "gc", Action: "add", Value: ip(4)}, {Name: "gg1", Group: "gc", Set: ip(5)}})
	})
	r.One(16, func(c *Case, _ *Rng) {
		c.Desc = "finding: ungrouped operation with FEWER label names than the metric's first use is dropped silently"
		c.Known = "ungrouped-label-names-change"
		c.Nontrivial = true
		w := newC16World(c)
		w.send("h3", []c16Op{{Name: "uh", Action: "observe", Value: ip(2), Buckets: true, Labels: map[string]string{"x": "1", "y": "b"}}})
		w.send("h3", []c16Op{{Name: "uh", Action: "observe", Value: ip(4), Buckets: true, Labels: map[string]string{"x": "1"}}})
	})

	// ---- corpus of the sixth wave ----
	for i, prefix := range []string{"", "p_"} {
		prefix := prefix
		r.One(17+i, func(c *Case, _ *Rng) {
			c.Desc = fmt.Sprintf("corpus: grouped metrics named with the {PREFIX} placeholder (storage prefix %q): two series of one name in one batch, add + add, the next batch of the group replaces them; the same name spelled without the placeholder", prefix)
			c.Nontrivial = true
			w := newC16World(c)
			w.setPrefix(prefix)
			x := func(v string) map[string]string { return map[string]string{"x": v} }
			w.send("h1", []c16Op{{Name: "{PREFIX}gg1", Group: "ga", Action: "set", Value: ip(10), Labels: x("1")},
				{Name: "{PREFIX}gg1", Group: "ga", Action: "set", Value: ip(14), Labels: x("2")},
				{Name: "{PREFIX}gc1", Group: "ga", Add: ip(6)}, {Name: "{PREFIX}gc1", Group: "ga", Action: "add", Value: ip(8)}})
			w.send("h1", []c16Op{{Name: "{PREFIX}gg1", Group: "ga", Action: "set", Value: ip(2), Labels: x("3")},
				{Name: "gg1", Group: "ga", Action: "set", Value: ip(4), Labels: x("4")}})
			w.send("h2", []c16Op{{Name: "{PREFIX}gg1", Group: "gb", Set: ip(6), Labels: x("1")}, {Name: "{PREFIX}ug2", Set: ip(3)}, {Name: "{PREFIX}ug2", Set: ip(5)}})
			w.send("h1", []c16Op{{Group: "ga", Action: "expire"}})
		})
	}
	r.One(20, func(c *Case, _ *Rng) {
		c.Desc = "corpus: one UNGROUPED metric in two spellings ({PREFIX}ug9 and ug9 under the empty prefix): gauge, counter, histogram; every operation updates the one series (was: the second spelling registered the name again, the panic was recovered and the operation dropped silently)"
		c.Nontrivial = true
		w := newC16World(c)
		w.send("h1", []c16Op{{Name: "{PREFIX}ug9", Action: "set", Value: ip(2)}})
		w.send("h1", []c16Op{{Name: "ug9", Action: "set", Value: ip(6)}})
		w.send("h2", []c16Op{{Name: "uc9_total", Add: ip(3)}, {Name: "{PREFIX}uc9_total", Add: ip(4)}, {Name: "{PREFIX}uh9", Action: "observe", Value: ip(2), Buckets: true}, {Name: "uh9", Action: "observe", Value: ip(4), Buckets: true}})
		w.send("h1", []c16Op{{Name: "{PREFIX}ug9", Action: "set", Value: ip(8)}})
	})
	r.One(19, func(c *Case, _ *Rng) {
		c.Desc = "corpus text: groups that differ only in surrounding blanks / letter case are different groups, an all-blank group is a group (replaced, expirable), label values with surrounding blanks are different series"
		c.Nontrivial = true
		w := newC16World(c)
		x := func(v string) map[string]string { return map[string]string{"x": v} }
		txt := func(ops []c16Op) string {
			t := ""
			for _, o := range ops {
				t += o.jsonLine() + "\n"
			}
			return t
		}
		for _, st := range []struct {
			hook string
			ops  []c16Op
		}{
			{"h1", []c16Op{{Name: "gg1", Group: "pods", Action: "set", Value: ip(2), Labels: x("1")}}},
			{"h2", []c16Op{{Name: "gg1", Group: "pods ", Action: "set", Value: ip(4), Labels: x("2")}}},
			{"h2", []c16Op{{Name: "gg1", Group: "Pods", Action: "set", Value: ip(6), Labels: x("3")}, {Name: "gg1", Group: "Pods", Action: "set", Value: ip(6), Labels: x(" 3")}}},
			{"h1", []c16Op{{Group: "pods", Action: "expire"}}},
			{"h1", []c16Op{{Name: "gg2", Group: " ", Action: "set", Value: ip(8), Labels: x("1")}}},
			{"h1", []c16Op{{Name: "gg2", Group: " ", Action: "set", Value: ip(10), Labels: x("2")}}},
			{"h1", []c16Op{{Group: " ", Action: "expire"}}},
			{"h2", []c16Op{{Group: "\tpods ", Action: "expire"}, {Group: "Pods", Action: "expire"}}},
		} {
			w.sendText(r, st.hook, st.ops, txt(st.ops), "file")
		}
	})

	r.Cases(100, r.N(4000, 60000), 0, func(c *Case, rng *Rng) {
		var w *c16World
		hooksList := c16Hooks
		if rng.Chance(4) {
			// operator world: hook executions go through the real queue handler of an assembled ShellOperator
			ow, err := newC16OpWorld(r, c)
			if err != nil {
				c.Inconcl = "operator world: " + firstLine(err.Error())
				return
			}
			w, hooksList = ow, c16OpHooks
			defer w.cancel()
			c.Note("world:operator")
		} else {
			w = newC16World(c)
		}
		w.styleWorld(rng)
		g := &c16Gen{w: w, rng: rng}
		nb := rng.Range(1, 8)
		valid, grouped, conc, texts := 0, 0, 0, 0
		for b := 0; b < nb; b++ {
			if rng.Chance(22) {
				// concurrent step: 2..4 hooks, each with its own group(s), send at the same time
				k := rng.Range(2, 4)
				hooks := append([]string{}, hooksList...)
				groups := append([]string{}, w.groups...)
				rng.Shuffle(len(hooks), func(i, j int) { hooks[i], hooks[j] = hooks[j], hooks[i] })
				rng.Shuffle(len(groups), func(i, j int) { groups[i], groups[j] = groups[j], groups[i] })
				if rng.Chance(70) {
					w.fresh++
					g.hotG, g.hotC = fmt.Sprintf("gn%d", w.fresh), fmt.Sprintf("gcn%d_total", w.fresh)
					c.Note("concurrent:same-new-names")
				}
				var bs []c16Batch
				var inv []bool
				for i := 0; i < k; i++ {
					pool := []string{groups[i]}
					if k == 2 {
						pool = append(pool, groups[i+2])
					}
					ops, invalid := g.batch(hooks[i], pool)
					bs = append(bs, c16Batch{hooks[i], ops})
					inv = append(inv, invalid)
				}
				g.hotG, g.hotC = "", ""
				start := make([]int, k)
				for i := range start {
					start[i] = i
				}
				rng.Shuffle(k, func(i, j int) { start[i], start[j] = start[j], start[i] })
				w.sendPar(bs, start)
				for i, bt := range bs {
					if !inv[i] {
						valid++
						g.commit(bt.hook, bt.ops)
					}
					for _, o := range bt.ops {
						if o.Group != "" {
							grouped++
							break
						}
					}
				}
				conc++
				c.Note(fmt.Sprintf("step:concurrent-%d", k))
				continue
			}
			hook := PickOne(rng, hooksList)
			ops, invalid := g.batch(hook, w.groups)
			if rng.Chance(30) {
				// text step: the batch as the text of the hook's metrics file
				if rng.Chance(4) {
					ops, invalid = nil, false // the hook wrote nothing / blanks only
				}
				damage := len(ops) > 0 && rng.Chance(35)
				text, shape := c16Text(rng, ops, damage, c)
				via := "file"
				if rng.Chance(10) {
					via = "run"
				}
				if w.op != nil && rng.Chance(75) {
					via = "operator"
				}
				c.Note("text:" + shape)
				c.Note("text-via:" + via)
				w.sendText(r, hook, ops, text, via)
				if c.Inconcl != "" {
					return
				}
				texts++
				if !invalid && !damage {
					valid++
					g.commit(hook, ops)
				}
				for _, o := range ops {
					if o.Group != "" {
						grouped++
						break
					}
				}
				continue
			}
			w.send(hook, ops)
			if !invalid {
				valid++
				g.commit(hook, ops)
			}
			for _, o := range ops {
				if o.Group != "" {
					grouped++
					break
				}
			}
		}
		c.Note(fmt.Sprintf("batches:%d", nb))
		if texts > 0 {
			c.Note("case:with-text-steps")
		}
		c.Nontrivial = (nb >= 2 || conc >= 1) && valid >= 1 && grouped >= 1
	})
	if r.Thorough() {
		// exhaustive small scope: every history of 1..2 batches (second batch from the same or another
		// hook) of 1..2 operations over a 10-operation alphabet that stays outside the finding classes
		alphabet := []c16Op{
			{Name: "gg1", Group: "ga", Action: "set", Value: ip(5), Labels: map[string]string{"x": "1"}},
			{Name: "gg1", Group: "ga", Set: ip(2), Labels: map[string]string{"x": "1"}},
			{Name: "gc1", Group: "ga", Action: "add", Value: ip(3)},
			{Group: "ga", Action: "expire"},
			{Name: "gg1", Group: "gb", Action: "set", Value: ip(6), Labels: map[string]string{"x": "2"}},
			{Name: "gc1", Group: "gb", Add: ip(2), Labels: map[string]string{"y": "a"}},
			{Group: "gb", Action: "expire"},
			{Name: "ug1", Action: "set", Value: ip(4)},
			{Name: "uc1_total", Action: "add", Value: ip(1), Labels: map[string]string{"x": "1"}},
			{Name: "ug1", Action: "bogus", Value: ip(2)},
			{Name: "gg1", Group: "ga", Action: "set", Value: ip(9), Labels: map[string]string{"a": "1"}},
			{Name: "gg1", Group: "gb", Action: "set", Value: ip(1), Labels: map[string]string{"b": "1", "x": ""}},
		}
		A := len(alphabet)
		nb := A + A*A // batches of length 1..2
		batch := func(k int) []c16Op {
			if k < A {
				return []c16Op{alphabet[k]}
			}
			k -= A
			return []c16Op{alphabet[k/A], alphabet[k%A]}
		}
		total := nb + 2*nb*nb
		r.Cases(2000000, total, 0, func(c *Case, _ *Rng) {
			k := c.Idx - 2000000
			w := newC16World(c)
			if k < nb {
				w.send("h1", batch(k))
				c.Nontrivial = k >= A
				return
			}
			k -= nb
			second := "h1"
			if k%2 == 1 {
				second = "h2"
			}
			k /= 2
			w.send("h1", batch(k/nb))
			w.send(second, batch(k%nb))
			c.Nontrivial = true
		})
		// exhaustive concurrent scope: every pair (batch of hook h1 over the ga/ungrouped/invalid part of the
		// alphabet, batch of hook h2 over the gb/ungrouped/invalid part), batches of 1..2 operations, sent at
		// the same time on an empty store, both start orders
		var alA, alB []c16Op
		for _, o := range alphabet {
			if o.Group != "gb" {
				alA = append(alA, o)
			}
			if o.Group != "ga" {
				alB = append(alB, o)
			}
		}
		batchesOf := func(al []c16Op) [][]c16Op {
			var out [][]c16Op
			for _, o := range al {
				out = append(out, []c16Op{o})
			}
			for _, o := range al {
				for _, q := range al {
					out = append(out, []c16Op{o, q})
				}
			}
			return out
		}
		bA, bB := batchesOf(alA), batchesOf(alB)
		ptotal := len(bA) * len(bB) * 2
		r.Cases(3000000, ptotal, 0, func(c *Case, _ *Rng) {
			k := c.Idx - 3000000
			start := []int{0, 1}
			if k%2 == 1 {
				start = []int{1, 0}
			}
			k /= 2
			w := newC16World(c)
			w.sendPar([]c16Batch{{"h1", bA[k/len(bB)]}, {"h2", bB[k%len(bB)]}}, start)
			c.Nontrivial = true
		})
		r.Exhaust = true
		r.Extra["exhaustive_scope"] = fmt.Sprintf("all %d histories of 1..2 batches (2nd batch by the same or another hook) of 1..2 operations over a %d-operation alphabet (2 groups sharing 2 names, label sets that differ in which label is empty, set/add/shortcut/expire, 2 ungrouped, 1 invalid); all %d concurrent pairs (h1 over the ga part, h2 over the gb part of the alphabet, 1..2 operations each, both start orders) on an empty store", total, A, ptotal)
	}
}
