package main

// C08 — hooks are triggered only by meaningful changes (event type and jqFilter).
//
// Implementation side: the binding is written as a hook configuration and loaded by the real
// HookConfig.LoadAndValidate (executeHookOnEvent / watchEvent absent, [], subsets; jqFilter;
// keepFullObjectsInMemory); the MonitorConfig the loader built goes into
// a real resourceInformer (verif_export_c08.go) on kube-client/fake. The
// initial objects are created through the fake client's dynamic tracker and loaded by the real
// createSharedInformer/loadExistedObjects (the binding's kind spelled the way the hook wrote it:
// Kind, other letter case, plural resource name, short name); then the start sequence: objects are
// changed / created between the monitor's list and the informer start and the informer's list is
// handed to the real OnAdd with isInInitialList = true; every later change is handed to the real
// OnAdd/OnUpdate/OnDelete → handleWatchEvent; the events the informer emits are collected from its
// callback; the cache is read through the real getCachedObjects. In "cluster" cases the informer is
// started on the fake client and the changes are made in the cluster instead.
// Observation: per change the emitted event (type, object id, checksum class, stored filter result)
// and the cache (id, checksum class, filter result, full object kept?).

import (
	"context"
	"encoding/json"
	"fmt"
	"sort"
	"strings"
	"sync"
	"time"

	"github.com/deckhouse/deckhouse/pkg/log"
	metav1 "k8s.io/apimachinery/pkg/apis/meta/v1"
	"k8s.io/apimachinery/pkg/apis/meta/v1/unstructured"
	"k8s.io/apimachinery/pkg/runtime/schema"

	sigsyaml "sigs.k8s.io/yaml"

	"github.com/flant/kube-client/fake"
	"github.com/flant/shell-operator/pkg/hook/config"
	kem "github.com/flant/shell-operator/pkg/kube_events_manager"
	kemtypes "github.com/flant/shell-operator/pkg/kube_events_manager/types"
	metricstorage "github.com/flant/shell-operator/pkg/metric_storage"
	"github.com/itchyny/gojq"
)

func init() { suites["c08"] = runC08 }

var c08Metrics = sync.OnceValue(func() *metricstorage.MetricStorage {
	kem.DefaultSyncTime = 5 * time.Millisecond // poll interval of FactoryStore.Start (public knob)
	return metricstorage.NewMetricStorage(context.Background(), "verif_", true, log.NewNop())
})

var g4CmGVR = schema.GroupVersionResource{Group: "", Version: "v1", Resource: "configmaps"}

type c08Env struct {
	c        *Case
	fc       *fake.Cluster
	ns       string
	inf      *kem.VerifInformerC08
	jq       string
	nDeletes int
	mu       sync.Mutex
	events   []kemtypes.KubeEvent
	ids      *Interner
	cks      g4CkInterner
	states   map[string]map[string]any // name -> last delivered state
	hide     string                    // name of the marker object (cluster mode), never shown
	loadErr  bool                      // createSharedInformer failed (the filter fails on a listed object)
	cancel   context.CancelFunc
	k        int       // index of this binding in the hook
	peers    []*c08Env // every binding of the hook (this one included), in the order of the configuration
	store    *c08Store // the objects of the shared informer all bindings of the hook are fed from
}

// c08Store plays the store of the client-go shared informer the bindings of one hook share (same
// kind, namespace and selectors = one FactoryIndex): it holds ONE *unstructured.Unstructured per live
// object. A new state is a new pointer; a re-delivery of an unchanged state (informer start after the
// first delivery, resync, relist) hands out the very pointer that is stored, and every handler gets
// this same pointer — what client-go does.
type c08Store struct {
	objs map[string]*unstructured.Unstructured
	text map[string]string
}

func (s *c08Store) ptr(name string, obj map[string]any) (*unstructured.Unstructured, bool) {
	canon := g4CanonJSON(obj)
	if p, ok := s.objs[name]; ok && s.text[name] == canon {
		return p, true
	}
	p := &unstructured.Unstructured{Object: g4DeepCopyJSON(obj)}
	s.objs[name], s.text[name] = p, canon
	return p, false
}

func (s *c08Store) drop(name string) {
	delete(s.objs, name)
	delete(s.text, name)
}

// bind makes this binding the current one on both sides of the protocol (hooks with several bindings).
func (e *c08Env) bind() {
	if len(e.peers) > 1 {
		e.c.Op(fmt.Sprintf("bind %d", e.k), "ok")
	}
}

func (e *c08Env) takeEvents() []kemtypes.KubeEvent {
	e.mu.Lock()
	defer e.mu.Unlock()
	var ev []kemtypes.KubeEvent
	for _, x := range e.events {
		if e.hide != "" && len(x.Objects) == 1 && g4NameOf(x.Objects[0].Metadata.ResourceId) == e.hide {
			continue
		}
		ev = append(ev, x)
	}
	e.events = nil
	return ev
}

func (e *c08Env) cached() []kemtypes.ObjectAndFilterResult {
	var res []kemtypes.ObjectAndFilterResult
	for _, o := range e.inf.CachedObjects() {
		if e.hide != "" && g4NameOf(o.Metadata.ResourceId) == e.hide {
			continue
		}
		res = append(res, o)
	}
	sort.Slice(res, func(i, j int) bool {
		return e.ids.Id(g4NameOf(res[i].Metadata.ResourceId)) < e.ids.Id(g4NameOf(res[j].Metadata.ResourceId))
	})
	return res
}

func g4FrText(o *kemtypes.ObjectAndFilterResult) string {
	if o.Metadata.JqFilter == "" {
		return "-"
	}
	if s, ok := o.FilterResult.(string); ok {
		// the stored filter result is the jq output as JSON text
		var v any
		if err := json.Unmarshal([]byte(s), &v); err != nil {
			return "not-json-text"
		}
		return g4CanonJSON(v)
	}
	return g4CanonJSON(o.FilterResult)
}

func (e *c08Env) entry(o *kemtypes.ObjectAndFilterResult) string {
	name := o.Metadata.ResourceId[strings.LastIndex(o.Metadata.ResourceId, "/")+1:]
	full := 0
	if o.Object != nil {
		full = 1
	}
	return fmt.Sprintf("%d@%s:fr=%s:obj=%d", e.ids.Id(name), e.cks.id(o.Metadata.Checksum), g4FrText(o), full)
}

func (e *c08Env) cacheText() string {
	objs := e.cached()
	var ps []string
	for i := range objs {
		ps = append(ps, e.entry(&objs[i]))
	}
	return joinStrs(ps)
}

// cacheLine: the cache and the snapshot after a batch of quiet records.
func (e *c08Env) cacheLine() {
	e.c.Op("cache", "cache="+e.cacheText())
	e.c.Oracle(strings.TrimSpace("snap " + e.snapTokens()))
}

func g4NameOf(resourceId string) string { return resourceId[strings.LastIndex(resourceId, "/")+1:] }

// snapTokens renders the snapshot for the `oracle snap` line: id~filterResult~object.
func (e *c08Env) snapTokens() string {
	objs := e.cached()
	var ps []string
	for i := range objs {
		o := "-"
		if objs[i].Object != nil {
			o = g4CanonJSON(objs[i].Object.Object)
		}
		ps = append(ps, fmt.Sprintf("%d~%s~%s", e.ids.Id(g4NameOf(objs[i].Metadata.ResourceId)), g4FrText(&objs[i]), o))
	}
	return strings.Join(ps, " ")
}

func g4TypesArg(ts []kemtypes.WatchEventType) string {
	var ss []string
	for _, t := range ts {
		ss = append(ss, string(t))
	}
	return joinStrs(ss)
}

// c08Binding: the two event-type keys of a kubernetes binding as the hook writes them
// (nil = key absent, empty = `[]`).
type c08Binding struct {
	exec, watch *[]kemtypes.WatchEventType
	v0          *[]string // legacy hook (no configVersion): the `event` list as written (add, update, delete)
	asYAML      bool      // render the hook configuration as block YAML instead of JSON
	kind        string    // the `kind` of the binding as the hook spells it ("" = ConfigMap)
	keepKey     bool      // keep=true: write `keepFullObjectsInMemory: true` instead of leaving the default
}

func c08Exec(ts []kemtypes.WatchEventType) c08Binding { return c08Binding{exec: &ts} }

func c08KeyArg(l *[]kemtypes.WatchEventType) string {
	if l == nil {
		return "~"
	}
	return g4TypesArg(*l)
}

// c08GenKey: absent / [] / a subset in any order, now and then with a repeated item.
func c08GenKey(rng *Rng, absentPct int) *[]kemtypes.WatchEventType {
	if rng.Chance(absentPct) {
		return nil
	}
	ts := g4SubsetTypes(rng.Intn(8))
	for i := len(ts) - 1; i > 0; i-- {
		j := rng.Intn(i + 1)
		ts[i], ts[j] = ts[j], ts[i]
	}
	if len(ts) > 0 && rng.Chance(10) {
		ts = append(ts, ts[rng.Intn(len(ts))])
	}
	return &ts
}

// c08GenV0Events: the `event` key of a legacy binding: [] or a subset of add/update/delete in any
// order, now and then with a repeated item. (The key is always written: see notes/C08.md, fourth wave,
// about a legacy binding without it.)
func c08GenV0Events(rng *Rng) *[]string {
	l := []string{}
	mask := rng.Intn(8)
	for i, n := range []string{"add", "update", "delete"} {
		if mask&(1<<i) != 0 {
			l = append(l, n)
		}
	}
	rng.Shuffle(len(l), func(i, j int) { l[i], l[j] = l[j], l[i] })
	if len(l) > 0 && rng.Chance(10) {
		l = append(l, l[rng.Intn(len(l))])
	}
	return &l
}

// c08KindSpellings: every way the API resolves the kind of a binding to ConfigMaps (kube-client
// compares the lower-cased `kind` with the Kind, the resource name and the short names the discovery
// reports): the Kind itself, other letter cases, the plural resource name, the short name.
var c08KindSpellings = []string{"configmap", "configmaps", "cm", "CONFIGMAP", "ConfigMaps", "CM", "Configmap", "configMap"}

func c08GenKind(rng *Rng) string {
	if rng.Chance(45) {
		return "ConfigMap"
	}
	return PickOne(rng, c08KindSpellings)
}

func c08KindClass(k string) string {
	switch l := strings.ToLower(k); {
	case k == "" || k == "ConfigMap":
		return "Kind"
	case l == "cm":
		return "short-name"
	case l == "configmaps":
		return "plural-resource-name"
	}
	return "other-letter-case"
}

// c08FakeCluster: a fake cluster whose discovery reports the short name of ConfigMaps the way a real
// api-server does (the resource tables of kube-client/fake have none). The tables are package
// variables of kube-client/fake: this cluster gets a deep copy.
func c08FakeCluster() *fake.Cluster {
	fc := fake.NewFakeCluster(fake.ClusterVersionV121)
	var lists []*metav1.APIResourceList
	for _, l := range fc.Discovery.Resources {
		l = l.DeepCopy()
		if l.GroupVersion == "v1" {
			for i := range l.APIResources {
				if l.APIResources[i].Name == "configmaps" {
					l.APIResources[i].ShortNames = []string{"cm"}
				}
			}
		}
		lists = append(lists, l)
	}
	fc.Discovery.Resources = lists
	return fc
}

// c08GenBinding: executeHookOnEvent absent/[]/subset x watchEvent absent/[]/subset.
func c08GenBinding(rng *Rng) c08Binding {
	b := c08Binding{asYAML: rng.Bool(), keepKey: rng.Bool(), kind: c08GenKind(rng)}
	switch k := rng.Intn(100); {
	case k < 45: // the usual binding: executeHookOnEvent only
		b.exec = c08GenKey(rng, 0)
	case k < 55: // neither key: the default
	case k < 70: // a hook that still uses the deprecated key
		b.watch = c08GenKey(rng, 0)
	default: // both keys (a migrated hook that kept the old key)
		b.exec = c08GenKey(rng, 0)
		b.watch = c08GenKey(rng, 0)
	}
	return b
}

// c08Spec: one kubernetes binding of the hook of a case.
type c08Spec struct {
	b    c08Binding
	f    *jqF
	keep bool
	txt  string // the jq program as the hook writes it (layout: blanks, line breaks, comments); "" = f.text()
}

// jqText: the text of the binding's jqFilter key ("" = no filter).
func (sp c08Spec) jqText() string {
	switch {
	case sp.f == nil:
		return ""
	case sp.txt != "":
		return sp.txt
	}
	return sp.f.text()
}

// c08Token makes a text one protocol token (for the replay; the model reads the `ast=` argument).
func c08Token(s string) string {
	return strings.NewReplacer(" ", "\\u0020", "\n", "\\n", "\t", "\\t").Replace(s)
}

// c08LoadHook writes ONE hook configuration with all the bindings of the case (each on ConfigMaps of
// the case's namespace: the bindings share one informer factory index) — configVersion v1
// (`kubernetes:`) or the legacy format without configVersion (`onKubernetesEvent:`, `event: [add,
// update, delete]`) — and loads it with the real HookConfig.LoadAndValidate; the MonitorConfigs the
// loader built, as they are AFTER the whole configuration was converted, are what the informers get.
func c08LoadHook(v0 bool, specs []c08Spec, asYAML bool, ns string) ([]*kem.MonitorConfig, string) {
	lst := func(l []kemtypes.WatchEventType) []any {
		out := []any{}
		for _, t := range l {
			out = append(out, string(t))
		}
		return out
	}
	var binds []any
	for i, sp := range specs {
		jqText := sp.jqText()
		name := "b"
		if len(specs) > 1 {
			name = fmt.Sprintf("b%d", i)
		}
		kind := sp.b.kind
		if kind == "" {
			kind = "ConfigMap"
		}
		var bind map[string]any
		if v0 {
			bind = map[string]any{"name": name, "kind": kind,
				"namespaceSelector": map[string]any{"matchNames": []any{ns}}}
			if sp.b.v0 != nil {
				evs := []any{}
				for _, n := range *sp.b.v0 {
					evs = append(evs, n)
				}
				bind["event"] = evs
			}
		} else {
			bind = map[string]any{"name": name, "apiVersion": "v1", "kind": kind,
				"namespace": map[string]any{"nameSelector": map[string]any{"matchNames": []any{ns}}}}
			if sp.b.exec != nil {
				bind["executeHookOnEvent"] = lst(*sp.b.exec)
			}
			if sp.b.watch != nil {
				bind["watchEvent"] = lst(*sp.b.watch)
			}
			if !sp.keep {
				bind["keepFullObjectsInMemory"] = false
			} else if sp.b.keepKey {
				bind["keepFullObjectsInMemory"] = true
			}
		}
		if jqText != "" {
			bind["jqFilter"] = jqText
		}
		binds = append(binds, bind)
	}
	top := map[string]any{"configVersion": "v1", "kubernetes": binds}
	if v0 {
		top = map[string]any{"onKubernetesEvent": binds}
	}
	doc, err := json.Marshal(top)
	if err != nil {
		return nil, "marshal: " + err.Error()
	}
	if asYAML {
		if doc, err = sigsyaml.JSONToYAML(doc); err != nil {
			return nil, "yaml: " + err.Error()
		}
	}
	hc := &config.HookConfig{}
	if err := hc.LoadAndValidate(doc); err != nil {
		return nil, "load: " + firstLine(err.Error())
	}
	if len(hc.OnKubernetesEvents) != len(specs) {
		return nil, fmt.Sprintf("load: %d kubernetes bindings", len(hc.OnKubernetesEvents))
	}
	var out []*kem.MonitorConfig
	for i := range hc.OnKubernetesEvents {
		if hc.OnKubernetesEvents[i].Monitor == nil {
			return nil, fmt.Sprintf("load: binding %d has no monitor", i)
		}
		out = append(out, hc.OnKubernetesEvents[i].Monitor)
	}
	return out, ""
}

// c08Setup: a hook with one v1 binding.
func c08Setup(c *Case, b c08Binding, f *jqF, keep bool, initial []map[string]any) *c08Env {
	return c08SetupHook(c, false, []c08Spec{{b, f, keep, ""}}, b.asYAML, initial)
}

// c08SetupHook writes the cfg line of every binding, loads the hook through the real hook-config
// loader, creates the initial objects in the fake cluster and lets the real informer of every binding
// load them. The result is the first binding's environment; deliver/jqProbe on it address all of them.
func c08SetupHook(c *Case, v0 bool, specs []c08Spec, asYAML bool, initial []map[string]any) *c08Env {
	ns := fmt.Sprintf("c08-%d", c.Idx)
	fc := c08FakeCluster()
	ids := NewInterner()
	states := map[string]map[string]any{}
	store := &c08Store{objs: map[string]*unstructured.Unstructured{}, text: map[string]string{}}
	cfgs, lerr := c08LoadHook(v0, specs, asYAML, ns)
	var envs []*c08Env
	for k := range specs {
		envs = append(envs, &c08Env{c: c, ns: ns, fc: fc, ids: ids, states: states, store: store, k: k})
	}
	for k, sp := range specs {
		e := envs[k]
		e.peers = envs
		e.bind()
		jqText, ast := "-", "-"
		if sp.f != nil {
			jqText, ast = c08Token(sp.jqText()), g4CanonJSON(sp.f.ast())
			e.jq = sp.jqText()
		}
		keep := sp.keep || v0 // version 0 has no keepFullObjectsInMemory option
		kp := 0
		if keep {
			kp = 1
		}
		ans := "ok"
		var cfg *kem.MonitorConfig
		if cfgs == nil {
			ans = lerr
			cfg = &kem.MonitorConfig{ApiVersion: "v1", Kind: "ConfigMap"}
		} else {
			cfg = cfgs[k]
		}
		e.inf = kem.VerifNewInformerC08(fc.Client, c08Metrics(), cfg, ns, "", func(ev kemtypes.KubeEvent) {
			e.mu.Lock()
			e.events = append(e.events, ev)
			e.mu.Unlock()
		})
		kind := sp.b.kind
		if kind == "" {
			kind = "ConfigMap"
		}
		if v0 {
			c.Op(fmt.Sprintf("cfg v0 kind=%s event=%s jq=%s ast=%s", kind, c08NamesArg(sp.b.v0), jqText, ast), ans)
		} else {
			c.Op(fmt.Sprintf("cfg kind=%s exec=%s watch=%s keep=%d jq=%s ast=%s", kind, c08KeyArg(sp.b.exec), c08KeyArg(sp.b.watch), kp, jqText, ast), ans)
		}
		c.Note("kind:" + c08KindClass(kind))
		got := g4TypesArg(cfg.EventTypes)
		c.Op("types", got)
		c.Oracle("types " + got)
		if cfg.JqFilter != e.jq || cfg.KeepFullObjectsInMemory != keep {
			c.Op("loader-kept-filter-and-keep", fmt.Sprintf("jq=%q keep=%v", cfg.JqFilter, cfg.KeepFullObjectsInMemory))
		}
		if !v0 && sp.b.exec == nil && sp.b.watch == nil {
			c.Op("defaults", got)
			c.Oracle("defaults " + got)
			c.Note("types:default")
		}
		if v0 {
			c.Note("v0-event:" + c08NamesClass(sp.b.v0))
		} else {
			c.Note("exec:" + c08KeyClass(sp.b.exec) + "/watch:" + c08KeyClass(sp.b.watch))
		}
	}
	ver := "v1"
	if v0 {
		ver = "v0"
	}
	c.Note(fmt.Sprintf("hook:%s/bindings:%d", ver, len(specs)))
	// initial objects: through the dynamic tracker, then read back (the state the informer lists)
	var loadArgs []string
	for _, o := range initial {
		_, err := fc.Client.Dynamic().Resource(g4CmGVR).Namespace(ns).Create(context.TODO(), &unstructured.Unstructured{Object: g4DeepCopyJSON(o)}, metav1.CreateOptions{})
		if err != nil {
			c.Op("harness-create-failed", err.Error())
		}
	}
	if len(initial) > 0 {
		lst, err := fc.Client.Dynamic().Resource(g4CmGVR).Namespace(ns).List(context.TODO(), metav1.ListOptions{})
		if err != nil {
			c.Op("harness-list-failed", err.Error())
		} else {
			sort.Slice(lst.Items, func(i, j int) bool { return lst.Items[i].GetName() < lst.Items[j].GetName() })
			for i := range lst.Items {
				st := g4DeepCopyJSON(lst.Items[i].Object)
				states[lst.Items[i].GetName()] = st
				loadArgs = append(loadArgs, fmt.Sprintf("%d=%s", ids.Id(lst.Items[i].GetName()), g4CanonJSON(st)))
			}
		}
	}
	for _, e := range envs {
		e.bind()
		err := e.inf.CreateSharedInformer()
		ans := "cache=" + e.cacheText()
		if err != nil {
			ans = "err"
			e.loadErr = true
		}
		c.Op(strings.TrimSpace("load "+strings.Join(loadArgs, " ")), ans)
		if err == nil {
			c.Oracle(strings.TrimSpace("snap " + e.snapTokens()))
		}
		e.inf.EnableKubeEventCb()
	}
	return envs[0]
}

func c08NamesArg(l *[]string) string {
	if l == nil {
		return "~"
	}
	return joinStrs(*l)
}

func c08NamesClass(l *[]string) string {
	switch {
	case l == nil:
		return "absent"
	case len(*l) == 0:
		return "empty"
	case len(*l) >= 3:
		return "all"
	}
	return "some"
}

func c08KeyClass(l *[]kemtypes.WatchEventType) string {
	switch {
	case l == nil:
		return "absent"
	case len(*l) == 0:
		return "empty"
	case len(*l) >= 3:
		return "all"
	}
	return "some"
}

// jqProbe compares the model's evaluator with gojq through the real applyFilter, for the filter of
// every binding of the hook.
func (e *c08Env) jqProbe(obj map[string]any) {
	for _, pe := range e.peers {
		if pe.jq == "" {
			continue
		}
		pe.bind()
		res, err := kem.VerifApplyFilterC08(pe.jq, &unstructured.Unstructured{Object: g4DeepCopyJSON(obj)})
		ans := "err"
		if err == nil {
			ans = "fr=" + g4FrText(res)
		}
		e.c.Op("jq "+g4CanonJSON(obj), ans)
		e.c.Note("jq-result:" + g4ResultClass(strings.TrimPrefix(ans, "fr=")))
	}
}

// deliver hands one change to the real handleWatchEvent of every binding of the hook, the way the
// shared informer does: ONE object pointer per state, taken from the store (a re-delivery of an
// unchanged state is the SAME pointer once more), handed to every handler in turn; after each handler
// the binding's snapshot is read (record: getCachedObjects, what a hook run does), so reads of one
// binding's snapshot lie between the deliveries to the others and before every re-delivery.
func (e *c08Env) deliver(t kemtypes.WatchEventType, name string, obj map[string]any) {
	e.deliverX(t, name, obj, false)
}

// deliverInitial: an Added of the list the shared informer made on start (isInInitialList = true).
func (e *c08Env) deliverInitial(name string, obj map[string]any) {
	e.deliverX(kemtypes.WatchEventAdded, name, obj, true)
}

func (e *c08Env) deliverX(t kemtypes.WatchEventType, name string, obj map[string]any, initial bool) {
	u, same := e.store.ptr(name, obj)
	if same {
		e.c.Note("redeliver:same-pointer")
	}
	tomb := false
	if t == kemtypes.WatchEventDeleted {
		// every other delete arrives the way client-go reports a delete it learned about on a relist:
		// the last known state inside a DeletedFinalStateUnknown value
		e.nDeletes++
		tomb = e.nDeletes%2 == 0
	}
	for _, pe := range e.peers {
		pe.bind()
		pe.takeEvents()
		switch t {
		case kemtypes.WatchEventAdded:
			if initial {
				pe.inf.OnAddInitial(u)
			} else {
				pe.inf.OnAdd(u)
			}
		case kemtypes.WatchEventModified:
			pe.inf.OnUpdate(u)
		case kemtypes.WatchEventDeleted:
			if tomb {
				pe.inf.OnDeleteTombstone(u.GetNamespace()+"/"+u.GetName(), u)
			} else {
				pe.inf.OnDelete(u)
			}
		}
		pe.record(t, name, obj, pe.takeEvents())
	}
	if t == kemtypes.WatchEventDeleted {
		e.store.drop(name)
	}
}

func (e *c08Env) record(t kemtypes.WatchEventType, name string, obj map[string]any, evs []kemtypes.KubeEvent) {
	e.recordX(t, name, obj, evs, false)
}

// recordX, quiet: the cache is not part of the answer (line `evq`) and no snapshot is judged — for a
// batch of changes whose handling was not observed one by one (the replay of the informer's initial
// list in cluster mode); the batch ends with cacheLine.
func (e *c08Env) recordX(t kemtypes.WatchEventType, name string, obj map[string]any, evs []kemtypes.KubeEvent, quiet bool) {
	fired, got, fr := "-", 0, "-"
	if len(evs) == 1 && len(evs[0].Objects) == 1 && len(evs[0].WatchEvents) == 1 && evs[0].Type == kemtypes.TypeEvent {
		if evs[0].WatchEvents[0] == kemtypes.WatchEventDeleted {
			// the checksum of a deleted object is not part of the observation
			o := &evs[0].Objects[0]
			full := 0
			if o.Object != nil {
				full = 1
			}
			fired = fmt.Sprintf("Deleted:%d@-:fr=%s:obj=%d", e.ids.Id(g4NameOf(o.Metadata.ResourceId)), g4FrText(o), full)
		} else {
			fired = string(evs[0].WatchEvents[0]) + ":" + e.entry(&evs[0].Objects[0])
		}
		got = 1
		fr = g4FrText(&evs[0].Objects[0])
	} else if len(evs) != 0 {
		fired = fmt.Sprintf("unexpected-%d-events", len(evs))
		got = len(evs)
	}
	if quiet {
		e.c.Op(fmt.Sprintf("evq %s %d %s", t, e.ids.Id(name), g4CanonJSON(obj)), fmt.Sprintf("fired=%s", fired))
		e.c.Oracle(fmt.Sprintf("fired got=%d fr=%s", got, fr))
	} else {
		e.c.Op(fmt.Sprintf("ev %s %d %s", t, e.ids.Id(name), g4CanonJSON(obj)), fmt.Sprintf("fired=%s cache=%s", fired, e.cacheText()))
		e.c.Oracle(fmt.Sprintf("fired got=%d fr=%s", got, fr))
		e.c.Oracle(strings.TrimSpace("snap " + e.snapTokens()))
	}
	if t == kemtypes.WatchEventDeleted {
		delete(e.states, name)
	} else {
		e.states[name] = obj
	}
	e.c.Note("ev:" + string(t))
	if e.jq != "" {
		if _, err := kem.VerifApplyFilterC08(e.jq, &unstructured.Unstructured{Object: g4DeepCopyJSON(obj)}); err != nil {
			e.c.Note("filter-fails-on-state:" + string(t)) // the change is dropped as a whole (see notes/C08.md)
		}
	}
	if got == 1 {
		e.c.Note("fired:" + string(t))
	}
}

var g4AllTypes = []kemtypes.WatchEventType{kemtypes.WatchEventAdded, kemtypes.WatchEventModified, kemtypes.WatchEventDeleted}

func g4SubsetTypes(mask int) []kemtypes.WatchEventType {
	ts := []kemtypes.WatchEventType{}
	for i, t := range g4AllTypes {
		if mask&(1<<i) != 0 {
			ts = append(ts, t)
		}
	}
	return ts
}

// ---- objects with the metadata a real cluster puts on them

// the mutable leaves of C08's objects: those of g4ObjLeaves, an annotation and the managedFields list
var c08ObjLeaves = append(append([][]string{}, g4ObjLeaves...),
	[]string{"metadata", "annotations", "n"}, []string{"metadata", "managedFields"},
	// two keys that differ only in the length of a run of blanks (ConfigMap data keys are free text)
	[]string{"data", "k k"}, []string{"data", "k  k"})

// filter paths: those of g4FilterPaths and the metadata a hook may project (or that the operator
// might be tempted to strip): the whole metadata, the managedFields list, the annotations
var c08FilterPaths = append(append([][]string{}, g4FilterPaths...),
	[]string{"metadata"}, []string{"metadata", "managedFields"}, []string{"metadata", "annotations"},
	[]string{"metadata", "annotations", "n"}, []string{"metadata", "generation"},
	[]string{"data", "k k"}, []string{"data", "k  k"})

// c08BlankPaths: a path list in which every second entry has a key with blanks (for hooks whose
// bindings carry near-identical filters).
var c08BlankPaths = [][]string{{"data", "k k"}, {"spec", "replicas"}, {"data", "k  k"}, {"spec", "a"}, {"data", "k k"}, {"data"},
	{"data", "k  k"}, {"status", "x"}, {"data", "k k"}, {"metadata", "labels", "l"}, {"data", "k  k"}, {"spec", "b", "c"}}

// c08GenManagedFields: what the api-server records for every field manager of an object.
func c08GenManagedFields(rng *Rng) []any {
	var out []any
	for n := rng.Range(1, 2); n > 0; n-- {
		out = append(out, map[string]any{
			"manager":    PickOne(rng, []string{"kubectl", "helm", "shell-operator"}),
			"operation":  PickOne(rng, []string{"Update", "Apply"}),
			"apiVersion": "v1",
			"time":       fmt.Sprintf("2024-01-0%dT00:00:0%dZ", rng.Range(1, 3), rng.Intn(3)),
			"fieldsType": "FieldsV1",
			"fieldsV1":   map[string]any{"f:data": map[string]any{PickOne(rng, []string{"f:k", "."}): map[string]any{}}},
		})
	}
	return out
}

// c08GenObject: a ConfigMap-shaped object as g4GenObject builds it, plus — mostly — the metadata
// every object of a real cluster carries: managedFields, annotations (kubectl's last-applied one),
// generation, creationTimestamp, finalizers, ownerReferences.
func c08GenObject(rng *Rng, ns, name string) map[string]any {
	o := g4GenObject(rng, ns, name)
	md := o["metadata"].(map[string]any)
	if rng.Chance(60) {
		md["managedFields"] = c08GenManagedFields(rng)
	}
	if rng.Chance(35) {
		an := map[string]any{"kubectl.kubernetes.io/last-applied-configuration": "{\"kind\":\"ConfigMap\"}"}
		if rng.Bool() {
			an["n"] = PickOne(rng, []string{"u", "v", "w"})
		}
		md["annotations"] = an
	}
	if rng.Chance(30) {
		md["generation"] = int64(rng.Range(1, 3))
		md["creationTimestamp"] = "2024-01-01T00:00:00Z"
	}
	if rng.Chance(12) {
		md["finalizers"] = []any{"verif/keep"}
	}
	if rng.Chance(12) {
		md["ownerReferences"] = []any{map[string]any{"apiVersion": "v1", "kind": "ConfigMap", "name": "owner", "uid": "u-1"}}
	}
	for _, l := range [][]string{{"data", "k k"}, {"data", "k  k"}} {
		if rng.Chance(45) {
			if _, isMap := o["data"].(map[string]any); isMap || o["data"] == nil {
				g4SetPath(o, l, g4GenLeaf(rng))
			}
		}
	}
	return o
}

// mutate returns a changed copy of obj: inside the filter's paths, outside them, or anywhere.
func c08Mutate(rng *Rng, obj map[string]any, f *jqF, where string) map[string]any {
	o := g4DeepCopyJSON(obj)
	used := map[string]bool{}
	if f != nil {
		f.paths(used)
	}
	touches := func(l []string) bool {
		if f == nil || used["*"] {
			return true
		}
		ls := strings.Join(l, ".")
		for p := range used {
			if p == ls || strings.HasPrefix(ls, p+".") || strings.HasPrefix(p, ls+".") {
				return true
			}
		}
		return false
	}
	var cand [][]string
	for _, l := range c08ObjLeaves {
		if where == "any" || (where == "inside") == touches(l) {
			cand = append(cand, l)
		}
	}
	if len(cand) == 0 {
		cand = c08ObjLeaves
	}
	l := PickOne(rng, cand)
	if rng.Chance(15) {
		g4DelPath(o, l)
	} else if l[len(l)-1] == "managedFields" {
		g4SetPath(o, l, c08GenManagedFields(rng)) // another manager / another time: a change of the object
	} else if l[0] == "metadata" {
		g4SetPath(o, l, PickOne(rng, []string{"u", "v", "w"}))
	} else {
		g4SetPath(o, l, g4GenLeaf(rng))
	}
	return o
}

func g4GetPath(obj map[string]any, p []string) (any, bool) {
	var cur any = obj
	for _, k := range p {
		m, ok := cur.(map[string]any)
		if !ok {
			return nil, false
		}
		if cur, ok = m[k]; !ok {
			return nil, false
		}
	}
	return cur, true
}

// c08Retype returns a copy of obj in which one leaf (inside the filter's paths when there are any)
// changes its TYPE while its JSON text stays the same: a value becomes the string holding its JSON
// text (3 -> "3", true -> "true", null/absent -> "null", [0,"p"] -> "[0,\"p\"]", {"n":1} -> "{\"n\":1}"),
// and a string that holds a JSON text becomes that value ("3" -> 3, "null" -> null or absent).
// The projection changes (another value), its text inside a string does not. ok=false: no leaf fits.
func c08Retype(rng *Rng, obj map[string]any, f *jqF) (map[string]any, bool) {
	o := g4DeepCopyJSON(obj)
	used := map[string]bool{}
	if f != nil {
		f.paths(used)
	}
	inside := func(l []string) bool {
		if f == nil || used["*"] {
			return true
		}
		ls := strings.Join(l, ".")
		for p := range used {
			if p == ls || strings.HasPrefix(ls, p+".") {
				return true
			}
		}
		return false
	}
	var cand [][]string
	for _, l := range g4ObjLeaves {
		if inside(l) {
			cand = append(cand, l)
		}
	}
	if len(cand) == 0 {
		cand = g4ObjLeaves
	}
	cand = append([][]string{}, cand...)
	rng.Shuffle(len(cand), func(i, j int) { cand[i], cand[j] = cand[j], cand[i] })
	for _, l := range cand {
		label := l[0] == "metadata" // label values stay strings: absent <-> "null" only
		v, has := g4GetPath(o, l)
		switch {
		case !has:
			g4SetPath(o, l, "null")
			return o, true
		case label:
			if v == "null" {
				g4DelPath(o, l)
				return o, true
			}
			continue
		}
		if str, isStr := v.(string); isStr {
			var parsed any
			if err := json.Unmarshal([]byte(str), &parsed); err != nil {
				continue // an ordinary string
			}
			if parsed == nil && rng.Bool() {
				g4DelPath(o, l)
			} else {
				g4SetPath(o, l, g4Intify(parsed))
			}
			return o, true
		}
		b, err := json.Marshal(v)
		if err != nil {
			continue
		}
		g4SetPath(o, l, string(b))
		return o, true
	}
	return o, false
}

// c08History runs one scripted history on a prepared informer.
func c08History(e *c08Env, rng *Rng, f *jqF, names []string, steps int) (changes int) {
	probed := map[string]bool{}
	probe := func(o map[string]any) {
		k := g4CanonJSON(o)
		if !probed[k] {
			probed[k] = true
			e.jqProbe(o)
		}
	}
	for _, n := range g4SortedKeys(e.states) {
		probe(e.states[n])
	}
	// The real start sequence. T0: the monitor listed the objects itself (loadExistedObjects, done by
	// the setup). Between T0 and T1 the cluster goes on changing: listed objects are changed, new ones
	// are created (nothing is delivered: no informer runs yet). T1: the shared informer starts, makes
	// its OWN list and hands every object of it to the handler as Added with isInInitialList = true —
	// for an unchanged object a re-delivery (silent), for the others the only notification there will
	// ever be. (Objects deleted in the window are not generated: see notes/C08.md, fifth wave.)
	if rng.Chance(90) {
		atStart := map[string]map[string]any{}
		changed := map[string]string{}
		for _, n := range names {
			cur, live := e.states[n]
			switch {
			case live && rng.Chance(35):
				var o map[string]any
				ok := false
				if rng.Chance(20) {
					o, ok = c08Retype(rng, cur, f)
				}
				if !ok {
					o = c08Mutate(rng, cur, f, PickOne(rng, []string{"inside", "inside", "outside", "any"}))
				}
				atStart[n], changed[n] = o, "window:changed-between-list-and-start"
			case live:
				atStart[n] = cur
			case rng.Chance(30):
				atStart[n], changed[n] = c08GenObject(rng, e.ns, n), "window:created-between-list-and-start"
			}
		}
		for _, n := range g4SortedKeys(atStart) {
			probe(atStart[n])
			e.deliverInitial(n, atStart[n])
			if note, ok := changed[n]; ok {
				e.c.Note(note)
				changes++
			} else {
				e.c.Note("redeliver:start-replay")
			}
		}
	}
	for i := 0; i < steps; i++ {
		name := PickOne(rng, names)
		cur, live := e.states[name]
		if !live {
			o := c08GenObject(rng, e.ns, name)
			probe(o)
			t := kemtypes.WatchEventAdded
			if rng.Chance(10) {
				t = kemtypes.WatchEventModified // an update for an object the informer does not know
			} else if rng.Chance(12) {
				t = kemtypes.WatchEventDeleted // a delete for an object the informer does not know
				e.c.Note("delete:unknown-object")
			}
			e.deliver(t, name, o)
			changes++
			continue
		}
		k := rng.Intn(100)
		switch {
		case k < 22: // resync / relist: the same state again
			t := kemtypes.WatchEventModified
			if rng.Chance(30) {
				t = kemtypes.WatchEventAdded
			}
			e.deliver(t, name, cur)
			e.c.Note("redeliver:resync")
		case k < 44:
			o := c08Mutate(rng, cur, f, "outside")
			probe(o)
			e.deliver(kemtypes.WatchEventModified, name, o)
			e.c.Note("change:outside-filter-paths")
			changes++
		case k < 68:
			o := c08Mutate(rng, cur, f, "inside")
			probe(o)
			t := kemtypes.WatchEventModified
			if rng.Chance(10) {
				t = kemtypes.WatchEventAdded
			}
			e.deliver(t, name, o)
			e.c.Note("change:inside-filter-paths")
			changes++
		case k < 80: // the projection changes its type, not its text: 3 <-> "3", null <-> "null" ...
			o, ok := c08Retype(rng, cur, f)
			if !ok {
				o = c08Mutate(rng, cur, f, "inside")
				e.c.Note("change:inside-filter-paths")
			} else {
				e.c.Note("change:retype-same-text")
			}
			probe(o)
			t := kemtypes.WatchEventModified
			if rng.Chance(10) {
				t = kemtypes.WatchEventAdded
			}
			e.deliver(t, name, o)
			changes++
			if ok && rng.Chance(50) { // and back
				if o2, ok2 := c08Retype(rng, o, f); ok2 {
					probe(o2)
					e.deliver(kemtypes.WatchEventModified, name, o2)
					e.c.Note("change:retype-same-text")
					changes++
				}
			}
		case k < 88: // A -> B -> A
			o := c08Mutate(rng, cur, f, "any")
			probe(o)
			e.deliver(kemtypes.WatchEventModified, name, o)
			e.deliver(kemtypes.WatchEventModified, name, cur)
			e.c.Note("change:there-and-back")
			changes += 2
		default:
			last := cur
			if rng.Chance(30) {
				last = c08Mutate(rng, cur, f, "any") // the final state differs from the cached one
				probe(last)
			}
			e.deliver(kemtypes.WatchEventDeleted, name, last)
			changes++
		}
	}
	return changes
}

// c08BigPlaces: where a big value sits in an object (the leaf) and the filter path that projects it
// (its parent: plain keys only). In the projection's text (keys sorted) the small leaves lie partly
// before and partly behind the big value, whichever place is taken.
var c08BigPlaces = []struct{ leaf, parent []string }{
	{[]string{"data", "blob"}, []string{"data"}},
	{[]string{"metadata", "annotations", "kubectl.kubernetes.io/last-applied-configuration"}, []string{"metadata", "annotations"}},
	{[]string{"metadata", "annotations", "kubectl.kubernetes.io/last-applied-configuration"}, []string{"metadata"}},
	{[]string{"status", "zblob"}, []string{"status"}},
}

// c08BigValue: a text of 60-200 KiB (below and above 64 KiB, no length is special).
func c08BigValue(rng *Rng) string {
	n := rng.Range(60*1024, 200*1024)
	unit := PickOne(rng, []string{"0123456789abcdef", "{\"k\":1},", "xy"})
	s := strings.Repeat(unit, n/len(unit)+1)
	return s[:n]
}

// c08BigCase: one hook with one or two v1 bindings whose projection holds a big value (no filter, or
// a generated program joined with the path of the big value's parent); 1-2 objects carrying a big value;
// the start sequence and a short generated history (c08History: resyncs, small changes inside / outside
// the filter paths, retypes, there-and-back, deletes), then changes OF the big value: its last
// character, one in the middle, its first one, one character more, and a resync in between.
func c08BigCase(c *Case, rng *Rng) {
	ns := fmt.Sprintf("c08-%d", c.Idx)
	place := PickOne(rng, c08BigPlaces)
	nb := 1
	if rng.Chance(30) {
		nb = 2
	}
	var specs []c08Spec
	for k := 0; k < nb; k++ {
		sp := c08Spec{keep: rng.Chance(60), b: c08GenBinding(rng)}
		if k == 0 && rng.Chance(40) {
			sp.b = c08Exec(g4AllTypes)
		}
		if k > 0 || rng.Chance(65) {
			big := g4Path(place.parent...)
			switch g := g4GenFilterWith(rng, 1, c08FilterPaths); rng.Intn(4) {
			case 0:
				sp.f = big
			case 1:
				sp.f = g4ArrF(g, big)
			case 2:
				sp.f = g4ObjF(g4Fld("a", big), g4Fld("z", g))
			default:
				sp.f = g4ObjF(g4Fld("p", g), g4Fld("q", big), g4Fld("r", g4Path("metadata", "labels")), g4Fld("s", g4Path("spec")))
			}
		}
		specs = append(specs, sp)
	}
	f := specs[0].f
	withBig := func(o map[string]any) map[string]any {
		g4SetPath(o, place.leaf, c08BigValue(rng))
		return o
	}
	names := []string{"o1", "o2"}[:rng.Range(1, 2)]
	var initial []map[string]any
	for _, nm := range names {
		if nm == "o1" || rng.Chance(50) {
			initial = append(initial, withBig(c08GenObject(rng, ns, nm)))
		}
	}
	e := c08SetupHook(c, false, specs, rng.Bool(), initial)
	ch := c08History(e, rng, f, names, rng.Range(3, 6))
	// changes of the big value itself
	for _, how := range []string{"last", "middle", "resync", "longer", "first"} {
		if rng.Chance(30) {
			continue
		}
		cur, live := e.states["o1"]
		if !live {
			cur = withBig(c08GenObject(rng, ns, "o1"))
			e.jqProbe(cur)
			e.deliver(kemtypes.WatchEventAdded, "o1", cur)
			ch++
		}
		v, _ := g4GetPath(cur, place.leaf)
		s, isStr := v.(string)
		if !isStr || len(s) < 8 {
			s = c08BigValue(rng)
		}
		flip := func(i int) string {
			b := []byte(s)
			if b[i] == 'Q' {
				b[i] = 'R'
			} else {
				b[i] = 'Q'
			}
			return string(b)
		}
		switch how {
		case "last":
			s = flip(len(s) - 1)
		case "middle":
			s = flip(rng.Range(1, len(s)-2))
		case "first":
			s = flip(0)
		case "longer":
			s += PickOne(rng, []string{"Z", "ZZZ", strings.Repeat("Z", 999)})
		case "resync":
			e.deliver(kemtypes.WatchEventModified, "o1", cur)
			c.Note("redeliver:resync")
			continue
		}
		o := g4DeepCopyJSON(cur)
		g4SetPath(o, place.leaf, s)
		e.jqProbe(o)
		e.deliver(kemtypes.WatchEventModified, "o1", o)
		c.Note("change:inside-big-value:" + how)
		ch++
	}
	c.Note("big-value")
	c.Desc = fmt.Sprintf("big projection: %d binding(s), a value of 60-200 KiB at .%s of every object, first binding's jqFilter %q; generated history, then changes at the end / in the middle / at the head of the big value", nb, strings.Join(place.leaf, "."), specs[0].jqText())
	c.Nontrivial = ch >= 3
	for _, sp := range specs {
		if sp.f == nil {
			c.Note("filter:none")
		} else {
			c.Note("filter:" + sp.f.Kind)
		}
	}
}

func g4Lit(v any) *jqF               { return &jqF{Kind: "lit", Lit: v} }
func g4Path(ks ...string) *jqF       { return &jqF{Kind: "path", Path: ks} }
func g4ArrF(items ...*jqF) *jqF      { return &jqF{Kind: "arr", Items: items} }
func g4AltF(a, b *jqF) *jqF          { return &jqF{Kind: "alt", A: a, B: b} }
func g4ObjF(fs ...jqField) *jqF      { return &jqF{Kind: "obj", Fields: fs} }
func g4Fld(k string, f *jqF) jqField { return jqField{k, f} }

func c08Obj(ns, name string, replicas int64, a any, x int64) map[string]any {
	return map[string]any{"apiVersion": "v1", "kind": "ConfigMap",
		"metadata": map[string]any{"name": name, "namespace": ns},
		"spec":     map[string]any{"replicas": replicas, "a": a},
		"status":   map[string]any{"x": x}}
}

func runC08(r *Run) {
	r.Rule = "per case: ONE HOOK CONFIGURATION with 1-3 kubernetes bindings on the same kind and namespace, the `kind` of every binding spelled in one of the ways the API resolves it (45% the Kind `ConfigMap`, otherwise another letter case, the plural resource name `configmaps` or the short name `cm` — the fake cluster's discovery reports the short name) (55% one binding, 45% two or three = several handlers of one shared informer), 75% configVersion v1 (rendered as JSON or block YAML; per binding executeHookOnEvent absent / [] / any subset of {Added,Modified,Deleted} in any order, now and then with a repeated item, x the deprecated watchEvent absent / [] / any subset: 45% executeHookOnEvent only, 10% neither key = the default, 15% watchEvent only, 30% both keys; keepFullObjectsInMemory false / true / left out) and 25% the legacy format without configVersion (onKubernetesEvent, per binding `event:` [] or any subset of add/update/delete in any order, now and then with a repeated name); per binding a jq program drawn from the fragment (paths incl. missing keys, paths through scalars, .metadata, .metadata.managedFields, .metadata.annotations; literals, object/array construction, `//`; results object/array/scalar/null/error; 12% with two or three expressions joined by `,` = several outputs, merged the legacy way) or no filter (20%). The whole configuration is loaded by the real HookConfig.LoadAndValidate and the MonitorConfig the loader built FOR EACH BINDING, as it is after the whole hook was converted, goes into a real resourceInformer of its own on kube-client/fake. Objects are ConfigMap-shaped with a random subset of six leaves and, mostly, the metadata of a real cluster (60% metadata.managedFields with 1-2 managers, 35% annotations incl. kubectl's last-applied one, generation/creationTimestamp, finalizers, ownerReferences). 0-3 objects loaded by the real createSharedInformer/loadExistedObjects (the monitor's own list, T0); then, in 90% of the cases, THE START SEQUENCE: between T0 and the informer start 35% of the listed objects are changed (inside / outside the filter paths, retype) and 30% of the not yet existing ones are created, nothing is delivered; then every object of the informer's own list is handed to the real OnAdd with isInInitialList = true (an unchanged one: a re-delivery that must be silent; a changed / created one: the only notification there is — it must update the snapshot and trigger as Added iff Added is listed and the projection differs); then a history of 3-14 changes (3-9 for several bindings) over 1-3 objects handed to the real OnAdd/OnUpdate/OnDelete of EVERY binding in turn, the way a shared informer does it: the harness keeps ONE *unstructured.Unstructured per live object (the informer's store), a new state is a new pointer, a re-delivery of an unchanged state hands the SAME pointer to every handler once more; after every handler call that binding's snapshot is read through the real getCachedObjects (what a hook run does), so snapshot reads lie between the deliveries to the other bindings and before every re-delivery. Steps: resync of the identical state (same pointer), changes only outside the first binding's filter paths, changes inside them (leaves, an annotation, the managedFields list), changes of the TYPE of a leaf inside them with the same JSON text (3 <-> '3', true <-> 'true', absent/null <-> 'null', an array or object <-> the string holding its text; 12% of the steps, half of them followed by the way back), A->B->A, deletes (also with a final state that differs from the cached one; every other one as DeletedFinalStateUnknown), re-adds, Modified and Deleted for objects the informer does not know. Every distinct object state is also run through the real applyFilter with every binding's filter and compared with the model's jq evaluator. Plus: all 64 pairs of `event` subsets for a legacy hook with two bindings (create, change, resync, delete). A case is non-trivial when it delivers >= 3 changes and contains at least one re-delivery or outside-only change; distinct = distinct op-line sequences. `cluster` cases (one or two v1 bindings) drive the real start sequence on the fake client: every binding lists through the real createSharedInformer; each object is changed / created in the cluster with 45% before anything watches; the first binding starts the real shared informer (FactoryStore.Start: the initial list is replayed with isInInitialList = true); the second binding is attached LATER to the running informer, after more changes (its handler gets the store replayed); then changes in the cluster (incl. deletes once every binding is attached), a hidden marker object as barrier; the replay is observed as a batch (`evq` lines, then `cache`). `big` cases (10 quick / 40 thorough): a hook with one or two v1 bindings whose projection holds a value of 60-200 KiB (lengths below and above 64 KiB; at data.blob, in kubectl's last-applied annotation or at status.zblob; no filter, or the path of its parent alone / joined with a generated filter in an array or object), 1-2 such objects, the start sequence and a generated history of 3-6 steps (the small changes then lie before or behind the big value in the projection's text), then changes of the big value itself: its last character, one in the middle, a resync, 1-999 characters more, its first character. Corpus: the start sequence with a changed and a created object (v1 / legacy), every kind spelling with a pre-existing object."

	// ---- corpus: the counterexamples of the repaired defect (filter results that are not objects)
	corpus := []struct {
		desc string
		f    *jqF
	}{
		{"scalar-valued filter .spec.replicas, 1 -> 2", g4Path("spec", "replicas")},
		{"array-valued filter [.spec.replicas,.spec.a]", g4ArrF(g4Path("spec", "replicas"), g4Path("spec", "a"))},
		{"null-valued filter .nope // scalar alternative", g4AltF(g4Path("nope"), g4Path("spec", "replicas"))},
		{"object-valued filter {r:.spec.replicas}", g4ObjF(g4Fld("r", g4Path("spec", "replicas")))},
		{"no filter: the whole object is the projection", nil},
		{"two object outputs (.spec),(.status): the legacy merge", &jqF{Kind: "comma", Items: []*jqF{g4Path("spec"), g4Path("status")}}},
		{"two scalar outputs (.spec.replicas),(.spec.a): nothing to merge", &jqF{Kind: "comma", Items: []*jqF{g4Path("spec", "replicas"), g4Path("spec", "a")}}},
	}
	for i, cc := range corpus {
		cc := cc
		idx := i
		if i >= 5 {
			idx = i + 2 // 5 and 6 are the failing-filter corpus cases below
		}
		r.One(idx, func(c *Case, _ *Rng) {
			c.Desc = "corpus: " + cc.desc
			c.Nontrivial = true
			ns := fmt.Sprintf("c08-%d", c.Idx)
			o1 := c08Obj(ns, "o1", 1, "x", 0)
			e := c08Setup(c, c08Exec(g4AllTypes), cc.f, true, []map[string]any{o1})
			o1 = e.states["o1"]
			e.jqProbe(o1)
			e.deliver(kemtypes.WatchEventAdded, "o1", o1) // start replay: silent
			o2 := g4DeepCopyJSON(o1)
			g4SetPath(o2, []string{"status", "x"}, int64(7)) // outside the projection (unless no filter)
			e.deliver(kemtypes.WatchEventModified, "o1", o2)
			o3 := g4DeepCopyJSON(o2)
			g4SetPath(o3, []string{"spec", "replicas"}, int64(2)) // inside the projection
			e.jqProbe(o3)
			e.deliver(kemtypes.WatchEventModified, "o1", o3)
			e.deliver(kemtypes.WatchEventModified, "o1", o3) // resync: silent
			e.deliver(kemtypes.WatchEventDeleted, "o1", o3)
		})
	}
	r.One(6, func(c *Case, _ *Rng) {
		c.Desc = "corpus: a cached object is deleted in a state the filter fails on (.spec.replicas.x, replicas a number): Deleted is reported all the same"
		c.Nontrivial = true
		ns := fmt.Sprintf("c08-%d", c.Idx)
		e := c08Setup(c, c08Exec(g4AllTypes), g4Path("spec", "replicas", "x"), true, nil)
		good := c08Obj(ns, "o1", 1, "x", 0)
		g4DelPath(good, []string{"spec", "replicas"})
		e.jqProbe(good)
		e.deliver(kemtypes.WatchEventAdded, "o1", good)
		bad := c08Obj(ns, "o1", 1, "x", 0)
		e.jqProbe(bad)
		e.deliver(kemtypes.WatchEventDeleted, "o1", bad)
		e.deliver(kemtypes.WatchEventDeleted, "o2", c08Obj(ns, "o2", 2, "y", 0)) // unknown object, failing filter
	})
	r.One(5, func(c *Case, _ *Rng) {
		c.Desc = "corpus: a filter that fails on the object (.spec.replicas.x on a number) — the change is ignored"
		c.Nontrivial = true
		ns := fmt.Sprintf("c08-%d", c.Idx)
		e := c08Setup(c, c08Exec(g4AllTypes), g4Path("spec", "replicas", "x"), true, nil)
		o1 := c08Obj(ns, "o1", 1, "x", 0)
		e.jqProbe(o1)
		e.deliver(kemtypes.WatchEventAdded, "o1", o1)
		o2 := g4DeepCopyJSON(o1)
		g4DelPath(o2, []string{"spec", "replicas"})
		e.jqProbe(o2)
		e.deliver(kemtypes.WatchEventModified, "o1", o2)
		e.deliver(kemtypes.WatchEventModified, "o1", o1)
	})

	// ---- corpus: the projection changes its type but not its text (scalar filters)
	r.One(9, func(c *Case, _ *Rng) {
		c.Desc = "corpus: .spec.replicas 3 -> \"3\" -> 3 and .metadata.labels.l absent -> \"null\" -> absent: another projection every time, Modified fires"
		c.Nontrivial = true
		ns := fmt.Sprintf("c08-%d", c.Idx)
		f := g4ArrF(g4Path("spec", "replicas"), g4Path("metadata", "labels", "l"))
		o1 := c08Obj(ns, "o1", 3, "x", 0)
		e := c08Setup(c, c08Exec(g4AllTypes), f, true, []map[string]any{o1})
		cur := e.states["o1"]
		e.jqProbe(cur)
		for _, ch := range []struct {
			path []string
			v    any
			del  bool
		}{
			{[]string{"spec", "replicas"}, "3", false}, {[]string{"spec", "replicas"}, int64(3), false},
			{[]string{"metadata", "labels", "l"}, "null", false}, {[]string{"metadata", "labels", "l"}, nil, true},
			{[]string{"spec", "replicas"}, nil, false}, {[]string{"spec", "replicas"}, "null", false},
		} {
			cur = g4DeepCopyJSON(cur)
			if ch.del {
				g4DelPath(cur, ch.path)
			} else {
				g4SetPath(cur, ch.path, ch.v)
			}
			e.jqProbe(cur)
			e.deliver(kemtypes.WatchEventModified, "o1", cur)
			e.c.Note("change:retype-same-text")
		}
	})
	// ---- corpus: a binding with both keys — executeHookOnEvent (also an empty one) is the one that counts
	for i, bb := range []struct {
		desc        string
		exec, watch *[]kemtypes.WatchEventType
	}{
		{"executeHookOnEvent: [] + watchEvent: [Added, Modified, Deleted]: a snapshot-only binding, nothing triggers", &[]kemtypes.WatchEventType{}, &g4AllTypes},
		{"executeHookOnEvent: [Deleted] + watchEvent: [Added]", &[]kemtypes.WatchEventType{kemtypes.WatchEventDeleted}, &[]kemtypes.WatchEventType{kemtypes.WatchEventAdded}},
		{"watchEvent: [] alone: nothing triggers", nil, &[]kemtypes.WatchEventType{}},
		{"watchEvent: [Modified] alone (deprecated alias)", nil, &[]kemtypes.WatchEventType{kemtypes.WatchEventModified}},
		{"neither key: all three", nil, nil},
	} {
		bb, i := bb, i
		r.One(10+i, func(c *Case, _ *Rng) {
			c.Desc = "corpus: " + bb.desc
			c.Nontrivial = true
			ns := fmt.Sprintf("c08-%d", c.Idx)
			e := c08Setup(c, c08Binding{exec: bb.exec, watch: bb.watch, asYAML: i%2 == 0}, g4Path("spec", "replicas"), true, nil)
			o1 := c08Obj(ns, "o1", 1, "x", 0)
			e.jqProbe(o1)
			e.deliver(kemtypes.WatchEventAdded, "o1", o1)
			o2 := c08Obj(ns, "o1", 2, "x", 0)
			e.jqProbe(o2)
			e.deliver(kemtypes.WatchEventModified, "o1", o2)
			e.deliver(kemtypes.WatchEventModified, "o1", o2)
			e.deliver(kemtypes.WatchEventDeleted, "o1", o2)
		})
	}

	// ---- corpus: objects as a real cluster holds them (managedFields, annotations), several bindings on
	// one shared informer, the SAME store object re-delivered after the snapshots were read
	for i, ver0 := range []bool{false, true} {
		i, ver0 := i, ver0
		r.One(15+i, func(c *Case, _ *Rng) {
			c.Desc = "corpus: three bindings of one hook (no jqFilter / .metadata / .spec) on one shared informer, an object with metadata.managedFields: Added, every binding's snapshot read, the same store object delivered again twice (resync), a managedFields-only change, resync, Deleted"
			if ver0 {
				c.Desc += " — legacy hook format"
			}
			c.Nontrivial = true
			ns := fmt.Sprintf("c08-%d", c.Idx)
			mk := func(exec []kemtypes.WatchEventType, v0 []string) c08Binding {
				if ver0 {
					return c08Binding{v0: &v0}
				}
				return c08Binding{exec: &exec}
			}
			specs := []c08Spec{
				{mk(g4AllTypes, []string{"add", "update", "delete"}), nil, true, ""},
				{mk([]kemtypes.WatchEventType{kemtypes.WatchEventModified}, []string{"update"}), g4Path("metadata"), true, ""},
				{mk([]kemtypes.WatchEventType{kemtypes.WatchEventAdded, kemtypes.WatchEventDeleted}, []string{"add", "delete"}), g4Path("spec"), true, ""},
			}
			e := c08SetupHook(c, ver0, specs, i == 0, nil)
			o1 := c08Obj(ns, "o1", 1, "x", 0)
			mf := func(manager, at string) []any {
				return []any{map[string]any{"manager": manager, "operation": "Update", "apiVersion": "v1", "time": at,
					"fieldsType": "FieldsV1", "fieldsV1": map[string]any{"f:spec": map[string]any{"f:replicas": map[string]any{}}}}}
			}
			g4SetPath(o1, []string{"metadata", "managedFields"}, mf("kubectl", "2024-01-01T00:00:00Z"))
			g4SetPath(o1, []string{"metadata", "annotations"}, map[string]any{"kubectl.kubernetes.io/last-applied-configuration": "{}"})
			e.jqProbe(o1)
			e.deliver(kemtypes.WatchEventAdded, "o1", o1)
			e.deliver(kemtypes.WatchEventModified, "o1", o1) // resync: the same pointer
			e.deliver(kemtypes.WatchEventModified, "o1", o1)
			c.Note("redeliver:resync")
			o2 := g4DeepCopyJSON(o1)
			g4SetPath(o2, []string{"metadata", "managedFields"}, mf("helm", "2024-01-02T00:00:00Z")) // inside `.` and `.metadata`, outside `.spec`
			e.jqProbe(o2)
			e.deliver(kemtypes.WatchEventModified, "o1", o2)
			e.deliver(kemtypes.WatchEventModified, "o1", o2)
			e.deliver(kemtypes.WatchEventDeleted, "o1", o2)
		})
	}

	// ---- corpus: the start sequence of a monitor — its own list (T0), changes in the cluster, the
	// informer's list (T1) replayed as Added with isInInitialList = true
	for i, ver0 := range []bool{false, true} {
		i, ver0 := i, ver0
		r.One(17+i, func(c *Case, _ *Rng) {
			c.Desc = "corpus: o1 (replicas 1) and o3 are listed by the monitor; before the informer starts o1 is changed to replicas 2 and o2 is created; the informer's initial list (isInInitialList) is the only notification: Added is not listed — nothing triggers, the snapshot shows replicas 2 and o2; o3 is re-delivered unchanged; then a resync and a real change"
			b := c08Binding{exec: &[]kemtypes.WatchEventType{kemtypes.WatchEventModified, kemtypes.WatchEventDeleted}}
			if ver0 {
				c.Desc += " — legacy hook format, Added listed: the two changes of the window trigger as Added, o3 does not"
				b = c08Binding{v0: &[]string{"add", "update"}}
			}
			c.Nontrivial = true
			ns := fmt.Sprintf("c08-%d", c.Idx)
			e := c08SetupHook(c, ver0, []c08Spec{{b, g4Path("spec", "replicas"), true, ""}}, false,
				[]map[string]any{c08Obj(ns, "o1", 1, "x", 0), c08Obj(ns, "o3", 3, "z", 0)})
			o1 := g4DeepCopyJSON(e.states["o1"])
			g4SetPath(o1, []string{"spec", "replicas"}, int64(2))
			o2 := c08Obj(ns, "o2", 5, "y", 0)
			e.jqProbe(o1)
			e.jqProbe(o2)
			e.deliverInitial("o1", o1)
			c.Note("window:changed-between-list-and-start")
			e.deliverInitial("o2", o2)
			c.Note("window:created-between-list-and-start")
			e.deliverInitial("o3", e.states["o3"])
			c.Note("redeliver:start-replay")
			e.deliver(kemtypes.WatchEventModified, "o1", o1) // resync
			o1b := g4DeepCopyJSON(o1)
			g4SetPath(o1b, []string{"spec", "replicas"}, int64(3))
			e.jqProbe(o1b)
			e.deliver(kemtypes.WatchEventModified, "o1", o1b)
			e.deliver(kemtypes.WatchEventDeleted, "o2", o2)
		})
	}
	// ---- corpus: every spelling of the binding's kind the API resolves to ConfigMaps, with an object
	// that exists when the monitor lists: the informer start re-delivers it — silent, once in the snapshot
	for i, kind := range c08KindSpellings {
		i, kind := i, kind
		r.One(19+i, func(c *Case, _ *Rng) {
			c.Desc = "corpus: binding with kind: " + kind + ", o1 exists when the monitor lists; informer start re-delivers it (silent, shown once in the snapshot), then a change outside the projection, one inside, a resync, Deleted (snapshot empty)"
			c.Nontrivial = true
			ns := fmt.Sprintf("c08-%d", c.Idx)
			b := c08Binding{kind: kind, asYAML: i%2 == 1}
			if i%4 == 3 {
				b.v0 = &[]string{"add", "update", "delete"}
			}
			var f *jqF
			if i%3 != 2 {
				f = g4Path("spec")
			}
			e := c08SetupHook(c, i%4 == 3, []c08Spec{{b, f, true, ""}}, b.asYAML, []map[string]any{c08Obj(ns, "o1", 1, "x", 0)})
			if i%4 == 3 {
				c.Desc += " — legacy hook format"
			}
			o1 := e.states["o1"]
			e.jqProbe(o1)
			e.deliverInitial("o1", o1)
			c.Note("redeliver:start-replay")
			o2 := g4DeepCopyJSON(o1)
			g4SetPath(o2, []string{"status", "x"}, int64(7))
			e.jqProbe(o2)
			e.deliver(kemtypes.WatchEventModified, "o1", o2)
			o3 := g4DeepCopyJSON(o2)
			g4SetPath(o3, []string{"spec", "replicas"}, int64(2))
			e.jqProbe(o3)
			e.deliver(kemtypes.WatchEventModified, "o1", o3)
			e.deliver(kemtypes.WatchEventModified, "o1", o3)
			e.deliver(kemtypes.WatchEventDeleted, "o1", o3)
		})
	}

	// ---- corpus: two bindings of one hook whose programs differ only in the number of blanks inside a
	// quoted key / a string literal: two different programs, each binding is judged by its own
	for i := 0; i < 2; i++ {
		i := i
		r.One(27+i, func(c *Case, _ *Rng) {
			ns := fmt.Sprintf("c08-%d", c.Idx)
			var specs []c08Spec
			if i == 0 {
				c.Desc = "corpus: bindings with jqFilter .data[\"k k\"] and .data[\"k  k\"] (one blank / two blanks in the key): a change of data.'k k' triggers the first only, a change of data.'k  k' the second only"
				specs = []c08Spec{{b: c08Exec(g4AllTypes), f: g4Path("data", "k k"), keep: true}, {b: c08Exec(g4AllTypes), f: g4Path("data", "k  k"), keep: true}}
			} else {
				c.Desc = "corpus: bindings with jqFilter {m:\"d e\",v:.spec.replicas} and {m:\"d  e\",v:.data[\"k  k\"]} written over several lines with a comment: each event and snapshot carries the binding's own filter result"
				specs = []c08Spec{
					{b: c08Exec(g4AllTypes), f: g4ObjF(g4Fld("m", g4Lit("d e")), g4Fld("v", g4Path("spec", "replicas"))), keep: true,
						txt: "{m:(\"d e\"),\n v:(.spec.replicas)} # d  e\n"},
					{b: c08Exec(g4AllTypes), f: g4ObjF(g4Fld("m", g4Lit("d  e")), g4Fld("v", g4Path("data", "k  k"))), keep: true,
						txt: "{m:(\"d  e\"),\n v:(.data[\"k  k\"])} # d e\n"},
				}
			}
			c.Nontrivial = true
			e := c08SetupHook(c, false, specs, i == 1, nil)
			o1 := c08Obj(ns, "o1", 1, "x", 0)
			g4SetPath(o1, []string{"data", "k k"}, int64(1))
			g4SetPath(o1, []string{"data", "k  k"}, int64(1))
			e.jqProbe(o1)
			e.deliver(kemtypes.WatchEventAdded, "o1", o1)
			o2 := g4DeepCopyJSON(o1)
			g4SetPath(o2, []string{"data", "k k"}, int64(2))
			e.jqProbe(o2)
			e.deliver(kemtypes.WatchEventModified, "o1", o2)
			o3 := g4DeepCopyJSON(o2)
			g4SetPath(o3, []string{"data", "k  k"}, int64(3))
			e.jqProbe(o3)
			e.deliver(kemtypes.WatchEventModified, "o1", o3)
			e.deliver(kemtypes.WatchEventModified, "o1", o3)
			c.Note("redeliver:resync")
			o4 := g4DeepCopyJSON(o3)
			g4SetPath(o4, []string{"spec", "replicas"}, int64(4))
			e.jqProbe(o4)
			e.deliver(kemtypes.WatchEventModified, "o1", o4)
			e.deliver(kemtypes.WatchEventDeleted, "o1", o4)
			c.Note("sibling-filter:blank-runs")
		})
	}

	// ---- generated histories
	n := r.N(3000, 50000)
	r.Cases(100, n, 0, func(c *Case, rng *Rng) {
		// the hook: 55% one binding, otherwise two or three bindings on the same kind/namespace (one
		// shared informer); 25% written in the legacy format (configVersion v0)
		nb := 1
		if rng.Chance(45) {
			nb = rng.Range(2, 3)
		}
		v0 := rng.Chance(25)
		specs := c08GenSpecs(c, rng, nb, v0, 80, 60, func() c08Binding {
			if v0 {
				return c08Binding{v0: c08GenV0Events(rng)}
			}
			return c08GenBinding(rng)
		})
		f := specs[0].f
		names := []string{"o1", "o2", "o3"}[:rng.Range(1, 3)]
		var initial []map[string]any
		ns := fmt.Sprintf("c08-%d", c.Idx)
		for _, nm := range names {
			if rng.Chance(50) {
				initial = append(initial, c08GenObject(rng, ns, nm))
			}
		}
		e := c08SetupHook(c, v0, specs, rng.Bool(), initial)
		steps := rng.Range(3, 14)
		if nb > 1 {
			steps = rng.Range(3, 9)
		}
		ch := c08History(e, rng, f, names, steps)
		c.Nontrivial = ch >= 3 && (c.notes["redeliver:resync"]+c.notes["redeliver:start-replay"]+c.notes["change:outside-filter-paths"] > 0)
		for _, sp := range specs {
			if sp.f == nil {
				c.Note("filter:none")
			} else {
				c.Note("filter:" + sp.f.Kind)
			}
		}
	})

	// ---- legacy hooks with two bindings: every pair of `event` subsets (64), each binding must keep
	// its own list; one object is created, changed, re-delivered and deleted
	r.Cases(600000, 64, 0, func(c *Case, rng *Rng) {
		k := c.Idx - 600000
		ns := fmt.Sprintf("c08-%d", c.Idx)
		evs := func(mask int) *[]string {
			l := []string{}
			for i, n := range []string{"add", "update", "delete"} {
				if mask&(1<<i) != 0 {
					l = append(l, n)
				}
			}
			rng.Shuffle(len(l), func(i, j int) { l[i], l[j] = l[j], l[i] })
			return &l
		}
		var f *jqF
		if rng.Bool() {
			f = g4Path("spec", "replicas")
		}
		e := c08SetupHook(c, true, []c08Spec{{c08Binding{v0: evs(k % 8)}, f, true, ""}, {c08Binding{v0: evs(k / 8)}, nil, true, ""}}, rng.Bool(), nil)
		o1 := c08GenObject(rng, ns, "o1")
		g4SetPath(o1, []string{"spec", "replicas"}, int64(1))
		e.jqProbe(o1)
		e.deliver(kemtypes.WatchEventAdded, "o1", o1)
		o2 := g4DeepCopyJSON(o1)
		g4SetPath(o2, []string{"spec", "replicas"}, int64(2))
		e.jqProbe(o2)
		e.deliver(kemtypes.WatchEventModified, "o1", o2)
		e.deliver(kemtypes.WatchEventModified, "o1", o2)
		c.Note("redeliver:resync")
		e.deliver(kemtypes.WatchEventDeleted, "o1", o2)
		c.Nontrivial = true
	})

	// ---- big objects: the projection is a text of 60-200 KiB (a ConfigMap holds up to 1 MiB, kubectl's
	// last-applied annotation repeats the whole object); the changes are the small ones of every history
	// (somewhere before / behind the big value in the projection's text) and changes at the head, in the
	// middle and at the very end of the big value itself
	r.Cases(700000, r.N(10, 40), 0, func(c *Case, rng *Rng) {
		c08BigCase(c, rng)
	})

	// ---- cluster mode: the informer is started on the fake client, changes happen in the cluster
	nc := r.N(40, 1000)
	r.Cases(500000, nc, 8, func(c *Case, rng *Rng) {
		c08ClusterCase(c, rng)
	})

	if r.Thorough() {
		// exhaustive small scope: 8 subsets x 6 filters x every history of length <= 4 over the alphabet
		// {same state, change outside, change inside, delete, add, retype} on one object
		filters := []*jqF{nil, g4Path("spec", "replicas"), g4ArrF(g4Path("spec", "replicas"), g4Path("spec", "a")), g4Path("nope"),
			g4ObjF(g4Fld("r", g4Path("spec", "replicas"))), g4AltF(g4Path("spec", "a"), g4Lit(int64(0)))}
		const A = 6
		total := 0
		for l, p := 1, A; l <= 4; l++ {
			total += p
			p *= A
		}
		per := total
		r.Cases(1000000, 8*len(filters)*per, 0, func(c *Case, _ *Rng) {
			k := c.Idx - 1000000
			mask := k % 8
			k /= 8
			f := filters[k%len(filters)]
			k /= len(filters)
			l := 1
			for p := A; k >= p; p *= A {
				k -= p
				l++
			}
			ns := fmt.Sprintf("c08-%d", c.Idx)
			o := c08Obj(ns, "o1", 1, "x", 0)
			e := c08Setup(c, c08Exec(g4SubsetTypes(mask)), f, true, []map[string]any{o})
			o = e.states["o1"]
			e.jqProbe(o)
			live := true
			cnt := int64(10)
			for i := 0; i < l; i++ {
				a := k % A
				k /= A
				cnt++
				switch {
				case !live && a == 3: // a second delete: the informer does not know the object any more
					e.deliver(kemtypes.WatchEventDeleted, "o1", o)
				case !live || a == 4:
					if live {
						e.deliver(kemtypes.WatchEventAdded, "o1", o)
					} else {
						o = c08Obj(ns, "o1", cnt, "x", 0)
						e.deliver(kemtypes.WatchEventAdded, "o1", o)
						live = true
					}
				case a == 0:
					e.deliver(kemtypes.WatchEventModified, "o1", o)
				case a == 1:
					o = g4DeepCopyJSON(o)
					g4SetPath(o, []string{"status", "x"}, cnt)
					e.deliver(kemtypes.WatchEventModified, "o1", o)
				case a == 2:
					o = g4DeepCopyJSON(o)
					g4SetPath(o, []string{"spec", "replicas"}, cnt)
					e.deliver(kemtypes.WatchEventModified, "o1", o)
				case a == 3:
					e.deliver(kemtypes.WatchEventDeleted, "o1", o)
					live = false
				case a == 5: // spec.replicas changes its type, not its text: n <-> "n"
					o = g4DeepCopyJSON(o)
					if v, _ := g4GetPath(o, []string{"spec", "replicas"}); v != nil {
						if str, isStr := v.(string); isStr {
							var n int64
							fmt.Sscan(str, &n)
							g4SetPath(o, []string{"spec", "replicas"}, n)
						} else {
							g4SetPath(o, []string{"spec", "replicas"}, fmt.Sprint(v))
						}
					}
					e.jqProbe(o)
					e.deliver(kemtypes.WatchEventModified, "o1", o)
				}
			}
			c.Nontrivial = l >= 3
		})
		r.Exhaust = true
		r.Extra["exhaustive_scope"] = fmt.Sprintf("8 event-type subsets x %d filters x all %d histories of length <= 4 over {resync, change outside, change inside, delete, add, retype n<->\"n\"} on one object", len(filters), per)
	}
}

// ---- near-identical filters of sibling bindings; the layout of a jq program

// c08CopyF: a deep copy of a filter AST.
func c08CopyF(f *jqF) *jqF {
	if f == nil {
		return nil
	}
	g := &jqF{Kind: f.Kind, Path: append([]string{}, f.Path...), Lit: f.Lit, A: c08CopyF(f.A), B: c08CopyF(f.B)}
	for _, fl := range f.Fields {
		g.Fields = append(g.Fields, jqField{fl.Key, c08CopyF(fl.F)})
	}
	for _, it := range f.Items {
		g.Items = append(g.Items, c08CopyF(it))
	}
	return g
}

// c08WalkStrings calls fn on every string the program's TEXT carries inside a jq string literal:
// string literals and path keys; fn returns the replacement.
func c08WalkStrings(f *jqF, fn func(s string, isKey bool) string) {
	if f == nil {
		return
	}
	for i, k := range f.Path {
		f.Path[i] = fn(k, true)
	}
	if str, ok := f.Lit.(string); ok && f.Kind == "lit" {
		f.Lit = fn(str, false)
	}
	for _, fl := range f.Fields {
		c08WalkStrings(fl.F, fn)
	}
	for _, it := range f.Items {
		c08WalkStrings(it, fn)
	}
	c08WalkStrings(f.A, fn)
	c08WalkStrings(f.B, fn)
}

// c08BlankLits replaces the string literals of a program by strings with a run of blanks inside.
func c08BlankLits(rng *Rng, f *jqF) {
	c08WalkStrings(f, func(s string, isKey bool) string {
		if isKey || !rng.Chance(70) {
			return s
		}
		return PickOne(rng, []string{"d e", "d  e", "on off", "on  off"})
	})
}

func c08HasBlank(f *jqF) bool {
	has := false
	c08WalkStrings(c08CopyF(f), func(s string, _ bool) string {
		if strings.Contains(s, " ") {
			has = true
		}
		return s
	})
	return has
}

// c08FlipRuns: another string that differs only in the LENGTH of its runs of blanks
// ("k k" <-> "k  k", "on off" <-> "on  off").
func c08FlipRuns(s string) string {
	if strings.Contains(s, "  ") {
		return strings.Join(strings.Fields(s), " ")
	}
	return strings.ReplaceAll(s, " ", "  ")
}

// c08Sibling: the filter of ANOTHER binding of the same hook, derived from f the way hook authors
// derive one binding from another (copy, then a small edit): "blank-runs" = the same program text
// up to the number of blanks inside some string literals / quoted keys (another program: it reads
// another key / builds another value); "one-key" = one path key replaced; "same" = the same program
// (only the layout will differ). The result is a fresh AST.
func c08Sibling(rng *Rng, f *jqF) (*jqF, string) {
	g := c08CopyF(f)
	switch k := rng.Intn(100); {
	case k < 60 && c08HasBlank(f):
		n, flipped := 0, 0
		c08WalkStrings(g, func(s string, _ bool) string {
			if !strings.Contains(s, " ") {
				return s
			}
			n++
			if rng.Chance(60) {
				flipped++
				return c08FlipRuns(s)
			}
			return s
		})
		if flipped == 0 { // flip the first one
			first := true
			c08WalkStrings(g, func(s string, _ bool) string {
				if first && strings.Contains(s, " ") {
					first = false
					return c08FlipRuns(s)
				}
				return s
			})
		}
		return g, "blank-runs"
	case k < 75:
		done := false
		c08WalkStrings(g, func(s string, isKey bool) string {
			if done || !isKey || !rng.Chance(50) {
				return s
			}
			done = true
			return PickOne(rng, []string{"a", "replicas", "x", "k", "k k", "k  k"})
		})
		if done {
			return g, "one-key"
		}
	case k < 88:
		// the same text up to the letter case of one quoted key / string literal / key
		done := false
		c08WalkStrings(g, func(s string, _ bool) string {
			if done || !rng.Chance(50) || strings.ToUpper(s) == s {
				return s
			}
			done = true
			return strings.ToUpper(s[:1]) + s[1:]
		})
		if done {
			return g, "letter-case"
		}
	}
	return g, "same"
}

// c08CommentEnd: for a first binding whose program has several outputs `(A),(B)...`: the first
// binding writes `(A) # <note> <line break> ,(B)...` (the comment ends at the line break: the whole
// program), the sibling writes the same characters with a blank in place of the line break — the
// comment swallows the rest, the sibling's program is `A` alone. ok=false: not applicable.
func c08CommentEnd(first *c08Spec) (c08Spec, bool) {
	if first.f == nil || first.f.Kind != "comma" || len(first.f.Items) < 2 {
		return c08Spec{}, false
	}
	a := "(" + first.f.Items[0].text() + ")"
	var rest []string
	for _, it := range first.f.Items[1:] {
		rest = append(rest, "("+it.text()+")")
	}
	whole := a + " # and\n," + strings.Join(rest, ",")
	cut := a + " # and ," + strings.Join(rest, ",")
	qWhole, e1 := gojq.Parse(whole)
	qFirst, e2 := gojq.Parse(first.f.text())
	qCut, e3 := gojq.Parse(cut)
	qA, e4 := gojq.Parse(a)
	if e1 != nil || e2 != nil || e3 != nil || e4 != nil || qWhole.String() != qFirst.String() || qCut.String() != qA.String() {
		return c08Spec{}, false
	}
	first.txt = whole
	return c08Spec{f: c08CopyF(first.f.Items[0]), txt: cut}, true
}

// c08Layout lays a compact jq program out the way people write it in a YAML block scalar: blanks
// and line breaks around `( ) , : // { } [ ]` (never inside a string literal), now and then a
// `# comment` before a line break. The program stays the same; a layout gojq does not accept, or
// reads as another program, is dropped (the compact text is used).
func c08Layout(rng *Rng, compact string) string {
	ws := func() string {
		switch rng.Intn(10) {
		case 0, 1, 2, 3:
			return ""
		case 4, 5:
			return " "
		case 6:
			return "  "
		case 7:
			return "\n"
		case 8:
			return "\n  "
		}
		return PickOne(rng, []string{" # note\n", "  # d  e\n "})
	}
	var sb strings.Builder
	inStr := false
	for i := 0; i < len(compact); i++ {
		ch := compact[i]
		if inStr {
			sb.WriteByte(ch)
			if ch == '\\' && i+1 < len(compact) {
				i++
				sb.WriteByte(compact[i])
			} else if ch == '"' {
				inStr = false
			}
			continue
		}
		switch {
		case ch == '"':
			inStr = true
			sb.WriteByte(ch)
		case ch == '(' || ch == '{' || ch == ':':
			sb.WriteByte(ch)
			sb.WriteString(ws())
		case ch == ')' || ch == '}' || ch == ']':
			sb.WriteString(ws())
			sb.WriteByte(ch)
		case ch == ',':
			sb.WriteString(ws())
			sb.WriteByte(ch)
			sb.WriteString(ws())
		case ch == '/' && i+1 < len(compact) && compact[i+1] == '/':
			sb.WriteString(ws() + "//" + ws())
			i++
		default:
			sb.WriteByte(ch)
		}
	}
	out := sb.String()
	qa, errA := gojq.Parse(compact)
	qb, errB := gojq.Parse(out)
	if errA != nil || errB != nil || qa.String() != qb.String() {
		return compact
	}
	return out
}

// c08GenSpecs: the bindings of a generated hook. Each binding has its own program (or none); in a
// hook with several bindings, 35%: the later bindings carry SIBLINGS of the first binding's program
// (c08Sibling) and the first program is made to contain quoted keys / string literals with blanks.
// Half of the programs are laid out (c08Layout).
func c08GenSpecs(c *Case, rng *Rng, nb int, v0 bool, filterPct int, keepPct int, gen func() c08Binding) []c08Spec {
	var specs []c08Spec
	siblings := nb > 1 && rng.Chance(35)
	for k := 0; k < nb; k++ {
		sp := c08Spec{keep: rng.Chance(keepPct)}
		switch {
		case siblings && k == 0:
			sp.f = g4GenProg(rng, 2, c08BlankPaths)
			c08BlankLits(rng, sp.f)
			if !c08HasBlank(sp.f) {
				extra := g4Path("data", PickOne(rng, []string{"k k", "k  k"}))
				if sp.f.Kind == "comma" {
					sp.f.Items[0] = g4ArrF(sp.f.Items[0], extra)
				} else {
					sp.f = g4ArrF(sp.f, extra)
				}
			}
		case siblings && rng.Chance(25) && specs[0].f.Kind == "comma":
			if ce, ok := c08CommentEnd(&specs[0]); ok {
				sp.f, sp.txt = ce.f, ce.txt
				c.Note("sibling-filter:comment-ends-at-line-break-or-not")
				break
			}
			fallthrough
		case siblings:
			var how string
			sp.f, how = c08Sibling(rng, specs[0].f)
			c.Note("sibling-filter:" + how)
		case rng.Chance(filterPct):
			sp.f = g4GenProg(rng, 2, c08FilterPaths)
			if rng.Chance(25) {
				c08BlankLits(rng, sp.f)
			}
		}
		if sp.f != nil && sp.txt == "" && rng.Chance(50) {
			if sp.txt = c08Layout(rng, sp.f.text()); sp.txt != sp.f.text() {
				c.Note("filter-layout:blanks-line-breaks-comments")
			}
		}
		sp.b = gen()
		specs = append(specs, sp)
	}
	return specs
}

// c08ClusterCase: the informers are registered with a real shared informer of the fake client; the
// harness changes the objects in the cluster. A marker object ("zz", hidden from the observation) is
// created/deleted after every change: the notifications of one handler are handled in order, so once
// the marker shows up in / disappears from a handler's cache the change before it has been handled
// completely. The real start sequence is driven: every binding lists the objects itself
// (createSharedInformer → loadExistedObjects, T0); then the cluster changes (nobody watches yet); then
// the first binding starts the shared informer, whose initial list is replayed to it as Added with
// isInInitialList = true; a second binding of the hook (same kind, namespace, selectors = the same
// shared informer) is attached LATER, after more changes: it gets the informer's store replayed, and
// everything that happened since its own list reaches it in no other way.
func c08ClusterCase(c *Case, rng *Rng) {
	nb := 1
	switch k := rng.Intn(100); {
	case k < 40:
		nb = 2
	case k < 55:
		nb = 3
	}
	specs := c08GenSpecs(c, rng, nb, false, 85, 50, func() c08Binding { return c08GenBinding(rng) })
	f := specs[0].f
	ns := fmt.Sprintf("c08-%d", c.Idx)
	names := []string{"o1", "o2", "o3"}[:rng.Range(1, 3)]
	var initial []map[string]any
	for _, nm := range names {
		if rng.Chance(60) {
			initial = append(initial, c08GenObject(rng, ns, nm))
		}
	}
	e := c08SetupHook(c, false, specs, specs[0].b.asYAML, initial)
	envs := e.peers
	for _, pe := range envs {
		pe.hide = "zz"
		if pe.loadErr {
			// the monitor would not be created at all (CreateInformers returns the error): nothing to start
			c.Note("mode:cluster-load-error")
			return
		}
	}
	dyn := e.fc.Client.Dynamic().Resource(g4CmGVR).Namespace(ns)
	// what the cluster holds, and what every binding has seen of it (its own list so far)
	cluster := map[string]map[string]any{}
	seen := make([]map[string]string, nb)
	for k := range seen {
		seen[k] = map[string]string{}
	}
	for n, o := range e.states {
		cluster[n] = o
		for k := range seen {
			seen[k][n] = g4CanonJSON(o)
		}
	}
	// one change in the cluster; the state is read back as the cluster holds it
	change := func(name string, allowDelete bool) (kemtypes.WatchEventType, map[string]any, bool) {
		cur, live := cluster[name]
		var t kemtypes.WatchEventType
		switch {
		case !live:
			t = kemtypes.WatchEventAdded
			if _, err := dyn.Create(context.TODO(), &unstructured.Unstructured{Object: c08GenObject(rng, ns, name)}, metav1.CreateOptions{}); err != nil {
				c.Inconcl = "create failed: " + err.Error()
				return t, nil, false
			}
		case allowDelete && rng.Chance(20):
			if err := dyn.Delete(context.TODO(), name, metav1.DeleteOptions{}); err != nil {
				c.Inconcl = "delete failed: " + err.Error()
				return t, nil, false
			}
			delete(cluster, name)
			return kemtypes.WatchEventDeleted, cur, true
		default:
			t = kemtypes.WatchEventModified
			where := PickOne(rng, []string{"inside", "outside", "outside", "retype"})
			var next map[string]any
			ok := false
			if where == "retype" {
				if next, ok = c08Retype(rng, cur, f); ok {
					c.Note("change:retype-same-text")
				} else {
					where = "inside"
				}
			}
			if !ok {
				next = c08Mutate(rng, cur, f, where)
				c.Note("change:" + where + "-filter-paths")
			}
			if _, err := dyn.Update(context.TODO(), &unstructured.Unstructured{Object: g4DeepCopyJSON(next)}, metav1.UpdateOptions{}); err != nil {
				c.Inconcl = "update failed: " + err.Error()
				return t, nil, false
			}
		}
		got, err := dyn.Get(context.TODO(), name, metav1.GetOptions{})
		if err != nil {
			c.Inconcl = "get failed: " + err.Error()
			return t, nil, false
		}
		cluster[name] = g4DeepCopyJSON(got.Object)
		return t, cluster[name], true
	}
	markerLive := false
	barrier := func(wait ...*c08Env) bool {
		if markerLive {
			if err := dyn.Delete(context.TODO(), "zz", metav1.DeleteOptions{}); err != nil {
				return false
			}
		} else {
			m := map[string]any{"apiVersion": "v1", "kind": "ConfigMap", "metadata": map[string]any{"name": "zz", "namespace": ns}}
			if _, err := dyn.Create(context.TODO(), &unstructured.Unstructured{Object: m}, metav1.CreateOptions{}); err != nil {
				return false
			}
		}
		markerLive = !markerLive
		deadline := time.Now().Add(10 * time.Second)
		for _, pe := range wait {
			for {
				present := false
				for _, o := range pe.inf.CachedObjects() {
					if g4NameOf(o.Metadata.ResourceId) == "zz" {
						present = true
					}
				}
				if present == markerLive {
					break
				}
				if !time.Now().Before(deadline) {
					return false
				}
				time.Sleep(time.Millisecond)
			}
		}
		return true
	}
	// the replay of the informer's list to a handler that has just been attached: one Added per
	// object the cluster holds (unchanged since the binding's own list: a re-delivery), observed as a
	// batch — the cache is read once, at the end
	replayed := func(pe *c08Env) {
		evs := pe.takeEvents()
		for _, n := range g4SortedKeys(cluster) {
			pe.jqProbe(cluster[n])
		}
		pe.bind()
		for _, n := range g4SortedKeys(cluster) {
			var mine []kemtypes.KubeEvent
			for _, ev := range evs {
				if len(ev.Objects) == 1 && g4NameOf(ev.Objects[0].Metadata.ResourceId) == n {
					mine = append(mine, ev)
				}
			}
			pe.recordX(kemtypes.WatchEventAdded, n, cluster[n], mine, true)
			canon := g4CanonJSON(cluster[n])
			switch old, was := seen[pe.k][n]; {
			case !was:
				c.Note("window:created-between-list-and-start")
			case old != canon:
				c.Note("window:changed-between-list-and-start")
			default:
				c.Note("redeliver:start-replay")
			}
			seen[pe.k][n] = canon
		}
		pe.cacheLine()
	}
	changes := 0
	// T0..T1: the window between the bindings' own lists and the start of the shared informer
	for _, name := range names {
		if rng.Chance(45) {
			if _, _, ok := change(name, false); !ok {
				return
			}
			changes++
		}
	}
	// every binding has a context of its own: cancelling it is what Monitor.Stop / the
	// namespace-deleted callback do to an informer (start()'s goroutine then calls FactoryStore.Stop)
	cancels := make([]context.CancelFunc, nb)
	defer func() {
		for _, cf := range cancels {
			if cf != nil {
				cf()
			}
		}
	}()
	var attached []*c08Env
	shared := make([]interface{ IsStopped() bool }, nb) // the shared informer each binding hangs on
	dead := map[int]bool{}                               // bindings whose shared informer was shut down under them
	// live: the attached bindings whose shared informer runs (the ones a barrier can wait for)
	live := func() []*c08Env {
		var out []*c08Env
		for _, pe := range attached {
			if !dead[pe.k] {
				out = append(out, pe)
			}
		}
		return out
	}
	attach := func(pe *c08Env) bool {
		if markerLive && !barrier(live()...) { // the marker must appear AFTER the replay
			c.Inconcl = "marker not seen before an attach"
			return false
		}
		var ctx context.Context
		ctx, cancels[pe.k] = context.WithCancel(context.Background())
		pe.inf.Start(ctx)
		if si := pe.inf.SharedInformer(); si != nil {
			shared[pe.k] = si
		}
		if len(attached) == 0 {
			time.Sleep(50 * time.Millisecond) // the fake watch starts after the list; changes in between would be lost
		}
		attached = append(attached, pe)
		if !barrier(live()...) {
			c.Inconcl = "marker not seen after start"
			return false
		}
		replayed(pe)
		return true
	}
	// served: what the operator's FactoryStore holds for every binding that is attached and has not
	// been stopped — a stored factory whose context is alive and that carries the binding's handler.
	// One protocol line (model: Snapshot.fsStart/fsStop of the bindings' shared factory index).
	served := func(op string) {
		var ks []string
		for _, pe := range attached {
			stored, cancelled, registered, _ := pe.inf.FactoryState()
			if stored && !cancelled && registered {
				ks = append(ks, fmt.Sprint(pe.k))
			} else if !dead[pe.k] {
				// the shared informer of this binding has been cancelled under it. Nothing that happens
				// in the cluster from now on can reach its handler; to make that an observation and not
				// a matter of timing, wait until client-go reports the informer stopped (its controller
				// has returned: no later change is ever turned into a notification).
				dead[pe.k] = true
				deadline := time.Now().Add(20 * time.Second)
				for shared[pe.k] != nil && !shared[pe.k].IsStopped() {
					if !time.Now().Before(deadline) {
						c.Inconcl = "cancelled shared informer did not stop in time"
						return
					}
					time.Sleep(time.Millisecond)
				}
				time.Sleep(20 * time.Millisecond) // notifications already queued for the handler drain
				c.Note("stop:shared-informer-cancelled-under-a-running-binding")
			}
		}
		c.Op(op, "served="+joinStrs(ks))
	}
	// stopBinding: one attached binding is stopped (its context is cancelled) while the others go on.
	nStops := 0
	stopBinding := func() bool {
		cand := live()
		victim := cand[rng.Intn(len(cand))]
		before := len(attached)
		cancels[victim.k]()
		deadline := time.Now().Add(20 * time.Second)
		for {
			if _, _, registered, _ := victim.inf.FactoryState(); !registered {
				break
			}
			if !time.Now().Before(deadline) {
				c.Inconcl = "FactoryStore.Stop did not run in time"
				return false
			}
			time.Sleep(time.Millisecond)
		}
		var rest []*c08Env
		for _, pe := range attached {
			if pe != victim {
				rest = append(rest, pe)
			}
		}
		attached = rest
		nStops++
		c.Note(fmt.Sprintf("stop:sibling-binding-stopped/handlers-before:%d", before))
		served(fmt.Sprintf("stop %d", victim.k))
		return c.Inconcl == ""
	}
	if !attach(envs[0]) {
		return
	}
	served("attach 0")
	late := envs[1:]
	steps := rng.Range(3, 8)
	if nb > 1 {
		steps = rng.Range(5, 9)
	}
	for i := 0; i < steps; i++ {
		if len(late) > 0 && (i >= steps-4 || rng.Chance(35)) {
			// the next binding is attached to the running informer: its store is replayed
			if !attach(late[0]) {
				return
			}
			served(fmt.Sprintf("attach %d", late[0].k))
			if c.Inconcl != "" {
				return
			}
			late = late[1:]
			c.Note("attach:late-handler-on-running-informer")
		} else if len(live()) >= 2 && nStops < nb-1 && (rng.Chance(30) || (len(late) == 0 && nStops == 0 && i >= steps-3)) {
			// one of the bindings sharing the informer stops (its monitor is stopped, its namespace
			// stopped matching ...), the others go on watching: the changes that follow must reach them
			if !stopBinding() {
				return
			}
		}
		name := PickOne(rng, names)
		// nothing is deleted while a binding that listed the object is not attached yet: it would
		// never learn of it (see notes/C08.md, fifth wave)
		t, next, ok := change(name, len(late) == 0)
		if !ok {
			return
		}
		changes++
		if !barrier(live()...) {
			c.Inconcl = "marker not seen after a change"
			return
		}
		e.jqProbe(next)
		for _, pe := range attached {
			pe.bind()
			pe.record(t, name, next, pe.takeEvents())
			if t == kemtypes.WatchEventDeleted {
				delete(seen[pe.k], name)
			} else {
				seen[pe.k][name] = g4CanonJSON(next)
			}
		}
	}
	c.Nontrivial = changes >= 3
	c.Note("mode:cluster")
	c.Note(fmt.Sprintf("mode:cluster/bindings:%d", nb))
}
