package main

// C09 — binding context JSON follows the documented contract, incl. filterResult.
//
// Everything observed is produced by the running code path:
//   hook config (JSON text) → real Hook.LoadConfig (v0 / v1 loader + validation)
//   → real HookController with real KubeEventsManager (monitors/informers on kube-client/fake), real
//     ScheduleManager, admission and conversion WebhookManagers (wired as hook_manager.loadHook does)
//   → objects created/updated/deleted through the fake client's dynamic tracker
//   → HandleEnableKubernetesBindings (Synchronization) / KubeEvent from the manager's channel →
//     HandleKubeEvent → ConvertKubeEventToBindingContext; HandleScheduleEvent; HandleAdmissionEvent;
//     HandleConversionEvent (the controllers' own constructors of BindingContext); onStartup: the two
//     lines of bootstrapMainQueue (operator.go) — the only context not built by a controller
//   → real Hook.Run: UpdateSnapshots → ConvertBindingContextList(version) → file at
//     BINDING_CONTEXT_PATH → a real bash hook copies the file; the copy is what is observed
//     (every 4th render goes through UpdateSnapshots + ConvertBindingContextList(...).Json() only).
// Observation: the file parsed and re-printed canonically; `review` objects replaced by their uid.

import (
	"context"
	"encoding/json"
	"fmt"
	"os"
	"path/filepath"
	"sort"
	"strings"
	"sync"
	"time"

	"github.com/deckhouse/deckhouse/pkg/log"
	admv1 "k8s.io/api/admission/v1"
	apixv1 "k8s.io/apiextensions-apiserver/pkg/apis/apiextensions/v1"
	metav1 "k8s.io/apimachinery/pkg/apis/meta/v1"
	"k8s.io/apimachinery/pkg/apis/meta/v1/unstructured"
	"k8s.io/apimachinery/pkg/types"

	"github.com/flant/kube-client/fake"
	"github.com/flant/shell-operator/pkg/hook"
	bctx "github.com/flant/shell-operator/pkg/hook/binding_context"
	"github.com/flant/shell-operator/pkg/hook/controller"
	htypes "github.com/flant/shell-operator/pkg/hook/types"
	kem "github.com/flant/shell-operator/pkg/kube_events_manager"
	kemtypes "github.com/flant/shell-operator/pkg/kube_events_manager/types"
	schedulemanager "github.com/flant/shell-operator/pkg/schedule_manager"
	"github.com/flant/shell-operator/pkg/webhook/admission"
	"github.com/flant/shell-operator/pkg/webhook/conversion"
)

func init() { suites["c09"] = runC09 }

type c09KB struct {
	Name, Group, NS string
	F               *jqF
	Keep            bool
	Inc             []string
	Types           []kemtypes.WatchEventType
	V0Events        []string
	MayFail         bool // the jq filter reads through a leaf value: it fails on some object states
}

type c09OtherB struct {
	Kind, Name, Group string // schedule | validating | mutating | conversion
	Inc               []string
	From, To          string
	Rules             [][2]string // conversion: the `conversions` of the binding (nil: the single rule From -> To)
}

// rules: the conversion rules of a kubernetesCustomResourceConversion binding, in configuration order.
func (o c09OtherB) rules() [][2]string {
	if o.Kind != "conversion" {
		return nil
	}
	if o.Rules != nil {
		return o.Rules
	}
	return [][2]string{{o.From, o.To}}
}

func (o c09OtherB) fromTo() (string, string) {
	var fs, ts []string
	for _, r := range o.rules() {
		fs, ts = append(fs, r[0]), append(ts, r[1])
	}
	return joinStrs(fs), joinStrs(ts)
}

type c09Spec struct {
	Version   string
	OnStartup bool
	KBs       []c09KB
	Others    []c09OtherB
}

func g4StrsAny(ss []string) []any {
	out := make([]any, len(ss))
	for i, s := range ss {
		out[i] = s
	}
	return out
}

// crontab: every schedule binding has a crontab of its own (bindings may share a name, the crontab tells
// whose tick it is): the j-th schedule binding of the hook ticks on "* * * * *" (j = 0) or "*/<j+1> * * * *".
func (s *c09Spec) crontab(i int) string {
	j := 0
	for _, o := range s.Others[:i] {
		if o.Kind == "schedule" {
			j++
		}
	}
	if j == 0 {
		return "* * * * *"
	}
	return fmt.Sprintf("*/%d * * * *", j+1)
}

// configJSON renders the hook configuration the way a hook prints it for --config.
func (s *c09Spec) configJSON() []byte {
	cfg := map[string]any{}
	if s.Version == "v1" {
		cfg["configVersion"] = "v1"
	}
	if s.OnStartup {
		cfg["onStartup"] = 1
	}
	var kbs, sch, val, mut, conv []any
	for _, b := range s.KBs {
		if s.Version == "v0" {
			m := map[string]any{"name": b.Name, "kind": "ConfigMap", "event": g4StrsAny(b.V0Events),
				"namespaceSelector": map[string]any{"matchNames": []any{b.NS}}}
			if b.F != nil {
				m["jqFilter"] = b.F.text()
			}
			kbs = append(kbs, m)
			continue
		}
		m := map[string]any{"name": b.Name, "apiVersion": "v1", "kind": "ConfigMap",
			"namespace": map[string]any{"nameSelector": map[string]any{"matchNames": []any{b.NS}}}}
		if b.Name == "kubernetes" {
			delete(m, "name") // an unnamed binding: the loader calls it "kubernetes"
		}
		if b.F != nil {
			m["jqFilter"] = b.F.text()
		}
		if !b.Keep {
			m["keepFullObjectsInMemory"] = false
		}
		if b.Group != "" {
			m["group"] = b.Group
		}
		if len(b.Inc) > 0 {
			m["includeSnapshotsFrom"] = g4StrsAny(b.Inc)
		}
		if b.Types != nil {
			ts := []any{}
			for _, t := range b.Types {
				ts = append(ts, string(t))
			}
			m["executeHookOnEvent"] = ts
		}
		kbs = append(kbs, m)
	}
	for i, o := range s.Others {
		m := map[string]any{"name": o.Name}
		if o.Kind == "schedule" && o.Name == "schedule" {
			delete(m, "name") // an unnamed binding: the loader calls it "schedule"
		}
		if o.Group != "" {
			m["group"] = o.Group
		}
		if len(o.Inc) > 0 {
			m["includeSnapshotsFrom"] = g4StrsAny(o.Inc)
		}
		switch o.Kind {
		case "schedule":
			m["crontab"] = s.crontab(i)
			if s.Version == "v0" {
				delete(m, "group")
				delete(m, "includeSnapshotsFrom")
			}
			sch = append(sch, m)
		case "validating", "mutating":
			m["rules"] = []any{map[string]any{"apiGroups": []any{"stable.example.com"}, "apiVersions": []any{"v1"},
				"operations": []any{"CREATE"}, "resources": []any{"crontabs"}, "scope": "Namespaced"}}
			if o.Kind == "validating" {
				val = append(val, m)
			} else {
				mut = append(mut, m)
			}
		case "conversion":
			m["crdName"] = "crontabs.stable.example.com"
			var rs []any
			for _, r := range o.rules() {
				rs = append(rs, map[string]any{"fromVersion": r[0], "toVersion": r[1]})
			}
			m["conversions"] = rs
			conv = append(conv, m)
		}
	}
	key := "kubernetes"
	if s.Version == "v0" {
		key = "onKubernetesEvent"
	}
	if kbs != nil {
		cfg[key] = kbs
	}
	if sch != nil {
		cfg["schedule"] = sch
	}
	if val != nil {
		cfg["kubernetesValidating"] = val
	}
	if mut != nil {
		cfg["kubernetesMutating"] = mut
	}
	if conv != nil {
		cfg["kubernetesCustomResourceConversion"] = conv
	}
	b, _ := json.Marshal(cfg)
	return b
}

type c09Env struct {
	c      *Case
	r      *Run
	spec   *c09Spec
	fc     *fake.Cluster
	h      *hook.Hook
	hc     *controller.HookController
	kemgr  kem.KubeEventsManager
	cancel context.CancelFunc
	dir    string
	mu     sync.Mutex
	events []kemtypes.KubeEvent
	ctxs   []bctx.BindingContext // every context created so far, in creation order
	btypes []htypes.BindingType
	synced bool
	live   map[string]map[string]bool // ns -> names present
	runs   int
	seq    int
}

// c09SameNames: do two kubernetes bindings share a name (SnapshotsFor looks a monitor up by binding name)?
// This is the class of the recorded finding. Schedule / conversion bindings sharing a name are not in it:
// their contexts carry the include list of their own binding (c09SharedNames, generated on purpose).
func c09SameNames(s *c09Spec) bool {
	seen := map[string]bool{}
	for _, b := range s.KBs {
		if seen["k/"+b.Name] {
			return true
		}
		seen["k/"+b.Name] = true
	}
	return false
}

// c09SharedNames: the kinds (schedule, conversion) in which two bindings share a name.
func c09SharedNames(s *c09Spec) []string {
	seen, out := map[string]bool{}, []string{}
	for _, o := range s.Others {
		k := o.Kind + "/" + o.Name
		if seen[k] && !seen["!"+o.Kind] {
			out = append(out, o.Kind)
			seen["!"+o.Kind] = true
		}
		seen[k] = true
	}
	return out
}

func g4OptStr(s string) string {
	if s == "" {
		return "-"
	}
	return s
}

func c09Start(r *Run, c *Case, spec *c09Spec) *c09Env {
	e := &c09Env{c: c, r: r, spec: spec, live: map[string]map[string]bool{}}
	e.fc = fake.NewFakeCluster(fake.ClusterVersionV121)
	e.dir = filepath.Join(r.Scratch, fmt.Sprintf("c09-%d", c.Idx))
	_ = os.MkdirAll(e.dir, 0o755)
	script := filepath.Join(e.dir, "hook.sh")
	_ = writeScript(script, []byte("#!/bin/bash\ncat \"$BINDING_CONTEXT_PATH\" > \"$0.out\"\n"), 0o755)

	if c09SameNames(spec) {
		c.Known = "same-name-bindings" // classifier of the recorded finding: two kubernetes bindings share a name
	}
	for _, k := range c09SharedNames(spec) {
		c.Note("shared-name:" + k)
	}
	c.Op(fmt.Sprintf("hook version=%s", spec.Version), "ok")
	for _, b := range spec.KBs {
		jqText, ast := "-", "-"
		if b.F != nil {
			jqText, ast = b.F.text(), g4CanonJSON(b.F.ast())
		}
		keep := 0
		if b.Keep {
			keep = 1
		}
		ts := "default"
		if b.Types != nil {
			ts = g4TypesArg(b.Types)
		}
		if spec.Version == "v0" {
			// `event: [add, update, delete]` of the legacy config
			var vs []string
			for _, ev := range b.V0Events {
				vs = append(vs, map[string]string{"add": "Added", "update": "Modified", "delete": "Deleted"}[ev])
			}
			ts = joinStrs(vs)
		}
		c.Op(fmt.Sprintf("kb name=%s ns=%s jq=%s ast=%s keep=%d group=%s inc=%s types=%s", b.Name, b.NS, jqText, ast, keep, g4OptStr(b.Group), joinStrs(b.Inc), ts), "ok")
	}
	for _, o := range spec.Others {
		// from= / to=: the conversion rules of the binding, two parallel lists
		fs, ts := o.fromTo()
		c.Op(fmt.Sprintf("ob kind=%s name=%s group=%s inc=%s from=%s to=%s", o.Kind, o.Name, g4OptStr(o.Group), joinStrs(o.Inc), fs, ts), "ok")
	}

	e.h = hook.NewHook("c09-hook", script, false, false, "", log.NewNop())
	if _, err := e.h.LoadConfig(spec.configJSON()); err != nil {
		c.Op("effective", "config-error: "+firstLine(err.Error()))
		return nil
	}
	ctx, cancel := context.WithCancel(context.Background())
	e.cancel = cancel
	mgr := kem.NewKubeEventsManager(ctx, e.fc.Client, log.NewNop())
	mgr.WithMetricStorage(c08Metrics())
	e.kemgr = mgr
	go func() {
		for {
			select {
			case ev := <-mgr.Ch():
				e.mu.Lock()
				e.events = append(e.events, ev)
				e.mu.Unlock()
			case <-ctx.Done():
				return
			}
		}
	}()
	sm := schedulemanager.NewScheduleManager(ctx, log.NewNop())
	am := admission.NewWebhookManager(e.fc.Client)
	am.Settings = &admission.WebhookSettings{ConfigurationName: "c09"}
	am.DefaultConfigurationId = admission.DefaultConfigurationId
	cm := conversion.NewWebhookManager()
	cm.Settings = &conversion.WebhookSettings{}
	// as hook_manager.loadHook does
	cfg := e.h.GetConfig()
	for _, v := range cfg.KubernetesValidating {
		v.Webhook.UpdateIds("", v.BindingName)
	}
	for _, m := range cfg.KubernetesMutating {
		m.Webhook.UpdateIds("", m.BindingName)
	}
	hc := controller.NewHookController()
	hc.InitKubernetesBindings(cfg.OnKubernetesEvents, mgr, log.NewNop())
	hc.InitScheduleBindings(cfg.Schedules, sm)
	hc.InitConversionBindings(cfg.KubernetesConversion, cm)
	hc.InitAdmissionBindings(cfg.KubernetesValidating, cfg.KubernetesMutating, am)
	e.h.WithHookController(hc)
	e.h.WithTmpDir(e.dir)
	e.hc = hc
	hc.EnableScheduleBindings()
	hc.EnableAdmissionBindings()
	hc.EnableConversionBindings()

	// effective includeSnapshotsFrom lists after the loader merged the groups
	var eff []string
	for _, b := range cfg.OnKubernetesEvents {
		eff = append(eff, b.BindingName+"="+joinStrs(b.IncludeSnapshotsFrom))
	}
	for _, b := range cfg.Schedules {
		eff = append(eff, b.BindingName+"="+joinStrs(b.IncludeSnapshotsFrom))
	}
	for _, b := range cfg.KubernetesValidating {
		eff = append(eff, b.BindingName+"="+joinStrs(b.IncludeSnapshotsFrom))
	}
	for _, b := range cfg.KubernetesMutating {
		eff = append(eff, b.BindingName+"="+joinStrs(b.IncludeSnapshotsFrom))
	}
	for _, b := range cfg.KubernetesConversion {
		eff = append(eff, b.BindingName+"="+joinStrs(b.IncludeSnapshotsFrom))
	}
	c.Op("effective", strings.Join(eff, " "))
	return e
}

func (e *c09Env) close() {
	if e == nil {
		return
	}
	if e.hc != nil {
		e.hc.StopMonitors()
	}
	if e.cancel != nil {
		e.cancel()
	}
}

func (e *c09Env) takeEvents() []kemtypes.KubeEvent {
	e.mu.Lock()
	defer e.mu.Unlock()
	ev := e.events
	e.events = nil
	return ev
}

func (e *c09Env) kbIndex(monitorID string) int {
	for i, b := range e.h.GetConfig().OnKubernetesEvents {
		if b.Monitor.Metadata.MonitorId == monitorID {
			return i
		}
	}
	return -1
}

// barrier: a marker object is created and deleted again in every namespace; once every monitor has
// shown it and dropped it, all earlier changes have been handled completely (handlers are sequential).
func (e *c09Env) barrier() bool {
	if !e.synced {
		return true
	}
	nss := map[string]bool{}
	for _, b := range e.spec.KBs {
		nss[b.NS] = true
	}
	wait := func(present bool) bool {
		deadline := time.Now().Add(10 * time.Second)
		for time.Now().Before(deadline) {
			ok := true
			for _, b := range e.h.GetConfig().OnKubernetesEvents {
				has := false
				for _, o := range e.hc.KubernetesController.SnapshotsFor(b.BindingName) {
					if g4NameOf(o.Metadata.ResourceId) == "zz" {
						has = true
					}
				}
				if has != present {
					ok = false
				}
			}
			if ok {
				return true
			}
			time.Sleep(time.Millisecond)
		}
		return false
	}
	for ns := range nss {
		m := map[string]any{"apiVersion": "v1", "kind": "ConfigMap", "metadata": map[string]any{"name": "zz", "namespace": ns}}
		if _, err := e.fc.Client.Dynamic().Resource(g4CmGVR).Namespace(ns).Create(context.TODO(), &unstructured.Unstructured{Object: m}, metav1.CreateOptions{}); err != nil {
			return false
		}
	}
	if !wait(true) {
		return false
	}
	for ns := range nss {
		if err := e.fc.Client.Dynamic().Resource(g4CmGVR).Namespace(ns).Delete(context.TODO(), "zz", metav1.DeleteOptions{}); err != nil {
			return false
		}
	}
	if !wait(false) {
		return false
	}
	// every event of the changes before the marker has been sent by now; a sentinel sent through the
	// same (FIFO) channel tells when the reader has stored them all
	e.seq++
	tag := fmt.Sprintf("__sentinel__%d", e.seq)
	select {
	case e.kemgr.Ch() <- kemtypes.KubeEvent{MonitorId: tag}:
	case <-time.After(10 * time.Second):
		return false
	}
	deadline := time.Now().Add(10 * time.Second)
	for time.Now().Before(deadline) {
		e.mu.Lock()
		seen := false
		for _, ev := range e.events {
			if ev.MonitorId == tag {
				seen = true
			}
		}
		e.mu.Unlock()
		if seen {
			return true
		}
		time.Sleep(200 * time.Microsecond)
	}
	return false
}

// change applies one cluster change and turns the KubeEvents it caused into binding contexts.
func (e *c09Env) change(op, ns, name string, obj map[string]any) bool {
	dyn := e.fc.Client.Dynamic().Resource(g4CmGVR).Namespace(ns)
	var err error
	line := ""
	switch op {
	case "put":
		if e.live[ns][name] {
			_, err = dyn.Update(context.TODO(), &unstructured.Unstructured{Object: g4DeepCopyJSON(obj)}, metav1.UpdateOptions{})
		} else {
			_, err = dyn.Create(context.TODO(), &unstructured.Unstructured{Object: g4DeepCopyJSON(obj)}, metav1.CreateOptions{})
		}
		if err == nil {
			got, gerr := dyn.Get(context.TODO(), name, metav1.GetOptions{})
			if gerr != nil {
				err = gerr
			} else {
				obj = g4DeepCopyJSON(got.Object)
			}
		}
		if e.live[ns] == nil {
			e.live[ns] = map[string]bool{}
		}
		e.live[ns][name] = true
		line = fmt.Sprintf("put %s %s %s", ns, name, g4CanonJSON(obj))
	case "del":
		err = dyn.Delete(context.TODO(), name, metav1.DeleteOptions{})
		delete(e.live[ns], name)
		line = fmt.Sprintf("del %s %s", ns, name)
	}
	if err != nil {
		e.c.Inconcl = "cluster change failed: " + err.Error()
		return false
	}
	if !e.barrier() {
		e.c.Inconcl = "marker not seen by every monitor"
		return false
	}
	evs := e.takeEvents()
	type fired struct {
		idx int
		ev  kemtypes.KubeEvent
	}
	var fs []fired
	for _, ev := range evs {
		if strings.HasPrefix(ev.MonitorId, "__sentinel__") || (len(ev.Objects) == 1 && g4NameOf(ev.Objects[0].Metadata.ResourceId) == "zz") {
			continue
		}
		fs = append(fs, fired{e.kbIndex(ev.MonitorId), ev})
	}
	sort.SliceStable(fs, func(i, j int) bool { return fs[i].idx < fs[j].idx })
	var ans []string
	for _, f := range fs {
		if f.idx < 0 || !e.hc.CanHandleKubeEvent(f.ev) {
			ans = append(ans, "unknown-monitor")
			continue
		}
		e.hc.HandleKubeEvent(f.ev, func(info controller.BindingExecutionInfo) {
			for _, bc := range info.BindingContext {
				e.ctxs = append(e.ctxs, bc)
				e.btypes = append(e.btypes, htypes.OnKubernetesEvent)
				ans = append(ans, fmt.Sprintf("%s:%s", info.Binding, bc.WatchEvent))
			}
		})
	}
	e.c.Op(line, "events="+joinStrs(ans))
	e.c.Note("change:" + op)
	return true
}

func (e *c09Env) sync() bool {
	n := 0
	err := e.hc.HandleEnableKubernetesBindings(func(info controller.BindingExecutionInfo) {
		for _, bc := range info.BindingContext {
			e.ctxs = append(e.ctxs, bc)
			e.btypes = append(e.btypes, htypes.OnKubernetesEvent)
			n++
		}
	})
	if err != nil {
		e.c.Op("sync", "err")
		return false
	}
	e.synced = true
	time.Sleep(30 * time.Millisecond) // the fake watch starts after the list
	e.hc.UnlockKubernetesEvents()
	if !e.barrier() {
		e.c.Inconcl = "marker not seen after start"
		return false
	}
	e.takeEvents()
	e.c.Op("sync", fmt.Sprintf("ctx=%d", n))
	return true
}

func (e *c09Env) add(kind string, bcs []bctx.BindingContext, bt htypes.BindingType, line string) {
	for _, bc := range bcs {
		e.ctxs = append(e.ctxs, bc)
		e.btypes = append(e.btypes, bt)
	}
	e.c.Op(line, fmt.Sprintf("ctx=%d", len(bcs)))
	e.c.Note("ctx:" + kind)
}

func (e *c09Env) mkOnStartup() {
	// bootstrapMainQueue (pkg/shell-operator/operator.go): the only constructor outside a controller
	bc := bctx.BindingContext{Binding: string(htypes.OnStartup)}
	bc.Metadata.BindingType = htypes.OnStartup
	e.add("onStartup", []bctx.BindingContext{bc}, htypes.OnStartup, "mk onStartup")
}

// obIndex: position of the first binding of that kind and name among the `ob` lines.
func (e *c09Env) obIndex(kind, name string) int {
	for i, o := range e.spec.Others {
		if o.Kind == kind && o.Name == name {
			return i
		}
	}
	return -1
}

// mkSchedule: the tick of the i-th `ob` binding (a schedule binding), told by its own crontab.
func (e *c09Env) mkSchedule(i int) {
	var bcs []bctx.BindingContext
	tab := e.spec.crontab(i)
	if e.hc.CanHandleScheduleEvent(tab) {
		e.hc.HandleScheduleEvent(tab, func(info controller.BindingExecutionInfo) {
			bcs = append(bcs, info.BindingContext...)
		})
	}
	e.add("schedule", bcs, htypes.Schedule, fmt.Sprintf("mk schedule %s %d", e.spec.Others[i].Name, i))
}

func (e *c09Env) mkAdmission(kind, name, uid string) {
	// the webhook handler addresses a binding by the ids UpdateIds derived from its name
	whID, confID := name, admission.DefaultConfigurationId
	for _, v := range e.h.GetConfig().KubernetesValidating {
		if kind == "validating" && v.BindingName == name {
			whID, confID = v.Webhook.Metadata.WebhookId, v.Webhook.Metadata.ConfigurationId
		}
	}
	for _, m := range e.h.GetConfig().KubernetesMutating {
		if kind == "mutating" && m.BindingName == name {
			whID, confID = m.Webhook.Metadata.WebhookId, m.Webhook.Metadata.ConfigurationId
		}
	}
	ev := admission.Event{WebhookId: whID, ConfigurationId: confID,
		Request: &admv1.AdmissionRequest{UID: types.UID(uid), Operation: admv1.Create, Name: "obj"}}
	var bcs []bctx.BindingContext
	bt := htypes.KubernetesValidating
	if kind == "mutating" {
		bt = htypes.KubernetesMutating
	}
	if e.hc.CanHandleAdmissionEvent(ev) {
		e.hc.HandleAdmissionEvent(ev, func(info controller.BindingExecutionInfo) {
			bcs = append(bcs, info.BindingContext...)
		})
	}
	e.add(kind, bcs, bt, fmt.Sprintf("mk %s %s %s %d", kind, name, uid, e.obIndex(kind, name)))
}

// mkConversion: a conversion request served by the r-th rule of the i-th `ob` binding (a conversion binding),
// through the links the real EnableConversionBindings built and the real HandleConversionEvent. The answer
// shows what the controller put into the context: binding name and the versions of the rule.
func (e *c09Env) mkConversion(i, r int, uid string) {
	o := e.spec.Others[i]
	rl := o.rules()[r]
	req := &apixv1.ConversionRequest{UID: types.UID(uid), DesiredAPIVersion: rl[1]}
	rule := conversion.Rule{FromVersion: rl[0], ToVersion: rl[1]}
	var bcs []bctx.BindingContext
	if e.hc.CanHandleConversionEvent("crontabs.stable.example.com", req, rule) {
		e.hc.HandleConversionEvent("crontabs.stable.example.com", req, rule, func(info controller.BindingExecutionInfo) {
			bcs = append(bcs, info.BindingContext...)
		})
	}
	ans := fmt.Sprintf("ctx=%d", len(bcs))
	for _, bc := range bcs {
		e.ctxs = append(e.ctxs, bc)
		e.btypes = append(e.btypes, htypes.KubernetesConversion)
		ans += fmt.Sprintf(" binding=%s from=%s to=%s", bc.Binding, g4OptStr(bc.FromVersion), g4OptStr(bc.ToVersion))
	}
	e.c.Op(fmt.Sprintf("mk conversion %s %s %d %d", o.Name, uid, i, r), ans)
	e.c.Note("ctx:conversion")
	if len(o.rules()) > 1 {
		e.c.Note(fmt.Sprintf("conversion:rule-%d-of-%d", r+1, len(o.rules())))
	}
}

// mkConversions: one request for every rule of the i-th `ob` binding, in the given order of rules.
func (e *c09Env) mkConversions(i int, uid *int, reverse bool) {
	n := len(e.spec.Others[i].rules())
	for k := 0; k < n; k++ {
		r := k
		if reverse {
			r = n - 1 - k
		}
		*uid++
		e.mkConversion(i, r, fmt.Sprintf("uid-%d", *uid))
	}
}

// g4CanonContexts: parse the file, replace review objects by their uid, print canonically.
func g4CanonContexts(data []byte) string {
	var v any
	if err := json.Unmarshal(data, &v); err != nil {
		return "not-json"
	}
	arr, ok := v.([]any)
	if !ok {
		return "not-an-array"
	}
	for _, it := range arr {
		m, ok := it.(map[string]any)
		if !ok {
			continue
		}
		if rv, has := m["review"]; has {
			uid := "?"
			if rm, ok := rv.(map[string]any); ok {
				if req, ok := rm["request"].(map[string]any); ok {
					if u, ok := req["uid"].(string); ok {
						uid = u
					}
				}
			}
			m["review"] = "review:" + uid
		}
	}
	return g4CanonJSON(arr)
}

// run renders the contexts with the given indices as one hook run would.
func (e *c09Env) run(idx []int) {
	var list []bctx.BindingContext
	for _, i := range idx {
		list = append(list, e.ctxs[i])
	}
	bt := htypes.OnKubernetesEvent
	if len(idx) > 0 {
		bt = e.btypes[idx[0]]
	}
	e.runs++
	ans := Catch(func() string {
		if e.runs%4 == 0 {
			fresh := e.hc.UpdateSnapshots(list)
			data, err := bctx.ConvertBindingContextList(e.h.Config.Version, fresh).Json()
			if err != nil {
				return "err"
			}
			e.c.Note("render:Json()")
			return "json=" + g4CanonContexts(data)
		}
		out := e.h.Path + ".out"
		_ = os.Remove(out)
		if _, err := e.h.Run(bt, list, map[string]string{}); err != nil {
			return "err " + firstLine(err.Error())
		}
		data, err := os.ReadFile(out)
		if err != nil {
			return "no-file"
		}
		e.c.Note("render:file-read-by-bash-hook")
		return "json=" + g4CanonContexts(data)
	})
	e.c.Op("run "+joinInts(idx), ans)
	if strings.HasPrefix(ans, "json=") {
		e.c.Oracle("run " + joinInts(idx) + " " + strings.TrimPrefix(ans, "json="))
		// the clause "`snapshots` is present exactly when the binding includes snapshots", item by item
		var items []map[string]any
		if json.Unmarshal([]byte(strings.TrimPrefix(ans, "json=")), &items) == nil {
			bits := make([]int, len(items))
			for i, it := range items {
				if _, has := it["snapshots"]; has {
					bits[i] = 1
				}
			}
			e.c.Oracle("snapshots " + joinInts(idx) + " " + joinInts(bits))
			// the keys of `snapshots`, item by item: the binding's own includeSnapshotsFrom plus the kubernetes
			// bindings of its group (`!` = no `snapshots`, `-` = an empty object)
			keys := make([]string, len(items))
			for i, it := range items {
				sn, has := it["snapshots"]
				if !has {
					keys[i] = "!"
					continue
				}
				var ks []string
				if m, ok := sn.(map[string]any); ok {
					for k := range m {
						ks = append(ks, k)
					}
				} else {
					ks = []string{"not-an-object"}
				}
				sort.Strings(ks)
				keys[i] = joinStrs(ks)
			}
			e.c.Oracle("snapkeys " + joinInts(idx) + " " + strings.Join(keys, "|"))
			// the clause "filterResult equal to the jq result for that very object", on every element that shows
			// its object (Event item, objects[i], snapshot elements): [binding, object(, filterResult)] as shown
			if fr := c09ShownPairs(items); len(fr) > 0 && !c09SameNames(e.spec) {
				e.c.Oracle("fr " + g4CanonJSON(fr))
				e.c.Note("oracle:fr")
			}
		}
	} else {
		e.c.Oracle("run " + joinInts(idx) + " " + strings.Fields(ans)[0])
	}
}

// c09ShownPairs collects, from the items of a rendered file, every element that shows a full object:
// [name of the kubernetes binding it is seen through, the object, the filterResult next to it (if any)].
func c09ShownPairs(items []map[string]any) []any {
	out := []any{}
	elem := func(binding string, v any) {
		m, ok := v.(map[string]any)
		if !ok {
			return
		}
		obj, has := m["object"]
		if !has || obj == nil {
			return
		}
		t := []any{binding, obj}
		if fr, has := m["filterResult"]; has {
			t = append(t, fr)
		}
		out = append(out, t)
	}
	for _, it := range items {
		b, _ := it["binding"].(string)
		if it["type"] == "Event" {
			elem(b, it)
		}
		if objs, ok := it["objects"].([]any); ok {
			for _, o := range objs {
				elem(b, o)
			}
		}
		if sn, ok := it["snapshots"].(map[string]any); ok {
			for _, k := range g4SortedKeys(sn) {
				if objs, ok := sn[k].([]any); ok {
					for _, o := range objs {
						elem(k, o)
					}
				}
			}
		}
	}
	return out
}

// ---- strings whose content is itself a JSON text (a jq result "3" must stay the string "3")
var c09JSONLooking = []string{"3", "-2", "true", "false", "null", "{\"a\":1}", "[1]", "\"x\"", "0"}

// the leaves of generated objects that are not metadata (values of any type)
var c09ValueLeaves = [][]string{{"spec", "replicas"}, {"spec", "a"}, {"spec", "b", "c"}, {"status", "x"}, {"data", "k"}}

// c09Spice: every third object gets one or two leaves holding a JSON-looking string.
func c09Spice(rng *Rng, o map[string]any) map[string]any {
	if !rng.Chance(35) {
		return o
	}
	for n := rng.Range(1, 2); n > 0; n-- {
		g4SetPath(o, PickOne(rng, c09ValueLeaves), PickOne(rng, c09JSONLooking))
	}
	if rng.Chance(25) {
		g4SetPath(o, []string{"metadata", "labels", "l"}, PickOne(rng, []string{"true", "1", "null"}))
	}
	return o
}

func c09Object(rng *Rng, ns, name string) map[string]any {
	return c09Meta(rng, c09Spice(rng, g4GenObject(rng, ns, name)))
}

// ---- what an API server (and other controllers) put into an object and hardly any filter reads:
// metadata.managedFields, annotations (kubectl's last-applied-configuration: a JSON text), ownerReferences,
// finalizers, uid / resourceVersion / generation / creationTimestamp. "filterResult is the jq result for
// that very object" speaks about every key of the object: the object the filter sees must be the object
// shown, not a trimmed or normalised copy of it.
var c09Managers = []string{"kubectl-client-side-apply", "helm", "kube-controller-manager", "shell-operator"}

func c09ManagedFields(managers ...string) []any {
	out := []any{}
	for i, m := range managers {
		op := "Update"
		if i%2 == 1 {
			op = "Apply"
		}
		out = append(out, map[string]any{"manager": m, "operation": op, "apiVersion": "v1", "fieldsType": "FieldsV1",
			"time":     fmt.Sprintf("2024-01-0%dT00:00:00Z", i+1),
			"fieldsV1": map[string]any{"f:data": map[string]any{".": map[string]any{}, "f:k": map[string]any{}}, "f:spec": map[string]any{"f:replicas": map[string]any{}}}})
	}
	return out
}

// the keys of metadata c09Meta may set (and the filters of c09MetaPaths read)
var c09MetaKeys = []string{"managedFields", "annotations", "ownerReferences", "finalizers", "uid", "resourceVersion", "generation", "creationTimestamp"}

func c09MetaValue(rng *Rng, key string) any {
	switch key {
	case "managedFields":
		ms := []string{}
		for n := rng.Range(1, 3); n > 0; n-- {
			ms = append(ms, PickOne(rng, c09Managers))
		}
		return c09ManagedFields(ms...)
	case "annotations":
		a := map[string]any{"kubectl.kubernetes.io/last-applied-configuration": PickOne(rng, []string{
			"{\"apiVersion\":\"v1\",\"kind\":\"ConfigMap\"}", "{\"data\":{\"k\": 1}}"})}
		if rng.Bool() {
			a["note"] = PickOne(rng, []string{"a b", "3", "null"})
		}
		return a
	case "ownerReferences":
		return []any{map[string]any{"apiVersion": "apps/v1", "kind": "Deployment", "name": PickOne(rng, []string{"d1", "d2"}),
			"uid": "00000000-0000-0000-0000-00000000000" + PickOne(rng, []string{"1", "2"}), "controller": true}}
	case "finalizers":
		return []any{PickOne(rng, []string{"example.com/hold", "kubernetes"})}
	case "uid":
		return "11111111-2222-3333-4444-00000000000" + PickOne(rng, []string{"1", "2", "3"})
	case "resourceVersion":
		return PickOne(rng, []string{"1", "12", "345"})
	case "generation":
		return int64(rng.Range(1, 4))
	default: // creationTimestamp
		return fmt.Sprintf("2024-02-0%dT10:00:00Z", rng.Range(1, 9))
	}
}

// c09Meta: 60% of the objects carry server-populated metadata (managedFields most often); on an update
// (the keys are there already) some of them are redrawn or dropped - a change no ordinary filter sees.
func c09Meta(rng *Rng, o map[string]any) map[string]any {
	if !rng.Chance(60) {
		return o
	}
	for _, k := range c09MetaKeys {
		p := 30
		if k == "managedFields" {
			p = 75
		}
		if !rng.Chance(p) {
			continue
		}
		if _, has := g4GetPath(o, []string{"metadata", k}); has && rng.Chance(30) {
			g4DelPath(o, []string{"metadata", k})
			continue
		}
		g4SetPath(o, []string{"metadata", k}, c09MetaValue(rng, k))
	}
	return o
}

// filter paths over these keys (none of them indexes into a leaf value: such a filter cannot fail)
var c09MetaPaths = [][]string{{"metadata"}, {"metadata", "managedFields"}, {"metadata", "managedFields"}, {"metadata", "annotations"},
	{"metadata", "ownerReferences"}, {"metadata", "finalizers"}, {"metadata", "uid"}, {"metadata", "resourceVersion"},
	{"metadata", "generation"}, {"metadata", "creationTimestamp"}, {"metadata", "namespace"}, {"kind"}, {"apiVersion"}, {}}

var c09SafeFilterPaths = append(append([][]string{}, g4SafeFilterPaths...), c09MetaPaths...)

// c09ManagedObj: a fixed object as a real cluster shows it.
func c09ManagedObj(ns, name string, replicas int64, managers ...string) map[string]any {
	o := c08Obj(ns, name, replicas, "x", 0)
	meta := o["metadata"].(map[string]any)
	meta["managedFields"] = c09ManagedFields(managers...)
	meta["annotations"] = map[string]any{"kubectl.kubernetes.io/last-applied-configuration": "{\"apiVersion\":\"v1\",\"kind\":\"ConfigMap\"}"}
	meta["ownerReferences"] = []any{map[string]any{"apiVersion": "apps/v1", "kind": "Deployment", "name": "d1", "uid": "u-1", "controller": true}}
	meta["finalizers"] = []any{"example.com/hold"}
	meta["uid"] = "11111111-2222-3333-4444-000000000001"
	meta["resourceVersion"] = fmt.Sprint(10 + replicas)
	meta["generation"] = replicas
	meta["creationTimestamp"] = "2024-02-01T10:00:00Z"
	return o
}

// c09SpiceLits: string literals of a filter become JSON-looking strings (the filter `"3"` yields the string "3").
func c09SpiceLits(rng *Rng, f *jqF) {
	if f == nil {
		return
	}
	if f.Kind == "lit" {
		if _, isStr := f.Lit.(string); isStr && rng.Chance(60) {
			f.Lit = PickOne(rng, c09JSONLooking)
		}
	}
	for _, fl := range f.Fields {
		c09SpiceLits(rng, fl.F)
	}
	for _, it := range f.Items {
		c09SpiceLits(rng, it)
	}
	c09SpiceLits(rng, f.A)
	c09SpiceLits(rng, f.B)
}

// ---- filters that can fail at run time: paths through the leaves spec.replicas / spec.a
// (`.spec.replicas.x` is null for a missing / null / object leaf and a jq error for a number, string,
// boolean or array). The snapshot model needs every cached object to be current and filterable at the
// moment of a render, so a state some binding's filter fails on exists only between two changes:
// it is followed at once — no render in between — by the delete of the object (the Deleted event is
// fired all the same, with a bare result) or by an update to a state every filter accepts.
var c09TrapPaths = [][]string{{"spec", "replicas", "x"}, {"spec", "a", "y"}}

var c09FailingFilterPaths = append(append([][]string{}, c09SafeFilterPaths...), c09TrapPaths...)

// c09Fails: does the jqFilter of some binding watching ns fail on obj (asked of the real applyFilter)?
func c09Fails(spec *c09Spec, ns string, obj map[string]any) bool {
	for _, b := range spec.KBs {
		if b.NS != ns || b.F == nil || !b.MayFail {
			continue
		}
		if _, err := kem.VerifApplyFilterC08(b.F.text(), &unstructured.Unstructured{Object: g4DeepCopyJSON(obj)}); err != nil {
			return true
		}
	}
	return false
}

func c09MayFailIn(spec *c09Spec, ns string) bool {
	for _, b := range spec.KBs {
		if b.NS == ns && b.F != nil && b.MayFail {
			return true
		}
	}
	return false
}

// c09Heal: the trap leaves become something a string key can index (absent / null / object).
func c09Heal(rng *Rng, o map[string]any) map[string]any {
	o = g4DeepCopyJSON(o)
	for _, l := range [][]string{{"spec", "replicas"}, {"spec", "a"}} {
		switch rng.Intn(3) {
		case 0:
			g4DelPath(o, l)
		case 1:
			g4SetPath(o, l, nil)
		default:
			g4SetPath(o, l, map[string]any{"x": int64(rng.Intn(3)), "y": PickOne(rng, []string{"p", "3"})})
		}
	}
	return o
}

// c09Break: one trap leaf becomes a value a string key cannot index.
func c09Break(rng *Rng, o map[string]any) map[string]any {
	o = g4DeepCopyJSON(o)
	var v any
	switch rng.Intn(4) {
	case 0:
		v = int64(rng.Intn(9))
	case 1:
		v = PickOne(rng, []string{"not-a-number", "3", "x"})
	case 2:
		v = rng.Bool()
	default:
		v = []any{int64(1), "p"}
	}
	g4SetPath(o, PickOne(rng, [][]string{{"spec", "replicas"}, {"spec", "a"}}), v)
	return o
}

func c09RawObj(ns, name string, replicas, a any) map[string]any {
	return map[string]any{"apiVersion": "v1", "kind": "ConfigMap",
		"metadata": map[string]any{"name": name, "namespace": ns},
		"spec":     map[string]any{"replicas": replicas, "a": a},
		"status":   map[string]any{"x": int64(0)}}
}

func runC09(r *Run) {
	r.Rule = "per case: one hook configuration (configVersion v1 or v0) rendered as JSON and loaded by the real loader: 1-3 kubernetes bindings (jq filter of the fragment: object/array/scalar/string/null results, string literals and object leaves whose content is itself a JSON text (3, true, null, an object, a quoted string), or none; 30% of the filters read through a leaf value and fail on some object states - such a state never exists before Synchronization and is followed at once, without a render, by the delete of the object (whose Deleted item is rendered) or by an update every filter accepts; 40% of the paths a filter reads are over what a real cluster puts into an object - the whole object, the whole metadata, metadata.managedFields / annotations / ownerReferences / finalizers / uid / resourceVersion / generation / creationTimestamp, kind, apiVersion; keepFullObjectsInMemory on/off; group; includeSnapshotsFrom incl. self-include; executeHookOnEvent subset; one of two namespaces), optional onStartup, 0-3 schedule bindings (each with a crontab of its own; names from a small pool incl. unnamed, so that bindings of one type often share a name while only some of them include snapshots), kubernetesValidating, kubernetesMutating, 0-2 kubernetesCustomResourceConversion bindings (1-3 conversions each, all rules of the hook distinct, versions with or without the API group, mostly one name; a request for one rule or for every rule of a binding in either order, through the real EnableConversionBindings + HandleConversionEvent) with group / includeSnapshotsFrom; every 4th v1 hook in big-group mode: a group of 2-8 (mostly 3, 5, 6, 7) kubernetes bindings among 2-3 outside ones, members of any type naming one or two outside bindings in their own includeSnapshotsFrom; real monitors on kube-client/fake; 60% of the objects carry server-populated metadata (managedFields with 1-3 managers in 75% of them, kubectl last-applied annotation, ownerReferences, finalizers, uid, resourceVersion, generation, creationTimestamp), redrawn or dropped on updates; 0-3 objects before Synchronization, then 2-7 creates/updates/deletes through the dynamic tracker; every Synchronization/Event context the controllers produce plus schedule/admission/conversion/onStartup contexts is rendered alone and in combined arrays (2-4 contexts) through the real Hook.Run (file read back from a real bash hook) or ConvertBindingContextList(...).Json(). After every render, besides the whole-file oracle, every element the file shows together with its full object (Event item, objects[i], snapshot elements) is judged by `oracle fr`: the filterResult shown is the jq result of the binding's jqFilter for the object shown. A case is non-trivial when it renders >= 3 context lists and at least one Event and one snapshot-carrying context; distinct = distinct op-line sequences."

	// ---- corpus: the counterexamples of the repaired defects
	corpus := []struct {
		desc string
		f    *jqF
		keep bool
		v    string
	}{
		{"filterResult of an object-valued filter {r:.spec.replicas}", g4ObjF(g4Fld("r", g4Path("spec", "replicas"))), true, "v1"},
		{"filterResult of a scalar-valued filter .spec.replicas", g4Path("spec", "replicas"), true, "v1"},
		{"filterResult of an array-valued filter, full objects dropped", g4ArrF(g4Path("spec", "replicas"), g4Path("spec", "a")), false, "v1"},
		{"filterResult of a null-valued filter .nope", g4Path("nope"), true, "v1"},
		{"filterResult of a string-valued filter .metadata.name", g4Path("metadata", "name"), true, "v1"},
		{"v0 hook: resourceEvent / resourceNamespace / resourceKind / resourceName", nil, true, "v0"},
	}
	for i, cc := range corpus {
		cc := cc
		r.One(i, func(c *Case, _ *Rng) {
			c.Desc = "corpus: " + cc.desc
			c.Nontrivial = true
			ns := fmt.Sprintf("c09-%d-a", c.Idx)
			spec := &c09Spec{Version: cc.v, KBs: []c09KB{{Name: "k1", NS: ns, F: cc.f, Keep: cc.keep, Inc: []string{"k1"}, V0Events: []string{"add", "update", "delete"}}}}
			if cc.v == "v0" {
				spec.KBs[0].Inc = nil
				spec.KBs[0].Keep = true // v0 has no keepFullObjectsInMemory option: the documented default applies
			}
			e := c09Start(r, c, spec)
			defer e.close()
			if e == nil {
				return
			}
			if !e.change("put", ns, "o1", c08Obj(ns, "o1", 1, "x", 0)) || !e.sync() {
				return
			}
			if cc.v != "v0" {
				e.run([]int{0})
			}
			if !e.change("put", ns, "o1", c08Obj(ns, "o1", 2, "x", 0)) || !e.change("put", ns, "o2", c08Obj(ns, "o2", 5, "y", 1)) {
				return
			}
			for i := 1; i < len(e.ctxs); i++ {
				e.run([]int{i})
			}
			if !e.change("del", ns, "o1", nil) {
				return
			}
			all := []int{}
			for i := range e.ctxs {
				if cc.v == "v0" && i == 0 {
					continue // the Synchronization context is never executed for v0 hooks
				}
				all = append(all, i)
			}
			e.run(all)
		})
	}

	// ---- excluded point of the theorems' well-formedness hypothesis: two bindings of one type with the same name
	//      (two unnamed kubernetes bindings are both called "kubernetes")
	r.One(6, func(c *Case, _ *Rng) {
		c.Desc = "known finding same-name-bindings: two unnamed kubernetes bindings (both named `kubernetes`) watching different namespaces"
		c.Nontrivial = true
		nsA, nsB := fmt.Sprintf("c09-%d-a", c.Idx), fmt.Sprintf("c09-%d-b", c.Idx)
		spec := &c09Spec{Version: "v1", KBs: []c09KB{{Name: "kubernetes", NS: nsA, Keep: true}, {Name: "kubernetes", NS: nsB, Keep: true}}}
		e := c09Start(r, c, spec)
		defer e.close()
		if e == nil {
			return
		}
		if !e.change("put", nsA, "o1", c08Obj(nsA, "o1", 1, "x", 0)) || !e.change("put", nsB, "o2", c08Obj(nsB, "o2", 2, "y", 0)) || !e.sync() {
			return
		}
		e.run([]int{0})
		e.run([]int{1})
	})

	// ---- string-valued jq results whose content is itself a JSON text: "3" stays the string "3"
	//      (in objects[i], in the Event item and in every snapshot element)
	strCorpus := []struct {
		desc string
		f    *jqF
		keep bool
	}{
		{"string-valued filter .spec.a over values whose content is a JSON text (3, true, an object, a quoted string, null)", g4Path("spec", "a"), false},
		{"string literal alternative (.spec.a // \"null\") and a JSON-looking name in an object result",
			g4ObjF(g4Fld("v", g4AltF(g4Path("spec", "a"), &jqF{Kind: "lit", Lit: "null"})), g4Fld("l", &jqF{Kind: "lit", Lit: "3"})), true},
		{"string literal filter \"3\"", &jqF{Kind: "lit", Lit: "3"}, true},
	}
	for i, cc := range strCorpus {
		cc := cc
		r.One(7+i, func(c *Case, _ *Rng) {
			c.Desc = "corpus: " + cc.desc
			c.Nontrivial = true
			ns := fmt.Sprintf("c09-%d-a", c.Idx)
			spec := &c09Spec{Version: "v1", KBs: []c09KB{{Name: "k1", NS: ns, F: cc.f, Keep: cc.keep, Inc: []string{"k1"}}}}
			e := c09Start(r, c, spec)
			defer e.close()
			if e == nil {
				return
			}
			if !e.change("put", ns, "o1", c09RawObj(ns, "o1", int64(1), "3")) || !e.sync() {
				return
			}
			e.run([]int{0})
			ok := e.change("put", ns, "o1", c09RawObj(ns, "o1", int64(1), "true")) &&
				e.change("put", ns, "o2", c09RawObj(ns, "o2", int64(2), "{\"a\":1}")) &&
				e.change("put", ns, "o3", c09RawObj(ns, "o3", int64(3), "\"x\"")) &&
				e.change("put", ns, "o2", c09RawObj(ns, "o2", int64(2), "null")) &&
				e.change("put", ns, "o3", c09RawObj(ns, "o3", int64(3), nil))
			if !ok {
				return
			}
			for i := 1; i < len(e.ctxs); i++ {
				e.run([]int{i})
			}
			if !e.change("del", ns, "o1", nil) {
				return
			}
			all := []int{}
			for i := range e.ctxs {
				all = append(all, i)
			}
			e.run(all)
			c.Note("corpus:json-looking-strings")
		})
	}

	// ---- Deleted after a failing filter: the jqFilter fails on the last state of the object, the
	//      Deleted event is fired all the same ("Delete is always fired") and its item follows the
	//      contract like any other: `object` iff keepFullObjectsInMemory, filterResult null
	failCorpus := []struct {
		desc        string
		v           string
		keep        bool
		types       []kemtypes.WatchEventType
		neverCached bool // the object appears in a failing state (its Added is dropped, it is never cached)
		second      bool // a second binding on the same namespace whose filter never fails
	}{
		{"Deleted after a failing Modified, keepFullObjectsInMemory=false", "v1", false, nil, false, false},
		{"Deleted after a failing Modified, keepFullObjectsInMemory=true", "v1", true, nil, false, false},
		{"Deleted of an object that was never cached (failing Added), executeHookOnEvent=[Deleted], keep=false, second binding", "v1", false,
			[]kemtypes.WatchEventType{kemtypes.WatchEventDeleted}, true, true},
		{"v0 hook: Deleted after a failing Modified", "v0", true, nil, false, false},
	}
	for i, cc := range failCorpus {
		cc := cc
		r.One(10+i, func(c *Case, _ *Rng) {
			c.Desc = "corpus: " + cc.desc
			c.Nontrivial = true
			ns := fmt.Sprintf("c09-%d-a", c.Idx)
			k1 := c09KB{Name: "k1", NS: ns, F: g4Path("spec", "replicas", "x"), Keep: cc.keep, Inc: []string{"k1"}, Types: cc.types,
				V0Events: []string{"add", "update", "delete"}, MayFail: true}
			spec := &c09Spec{Version: cc.v, KBs: []c09KB{k1}}
			if cc.v == "v0" {
				spec.KBs[0].Inc = nil
			}
			if cc.second {
				spec.KBs = append(spec.KBs, c09KB{Name: "k2", NS: ns, F: g4Path("spec", "a"), Keep: true, Inc: []string{"k1", "k2"}})
			}
			e := c09Start(r, c, spec)
			defer e.close()
			if e == nil {
				return
			}
			good := func(name string, x int64) map[string]any {
				return c09RawObj(ns, name, map[string]any{"x": x}, "p")
			}
			if !e.change("put", ns, "o1", good("o1", 1)) || !e.sync() {
				return
			}
			first := 0
			if cc.v == "v0" {
				first = len(e.ctxs) // the Synchronization context is never executed for v0 hooks
			} else {
				e.run([]int{0})
			}
			if !e.change("put", ns, "o2", good("o2", 2)) {
				return
			}
			victim := "o1"
			if cc.neverCached {
				victim = "o3"
			}
			// the failing state and the delete follow each other without a render in between
			if !e.change("put", ns, victim, c09RawObj(ns, victim, int64(5), "not-an-object")) || !e.change("del", ns, victim, nil) {
				return
			}
			c.Note("failing-filter:deleted")
			all := []int{}
			for i := first; i < len(e.ctxs); i++ {
				if i > 0 || cc.v == "v0" {
					e.run([]int{i})
				}
				all = append(all, i)
			}
			e.run(all)
		})
	}

	// ---- bindings of one type sharing a name (every unnamed schedule binding is called "schedule"): the
	//      by-name fallback of UpdateSnapshots fills the Snapshots map of a context whose own include list
	//      is empty from the first binding of that name; `snapshots` must follow the binding's own list
	shared := []struct {
		desc   string
		group  string
		others []c09OtherB
	}{
		{"two unnamed schedule bindings, only the first has includeSnapshotsFrom", "",
			[]c09OtherB{{Kind: "schedule", Name: "schedule", Inc: []string{"k1"}}, {Kind: "schedule", Name: "schedule"}}},
		{"two unnamed schedule bindings, only the second has includeSnapshotsFrom", "",
			[]c09OtherB{{Kind: "schedule", Name: "schedule"}, {Kind: "schedule", Name: "schedule", Inc: []string{"k1"}}}},
		{"two schedule bindings named s1, the first in the group of the kubernetes binding, the second plain", "g1",
			[]c09OtherB{{Kind: "schedule", Name: "s1", Group: "g1"}, {Kind: "schedule", Name: "s1"}, {Kind: "schedule", Name: "s2", Inc: []string{"k1"}}}},
		{"two conversion bindings named conv1 (two rules), only the first has includeSnapshotsFrom", "",
			[]c09OtherB{{Kind: "conversion", Name: "conv1", Inc: []string{"k1"}, From: "v1", To: "v2"}, {Kind: "conversion", Name: "conv1", From: "v2", To: "v3"}}},
	}
	for i, cc := range shared {
		cc := cc
		r.One(14+i, func(c *Case, _ *Rng) {
			c.Desc = "corpus: bindings sharing a name: " + cc.desc
			c.Nontrivial = true
			ns := fmt.Sprintf("c09-%d-a", c.Idx)
			spec := &c09Spec{Version: "v1", KBs: []c09KB{{Name: "k1", NS: ns, Keep: true, Group: cc.group}}, Others: cc.others}
			e := c09Start(r, c, spec)
			defer e.close()
			if e == nil {
				return
			}
			if !e.change("put", ns, "o1", c08Obj(ns, "o1", 1, "x", 0)) || !e.sync() {
				return
			}
			for i, o := range spec.Others {
				if o.Kind == "schedule" {
					e.mkSchedule(i)
				} else {
					e.mkConversion(i, 0, fmt.Sprintf("uid-%d", i))
				}
			}
			if !e.change("put", ns, "o2", c08Obj(ns, "o2", 2, "y", 0)) {
				return
			}
			n := len(e.ctxs)
			for i := 1; i < n; i++ {
				e.run([]int{i})
			}
			// combined arrays in both orders (every 4th render is ConvertBindingContextList(...).Json())
			var fwd, rev []int
			for i := 1; i < n; i++ {
				fwd = append(fwd, i)
				rev = append([]int{i}, rev...)
			}
			e.run(rev)
			e.run(fwd)
			e.run(rev)
			e.run(fwd)
		})
	}

	// ---- conversion bindings with several `conversions`: a request for every rule (not only the last one),
	//      through the real EnableConversionBindings + HandleConversionEvent; the item carries the
	//      fromVersion / toVersion of the rule the hook is run for
	convCorpus := []struct {
		desc   string
		others []c09OtherB
	}{
		{"one conversion binding with three conversions (versions with the API group)",
			[]c09OtherB{{Kind: "conversion", Name: "conv1", Inc: []string{"k1"}, Rules: [][2]string{
				{"stable.example.com/v1alpha1", "stable.example.com/v1beta1"}, {"stable.example.com/v1beta1", "stable.example.com/v1"},
				{"stable.example.com/v1alpha1", "stable.example.com/v1"}}}}},
		{"two conversion bindings with two conversions each, the second in the group of the kubernetes binding",
			[]c09OtherB{{Kind: "conversion", Name: "up", Rules: [][2]string{{"v1", "v2"}, {"v2", "v3"}}},
				{Kind: "conversion", Name: "down", Group: "g1", Rules: [][2]string{{"v3", "v2"}, {"v2", "v1"}}}}},
	}
	for i, cc := range convCorpus {
		cc := cc
		r.One(18+i, func(c *Case, _ *Rng) {
			c.Desc = "corpus: conversion rules: " + cc.desc
			c.Nontrivial = true
			ns := fmt.Sprintf("c09-%d-a", c.Idx)
			spec := &c09Spec{Version: "v1", KBs: []c09KB{{Name: "k1", NS: ns, Keep: true, Group: "g1"}}, Others: cc.others}
			e := c09Start(r, c, spec)
			defer e.close()
			if e == nil {
				return
			}
			if !e.change("put", ns, "o1", c08Obj(ns, "o1", 1, "x", 0)) || !e.sync() {
				return
			}
			uid := 0
			for i := range spec.Others {
				e.mkConversions(i, &uid, false)
			}
			for i := range spec.Others {
				e.mkConversions(i, &uid, true)
			}
			n := len(e.ctxs)
			var fwd, rev []int
			for i := 1; i < n; i++ {
				e.run([]int{i})
				fwd = append(fwd, i)
				rev = append([]int{i}, rev...)
			}
			e.run(fwd)
			e.run(rev)
			c.Note("corpus:conversion-rules")
		})
	}

	// ---- groups of 1..8 kubernetes bindings whose members (kubernetes, schedule, validating, mutating,
	//      conversion bindings) carry different extra includeSnapshotsFrom lists (bindings outside the group):
	//      `snapshots` of every member = its own list + the kubernetes bindings of the group
	r.Cases(120, 16, 8, func(c *Case, _ *Rng) {
		g := (c.Idx-120)%8 + 1
		swap := (c.Idx-120)/8 == 1 // second half: the members' extra lists in the other arrangement
		nsA, nsB := fmt.Sprintf("c09-%d-a", c.Idx), fmt.Sprintf("c09-%d-b", c.Idx)
		c.Desc = fmt.Sprintf("group sweep: %d kubernetes bindings in group g1, members with different extra includeSnapshotsFrom (swap=%v)", g, swap)
		x := []string{"x1", "x2"}
		if swap {
			x = []string{"x2", "x1"}
		}
		spec := &c09Spec{Version: "v1", KBs: []c09KB{{Name: "x1", NS: nsB, Keep: true}, {Name: "x2", NS: nsB, Keep: false, F: g4Path("spec", "replicas")}}}
		for i := 1; i <= g; i++ {
			b := c09KB{Name: fmt.Sprintf("k%d", i), NS: nsA, Keep: i%2 == 1, Group: "g1", Types: []kemtypes.WatchEventType{}}
			switch {
			case i == 1:
				b.Types = nil
				b.Inc = []string{x[0]}
			case i == 2:
				b.Inc = []string{x[1]}
			case i == 4:
				b.Inc = []string{x[1], x[0]}
			}
			spec.KBs = append(spec.KBs, b)
		}
		spec.Others = []c09OtherB{{Kind: "schedule", Name: "s1", Group: "g1", Inc: []string{x[0]}},
			{Kind: "schedule", Name: "s2", Group: "g1", Inc: []string{x[1]}},
			{Kind: "validating", Name: "v1.example.com", Group: "g1", Inc: []string{x[1]}},
			{Kind: "mutating", Name: "m1.example.com", Group: "g1", Inc: []string{x[0]}},
			{Kind: "conversion", Name: "conv1", Group: "g1", Inc: []string{x[1]}, Rules: [][2]string{{"v1", "v2"}, {"v2", "v3"}}},
			{Kind: "schedule", Name: "s3", Group: "g1"}}
		e := c09Start(r, c, spec)
		defer e.close()
		if e == nil {
			return
		}
		ok := e.change("put", nsA, "o1", c08Obj(nsA, "o1", 1, "x", 0)) && e.change("put", nsB, "o2", c08Obj(nsB, "o2", 4, "z", 0)) && e.sync()
		if !ok {
			return
		}
		if !e.change("put", nsA, "o3", c08Obj(nsA, "o3", 2, "y", 0)) {
			return
		}
		uid := 0
		for i, o := range spec.Others {
			uid++
			switch o.Kind {
			case "schedule":
				e.mkSchedule(i)
			case "conversion":
				e.mkConversions(i, &uid, swap)
			default:
				e.mkAdmission(o.Kind, o.Name, fmt.Sprintf("uid-%d", uid))
			}
		}
		all := []int{}
		for i := range e.ctxs {
			e.run([]int{i})
			all = append(all, i)
		}
		e.run(all)
		c.Nontrivial = true
		c.Note(fmt.Sprintf("sweep:group-of-%d", g))
	})

	// ---- the object the filter sees is the object shown: objects as a real cluster shows them (managedFields,
	//      annotations, ownerReferences, finalizers, uid, resourceVersion, generation, creationTimestamp) and filters
	//      over exactly these keys, the whole metadata and the whole object; an update that changes nothing but
	//      metadata.managedFields; 6 filters x keepFullObjectsInMemory
	metaFilters := []*jqF{g4Path(), g4Path("metadata"), g4Path("metadata", "managedFields"),
		g4ObjF(g4Fld("m", g4Path("metadata", "managedFields")), g4Fld("a", g4Path("metadata", "annotations")), g4Fld("n", g4Path("metadata", "name"))),
		g4ArrF(g4Path("metadata", "ownerReferences"), g4Path("metadata", "finalizers"), g4Path("metadata", "resourceVersion"), g4Path("metadata", "generation")),
		g4AltF(g4Path("metadata", "managedFields"), g4Lit("none"))}
	r.Cases(140, 12, 12, func(c *Case, _ *Rng) {
		k := c.Idx - 140
		f, keep := metaFilters[k%6], k/6 == 0
		ns := fmt.Sprintf("c09-%d-a", c.Idx)
		c.Desc = fmt.Sprintf("metadata sweep: filter=%s keep=%v over objects with server-populated metadata", f.text(), keep)
		spec := &c09Spec{Version: "v1",
			KBs: []c09KB{{Name: "k1", NS: ns, F: f, Keep: keep, Inc: []string{"k1", "k2"}},
				{Name: "k2", NS: ns, F: g4Path("metadata", "managedFields"), Keep: !keep, Types: []kemtypes.WatchEventType{}}},
			Others: []c09OtherB{{Kind: "schedule", Name: "s1", Inc: []string{"k2", "k1"}}}}
		e := c09Start(r, c, spec)
		defer e.close()
		if e == nil {
			return
		}
		ok := e.change("put", ns, "o1", c09ManagedObj(ns, "o1", 1, "kubectl-client-side-apply", "helm")) &&
			e.change("put", ns, "o2", c08Obj(ns, "o2", 2, "y", 0)) && e.sync()
		if !ok {
			return
		}
		e.run([]int{0})
		e.run([]int{1})
		// a new managed object; o1 changes in managedFields only; o2 gets its metadata; the new object goes
		ok = e.change("put", ns, "o3", c09ManagedObj(ns, "o3", 3, "kube-controller-manager")) &&
			e.change("put", ns, "o1", c09ManagedObj(ns, "o1", 1, "helm")) &&
			e.change("put", ns, "o2", c09ManagedObj(ns, "o2", 2, "shell-operator", "helm", "kubectl-client-side-apply")) &&
			e.change("del", ns, "o3", nil)
		if !ok {
			return
		}
		e.mkSchedule(0)
		all := []int{}
		for i := 2; i < len(e.ctxs); i++ {
			e.run([]int{i})
			all = append(all, i)
		}
		e.run(all)
		e.run(append([]int{0, 1}, all...))
		c.Nontrivial = true
		c.Note("sweep:server-metadata")
	})

	// ---- systematic sweep: every combination of the options the contract mentions
	//   version v1: filter result kind (none/object/scalar/array/null/string) x keepFullObjectsInMemory x group x
	//   includeSnapshotsFrom (none / self / the other binding) = 6*2*2*3 = 72 hooks, each with a kubernetes binding,
	//   a second (snapshot-only) binding, a schedule, a validating, a mutating and a conversion binding carrying the
	//   same group / include options, and a fixed script of cluster changes;
	//   version v0: filter kind x event list = 6*4 = 24 hooks.
	filters := []*jqF{nil, g4ObjF(g4Fld("r", g4Path("spec", "replicas")), g4Fld("n", g4Path("metadata", "name"))), g4Path("spec", "replicas"),
		g4ArrF(g4Path("spec", "replicas"), g4Path("spec", "a")), g4Path("nope"), g4Path("metadata", "name")}
	incs := [][]string{nil, {"k1"}, {"k2"}}
	r.Cases(20, 72, 12, func(c *Case, _ *Rng) {
		k := c.Idx - 20
		f := filters[k%6]
		k /= 6
		keep := k%2 == 0
		k /= 2
		group := []string{"", "g1"}[k%2]
		k /= 2
		inc := incs[k%3]
		nsA, nsB := fmt.Sprintf("c09-%d-a", c.Idx), fmt.Sprintf("c09-%d-b", c.Idx)
		c.Desc = fmt.Sprintf("sweep v1: filter=%v keep=%v group=%q inc=%v", f != nil, keep, group, inc)
		spec := &c09Spec{Version: "v1", OnStartup: true,
			KBs: []c09KB{{Name: "k1", NS: nsA, F: f, Keep: keep, Group: group, Inc: inc},
				{Name: "k2", NS: nsB, F: g4Path("spec", "a"), Keep: !keep, Types: []kemtypes.WatchEventType{}}},
			Others: []c09OtherB{{Kind: "schedule", Name: "s1", Group: group, Inc: inc},
				{Kind: "validating", Name: "v1.example.com", Group: group, Inc: inc},
				{Kind: "mutating", Name: "m1.example.com", Group: group, Inc: inc},
				{Kind: "conversion", Name: "conv1", Group: group, Inc: inc, Rules: [][2]string{{"v1", "v2"}, {"v3", "v4"}, {"v1", "v3"}}[:2+c.Idx%2]}}}
		// twins: a second schedule binding called "s1" and a second conversion binding called "conv1" (other
		// crontab / rule), ungrouped, including snapshots exactly when the first one does not; they come
		// before their namesakes when full objects are dropped, after them otherwise
		twinInc := []string{"k2"}
		if inc != nil {
			twinInc = nil
		}
		twinS := c09OtherB{Kind: "schedule", Name: "s1", Inc: twinInc}
		twinC := c09OtherB{Kind: "conversion", Name: "conv1", Inc: twinInc, From: "v2", To: "v3"}
		if keep {
			spec.Others = append(spec.Others, twinS, twinC)
		} else {
			spec.Others = append([]c09OtherB{twinS, twinC}, spec.Others...)
		}
		e := c09Start(r, c, spec)
		defer e.close()
		if e == nil {
			return
		}
		ok := e.change("put", nsA, "o2", c08Obj(nsA, "o2", 1, "x", 0)) && e.change("put", nsB, "o1", c08Obj(nsB, "o1", 4, "z", 0)) && e.sync()
		if !ok {
			return
		}
		e.mkOnStartup()
		ok = e.change("put", nsA, "o1", c08Obj(nsA, "o1", 2, []any{int64(1), "p"}, 0)) &&
			e.change("put", nsA, "o2", c08Obj(nsA, "o2", 3, "x", 0)) && e.change("del", nsA, "o1", nil)
		if !ok {
			return
		}
		uid := 0
		for i, o := range spec.Others {
			uid++
			switch o.Kind {
			case "schedule":
				e.mkSchedule(i)
			case "conversion":
				// a request for every rule of the binding; last rule first when full objects are dropped
				e.mkConversions(i, &uid, !keep)
			default:
				e.mkAdmission(o.Kind, o.Name, fmt.Sprintf("uid-%d", uid))
			}
		}
		for i := range e.ctxs {
			e.run([]int{i})
		}
		all := []int{}
		for i := range e.ctxs {
			all = append(all, i)
		}
		e.run(all)
		c.Nontrivial = true
		c.Note("sweep:v1")
	})
	evs := [][]string{{"add", "update", "delete"}, {"add"}, {"update", "delete"}, {"delete"}}
	r.Cases(95, 24, 12, func(c *Case, _ *Rng) {
		k := c.Idx - 95
		f := filters[k%6]
		k /= 6
		ev := evs[k%4]
		nsA := fmt.Sprintf("c09-%d-a", c.Idx)
		c.Desc = fmt.Sprintf("sweep v0: filter=%v event=%v", f != nil, ev)
		spec := &c09Spec{Version: "v0", OnStartup: true, KBs: []c09KB{{Name: "k1", NS: nsA, F: f, Keep: true, V0Events: ev}},
			Others: []c09OtherB{{Kind: "schedule", Name: "s1"}}}
		e := c09Start(r, c, spec)
		defer e.close()
		if e == nil {
			return
		}
		if !e.change("put", nsA, "o2", c08Obj(nsA, "o2", 1, "x", 0)) || !e.sync() {
			return
		}
		e.mkOnStartup()
		ok := e.change("put", nsA, "o1", c08Obj(nsA, "o1", 2, "y", 0)) && e.change("put", nsA, "o2", c08Obj(nsA, "o2", 3, "x", 0)) &&
			e.change("del", nsA, "o1", nil)
		if !ok {
			return
		}
		e.mkSchedule(0)
		var all []int
		for i := range e.ctxs {
			if e.ctxs[i].Type == kemtypes.TypeSynchronization {
				continue
			}
			e.run([]int{i})
			all = append(all, i)
		}
		e.run(all)
		c.Nontrivial = true
		c.Note("sweep:v0")
	})
	r.Exhaust = true
	r.Extra["exhaustive_scope"] = "option sweep: v1 = 6 filter result kinds x keepFullObjectsInMemory x group x 3 includeSnapshotsFrom shapes (72 hooks with kubernetes/schedule/validating/mutating/conversion/onStartup contexts, the conversion binding with 2 or 3 conversions and a request for every rule, each with a second schedule and a second conversion binding of the same name and the complementary include option, before or after its namesake), v0 = 6 filter kinds x 4 event lists (24 hooks); group sweep = groups of 1..8 kubernetes bindings x 2 arrangements of the members' own includeSnapshotsFrom (16 hooks, every member's context rendered); metadata sweep = 6 filters over server-populated metadata (., .metadata, .metadata.managedFields, object / array / alternative results over managedFields, annotations, ownerReferences, finalizers, resourceVersion, generation) x keepFullObjectsInMemory (12 hooks; objects with and without managedFields, an update that changes managedFields only); the cluster histories are sampled, not enumerated"

	n := r.N(300, 10000)
	r.Cases(200, n, 12, func(c *Case, rng *Rng) { c09Random(r, c, rng) })
}

func c09Perm(rng *Rng, n int) []int {
	p := make([]int, n)
	for i := range p {
		p[i] = i
	}
	rng.Shuffle(n, func(i, j int) { p[i], p[j] = p[j], p[i] })
	return p
}

func c09Random(r *Run, c *Case, rng *Rng) {
	nsA, nsB := fmt.Sprintf("c09-%d-a", c.Idx), fmt.Sprintf("c09-%d-b", c.Idx)
	spec := &c09Spec{Version: "v1"}
	if rng.Chance(15) {
		spec.Version = "v0"
	}
	v0 := spec.Version == "v0"
	spec.OnStartup = rng.Chance(40)
	nkb := rng.Range(1, 3)
	// big-group mode (v1, every 4th hook): one group g1 of 2..8 kubernetes bindings plus 2-3 kubernetes bindings
	// outside it; the members of the group (of any type) mostly name one or two of the outside bindings in
	// their own includeSnapshotsFrom, so that members of one group have different effective lists
	bigGroup, inGroup, outside := !v0 && rng.Chance(25), map[string]bool{}, []string{}
	if bigGroup {
		gsize := PickOne(rng, []int{3, 3, 5, 6, 7, 2, 4, 8})
		nkb = gsize + rng.Range(2, 3)
		for _, i := range c09Perm(rng, nkb)[:gsize] {
			inGroup[fmt.Sprintf("k%d", i+1)] = true
		}
		c.Note(fmt.Sprintf("big-group:%d", gsize))
	}
	kbNames := []string{"k1", "k2", "k3", "k4", "k5", "k6", "k7", "k8", "k9", "k10", "k11"}[:nkb]
	for _, n := range kbNames {
		if !inGroup[n] {
			outside = append(outside, n)
		}
	}
	groups := []string{"", "", "g1", "g2"}
	if bigGroup {
		groups = []string{"g1", "g1", "g1", ""}
	}
	pickInc := func() []string {
		var inc []string
		if v0 {
			return nil
		}
		if bigGroup {
			switch k := rng.Intn(100); {
			case k < 60:
				inc = []string{PickOne(rng, outside)}
			case k < 75:
				p := c09Perm(rng, len(outside))
				inc = []string{outside[p[0]], outside[p[1]]}
			case k < 85:
				inc = []string{PickOne(rng, kbNames), PickOne(rng, outside)}
			}
			return inc
		}
		for _, n := range kbNames {
			if rng.Chance(35) {
				inc = append(inc, n)
			}
		}
		return inc
	}
	for _, nm := range kbNames {
		b := c09KB{Name: nm, NS: nsA, Keep: rng.Chance(60)}
		if rng.Chance(35) {
			b.NS = nsB
		}
		if rng.Chance(75) {
			if rng.Chance(30) {
				b.F, b.MayFail = g4GenProg(rng, 2, c09FailingFilterPaths), true
			} else {
				b.F = g4GenProg(rng, 2, c09SafeFilterPaths)
			}
			c09SpiceLits(rng, b.F)
		}
		if v0 {
			b.Keep = true // v0 has no keepFullObjectsInMemory option: the documented default applies
			for _, ev := range []string{"add", "update", "delete"} {
				if rng.Chance(75) {
					b.V0Events = append(b.V0Events, ev)
				}
			}
			if b.V0Events == nil {
				b.V0Events = []string{"add"}
			}
		} else {
			b.Group = PickOne(rng, groups)
			if bigGroup {
				b.Group = ""
				if inGroup[nm] {
					b.Group = "g1"
				}
			}
			b.Inc = pickInc()
			if rng.Chance(50) {
				b.Types = g4SubsetTypes(rng.Intn(8))
			}
			if bigGroup && rng.Chance(70) {
				b.Types = []kemtypes.WatchEventType{} // many bindings: most of them snapshot-only
			}
		}
		spec.KBs = append(spec.KBs, b)
	}
	// 0-3 schedule bindings; names are drawn from a small pool so that bindings often share one (an unnamed
	// binding is called "schedule"): legal, each context carries the include list of its own binding
	nSch := 0
	if rng.Chance(65) {
		nSch = 1
		if rng.Chance(45) {
			nSch = 2
			if rng.Chance(35) {
				nSch = 3
			}
		}
	}
	for j := 0; j < nSch; j++ {
		o := c09OtherB{Kind: "schedule", Name: PickOne(rng, []string{"s1", "s1", "s1", "schedule", "schedule", "s2"})}
		if !v0 {
			o.Group, o.Inc = PickOne(rng, groups), pickInc()
		}
		spec.Others = append(spec.Others, o)
	}
	if !v0 {
		if rng.Chance(40) {
			spec.Others = append(spec.Others, c09OtherB{Kind: "validating", Name: "v1.example.com", Group: PickOne(rng, groups), Inc: pickInc()})
		}
		if rng.Chance(30) {
			spec.Others = append(spec.Others, c09OtherB{Kind: "mutating", Name: "m1.example.com", Group: PickOne(rng, groups), Inc: pickInc()})
		}
		if rng.Chance(35) {
			// every conversion binding has 1-3 `conversions`; all rules of the hook are distinct (the links of the
			// controller are keyed by CRD and rule); versions with or without the API group
			pool := [][2]string{{"v1alpha1", "v1beta1"}, {"v1beta1", "v1"}, {"v1alpha1", "v1"}, {"v1", "v1beta1"},
				{"stable.example.com/v1alpha1", "stable.example.com/v1beta1"}, {"stable.example.com/v1beta1", "stable.example.com/v1"}}
			perm := c09Perm(rng, len(pool))
			take := func() [][2]string {
				n := PickOne(rng, []int{1, 2, 2, 3})
				var rs [][2]string
				for ; n > 0; n-- {
					rs = append(rs, pool[perm[0]])
					perm = perm[1:]
				}
				return rs
			}
			spec.Others = append(spec.Others, c09OtherB{Kind: "conversion", Name: "conv1", Group: PickOne(rng, groups), Inc: pickInc(), Rules: take()})
			if rng.Chance(40) { // a second conversion binding (other rules of the same CRD), mostly under the same name
				spec.Others = append(spec.Others, c09OtherB{Kind: "conversion", Name: PickOne(rng, []string{"conv1", "conv1", "conv2"}),
					Group: PickOne(rng, groups), Inc: pickInc(), Rules: take()})
			}
		}
	}
	e := c09Start(r, c, spec)
	defer e.close()
	if e == nil {
		return
	}
	objNames := []string{"o1", "o2", "o3"}
	state := map[string]map[string]any{}
	key := func(ns, n string) string { return ns + "/" + n }
	for i := rng.Intn(4); i > 0; i-- {
		ns, nm := PickOne(rng, []string{nsA, nsA, nsB}), PickOne(rng, objNames)
		if state[key(ns, nm)] != nil {
			continue
		}
		o := c09Object(rng, ns, nm)
		if c09Fails(spec, ns, o) {
			o = c09Heal(rng, o) // loadExistedObjects gives up on an object its filter fails on
			if c09Fails(spec, ns, o) {
				continue
			}
		}
		state[key(ns, nm)] = o
		if !e.change("put", ns, nm, o) {
			return
		}
	}
	if !e.sync() {
		return
	}
	renders, rendered := 0, map[int]bool{}
	renderNew := func() {
		for i := range e.ctxs {
			if v0 && e.ctxs[i].Type == kemtypes.TypeSynchronization {
				continue // never executed for v0 hooks (executeHookOnSynchronization is off in the v0 loader)
			}
			if !rendered[i] && rng.Chance(70) {
				rendered[i] = true
				e.run([]int{i})
				renders++
			}
		}
	}
	renderNew()
	if spec.OnStartup {
		e.mkOnStartup()
	}
	steps := rng.Range(2, 7)
	uid := 0
	for i := 0; i < steps; i++ {
		k := rng.Intn(100)
		switch {
		case k < 60:
			ns, nm := PickOne(rng, []string{nsA, nsA, nsB}), PickOne(rng, objNames)
			cur := state[key(ns, nm)]
			var o map[string]any
			switch {
			case cur == nil:
				o = c09Object(rng, ns, nm)
			case rng.Chance(25):
				delete(state, key(ns, nm))
				if !e.change("del", ns, nm, nil) {
					return
				}
			default:
				o = c09Meta(rng, c09Spice(rng, c08Mutate(rng, cur, nil, "any")))
			}
			if o == nil {
				break
			}
			if c09MayFailIn(spec, ns) && rng.Chance(40) {
				o = c09Break(rng, o)
			}
			if !e.change("put", ns, nm, o) {
				return
			}
			state[key(ns, nm)] = o
			if c09Fails(spec, ns, o) {
				// some binding's filter fails on this state: Added/Modified are dropped by that binding (the
				// object is missing from / stale in its snapshot). No render now; the object is deleted at
				// once (Deleted is fired all the same) or updated to a state every filter accepts.
				if rng.Chance(70) {
					delete(state, key(ns, nm))
					if !e.change("del", ns, nm, nil) {
						return
					}
					c.Note("failing-filter:deleted")
				} else {
					h := c09Heal(rng, o)
					if c09Fails(spec, ns, h) {
						c.Inconcl = "no state every filter accepts"
						return
					}
					state[key(ns, nm)] = h
					if !e.change("put", ns, nm, h) {
						return
					}
					c.Note("failing-filter:healed")
				}
			}
		case k < 75:
			for i, o := range spec.Others {
				if o.Kind == "schedule" {
					e.mkSchedule(i)
				}
			}
		default:
			for i, o := range spec.Others {
				uid++
				switch o.Kind {
				case "validating", "mutating":
					e.mkAdmission(o.Kind, o.Name, fmt.Sprintf("uid-%d", uid))
				case "conversion":
					// a request for one rule of the binding, or for every rule (in either order)
					if n := len(o.rules()); rng.Chance(50) {
						e.mkConversion(i, rng.Intn(n), fmt.Sprintf("uid-%d", uid))
					} else {
						e.mkConversions(i, &uid, rng.Bool())
					}
				}
			}
		}
		renderNew()
	}
	// combined arrays
	for j := rng.Range(1, 3); j > 0 && len(e.ctxs) >= 2; j-- {
		var idx []int
		for m := rng.Range(2, 4); m > 0; m-- {
			k := rng.Intn(len(e.ctxs))
			if v0 && e.ctxs[k].Type == kemtypes.TypeSynchronization {
				continue
			}
			idx = append(idx, k)
		}
		if len(idx) == 0 {
			continue
		}
		e.run(idx)
		renders++
		c.Note("render:combined")
	}
	hasEvent, hasSnap := false, false
	for _, bc := range e.ctxs {
		if bc.Type == kemtypes.TypeEvent {
			hasEvent = true
		}
		if len(bc.Metadata.IncludeSnapshots) > 0 {
			hasSnap = true
		}
	}
	c.Nontrivial = renders >= 3 && hasEvent && hasSnap
	c.Note("version:" + spec.Version)
}
