package main

// C02, "also after a restart" / "delete-and-recreate, namespaces deleted": a binding's monitor is
// stopped and started again IN PROCESS under the same MonitorId and the same configuration
// (what kubernetesBindingsController.UpdateMonitor does), or a namespace of a
// namespace.labelSelector binding leaves and comes back. Stopping does not wait: every old informer
// leaves the process-wide FactoryStore in a goroutine of its own (resourceInformer.start), so the
// order "old informers cleaned up" / "new informers registered" is free. The harness chooses it:
// the clean-up goroutines are parked at the yield point `informer.cleanup` (key cleanup/<MonitorId>)
// until the new informers are registered (late clean-up), or run undisturbed (early clean-up).
// Whatever the order, the snapshot must follow the cluster afterwards.

import (
	"fmt"
	"strings"
	"sync"
	"time"

	kem "github.com/flant/shell-operator/pkg/kube_events_manager"
	"github.com/flant/shell-operator/pkg/utils/verifsched"
)

type c02Parked struct {
	id   string
	ch   <-chan *verifsched.Arrival
	mu   sync.Mutex
	arr  []*verifsched.Arrival
	stop chan struct{}
	done chan struct{}
}

// c02Park: from now on the clean-up goroutines of the monitor's informers stop before FactoryStore.Stop.
func c02Park(id string) *c02Parked {
	p := &c02Parked{id: id, ch: sched.Subscribe("cleanup/" + id), stop: make(chan struct{}), done: make(chan struct{})}
	go func() {
		defer close(p.done)
		for {
			select {
			case a := <-p.ch:
				p.mu.Lock()
				p.arr = append(p.arr, a)
				p.mu.Unlock()
			case <-p.stop:
				return
			}
		}
	}()
	return p
}

func (p *c02Parked) count() int {
	p.mu.Lock()
	defer p.mu.Unlock()
	return len(p.arr)
}

// waitParked: bounded, nothing is asserted (an informer without a context has no clean-up).
func (p *c02Parked) waitParked(n int, d time.Duration) {
	deadline := time.Now().Add(d)
	for p.count() < n && time.Now().Before(deadline) {
		time.Sleep(time.Millisecond)
	}
}

// release lets the parked clean-ups run and waits (bounded) until each has left FactoryStore.Stop.
func (p *c02Parked) release() int {
	sched.Unsubscribe("cleanup/" + p.id)
	close(p.stop)
	<-p.done
	for more := true; more; {
		select {
		case a := <-p.ch:
			p.arr = append(p.arr, a)
		default:
			more = false
		}
	}
	// a goroutine that had looked the subscription up before it was removed still arrives: let it pass
	go func() {
		for {
			select {
			case a := <-p.ch:
				a.Release()
			case <-time.After(60 * time.Second):
				return
			}
		}
	}()
	doneCh := sched.Subscribe("cleanup-done/" + p.id)
	for _, a := range p.arr {
		a.Release()
	}
	deadline := time.After(10 * time.Second)
	got := 0
	for got < len(p.arr) {
		select {
		case a := <-doneCh:
			a.Release()
			got++
		case <-deadline:
			got = len(p.arr) + 1
		}
	}
	sched.Unsubscribe("cleanup-done/" + p.id)
	go func() {
		for {
			select {
			case a := <-doneCh:
				a.Release()
			case <-time.After(60 * time.Second):
				return
			}
		}
	}()
	return len(p.arr)
}

func c02Order(late bool) string {
	if late {
		return "after-new-registration"
	}
	return "free"
}

func c02InformerCount(m *c02Mon) int {
	return len(kem.VerifC02Describe(m.mgr.GetMonitor(m.id)))
}

// restartInProcess: StopMonitor, then AddMonitor + StartMonitor with the same MonitorId and the same
// configuration on the same manager. late: the old informers' clean-up runs after the new
// informers are registered.
func (e *c02Env) restartInProcess(m *c02Mon, late bool) bool {
	var p *c02Parked
	n := c02InformerCount(m)
	if late {
		p = c02Park(m.id)
	}
	old := m.mgr.GetMonitor(m.id)
	e.c.Op(fmt.Sprintf("cleanup %s %d", c02Order(late), m.spec.id), "ok")
	_ = m.mgr.StopMonitor(m.id)
	e.c.Op(fmt.Sprintf("stop %d", m.spec.id), "ok")
	e.setActive(nil)
	if late {
		p.waitParked(n, 3*time.Second)
	} else {
		// early: wait (bounded) until the old handlers have left the shared informers
		deadline := time.Now().Add(5 * time.Second)
		for time.Now().Before(deadline) {
			left := false
			for _, inf := range kem.VerifC02Describe(old) {
				if inf.Registered {
					left = true
				}
			}
			if !left {
				break
			}
			time.Sleep(time.Millisecond)
		}
	}
	e.c.Op(m.spec.line(), "ok")
	ok := e.add(m)
	if ok {
		e.start(m)
		e.setActive([]*c02Mon{m})
	}
	if late {
		if p.release() > 0 {
			e.c.Note("restart:clean-up-of-the-old-informers-after-the-new-ones-registered")
		}
	}
	return ok
}

// nsBounce: a namespace matching the binding's namespace.labelSelector leaves (unlabelled, or deleted
// with its objects) and comes back; late as above (the varying informers of the namespace).
func (e *c02Env) nsBounce(h *c02Hist, m *c02Mon, ns int, late bool) {
	var p *c02Parked
	n := 0
	for _, inf := range kem.VerifC02Describe(m.mgr.GetMonitor(m.id)) {
		if inf.Varying && inf.Namespace == c02Namespaces[ns-1] {
			n++
		}
	}
	if late {
		p = c02Park(m.id)
	}
	h.nsOps += 2
	e.c.Op(fmt.Sprintf("cleanup %s %d", c02Order(late), m.spec.id), "ok")
	if h.rng.Bool() {
		e.nsSetOp(ns, 0)
	} else {
		e.nsDelOp(ns)
	}
	if late {
		p.waitParked(n, 3*time.Second)
	}
	e.nsSetOp(ns, 1)
	if late {
		if p.release() > 0 {
			e.c.Note("restart:clean-up-of-a-left-namespace-after-it-came-back")
		}
	}
}

func c02RestartCase(c *Case, rng *Rng) {
	rng = NewRng(rng.U64() ^ 0x7f4a7c15) // the lib derives neighbouring cases from shifted copies of one stream
	kem.DefaultSyncTime = time.Millisecond
	e := &c02Env{c: c, cl: newC02Cluster(c.Idx)}
	defer e.setActive(nil)
	c.Op(c02RidLine(), "ok")
	h := &c02Hist{e: e, rng: rng, deleted: map[c02Key]bool{}}
	spec := c02RandSpec(rng, 1)
	if rng.Chance(40) {
		spec.nsSel = true // namespace.labelSelector bindings: the namespace variant applies
	}
	h.seedWorld(spec.kind)
	if spec.nsSel {
		// at least one matching namespace with an object of the kind
		ns := rng.Range(1, 4)
		e.op(e.cl.nsSet(ns, 1))
		h.creates++
		e.op(e.cl.set(c02Key{ns: ns, kind: spec.kind, name: rng.Range(1, 4)}, c02Val{a: rng.Range(1, 9), b: rng.Range(1, 9), lbl: 1}))
	}
	m := e.newMon(spec)
	defer e.stop(m)
	if !e.add(m) {
		return
	}
	e.start(m)
	e.setActive([]*c02Mon{m})
	ok := e.snap(m)
	restarts, bounces, lates := 0, 0, 0
	for round := rng.Range(1, 3); ok && round > 0; round-- {
		for j := rng.Range(0, 2); j > 0; j-- {
			h.randomOp(spec.kind, false)
		}
		if ok = e.snap(m); !ok {
			break
		}
		late := rng.Chance(65)
		var matching []int
		if spec.nsSel {
			matching = e.expectedVarying(spec)
		}
		if len(matching) > 0 && rng.Chance(50) {
			e.nsBounce(h, m, PickOne(rng, matching), late)
			bounces++
		} else {
			if !e.restartInProcess(m, late) {
				return
			}
			restarts++
		}
		if late {
			lates++
		}
		// right after the restart the snapshot comes from the initial list; what tells is the history
		// that follows: creations, modifications, deletions
		if ok = e.snap(m); !ok {
			break
		}
		for j := rng.Range(2, 4); j > 0; j-- {
			h.randomOp(spec.kind, false)
		}
		ok = e.snap(m)
	}
	c.Nontrivial = h.creates >= 2 && restarts+bounces >= 1
	c.Note("restart")
	if restarts > 0 {
		c.Note("restart:in-process-same-monitor-id")
	}
	if bounces > 0 {
		c.Note("restart:namespace-left-and-came-back")
	}
	if lates > 0 {
		c.Note("restart:late-clean-up-chosen")
	}
	for _, b := range strings.Split(spec.bucket(), "+") {
		c.Note("cfg:" + b)
	}
	c.Desc = fmt.Sprintf("restart: monitor %s, %d in-process restarts, %d namespace bounces (%d with late clean-up), %d creates %d mods %d deletes", spec.bucket(), restarts, bounces, lates, h.creates, h.mods, h.deletes)
}
