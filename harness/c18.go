package main

// C18 — the real rate.Limiter built by the real hook.CreateRateLimiter, driven with explicit times;
// settings through the real config loader; thorough: a wall-clock run through Hook.RateLimitWait.

import (
	"bytes"
	"context"
	"encoding/json"
	"fmt"
	"math"
	"net/http"
	"net/http/httptest"
	"os"
	"path/filepath"
	"sort"
	"strings"
	"sync"
	"time"

	"golang.org/x/time/rate"

	"github.com/deckhouse/deckhouse/pkg/log"

	"github.com/flant/shell-operator/pkg/hook"
	bindingcontext "github.com/flant/shell-operator/pkg/hook/binding_context"
	"github.com/flant/shell-operator/pkg/hook/config"
	"github.com/flant/shell-operator/pkg/hook/task_metadata"
	htypes "github.com/flant/shell-operator/pkg/hook/types"
	kemtypes "github.com/flant/shell-operator/pkg/kube_events_manager/types"
	metricstorage "github.com/flant/shell-operator/pkg/metric_storage"
	shell_operator "github.com/flant/shell-operator/pkg/shell-operator"
	"github.com/flant/shell-operator/pkg/task"
	"github.com/flant/shell-operator/pkg/utils/string_helper"
	"github.com/flant/shell-operator/pkg/webhook/admission"
)

func init() { suites["c18"] = runC18 }

var c18Base = time.Unix(1_700_000_000, 0)

func c18LimLine(lim *rate.Limiter) string {
	if lim.Limit() == rate.Inf {
		return fmt.Sprintf("inf=1 I=0 B=%d", lim.Burst())
	}
	i := int64(math.Round(1e9 / float64(lim.Limit())))
	return fmt.Sprintf("inf=0 I=%d B=%d", i, lim.Burst())
}

func joinI64(xs []int64) string {
	if len(xs) == 0 {
		return "-"
	}
	ss := make([]string, len(xs))
	for i, x := range xs {
		ss[i] = fmt.Sprint(x)
	}
	return strings.Join(ss, ",")
}

// c18Arrivals generates request times (ns from the base, on a millisecond grid, non-decreasing).
func c18Arrivals(rng *Rng, iv time.Duration, n int) ([]int64, string) {
	ims := int64(iv / time.Millisecond)
	if ims < 1 {
		ims = 1
	}
	var ts []int64
	t := int64(rng.Intn(50))
	pat := PickOne(rng, []string{"burst", "steady-fast", "steady-slow", "steady-exact", "mixed", "bursts-with-gaps", "random"})
	for len(ts) < n {
		switch pat {
		case "burst":
			ts = append(ts, t)
		case "steady-fast":
			ts = append(ts, t)
			t += 1 + int64(rng.Intn(int(ims/3+1)))
		case "steady-slow":
			ts = append(ts, t)
			t += ims + int64(rng.Intn(int(ims+1)))
		case "steady-exact":
			ts = append(ts, t)
			t += ims
		case "bursts-with-gaps":
			k := rng.Range(1, 8)
			for j := 0; j < k && len(ts) < n; j++ {
				ts = append(ts, t)
			}
			t += int64(rng.Intn(int(4*ims + 1)))
		case "mixed":
			ts = append(ts, t)
			switch rng.Intn(4) {
			case 0:
			case 1:
				t += int64(rng.Intn(int(ims + 1)))
			case 2:
				t += ims
			case 3:
				t += int64(rng.Intn(int(6*ims + 1)))
			}
		default:
			ts = append(ts, t)
			t += int64(rng.Intn(int(2*ims + 2)))
		}
	}
	for i := range ts {
		ts[i] *= int64(time.Millisecond)
	}
	return ts, pat
}

// c18Kinds are the binding kinds of a hook configuration: three queued ones and the three webhooks
// (executed on request, outside the queues).
var c18Kinds = []string{"onStartup", "schedule", "kubernetes", "validating", "mutating", "conversion"}

func c18Has(xs []string, x string) bool {
	for _, y := range xs {
		if y == x {
			return true
		}
	}
	return false
}

func c18RandomKinds(rng *Rng) []string {
	var ks []string
	for _, k := range c18Kinds {
		if rng.Chance(35) {
			ks = append(ks, k)
		}
	}
	if len(ks) == 0 {
		ks = append(ks, PickOne(rng, c18Kinds))
	}
	return ks
}

// c18WebhookYAML is the configuration block of one webhook binding of hook number hi.
func c18WebhookYAML(kind string, hi int) string {
	switch kind {
	case "validating":
		return fmt.Sprintf("kubernetesValidating:\n- name: %s\n  rules:\n  - operations: [\"CREATE\"]\n    apiGroups: [\"\"]\n    apiVersions: [\"v1\"]\n    resources: [\"pods\"]\n", c18WebhookName(kind, hi))
	case "mutating":
		return fmt.Sprintf("kubernetesMutating:\n- name: %s\n  rules:\n  - operations: [\"CREATE\", \"UPDATE\"]\n    apiGroups: [\"apps\"]\n    apiVersions: [\"v1\"]\n    resources: [\"deployments\"]\n", c18WebhookName(kind, hi))
	case "conversion":
		return fmt.Sprintf("kubernetesCustomResourceConversion:\n- name: %s\n  crdName: crontabs%d.stable.example.com\n  conversions:\n  - fromVersion: v1alpha1\n    toVersion: v1beta1\n", c18WebhookName(kind, hi), hi)
	}
	return ""
}

func c18WebhookName(kind string, hi int) string {
	switch kind {
	case "validating":
		return fmt.Sprintf("v%d.c18.example.com", hi)
	case "mutating":
		return fmt.Sprintf("m%d.c18.example.com", hi)
	}
	return fmt.Sprintf("conv%d", hi)
}

// c18ConfigText: a hook configuration (YAML) with an optional settings block and one binding of
// every listed kind.
func c18ConfigText(settings bool, iv time.Duration, b int, kinds []string) string {
	var sb strings.Builder
	sb.WriteString("configVersion: v1\n")
	if settings {
		fmt.Fprintf(&sb, "settings:\n  executionMinInterval: %s\n  executionBurst: %d\n", iv.String(), b)
	}
	for _, k := range kinds {
		switch k {
		case "onStartup":
			sb.WriteString("onStartup: 5\n")
		case "schedule":
			sb.WriteString("schedule:\n- name: every-minute\n  crontab: \"* * * * *\"\n  queue: ticks\n")
		case "kubernetes":
			sb.WriteString("kubernetes:\n- name: pods\n  kind: Pod\n  queue: pods\n")
		default:
			sb.WriteString(c18WebhookYAML(k, 0))
		}
	}
	return sb.String()
}

// c18LoadHook: what hook.Manager.loadHook does with the `--config` output of a hook.
func c18LoadHook(text string) (*hook.Hook, error) {
	return hook.NewHook("c18.sh", "/nonexistent/c18.sh", false, false, "", log.NewNop()).LoadConfig([]byte(text))
}

func c18Drive(c *Case, lim *rate.Limiter, ts []int64) (grants []int64) {
	for _, t := range ts {
		at := c18Base.Add(time.Duration(t))
		r := lim.ReserveN(at, 1)
		if !r.OK() {
			c.Op(fmt.Sprintf("req t=%d delay=refused", t), "ok")
			continue
		}
		d := int64(r.DelayFrom(at))
		c.Op(fmt.Sprintf("req t=%d delay=%d", t, d), "ok")
		grants = append(grants, t+d)
	}
	return grants
}

func runC18(r *Run) {
	r.CaseTimeout = 120 * time.Second // the operator-level case bounds itself at 50 s and turns inconclusive
	r.Rule = "(a) the rate.Limiter returned by the real CreateRateLimiter for random (I, B) — I from 1 ms to 5 s incl. values that are not a whole number of ms, B from 0 (= default 1) to 10 — driven through ReserveN(t,1).DelayFrom(t) with 20..80 (thorough 100) explicit request times on a millisecond grid in 7 arrival patterns (one burst, faster than I, slower than I, exactly I, bursts with gaps, mixed, random); every delay is compared with the integer model (tolerance 1 us) and the window bound B+ceil(T/I) is checked exactly on the limiter's own grant times for every window; unthrottled configurations (no settings, I = 0, I < 0) must never delay; a few cases with request times going backwards exercise the clamp and are checked against the skew bound B+ceil((T+S)/I). 35 % of these cases take the limiter not from CreateRateLimiter but from a HOOK: the same settings written in a hook configuration together with a random non-empty set of other bindings (onStartup, schedule, kubernetes, kubernetesValidating, kubernetesMutating, kubernetesCustomResourceConversion) and loaded by the real Hook.LoadConfig, whose h.RateLimiter is then driven (op line hookcfg; the bound must hold whatever the other bindings are). (b) settings blocks loaded through the real HookConfig.LoadAndValidate -> CreateRateLimiter -> Limit()/Burst(); (b') corpus: settings + each kind of other binding through Hook.LoadConfig. (c) wall-clock runs (2 quick, 8 thorough) of Hook.RateLimitWait from 1..3 goroutines (queues), start times measured with time.Now(), bound checked with a 40 ms allowance for timer lateness (runtime observation; inconclusive rather than failing when the scheduler was late). (d) ShellOperator.taskHandleHookRun itself (hooks loaded from a generated hooks directory through the real hook manager, `settings` in the hook's --config output) called for queued HookRun tasks from 1..3 goroutines; the hook script logs its own start time; the hook has a random set of other bindings (webhooks included) and every task is for an onStartup, a schedule, a kubernetes event or a kubernetes Synchronization; the bound is checked with a 120 ms allowance for process start-up (2 runs quick, 5 thorough, one of them unthrottled). (e) the operator's queues (7 corpus + 4 quick / 16 thorough runs): 1-2 generated hooks (the first with `settings`, the second with its own settings or none; half of the hooks ALSO have webhook bindings - kubernetesValidating / kubernetesMutating / kubernetesCustomResourceConversion - and 30 % an onStartup binding; for the admission bindings the real initValidatingWebhookManager installs the operator's admission handler and 1-2 admission requests per binding are answered through the real router -> op.taskHandler while the queues work: these executions are not queued and are not counted, the queued ones must keep the bound) with 1-2 schedule bindings in each of 1-3 queues (main and named ones, `queue:` in the hook configuration), schedule events (the real schedule callback of initHookManager) arriving as one burst, a steady stream or at random over ~2.5 intervals and added to the real named queues (NewNamedQueue with the operator's task handler, back-off shortened to 15-40 ms); some bindings FAIL their first 1-3 executions (without allowFailure: the queue retries the task; with allowFailure: no retry), 45 % of the failing ones not with an exit code but because the hook process is KILLED BY A SIGNAL (kill -KILL $$, nothing on stderr - what the OOM killer does); hooks share queues. Every execution START is counted — retries and executions from all queues of the hook — from the time stamps the hook processes write; of each execution the harness knows an interval [lo, hi] containing its grant (lo = the later of: the first event of its binding was queued, the previous execution in the same queue started; hi = its own time stamp), and the bound is checked exactly on every window [lo_i, hi_j] (oracle boundiv; no assumption on process start-up times, S = 0 for a hook living in one queue, 50 ms clock-read skew allowance for several queues). (f) start-up of the WHOLE operator on a fake cluster (3 corpus + 3 quick / 10 thorough runs): one generated hook with `settings` (10 %: without) and 3-6 kubernetes bindings (ConfigMap / Secret / Pod; 15 % of them in a group, 12 % with executeHookOnSynchronization: false, 25 % with a queue of their own), optionally onStartup / schedule / webhook bindings as well; VerifAssembleC01 + VerifStart = the real bootstrapMainQueue, the main queue worker, taskHandleEnableKubernetesBindings (one Synchronization HookRun task per binding, HeadTasks of main) -> taskHandler -> taskHandleHookRun -> Hook.Run, real informers; after the start-up burst 0-4 ConfigMaps are created and the Event executions arrive through ManagerEventsHandler and the bindings' queues. Executions are counted from the hook processes' own first-action time stamps; lo of an execution = the operator's start / the first object creation (Event executions) / the previous execution certainly run by the same queue; oracle boundiv as in (e). (g) the operator's queues again (5 corpus + 4 quick / 14 thorough runs), for the two ends of the quantifier that (e) does not reach: LONG SERIES - one hook with `settings` (I 0.7-1.2 s, B 1-2), 1-2 schedule bindings in each of 1-3 queues; after the burst is spent by single events, 2-3 waves of 150..450 events each (15 %: 600..2000; sometimes split over two bindings of the queue) are queued while the task at the head of the queue waits in RateLimitWait, each wave when a hook process has started since the previous one; the real taskHandleHookRun combines every wave into ONE HookRun task with hundreds of binding contexts; each hook process logs its start time and the number of binding contexts it was given (op line operator-series: the contexts delivered are the events queued); LONG INTERVALS - I from 11 s to 24 h (B 1-3): B+2..B+4 single events, each queued when the queues are empty or 150-300 ms after the previous one, 35 % of the runs with 150..450 events already in the queue when it is started; the interval is not waited out: the run is observed until the queues are empty or 1.2 s after the last event (one corpus run: 12.5 s, longer than any slice a bounded wait might use) and then abandoned (workers stay blocked in Limiter.Wait), and whatever HAS started is checked. Both: oracle boundiv exactly as in (e) on the hook processes' own time stamps. (f') half of the start-up runs that create objects (and corpus runs 23, 24) insert a QUIET PERIOD of B+2..B+4 intervals between the end of the Synchronization burst and the first object (the bucket refills to B and no further), then the events come either side by side (every ConfigMap binding in a queue of its own: one object = one execution per binding) or one by one (each object created when an execution has started since the previous one, so nothing is combined); at the end of every start-up run Limit()/Burst() of the hook's limiter are compared with the settings again (op line hookcfg-after). (h) HOOKS DIRECTORIES (3 corpus + 40 quick / 300 thorough): 2-5 hooks in one directory, loaded by the real hook manager (Manager.Init -> loadHook -> hook --config -> Hook.LoadConfig), whose relative paths are NEAR each other - the same words joined by / - _ . blank -- __ -_, upper / lower / capitalised, sometimes an unrelated name as well - each hook with its own settings (I from 50 ms to 1 h, B 1-5) or none; 30-80 (thorough 120) requests on a millisecond grid in the 7 arrival patterns dealt to the hooks round-robin, in blocks or at random, each through ReserveN(t,1).DelayFrom(t) on the Hook.RateLimiter of its hook; every delay is compared with the model of THAT hook's limiter (op lines hookload / hreq) and the property is checked per hook on its own grant times: oracle bound for a hook with settings, oracle nodelay for a hook without. Non-trivial: >= 20 requests of which at least one was delayed; distinct = distinct op-line sequences."

	// ---- corpus ----
	r.One(0, func(c *Case, _ *Rng) {
		c.Desc = "corpus: no settings => Inf, burst 1, never delays"
		c.Nontrivial = true
		lim := hook.CreateRateLimiter(&config.HookConfig{})
		c.Op("settings i=- b=-", c18LimLine(lim))
		ts := []int64{0, 0, 0, 0, 1e6, 1e6, 5e6}
		g := c18Drive(c, lim, ts)
		c.Oracle(fmt.Sprintf("nodelay reqs=%s starts=%s", joinI64(ts), joinI64(g)))
	})
	r.One(1, func(c *Case, _ *Rng) {
		c.Desc = "corpus: Test_CreateLimiter's three shapes (empty settings, interval only, burst only)"
		c.Nontrivial = true
		for _, s := range []htypes.Settings{{}, {ExecutionMinInterval: 20 * time.Second}, {ExecutionBurst: 3}} {
			s := s
			lim := hook.CreateRateLimiter(&config.HookConfig{Settings: &s})
			c.Op(fmt.Sprintf("settings i=%d b=%d", int64(s.ExecutionMinInterval), s.ExecutionBurst), c18LimLine(lim))
		}
	})

	// ---- (b) settings through the real loader ----
	r.One(2, func(c *Case, _ *Rng) {
		c.Desc = "settings block -> LoadAndValidate -> CreateRateLimiter"
		c.Nontrivial = true
		type sc struct {
			iv string
			b  string
			ns int64
			bn int
		}
		for _, s := range []sc{{"3s", "1", 3e9, 1}, {"100ms", "5", 1e8, 5}, {"1m", "2", 6e10, 2}, {"0s", "4", 0, 4}, {"1.5s", "0", 15e8, 0}} {
			text := fmt.Sprintf("configVersion: v1\nonStartup: 1\nsettings:\n  executionMinInterval: %s\n  executionBurst: %s\n", s.iv, s.b)
			cfg := &config.HookConfig{}
			if err := cfg.LoadAndValidate([]byte(text)); err != nil {
				c.Op(fmt.Sprintf("settings i=%d b=%d", s.ns, s.bn), "load-error")
				c.Note("settings:load-error")
				continue
			}
			lim := hook.CreateRateLimiter(cfg)
			c.Op(fmt.Sprintf("settings i=%d b=%d", s.ns, s.bn), c18LimLine(lim))
			c.Note("settings:loaded")
			// the property for the configured values, on a burst followed by a steady stream
			var ts []int64
			for i := 0; i < 40; i++ {
				t := int64(0)
				if i >= 25 {
					t = int64(i-25) * s.ns / 2
				}
				ts = append(ts, t)
			}
			g := c18Drive(c, lim, ts)
			if s.ns > 0 {
				eb := s.bn
				if eb == 0 {
					eb = 1
				}
				c.Oracle(fmt.Sprintf("bound I=%d B=%d starts=%s", s.ns, eb, joinI64(g)))
			} else {
				c.Oracle(fmt.Sprintf("nodelay reqs=%s starts=%s", joinI64(ts), joinI64(g)))
			}
		}
		cfg := &config.HookConfig{}
		if err := cfg.LoadAndValidate([]byte("configVersion: v1\nonStartup: 1\n")); err == nil {
			c.Op("settings i=- b=-", c18LimLine(hook.CreateRateLimiter(cfg)))
		} else {
			c.Op("settings i=- b=-", "load-error")
		}
	})

	// ---- (b') the hook's own limiter: settings + every kind of other binding through Hook.LoadConfig ----
	r.One(3, func(c *Case, _ *Rng) {
		c.Desc = "settings (I=250ms, B=2) in a hook configuration with each kind of other binding -> Hook.LoadConfig -> the hook's RateLimiter"
		c.Nontrivial = true
		iv, b := 250*time.Millisecond, 2
		for _, kinds := range [][]string{{"schedule"}, {"schedule", "validating"}, {"kubernetes", "mutating"}, {"onStartup", "conversion"},
			{"onStartup", "schedule", "kubernetes", "validating", "mutating", "conversion"}} {
			h, err := c18LoadHook(c18ConfigText(true, iv, b, kinds))
			line := fmt.Sprintf("hookcfg i=%d b=%d binds=%s", int64(iv), b, strings.Join(kinds, "+"))
			if err != nil || h.RateLimiter == nil {
				c.Op(line, "load-error")
				continue
			}
			c.Op(line, c18LimLine(h.RateLimiter))
			var ts []int64
			for i := 0; i < 30; i++ {
				t := int64(0)
				if i >= 15 {
					t = int64(i-15) * int64(iv) / 3
				}
				ts = append(ts, t)
			}
			g := c18Drive(c, h.RateLimiter, ts)
			c.Oracle(fmt.Sprintf("bound I=%d B=%d starts=%s", int64(iv), b, joinI64(g)))
		}
		// no settings: not throttled, whatever the bindings
		h, err := c18LoadHook(c18ConfigText(false, 0, 0, []string{"schedule", "validating"}))
		if err != nil || h.RateLimiter == nil {
			c.Op("hookcfg i=- b=- binds=schedule+validating", "load-error")
			return
		}
		c.Op("hookcfg i=- b=- binds=schedule+validating", c18LimLine(h.RateLimiter))
		ts := []int64{0, 0, 0, 1e6, 1e6}
		g := c18Drive(c, h.RateLimiter, ts)
		c.Oracle(fmt.Sprintf("nodelay reqs=%s starts=%s", joinI64(ts), joinI64(g)))
	})

	// ---- (a) explicit-time differential ----
	intervals := []time.Duration{time.Millisecond, 3 * time.Millisecond, 7 * time.Millisecond, 10 * time.Millisecond, 50 * time.Millisecond,
		100 * time.Millisecond, 333333333 * time.Nanosecond, 250 * time.Millisecond, time.Second, 1500 * time.Millisecond, 3 * time.Second, 5 * time.Second,
		1234567 * time.Nanosecond}
	r.Cases(100, r.N(3000, 20000), 0, func(c *Case, rng *Rng) {
		iv := PickOne(rng, intervals)
		b := PickOne(rng, []int{0, 1, 1, 2, 3, 5, 10})
		unthrottled := rng.Chance(8)
		if unthrottled {
			iv = PickOne(rng, []time.Duration{0, 0, -time.Second})
		}
		s := htypes.Settings{ExecutionMinInterval: iv, ExecutionBurst: b}
		cfg := &config.HookConfig{Settings: &s}
		var lim *rate.Limiter
		if rng.Chance(35) {
			// the same settings written in a hook configuration that has other bindings as well (queued
			// ones and webhooks), loaded the way the hook manager loads it: the real Hook.LoadConfig
			// (LoadAndValidate + whatever it does to the limiter); the limiter is the hook's own
			kinds := c18RandomKinds(rng)
			h, err := c18LoadHook(c18ConfigText(true, iv, b, kinds))
			line := fmt.Sprintf("hookcfg i=%d b=%d binds=%s", int64(iv), b, strings.Join(kinds, "+"))
			if err != nil || h.RateLimiter == nil {
				c.Op(line, "load-error")
				return
			}
			lim = h.RateLimiter
			c.Op(line, c18LimLine(lim))
			c.Note("settings:hook-loaded")
			for _, k := range kinds {
				c.Note("binding:" + k)
			}
		} else {
			lim = hook.CreateRateLimiter(cfg)
			c.Op(fmt.Sprintf("settings i=%d b=%d", int64(iv), b), c18LimLine(lim))
		}
		n := rng.Range(20, r.N(80, 100))
		gi := iv
		if gi <= 0 {
			gi = 10 * time.Millisecond
		}
		ts, pat := c18Arrivals(rng, gi, n)
		backwards := !unthrottled && rng.Chance(5)
		if backwards {
			// a clock that steps back: correspondence of the clamp only, the bound is not claimed
			for i := 3; i < len(ts); i += 7 {
				ts[i] = ts[i-2]
			}
			pat += "+backwards"
		}
		g := c18Drive(c, lim, ts)
		c.Note("pattern:" + pat)
		c.Note(fmt.Sprintf("burst:%d", b))
		delayed := 0
		for i := range g {
			if i < len(ts) && g[i] > ts[i] {
				delayed++
			}
		}
		switch {
		case unthrottled:
			c.Oracle(fmt.Sprintf("nodelay reqs=%s starts=%s", joinI64(ts), joinI64(g)))
			c.Note("kind:unthrottled")
		case backwards:
			eb := b
			if eb == 0 {
				eb = 1
			}
			c.Oracle(fmt.Sprintf("boundskew I=%d B=%d reqs=%s starts=%s", int64(iv), eb, joinI64(ts), joinI64(g)))
			c.Note("kind:backwards-clock")
		default:
			eb := b
			if eb == 0 {
				eb = 1
			}
			c.Oracle(fmt.Sprintf("bound I=%d B=%d starts=%s", int64(iv), eb, joinI64(g)))
			c.Note("kind:throttled")
		}
		c.Nontrivial = n >= 20 && delayed > 0
	})

	{
		// ---- (c) wall clock, through Hook.RateLimitWait (runtime observation) ----
		r.Cases(900000, r.N(2, 8), 2, func(c *Case, rng *Rng) {
			iv := PickOne(rng, []time.Duration{100 * time.Millisecond, 150 * time.Millisecond, 200 * time.Millisecond})
			b := PickOne(rng, []int{1, 2, 3})
			queues := rng.Range(1, 3)
			per := rng.Range(4, 7)
			c.Desc = fmt.Sprintf("wall clock: I=%v B=%d, %d queues x %d executions", iv, b, queues, per)
			s := htypes.Settings{ExecutionMinInterval: iv, ExecutionBurst: b}
			h := &hook.Hook{Name: "c18", Config: &config.HookConfig{Settings: &s}}
			h.RateLimiter = hook.CreateRateLimiter(h.Config)
			c.Op(fmt.Sprintf("settings i=%d b=%d", int64(iv), b), c18LimLine(h.RateLimiter))
			var mu sync.Mutex
			var starts []int64
			var wg sync.WaitGroup
			t0 := time.Now()
			for q := 0; q < queues; q++ {
				wg.Add(1)
				go func() {
					defer wg.Done()
					for i := 0; i < per; i++ {
						ctx, cancel := context.WithTimeout(context.Background(), 30*time.Second)
						err := h.RateLimitWait(ctx)
						cancel()
						if err != nil {
							return
						}
						mu.Lock()
						starts = append(starts, int64(time.Since(t0)))
						mu.Unlock()
					}
				}()
			}
			wg.Wait()
			sort.Slice(starts, func(i, j int) bool { return starts[i] < starts[j] })
			if len(starts) != queues*per {
				c.Inconcl = "RateLimitWait returned an error (context deadline)"
				return
			}
			// A start may lag its grant (timer lateness), never precede it. With lateness <= 40 ms any k
			// intervals between starts still span >= k*(I-40ms), so the bound is checked for the
			// shortened interval (a generous margin). A trace that fails even that but passes for I/4
			// is inconclusive (loaded machine); one that fails for I/4 as well is reported.
			c.Note("kind:wall-clock")
			c.Nontrivial = true
			switch {
			case c18BoundOK(int64(iv-40*time.Millisecond), int64(b), starts):
				c.Oracle(fmt.Sprintf("bound I=%d B=%d starts=%s", int64(iv-40*time.Millisecond), b, joinI64(starts)))
			case !c18BoundOK(int64(iv/4), int64(b), starts):
				c.Oracle(fmt.Sprintf("bound I=%d B=%d starts=%s", int64(iv/4), b, joinI64(starts)))
			default:
				c.Inconcl = "wall-clock starts lag their grants by more than the 40 ms allowance"
			}
		})
	}
	// ---- (d) whole handler: ShellOperator.taskHandleHookRun with a real hook (runtime observation) ----
	r.Cases(950000, r.N(2, 5), 2, func(c *Case, rng *Rng) {
		iv := PickOne(rng, []time.Duration{300 * time.Millisecond, 400 * time.Millisecond})
		b := PickOne(rng, []int{1, 2})
		queues := rng.Range(1, 3)
		per := rng.Range(2, 4)
		throttled := c.Idx != 950003
		// the other bindings of the hook (queued kinds and webhooks) and the kind of event each task is for
		kinds := c18RandomKinds(rng)
		if c.Idx == 950000 && !c18Has(kinds, "validating") {
			kinds = append(kinds, "validating")
		}
		btypes := []htypes.BindingType{htypes.OnStartup, htypes.Schedule, htypes.OnKubernetesEvent}
		c.Desc = fmt.Sprintf("operator: taskHandleHookRun, I=%v B=%d, bindings %s, %d queues x %d HookRun tasks (onStartup / schedule / kubernetes events and Synchronizations), throttled=%v",
			iv, b, strings.Join(kinds, "+"), queues, per, throttled)
		dir := filepath.Join(r.Scratch, fmt.Sprintf("c18-op-%d", c.Idx))
		hooks := filepath.Join(dir, "hooks")
		tmp := filepath.Join(dir, "tmp")
		_ = os.MkdirAll(hooks, 0o755)
		_ = os.MkdirAll(tmp, 0o755)
		defer os.RemoveAll(dir)
		logf := filepath.Join(dir, "starts.log")
		script := "#!/bin/bash\nif [[ \"${1:-}\" == \"--config\" ]]; then\ncat <<'EOF'\n" + c18ConfigText(throttled, iv, b, kinds) + "EOF\n  exit 0\nfi\ndate +%s%N >> " + logf + "\n"
		_ = writeScript(filepath.Join(hooks, "hook.sh"), []byte(script), 0o755)
		op := shell_operator.NewShellOperator(context.Background(), shell_operator.WithLogger(log.NewNop()))
		op.MetricStorage = metricstorage.NewMetricStorage(context.Background(), "", true, log.NewNop())
		op.HookMetricStorage = metricstorage.NewMetricStorage(context.Background(), "", true, log.NewNop())
		if err := op.VerifC18Setup(hooks, tmp); err != nil {
			c.Op("operator-setup", "err "+firstLine(err.Error()))
			return
		}
		h := op.HookManager.GetHook("hook.sh")
		if h == nil {
			c.Op("operator-setup", "hook-not-loaded")
			return
		}
		if throttled {
			c.Op(fmt.Sprintf("hookcfg i=%d b=%d binds=%s", int64(iv), b, strings.Join(kinds, "+")), c18LimLine(h.RateLimiter))
		} else {
			c.Op(fmt.Sprintf("hookcfg i=- b=- binds=%s", strings.Join(kinds, "+")), c18LimLine(h.RateLimiter))
		}
		for _, k := range kinds {
			c.Note("binding:" + k)
		}
		// the event kind of every task, drawn before the goroutines start (all randomness from rng)
		type c18Planned struct {
			bt   htypes.BindingType
			sync bool // a kubernetes Synchronization (as taskHandleEnableKubernetesBindings queues them), not an Event
		}
		plan := make([][]c18Planned, queues)
		for q := range plan {
			for i := 0; i < per; i++ {
				pl := c18Planned{bt: PickOne(rng, btypes)}
				pl.sync = pl.bt == htypes.OnKubernetesEvent && rng.Bool()
				plan[q] = append(plan[q], pl)
			}
		}
		var wg sync.WaitGroup
		var mu sync.Mutex
		var reqs []int64
		bad := ""
		t0 := time.Now()
		for q := 0; q < queues; q++ {
			wg.Add(1)
			go func(q int) {
				defer wg.Done()
				for i := 0; i < per; i++ {
					bt := plan[q][i].bt
					bc := bindingcontext.BindingContext{Binding: string(bt)}
					bc.Metadata.BindingType = bt
					if bt == htypes.OnKubernetesEvent {
						bc.Type = kemtypes.TypeEvent
						bc.WatchEvent = kemtypes.WatchEventAdded
						if plan[q][i].sync {
							bc.Type = kemtypes.TypeSynchronization
							bc.WatchEvent = ""
						}
					}
					t := task.NewTask(task_metadata.HookRun).
						WithQueueName(fmt.Sprintf("q%d", q)).
						WithMetadata(task_metadata.HookMetadata{HookName: "hook.sh", BindingType: bt, Binding: string(bt),
							ExecuteOnSynchronization: plan[q][i].sync,
							BindingContext:           []bindingcontext.BindingContext{bc}}).
						WithQueuedAt(time.Now())
					mu.Lock()
					reqs = append(reqs, int64(time.Since(t0)))
					mu.Unlock()
					res := op.VerifC18HandleHookRun(t)
					if res.Status != "Success" {
						mu.Lock()
						bad = string(res.Status)
						mu.Unlock()
						return
					}
				}
			}(q)
		}
		done := make(chan struct{})
		go func() { wg.Wait(); close(done) }()
		select {
		case <-done:
		case <-time.After(50 * time.Second):
			c.Inconcl = "operator run did not finish in 50 s"
			return
		}
		if bad != "" {
			c.Op(fmt.Sprintf("operator-run expect=%d", queues*per), "task-status-"+bad)
			return
		}
		var starts []int64
		lb, _ := os.ReadFile(logf)
		for _, l := range strings.Fields(string(lb)) {
			var v int64
			if _, err := fmt.Sscan(l, &v); err == nil {
				starts = append(starts, v-t0.UnixNano())
			}
		}
		sort.Slice(starts, func(i, j int) bool { return starts[i] < starts[j] })
		c.Op(fmt.Sprintf("operator-run expect=%d", queues*per), fmt.Sprintf("executions=%d", len(starts)))
		c.Note("kind:operator")
		c.Nontrivial = true
		if len(starts) != queues*per {
			return // the `operator-run` line already differs from the model's answer
		}
		if !throttled {
			// nothing to bound; the run only shows that an unthrottled hook is executed at once
			return
		}
		// every handler call was made at or after its `reqs` entry and its hook process wrote its start
		// at or after the grant: pairing the sorted request times with the sorted starts keeps
		// lo <= grant <= hi (exchange argument), so this check needs no allowance for process start-up.
		sort.Slice(reqs, func(i, j int) bool { return reqs[i] < reqs[j] })
		if len(reqs) == len(starts) {
			c.Oracle(fmt.Sprintf("boundiv I=%d B=%d S=%d lo=%s hi=%s", int64(iv), b, c18Skew(queues), joinI64(reqs), joinI64(starts)))
		}
		// starts lag grants by process start-up (fork/exec of bash): allowance 120 ms
		allow := 120 * time.Millisecond
		switch {
		case c18BoundOK(int64(iv-allow), int64(b), starts):
			c.Oracle(fmt.Sprintf("bound I=%d B=%d starts=%s", int64(iv-allow), b, joinI64(starts)))
		case !c18BoundOK(int64(iv/4), int64(b), starts):
			c.Oracle(fmt.Sprintf("bound I=%d B=%d starts=%s", int64(iv/4), b, joinI64(starts)))
		default:
			c.Inconcl = "hook processes started more than 120 ms after their grants"
		}
	})

	// ---- (e) the operator's queues: schedule events -> real named queues -> taskHandler -> hook processes ----
	r.Cases(10, 7, 7, func(c *Case, rng *Rng) { c18RunQueues(r, c, c18CorpusScenario(c.Idx)) })
	r.Cases(960000, r.N(4, 16), 4, func(c *Case, rng *Rng) { c18RunQueues(r, c, c18RandomScenario(rng)) })

	// ---- (f) start-up of the whole operator on a fake cluster: the burst of Synchronization executions ----
	r.Cases(20, 5, 3, func(c *Case, rng *Rng) { c18RunStartup(r, c, c18StartupCorpus(c.Idx)) })
	r.Cases(970000, r.N(3, 10), 3, func(c *Case, rng *Rng) { c18RunStartup(r, c, c18StartupRandom(rng)) })

	// ---- (g) long combined series (150..450 events behind a waiting head task) and long intervals (11 s .. 24 h) ----
	r.Cases(30, 5, 5, func(c *Case, rng *Rng) { c18RunLong(r, c, c18LongCorpus(c.Idx)) })
	r.Cases(980000, r.N(4, 14), 4, func(c *Case, rng *Rng) { c18RunLong(r, c, c18LongRandom(rng)) })

	// ---- (h) a hooks directory with several hooks whose names are near each other, loaded by the real hook manager ----
	r.Cases(40, 3, 3, func(c *Case, rng *Rng) { c18RunSet(r, c, c18SetCorpus(c.Idx), rng) })
	r.Cases(990000, r.N(40, 300), 8, func(c *Case, rng *Rng) { c18RunSet(r, c, c18SetRandom(rng, r.Thorough()), rng) })
}

// c18BoundOK is used only to choose between "check", "report" and "inconclusive" for the wall-clock
// traces; the verdict itself is the Lean oracle's.
func c18BoundOK(iv, b int64, gs []int64) bool {
	if iv <= 0 {
		return false
	}
	for i := range gs {
		for j := i; j < len(gs); j++ {
			if gs[j] < gs[i] {
				continue
			}
			T := gs[j] - gs[i] + 1
			n := int64(0)
			for _, g := range gs {
				if g >= gs[i] && g <= gs[j] {
					n++
				}
			}
			if n > b+(T+iv-1)/iv {
				return false
			}
		}
	}
	return true
}

// c18Skew is the allowance (ns) for request times of one hook read by several queue workers before
// they take the limiter's mutex (token_bucket_bound_skew); a single queue needs none.
func c18Skew(queues int) int64 {
	if queues <= 1 {
		return 0
	}
	return int64(50 * time.Millisecond)
}

// ---------------------------------------------------------------- (e) queue-driven operator runs

type c18Bind struct {
	hook      int    // index into scn.hooks
	name      string // binding name, unique over all hooks
	queue     string // "main" or a named queue
	crontab   string // unique: one tick = one event of this binding
	failFirst int    // the first failFirst executions whose first binding context is this binding fail
	allowFail bool
	signal    bool // the failing executions do not exit with a code: the hook process dies from SIGKILL (as under the OOM killer), silently
}

type c18Hook struct {
	name      string
	throttled bool
	iv        time.Duration
	b         int
	webhooks  []string // "validating", "mutating", "conversion": bindings executed on request, outside the queues
	onStartup bool
}

// c18Admit is an admission request for the validating / mutating binding of a hook, sent through the
// operator's admission handler (not queued) while the queues work.
type c18Admit struct {
	at   time.Duration
	hook int
	kind string
}

type c18Event struct {
	at   time.Duration
	bind int
}

type c18Scn struct {
	desc    string
	hooks   []c18Hook
	binds   []c18Bind
	events  []c18Event // sorted by at
	admits  []c18Admit // sorted by at
	backoff time.Duration
}

func c18Crontab(i int) string { return fmt.Sprintf("%d 3 1 1 *", i) }

// c18CorpusScenario: fixed situations the random generator only hits sometimes.
func c18CorpusScenario(idx int) c18Scn {
	switch idx {
	case 10:
		// a rate-limited hook that fails (no allowFailure) and is retried by its queue while no token is available
		return c18Scn{desc: "corpus: one queue, I=400ms B=1, the task fails 3 times and is retried after 20 ms",
			hooks:   []c18Hook{{name: "hook0.sh", throttled: true, iv: 400 * time.Millisecond, b: 1}},
			binds:   []c18Bind{{hook: 0, name: "main-0", queue: "main", crontab: c18Crontab(0), failFirst: 3}},
			events:  []c18Event{{0, 0}},
			backoff: 20 * time.Millisecond}
	case 11:
		// one hook with bindings in three queues, events in all of them at once and again within the interval
		return c18Scn{desc: "corpus: one hook in 3 queues (main, qa, qb), I=400ms B=1, events in all queues at 0 and at 60 ms",
			hooks: []c18Hook{{name: "hook0.sh", throttled: true, iv: 400 * time.Millisecond, b: 1}},
			binds: []c18Bind{{hook: 0, name: "main-0", queue: "main", crontab: c18Crontab(0)},
				{hook: 0, name: "qa-0", queue: "qa", crontab: c18Crontab(1)},
				{hook: 0, name: "qb-0", queue: "qb", crontab: c18Crontab(2)}},
			events:  []c18Event{{0, 0}, {0, 1}, {0, 2}, {60 * time.Millisecond, 0}, {60 * time.Millisecond, 1}, {60 * time.Millisecond, 2}},
			backoff: 20 * time.Millisecond}
	case 15:
		// a hook process that dies from a signal is a started execution like any other: its task fails and is
		// retried by the queue, and every new process start needs its own token
		return c18Scn{desc: "corpus: one queue, I=900ms B=2, the hook process is killed by SIGKILL in its first 3 executions (task retried after 20 ms)",
			hooks:   []c18Hook{{name: "hook0.sh", throttled: true, iv: 900 * time.Millisecond, b: 2}},
			binds:   []c18Bind{{hook: 0, name: "main-0", queue: "main", crontab: c18Crontab(0), failFirst: 3, signal: true}},
			events:  []c18Event{{0, 0}},
			backoff: 20 * time.Millisecond}
	case 16:
		// the same with allowFailure (no retry) in two queues: every event's process is killed
		return c18Scn{desc: "corpus: hook0 (I=500ms B=2) in main and qa, allowFailure, every process of main-0 and the first 2 of qa-0 die from SIGKILL; events at 0, 30 and 60 ms in both",
			hooks: []c18Hook{{name: "hook0.sh", throttled: true, iv: 500 * time.Millisecond, b: 2}},
			binds: []c18Bind{{hook: 0, name: "main-0", queue: "main", crontab: c18Crontab(0), failFirst: 100, allowFail: true, signal: true},
				{hook: 0, name: "qa-0", queue: "qa", crontab: c18Crontab(1), failFirst: 2, allowFail: true, signal: true}},
			events:  []c18Event{{0, 0}, {0, 1}, {30 * time.Millisecond, 0}, {30 * time.Millisecond, 1}, {60 * time.Millisecond, 0}, {60 * time.Millisecond, 1}},
			backoff: 20 * time.Millisecond}
	case 13:
		// the hook's settings hold whatever other bindings it has: here a webhook next to the queued binding
		return c18Scn{desc: "corpus: one queue, I=400ms B=1, the hook also has a kubernetesValidating binding; 4 schedule events at once",
			hooks:   []c18Hook{{name: "hook0.sh", throttled: true, iv: 400 * time.Millisecond, b: 1, webhooks: []string{"validating"}}},
			binds:   []c18Bind{{hook: 0, name: "main-0", queue: "main", crontab: c18Crontab(0)}},
			events:  []c18Event{{0, 0}, {0, 0}, {5 * time.Millisecond, 0}, {40 * time.Millisecond, 0}},
			backoff: 20 * time.Millisecond}
	case 14:
		// webhooks of every kind + onStartup, two queues, admission requests answered while the queues work
		return c18Scn{desc: "corpus: hook0 (I=300ms B=2; onStartup, kubernetesMutating, kubernetesValidating, conversion) in main and qa, 2 admission requests meanwhile",
			hooks: []c18Hook{{name: "hook0.sh", throttled: true, iv: 300 * time.Millisecond, b: 2, onStartup: true,
				webhooks: []string{"validating", "mutating", "conversion"}}},
			binds: []c18Bind{{hook: 0, name: "main-0", queue: "main", crontab: c18Crontab(0)},
				{hook: 0, name: "qa-0", queue: "qa", crontab: c18Crontab(1)}},
			events: []c18Event{{0, 0}, {0, 1}, {20 * time.Millisecond, 0}, {20 * time.Millisecond, 1}, {90 * time.Millisecond, 0},
				{90 * time.Millisecond, 1}, {200 * time.Millisecond, 1}},
			admits:  []c18Admit{{10 * time.Millisecond, 0, "mutating"}, {150 * time.Millisecond, 0, "validating"}},
			backoff: 20 * time.Millisecond}
	default:
		// two queues, burst 2, a failing binding in the named queue, an unthrottled hook sharing both queues
		return c18Scn{desc: "corpus: hook0 (I=300ms B=2) in main and qa, qa-0 fails twice; unthrottled hook1 shares both queues",
			hooks: []c18Hook{{name: "hook0.sh", throttled: true, iv: 300 * time.Millisecond, b: 2}, {name: "hook1.sh"}},
			binds: []c18Bind{{hook: 0, name: "main-0", queue: "main", crontab: c18Crontab(0)},
				{hook: 0, name: "qa-0", queue: "qa", crontab: c18Crontab(1), failFirst: 2},
				{hook: 1, name: "main-1", queue: "main", crontab: c18Crontab(2)},
				{hook: 1, name: "qa-1", queue: "qa", crontab: c18Crontab(3)}},
			events: []c18Event{{0, 0}, {0, 1}, {0, 2}, {0, 3}, {30 * time.Millisecond, 0}, {30 * time.Millisecond, 1},
				{100 * time.Millisecond, 2}, {120 * time.Millisecond, 0}, {120 * time.Millisecond, 1}, {200 * time.Millisecond, 3},
				{250 * time.Millisecond, 0}, {250 * time.Millisecond, 1}},
			backoff: 25 * time.Millisecond}
	}
}

func c18RandomScenario(rng *Rng) c18Scn {
	iv := PickOne(rng, []time.Duration{300 * time.Millisecond, 400 * time.Millisecond, 500 * time.Millisecond})
	b := PickOne(rng, []int{1, 1, 2, 3})
	scn := c18Scn{backoff: time.Duration(rng.Range(15, 40)) * time.Millisecond}
	scn.hooks = append(scn.hooks, c18Hook{name: "hook0.sh", throttled: true, iv: iv, b: b})
	if rng.Chance(50) {
		h := c18Hook{name: "hook1.sh"}
		if rng.Bool() {
			h.throttled, h.iv, h.b = true, PickOne(rng, []time.Duration{200 * time.Millisecond, 350 * time.Millisecond}), PickOne(rng, []int{1, 2})
		}
		scn.hooks = append(scn.hooks, h)
	}
	// the other bindings of the hooks: webhooks (executed on request, never queued) and onStartup
	nweb := 0
	for i := range scn.hooks {
		if rng.Chance(50) {
			for _, k := range []string{"validating", "mutating", "conversion"} {
				if rng.Chance(45) {
					scn.hooks[i].webhooks = append(scn.hooks[i].webhooks, k)
				}
			}
			if len(scn.hooks[i].webhooks) == 0 {
				scn.hooks[i].webhooks = []string{PickOne(rng, []string{"validating", "mutating", "conversion"})}
			}
			nweb++
		}
		scn.hooks[i].onStartup = rng.Chance(30)
	}
	queues := []string{"main", "qa", "qb"}[:rng.Range(1, 3)]
	if rng.Chance(25) {
		queues = queues[len(queues)-1:] // only a named queue (or only main)
	}
	skipAt := -1
	if len(queues) > 1 && rng.Chance(60) {
		skipAt = rng.Intn(len(queues)) // the second hook does not live in every queue
	}
	for hi := range scn.hooks {
		for qi, q := range queues {
			if hi > 0 && qi == skipAt {
				continue
			}
			for j := 0; j < rng.Range(1, 2); j++ {
				bd := c18Bind{hook: hi, name: fmt.Sprintf("%s-%d-%d", q, hi, j), queue: q, crontab: c18Crontab(len(scn.binds))}
				if rng.Chance(35) {
					bd.failFirst = rng.Range(1, 3)
					bd.allowFail = rng.Chance(25)
					bd.signal = rng.Chance(45)
				}
				scn.binds = append(scn.binds, bd)
			}
		}
	}
	n := rng.Range(4, 10)
	pat := PickOne(rng, []string{"burst", "steady", "random", "two-bursts"})
	span := 5 * iv / 2
	for i := 0; i < n; i++ {
		var at time.Duration
		switch pat {
		case "burst":
		case "steady":
			at = span * time.Duration(i) / time.Duration(n)
		case "two-bursts":
			if i >= n/2 {
				at = iv/2 + time.Duration(rng.Intn(int(iv/time.Millisecond)))*time.Millisecond
				if i > n/2 {
					at = scn.events[n/2].at
				}
			}
		default:
			at = time.Duration(rng.Intn(int(span/time.Millisecond))) * time.Millisecond
		}
		scn.events = append(scn.events, c18Event{at: at, bind: rng.Intn(len(scn.binds))})
	}
	sort.SliceStable(scn.events, func(i, j int) bool { return scn.events[i].at < scn.events[j].at })
	// admission requests for the validating / mutating bindings, answered while the queues work
	for hi, h := range scn.hooks {
		for _, k := range h.webhooks {
			if k != "conversion" && rng.Chance(60) {
				for j := 0; j < rng.Range(1, 2); j++ {
					scn.admits = append(scn.admits, c18Admit{at: time.Duration(rng.Intn(int(span/time.Millisecond))) * time.Millisecond, hook: hi, kind: k})
				}
			}
		}
	}
	sort.SliceStable(scn.admits, func(i, j int) bool { return scn.admits[i].at < scn.admits[j].at })
	scn.desc = fmt.Sprintf("queues: I=%v B=%d, %d hooks (%d with webhook bindings), %d bindings in %d queues, %d events (%s), %d admission requests, back-off %v",
		iv, b, len(scn.hooks), nweb, len(scn.binds), len(queues), n, pat, len(scn.admits), scn.backoff)
	return scn
}

type c18Exec struct {
	hi    int64 // start time written by the hook process (unix ns)
	bind  int
	hook  int
	queue string
	lo    int64
}

func c18RunQueues(r *Run, c *Case, scn c18Scn) {
	c.Desc = "operator queues: " + scn.desc
	dir := filepath.Join(r.Scratch, fmt.Sprintf("c18-q-%d", c.Idx))
	hooksDir := filepath.Join(dir, "hooks")
	tmp := filepath.Join(dir, "tmp")
	_ = os.MkdirAll(hooksDir, 0o755)
	_ = os.MkdirAll(tmp, 0o755)
	defer os.RemoveAll(dir)
	bindIdx := map[string]int{}
	for i, bd := range scn.binds {
		bindIdx[bd.name] = i
	}
	logOf := func(h int) string { return filepath.Join(dir, fmt.Sprintf("starts-%d.log", h)) }
	webhookOf := map[string]int{} // webhook binding name -> hook
	for hi, h := range scn.hooks {
		var cfg strings.Builder
		cfg.WriteString("configVersion: v1\n")
		if h.throttled {
			fmt.Fprintf(&cfg, "settings:\n  executionMinInterval: %s\n  executionBurst: %d\n", h.iv.String(), h.b)
		}
		if h.onStartup {
			cfg.WriteString("onStartup: 1\n")
		}
		for _, k := range h.webhooks {
			cfg.WriteString(c18WebhookYAML(k, hi))
			webhookOf[c18WebhookName(k, hi)] = hi
		}
		cfg.WriteString("schedule:\n")
		var cases strings.Builder
		for _, bd := range scn.binds {
			if bd.hook != hi {
				continue
			}
			fmt.Fprintf(&cfg, "- name: %s\n  crontab: \"%s\"\n  allowFailure: %v\n", bd.name, bd.crontab, bd.allowFail)
			if bd.queue != "main" {
				fmt.Fprintf(&cfg, "  queue: %s\n", bd.queue)
			}
			if bd.failFirst > 0 {
				sig := 0
				if bd.signal {
					sig = 1
				}
				fmt.Fprintf(&cases, "  %s) lim=%d; sig=%d;;\n", bd.name, bd.failFirst, sig)
			}
		}
		// the very first thing an execution does is to take its start time
		script := "#!/bin/bash\nif [[ \"${1:-}\" == \"--config\" ]]; then\ncat <<'EOF'\n" + cfg.String() + "EOF\nexit 0\nfi\n" +
			"ts=$(date +%s%N)\nctx=$(<\"$BINDING_CONTEXT_PATH\")\nre='\"binding\": *\"([^\"]+)\"'\nname=none\n[[ $ctx =~ $re ]] && name=${BASH_REMATCH[1]}\n" +
			"echo \"$ts $name\" >> " + logOf(hi) + "\n[[ -n \"${VALIDATING_RESPONSE_PATH:-}\" ]] && echo '{\"allowed\":true}' > \"$VALIDATING_RESPONSE_PATH\"\nlim=0\nsig=0\ncase \"$name\" in\n" + cases.String() + "  *) ;;\nesac\n" +
			"n=$(grep -c \" $name\\$\" " + logOf(hi) + ")\nif (( n <= lim )); then\n  if (( sig == 1 )); then kill -KILL $$; sleep 5; fi\n  echo 'not yet' >&2; exit 1\nfi\nexit 0\n"
		_ = writeScript(filepath.Join(hooksDir, h.name), []byte(script), 0o755)
	}
	ctx, cancel := context.WithCancel(context.Background())
	defer cancel()
	op := shell_operator.NewShellOperator(ctx, shell_operator.WithLogger(log.NewNop()))
	op.MetricStorage = metricstorage.NewMetricStorage(ctx, "", true, log.NewNop())
	op.HookMetricStorage = metricstorage.NewMetricStorage(ctx, "", true, log.NewNop())
	if err := op.VerifC18Setup(hooksDir, tmp); err != nil {
		c.Op("operator-setup", "err "+firstLine(err.Error()))
		return
	}
	// hooks with kubernetesValidating / kubernetesMutating bindings: the operator's admission handler
	// (initValidatingWebhookManager: HookRun task -> op.taskHandler, not queued), as at start-up
	var admitHandler *admission.WebhookHandler
	needAdmission := false
	for _, h := range scn.hooks {
		for _, k := range h.webhooks {
			if k != "conversion" {
				needAdmission = true
			}
		}
	}
	if needAdmission {
		ca := filepath.Join(dir, "ca.crt")
		_ = os.WriteFile(ca, []byte("not a certificate: only read into CABundle\n"), 0o644)
		hd, err := op.VerifC18InitAdmission(ca, tmp)
		if err != nil {
			c.Op("operator-setup", "admission-init-error "+firstLine(err.Error()))
			return
		}
		if hd == nil {
			c.Op("operator-setup", "no-admission-handler")
			return
		}
		admitHandler = hd
	}
	for _, h := range scn.hooks {
		hk := op.HookManager.GetHook(h.name)
		if hk == nil {
			c.Op("operator-setup", "hook-not-loaded")
			return
		}
		if len(h.webhooks) > 0 {
			c.Note("hook-with-webhook-bindings")
		}
		if h.throttled {
			c.Op(fmt.Sprintf("settings i=%d b=%d", int64(h.iv), h.b), c18LimLine(hk.RateLimiter))
		} else {
			c.Op("settings i=- b=-", c18LimLine(hk.RateLimiter))
		}
		// what the main queue does at start-up: enable the schedule bindings of the hook
		res := op.VerifC18EnableSchedules(task.NewTask(task_metadata.EnableScheduleBindings).
			WithMetadata(task_metadata.HookMetadata{HookName: h.name, Binding: string(task_metadata.EnableScheduleBindings)}))
		if res.Status != "Success" {
			c.Op("operator-setup", "enable-schedules-"+string(res.Status))
			return
		}
	}
	// the queues named by the bindings, created as the operator creates them, delays shortened
	queueNames := map[string]bool{}
	for _, bd := range scn.binds {
		if !queueNames[bd.queue] {
			queueNames[bd.queue] = true
			q := op.VerifC18NewQueue(bd.queue)
			backoff := scn.backoff
			q.ExponentialBackoffFn = func(int) time.Duration { return backoff }
			q.WaitLoopCheckInterval = 5 * time.Millisecond
			q.DelayOnQueueIsEmpty = 10 * time.Millisecond
		}
	}
	t0 := time.Now()
	wall0 := t0.UnixNano()
	for name := range queueNames {
		op.TaskQueues.GetByName(name).Start()
	}
	// the admission requests: each from its own goroutine (the webhook server's), through the real router
	var awg sync.WaitGroup
	admitAns := make([]string, len(scn.admits))
	for i, a := range scn.admits {
		awg.Add(1)
		go func(i int, a c18Admit) {
			defer awg.Done()
			defer func() {
				if p := recover(); p != nil {
					admitAns[i] = "panic"
				}
			}()
			if d := a.at - time.Since(t0); d > 0 {
				time.Sleep(d)
			}
			body := fmt.Sprintf(`{"apiVersion":"admission.k8s.io/v1","kind":"AdmissionReview","request":{"uid":"c18-%d","kind":{"group":"","version":"v1","kind":"Pod"},"resource":{"group":"","version":"v1","resource":"pods"},"name":"p","namespace":"default","operation":"CREATE","object":{"apiVersion":"v1","kind":"Pod","metadata":{"name":"p"}}}}`, i)
			req := httptest.NewRequest(http.MethodPost, "/x", bytes.NewReader([]byte(body)))
			req.URL.Path = "/hooks/" + string_helper.SafeURLString(c18WebhookName(a.kind, a.hook))
			req.Header.Set("Content-Type", "application/json")
			rec := httptest.NewRecorder()
			admitHandler.Router.ServeHTTP(rec, req)
			var rv struct {
				Response *struct {
					Allowed bool `json:"allowed"`
				} `json:"response"`
			}
			switch {
			case rec.Code != http.StatusOK:
				admitAns[i] = fmt.Sprintf("http-%d", rec.Code)
			case json.Unmarshal(rec.Body.Bytes(), &rv) != nil || rv.Response == nil:
				admitAns[i] = "bad-answer"
			case !rv.Response.Allowed:
				admitAns[i] = "denied"
			default:
				admitAns[i] = "allowed"
			}
		}(i, a)
	}
	// feed the events: one tick of the binding's crontab through the real schedule callback
	firstQueued := map[int]int64{}
	wrongQueue := ""
	for _, ev := range scn.events {
		if d := ev.at - time.Since(t0); d > 0 {
			time.Sleep(d)
		}
		bd := scn.binds[ev.bind]
		before := time.Now().UnixNano()
		tasks := op.VerifC18ScheduleEvent(bd.crontab)
		if len(tasks) != 1 {
			c.Op(fmt.Sprintf("operator-queues events=%d", len(scn.events)), fmt.Sprintf("schedule-event-made-%d-tasks", len(tasks)))
			return
		}
		if _, ok := firstQueued[ev.bind]; !ok {
			firstQueued[ev.bind] = before
		}
		q := op.TaskQueues.GetByName(tasks[0].GetQueueName())
		if q == nil || tasks[0].GetQueueName() != bd.queue {
			wrongQueue = tasks[0].GetQueueName()
			break
		}
		q.AddLast(tasks[0])
	}
	if wrongQueue != "" {
		c.Op(fmt.Sprintf("operator-queues events=%d", len(scn.events)), "task-for-queue-"+wrongQueue)
		return
	}
	// wait until every queue is empty (a task stays in its queue while it is handled and retried)
	deadline := time.Now().Add(50 * time.Second)
	for {
		empty := true
		for name := range queueNames {
			if !op.TaskQueues.GetByName(name).IsEmpty() {
				empty = false
			}
		}
		if empty {
			break
		}
		if time.Now().After(deadline) {
			c.Inconcl = "the queues did not drain in 50 s"
			return
		}
		time.Sleep(5 * time.Millisecond)
	}
	// ... and every admission request has been answered
	admitsDone := make(chan struct{})
	go func() { awg.Wait(); close(admitsDone) }()
	select {
	case <-admitsDone:
	case <-time.After(time.Until(deadline) + time.Second):
		c.Inconcl = "the admission requests were not answered in 50 s"
		return
	}
	cancel()
	// the wall clock (date in the hook processes, UnixNano here) must not have been stepped meanwhile
	if d := (time.Now().UnixNano() - wall0) - int64(time.Since(t0)); d > int64(2*time.Millisecond) || d < -int64(2*time.Millisecond) {
		c.Inconcl = "the wall clock was stepped during the run"
		return
	}
	// the executions, as the hook processes recorded them
	var execs []c18Exec
	webhookRuns := 0
	perBind := map[int]int{}
	for hi := range scn.hooks {
		lb, _ := os.ReadFile(logOf(hi))
		for _, l := range strings.Split(strings.TrimSpace(string(lb)), "\n") {
			f := strings.Fields(l)
			if len(f) != 2 {
				continue
			}
			var v int64
			if _, err := fmt.Sscan(f[0], &v); err != nil {
				continue
			}
			if wh, ok := webhookOf[f[1]]; ok && wh == hi {
				webhookRuns++ // executed on request, not queued: not one of the executions the property counts
				continue
			}
			bi, ok := bindIdx[f[1]]
			if !ok || scn.binds[bi].hook != hi {
				c.Op(fmt.Sprintf("operator-queues events=%d", len(scn.events)), "execution-with-unknown-binding")
				return
			}
			execs = append(execs, c18Exec{hi: v, bind: bi, hook: hi, queue: scn.binds[bi].queue})
			perBind[bi]++
		}
	}
	// events of one hook waiting in one queue may be combined into one execution (whose first binding
	// context is the oldest task's), never dropped: every (hook, queue) that got events was executed
	status := "drained"
	type hq struct {
		hook  int
		queue string
	}
	ran := map[hq]int{}
	for _, e := range execs {
		ran[hq{e.hook, e.queue}]++
	}
	for bi, bd := range scn.binds {
		if _, got := firstQueued[bi]; got && ran[hq{bd.hook, bd.queue}] == 0 {
			status = fmt.Sprintf("hook-%d-never-executed-in-queue-%s", bd.hook, bd.queue)
		}
	}
	c.Op(fmt.Sprintf("operator-queues events=%d", len(scn.events)), status)
	if len(scn.admits) > 0 {
		// every admission request is answered by exactly one execution of its hook
		allowed, other := 0, ""
		for _, a := range admitAns {
			if a == "allowed" {
				allowed++
			} else {
				other = " " + a
			}
		}
		c.Op(fmt.Sprintf("operator-webhooks sent=%d", len(scn.admits)), fmt.Sprintf("answered=%d executed=%d%s", allowed, webhookRuns, other))
		c.Note("with-admission-requests")
	}
	// lo: the later of "the first event of this binding was queued" and "the previous execution in the
	// same queue started" (one worker per queue: its executions, retries included, are sequential).
	sort.Slice(execs, func(i, j int) bool { return execs[i].hi < execs[j].hi })
	lastInQueue := map[string]int64{}
	for i := range execs {
		e := &execs[i]
		e.lo = firstQueued[e.bind]
		if p, ok := lastInQueue[e.queue]; ok && p > e.lo {
			e.lo = p
		}
		lastInQueue[e.queue] = e.hi
	}
	c.Note("kind:operator-queues")
	c.Note(fmt.Sprintf("queues:%d", len(queueNames)))
	retries := 0
	for hi, h := range scn.hooks {
		var los, his []int64
		qs := map[string]bool{}
		for _, e := range execs {
			if e.hook == hi {
				los = append(los, e.lo-wall0)
				his = append(his, e.hi-wall0)
				qs[e.queue] = true
			}
		}
		for bi, bd := range scn.binds {
			if bd.hook == hi && !bd.allowFail && bd.failFirst > 0 && perBind[bi] > 1 {
				retries++
			}
		}
		if !h.throttled || len(his) == 0 {
			continue
		}
		c.Oracle(fmt.Sprintf("boundiv I=%d B=%d S=%d lo=%s hi=%s", int64(h.iv), h.b, c18Skew(len(qs)), joinI64(los), joinI64(his)))
	}
	if retries > 0 {
		c.Note("with-retries")
	}
	c.Nontrivial = len(execs) >= 3
}
