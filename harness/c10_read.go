package main

import (
	"encoding/json"
	"math"
	"strconv"

	admv1 "k8s.io/api/admissionregistration/v1"
	metav1 "k8s.io/apimachinery/pkg/apis/meta/v1"
)

// Reader of the documented v1 grammar: an independent decoding of a document (given as the generic map)
// into the generator's c10Doc, so that a document that did not come out of the generator unchanged
// (value-fuzz stream) can still be judged item by item. Returns ok=false when the document uses something
// the reader does not cover (then only the no-panic / YAML=JSON oracles apply).

type c10rSel struct {
	MatchNames *[]string `json:"matchNames"`
}
type c10rFieldSel struct {
	MatchExpressions *[]struct {
		Field    string `json:"field"`
		Operator string `json:"operator"`
		Value    string `json:"value"`
	} `json:"matchExpressions"`
}
type c10rNs struct {
	NameSelector  *c10rSel              `json:"nameSelector"`
	LabelSelector *metav1.LabelSelector `json:"labelSelector"`
}
type c10rKube struct {
	Name       string                `json:"name"`
	ApiVersion string                `json:"apiVersion"`
	Kind       string                `json:"kind"`
	Exec       *[]string             `json:"executeHookOnEvent"`
	Watch      *[]string             `json:"watchEvent"`
	Sync       *bool                 `json:"executeHookOnSynchronization"`
	Wait       *bool                 `json:"waitForSynchronization"`
	Keep       *bool                 `json:"keepFullObjectsInMemory"`
	NameSel    *c10rSel              `json:"nameSelector"`
	LabelSel   *metav1.LabelSelector `json:"labelSelector"`
	FieldSel   *c10rFieldSel         `json:"fieldSelector"`
	Namespace  *c10rNs               `json:"namespace"`
	Jq         string                `json:"jqFilter"`
	Resync     string                `json:"resynchronizationPeriod"`
	Allow      *bool                 `json:"allowFailure"`
	Includes   []string              `json:"includeSnapshotsFrom"`
	Queue      string                `json:"queue"`
	Group      string                `json:"group"`
}
type c10rSched struct {
	Name     string   `json:"name"`
	Crontab  string   `json:"crontab"`
	Allow    *bool    `json:"allowFailure"`
	Includes []string `json:"includeSnapshotsFrom"`
	Queue    string   `json:"queue"`
	Group    string   `json:"group"`
}
type c10rAdm struct {
	Name      string                     `json:"name"`
	Includes  []string                   `json:"includeSnapshotsFrom"`
	Group     string                     `json:"group"`
	Rules     []admv1.RuleWithOperations `json:"rules"`
	FP        string                     `json:"failurePolicy"`
	SF        string                     `json:"sideEffects"`
	Timeout   *float64                   `json:"timeoutSeconds"`
	LabelSel  *metav1.LabelSelector      `json:"labelSelector"`
	Namespace *struct {
		LabelSelector *metav1.LabelSelector `json:"labelSelector"`
	} `json:"namespace"`
	MatchCond []admv1.MatchCondition `json:"matchConditions"`
}
type c10rConv struct {
	Name     string   `json:"name"`
	Includes []string `json:"includeSnapshotsFrom"`
	Group    string   `json:"group"`
	Crd      string   `json:"crdName"`
	Convs    []struct {
		From string `json:"fromVersion"`
		To   string `json:"toVersion"`
	} `json:"conversions"`
}
type c10rDoc struct {
	Version  string `json:"configVersion"`
	Settings *struct {
		Interval *string  `json:"executionMinInterval"`
		Burst    *float64 `json:"executionBurst"`
	} `json:"settings"`
	OnStartup *float64    `json:"onStartup"`
	Kubes     []c10rKube  `json:"kubernetes"`
	Scheds    []c10rSched `json:"schedule"`
	Val       []c10rAdm   `json:"kubernetesValidating"`
	Mut       []c10rAdm   `json:"kubernetesMutating"`
	Conv      []c10rConv  `json:"kubernetesCustomResourceConversion"`
}

func c10SmallInt(f float64) (int, bool) {
	if f != math.Trunc(f) || math.Abs(f) > 1e9 {
		return 0, false
	}
	return int(f), true
}

func c10ReadDoc(m map[string]any) (c10Doc, bool) {
	b, err := json.Marshal(m)
	if err != nil {
		return c10Doc{}, false
	}
	var r c10rDoc
	if err := json.Unmarshal(b, &r); err != nil || r.Version != "v1" {
		return c10Doc{}, false
	}
	var d c10Doc
	if r.Settings != nil {
		s := &c10Settings{}
		if r.Settings.Interval == nil {
			s.NoInterval = true
		} else {
			s.Interval = *r.Settings.Interval
		}
		if r.Settings.Burst == nil {
			s.NoBurst = true
		} else {
			// the typed field is a string: the decoder writes the number with FormatFloat('g'); the reader
			// keeps only numbers whose decimal spelling is the same
			n, ok := c10SmallInt(*r.Settings.Burst)
			if !ok || strconv.FormatFloat(*r.Settings.Burst, 'g', -1, 64) != strconv.Itoa(n) {
				return c10Doc{}, false
			}
			s.Burst = n
		}
		d.Settings = s
	}
	if r.OnStartup != nil {
		n, ok := c10SmallInt(*r.OnStartup)
		if !ok {
			return c10Doc{}, false
		}
		d.OnStartup = &n
	}
	for _, k := range r.Kubes {
		g := c10Kube{Name: k.Name, ApiVersion: k.ApiVersion, Kind: k.Kind, ExecEvents: k.Exec, WatchEvents: k.Watch, Sync: k.Sync, Wait: k.Wait, Keep: k.Keep,
			LabelSel: k.LabelSel, Jq: k.Jq, Resync: k.Resync, AllowFailure: k.Allow, Includes: k.Includes, Queue: k.Queue, Group: k.Group}
		if k.NameSel != nil {
			l := []string{}
			if k.NameSel.MatchNames != nil {
				l = *k.NameSel.MatchNames
			}
			g.NameSel = &l
		}
		if k.FieldSel != nil {
			fe := []c10FieldExpr{}
			if k.FieldSel.MatchExpressions != nil {
				for _, e := range *k.FieldSel.MatchExpressions {
					fe = append(fe, c10FieldExpr{e.Field, e.Operator, e.Value})
				}
			}
			g.FieldSel = &fe
		}
		if k.Namespace != nil {
			if k.Namespace.NameSelector != nil {
				l := []string{}
				if k.Namespace.NameSelector.MatchNames != nil {
					l = *k.Namespace.NameSelector.MatchNames
				}
				g.NsNames = &l
			}
			g.NsLabelSel = k.Namespace.LabelSelector
		}
		d.Kubes = append(d.Kubes, g)
	}
	for _, s := range r.Scheds {
		d.Scheds = append(d.Scheds, c10Sched{Name: s.Name, Crontab: s.Crontab, AllowFailure: s.Allow, Includes: s.Includes, Queue: s.Queue, Group: s.Group})
	}
	adm := func(a c10rAdm) (c10Adm, bool) {
		g := c10Adm{Name: a.Name, Includes: a.Includes, Group: a.Group, Rules: a.Rules, FailurePolicy: a.FP, SideEffects: a.SF, LabelSel: a.LabelSel, MatchCond: a.MatchCond}
		if a.Timeout != nil {
			n, ok := c10SmallInt(*a.Timeout)
			if !ok {
				return g, false
			}
			g.Timeout = &n
		}
		if a.Namespace != nil {
			g.NsLabelSel = a.Namespace.LabelSelector
		}
		return g, true
	}
	for _, a := range r.Val {
		g, ok := adm(a)
		if !ok {
			return c10Doc{}, false
		}
		d.Validating = append(d.Validating, g)
	}
	for _, a := range r.Mut {
		g, ok := adm(a)
		if !ok {
			return c10Doc{}, false
		}
		d.Mutating = append(d.Mutating, g)
	}
	for _, c := range r.Conv {
		g := c10Conv{Name: c.Name, Group: c.Group, CrdName: c.Crd, Includes: c.Includes}
		for _, x := range c.Convs {
			g.Rules = append(g.Rules, [2]string{x.From, x.To})
		}
		d.Convs = append(d.Convs, g)
	}
	return d, true
}

// c10TokenSafe: every name-like string of the document survives the line protocol unchanged enough to
// be compared (no blanks, commas, or the reserved one-character tokens).
func c10TokenSafe(d c10Doc) bool {
	ok := func(s string) bool {
		if s == "_" || s == "-" || s == "~" || s == "*" {
			return false
		}
		for _, r := range s {
			if r <= ' ' || r == ',' || r == '+' || r == '=' || r > '~' {
				return false
			}
		}
		return true
	}
	all := func(xs ...string) bool {
		for _, x := range xs {
			if !ok(x) {
				return false
			}
		}
		return true
	}
	for _, k := range d.Kubes {
		if !all(k.Name, k.Queue, k.Group) || !all(k.Includes...) {
			return false
		}
		for _, l := range []*[]string{k.ExecEvents, k.WatchEvents} {
			if l != nil && !all(*l...) {
				return false
			}
		}
	}
	for _, s := range d.Scheds {
		if !all(s.Name, s.Queue, s.Group) || !all(s.Includes...) {
			return false
		}
		// the crontab token carries blank, tab, newline and carriage return as ␣ ⇥ ↵ ↩ (leading and trailing
		// white space included: "validated trimmed, stored raw" is a class of its own)
		for _, r := range s.Crontab {
			if r == '␣' || r == '⇥' || r == '↵' || r == '↩' || (r < ' ' && r != '\t' && r != '\n' && r != '\r') {
				return false
			}
		}
		if s.Crontab == "_" {
			return false
		}
	}
	for _, l := range [][]c10Adm{d.Validating, d.Mutating} {
		for _, a := range l {
			if !all(a.Name, a.Group, a.FailurePolicy, a.SideEffects) || !all(a.Includes...) {
				return false
			}
		}
	}
	for _, c := range d.Convs {
		if !all(c.Name, c.Group) || !all(c.Includes...) {
			return false
		}
	}
	return true
}
