package main

import (
	"context"
	"fmt"
	"sort"
	"strconv"
	"strings"
	"sync"
	"time"

	"github.com/deckhouse/deckhouse/pkg/log"
	corev1 "k8s.io/api/core/v1"
	metav1 "k8s.io/apimachinery/pkg/apis/meta/v1"

	"github.com/flant/kube-client/fake"
	"github.com/flant/kube-client/manifest"
	kem "github.com/flant/shell-operator/pkg/kube_events_manager"
	kemtypes "github.com/flant/shell-operator/pkg/kube_events_manager/types"
	"github.com/flant/shell-operator/pkg/utils/verifsched"
)

// c01Mon drives ONE real monitor (namespace.labelSelector binding) on a fake cluster: the harness
// interleaves monitor.EnableKubeEventCb with the namespace-added callback at their yield points.
type c01Mon struct {
	fc     *fake.Cluster
	mon    kem.Monitor
	key    string
	arrive <-chan *verifsched.Arrival
	cancel context.CancelFunc

	mu        sync.Mutex
	delivered map[int]bool // namespaces from which an event reached the callback

	eaParked *verifsched.Arrival
	eaDone   chan struct{}
	nsParked map[int]*verifsched.Arrival
}

// Namespace names are unique per case: the informer factories of the operator are process-wide and
// keyed by (resource, namespace, selectors), so two cases must never watch the same namespace name.
func (m *c01Mon) nsName(n int) string { return fmt.Sprintf("%s-ns%d", m.key, n) }
func (m *c01Mon) nsNum(name string) int {
	n, _ := strconv.Atoi(name[strings.LastIndex(name, "-ns")+3:])
	return n
}

func (m *c01Mon) createNs(n int) {
	fc := m.fc
	nsObj := &corev1.Namespace{}
	nsObj.SetName(m.nsName(n))
	nsObj.SetLabels(map[string]string{"verif": "yes"})
	_, _ = fc.Client.CoreV1().Namespaces().Create(context.TODO(), nsObj, metav1.CreateOptions{})
}

func c01CreateCM(fc *fake.Cluster, ns string, name string) error {
	mft := manifest.MustFromYAML(fmt.Sprintf("apiVersion: v1\nkind: ConfigMap\nmetadata:\n  name: %q\ndata:\n  foo: bar\n", name))
	return fc.Create(ns, mft)
}

func newC01Mon(key string, static bool, initialNs []int) (*c01Mon, error) {
	m := &c01Mon{key: key, delivered: map[int]bool{}, nsParked: map[int]*verifsched.Arrival{}}
	m.fc = fake.NewFakeCluster(fake.ClusterVersionV121)
	if static {
		nsObj := &corev1.Namespace{}
		nsObj.SetName("ns0")
		_, _ = m.fc.Client.CoreV1().Namespaces().Create(context.TODO(), nsObj, metav1.CreateOptions{})
	}
	for _, n := range initialNs {
		m.createNs(n)
	}
	mc := &kem.MonitorConfig{ApiVersion: "v1", Kind: "ConfigMap", KeepFullObjectsInMemory: true,
		EventTypes: []kemtypes.WatchEventType{kemtypes.WatchEventAdded, kemtypes.WatchEventModified, kemtypes.WatchEventDeleted},
		NamespaceSelector: &kemtypes.NamespaceSelector{
			LabelSelector: &metav1.LabelSelector{MatchLabels: map[string]string{"verif": "yes"}},
		},
		Logger: log.NewNop(),
	}
	if static {
		mc.NamespaceSelector.NameSelector = &kemtypes.NameSelector{MatchNames: []string{"ns0"}}
	}
	mc.Metadata.DebugName = key
	mc.Metadata.MonitorId = key
	mc.Metadata.MetricLabels = map[string]string{}
	mc.Metadata.LogLabels = map[string]string{}
	ctx, cancel := context.WithCancel(context.Background())
	m.cancel = cancel
	m.mon = kem.NewMonitor(ctx, m.fc.Client, c01Metrics, mc, func(ev kemtypes.KubeEvent) {
		m.mu.Lock()
		defer m.mu.Unlock()
		for _, o := range ev.Objects {
			parts := strings.Split(o.Metadata.ResourceId, "/")
			n := m.nsNum(parts[0])
			if parts[2] == "early" {
				n += 100 // the object that existed before the namespace's informers listed it
			}
			m.delivered[n] = true
		}
	}, log.NewNop())
	if err := m.mon.CreateInformers(); err != nil {
		cancel()
		return nil, err
	}
	// the informers of this monitor use the same key for their own yield points: let those pass
	raw := sched.Subscribe(key)
	fwd := make(chan *verifsched.Arrival, 64)
	m.arrive = fwd
	go func() {
		for {
			select {
			case a := <-raw:
				if strings.HasPrefix(a.Name, "monitor.") {
					fwd <- a
				} else {
					a.Release()
				}
			case <-ctx.Done():
				for {
					select {
					case a := <-raw:
						a.Release()
					case <-time.After(50 * time.Millisecond):
						return
					}
				}
			}
		}
	}()
	m.mon.Start(ctx)
	return m, nil
}

func (m *c01Mon) close() {
	sched.Unsubscribe(m.key)
	if m.eaParked != nil {
		m.eaParked.Release()
	}
	for _, a := range m.nsParked {
		a.Release()
	}
	m.mon.PauseHandleEvents()
	m.cancel()
	for {
		select {
		case a := <-m.arrive:
			a.Release()
		case <-time.After(20 * time.Millisecond):
			return
		}
	}
}

func (m *c01Mon) dump(inflight []int) string {
	flag, statics, varying, _ := kem.VerifMonitorState(m.mon)
	b := func(x bool) int {
		if x {
			return 1
		}
		return 0
	}
	var st []int
	for _, s := range statics {
		st = append(st, b(s))
	}
	var ks []int
	for k := range varying {
		ks = append(ks, m.nsNum(k))
	}
	sort.Ints(ks)
	var vs []string
	for _, k := range ks {
		en := true
		for _, e := range varying[m.nsName(k)] {
			en = en && e
		}
		vs = append(vs, fmt.Sprintf("%d:%d", k, b(en)))
	}
	return fmt.Sprintf("flag=%d statics=%s varying=%s inflight=%s", b(flag), joinInts(st), joinStrs(vs), joinInts(inflight))
}

// lockedOracle: the monitor-level form of "no Event before the Synchronization step has completed":
// as long as the unlock has not begun, no informer of the monitor passes events on.
func (m *c01Mon) lockedOracle(c *Case) {
	_, statics, varying, _ := kem.VerifMonitorState(m.mon)
	n := 0
	for _, en := range statics {
		if en {
			n++
		}
	}
	for _, l := range varying {
		for _, en := range l {
			if en {
				n++
			}
		}
	}
	begun := 0
	if m.eaDone != nil {
		begun = 1
	}
	c.Oracle(fmt.Sprintf("m-locked unlockBegun=%d enabled=%d", begun, n))
}

// waitPoint waits for the next arrival whose name has the given prefix; other arrivals of this key
// (there are none in a well-formed schedule) are released.
func (m *c01Mon) waitPoint(prefix string, d time.Duration) *verifsched.Arrival {
	deadline := time.After(d)
	for {
		select {
		case a := <-m.arrive:
			if strings.HasPrefix(a.Name, prefix) {
				return a
			}
			a.Release()
		case <-deadline:
			return nil
		}
	}
}

// eaStep advances EnableKubeEventCb to its next yield point (or to its end).
func (m *c01Mon) eaStep() string {
	if m.eaDone == nil {
		done := make(chan struct{})
		m.eaDone = done
		go func() { defer close(done); m.mon.EnableKubeEventCb() }()
	} else if m.eaParked != nil {
		m.eaParked.Release()
		m.eaParked = nil
	}
	deadline := time.After(c01Wait)
	for {
		select {
		case a := <-m.arrive:
			if strings.HasPrefix(a.Name, "monitor.enable.") {
				m.eaParked = a
				return ""
			}
			a.Release()
		case <-m.eaDone:
			return "returned"
		case <-deadline:
			return "hang"
		}
	}
}

func c01MonRun(c *Case, static bool, initial []int, script []string) {
	// with namespace.labelSelector the monitor has no static informers (MonitorConfig.namespaces())
	static = false
	m, err := newC01Mon(fmt.Sprintf("c01m-%d", c.Idx), static, initial)
	if err != nil {
		c.Inconcl = "monitor setup failed: " + err.Error()
		return
	}
	defer m.close()
	ns := 0
	if static {
		ns = 1
	}
	var inflight, early []int
	live := map[int]bool{}    // matching namespaces that exist right now
	ignored := map[int]bool{} // namespaces whose add callback returned without creating informers
	for _, n := range initial {
		live[n] = true
	}
	sentinel := 900
	_ = m.mon.Snapshot() // the Synchronization view: everything created from here on is a later change
	c.Op(fmt.Sprintf("m init statics=%d ns=%s", ns, joinInts(initial)), m.dump(nil))
	m.lockedOracle(c)
	for _, a := range script {
		f := strings.Fields(a)
		var r string
		switch f[0] {
		case "ea-begin", "ea":
			r = m.eaStep()
		case "ea-range":
			r = m.eaStep()
		case "ea-end":
			r = m.eaStep()
			if r == "returned" {
				r = ""
			} else if r == "" {
				r = "not-returned"
			}
		case "nsDel":
			// the namespace goes away: the delete callback (no yield points) cancels and drops its informers
			n, _ := strconv.Atoi(f[1])
			if err := m.fc.Client.CoreV1().Namespaces().Delete(context.TODO(), m.nsName(n), metav1.DeleteOptions{}); err != nil {
				c.Inconcl = "cannot delete namespace: " + err.Error()
				return
			}
			delete(live, n)
			gone := false
			for deadline := time.Now().Add(c01Wait); time.Now().Before(deadline); time.Sleep(2 * time.Millisecond) {
				if _, _, varying, _ := kem.VerifMonitorState(m.mon); varying[m.nsName(n)] == nil {
					gone = true
					break
				}
			}
			if !gone {
				c.Inconcl = "namespace delete callback did not run in time"
				return
			}
		case "nsStore":
			n, _ := strconv.Atoi(f[1])
			m.createNs(n)
			live[n] = true
			first := c01Wait
			if len(f) > 2 && f[2] == "again" {
				first = 2 * time.Second
			}
			a := m.waitPoint("monitor.ns.callback", first)
			if a == nil && first < c01Wait {
				// No callback reached its first yield point. Slow, or did it return early ("ignore already
				// started informers")? Decide without a clock: callbacks of the namespace informer run one
				// at a time in cluster order, so when the callback of a namespace created AFTERWARDS shows
				// up, the one of namespace n has come and gone.
				z := sentinel
				sentinel++
				m.createNs(z)
				a = m.waitPoint("monitor.ns.callback", c01Wait)
				if a == nil {
					c.Inconcl = "namespace callback did not arrive"
					return
				}
				a.Release()
				b := m.waitPoint("monitor.ns.stored", c01Wait)
				if b == nil {
					c.Inconcl = "namespace callback did not arrive"
					return
				}
				_, _, varying, _ := kem.VerifMonitorState(m.mon)
				if varying[m.nsName(n)] != nil || varying[m.nsName(z)] == nil {
					b.Release()
					c.Inconcl = "namespace callback arrived late"
					return
				}
				// decided: the add callback of namespace n created nothing
				ignored[n] = true
				c.Op("m nsStore "+f[1], "ignored")
				// the sentinel namespace is an ordinary one for the protocol
				live[z] = true
				c.Op(fmt.Sprintf("m nsStore %d", z), m.dump(append(append([]int(nil), inflight...), z)))
				b.Release()
				if s := m.waitPoint("monitor.ns.started", c01Wait); s == nil {
					c.Op(fmt.Sprintf("m nsRead %d", z), "hang")
					return
				} else {
					s.Release()
				}
				c.Op(fmt.Sprintf("m nsRead %d", z), m.dump(inflight))
				continue
			}
			if a == nil {
				c.Inconcl = "namespace callback did not arrive"
				return
			} else {
				if len(f) > 2 && f[2] == "early" {
					// an object created together with its namespace, before the operator lists it
					if err := c01CreateCM(m.fc, m.nsName(n), "early"); err != nil {
						c.Inconcl = "cannot create object: " + err.Error()
						return
					}
					early = append(early, n)
				}
				a.Release()
			}
			if a := m.waitPoint("monitor.ns.stored", c01Wait); a == nil {
				c.Inconcl = "namespace callback did not arrive"
				return
			} else {
				m.nsParked[n] = a
			}
			inflight = append(inflight, n)
		case "nsRead":
			n, _ := strconv.Atoi(f[1])
			if ignored[n] {
				c.Op("m "+a, "ignored")
				continue
			}
			m.nsParked[n].Release()
			delete(m.nsParked, n)
			if a := m.waitPoint("monitor.ns.started", c01Wait); a == nil {
				r = "hang"
			} else {
				a.Release()
			}
			for i, x := range inflight {
				if x == n {
					inflight = append(inflight[:i], inflight[i+1:]...)
					break
				}
			}
		}
		if r != "" {
			c.Op("m "+a, r)
			return
		}
		c.Note("mact:" + f[0])
		if f[0] == "nsStore" {
			a = "nsStore " + f[1] // `early` / `again` are not protocol matters: the model abstracts from objects
		}
		c.Op("m "+a, m.dump(inflight))
		m.lockedOracle(c)
	}
	// everything has settled: no more scheduling
	// change something in every namespace of the monitor
	var want []int
	for n := range live {
		want = append(want, n)
	}
	if static {
		want = append(want, 0)
	}
	sort.Ints(want)
	for _, n := range want {
		if err := c01CreateCM(m.fc, m.nsName(n), "probe"); err != nil {
			c.Inconcl = "cannot create object: " + err.Error()
			return
		}
	}
	// every change ends up either delivered or in the buffer of a still-locked informer: wait for that
	deadline := time.Now().Add(15 * time.Second)
	for {
		_, _, varying, buffered := kem.VerifMonitorState(m.mon)
		m.mu.Lock()
		settled := true
		for _, n := range want {
			if ignored[n] && varying[m.nsName(n)] == nil {
				continue // no informers exist for this namespace: nothing will ever be reported from it
			}
			if !m.delivered[n] && buffered[m.nsName(n)] == 0 {
				settled = false
			}
		}
		for _, n := range early {
			// the early object is reported by the informer before the probe object of its namespace
			_ = n
		}
		m.mu.Unlock()
		if settled {
			break
		}
		if time.Now().After(deadline) {
			c.Inconcl = "informers did not report the probe objects in time"
			return
		}
		time.Sleep(5 * time.Millisecond)
	}
	var got []int
	m.mu.Lock()
	for n := range m.delivered {
		got = append(got, n)
	}
	m.mu.Unlock()
	for _, n := range early {
		if live[n] {
			want = append(want, 100+n)
		}
	}
	sort.Ints(got)
	c.Oracle(fmt.Sprintf("m-delivered want=%s got=%s", joinInts(want), joinInts(got)))
}

// c01GenMonScript: EnableKubeEventCb (ea-begin, ea, ea-range, ea-end) interleaved with namespace
// callbacks (nsStore n, nsRead n; the namespace informer runs them one at a time).
func c01GenMonScript(rng *Rng, initial []int, firstNew int) []string {
	ea := []string{"ea-begin", "ea", "ea-range", "ea-end"}
	var script []string
	next := firstNew
	inflight := 0
	eaPos := 0
	live := map[int]bool{} // namespaces that exist and whose add callback has finished
	var gone []int         // namespaces that were deleted (may come back under the same name)
	for _, n := range initial {
		live[n] = true
	}
	liveList := func() []int {
		var l []int
		for n := range live {
			l = append(l, n)
		}
		sort.Ints(l)
		return l
	}
	dels := 0
	for steps := 0; steps < 40; steps++ {
		var opts []string
		if eaPos < len(ea) {
			opts = append(opts, "EA", "EA")
		}
		if inflight != 0 {
			opts = append(opts, "READ", "READ")
		} else {
			if next < firstNew+3 {
				opts = append(opts, "STORE")
			}
			if len(live) > 0 && dels < 3 {
				opts = append(opts, "DEL")
			}
			if len(gone) > 0 {
				opts = append(opts, "AGAIN", "AGAIN")
			}
		}
		if len(opts) == 0 {
			break
		}
		switch PickOne(rng, opts) {
		case "EA":
			script = append(script, ea[eaPos])
			eaPos++
		case "STORE":
			if rng.Chance(35) {
				script = append(script, fmt.Sprintf("nsStore %d early", next))
			} else {
				script = append(script, fmt.Sprintf("nsStore %d", next))
			}
			inflight = next
			next++
		case "AGAIN":
			i := rng.Intn(len(gone))
			n := gone[i]
			gone = append(gone[:i], gone[i+1:]...)
			script = append(script, fmt.Sprintf("nsStore %d again", n))
			inflight = n
		case "DEL":
			n := PickOne(rng, liveList())
			delete(live, n)
			gone = append(gone, n)
			dels++
			script = append(script, fmt.Sprintf("nsDel %d", n))
		case "READ":
			script = append(script, fmt.Sprintf("nsRead %d", inflight))
			live[inflight] = true
			inflight = 0
		}
		if eaPos == len(ea) && inflight == 0 && rng.Chance(30) {
			break
		}
	}
	if inflight != 0 {
		script = append(script, fmt.Sprintf("nsRead %d", inflight))
	}
	for ; eaPos < len(ea); eaPos++ {
		script = append(script, ea[eaPos])
	}
	return script
}

func runC01Monitor(r *Run) {
	r.One(5, func(c *Case, rng *Rng) {
		c.Desc = "corpus R4: namespace appears between the range over the varying informers and the end of EnableKubeEventCb"
		c.Nontrivial = true
		c01MonRun(c, true, []int{1}, []string{"ea-begin", "ea", "ea-range", "nsStore 2", "nsRead 2", "ea-end"})
	})
	r.One(6, func(c *Case, rng *Rng) {
		c.Desc = "corpus: namespace stored before the range, flag read after the unlock"
		c.Nontrivial = true
		c01MonRun(c, false, nil, []string{"ea-begin", "nsStore 1", "ea", "ea-range", "ea-end", "nsRead 1", "nsStore 2", "nsRead 2"})
	})
	r.One(7, func(c *Case, rng *Rng) {
		c.Desc = "corpus R5: an object created together with a namespace that appears after the unlock"
		c.Nontrivial = true
		c01MonRun(c, false, nil, []string{"ea-begin", "ea", "ea-range", "ea-end", "nsStore 1 early", "nsRead 1"})
	})
	r.One(8, func(c *Case, rng *Rng) {
		c.Desc = "corpus: a namespace that appeared after the unlock is deleted and created again under the same name"
		c.Nontrivial = true
		c01MonRun(c, false, nil, []string{"ea-begin", "ea", "ea-range", "ea-end", "nsStore 1", "nsRead 1", "nsDel 1", "nsStore 1 again", "nsRead 1"})
	})
	r.One(9, func(c *Case, rng *Rng) {
		c.Desc = "corpus: a namespace that existed at start is deleted and created again while the binding is still locked"
		c.Nontrivial = true
		c01MonRun(c, false, []int{1, 2}, []string{"nsDel 1", "ea-begin", "nsStore 1 again", "ea", "nsRead 1", "ea-range", "ea-end"})
	})
	r.One(4, func(c *Case, rng *Rng) {
		c.Desc = "corpus: NO matching namespace at start; the first one appears (with an object) before the unlock has begun"
		c.Nontrivial = true
		c01MonRun(c, false, nil, []string{"nsStore 1 early", "nsRead 1", "nsStore 2", "nsRead 2", "ea-begin", "ea", "ea-range", "ea-end"})
	})
	n := r.N(40, 600)
	r.Cases(500000, n, 8, func(c *Case, rng *Rng) {
		static := rng.Bool()
		var initial []int
		for i := 1; i <= rng.Intn(3); i++ {
			initial = append(initial, i)
		}
		script := c01GenMonScript(rng, initial, 10)
		c.Desc = "monitor: " + strings.Join(script, " ")
		c01MonRun(c, static, initial, script)
		c.Nontrivial = strings.Contains(c.Desc, "nsStore")
		c.Note("monitor-case")
		if strings.Contains(c.Desc, "again") {
			c.Note("monitor-case:namespace-comes-back")
		}
	})
}
