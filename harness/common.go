package main

import (
	"os"

	"github.com/deckhouse/deckhouse/pkg/log"

	"github.com/flant/shell-operator/pkg/utils/verifsched"
)

// sched is the process-wide controller of the verifsched yield points (build tag verif).
// Points whose key nobody subscribed to pass straight through.
var sched = func() *verifsched.Controller {
	_ = os.Setenv("QUEUE_ACTIONS_METRICS", "no")
	if os.Getenv("VERIF_HARNESS_LOG") == "" {
		log.SetDefault(log.NewNop())
	}
	c := verifsched.NewController()
	verifsched.Install(c)
	return c
}()
