package main

import (
	"os"
	"syscall"

	"github.com/deckhouse/deckhouse/pkg/log"

	"github.com/flant/shell-operator/pkg/utils/verifsched"
)

// sched is the process-wide controller of the verifsched yield points (build tag verif).
// Points whose key nobody subscribed to pass straight through.
var sched = func() *verifsched.Controller {
	_ = os.Setenv("QUEUE_ACTIONS_METRICS", "no")
	if os.Getenv("VERIF_HARNESS_LOG") == "" {
		log.SetDefault(log.NewNop())
	}
	c := verifsched.NewController()
	verifsched.Install(c)
	return c
}()

// writeScript writes an executable file that is going to be exec'ed. No goroutine of this process
// may fork while the file is open for writing: the child would inherit the descriptor until its own
// exec and running the script would fail with ETXTBSY ("text file busy").
func writeScript(path string, content []byte, mode os.FileMode) error {
	syscall.ForkLock.RLock()
	defer syscall.ForkLock.RUnlock()
	return os.WriteFile(path, content, mode)
}
