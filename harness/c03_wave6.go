package main

// Sixth wave of C03.
//
// c03FilterWindow — the worker of a queue dumps its queue (TaskQueue.String(): Iterate) and the handler of a queue compacts its queue (Iterate, then Filter: what
// combineBindingContextForHook does from inside the handler) WHILE the real events consumer delivers an
// event: the delivery is released from inside the callback the queue calls for one of its items, i.e. in
// the middle of the compaction, and the callback holds on until the consumer is through (or, when the
// consumer has to wait for the queue lock, for 25 ms). Whatever the interleaving, the queue must hold its
// old tasks that were not dropped, in their old order, followed by the delivered ones in receive order
// (oracle `compacted`), and the executions follow that order (oracles `log`, `orderkept`).
//
// c03OperatorWebhook — whole-operator cases with hooks that have, next to their schedule / kubernetes
// bindings, kubernetesValidating / kubernetesMutating bindings. The real initValidatingWebhookManager
// installs the operator's admission closure (HookRun task without a queue -> op.taskHandler in the
// goroutine of the request); requests go through the real router while a queue of the same hook has a
// hanging execution at its head and followers waiting behind it. A request is not a task of any queue:
// every queue holds what it held (oracle `untouched`), every queued task is executed by the worker of its
// queue as the head, in arrival order (`logfree`, `order`, `complete` on the taps' trace), and the hook
// PROCESSES of one queue's bindings never overlap (`logfree` on the trace of the processes' own start / end
// lines, each execution counted for the queues of the bindings whose contexts it was given).

import (
	"bytes"
	"context"
	"encoding/json"
	"fmt"
	"net/http"
	"net/http/httptest"
	"os"
	"path/filepath"
	"sort"
	"strconv"
	"strings"
	"sync"
	"sync/atomic"
	"time"

	"github.com/flant/kube-client/fake"
	"k8s.io/apimachinery/pkg/apis/meta/v1/unstructured"

	"github.com/flant/shell-operator/pkg/hook/task_metadata"
	kemtypes "github.com/flant/shell-operator/pkg/kube_events_manager/types"
	shell_operator "github.com/flant/shell-operator/pkg/shell-operator"
	"github.com/flant/shell-operator/pkg/task"
	"github.com/flant/shell-operator/pkg/task/queue"
	"github.com/flant/shell-operator/pkg/utils/string_helper"
)

// ---------------------------------------------------------------- compaction while the consumer delivers

// stepOnce moves the worker of queue n one observable position towards its handler (false: it is inside
// the handler, or is not going to get there).
func (w *world) stepOnce(n int) bool {
	q := w.qs[n]
	switch {
	case w.bad != "" || strings.HasPrefix(q.at, "run:"):
		return false
	case q.at == "loop" || q.at == "afterCheck" || q.at == "afterHandler":
		w.opGo(n)
	case q.at == "beforeSelect":
		if q.q.Length() == 0 {
			return false
		}
		w.opSel(n, false)
	case q.at == "tick":
		w.opTickGo(n)
	default:
		return false
	}
	return true
}

// dumpGate: metadata of a task whose description is asked for by the worker's queue dump
// (TaskQueue.String(), evaluated by Start() after every wait and after every result: Iterate over the
// queue, GetDescription of every task). An armed gate runs its function once, from inside that walk.
type dumpGate struct{ f atomic.Pointer[func()] }

func (g *dumpGate) GetDescription() string {
	if f := g.f.Swap(nil); f != nil {
		(*f)()
	}
	return "gate"
}

// opGoDeliver: the worker of queue n, parked at afterCheck (queue not empty) or afterHandler, goes on to
// its next position; on the way it dumps its queue, and from INSIDE that walk (the description of the
// first task) an event with the tasks ts is sent through the real consumer; the walk goes on when the
// consumer is through or after 25 ms. Appends at the tail commute with what the worker does at the head:
// the model delivers first and then steps (op godeliver).
func (w *world) opGoDeliver(n int, ts []delivery, viaKube bool, gate *dumpGate) {
	if w.bad != "" {
		return
	}
	q := w.qs[n]
	fromCheck := q.at == "afterCheck"
	before := map[int]string{}
	for _, m := range w.order {
		before[m] = itemsOf(w.qs[m].q)
	}
	var tasks []task.Task
	var parts []string
	for _, d := range ts {
		t := mkTask(d.t).(*task.BaseTask).WithQueueName(fmt.Sprintf("%s-%d", w.prefix, d.q))
		t.UpdateMetadata(gate)
		tasks = append(tasks, t)
		parts = append(parts, fmt.Sprintf("%d:%d", d.q, d.t))
	}
	w.mu.Lock()
	w.evSeq++
	key := fmt.Sprintf("ev-%d", w.evSeq)
	w.pending[key] = tasks
	w.evSeq++
	bkey := fmt.Sprintf("ev-%d", w.evSeq)
	done := make(chan struct{})
	w.barrier[bkey] = done
	w.mu.Unlock()
	var sendFailed atomic.Bool
	send := func(k string) {
		ok := false
		if viaKube {
			select {
			case w.kem.ch <- kemtypes.KubeEvent{MonitorId: k}:
				ok = true
			case <-time.After(wStepTimeout):
			}
		} else {
			select {
			case w.sm.Ch() <- k:
				ok = true
			case <-time.After(wStepTimeout):
			}
		}
		if !ok {
			sendFailed.Store(true)
		}
	}
	var once sync.Once
	fire := func() {
		once.Do(func() {
			go func() {
				send(key)
				send(bkey)
			}()
		})
	}
	window := func() {
		fire()
		select {
		case <-done:
		case <-time.After(25 * time.Millisecond):
		}
	}
	gate.f.Store(&window)
	opLine := fmt.Sprintf("godeliver %d %s", n, joinStrs(parts))
	idx := len(w.trace)
	w.release(q)
	w.await(q)
	gate.f.Store(nil)
	fire()
	if w.bad == "" {
		select {
		case <-done:
		case <-time.After(wStepTimeout):
			w.bad = "timeout"
			hangs.Add(1)
		}
	}
	if sendFailed.Load() && w.bad == "" {
		w.bad = "timeout"
		hangs.Add(1)
	}
	if w.bad != "" {
		w.c.Op(opLine, "hang")
		return
	}
	// the model receives first: the arrivals go in front of what the worker's step added to the trace
	var recv []string
	for _, d := range ts {
		recv = append(recv, fmt.Sprintf("r%d:%d", d.q, d.t))
	}
	w.trace = append(w.trace[:idx:idx], append(recv, w.trace[idx:]...)...)
	w.c.Op(opLine, w.obs())
	for _, m := range w.order {
		if m != n || fromCheck {
			w.c.Oracle(fmt.Sprintf("routing q=%d before=%s ts=%s after=%s", m, before[m], joinStrs(parts), itemsOf(w.qs[m].q)))
		}
	}
}

// opFilterDeliver: the handler of queue n (inside its handler) walks its queue (Iterate) and drops the
// tasks `drop` from it (Filter, keeping every other task — the callback of combineBindingContextForHook
// keeps what it does not know). When the walk (inIterate) or the Filter calls its callback for item
// number `at`, one event with the tasks ts is sent through the real consumer; the callback returns when
// the consumer has placed them, or after 25 ms (it waits for the queue lock then).
func (w *world) opFilterDeliver(n int, drop []int, ts []delivery, viaKube bool, at int, inIterate bool) {
	if w.bad != "" {
		return
	}
	q := w.qs[n]
	dropSet := map[string]bool{}
	for _, d := range drop {
		dropSet[strconv.Itoa(d)] = true
	}
	before := map[int]string{}
	for _, m := range w.order {
		before[m] = itemsOf(w.qs[m].q)
	}
	var keep []int
	q.q.Iterate(func(t task.Task) {
		id := taskID(t)
		if k, err := strconv.Atoi(id); err == nil && !dropSet[id] && id != q.cur {
			keep = append(keep, k)
		}
	})
	var tasks []task.Task
	var parts []string
	for _, d := range ts {
		tasks = append(tasks, mkTask(d.t).(*task.BaseTask).WithQueueName(fmt.Sprintf("%s-%d", w.prefix, d.q)))
		parts = append(parts, fmt.Sprintf("%d:%d", d.q, d.t))
	}
	w.mu.Lock()
	w.evSeq++
	key := fmt.Sprintf("ev-%d", w.evSeq)
	w.pending[key] = tasks
	w.evSeq++
	bkey := fmt.Sprintf("ev-%d", w.evSeq)
	done := make(chan struct{})
	w.barrier[bkey] = done
	w.mu.Unlock()
	var sendFailed atomic.Bool
	send := func(k string) {
		var ok bool
		if viaKube {
			select {
			case w.kem.ch <- kemtypes.KubeEvent{MonitorId: k}:
				ok = true
			case <-time.After(wStepTimeout):
			}
		} else {
			select {
			case w.sm.Ch() <- k:
				ok = true
			case <-time.After(wStepTimeout):
			}
		}
		if !ok {
			sendFailed.Store(true)
		}
	}
	var once sync.Once
	fire := func() {
		once.Do(func() {
			go func() {
				send(key)
				send(bkey)
			}()
		})
	}
	window := func() {
		fire()
		select {
		case <-done:
		case <-time.After(25 * time.Millisecond):
		}
	}
	opLine := fmt.Sprintf("filterdeliver %d %s %s", n, joinInts(keep), joinStrs(parts))
	fdone := make(chan struct{})
	go func() {
		defer close(fdone)
		tq := w.tqs.GetByName(q.name)
		i := 0
		tq.Iterate(func(task.Task) {
			if inIterate && i == at {
				window()
			}
			i++
		})
		i = 0
		tq.Filter(func(t task.Task) bool {
			if !inIterate && i == at {
				window()
			}
			i++
			return !dropSet[taskID(t)]
		})
	}()
	for waiting := true; waiting; {
		select {
		case a := <-q.arrive:
			a.Release()
		case <-fdone:
			waiting = false
		case <-time.After(20 * time.Second):
			w.bad = "hang"
			hangs.Add(1)
			w.c.Op(opLine, "hang")
			return
		}
	}
	fire() // the queue was shorter than `at`: the event arrives right after the compaction
	select {
	case <-done:
	case <-time.After(wStepTimeout):
		w.bad = "timeout"
	}
	if sendFailed.Load() {
		w.bad = "timeout"
	}
	if w.bad != "" {
		hangs.Add(1)
		w.c.Op(opLine, "hang")
		return
	}
	for _, d := range ts {
		if _, ok := w.qs[d.q]; ok {
			w.ev(fmt.Sprintf("r%d:%d", d.q, d.t))
		} else {
			w.ev(fmt.Sprintf("d%d:%d", d.q, d.t))
		}
	}
	w.c.Op(opLine, w.obs())
	for _, m := range w.order {
		if m == n {
			w.c.Oracle(fmt.Sprintf("compacted q=%d before=%s drop=%s ts=%s after=%s", m, before[m], joinInts(drop), joinStrs(parts), itemsOf(w.qs[m].q)))
		} else {
			w.c.Oracle(fmt.Sprintf("routing q=%d before=%s ts=%s after=%s", m, before[m], joinStrs(parts), itemsOf(w.qs[m].q)))
		}
	}
}

func c03FilterWindow(c *Case, rng *Rng) {
	if tooManyHangs(c) {
		return
	}
	w := newWorld(c, fmt.Sprintf("c03f-%d", c.Idx))
	defer w.close()
	nq := rng.Range(1, 3)
	for i := 1; i <= nq; i++ {
		w.opNew(i, true)
		w.opStart(i)
	}
	next := 0
	var first []delivery
	for j := rng.Range(3, 6); j > 0; j-- {
		next++
		first = append(first, delivery{1, next})
	}
	w.opDeliver(first, rng.Bool(), "deliver")
	c.Desc = fmt.Sprintf("filter-window: %d queue(s), %d task(s) in queue 1; events delivered from inside the worker's queue dump and from inside the Iterate / Filter callbacks of the handler's compaction", nq, len(first))
	var dropped []int
	rounds := rng.Range(1, 3)
	gate := &dumpGate{}
	arm := func() {
		w.qs[1].q.Iterate(func(t task.Task) { t.UpdateMetadata(gate) })
	}
	for round := 0; round < rounds && w.bad == ""; round++ {
		// towards the handler; on the way the worker dumps its queue (after the wait, after a result):
		// half of those steps with an event arriving from inside the dump
		for i := 0; i < 12; i++ {
			q := w.qs[1]
			if (q.at == "afterCheck" || q.at == "afterHandler") && q.q.Length() > 0 && w.bad == "" && rng.Chance(50) {
				var ts []delivery
				for j := rng.Range(1, 2); j > 0; j-- {
					next++
					qn := 1
					if rng.Chance(25) {
						qn = rng.Range(1, nq)
					}
					ts = append(ts, delivery{qn, next})
				}
				arm()
				w.opGoDeliver(1, ts, rng.Bool(), gate)
				c.Note("filterwindow:event-during-queue-dump")
				continue
			}
			if !w.stepOnce(1) {
				break
			}
		}
		if w.bad != "" || !strings.HasPrefix(w.qs[1].at, "run:") {
			break
		}
		q := w.qs[1]
		// the followers of the running task, some of them dropped (combined into the running one)
		var followers []int
		q.q.Iterate(func(t task.Task) {
			if id := taskID(t); id != q.cur {
				if k, err := strconv.Atoi(id); err == nil {
					followers = append(followers, k)
				}
			}
		})
		var drop []int
		for i, f := range followers {
			if (i == 0 && rng.Chance(75)) || (i > 0 && rng.Chance(35)) {
				drop = append(drop, f)
			}
		}
		var ts []delivery
		for j := rng.Range(1, 3); j > 0; j-- {
			next++
			qn := 1
			if rng.Chance(25) {
				qn = rng.Range(1, nq)
			}
			ts = append(ts, delivery{qn, next})
		}
		at := rng.Intn(len(followers) + 1)
		inIter := rng.Chance(30)
		w.opFilterDeliver(1, drop, ts, rng.Bool(), at, inIter)
		dropped = append(dropped, drop...)
		if len(drop) > 0 {
			c.Note("filterwindow:dropped-followers")
		}
		if inIter {
			c.Note("filterwindow:event-during-iterate")
		} else {
			c.Note("filterwindow:event-during-filter")
		}
		if w.bad != "" {
			break
		}
		w.opRet(1, plainResult(rng))
	}
	w.drain(func(int, string) wResult { return wResult{status: "success"} }, 400)
	if w.bad != "" {
		c.Op("harness-timeout", "hang")
		return
	}
	w.oracleLog()
	c.Desc = fmt.Sprintf("filter-window: %d queue(s), %d task(s) in queue 1, %d compaction(s) by the handler of queue 1 with an event delivered from inside the Iterate/Filter callback; dropped %s", nq, len(first), rounds, joinInts(dropped))
	c.Oracle(fmt.Sprintf("orderkept q=%s drop=%s ev=%s", w.names(), joinInts(dropped), w.traceStr()))
	c.Note("kind:filter-window")
	c.Nontrivial = len(w.trace) >= 10
}

// ---------------------------------------------------------------- whole operator with admission bindings

type whHook struct {
	name     string
	bindings []*mBinding // schedule / kubernetes bindings (queue bindings)
	webhooks []string    // "validating", "mutating"
}

func c03WebhookName(kind string, h *whHook) string {
	switch kind {
	case "mutating":
		return "m-" + h.name + ".c03.example.com"
	case "conversion":
		return "c-" + h.name + ".c03.example.com"
	}
	return "v-" + h.name + ".c03.example.com"
}

func (h *whHook) configText() string {
	var b strings.Builder
	b.WriteString("configVersion: v1\n")
	var sch, kub []*mBinding
	for _, x := range h.bindings {
		if x.kube {
			kub = append(kub, x)
		} else {
			sch = append(sch, x)
		}
	}
	if len(sch) > 0 {
		b.WriteString("schedule:\n")
		for _, x := range sch {
			fmt.Fprintf(&b, "- name: %s\n  crontab: \"%s\"\n", x.name, x.crontab)
			if x.qname != "" {
				fmt.Fprintf(&b, "  queue: %q\n", x.qname)
			}
		}
	}
	if len(kub) > 0 {
		b.WriteString("kubernetes:\n")
		for _, x := range kub {
			fmt.Fprintf(&b, "- name: %s\n  kind: ConfigMap\n  executeHookOnEvent: [\"Added\"]\n  executeHookOnSynchronization: false\n", x.name)
			if x.qname != "" {
				fmt.Fprintf(&b, "  queue: %q\n", x.qname)
			}
			b.WriteString(x.extra)
		}
	}
	for _, k := range h.webhooks {
		if k == "conversion" {
			fmt.Fprintf(&b, "kubernetesCustomResourceConversion:\n- name: %s\n  crdName: things-%s.c03.example.com\n  conversions:\n  - fromVersion: v1alpha1\n    toVersion: v1beta1\n", c03WebhookName(k, h), h.name)
		} else if k == "mutating" {
			fmt.Fprintf(&b, "kubernetesMutating:\n- name: %s\n  rules:\n  - operations: [\"CREATE\", \"UPDATE\"]\n    apiGroups: [\"apps\"]\n    apiVersions: [\"v1\"]\n    resources: [\"deployments\"]\n", c03WebhookName(k, h))
		} else {
			fmt.Fprintf(&b, "kubernetesValidating:\n- name: %s\n  rules:\n  - operations: [\"CREATE\"]\n    apiGroups: [\"\"]\n    apiVersions: [\"v1\"]\n    resources: [\"pods\"]\n", c03WebhookName(k, h))
		}
	}
	return b.String()
}

func writeWebhookHook(dir string, h *whHook) error {
	script := fmt.Sprintf(`#!/usr/bin/env bash
if [[ "$1" == "--config" ]]; then
cat <<'EOF'
%sEOF
exit 0
fi
D=%s
H=%s
bs=$(jq -r '.[].binding' "$BINDING_CONTEXT_PATH")
echo "start $H $$ $(echo $bs | tr ' ' ',')" >> $D/run.log
if [[ -n "${VALIDATING_RESPONSE_PATH:-}" ]]; then echo '{"allowed":true}' > "$VALIDATING_RESPONSE_PATH"; fi
if [[ -n "${CONVERSION_RESPONSE_PATH:-}" ]]; then echo '{"convertedObjects":[{"apiVersion":"c03.example.com/v1beta1","kind":"Thing","metadata":{"name":"t"}}]}' > "$CONVERSION_RESPONSE_PATH"; fi
for b in $bs; do
  while [[ -e $D/block-$H-$b ]]; do sleep 0.005; done
done
echo "end $H $$ 0" >> $D/run.log
exit 0
`, h.configText(), dir, h.name)
	return os.WriteFile(filepath.Join(dir, "hooks", h.name+".sh"), []byte(script), 0o755)
}

func c03OperatorWebhook(r *Run, c *Case, rng *Rng) {
	if tooManyHangs(c) {
		return
	}
	dir := filepath.Join(r.Scratch, fmt.Sprintf("c03wh-%d", c.Idx))
	if abs, err := filepath.Abs(dir); err == nil {
		dir = abs
	}
	_ = os.MkdirAll(filepath.Join(dir, "hooks"), 0o755)
	_ = os.MkdirAll(filepath.Join(dir, "tmp"), 0o755)
	defer os.RemoveAll(dir)
	logFile := filepath.Join(dir, "run.log")

	// ---- the hooks. Queue settings: no key / `main` written out (the same queue) / a named queue
	type qset struct {
		written string
		no      int // 0 = main, 1 = the named queue
	}
	named := PickOne(rng, []string{"qw", "qw", "Main", "main1"})
	settings := []qset{{"", 0}, {"main", 0}, {named, 1}}
	specName := func(no int) string {
		if no == 0 {
			return "main"
		}
		return named
	}
	crontabs := []string{"1 1 1 1 *", "2 2 2 2 *"}
	nh := rng.Range(1, 3)
	var hooks []*whHook
	var pairs []*mBinding
	for i := 1; i <= nh; i++ {
		h := &whHook{name: fmt.Sprintf("h%d", i)}
		mh := &mHook{idx: i, name: h.name}
		for j := rng.Range(1, 2); j > 0; j-- {
			s := PickOne(rng, settings)
			b := &mBinding{hook: mh, name: fmt.Sprintf("s%d", len(h.bindings)+1), crontab: PickOne(rng, crontabs), queueNo: s.no, qname: s.written}
			h.bindings = append(h.bindings, b)
		}
		if rng.Chance(40) {
			s := PickOne(rng, settings)
			b := &mBinding{hook: mh, name: "k1", kube: true, queueNo: s.no, qname: s.written}
			b.extra, _ = c03KubeExtras(rng, true, false)
			h.bindings = append(h.bindings, b)
		}
		if i == 1 || rng.Chance(50) {
			kinds := []string{"validating", "mutating", "conversion"}
			rng.Shuffle(len(kinds), func(a, b int) { kinds[a], kinds[b] = kinds[b], kinds[a] })
			h.webhooks = kinds[:1]
			if rng.Chance(35) {
				h.webhooks = kinds[:2]
			}
		}
		if i == 1 {
			// the hook whose execution will hang at the head of its queue: mostly the main queue
			s := settings[rng.Intn(2)]
			if rng.Chance(25) {
				s = settings[2]
			}
			h.bindings[0].queueNo, h.bindings[0].qname = s.no, s.written
		}
		for _, b := range h.bindings {
			pairs = append(pairs, b)
			b.pair = len(pairs)
		}
		hooks = append(hooks, h)
		if err := writeWebhookHook(dir, h); err != nil {
			c.Inconcl = "cannot write hook: " + err.Error()
			return
		}
	}
	target := hooks[0]
	tb := target.bindings[0]
	targetQ := specName(tb.queueNo)
	var cfgDesc []string
	for _, h := range hooks {
		for _, b := range h.bindings {
			k := strings.ReplaceAll(b.crontab, " ", "_")
			if b.kube {
				k = "ConfigMap"
			}
			qd := b.qname
			if qd == "" {
				qd = "-"
			}
			cfgDesc = append(cfgDesc, fmt.Sprintf("%s.%s[%s]:%s", h.name, b.name, k, qd))
		}
		for _, k := range h.webhooks {
			cfgDesc = append(cfgDesc, h.name+"."+k)
		}
	}
	c.Desc = "webhook hooks " + strings.Join(cfgDesc, " ") + "; " + target.name + "." + tb.name + " hangs at the head of " + targetQ

	// ---- the operator
	fc := fake.NewFakeCluster(fake.ClusterVersionV121)
	ctx, cancel := context.WithCancel(context.Background())
	defer cancel()
	assemble := func() (*shell_operator.ShellOperator, error) {
		return shell_operator.VerifAssembleC01(ctx, fc.Client, filepath.Join(dir, "hooks"), filepath.Join(dir, "tmp"), c03OpMetrics, c03OpMetrics)
	}
	op, err := assemble()
	for try := 0; err != nil && strings.Contains(err.Error(), "text file busy") && try < 10; try++ {
		time.Sleep(30 * time.Millisecond)
		op, err = assemble()
	}
	if err != nil && strings.Contains(err.Error(), "text file busy") {
		c.Inconcl = "hook script busy (fork/exec race between parallel cases)"
		return
	}
	if err != nil {
		c.Oracle("opflag what=assembled:" + strings.ReplaceAll(firstLine(err.Error()), " ", "_") + " ok=false")
		return
	}
	ca := filepath.Join(dir, "ca.crt")
	_ = os.WriteFile(ca, []byte("not a certificate: only read into CABundle\n"), 0o644)
	needAdmit, needConv := false, false
	for _, h := range hooks {
		for _, k := range h.webhooks {
			if k == "conversion" {
				needConv = true
			} else {
				needAdmit = true
			}
		}
	}
	var admitRouter, convRouter http.Handler
	if needAdmit {
		admit, err := op.VerifC18InitAdmission(ca, filepath.Join(dir, "tmp"))
		if err != nil || admit == nil {
			c.Oracle("opflag what=admission-handler-installed ok=false")
			return
		}
		admitRouter = admit.Router
	}
	if needConv {
		conv := op.VerifC03InitConversion()
		if conv == nil {
			c.Oracle("opflag what=conversion-handler-installed ok=false")
			return
		}
		convRouter = conv.Router
	}
	rec := &mRecorder{}
	toTasks := func(ts []task.Task) []mTask {
		var out []mTask
		for _, t := range ts {
			hm := task_metadata.HookMetadataAccessor(t)
			out = append(out, mTask{hm.HookName, hm.Binding, t.GetQueueName()})
		}
		return out
	}
	op.VerifC03RunObserved(func(q *queue.TaskQueue) {
		q.WaitLoopCheckInterval = time.Millisecond
		q.DelayOnQueueIsEmpty = time.Millisecond
		q.DelayOnRepeat = time.Millisecond
		q.ExponentialBackoffFn = func(int) time.Duration { return 2 * time.Millisecond }
	}, func(q *queue.TaskQueue, h func(task.Task) queue.TaskResult) func(task.Task) queue.TaskResult {
		name := q.Name
		return func(t task.Task) queue.TaskResult {
			if t.GetType() != task_metadata.HookRun {
				return h(t)
			}
			hm := task_metadata.HookMetadataAccessor(t)
			if hm.IsSynchronization() || len(hm.BindingContext) == 0 {
				return h(t)
			}
			hd := q.GetFirst()
			rec.add(mRec{kind: "S", queue: name, hook: hm.HookName, first: hm.BindingContext[0].Binding,
				headSelf: hd != nil && hd.GetId() == t.GetId()})
			res := h(t)
			hm = task_metadata.HookMetadataAccessor(t)
			var bs []string
			for _, bc := range hm.BindingContext {
				bs = append(bs, bc.Binding)
			}
			rec.add(mRec{kind: "F", queue: name, hook: hm.HookName, bindings: bs, status: string(res.Status)})
			return res
		}
	}, func(kind, key string, ts []task.Task) {
		rec.add(mRec{kind: "recv", key: kind + ":" + key, tasks: toTasks(ts)})
	})
	blockFile := filepath.Join(dir, "block-"+target.name+"-"+tb.name)
	defer func() {
		_ = os.Remove(blockFile)
		op.KubeEventsManager.PauseHandleEvents()
		op.TaskQueues.Stop()
		time.Sleep(10 * time.Millisecond)
	}()
	caseStart := time.Now()
	tooSlow := false
	var admitDone atomic.Int64
	activity := func() int {
		return 1000*op.TaskQueues.GetMain().Length() + rec.len() + len(readLog(logFile)) + 7*int(admitDone.Load())
	}
	waitFor := func(cond func() bool, d time.Duration) bool {
		last, lastN := time.Now(), activity()
		for i := 0; ; i++ {
			if cond() {
				return true
			}
			if i%4 == 0 {
				if n := activity(); n != lastN {
					last, lastN = time.Now(), n
				}
			}
			if time.Since(last) > d {
				return cond()
			}
			if time.Since(caseStart) > 45*time.Second {
				tooSlow = true
				return cond()
			}
			time.Sleep(2 * time.Millisecond)
		}
	}
	if !waitFor(func() bool { return op.TaskQueues.GetMain().Length() == 0 }, 15*time.Second) {
		if tooSlow {
			c.Inconcl = "start-up still making progress after 45 s (machine load): undecided"
			return
		}
		hangs.Add(1)
		c.Oracle("opflag what=startup-tasks-of-main-done ok=false")
		return
	}
	monitorOf := map[string]*mBinding{}
	for _, h := range hooks {
		hk := op.HookManager.GetHook(h.name + ".sh")
		if hk == nil {
			c.Oracle("opflag what=hook-loaded:" + h.name + " ok=false")
			return
		}
		for _, kc := range hk.GetConfig().OnKubernetesEvents {
			for _, b := range h.bindings {
				if b.kube && b.name == kc.BindingName && kc.Monitor != nil {
					b.monitor = kc.Monitor.Metadata.MonitorId
					monitorOf[b.monitor] = b
				}
			}
		}
	}
	wantQ := map[string]bool{"main": true}
	for _, b := range pairs {
		wantQ[specName(b.queueNo)] = true
	}
	var want, got []string
	for k := range wantQ {
		want = append(want, k)
	}
	sort.Strings(want)
	op.TaskQueues.Iterate(func(q *queue.TaskQueue) { got = append(got, showQueueName(q.Name)) })
	sort.Strings(got)
	c.Oracle(fmt.Sprintf("queueset want=%s got=%s", joinStrs(want), joinStrs(got)))

	// ---- events
	const sentinel = "0 0 31 2 *"
	sentTicks, sentKube := 0, 0
	tick := func(crontab string) bool {
		select {
		case op.ScheduleManager.Ch() <- crontab:
			sentTicks++
			return true
		case <-time.After(wStepTimeout):
			return false
		}
	}
	nObj := 0
	var kubeBindings []*mBinding
	for _, b := range pairs {
		if b.kube && b.monitor != "" {
			kubeBindings = append(kubeBindings, b)
		}
	}
	kubeEvent := func(b *mBinding) bool {
		nObj++
		obj := &unstructured.Unstructured{Object: map[string]interface{}{"apiVersion": "v1", "kind": "ConfigMap",
			"metadata": map[string]interface{}{"name": fmt.Sprintf("o%d", nObj), "namespace": "default"},
			"data":     map[string]interface{}{"v": strconv.Itoa(nObj)}}}
		ev := kemtypes.KubeEvent{MonitorId: b.monitor, Type: kemtypes.TypeEvent,
			WatchEvents: []kemtypes.WatchEventType{kemtypes.WatchEventAdded},
			Objects:     []kemtypes.ObjectAndFilterResult{{Object: obj}}}
		ev.Objects[0].Metadata.ResourceId = fmt.Sprintf("default/ConfigMap/o%d", nObj)
		select {
		case op.KubeEventsManager.Ch() <- ev:
			sentKube++
			return true
		case <-time.After(wStepTimeout):
			return false
		}
	}
	received := func(prefix string) int {
		n := 0
		for _, x := range rec.snapshot() {
			if x.kind == "recv" && strings.HasPrefix(x.key, prefix) {
				n++
			}
		}
		return n
	}
	allIdle := func(except string) bool {
		idle := true
		op.TaskQueues.Iterate(func(q *queue.TaskQueue) {
			if q.Name != except && q.Length() > 0 {
				idle = false
			}
		})
		if !idle {
			return false
		}
		open := map[string]int{}
		for _, x := range rec.snapshot() {
			if x.kind == "S" {
				open[x.queue]++
			} else if x.kind == "F" {
				open[x.queue]--
			}
		}
		for qn, n := range open {
			if qn != except && n > 0 {
				return false
			}
		}
		return true
	}
	placed := func() string {
		if !waitFor(func() bool { return received("schedule:") >= sentTicks }, 15*time.Second) {
			return "consumer-stuck"
		}
		if !waitFor(func() bool { return received("kubernetes:") >= sentKube }, 15*time.Second) {
			return "kube-events-missing"
		}
		if !tick(sentinel) || !waitFor(func() bool { return received("schedule:") >= sentTicks }, 15*time.Second) {
			return "consumer-stuck"
		}
		return ""
	}
	startsWith := func(hook, binding string) int {
		n := 0
		for _, l := range readLog(logFile) {
			f := strings.Fields(l)
			if len(f) == 4 && f[0] == "start" && f[1] == hook {
				for _, bn := range strings.Split(f[3], ",") {
					if bn == binding {
						n++
						break
					}
				}
			}
		}
		return n
	}
	// 1. the execution of the target hook for its first binding hangs at the head of its queue
	_ = os.WriteFile(blockFile, nil, 0o644)
	ok := tick(tb.crontab)
	why := ""
	if ok {
		why = placed()
	}
	ok = ok && why == "" && waitFor(func() bool { return startsWith(target.name, tb.name) > 0 || allIdle("") }, 15*time.Second)
	hanging := startsWith(target.name, tb.name) > 0
	// 2. followers: more ticks (that crontab at least once more) and objects
	total := rng.Range(2, 5)
	must := rng.Intn(total)
	for i := 0; i < total && ok; i++ {
		switch {
		case i == must:
			ok = tick(tb.crontab)
		case len(kubeBindings) > 0 && rng.Chance(30):
			ok = kubeEvent(PickOne(rng, kubeBindings))
		default:
			ok = tick(PickOne(rng, crontabs))
		}
	}
	if ok && why == "" {
		why = placed()
	}
	// the real name of the queue the hanging execution sits in: everything else runs dry
	realQ := targetQ
	settled := ok && why == "" && waitFor(func() bool { return allIdle(realQ) }, 15*time.Second)
	// 3. admission requests through the real router while that queue is stalled
	ids := map[string]int{}
	itemsNow := func(q *queue.TaskQueue) string {
		var l []string
		q.Iterate(func(t task.Task) {
			if _, ok := ids[t.GetId()]; !ok {
				ids[t.GetId()] = len(ids) + 1
			}
			l = append(l, strconv.Itoa(ids[t.GetId()]))
		})
		return joinStrs(l)
	}
	type snap struct{ name, items string }
	snapshotQueues := func() []snap {
		var out []snap
		op.TaskQueues.Iterate(func(q *queue.TaskQueue) { out = append(out, snap{q.Name, itemsNow(q)}) })
		sort.Slice(out, func(i, j int) bool { return out[i].name < out[j].name })
		return out
	}
	var beforeQ, afterQ []snap
	type admitReq struct {
		hook *whHook
		kind string
	}
	var reqs []admitReq
	var withHooks []*whHook
	for _, h := range hooks {
		if len(h.webhooks) > 0 {
			withHooks = append(withHooks, h)
		}
	}
	for j := rng.Range(1, 3); j > 0; j-- {
		h := PickOne(rng, withHooks)
		if j == 1 {
			h = target
		}
		reqs = append(reqs, admitReq{h, PickOne(rng, h.webhooks)})
	}
	answers := make([]string, len(reqs))
	var awg sync.WaitGroup
	if settled && hanging {
		beforeQ = snapshotQueues()
		for i, a := range reqs {
			name := c03WebhookName(a.kind, a.hook)
			seen := startsWith(a.hook.name, name)
			awg.Add(1)
			var answered atomic.Bool
			go func(i int, a admitReq) {
				defer awg.Done()
				defer answered.Store(true)
				defer admitDone.Add(1)
				defer func() {
					if p := recover(); p != nil {
						answers[i] = "panic"
					}
				}()
				if a.kind == "conversion" {
					body := fmt.Sprintf(`{"apiVersion":"apiextensions.k8s.io/v1","kind":"ConversionReview","request":{"uid":"c03-%d-%d","desiredAPIVersion":"c03.example.com/v1beta1","objects":[{"apiVersion":"c03.example.com/v1alpha1","kind":"Thing","metadata":{"name":"t"}}]}}`, c.Idx, i)
					req := httptest.NewRequest(http.MethodPost, "/things-"+a.hook.name+".c03.example.com", bytes.NewReader([]byte(body)))
					req.Header.Set("Content-Type", "application/json")
					rr := httptest.NewRecorder()
					convRouter.ServeHTTP(rr, req)
					var rv struct {
						Response *struct {
							Result struct {
								Status string `json:"status"`
							} `json:"result"`
						} `json:"response"`
					}
					switch {
					case rr.Code != http.StatusOK:
						answers[i] = fmt.Sprintf("http-%d", rr.Code)
					case json.Unmarshal(rr.Body.Bytes(), &rv) != nil || rv.Response == nil:
						answers[i] = "bad-answer"
					case rv.Response.Result.Status != "Success":
						answers[i] = "failed"
					default:
						answers[i] = "allowed"
					}
					return
				}
				body := fmt.Sprintf(`{"apiVersion":"admission.k8s.io/v1","kind":"AdmissionReview","request":{"uid":"c03-%d-%d","kind":{"group":"","version":"v1","kind":"Pod"},"resource":{"group":"","version":"v1","resource":"pods"},"name":"p","namespace":"default","operation":"CREATE","object":{"apiVersion":"v1","kind":"Pod","metadata":{"name":"p"}}}}`, c.Idx, i)
				req := httptest.NewRequest(http.MethodPost, "/x", bytes.NewReader([]byte(body)))
				req.URL.Path = "/hooks/" + string_helper.SafeURLString(name)
				req.Header.Set("Content-Type", "application/json")
				rr := httptest.NewRecorder()
				admitRouter.ServeHTTP(rr, req)
				var rv struct {
					Response *struct {
						Allowed bool `json:"allowed"`
					} `json:"response"`
				}
				switch {
				case rr.Code != http.StatusOK:
					answers[i] = fmt.Sprintf("http-%d", rr.Code)
				case json.Unmarshal(rr.Body.Bytes(), &rv) != nil || rv.Response == nil:
					answers[i] = "bad-answer"
				case !rv.Response.Allowed:
					answers[i] = "denied"
				default:
					answers[i] = "allowed"
				}
			}(i, a)
			// until it is answered, or its hook process has at least begun (it may hang with what it was given)
			waitFor(func() bool { return answered.Load() || startsWith(a.hook.name, name) > seen }, 15*time.Second)
		}
		afterQ = snapshotQueues()
	}
	// 4. release, let everything drain
	_ = os.Remove(blockFile)
	adone := make(chan struct{})
	go func() { awg.Wait(); close(adone) }()
	allAnswered := waitFor(func() bool {
		select {
		case <-adone:
			return true
		default:
			return false
		}
	}, 15*time.Second)
	drained := why == "" && waitFor(func() bool { return allIdle("") }, 15*time.Second)
	if (!drained || !allAnswered) && !tooSlow {
		hangs.Add(1)
	}
	full := rec.snapshot()
	procLines := readLog(logFile)
	if tooSlow {
		c.Inconcl = "still making progress after 45 s (machine load): undecided"
		return
	}

	// ---- oracles
	c.Oracle(fmt.Sprintf("opflag what=hanging-execution-at-the-head-of-%s-started ok=%v", showQueueName(targetQ), hanging))
	c.Oracle(fmt.Sprintf("opflag what=events-placed-and-other-queues-idle:%s ok=%v", why, settled))
	if settled && hanging {
		for i, b := range beforeQ {
			a := "-"
			if i < len(afterQ) && afterQ[i].name == b.name {
				a = afterQ[i].items
			}
			c.Oracle(fmt.Sprintf("untouched q=%s before=%s after=%s", showQueueName(b.name), b.items, a))
		}
		for i := range reqs {
			c.Oracle(fmt.Sprintf("opflag what=%s-request-%d-of-%s-answered-positively:%s ok=%v", reqs[i].kind, i, reqs[i].hook.name, answers[i], answers[i] == "allowed"))
			c.Note("webhook:request-" + reqs[i].kind)
		}
	}
	c.Oracle(fmt.Sprintf("opflag what=all-queues-drained ok=%v", drained))

	// the taps' trace: arrivals carry the configured queue, starts the queue that really ran them
	qNum := map[string]int{"main": 1, named: 2}
	numOf := func(name string) int {
		if n, ok := qNum[name]; ok {
			return n
		}
		qNum[name] = 50 + len(qNum)
		return qNum[name]
	}
	find := func(hook, binding string) *mBinding {
		for _, b := range pairs {
			if b.hook.name+".sh" == hook && b.name == binding {
				return b
			}
		}
		return nil
	}
	expected := func(key string) []*mBinding {
		var out []*mBinding
		if strings.HasPrefix(key, "schedule:") {
			ct := strings.TrimPrefix(key, "schedule:")
			for _, b := range pairs {
				if !b.kube && b.crontab == ct {
					out = append(out, b)
				}
			}
		} else if b := monitorOf[strings.TrimPrefix(key, "kubernetes:")]; b != nil {
			out = append(out, b)
		}
		return out
	}
	unknown := 0
	var ev []string
	fanSeen := map[string]bool{}
	for _, x := range full {
		switch x.kind {
		case "recv":
			exp := expected(x.key)
			left := append([]*mBinding(nil), exp...)
			emit := func(b *mBinding) {
				b.arrived++
				ev = append(ev, fmt.Sprintf("r%d:%d", b.queueNo+1, b.pair*1000+b.arrived))
			}
			for _, t := range x.tasks {
				for i, b := range left {
					if b != nil && b.hook.name+".sh" == t.hook && b.name == t.binding {
						emit(b)
						left[i] = nil
						break
					}
				}
			}
			for _, b := range left {
				if b != nil {
					emit(b)
				}
			}
			if len(exp) > 0 || len(x.tasks) > 0 {
				var cfg, gotT []string
				for _, b := range exp {
					q := b.qname
					if q == "" {
						q = "-"
					}
					cfg = append(cfg, fmt.Sprintf("%s.%s:%s", b.hook.name, b.name, q))
				}
				for _, t := range x.tasks {
					gotT = append(gotT, fmt.Sprintf("%s.%s=%s", strings.TrimSuffix(t.hook, ".sh"), t.binding, showQueueName(t.queue)))
				}
				sort.Strings(cfg)
				sort.Strings(gotT)
				k := joinStrs(cfg) + " got=" + joinStrs(gotT)
				if !fanSeen[k] {
					fanSeen[k] = true
					kind := "schedule"
					if strings.HasPrefix(x.key, "kubernetes:") {
						kind = "kubernetes"
					}
					c.Oracle(fmt.Sprintf("fanout kind=%s cfg=%s", kind, k))
				}
			}
		case "S":
			id := 0
			if b := find(x.hook, x.first); b != nil {
				id = b.pair*1000 + b.done + 1
			} else {
				unknown++
				id = 999000 + unknown
			}
			hd := strconv.Itoa(id)
			if !x.headSelf {
				hd = "999999"
			}
			ev = append(ev, fmt.Sprintf("s%d:%d:%s", numOf(x.queue), id, hd))
		case "F":
			qn := numOf(x.queue)
			if x.status != "Success" {
				id := 999000 + unknown
				if len(x.bindings) > 0 {
					if b := find(x.hook, x.bindings[0]); b != nil {
						id = b.pair*1000 + b.done + 1
					}
				}
				ev = append(ev, fmt.Sprintf("f%d:%d", qn, id))
				continue
			}
			for i, bn := range x.bindings {
				id := 999000 + unknown
				if b := find(x.hook, bn); b != nil {
					b.done++
					id = b.pair*1000 + b.done
				}
				if i > 0 {
					ev = append(ev, fmt.Sprintf("s%d:%d:%d", qn, id, id))
				}
				ev = append(ev, fmt.Sprintf("f%d:%d", qn, id))
			}
		}
	}
	qseen := map[int]bool{}
	for _, n := range want {
		qseen[numOf(n)] = true
	}
	for _, x := range full {
		if x.kind != "recv" {
			qseen[numOf(x.queue)] = true
		}
	}
	var qs []int
	for n := range qseen {
		qs = append(qs, n)
	}
	sort.Ints(qs)
	trace := joinStrs(ev)
	c.Oracle(fmt.Sprintf("logfree q=%s ev=%s", joinInts(qs), trace))
	c.Oracle(fmt.Sprintf("order q=%s ev=%s", joinInts(qs), trace))
	c.Oracle(fmt.Sprintf("complete q=%s ev=%s", joinInts(qs), trace))

	// the processes' own trace: an execution belongs to the queues of the bindings whose contexts it was given
	var pev []string
	pidNo := map[string]int{}
	pidQs := map[string][]int{}
	for _, l := range procLines {
		f := strings.Fields(l)
		switch {
		case len(f) == 4 && f[0] == "start":
			key := f[1] + "/" + f[2]
			pidNo[key] = len(pidNo) + 1
			seen := map[int]bool{}
			for _, bn := range strings.Split(f[3], ",") {
				if b := find(f[1]+".sh", bn); b != nil && !seen[b.queueNo+1] {
					seen[b.queueNo+1] = true
					pidQs[key] = append(pidQs[key], b.queueNo+1)
				}
			}
			sort.Ints(pidQs[key])
			for _, q := range pidQs[key] {
				pev = append(pev, fmt.Sprintf("s%d:%d:%d", q, pidNo[key], pidNo[key]))
			}
		case len(f) == 4 && f[0] == "end":
			key := f[1] + "/" + f[2]
			for _, q := range pidQs[key] {
				pev = append(pev, fmt.Sprintf("f%d:%d", q, pidNo[key]))
			}
		}
	}
	c.Oracle(fmt.Sprintf("logfree q=1,2 ev=%s", joinStrs(pev)))
	c.Nontrivial = hanging && settled
	c.Note("kind:whole-operator-webhook")
	c.Note("webhook:hanging-queue-" + map[bool]string{true: "main", false: "named"}[tb.queueNo == 0])
	if len(reqs) > 1 {
		c.Note("webhook:several-requests")
	}
}
