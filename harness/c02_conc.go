package main

// C02, changes arriving concurrently with the snapshot read: the reader of monitor.Snapshot() is
// parked at the yield points between the per-informer reads (build tag verif), the cluster is
// changed and the informers are given time to take the change in, then the reader continues.

import (
	"fmt"
	"sort"
	"time"

	kem "github.com/flant/shell-operator/pkg/kube_events_manager"
	kemtypes "github.com/flant/shell-operator/pkg/kube_events_manager/types"
)

// waitCaches waits until every informer's cache holds exactly the keys the cluster holds for its
// scope (creations and deletions are what the window applies, so the key set tells).
func (e *c02Env) waitCaches(m *c02Mon) bool {
	mon := m.mgr.GetMonitor(m.id)
	deadline := time.Now().Add(10 * time.Second)
	for {
		ok := e.cl.drained(mon, m.spec)
		if ok {
			for _, inf := range kem.VerifC02Describe(mon) {
				want := map[string]bool{}
				e.cl.mu.Lock()
				for k, v := range e.cl.objs {
					one := m.spec
					one.nss = []int{c02NsRank(inf.Namespace)}
					one.names = nil
					if inf.Name != "" {
						one.names = []int{c02NameRank(inf.Name)}
					}
					if one.matches(e.cl, k, v) {
						want[c02Namespaces[k.ns-1]+"/"+c02Kinds[k.kind-1]+"/"+c02Names[k.name-1]] = true
					}
				}
				e.cl.mu.Unlock()
				if len(want) != len(inf.CacheIDs) {
					ok = false
				}
				for _, id := range inf.CacheIDs {
					if !want[id] {
						ok = false
					}
				}
			}
		}
		if ok {
			return true
		}
		if time.Now().After(deadline) {
			return false
		}
		time.Sleep(time.Millisecond)
	}
}

func c02ConcCase(c *Case, rng *Rng) {
	rng = NewRng(rng.U64()) // the lib derives neighbouring cases from shifted copies of one stream
	kem.DefaultSyncTime = time.Millisecond
	e := &c02Env{c: c, cl: newC02Cluster(c.Idx)}
	c.Op(c02RidLine(), "ok")
	for ns := 1; ns <= 4; ns++ {
		e.op(e.cl.nsSet(ns, 0))
	}
	spec := c02MonSpec{id: 1, kind: 1, keep: rng.Bool(), flt: rng.Intn(3)}
	if spec.flt == 1 && rng.Chance(50) {
		spec.prog = c02GenProg(rng)
	}
	perm := []int{1, 2, 3, 4}
	rng.Shuffle(4, func(i, j int) { perm[i], perm[j] = perm[j], perm[i] })
	spec.nss = append([]int{}, perm[:rng.Range(2, 3)]...)
	if rng.Chance(30) {
		spec.names = []int{rng.Range(1, 2), rng.Range(3, 4)}
	}
	randomKey := func() c02Key {
		k := c02Key{ns: PickOne(rng, spec.nss), kind: 1, name: rng.Range(1, 4)}
		if len(spec.names) > 0 && rng.Chance(80) {
			k.name = PickOne(rng, spec.names)
		}
		return k
	}
	for i := rng.Range(1, 5); i > 0; i-- {
		k := randomKey()
		e.cl.mu.Lock()
		_, exists := e.cl.objs[k]
		e.cl.mu.Unlock()
		if !exists {
			e.op(e.cl.set(k, c02Val{a: rng.Range(1, 9), b: rng.Range(1, 9)}))
		}
	}
	m := e.newMon(spec)
	defer e.stop(m)
	if !e.add(m) {
		return
	}
	e.start(m)
	if !e.snap(m) {
		return
	}
	mon := m.mgr.GetMonitor(m.id)
	key := "snapshot/" + m.id
	arr := sched.Subscribe(key)
	defer sched.Unsubscribe(key)
	resCh := make(chan []kemtypes.ObjectAndFilterResult, 1)
	go func() { resCh <- mon.Snapshot() }()
	c.Op("cbegin 1", "ok")
	changes := 0
	window := func() bool {
		// every key at most once per window: the key set of the caches then tells that each
		// event of the window has been handled (a create+delete of one key would not show)
		touched := map[c02Key]bool{}
		for i := rng.Intn(3); i > 0; i-- {
			k := randomKey()
			if touched[k] {
				continue
			}
			touched[k] = true
			e.cl.mu.Lock()
			_, exists := e.cl.objs[k]
			e.cl.mu.Unlock()
			if exists {
				e.op(e.cl.del(k))
			} else {
				e.op(e.cl.set(k, c02Val{a: rng.Range(1, 9), b: rng.Range(1, 9)}))
			}
			changes++
		}
		return e.waitCaches(m)
	}
	var res []kemtypes.ObjectAndFilterResult
	reads := 0
	for done := false; !done; {
		select {
		case a := <-arr:
			if !window() {
				a.Release()
				<-resCh
				c.Inconcl = "list/watch machinery of the fake cluster did not catch up within the deadline"
				return
			}
			if a.Name == "snapshot.read" {
				c.Op("cread 1", "ok")
				reads++
			}
			a.Release()
		case res = <-resCh:
			done = true
		case <-time.After(40 * time.Second):
			c.Op("cend 1", "hang")
			return
		}
	}
	sched.Unsubscribe(key)
	got := c02RenderSnap(res, spec.flt > 0)
	c.Op("cend 1", got)
	c.Oracle("conc 1 got=" + got)
	// afterwards the monitor must converge to the cluster
	e.snap(m)
	c.Nontrivial = changes >= 1 && reads >= 2
	c.Note("conc:reads=" + fmt.Sprint(reads))
	if changes > 0 {
		c.Note("conc:changed-inside-call")
	}
	nss := append([]int{}, spec.nss...)
	sort.Ints(nss)
	c.Desc = fmt.Sprintf("Snapshot() over %d informers with %d cluster changes between the reads", reads, changes)
}
