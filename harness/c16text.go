package main

// C16, the text path: a batch as the TEXT of the metrics file a hook leaves behind, through the code that
// reads it in production — Hook.Run (bash hook writing $METRICS_PATH; MetricOperationsFromFile) or
// MetricOperationsFromFile directly — and then, as handleRunHook does, SendBatch with the hook label
// unless reading failed. Valid spellings of every typed operation (member order, blanks, key case,
// number spellings, unknown members, nulls, duplicate keys) and the damaged shapes of harness/c04out.go
// (truncated, stray closers, garbage, wrong types, bad tokens, separators, invalid operations).
// Whether a text is acceptable is NOT decided here: the Lean driver decides it from the bytes.

import (
	"context"
	"fmt"
	"os"
	"path/filepath"
	"sort"
	"strconv"
	"strings"
	"time"

	"github.com/deckhouse/deckhouse/pkg/log"

	"github.com/flant/shell-operator/pkg/hook"
	bctx "github.com/flant/shell-operator/pkg/hook/binding_context"
	"github.com/flant/shell-operator/pkg/hook/controller"
	"github.com/flant/shell-operator/pkg/hook/task_metadata"
	htypes "github.com/flant/shell-operator/pkg/hook/types"
	metricstorage "github.com/flant/shell-operator/pkg/metric_storage"
	"github.com/flant/shell-operator/pkg/metric_storage/operation"
	"github.com/flant/shell-operator/pkg/metric_storage/vault"
	shell_operator "github.com/flant/shell-operator/pkg/shell-operator"
	"github.com/flant/shell-operator/pkg/task"
	"github.com/flant/shell-operator/pkg/task/queue"
)

// c16Num spells the value h/2 as a JSON number in one of several ways (all exact).
func c16Num(rng *Rng, h int) string {
	plain := strconv.FormatFloat(half(h), 'f', -1, 64)
	switch rng.Intn(8) {
	case 0:
		if h%2 == 0 {
			return plain + ".0"
		}
		return plain + "0"
	case 1:
		return plain + PickOne(rng, []string{"e0", "E0", "e+0", "E-00"})
	case 2:
		return fmt.Sprintf("%de-1", h*5) // 1.5 = 15e-1
	case 3:
		return fmt.Sprintf("%dE-2", h*50)
	case 4:
		if h == 0 {
			return PickOne(rng, []string{"-0", "0.0", "0e5", "-0.0E+1"})
		}
		return plain
	default:
		return plain
	}
}

func c16Str(rng *Rng, s string) string {
	// control characters, quotes and backslashes always as \u escapes (ASCII strings only)
	esc := func(t string) string {
		var sb strings.Builder
		for i := 0; i < len(t); i++ {
			if t[i] < 0x20 || t[i] == '"' || t[i] == '\\' {
				fmt.Fprintf(&sb, "\\u%04x", t[i])
			} else {
				sb.WriteByte(t[i])
			}
		}
		return sb.String()
	}
	if s != "" && rng.Chance(8) {
		// the first character as a \u escape
		return fmt.Sprintf("\"\\u%04x%s\"", s[0], esc(s[1:]))
	}
	return "\"" + esc(s) + "\""
}

func c16Key(rng *Rng, k string) string {
	switch {
	case rng.Chance(6):
		return "\"" + strings.ToUpper(k[:1]) + k[1:] + "\""
	case rng.Chance(3):
		return "\"" + strings.ToUpper(k) + "\""
	}
	return "\"" + k + "\""
}

// c16Render spells one typed operation as a JSON document (starts with `{`, ends with `}`).
func c16Render(rng *Rng, o c16Op, c *Case) string {
	type member struct{ k, v string }
	var ms []member
	num := func(key string, p *int) {
		if p == nil {
			return
		}
		if rng.Chance(5) { // an earlier occurrence of the key: the later one wins
			ms = append(ms, member{key, PickOne(rng, []string{"99", "null", "-7.5"})})
			c.Note("text:duplicate-key")
		}
		ms = append(ms, member{key, c16Num(rng, *p)})
	}
	if o.Name != "" {
		ms = append(ms, member{"name", c16Str(rng, o.Name)})
	}
	if o.Group != "" {
		ms = append(ms, member{"group", c16Str(rng, o.Group)})
	}
	if o.Action != "" {
		ms = append(ms, member{"action", "\"" + o.Action + "\""})
	}
	// members whose order matters among themselves (duplicates) stay in order; the rest is shuffled below
	var nums []member
	{
		save := ms
		ms = nil
		num("value", o.Value)
		num("add", o.Add)
		num("set", o.Set)
		nums = ms
		ms = save
	}
	if o.Buckets {
		if o.BucketsEmpty {
			ms = append(ms, member{"buckets", PickOne(rng, []string{"[]", "[ ]", "[\n]"})})
		} else {
			ms = append(ms, member{"buckets", PickOne(rng, []string{"[1,2,5]", "[ 1 , 2 , 5 ]", "[1.0,2e0,0.5e1]", "[1,\n2,\n5]"})})
		}
	}
	if o.Labels != nil {
		var ks []string
		for k := range o.Labels {
			ks = append(ks, k)
		}
		sort.Strings(ks)
		rng.Shuffle(len(ks), func(i, j int) { ks[i], ks[j] = ks[j], ks[i] })
		var ls []string
		for _, k := range ks {
			ls = append(ls, c04Blank(rng)+"\""+k+"\""+c04Blank(rng)+":"+c04Blank(rng)+c16Str(rng, o.Labels[k])+c04Blank(rng))
		}
		ms = append(ms, member{"labels", "{" + strings.Join(ls, ",") + "}"})
	}
	// harmless extras: unknown members, nulls for absent fields (null leaves a string, clears a pointer/map/slice)
	if rng.Chance(12) {
		ms = append(ms, member{"unknown", PickOne(rng, []string{`[{"k":[true,false,null,"}"]},-0.5e-3]`, `"{"`, `{"name":"x","set":1}`, `"]\"}"`, "null"})})
		c.Note("text:unknown-member")
	}
	if rng.Chance(12) {
		var cand []string
		if o.Value == nil {
			cand = append(cand, "value")
		}
		if o.Add == nil {
			cand = append(cand, "add")
		}
		if o.Set == nil {
			cand = append(cand, "set")
		}
		if !o.Buckets {
			cand = append(cand, "buckets")
		}
		if o.Labels == nil {
			cand = append(cand, "labels")
		}
		cand = append(cand, "name", "group", "action") // null leaves a string as it is
		ms = append(ms, member{PickOne(rng, cand), "null"})
		c.Note("text:null-member")
	}
	rng.Shuffle(len(ms), func(i, j int) { ms[i], ms[j] = ms[j], ms[i] })
	// the number members go in as a block at a random position
	at := rng.Intn(len(ms) + 1)
	all := append(append(append([]member{}, ms[:at]...), nums...), ms[at:]...)
	pretty := rng.Chance(15)
	var parts []string
	for _, m := range all {
		if pretty {
			parts = append(parts, "\n  "+c16Key(rng, m.k)+": "+m.v)
		} else {
			parts = append(parts, c04Blank(rng)+c16Key(rng, m.k)+c04Blank(rng)+":"+c04Blank(rng)+m.v+c04Blank(rng))
		}
	}
	if pretty {
		return "{" + strings.Join(parts, ",") + "\n}"
	}
	return "{" + strings.Join(parts, ",") + "}"
}

// c16Text renders a batch; with damage it returns a damaged copy (shape from harness/c04out.go).
func c16Text(rng *Rng, ops []c16Op, damage bool, c *Case) (string, string) {
	if len(ops) == 0 {
		return PickOne(rng, []string{"", "", " \n", "\n", "\t\r\n "}), "blank"
	}
	var docs []string
	for _, o := range ops {
		docs = append(docs, c16Render(rng, o, c))
	}
	if damage {
		return c04Damage(rng, docs, "m")
	}
	return c04Join(rng, docs), "valid-spelling"
}

// c16Runner is the real hook (bash) of a case: it copies the prepared text to $METRICS_PATH.
type c16Runner struct {
	dir string
	h   *hook.Hook
	n   int
}

func (w *c16World) runner(r *Run) *c16Runner {
	if w.run != nil {
		return w.run
	}
	dir := filepath.Join(r.Scratch, fmt.Sprintf("c16-%d", w.c.Idx))
	_ = os.MkdirAll(dir, 0o755)
	w.run = &c16Runner{dir: dir}
	return w.run
}

func (x *c16Runner) hookObj() (*hook.Hook, error) {
	if x.h != nil {
		return x.h, nil
	}
	script := filepath.Join(x.dir, "hook.sh")
	if err := writeScript(script, []byte("#!/bin/bash\ncat \"$0.metrics\" > \"$METRICS_PATH\"\n"), 0o755); err != nil {
		return nil, err
	}
	h := hook.NewHook("c16-hook", script, false, false, "", log.NewNop())
	if _, err := h.LoadConfig([]byte(`{"configVersion":"v1","onStartup":1}`)); err != nil {
		return nil, err
	}
	h.WithHookController(controller.NewHookController())
	h.WithTmpDir(x.dir)
	x.h = h
	return h, nil
}

// ---- the whole handler: ShellOperator.taskHandler -> taskHandleHookRun -> handleRunHook -> Hook.Run ----

// c16OpHooks are the hooks of an operator world (the hook label is the hook's name = its file name).
var c16OpHooks = []string{"h1.sh", "h2.sh", "h3.sh", "h4.sh"}

const c16OpScript = `#!/bin/bash
if [[ "$1" == "--config" ]]; then
  echo '{"configVersion":"v1","onStartup":1}'
  exit 0
fi
cat "%[1]s/in/$(basename "$0").metrics" > "$METRICS_PATH" && : > "%[1]s/in/ran"
`

// newC16OpWorld: a ShellOperator assembled from the real pieces (real hook manager that loads four bash
// hooks, real metric storages); the world's storage is the operator's HookMetricStorage, so typed batches
// (SendBatch) and hook executions (the real task handler) meet in one registry.
func newC16OpWorld(r *Run, c *Case) (*c16World, error) {
	w := &c16World{in: NewInterner(), c: c, owner: map[string]string{}, gfam: map[string]string{}, ushape: map[string]string{}, groups: c16Groups, vals: c16LabelVals}
	dir := filepath.Join(r.Scratch, fmt.Sprintf("c16-%d", c.Idx))
	for _, d := range []string{"hooks", "tmp", "in"} {
		if err := os.MkdirAll(filepath.Join(dir, d), 0o755); err != nil {
			return nil, err
		}
	}
	for _, h := range c16OpHooks {
		if err := writeScript(filepath.Join(dir, "hooks", h), []byte(fmt.Sprintf(c16OpScript, dir)), 0o755); err != nil {
			return nil, err
		}
	}
	ctx, cancel := context.WithCancel(context.Background())
	nop := log.NewNop()
	op := shell_operator.NewShellOperator(ctx, shell_operator.WithLogger(nop))
	op.MetricStorage = metricstorage.NewMetricStorage(ctx, "shell_operator_", true, nop)
	w.ms = metricstorage.NewMetricStorage(ctx, "", true, nop)
	op.HookMetricStorage = w.ms
	op.TaskQueues = queue.NewTaskQueueSet()
	op.HookManager = hook.NewHookManager(&hook.ManagerConfig{WorkingDir: filepath.Join(dir, "hooks"), TempDir: filepath.Join(dir, "tmp"), Logger: nop})
	var initErr error
	for try := 0; try < 50; try++ { // ETXTBSY, see c12.go
		if initErr = op.HookManager.Init(); initErr == nil || !strings.Contains(initErr.Error(), "text file busy") {
			break
		}
		time.Sleep(20 * time.Millisecond)
	}
	if initErr != nil {
		cancel()
		return nil, initErr
	}
	w.gate = &c16Gate{inner: w.ms.Registry}
	w.ms.Registerer = w.gate
	if gv, ok := w.ms.Grouped().(*vault.GroupedVault); ok {
		gv.SetRegisterer(w.gate)
	}
	w.in.Id("hook")
	w.op, w.opDir, w.cancel = op, dir, cancel
	w.run = &c16Runner{dir: dir}
	return w, nil
}

// runHookTask executes a HookRun task of the hook with the real queue handler; the hook writes `text` to
// its metrics file. Returns 0 when the handler reported Success.
func (w *c16World) runHookTask(hookName, text string) (int, string) {
	in := filepath.Join(w.opDir, "in")
	_ = os.Remove(filepath.Join(in, "ran"))
	if err := os.WriteFile(filepath.Join(in, hookName+".metrics"), []byte(text), 0o644); err != nil {
		return 0, "cannot write scratch file"
	}
	bc := bctx.BindingContext{Binding: "onStartup"}
	bc.Metadata.BindingType = htypes.OnStartup
	meta := task_metadata.HookMetadata{HookName: hookName, Binding: "onStartup", BindingType: htypes.OnStartup, BindingContext: []bctx.BindingContext{bc}}
	t := task.NewTask(task_metadata.HookRun).WithMetadata(meta).WithQueueName("main")
	t.WithQueuedAt(time.Now())
	status := Catch(func() string { return string(w.op.VerifTaskHandler()(t).Status) })
	if _, err := os.Stat(filepath.Join(in, "ran")); err != nil {
		return 0, "the hook process did not run to its end (status " + status + ")"
	}
	switch status {
	case "Success":
		return 0, ""
	case "Fail":
		return 1, ""
	}
	return 2, status
}

// sendText: the batch `ops` spelled as `text` goes the way a hook's metrics file goes. via = "run": a real
// bash hook writes the text to $METRICS_PATH and Hook.Run reads it; via = "file": MetricOperationsFromFile
// (what Hook.Run calls) on a file with this text. Then handleRunHook's step: no SendBatch after a reading
// error; otherwise SendBatch(result.Metrics, {"hook": name}).
func (w *c16World) sendText(r *Run, hookName string, ops []c16Op, text, via string) {
	x := w.runner(r)
	var parsed []operation.MetricOperation
	var rerr error
	handled, hcode := false, 0
	switch via {
	case "operator":
		code, problem := w.runHookTask(hookName, text)
		if problem != "" && code != 2 {
			w.c.Inconcl = problem
			return
		}
		if code == 2 {
			w.c.Op("tsend-operator", problem)
			return
		}
		handled, hcode = true, code
	case "run":
		h, err := x.hookObj()
		if err != nil {
			w.c.Inconcl = "cannot prepare the hook script: " + firstLine(err.Error())
			return
		}
		if err := os.WriteFile(h.Path+".metrics", []byte(text), 0o644); err != nil {
			w.c.Inconcl = "cannot write scratch file"
			return
		}
		var res *hook.Result
		panicked := Catch(func() string {
			res, rerr = h.Run(htypes.OnStartup, nil, map[string]string{})
			return ""
		})
		if panicked != "" {
			w.c.Op("tsend-run", panicked)
			return
		}
		if rerr != nil && strings.Contains(rerr.Error(), "FAILED") {
			// the process could not be run (fork failure under load …): nothing about metrics was decided
			w.c.Inconcl = "hook process failed: " + firstLine(rerr.Error())
			return
		}
		if rerr == nil && res != nil {
			parsed = res.Metrics
		}
	default:
		x.n++
		p := filepath.Join(x.dir, fmt.Sprintf("metrics-%d.json", x.n))
		if err := os.WriteFile(p, []byte(text), 0o644); err != nil {
			w.c.Inconcl = "cannot write scratch file"
			return
		}
		parsed, rerr = operation.MetricOperationsFromFile(p)
		_ = os.Remove(p)
	}
	for _, o := range ops {
		w.c.Op(w.opLine(o), "ok")
	}
	var order []string
	seen := map[string]bool{}
	for _, o := range ops {
		if o.Group != "" && !seen[o.Group] {
			seen[o.Group] = true
			order = append(order, fmt.Sprint(w.id(o.Group)))
		}
	}
	ans := Catch(func() string {
		code := 0
		if handled {
			code = hcode // the real handler did both steps
		} else if rerr != nil {
			code = 1 // Hook.Run: "got bad metrics"; handleRunHook returns before SendBatch
		} else if e := w.ms.SendBatch(parsed, map[string]string{"hook": hookName}); e != nil {
			code = 1
		}
		return fmt.Sprintf("err=%d %s", code, w.dump())
	})
	w.c.Op(fmt.Sprintf("tsend hooklabel=%d hook=%d order=%s hex=%s", w.id("hook"), w.id(hookName), joinStrs(order), c04Hex(text)), ans)
	f := strings.SplitN(ans, " ", 2)
	if len(f) == 2 {
		w.c.Oracle(fmt.Sprintf("tsend %s dump=%s", f[0], f[1]))
	} else {
		w.c.Oracle("tsend " + ans + " dump=?")
	}
}
