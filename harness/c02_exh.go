package main

// C02, thorough tier: every history of length <= 4 over a small alphabet of cluster operations, for
// three binding configurations, on the real monitor (bounded exploration: validates the
// correspondence, it is not the proof).

import (
	"fmt"
	"time"

	kem "github.com/flant/shell-operator/pkg/kube_events_manager"
)

type c02ExhOp struct {
	name string
	run  func(e *c02Env)
}

func c02ExhAlphabet() []c02ExhOp {
	k1 := c02Key{ns: 1, kind: 1, name: 1}
	k2 := c02Key{ns: 2, kind: 1, name: 2}
	return []c02ExhOp{
		{"set k1 v1", func(e *c02Env) { e.op(e.cl.set(k1, c02Val{a: 1, b: 1, lbl: 1})) }},
		{"set k1 v2 (outside the projection)", func(e *c02Env) { e.op(e.cl.set(k1, c02Val{a: 1, b: 2, lbl: 1})) }},
		{"set k1 unlabelled", func(e *c02Env) { e.op(e.cl.set(k1, c02Val{a: 3, b: 1, lbl: 0})) }},
		{"del k1", func(e *c02Env) { e.op(e.cl.del(k1)) }},
		{"set k2", func(e *c02Env) { e.op(e.cl.set(k2, c02Val{a: 4, b: 4, lbl: 1})) }},
		{"del k2", func(e *c02Env) { e.op(e.cl.del(k2)) }},
		{"flip label of namespace 1", func(e *c02Env) {
			e.cl.mu.Lock()
			l := e.cl.nss[1]
			e.cl.mu.Unlock()
			e.nsSetOp(1, 1-l)
		}},
	}
}

func c02ExhSpecs() []c02MonSpec {
	return []c02MonSpec{
		{id: 1, kind: 1, keep: true, flt: 1, nss: []int{1, 2}},
		{id: 1, kind: 1, keep: false, flt: 1, nsSel: true},
		{id: 1, kind: 1, keep: false, flt: 0, lblSel: true, names: []int{1}},
	}
}

func runC02Exhaustive(r *Run) {
	alphabet := c02ExhAlphabet()
	specs := c02ExhSpecs()
	A := len(alphabet)
	perSpec := 0
	for l, p := 1, A; l <= 4; l++ {
		perSpec += p
		p *= A
	}
	total := perSpec * len(specs)
	r.Cases(300000, total, 0, func(c *Case, _ *Rng) {
		kem.DefaultSyncTime = time.Millisecond
		k := c.Idx - 300000
		spec := specs[k/perSpec]
		k %= perSpec
		l := 1
		for p := A; k >= p; p *= A {
			k -= p
			l++
		}
		e := &c02Env{c: c, cl: newC02Cluster(c.Idx)}
		c.Op(c02RidLine(), "ok")
		e.op(e.cl.nsSet(1, 1))
		e.op(e.cl.nsSet(2, 0))
		m := e.newMon(spec)
		defer e.stop(m)
		if !e.add(m) {
			return
		}
		e.start(m)
		e.setActive([]*c02Mon{m})
		ok := e.snap(m)
		for i := 0; ok && i < l; i++ {
			alphabet[k%A].run(e)
			k /= A
			ok = e.snap(m)
		}
		c.Nontrivial = l >= 3
		c.Note(fmt.Sprintf("exhaustive:len=%d", l))
	})
	r.Exhaust = true
	r.Extra["exhaustive_scope"] = fmt.Sprintf("all %d histories of length<=4 over %d cluster operations x %d binding configurations on the real monitor, a snapshot after every operation", perSpec, A, len(specs))
}
