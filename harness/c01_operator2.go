package main

import (
	"context"
	"encoding/json"
	"fmt"
	"os"
	"path/filepath"
	"sort"
	"strconv"
	"strings"
	"time"

	corev1 "k8s.io/api/core/v1"
	metav1 "k8s.io/apimachinery/pkg/apis/meta/v1"

	"github.com/flant/kube-client/fake"
	kem "github.com/flant/shell-operator/pkg/kube_events_manager"
	shell_operator "github.com/flant/shell-operator/pkg/shell-operator"
)

// Two kubernetes bindings of ONE hook, the second with its own queue: the unlock that follows the
// first binding's Synchronization must not unlock the second binding, whose Synchronization is still
// pending ("No Event of a binding is handed to the hook before THAT binding's Synchronization step
// has completed successfully").

const c01HookScript2 = `#!/bin/bash
if [[ "$1" == "--config" ]]; then
  cat "$(dirname "$0")/config.yaml"
  exit 0
fi
LOG=%s
start=$(date +%%s%%N)
key=$(jq -r '.[0].binding + ":" + .[0].type' "$BINDING_CONTEXT_PATH")
cp "$BINDING_CONTEXT_PATH" "$LOG/ctx-$start-$$.json"
att=$(ls "$LOG" | grep -c "^exit-.*-$key\$")
code=0
if [[ -f "$LOG/hold-$key" ]]; then
  while [[ ! -f "$LOG/go-$key-$att" ]]; do sleep 0.005; done
  code=$(cat "$LOG/go-$key-$att")
fi
echo "$code $(date +%%s%%N)" > "$LOG/exit-$start-$$-$key"
exit "$code"
`

type c01Exec2 struct {
	start, end int64
	exit       int
	ctxs       []c01Ctx2
}

type c01Ctx2 struct {
	binding string
	typ     string
	view    map[int]int
	ev      *c01Ev
}

func c01ReadExecs2(logDir string) ([]c01Exec2, bool) {
	ents, _ := os.ReadDir(logDir)
	exits := map[string]string{}
	for _, e := range ents {
		if strings.HasPrefix(e.Name(), "exit-") {
			parts := strings.SplitN(strings.TrimPrefix(e.Name(), "exit-"), "-", 3)
			if len(parts) == 3 {
				exits[parts[0]+"-"+parts[1]] = e.Name()
			}
		}
	}
	var res []c01Exec2
	allDone := true
	for _, e := range ents {
		if !strings.HasPrefix(e.Name(), "ctx-") {
			continue
		}
		id := strings.TrimSuffix(strings.TrimPrefix(e.Name(), "ctx-"), ".json")
		ex := c01Exec2{}
		ex.start, _ = strconv.ParseInt(strings.SplitN(id, "-", 2)[0], 10, 64)
		if xn, ok := exits[id]; ok {
			b, _ := os.ReadFile(filepath.Join(logDir, xn))
			f := strings.Fields(string(b))
			if len(f) == 2 {
				ex.exit, _ = strconv.Atoi(f[0])
				ex.end, _ = strconv.ParseInt(f[1], 10, 64)
			} else { // exit file still being written
				allDone = false
				ex.end = 1 << 62
				ex.exit = -1
			}
		} else {
			allDone = false
			ex.end = 1 << 62
			ex.exit = -1
		}
		b, err := os.ReadFile(filepath.Join(logDir, e.Name()))
		if err != nil {
			continue
		}
		var ctxs []map[string]interface{}
		if json.Unmarshal(b, &ctxs) != nil {
			continue
		}
		for _, cx := range ctxs {
			c2 := c01Ctx2{}
			c2.binding, _ = cx["binding"].(string)
			c2.typ, _ = cx["type"].(string)
			switch c2.typ {
			case "Synchronization":
				c2.view = map[int]int{}
				objs, _ := cx["objects"].([]interface{})
				for _, o := range objs {
					if om, ok := o.(map[string]interface{}); ok {
						if id, v, ok := c01ObjState(om); ok {
							c2.view[id] = v
						}
					}
				}
			case "Event":
				we, _ := cx["watchEvent"].(string)
				k := map[string]string{"Added": "a", "Modified": "m", "Deleted": "d"}[we]
				if id, v, ok := c01ObjState(cx); ok {
					c2.ev = &c01Ev{id, k, v}
				}
			}
			ex.ctxs = append(ex.ctxs, c2)
		}
		res = append(res, ex)
	}
	sort.Slice(res, func(i, j int) bool { return res[i].start < res[j].start })
	return res, allDone
}

func c01OpRun2(c *Case, rng *Rng, failA, failB int, x0, x1, x2, x3 []c01Ev, scratch string) {
	ns := fmt.Sprintf("c01op2-%d", c.Idx)
	base := filepath.Join(scratch, ns)
	hooksDir, logDir, tmpDir := filepath.Join(base, "hooks"), filepath.Join(base, "log"), filepath.Join(base, "tmp")
	for _, d := range []string{hooksDir, logDir, tmpDir} {
		_ = os.MkdirAll(d, 0o755)
	}
	one := func(name, queue string) string {
		s := "- name: " + name + "\n  apiVersion: v1\n  kind: ConfigMap\n  namespace:\n    nameSelector:\n      matchNames: [\"" + ns + "\"]\n"
		if queue != "" {
			s += "  queue: " + queue + "\n"
		}
		return s
	}
	conf := "configVersion: v1\nkubernetes:\n" + one("cmsA", "") + one("cmsB", "qB")
	_ = os.WriteFile(filepath.Join(hooksDir, "config.yaml"), []byte(conf), 0o644)
	_ = writeScript(filepath.Join(hooksDir, "hook.sh"), []byte(fmt.Sprintf(c01HookScript2, logDir)), 0o755)
	for _, k := range []string{"cmsA:Synchronization", "cmsB:Synchronization"} {
		_ = os.WriteFile(filepath.Join(logDir, "hold-"+k), nil, 0o644)
	}
	fc := fake.NewFakeCluster(fake.ClusterVersionV121)
	nsObj := &corev1.Namespace{}
	nsObj.SetName(ns)
	_, _ = fc.Client.CoreV1().Namespaces().Create(context.TODO(), nsObj, metav1.CreateOptions{})
	truth := map[int]int{}
	apply := func(es []c01Ev) bool {
		for _, e := range es {
			if err := c01OpObj(fc, ns, e); err != nil {
				c.Inconcl = "cluster operation failed: " + err.Error()
				return false
			}
			if e.kind == "d" {
				delete(truth, e.id)
			} else {
				truth[e.id] = e.cs
			}
		}
		return true
	}
	if !apply(x0) {
		return
	}
	ctx, cancel := context.WithCancel(context.Background())
	defer cancel()
	op, err := shell_operator.VerifAssembleC01(ctx, fc.Client, hooksDir, tmpDir, c01OpMetrics, c01OpMetrics)
	if err != nil {
		c.Inconcl = "operator assembly failed: " + err.Error()
		return
	}
	op.VerifStart()
	release := func(key string, att int, code string) {
		c01WriteGate(filepath.Join(logDir, fmt.Sprintf("go-%s-%d", key, att)), code)
	}
	defer func() {
		op.KubeEventsManager.PauseHandleEvents()
		op.TaskQueues.Stop()
		op.Stop()
		for _, k := range []string{"cmsA:Synchronization", "cmsB:Synchronization"} {
			_ = os.Remove(filepath.Join(logDir, "hold-"+k))
			for a := 0; a < 6; a++ {
				release(k, a, "0")
			}
		}
		time.Sleep(20 * time.Millisecond)
	}()
	// waitStarted: the (att+1)-th execution with this key has written its context file
	waitStarted := func(key string, att int) bool {
		deadline := time.Now().Add(25 * time.Second)
		for time.Now().Before(deadline) {
			ex, _ := c01ReadExecs2(logDir)
			n := 0
			for _, e := range ex {
				if len(e.ctxs) > 0 && e.ctxs[0].binding+":"+e.ctxs[0].typ == key {
					n++
				}
			}
			if n > att {
				return true
			}
			time.Sleep(3 * time.Millisecond)
		}
		return false
	}
	for a := 0; a <= failA; a++ {
		if !waitStarted("cmsA:Synchronization", a) {
			c.Inconcl = "Synchronization of the first binding did not start"
			return
		}
		if a == 0 && !apply(x1) {
			return
		}
		code := "0"
		if a < failA {
			code = "1"
		}
		release("cmsA:Synchronization", a, code)
	}
	for b := 0; b <= failB; b++ {
		if !waitStarted("cmsB:Synchronization", b) {
			c.Inconcl = "Synchronization of the second binding did not start"
			return
		}
		if b == 0 {
			// the first binding is unlocked now, the second one must still be locked
			if !apply(x2) {
				return
			}
			time.Sleep(time.Duration(rng.Range(60, 160)) * time.Millisecond)
		}
		code := "0"
		if b < failB {
			code = "1"
		}
		release("cmsB:Synchronization", b, code)
	}
	if !apply(x3) || !apply([]c01Ev{{99, "a", 999}}) {
		return
	}
	hk := op.HookManager.GetHook("hook.sh")
	if hk == nil {
		c.Inconcl = "hook not loaded"
		return
	}
	// wait until both bindings are unlocked (never read a snapshot of a locked binding: finding R3)
	deadline := time.Now().Add(40 * time.Second)
	for {
		unlocked := 0
		for _, kb := range hk.GetConfig().OnKubernetesEvents {
			if mon := op.KubeEventsManager.GetMonitor(kb.Monitor.Metadata.MonitorId); mon != nil {
				_, statics, _, _ := kem.VerifMonitorState(mon)
				all := len(statics) > 0
				for _, en := range statics {
					all = all && en
				}
				if all {
					unlocked++
				}
			}
		}
		if unlocked == 2 {
			break
		}
		if time.Now().After(deadline) {
			c.Inconcl = "bindings were not unlocked"
			return
		}
		time.Sleep(3 * time.Millisecond)
	}
	var execs []c01Exec2
	stable := 0
	deadline = time.Now().Add(60 * time.Second)
	for {
		if time.Now().After(deadline) {
			c.Inconcl = "operator did not come to rest"
			return
		}
		time.Sleep(15 * time.Millisecond)
		ex, done := c01ReadExecs2(logDir)
		seen := map[string]bool{}
		for _, e := range ex {
			for _, cx := range e.ctxs {
				if cx.ev != nil && cx.ev.id == 99 {
					seen[cx.binding] = true
				}
			}
		}
		busy := false
		for _, qn := range []string{"main", "qB"} {
			if q := op.TaskQueues.GetByName(qn); q != nil && q.Length() > 0 {
				busy = true
			}
		}
		if !done || busy || !seen["cmsA"] || !seen["cmsB"] || len(ex) != len(execs) {
			stable = 0
			execs = ex
			continue
		}
		stable++
		if stable >= 8 {
			break
		}
	}
	c.Op("cfg types=a,m,d", "ok")
	for _, b := range []string{"cmsA", "cmsB"} {
		// order: a Synchronization execution counts from the moment it has FINISHED, an Event
		// execution from the moment it STARTED
		type tok struct {
			at  int64
			txt string
		}
		var toks []tok
		var view map[int]int
		var viewEnd int64
		var delivered []c01Ev
		for _, e := range execs {
			kinds := ""
			for _, cx := range e.ctxs {
				if cx.binding != b {
					continue
				}
				switch cx.typ {
				case "Synchronization":
					kinds += "S"
					if e.exit == 0 && view == nil {
						view = cx.view
						viewEnd = e.end
					}
				case "Event":
					kinds += "E"
				default:
					kinds += "O"
				}
			}
			if kinds == "" {
				continue
			}
			at := e.start
			if strings.Contains(kinds, "S") {
				at = e.end
			}
			toks = append(toks, tok{at, fmt.Sprintf("%s:%d", kinds, e.exit)})
		}
		sort.SliceStable(toks, func(i, j int) bool { return toks[i].at < toks[j].at })
		var runs []string
		for _, t := range toks {
			runs = append(runs, t.txt)
		}
		c.Oracle(fmt.Sprintf("op-nobefore sync=S binding=%s runs=%s", b, joinStrs(runs)))
		for _, e := range execs {
			if view == nil || e.start < viewEnd {
				continue
			}
			for _, cx := range e.ctxs {
				if cx.binding == b && cx.ev != nil {
					delivered = append(delivered, *cx.ev)
				}
			}
		}
		c.Oracle(fmt.Sprintf("replay view=%s delivered=%s final=%s", c01StateStr(view), c01Evs(delivered), c01StateStr(truth)))
	}
	c.Note(fmt.Sprintf("op2:execs=%d", len(execs)))
}

func runC01Operator2(r *Run) {
	n := r.N(10, 120)
	r.Cases(800000, n, 6, func(c *Case, rng *Rng) {
		live := map[int]int{}
		next := 10
		x0 := c01GenClusterOps(rng, live, &next, rng.Range(0, 2))
		x1 := c01GenClusterOps(rng, live, &next, rng.Range(0, 2))
		x2 := c01GenClusterOps(rng, live, &next, rng.Range(1, 3))
		x3 := c01GenClusterOps(rng, live, &next, rng.Range(0, 3))
		failA, failB := []int{0, 0, 1}[rng.Intn(3)], []int{0, 0, 1}[rng.Intn(3)]
		c.Desc = fmt.Sprintf("operator, two bindings (second with its own queue): failA=%d failB=%d before=%s duringA=%s duringB=%s after=%s",
			failA, failB, c01Evs(x0), c01Evs(x1), c01Evs(x2), c01Evs(x3))
		c01OpRun2(c, rng, failA, failB, x0, x1, x2, x3, r.Scratch)
		c.Nontrivial = true
		c.Note("operator-two-bindings")
	})
}
