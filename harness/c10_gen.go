package main

import (
	"crypto/sha1"
	"encoding/hex"
	"encoding/json"
	"fmt"
	"strconv"
	"strings"
	"time"

	"gopkg.in/robfig/cron.v2"
	admv1 "k8s.io/api/admissionregistration/v1"
	metav1 "k8s.io/apimachinery/pkg/apis/meta/v1"
	"k8s.io/apimachinery/pkg/runtime/schema"

	kubeeventsmanager "github.com/flant/shell-operator/pkg/kube_events_manager"
	kemtypes "github.com/flant/shell-operator/pkg/kube_events_manager/types"
)

// ------------------------------------------------------------------ the declared document (generator side)

type c10FieldExpr struct{ Field, Operator, Value string }

type c10Kube struct {
	Name, ApiVersion, Kind  string
	ExecEvents, WatchEvents *[]string
	Sync, Wait, Keep        *bool
	NameSel                 *[]string
	LabelSel                *metav1.LabelSelector
	FieldSel                *[]c10FieldExpr
	NsNames                 *[]string
	NsLabelSel              *metav1.LabelSelector
	Jq, Resync              string
	AllowFailure            *bool
	Includes                []string
	Queue, Group            string
	ExplicitEmpty           bool // write name / queue / group as "" instead of leaving them out
}

type c10Sched struct {
	Name, Crontab string
	AllowFailure  *bool
	Includes      []string
	Queue, Group  string
}

type c10Adm struct {
	Name          string
	Includes      []string
	Group         string
	Rules         []admv1.RuleWithOperations
	FailurePolicy string // "" = absent
	SideEffects   string
	Timeout       *int
	LabelSel      *metav1.LabelSelector
	NsLabelSel    *metav1.LabelSelector
	MatchCond     []admv1.MatchCondition
}

type c10Conv struct {
	Name, Group, CrdName string
	Includes             []string
	Rules                [][2]string
}

type c10Settings struct {
	Interval            string
	Burst               int
	NoInterval, NoBurst bool // the key is absent: the typed field is "" and does not parse
}

type c10Doc struct {
	V0         bool
	Settings   *c10Settings
	OnStartup  *int
	Kubes      []c10Kube
	Scheds     []c10Sched
	Validating []c10Adm
	Mutating   []c10Adm
	Convs      []c10Conv
	// v0 only
	Kubes0 []c10Kube0
}

type c10Kube0 struct {
	Name, Kind, ObjectName, Jq string
	Events                     []string
	AllowFailure               bool
	NsNames                    *[]string
	NsAny                      bool
	Selector                   *metav1.LabelSelector
}

type c10Omap = map[string]any

func c10LsMap(ls *metav1.LabelSelector) c10Omap {
	m := c10Omap{}
	if ls.MatchLabels != nil {
		ml := c10Omap{}
		for k, v := range ls.MatchLabels {
			ml[k] = v
		}
		m["matchLabels"] = ml
	}
	if ls.MatchExpressions != nil {
		var es []any
		for _, e := range ls.MatchExpressions {
			em := c10Omap{"key": e.Key, "operator": string(e.Operator)}
			if e.Values != nil {
				vs := []any{}
				for _, v := range e.Values {
					vs = append(vs, v)
				}
				em["values"] = vs
			}
			es = append(es, em)
		}
		m["matchExpressions"] = es
	}
	return m
}

func c10Strs(xs []string) []any {
	out := []any{}
	for _, x := range xs {
		out = append(out, x)
	}
	return out
}

func (k c10Kube) toMap() c10Omap {
	m := c10Omap{"kind": k.Kind}
	if k.ExplicitEmpty {
		m["name"], m["queue"], m["group"] = "", "", ""
	}
	if k.Name != "" {
		m["name"] = k.Name
	}
	if k.ApiVersion != "" {
		m["apiVersion"] = k.ApiVersion
	}
	if k.ExecEvents != nil {
		m["executeHookOnEvent"] = c10Strs(*k.ExecEvents)
	}
	if k.WatchEvents != nil {
		m["watchEvent"] = c10Strs(*k.WatchEvents)
	}
	if k.Sync != nil {
		m["executeHookOnSynchronization"] = *k.Sync
	}
	if k.Wait != nil {
		m["waitForSynchronization"] = *k.Wait
	}
	if k.Keep != nil {
		m["keepFullObjectsInMemory"] = *k.Keep
	}
	if k.NameSel != nil {
		m["nameSelector"] = c10Omap{"matchNames": c10Strs(*k.NameSel)}
	}
	if k.LabelSel != nil {
		m["labelSelector"] = c10LsMap(k.LabelSel)
	}
	if k.FieldSel != nil {
		es := []any{}
		for _, e := range *k.FieldSel {
			es = append(es, c10Omap{"field": e.Field, "operator": e.Operator, "value": e.Value})
		}
		m["fieldSelector"] = c10Omap{"matchExpressions": es}
	}
	if k.NsNames != nil || k.NsLabelSel != nil {
		ns := c10Omap{}
		if k.NsNames != nil {
			ns["nameSelector"] = c10Omap{"matchNames": c10Strs(*k.NsNames)}
		}
		if k.NsLabelSel != nil {
			ns["labelSelector"] = c10LsMap(k.NsLabelSel)
		}
		m["namespace"] = ns
	}
	if k.Jq != "" {
		m["jqFilter"] = k.Jq
	}
	if k.Resync != "" {
		m["resynchronizationPeriod"] = k.Resync
	}
	if k.AllowFailure != nil {
		m["allowFailure"] = *k.AllowFailure
	}
	if len(k.Includes) > 0 {
		m["includeSnapshotsFrom"] = c10Strs(k.Includes)
	}
	if k.Queue != "" {
		m["queue"] = k.Queue
	}
	if k.Group != "" {
		m["group"] = k.Group
	}
	return m
}

func (s c10Sched) toMap() c10Omap {
	m := c10Omap{"crontab": s.Crontab}
	if s.Name != "" {
		m["name"] = s.Name
	}
	if s.AllowFailure != nil {
		m["allowFailure"] = *s.AllowFailure
	}
	if len(s.Includes) > 0 {
		m["includeSnapshotsFrom"] = c10Strs(s.Includes)
	}
	if s.Queue != "" {
		m["queue"] = s.Queue
	}
	if s.Group != "" {
		m["group"] = s.Group
	}
	return m
}

func c10JsonRound(v any) any {
	b, _ := json.Marshal(v)
	var out any
	_ = json.Unmarshal(b, &out)
	return out
}

func (a c10Adm) toMap() c10Omap {
	m := c10Omap{"name": a.Name}
	if len(a.Includes) > 0 {
		m["includeSnapshotsFrom"] = c10Strs(a.Includes)
	}
	if a.Group != "" {
		m["group"] = a.Group
	}
	if a.Rules != nil {
		m["rules"] = c10JsonRound(a.Rules)
	}
	if a.FailurePolicy != "" {
		m["failurePolicy"] = a.FailurePolicy
	}
	if a.SideEffects != "" {
		m["sideEffects"] = a.SideEffects
	}
	if a.Timeout != nil {
		m["timeoutSeconds"] = *a.Timeout
	}
	if a.LabelSel != nil {
		m["labelSelector"] = c10LsMap(a.LabelSel)
	}
	if a.NsLabelSel != nil {
		m["namespace"] = c10Omap{"labelSelector": c10LsMap(a.NsLabelSel)}
	}
	if a.MatchCond != nil {
		m["matchConditions"] = c10JsonRound(a.MatchCond)
	}
	return m
}

func (c c10Conv) toMap() c10Omap {
	rs := []any{}
	for _, r := range c.Rules {
		rs = append(rs, c10Omap{"fromVersion": r[0], "toVersion": r[1]})
	}
	m := c10Omap{"name": c.Name, "crdName": c.CrdName, "conversions": rs}
	if len(c.Includes) > 0 {
		m["includeSnapshotsFrom"] = c10Strs(c.Includes)
	}
	if c.Group != "" {
		m["group"] = c.Group
	}
	return m
}

func (d c10Doc) toMap() c10Omap {
	m := c10Omap{}
	if d.V0 {
		if d.OnStartup != nil {
			m["onStartup"] = *d.OnStartup
		}
		if len(d.Scheds) > 0 {
			var l []any
			for _, s := range d.Scheds {
				sm := c10Omap{"crontab": s.Crontab}
				if s.Name != "" {
					sm["name"] = s.Name
				}
				if s.AllowFailure != nil {
					sm["allowFailure"] = *s.AllowFailure
				}
				l = append(l, sm)
			}
			m["schedule"] = l
		}
		if len(d.Kubes0) > 0 {
			var l []any
			for _, k := range d.Kubes0 {
				km := c10Omap{"kind": k.Kind}
				if k.Name != "" {
					km["name"] = k.Name
				}
				if k.Events != nil {
					km["event"] = c10Strs(k.Events)
				}
				if k.ObjectName != "" {
					km["objectName"] = k.ObjectName
				}
				if k.Jq != "" {
					km["jqFilter"] = k.Jq
				}
				if k.AllowFailure {
					km["allowFailure"] = true
				}
				if k.NsNames != nil || k.NsAny {
					ns := c10Omap{"any": k.NsAny}
					if k.NsNames != nil {
						ns["matchNames"] = c10Strs(*k.NsNames)
					}
					km["namespaceSelector"] = ns
				}
				if k.Selector != nil {
					km["selector"] = c10LsMap(k.Selector)
				}
				l = append(l, km)
			}
			m["onKubernetesEvent"] = l
		}
		return m
	}
	m["configVersion"] = "v1"
	if d.Settings != nil {
		sm := c10Omap{}
		if !d.Settings.NoInterval {
			sm["executionMinInterval"] = d.Settings.Interval
		}
		if !d.Settings.NoBurst {
			sm["executionBurst"] = d.Settings.Burst
		}
		m["settings"] = sm
	}
	if d.OnStartup != nil {
		m["onStartup"] = *d.OnStartup
	}
	if len(d.Kubes) > 0 {
		var l []any
		for _, k := range d.Kubes {
			l = append(l, k.toMap())
		}
		m["kubernetes"] = l
	}
	if len(d.Scheds) > 0 {
		var l []any
		for _, s := range d.Scheds {
			l = append(l, s.toMap())
		}
		m["schedule"] = l
	}
	if len(d.Validating) > 0 {
		var l []any
		for _, a := range d.Validating {
			l = append(l, a.toMap())
		}
		m["kubernetesValidating"] = l
	}
	if len(d.Mutating) > 0 {
		var l []any
		for _, a := range d.Mutating {
			l = append(l, a.toMap())
		}
		m["kubernetesMutating"] = l
	}
	if len(d.Convs) > 0 {
		var l []any
		for _, c := range d.Convs {
			l = append(l, c.toMap())
		}
		m["kubernetesCustomResourceConversion"] = l
	}
	return m
}

// ------------------------------------------------------------------ tokens of the line protocol

func c10TokStr(s string) string {
	if s == "" {
		return "_"
	}
	return strings.NewReplacer(" ", "+", "\t", "+", "\n", "+").Replace(s)
}

// c10TokCron keeps the crontab text exact: only the characters the line protocol cannot carry are
// replaced — blank by `␣`, tab by `⇥`, newline by `↵`, carriage return by `↩` (the driver maps them back).
func c10TokCron(s string) string {
	if s == "" {
		return "_"
	}
	return strings.NewReplacer(" ", "␣", "\t", "⇥", "\n", "↵", "\r", "↩").Replace(s)
}
func c10TokList(xs []string) string {
	if len(xs) == 0 {
		return "-"
	}
	ys := make([]string, len(xs))
	for i, x := range xs {
		ys[i] = c10TokStr(x)
	}
	return strings.Join(ys, ",")
}
func c10TokOptList(xs *[]string) string {
	if xs == nil {
		return "~"
	}
	return c10TokList(*xs)
}
func c10TokBit(b bool) string {
	if b {
		return "1"
	}
	return "0"
}
func c10TokOptBoolStr(b *bool) string { // the value after decoding into a Go string field
	if b == nil {
		return "_"
	}
	return strconv.FormatBool(*b)
}
func c10Digest(v any) string {
	b, _ := json.Marshal(v)
	h := sha1.Sum(b)
	return hex.EncodeToString(h[:5])
}

// passthrough digests: the same structure is filled from the declared document and from the effective config

type c10KubePT struct {
	Kind, ApiVersion, Jq string
	NameSel              []string
	HasNameSel           bool
	LabelSel             *metav1.LabelSelector
	FieldSel             []c10FieldExpr
	HasFieldSel          bool
	NsNames              []string
	HasNsNames           bool
	NsLabelSel           *metav1.LabelSelector
}

func c10NormLS(ls *metav1.LabelSelector) *metav1.LabelSelector {
	if ls == nil {
		return nil
	}
	out := &metav1.LabelSelector{}
	if len(ls.MatchLabels) > 0 {
		out.MatchLabels = ls.MatchLabels
	}
	for _, e := range ls.MatchExpressions {
		e2 := metav1.LabelSelectorRequirement{Key: e.Key, Operator: e.Operator}
		if len(e.Values) > 0 {
			e2.Values = e.Values
		}
		out.MatchExpressions = append(out.MatchExpressions, e2)
	}
	return out
}

func (k c10Kube) pt() string {
	p := c10KubePT{Kind: k.Kind, ApiVersion: k.ApiVersion, Jq: k.Jq, LabelSel: c10NormLS(k.LabelSel), NsLabelSel: c10NormLS(k.NsLabelSel)}
	if k.NameSel != nil {
		p.HasNameSel, p.NameSel = true, append([]string{}, *k.NameSel...)
	}
	if k.FieldSel != nil {
		p.HasFieldSel, p.FieldSel = true, append([]c10FieldExpr{}, *k.FieldSel...)
	}
	if k.NsNames != nil {
		p.HasNsNames, p.NsNames = true, append([]string{}, *k.NsNames...)
	}
	return c10Digest(p)
}

func c10MonitorPT(m *kubeeventsmanager.MonitorConfig) string {
	p := c10KubePT{Kind: m.Kind, ApiVersion: m.ApiVersion, Jq: m.JqFilter, LabelSel: c10NormLS(m.LabelSelector)}
	if m.NameSelector != nil {
		p.HasNameSel, p.NameSel = true, append([]string{}, m.NameSelector.MatchNames...)
	}
	if m.FieldSelector != nil {
		p.HasFieldSel = true
		p.FieldSel = []c10FieldExpr{}
		for _, e := range m.FieldSelector.MatchExpressions {
			p.FieldSel = append(p.FieldSel, c10FieldExpr{e.Field, e.Operator, e.Value})
		}
	}
	if m.NamespaceSelector != nil {
		if m.NamespaceSelector.NameSelector != nil {
			p.HasNsNames, p.NsNames = true, append([]string{}, m.NamespaceSelector.NameSelector.MatchNames...)
		}
		p.NsLabelSel = c10NormLS(m.NamespaceSelector.LabelSelector)
	}
	return c10Digest(p)
}

type c10AdmPT struct {
	Rules     []admv1.RuleWithOperations
	ObjSel    *metav1.LabelSelector
	NsSel     *metav1.LabelSelector
	MatchCond []admv1.MatchCondition
}

func (a c10Adm) pt() string {
	return c10Digest(c10AdmPT{Rules: a.Rules, ObjSel: c10NormLS(a.LabelSel), NsSel: c10NormLS(a.NsLabelSel), MatchCond: a.MatchCond})
}

type c10ConvPT struct {
	Crd   string
	Rules [][2]string
}

func (c c10Conv) pt() string {
	return c10Digest(c10ConvPT{c.CrdName, append([][2]string{}, c.Rules...)})
}

// ------------------------------------------------------------------ parser oracles

// c10ZeroStep: some field of the crontab has a step that is the number zero ("*/0", "1-5/00"). The cron
// library does not reject it, it never returns (its bit loop adds the step) — so the oracle must not
// call the parser on it. A crontab with a zero step is a bad crontab.
func c10ZeroStep(s string) bool {
	for _, f := range strings.Fields(s) {
		for _, e := range strings.Split(f, ",") {
			if p := strings.Split(e, "/"); len(p) == 2 {
				if n, err := strconv.Atoi(p[1]); err == nil && n == 0 {
					return true
				}
			}
		}
	}
	return false
}

// c10ParseOK: the cron library's verdict, asked only when no step is zero (the model decides the zero
// step itself from the crontab text and then ignores this bit).
func c10ParseOK(s string) bool {
	if c10ZeroStep(s) {
		return true
	}
	_, err := cron.Parse(s)
	return err == nil
}
func c10LabelSelOK(ls *metav1.LabelSelector) bool {
	if ls == nil {
		return true
	}
	_, err := kubeeventsmanager.FormatLabelSelector(ls)
	return err == nil
}
func c10FieldSelOK(fs *[]c10FieldExpr) bool {
	if fs == nil {
		return true
	}
	sel := &kemtypes.FieldSelector{}
	for _, e := range *fs {
		sel.MatchExpressions = append(sel.MatchExpressions, kemtypes.FieldSelectorRequirement{Field: e.Field, Operator: e.Operator, Value: e.Value})
	}
	_, err := kubeeventsmanager.FormatFieldSelector(sel)
	return err == nil
}
func c10ApiVersionOK(s string) bool {
	if s == "" {
		return true
	}
	_, err := schema.ParseGroupVersion(s)
	return err == nil
}

// ------------------------------------------------------------------ declaration lines for the model

func (d c10Doc) declLines(policy string) []string {
	var out []string
	if d.V0 {
		out = append(out, "doc v0")
		if d.OnStartup != nil {
			out = append(out, fmt.Sprintf("onstartup %d", *d.OnStartup))
		}
		for _, s := range d.Scheds {
			out = append(out, fmt.Sprintf("sched0 name=%s c=%s cok=%s af=%s", c10TokStr(s.Name), c10TokCron(s.Crontab), c10TokBit(c10ParseOK(s.Crontab)), c10TokBit(s.AllowFailure != nil && *s.AllowFailure)))
		}
		for _, k := range d.Kubes0 {
			out = append(out, fmt.Sprintf("kube0 name=%s ev=%s af=%s pt=%s", c10TokStr(k.Name), c10TokList(k.Events), c10TokBit(k.AllowFailure), k.pt()))
		}
		return out
	}
	out = append(out, "doc v1", "policy "+policy)
	if d.Settings != nil {
		iv, bu := "err", "err"
		if dur, err := time.ParseDuration(d.Settings.Interval); err == nil && !d.Settings.NoInterval {
			iv = fmt.Sprint(int64(dur))
		}
		if b, err := strconv.ParseInt(strconv.Itoa(d.Settings.Burst), 10, 32); err == nil && !d.Settings.NoBurst {
			bu = fmt.Sprint(b)
		}
		out = append(out, fmt.Sprintf("settings %s %s", iv, bu))
	}
	if d.OnStartup != nil {
		out = append(out, fmt.Sprintf("onstartup %d", *d.OnStartup))
	}
	for _, k := range d.Kubes {
		fson := false
		if k.FieldSel != nil {
			for _, e := range *k.FieldSel {
				if e.Field == "metadata.name" {
					fson = true
				}
			}
		}
		out = append(out, fmt.Sprintf("kube name=%s av=%s ls=%s fs=%s nsne=%s fson=%s ee=%s we=%s sync=%s wait=%s keep=%s af=%s inc=%s q=%s g=%s pt=%s",
			c10TokStr(k.Name), c10TokBit(c10ApiVersionOK(k.ApiVersion)), c10TokBit(c10LabelSelOK(k.LabelSel)), c10TokBit(c10FieldSelOK(k.FieldSel)),
			c10TokBit(k.NameSel != nil && len(*k.NameSel) > 0), c10TokBit(fson), c10TokOptList(k.ExecEvents), c10TokOptList(k.WatchEvents),
			c10TokOptBoolStr(k.Sync), c10TokOptBoolStr(k.Wait), c10TokOptBoolStr(k.Keep), c10TokBit(k.AllowFailure != nil && *k.AllowFailure),
			c10TokList(k.Includes), c10TokStr(k.Queue), c10TokStr(k.Group), k.pt()))
	}
	for _, s := range d.Scheds {
		out = append(out, fmt.Sprintf("sched name=%s c=%s cok=%s af=%s inc=%s q=%s g=%s", c10TokStr(s.Name), c10TokCron(s.Crontab), c10TokBit(c10ParseOK(s.Crontab)),
			c10TokBit(s.AllowFailure != nil && *s.AllowFailure), c10TokList(s.Includes), c10TokStr(s.Queue), c10TokStr(s.Group)))
	}
	adm := func(kind string, a c10Adm) string {
		fp, sf, to := "~", "~", "~"
		if a.FailurePolicy != "" {
			fp = a.FailurePolicy
		}
		if a.SideEffects != "" {
			sf = a.SideEffects
		}
		if a.Timeout != nil {
			to = fmt.Sprint(*a.Timeout)
		}
		return fmt.Sprintf("%s name=%s inc=%s g=%s ls=%s ns=%s fp=%s sf=%s to=%s wok=%s pt=%s", kind, c10TokStr(a.Name), c10TokList(a.Includes), c10TokStr(a.Group),
			c10TokBit(c10LabelSelOK(a.LabelSel)), c10TokBit(c10LabelSelOK(a.NsLabelSel)), fp, sf, to, c10TokBit(c10WebhookOK(a)), a.pt())
	}
	for _, a := range d.Validating {
		out = append(out, adm("val", a))
	}
	for _, a := range d.Mutating {
		out = append(out, adm("mut", a))
	}
	for _, c := range d.Convs {
		out = append(out, fmt.Sprintf("conv name=%s inc=%s g=%s pt=%s", c10TokStr(c.Name), c10TokList(c.Includes), c10TokStr(c.Group), c.pt()))
	}
	return out
}

func (k c10Kube0) pt() string {
	p := c10KubePT{Kind: k.Kind, Jq: k.Jq, LabelSel: c10NormLS(k.Selector)}
	if k.ObjectName != "" {
		p.HasNameSel, p.NameSel = true, []string{k.ObjectName}
	}
	if (k.NsNames != nil || k.NsAny) && !k.NsAny {
		p.HasNsNames = true
		p.NsNames = []string{}
		if k.NsNames != nil {
			p.NsNames = append(p.NsNames, *k.NsNames...)
		}
	}
	return c10Digest(p)
}
