package main

// Whole-operator cases of C03 with hooks that have SEVERAL bindings (third wave): a real ShellOperator on a
// fake cluster over 2-4 generated bash hooks, configVersion v1 or the legacy v0 format, each with 1-3
// schedule bindings (crontabs drawn from a pool of three, so bindings of one hook and of different hooks
// share crontabs) and 0-1 kubernetes bindings (their events are put into the events manager's channel), every binding with its own `queue` setting (absent, q1..q3).
// Hook h1 is bound in q1 and in at least one other queue.
//
// Observed on the real code (VerifC03RunObserved): (1) at the consumer, the tasks the operator's own
// schedule / kubernetes callbacks produce for each event, in receive order; (2) at every queue created by
// bootstrapMainQueue / initAndStartHookQueues, entry and return of the operator's task handler, with the
// identity of the queue that runs it and the binding contexts the execution handled. The hook processes
// hang while a block file for one of their bindings exists, fail once when told to.
//
// Specification side (computed from the generated configurations only): a tick of crontab c yields one
// task for every schedule binding with crontab c, a kubernetes event one task for the binding that owns
// the monitor, each in the queue named by the binding's `queue` (main when absent).

import (
	"context"
	"fmt"
	"os"
	"path/filepath"
	"sort"
	"strconv"
	"strings"
	"sync"
	"time"

	"github.com/deckhouse/deckhouse/pkg/log"
	"github.com/flant/kube-client/fake"
	"k8s.io/apimachinery/pkg/apis/meta/v1/unstructured"

	"github.com/flant/shell-operator/pkg/hook/config"
	"github.com/flant/shell-operator/pkg/hook/controller"
	"github.com/flant/shell-operator/pkg/hook/task_metadata"
	kemtypes "github.com/flant/shell-operator/pkg/kube_events_manager/types"
	metricstorage "github.com/flant/shell-operator/pkg/metric_storage"
	schedulemanager "github.com/flant/shell-operator/pkg/schedule_manager"
	shell_operator "github.com/flant/shell-operator/pkg/shell-operator"
	"github.com/flant/shell-operator/pkg/task"
	"github.com/flant/shell-operator/pkg/task/queue"
)

var c03OpMetrics = metricstorage.NewMetricStorage(context.Background(), "verif_c03multi_", true, log.NewNop())

type mBinding struct {
	hook    *mHook
	name    string
	kube    bool
	extra   string // more (legal) keys of the binding, none of which has a say in its queue
	crontab string
	queueNo int // 0 = no `queue` key, k = the k-th queue name of the case
	qname   string // the `queue` value as written ("" = no key)
	pair    int // 1.. over all (hook, binding) pairs of the case
	monitor string
	arrived int
	done    int
}

type mHook struct {
	idx      int
	name     string
	v0       bool
	bindings []*mBinding
}

func (b *mBinding) specQueueName() string {
	if b.queueNo == 0 {
		return "-"
	}
	return b.qname
}

func (h *mHook) configText() string {
	var b strings.Builder
	if !h.v0 {
		b.WriteString("configVersion: v1\n")
	}
	var sch, kub []*mBinding
	for _, x := range h.bindings {
		if x.kube {
			kub = append(kub, x)
		} else {
			sch = append(sch, x)
		}
	}
	if len(sch) > 0 {
		b.WriteString("schedule:\n")
		for _, x := range sch {
			fmt.Fprintf(&b, "- name: %s\n  crontab: \"%s\"\n", x.name, x.crontab)
			if x.queueNo > 0 {
				fmt.Fprintf(&b, "  queue: %q\n", x.qname)
			}
		}
	}
	if len(kub) > 0 {
		if h.v0 {
			b.WriteString("onKubernetesEvent:\n")
			for _, x := range kub {
				fmt.Fprintf(&b, "- name: %s\n  kind: ConfigMap\n  event: [add]\n", x.name)
			}
		} else {
			b.WriteString("kubernetes:\n")
			for _, x := range kub {
				fmt.Fprintf(&b, "- name: %s\n  kind: ConfigMap\n  executeHookOnEvent: [\"Added\"]\n  executeHookOnSynchronization: false\n", x.name)
				if x.queueNo > 0 {
					fmt.Fprintf(&b, "  queue: %q\n", x.qname)
				}
				b.WriteString(x.extra)
			}
		}
	}
	return b.String()
}

func writeMultiHook(dir string, h *mHook, failOnce bool) error {
	script := fmt.Sprintf(`#!/usr/bin/env bash
if [[ "$1" == "--config" ]]; then
cat <<'EOF'
%sEOF
exit 0
fi
D=%s
H=%s
bs=$(jq -r '.[].binding' "$BINDING_CONTEXT_PATH")
echo "start $H $(echo $bs | tr ' ' ',')" >> $D/run.log
for b in $bs; do
  while [[ -e $D/block-$H-$b ]]; do sleep 0.005; done
done
rc=0
if [[ -e $D/fail-$H ]]; then rm -f $D/fail-$H; rc=1; fi
echo "end $H $rc" >> $D/run.log
exit $rc
`, h.configText(), dir, h.name)
	p := filepath.Join(dir, "hooks", h.name+".sh")
	if err := os.WriteFile(p, []byte(script), 0o755); err != nil {
		return err
	}
	if failOnce {
		return os.WriteFile(filepath.Join(dir, "fail-"+h.name), nil, 0o644)
	}
	return nil
}

// what the taps recorded, in one order
type mRec struct {
	kind     string // "recv", "S", "F"
	key      string // recv: schedule:<crontab> / kubernetes:<monitor id>
	tasks    []mTask
	queue    string // S/F: name of the queue whose worker ran the handler
	hook     string
	first    string   // S: binding of the task's first context
	headSelf bool     // S: the task is what GetFirst() of that queue returns
	bindings []string // F: bindings of the contexts the execution handled
	status   string
}

type mTask struct{ hook, binding, queue string }

type mRecorder struct {
	mu  sync.Mutex
	rec []mRec
}

func (r *mRecorder) add(x mRec) {
	r.mu.Lock()
	r.rec = append(r.rec, x)
	r.mu.Unlock()
}

func (r *mRecorder) len() int {
	r.mu.Lock()
	defer r.mu.Unlock()
	return len(r.rec)
}

func (r *mRecorder) snapshot() []mRec {
	r.mu.Lock()
	defer r.mu.Unlock()
	return append([]mRec(nil), r.rec...)
}

func showQueueName(s string) string {
	if s == "" {
		return "<empty>"
	}
	return strings.NewReplacer(" ", "_", ",", "_", "=", "_").Replace(s)
}

func c03OperatorMulti(r *Run, c *Case, rng *Rng) {
	if tooManyHangs(c) {
		return
	}
	dir := filepath.Join(r.Scratch, fmt.Sprintf("c03multi-%d", c.Idx))
	if abs, err := filepath.Abs(dir); err == nil {
		dir = abs
	}
	_ = os.MkdirAll(filepath.Join(dir, "hooks"), 0o755)
	_ = os.MkdirAll(filepath.Join(dir, "tmp"), 0o755)
	defer os.RemoveAll(dir)
	logFile := filepath.Join(dir, "run.log")

	// ---- generate the hooks
	nq := rng.Range(1, 3)
	nh := rng.Range(2, 4)
	// the names of the case's queues: q1 (where h1 hangs), and for the 2nd and 3rd either plain names or
	// names that look like the default / like another queue (each is a queue of its own)
	qn := []string{"", "q1", "q2", "q3"}
	if rng.Chance(40) {
		qn[2] = PickOne(rng, []string{"Main", "MAIN", "main1", "Q1", "mai"})
	}
	if rng.Chance(40) {
		qn[3] = PickOne(rng, []string{"mAin", "main-2", "q11", "q", "xmain"})
	}
	crontabs := []string{"1 1 1 1 *", "2 2 2 2 *", "3 3 3 3 *"}
	var hooks []*mHook
	var pairs []*mBinding
	for i := 1; i <= nh; i++ {
		h := &mHook{idx: i, name: fmt.Sprintf("h%d", i)}
		if i > 1 {
			h.v0 = rng.Chance(30)
		}
		ns := rng.Range(1, 3)
		if i == 1 && ns < 2 {
			ns = 2
		}
		for j := 1; j <= ns; j++ {
			b := &mBinding{hook: h, name: fmt.Sprintf("s%d", j), crontab: PickOne(rng, crontabs)}
			if !h.v0 {
				b.queueNo = rng.Range(0, nq)
			}
			h.bindings = append(h.bindings, b)
		}
		if i == 1 {
			// the hook that will hang: s1 lives in q1, s2 in some other queue, often on the same crontab
			h.bindings[0].queueNo = 1
			other := rng.Range(0, nq)
			if other == 1 {
				other = 0
			}
			h.bindings[1].queueNo = other
			if rng.Chance(50) {
				h.bindings[1].crontab = h.bindings[0].crontab
			}
		}
		if rng.Chance(60) {
			b := &mBinding{hook: h, name: "k1", kube: true}
			if !h.v0 {
				b.queueNo = rng.Range(0, nq)
				b.extra, _ = c03KubeExtras(rng, true, false)
			}
			h.bindings = append(h.bindings, b)
		}
		for _, b := range h.bindings {
			pairs = append(pairs, b)
			b.pair = len(pairs)
			b.qname = qn[b.queueNo]
		}
		hooks = append(hooks, h)
		if err := writeMultiHook(dir, h, i > 1 && rng.Chance(25)); err != nil {
			c.Inconcl = "cannot write hook: " + err.Error()
			return
		}
	}
	blockedHook := hooks[0]
	const blockedQ = 1 // spec queue q1
	var cfgDesc []string
	for _, b := range pairs {
		v := "v1"
		if b.hook.v0 {
			v = "v0"
		}
		k := b.crontab
		if b.kube {
			k = "ConfigMap"
		}
		cfgDesc = append(cfgDesc, fmt.Sprintf("%s(%s).%s[%s]:%s", b.hook.name, v, b.name, strings.ReplaceAll(k, " ", "_"), b.specQueueName()))
	}
	c.Desc = "hooks " + strings.Join(cfgDesc, " ")

	// ---- the operator
	fc := fake.NewFakeCluster(fake.ClusterVersionV121)
	ctx, cancel := context.WithCancel(context.Background())
	defer cancel()
	assemble := func() (*shell_operator.ShellOperator, error) {
		return shell_operator.VerifAssembleC01(ctx, fc.Client, filepath.Join(dir, "hooks"), filepath.Join(dir, "tmp"), c03OpMetrics, c03OpMetrics)
	}
	op, err := assemble()
	for try := 0; err != nil && strings.Contains(err.Error(), "text file busy") && try < 10; try++ {
		time.Sleep(30 * time.Millisecond)
		op, err = assemble()
	}
	if err != nil && strings.Contains(err.Error(), "text file busy") {
		c.Inconcl = "hook script busy (fork/exec race between parallel cases)"
		return
	}
	if err != nil {
		c.Oracle("opflag what=assembled:" + strings.ReplaceAll(firstLine(err.Error()), " ", "_") + " ok=false")
		return
	}
	rec := &mRecorder{}
	toTasks := func(ts []task.Task) []mTask {
		var out []mTask
		for _, t := range ts {
			hm := task_metadata.HookMetadataAccessor(t)
			out = append(out, mTask{hm.HookName, hm.Binding, t.GetQueueName()})
		}
		return out
	}
	op.VerifC03RunObserved(func(q *queue.TaskQueue) {
		q.WaitLoopCheckInterval = time.Millisecond
		q.DelayOnQueueIsEmpty = time.Millisecond
		q.DelayOnRepeat = time.Millisecond
		q.ExponentialBackoffFn = func(int) time.Duration { return 2 * time.Millisecond }
	}, func(q *queue.TaskQueue, h func(task.Task) queue.TaskResult) func(task.Task) queue.TaskResult {
		name := q.Name
		return func(t task.Task) queue.TaskResult {
			if t.GetType() != task_metadata.HookRun {
				return h(t)
			}
			hm := task_metadata.HookMetadataAccessor(t)
			if hm.IsSynchronization() || len(hm.BindingContext) == 0 {
				return h(t)
			}
			hd := q.GetFirst()
			rec.add(mRec{kind: "S", queue: name, hook: hm.HookName, first: hm.BindingContext[0].Binding,
				headSelf: hd != nil && hd.GetId() == t.GetId()})
			res := h(t)
			hm = task_metadata.HookMetadataAccessor(t)
			var bs []string
			for _, bc := range hm.BindingContext {
				bs = append(bs, bc.Binding)
			}
			rec.add(mRec{kind: "F", queue: name, hook: hm.HookName, bindings: bs, status: string(res.Status)})
			return res
		}
	}, func(kind, key string, ts []task.Task) {
		rec.add(mRec{kind: "recv", key: kind + ":" + key, tasks: toTasks(ts)})
	})
	defer func() {
		// let every hook process go, stop the workers
		for _, b := range pairs {
			_ = os.Remove(filepath.Join(dir, "block-"+b.hook.name+"-"+b.name))
		}
		op.KubeEventsManager.PauseHandleEvents()
		op.TaskQueues.Stop()
		time.Sleep(10 * time.Millisecond)
	}()
	// waitFor: until cond holds. Gives up (false) only when NOTHING has happened for d — no tap record, no
	// line of a hook process: a stall, not slowness. A case that is still moving when its budget
	// (45 s; the watchdog is 60 s) is used up is undecided: tooSlow.
	caseStart := time.Now()
	tooSlow := false
	activity := func() int { return 1000*op.TaskQueues.GetMain().Length() + rec.len() + len(readLog(logFile)) }
	waitFor := func(cond func() bool, d time.Duration) bool {
		last, lastN := time.Now(), activity()
		for i := 0; ; i++ {
			if cond() {
				return true
			}
			if i%4 == 0 {
				if n := activity(); n != lastN {
					last, lastN = time.Now(), n
				}
			}
			if time.Since(last) > d {
				return cond()
			}
			if time.Since(caseStart) > 45*time.Second {
				tooSlow = true
				return cond()
			}
			time.Sleep(2 * time.Millisecond)
		}
	}
	if !waitFor(func() bool { return op.TaskQueues.GetMain().Length() == 0 }, 15*time.Second) {
		if tooSlow {
			c.Inconcl = "start-up still making progress after 45 s (machine load): undecided"
			return
		}
		hangs.Add(1)
		c.Oracle("opflag what=startup-tasks-of-main-done ok=false")
		return
	}
	// the monitor of each kubernetes binding (ids are made up by the loader)
	monitorOf := map[string]*mBinding{}
	for _, h := range hooks {
		hk := op.HookManager.GetHook(h.name + ".sh")
		if hk == nil {
			c.Oracle("opflag what=hook-loaded:" + h.name + " ok=false")
			return
		}
		for _, kc := range hk.GetConfig().OnKubernetesEvents {
			for _, b := range h.bindings {
				if b.kube && b.name == kc.BindingName && kc.Monitor != nil {
					b.monitor = kc.Monitor.Metadata.MonitorId
					monitorOf[b.monitor] = b
				}
			}
		}
	}
	nKube := len(monitorOf)

	// ---- which queues exist: `main` and the names the configurations mention, nothing else
	wantQ := map[string]bool{"main": true}
	for _, b := range pairs {
		if b.queueNo > 0 {
			wantQ[b.qname] = true
		}
	}
	var want, got []string
	for k := range wantQ {
		want = append(want, k)
	}
	sort.Strings(want)
	op.TaskQueues.Iterate(func(q *queue.TaskQueue) { got = append(got, showQueueName(q.Name)) })
	sort.Strings(got)
	c.Oracle(fmt.Sprintf("queueset want=%s got=%s", joinStrs(want), joinStrs(got)))

	// ---- events
	const sentinel = "0 0 31 2 *" // a crontab no binding has: the consumer receives it and makes no task
	sentTicks, sentKube := 0, 0
	tick := func(crontab string) bool {
		select {
		case op.ScheduleManager.Ch() <- crontab:
			sentTicks++
			return true
		case <-time.After(wStepTimeout):
			return false
		}
	}
	// a kubernetes event is handed to the consumer the way the informers do it: through the events
	// manager's channel, for the monitor of one binding (the informers themselves are C01/C02's subject)
	nObj := 0
	var kubeBindings []*mBinding
	for _, b := range pairs {
		if b.kube && b.monitor != "" {
			kubeBindings = append(kubeBindings, b)
		}
	}
	kubeEvent := func(b *mBinding) bool {
		nObj++
		obj := &unstructured.Unstructured{Object: map[string]interface{}{"apiVersion": "v1", "kind": "ConfigMap",
			"metadata": map[string]interface{}{"name": fmt.Sprintf("o%d", nObj), "namespace": "default"},
			"data":     map[string]interface{}{"v": strconv.Itoa(nObj)}}}
		ev := kemtypes.KubeEvent{MonitorId: b.monitor, Type: kemtypes.TypeEvent,
			WatchEvents: []kemtypes.WatchEventType{kemtypes.WatchEventAdded},
			Objects:     []kemtypes.ObjectAndFilterResult{{Object: obj}}}
		ev.Objects[0].Metadata.ResourceId = fmt.Sprintf("default/ConfigMap/o%d", nObj)
		select {
		case op.KubeEventsManager.Ch() <- ev:
			sentKube++
			return true
		case <-time.After(wStepTimeout):
			return false
		}
	}
	received := func(prefix string) int {
		n := 0
		for _, x := range rec.snapshot() {
			if x.kind == "recv" && strings.HasPrefix(x.key, prefix) {
				n++
			}
		}
		return n
	}
	allIdle := func(except string) bool {
		idle := true
		op.TaskQueues.Iterate(func(q *queue.TaskQueue) {
			if q.Name != except && q.Length() > 0 {
				idle = false
			}
		})
		if !idle {
			return false
		}
		open := map[string]int{}
		for _, x := range rec.snapshot() {
			if x.kind == "S" {
				open[x.queue]++
			} else if x.kind == "F" {
				open[x.queue]--
			}
		}
		for qn, n := range open {
			if qn != except && n > 0 {
				return false
			}
		}
		return true
	}
	// placed: every event sent so far has been received AND its tasks are in their queues. The consumer
	// calls the event callback first and places the tasks afterwards; it is one goroutine, so once it
	// has received a later (sentinel) tick the tasks of everything it received before are placed.
	placed := func() string {
		if !waitFor(func() bool { return received("schedule:") >= sentTicks }, 15*time.Second) {
			return "consumer-stuck"
		}
		if !waitFor(func() bool { return received("kubernetes:") >= sentKube }, 15*time.Second) {
			return "kube-events-missing"
		}
		if !tick(sentinel) || !waitFor(func() bool { return received("schedule:") >= sentTicks }, 15*time.Second) {
			return "consumer-stuck"
		}
		return ""
	}
	// 1. the executions of h1 for its q1 bindings hang
	for _, b := range blockedHook.bindings {
		if b.queueNo == blockedQ {
			_ = os.WriteFile(filepath.Join(dir, "block-"+blockedHook.name+"-"+b.name), nil, 0o644)
		}
	}
	blockedRuns := func() bool {
		for _, l := range readLog(logFile) {
			f := strings.Fields(l)
			if len(f) == 3 && f[0] == "start" && f[1] == blockedHook.name {
				for _, bn := range strings.Split(f[2], ",") {
					for _, b := range blockedHook.bindings {
						if b.name == bn && b.queueNo == blockedQ {
							return true
						}
					}
				}
			}
		}
		return false
	}
	ok := tick(blockedHook.bindings[0].crontab)
	why := ""
	if ok {
		why = placed()
	}
	// (when nothing is left to run and the execution has not started it never will: the oracles tell why)
	ok = ok && why == "" && waitFor(func() bool { return blockedRuns() || allIdle("") }, 15*time.Second)
	blockedStarted := blockedRuns()
	phase2 := len(rec.snapshot())
	// 2. ticks of every crontab and new objects, in random order, while h1 hangs; the crontab of h1's
	// binding in the other queue at least once
	total := rng.Range(4, 9)
	must := rng.Intn(total)
	for i := 0; i < total && ok; i++ {
		switch {
		case i == must:
			ok = tick(blockedHook.bindings[1].crontab)
		case len(kubeBindings) > 0 && rng.Chance(35):
			ok = kubeEvent(PickOne(rng, kubeBindings))
		default:
			ok = tick(PickOne(rng, crontabs))
		}
		if rng.Chance(30) {
			time.Sleep(time.Duration(rng.Intn(20)) * time.Millisecond)
		}
	}
	// 3. every other queue finishes all its work meanwhile (generous bound: a deadlock, not slowness, trips it)
	if ok && why == "" {
		why = placed()
	}
	othersOK := ok && why == "" && waitFor(func() bool { return allIdle("q1") }, 15*time.Second)
	if !othersOK && !tooSlow {
		hangs.Add(1)
	}
	mid := rec.snapshot()
	// 4. release h1, let everything drain
	for _, b := range blockedHook.bindings {
		_ = os.Remove(filepath.Join(dir, "block-"+blockedHook.name+"-"+b.name))
	}
	drained := why == "" && waitFor(func() bool { return allIdle("") }, 15*time.Second)
	if !drained && !tooSlow {
		hangs.Add(1)
	}
	full := rec.snapshot()
	if tooSlow {
		c.Inconcl = "still making progress after 45 s (machine load): undecided"
		return
	}

	// ---- the trace for the oracles
	qNum := map[string]int{"main": 1}
	for k := 1; k <= 3; k++ {
		qNum[qn[k]] = k + 1
	}
	numOf := func(name string) int {
		if n, ok := qNum[name]; ok {
			return n
		}
		qNum[name] = 50 + len(qNum)
		return qNum[name]
	}
	find := func(hook, binding string) *mBinding {
		for _, b := range pairs {
			if b.hook.name+".sh" == hook && b.name == binding {
				return b
			}
		}
		return nil
	}
	expected := func(key string) []*mBinding {
		var out []*mBinding
		if strings.HasPrefix(key, "schedule:") {
			ct := strings.TrimPrefix(key, "schedule:")
			for _, b := range pairs {
				if !b.kube && b.crontab == ct {
					out = append(out, b)
				}
			}
		} else if b := monitorOf[strings.TrimPrefix(key, "kubernetes:")]; b != nil {
			out = append(out, b)
		}
		return out
	}
	type fanKey struct{ cfg, got string }
	fanSeen := map[fanKey]bool{}
	build := func(recs []mRec, emitFanout bool, from int) (string, map[int]int) {
		for _, b := range pairs {
			b.arrived, b.done = 0, 0
		}
		unknown := 0
		perQ := map[int]int{} // spec queue -> number of tasks that arrived for it
		var ev []string
		for ri, x := range recs {
			switch x.kind {
			case "recv":
				exp := expected(x.key)
				left := append([]*mBinding(nil), exp...)
				// the tasks of one event in the order the code made them (bindings of one hook come out of
				// a map), then what the configuration asks for and the code did not make
				for _, t := range x.tasks {
					for i, b := range left {
						if b != nil && b.hook.name+".sh" == t.hook && b.name == t.binding {
							b.arrived++
							ev = append(ev, fmt.Sprintf("r%d:%d", b.queueNo+1, b.pair*1000+b.arrived))
							if ri >= from {
								perQ[b.queueNo+1]++
							}
							left[i] = nil
							break
						}
					}
				}
				for _, b := range left {
					if b != nil {
						b.arrived++
						ev = append(ev, fmt.Sprintf("r%d:%d", b.queueNo+1, b.pair*1000+b.arrived))
						if ri >= from {
							perQ[b.queueNo+1]++
						}
					}
				}
				if emitFanout && (len(exp) > 0 || len(x.tasks) > 0) {
					var cfg, gotT []string
					for _, b := range exp {
						cfg = append(cfg, fmt.Sprintf("%s.%s:%s", b.hook.name, b.name, b.specQueueName()))
					}
					for _, t := range x.tasks {
						gotT = append(gotT, fmt.Sprintf("%s.%s=%s", strings.TrimSuffix(t.hook, ".sh"), t.binding, showQueueName(t.queue)))
					}
					sort.Strings(cfg)
					sort.Strings(gotT)
					k := fanKey{joinStrs(cfg), joinStrs(gotT)}
					if !fanSeen[k] {
						fanSeen[k] = true
						kind := "schedule"
						if strings.HasPrefix(x.key, "kubernetes:") {
							kind = "kubernetes"
						}
						c.Oracle(fmt.Sprintf("fanout kind=%s cfg=%s got=%s", kind, k.cfg, k.got))
					}
				}
			case "S":
				id := 0
				if b := find(x.hook, x.first); b != nil {
					id = b.pair*1000 + b.done + 1
				} else {
					unknown++
					id = 999000 + unknown
				}
				hd := strconv.Itoa(id)
				if !x.headSelf {
					hd = "999999"
				}
				ev = append(ev, fmt.Sprintf("s%d:%d:%s", numOf(x.queue), id, hd))
			case "F":
				qn := numOf(x.queue)
				if x.status != "Success" {
					// the task stays at the head and is run again (maybe with more contexts)
					id := 999000 + unknown
					if len(x.bindings) > 0 {
						if b := find(x.hook, x.bindings[0]); b != nil {
							id = b.pair*1000 + b.done + 1
						}
					}
					ev = append(ev, fmt.Sprintf("f%d:%d", qn, id))
					continue
				}
				// one successful execution handled all its contexts: in the trace they follow each other
				for i, bn := range x.bindings {
					id := 999000 + unknown
					if b := find(x.hook, bn); b != nil {
						b.done++
						id = b.pair*1000 + b.done
					}
					if i > 0 {
						ev = append(ev, fmt.Sprintf("s%d:%d:%d", qn, id, id))
					}
					ev = append(ev, fmt.Sprintf("f%d:%d", qn, id))
				}
			}
		}
		return joinStrs(ev), perQ
	}
	midTrace, midPerQ := build(mid, false, phase2)
	fullTrace, _ := build(full, true, 0)
	var qs []int
	qseen := map[int]bool{}
	for _, n := range want {
		qseen[numOf(n)] = true
	}
	for _, x := range full {
		if x.kind != "recv" {
			qseen[numOf(x.queue)] = true
		}
	}
	for n := range qseen {
		qs = append(qs, n)
	}
	sort.Ints(qs)

	c.Oracle(fmt.Sprintf("opflag what=hanging-execution-of-h1-in-q1-started ok=%v", blockedStarted))
	if blockedStarted {
		var bq []int
		for q, n := range midPerQ {
			if q != blockedQ+1 && n > 0 {
				bq = append(bq, q)
			}
		}
		sort.Ints(bq)
		for _, q := range bq {
			c.Oracle(fmt.Sprintf("progress a=%d b=%d n=%d ev=%s", blockedQ+1, q, midPerQ[q], midTrace))
		}
	}
	c.Oracle(fmt.Sprintf("opflag what=all-queues-drained ok=%v", drained))
	c.Oracle(fmt.Sprintf("logfree q=%s ev=%s", joinInts(qs), fullTrace))
	c.Oracle(fmt.Sprintf("order q=%s ev=%s", joinInts(qs), fullTrace))
	c.Oracle(fmt.Sprintf("complete q=%s ev=%s", joinInts(qs), fullTrace))
	c.Nontrivial = true
	c.Note("kind:whole-operator-multi")
	for _, h := range hooks {
		if h.v0 {
			c.Note("multi:has-v0-hook")
			break
		}
	}
	if nKube > 0 {
		c.Note("multi:has-kubernetes-binding")
	}
	if blockedHook.bindings[0].crontab == blockedHook.bindings[1].crontab {
		c.Note("multi:h1-two-queues-one-crontab")
	}
}

// c03LoaderGen: generated hook configurations (v0 and v1; schedule, kubernetes bindings with and
// without `queue`) through the real loader; every binding must come out with the queue it names, `main`
// when it names none (version 0 has no `queue` option at all).
func c03LoaderGen(c *Case, rng *Rng) {
	v0 := rng.Chance(40)
	type bnd struct {
		name, key, queue string // name as written ("" = no `name` key); key = what the oracle calls it
		kube             bool
		minute           int
		extra, wfs       string // other keys of the binding (v1); wfs = the waitForSynchronization value written ("-" = none)
	}
	var bs []bnd
	// how the bindings are named: 0 = every binding its own name, 1 = none has a name (the loader calls
	// them all `schedule` / `kubernetes`), 2 = names from a pool of two (collisions)
	naming := rng.Intn(3)
	nameOf := func(prefix string, i int) string {
		switch naming {
		case 1:
			return ""
		case 2:
			return fmt.Sprintf("%s%d", prefix, rng.Intn(2))
		}
		return fmt.Sprintf("%s%d", prefix, i)
	}
	for j := rng.Range(0, 3); j > 0; j-- {
		x := bnd{name: nameOf("s", len(bs)), queue: c03QueueSetting(rng), minute: len(bs)}
		if !v0 {
			x.extra = c03ScheduleExtras(rng, naming == 0)
		}
		bs = append(bs, x)
	}
	for j := rng.Range(0, 3); j > 0; j-- {
		x := bnd{name: nameOf("k", len(bs)), queue: c03QueueSetting(rng), kube: true, wfs: "-"}
		if !v0 {
			x.extra, x.wfs = c03KubeExtras(rng, false, naming == 0)
		}
		bs = append(bs, x)
	}
	if len(bs) == 0 {
		bs = append(bs, bnd{name: "k0", kube: true})
	}
	var b strings.Builder
	if !v0 {
		b.WriteString("configVersion: v1\n")
	}
	for pass := 0; pass < 2; pass++ {
		first := true
		for _, x := range bs {
			if x.kube != (pass == 1) {
				continue
			}
			if first {
				first = false
				switch {
				case pass == 0:
					b.WriteString("schedule:\n")
				case v0:
					b.WriteString("onKubernetesEvent:\n")
				default:
					b.WriteString("kubernetes:\n")
				}
			}
			if pass == 0 {
				fmt.Fprintf(&b, "- crontab: \"%d * * * *\"\n", x.minute)
			} else if v0 {
				b.WriteString("- kind: Pod\n  event: [add]\n")
			} else {
				b.WriteString("- kind: Pod\n")
			}
			if x.name != "" {
				fmt.Fprintf(&b, "  name: %s\n", x.name)
			}
			if !v0 && x.queue != "" {
				fmt.Fprintf(&b, "  queue: %q\n", x.queue)
			}
			b.WriteString(x.extra)
		}
	}
	// a binding is identified by its name and (schedule bindings, whose names may collide) its crontab
	var cfgL []string
	for _, x := range bs {
		q := showQueueName(x.queue)
		if x.queue == "" || v0 {
			q = "-"
		}
		n := x.name
		switch {
		case n == "" && x.kube && v0:
			n = "onKubernetesEvent"
		case n == "" && x.kube:
			n = "kubernetes"
		case n == "":
			n = "schedule"
		}
		if !x.kube {
			n += fmt.Sprintf("@%d", x.minute)
		}
		cfgL = append(cfgL, n+":"+q)
	}
	sort.Strings(cfgL)
	ver := "v1"
	if v0 {
		ver = "v0"
	}
	c.Desc = "loader " + ver + " " + strings.ReplaceAll(strings.TrimSpace(b.String()), "\n", "\\n")
	cfg := &config.HookConfig{}
	if err := cfg.LoadAndValidate([]byte(b.String())); err != nil {
		c.Op("loadconfig", "err")
		c.Oracle("queuenames cfg=" + joinStrs(cfgL) + " got=err")
		return
	}
	var got []string
	for _, s := range cfg.Schedules {
		got = append(got, s.BindingName+"@"+strings.Fields(s.ScheduleEntry.Crontab+" ?")[0]+"="+showQueueName(s.Queue))
	}
	for _, k := range cfg.OnKubernetesEvents {
		got = append(got, k.BindingName+"="+showQueueName(k.Queue))
	}
	sort.Strings(got)
	c.Op("loadconfig", "ok")
	c.Oracle("queuenames cfg=" + joinStrs(cfgL) + " got=" + joinStrs(got))
	// the converter of a version-1 kubernetes binding against its model (Routing.convKube): queue and
	// waitForSynchronization as functions of the two keys as written (the loader keeps the bindings' order)
	if !v0 {
		var kb []bnd
		for _, x := range bs {
			if x.kube {
				kb = append(kb, x)
			}
		}
		if len(kb) == len(cfg.OnKubernetesEvents) {
			for i, x := range kb {
				q := showQueueName(x.queue)
				if x.queue == "" {
					q = "-"
				}
				k := cfg.OnKubernetesEvents[i]
				c.Op(fmt.Sprintf("convkube q=%s wfs=%s", q, x.wfs), fmt.Sprintf("%s/%v", showQueueName(k.Queue), k.WaitForSynchronization))
				if x.wfs == "false" {
					c.Note("loader:waitForSynchronization-false")
					if x.queue == "" {
						c.Note("loader:waitForSynchronization-false-without-queue")
					}
				}
			}
		}
	}
	c.Nontrivial = true
	c.Note("kind:loader-" + ver)
	c.Note(fmt.Sprintf("loader:naming-%d", naming))
	for _, x := range bs {
		if !v0 && x.queue != "" && x.queue != "main" && strings.EqualFold(strings.TrimSpace(x.queue), "main") {
			c.Note("loader:queue-looks-like-main")
			break
		}
	}
}

// c03KubeExtras: further keys of a version-1 kubernetes binding, each absent most of the time: none of
// them has a say in the queue of the binding's tasks. wfs = the waitForSynchronization value written
// ("-" = none). whole = the binding is used in a whole-operator case (no Synchronization run, objects
// of the fake cluster are not selected by labels). group = the bindings of the hook have names of their
// own (the loader refuses a group whose bindings share a name).
func c03KubeExtras(rng *Rng, whole, group bool) (text, wfs string) {
	var b strings.Builder
	wfs = "-"
	if rng.Chance(45) {
		wfs = PickOne(rng, []string{"false", "false", "true"})
		fmt.Fprintf(&b, "  waitForSynchronization: %s\n", wfs)
	}
	if !whole && rng.Chance(25) {
		fmt.Fprintf(&b, "  executeHookOnSynchronization: %s\n", PickOne(rng, []string{"false", "true"}))
	}
	if rng.Chance(25) {
		fmt.Fprintf(&b, "  keepFullObjectsInMemory: %s\n", PickOne(rng, []string{"false", "true"}))
	}
	if rng.Chance(20) {
		fmt.Fprintf(&b, "  allowFailure: %s\n", PickOne(rng, []string{"false", "true"}))
	}
	if !whole && group && rng.Chance(20) {
		fmt.Fprintf(&b, "  group: %s\n", PickOne(rng, []string{"g1", "main", "pods"}))
	}
	if !whole && rng.Chance(15) {
		b.WriteString("  jqFilter: \".metadata.labels\"\n")
	}
	if !whole && rng.Chance(15) {
		b.WriteString("  namespace:\n    nameSelector:\n      matchNames: [\"default\"]\n")
	}
	return b.String(), wfs
}

// c03ScheduleExtras: further keys of a version-1 schedule binding (none of them names a queue).
func c03ScheduleExtras(rng *Rng, group bool) string {
	var b strings.Builder
	if rng.Chance(20) {
		fmt.Fprintf(&b, "  allowFailure: %s\n", PickOne(rng, []string{"false", "true"}))
	}
	if group && rng.Chance(20) {
		fmt.Fprintf(&b, "  group: %s\n", PickOne(rng, []string{"g1", "main", "pods"}))
	}
	return b.String()
}

// c03QueueSetting: the value of a `queue` key: absent, ordinary names, `main` itself, and names that look
// like the default or like each other (other letter case, prefixes, suffixes) — each is a queue of its own.
func c03QueueSetting(rng *Rng) string {
	if rng.Chance(25) {
		return ""
	}
	return PickOne(rng, []string{"slow", "pods", "main", "q-1", "Main", "MAIN", "mAin", "main1", "main-2",
		"xmain", "mai", "mainmain", "Q-1", "Slow", "pods2", "pod", "main.", "default", "m"})
}

// c03Controller: a generated configuration (v0 or v1, 1-5 schedule bindings with crontabs from a pool of
// three, so several bindings share one; `queue` absent or named) through the real loader into a real
// HookController with a real (not started) schedule manager; EnableScheduleBindings, then one
// HandleScheduleEvent per crontab. Compared with Model/Routing (op schedfan) and judged by the oracle
// fanout: one info per binding with that crontab, for the queue it names. Plus 0-3 kubernetes bindings
// through the real kubernetes bindings controller (fake events manager): one event per monitor, the info
// must carry the queue of the binding that owns the monitor. Binding names: all different / none named /
// from a pool of two; queue names include look-alikes of `main` and of each other. Half of the v1 cases:
// schedule bindings carry a `group` from a pool of two (bindings of one crontab and one group in
// different queues): the group has no say in how many tasks a tick makes, nor for which queues.
func c03Controller(c *Case, rng *Rng) {
	v0 := rng.Chance(30)
	pool := []string{"1 1 1 1 *", "*/5 * * * *", "3 3 3 3 *"}
	queues := []string{"", "", "qa", "qb", "main", "Main", "qA", "qa1"}
	type bnd struct {
		name, queue string // name "" = no `name` key: the loader calls every such binding `schedule`
		ct          int
		group       string // `group` key of a v1 schedule binding ("" = absent): no say in the queue
	}
	var bs []bnd
	// seventh wave: in half of the v1 cases the schedule bindings carry a `group` from a pool of two, so
	// that bindings on one crontab share a group while naming different queues (a group joins snapshots
	// and binding contexts of ONE execution; it does not join bindings, each keeps its task and queue)
	grouped := !v0 && rng.Chance(50)
	groupPool := []string{"", "g1", "g1", "g2"}
	if rng.Chance(30) {
		groupPool = []string{"g1"}
	}
	// names: 0 = all different, 1 = no binding has a name, 2 = names from a pool of two (collisions)
	naming := rng.Intn(3)
	for j := rng.Range(1, 5); j > 0; j-- {
		b := bnd{name: fmt.Sprintf("s%d", len(bs)+1), ct: rng.Intn(len(pool))}
		switch naming {
		case 1:
			b.name = ""
		case 2:
			b.name = fmt.Sprintf("s%d", rng.Range(1, 2))
		}
		if !v0 {
			b.queue = PickOne(rng, queues)
		}
		if grouped {
			b.group = PickOne(rng, groupPool)
		}
		bs = append(bs, b)
	}
	var y strings.Builder
	if !v0 {
		y.WriteString("configVersion: v1\n")
	}
	y.WriteString("schedule:\n")
	for _, b := range bs {
		fmt.Fprintf(&y, "- crontab: \"%s\"\n", pool[b.ct])
		if b.name != "" {
			fmt.Fprintf(&y, "  name: %s\n", b.name)
		}
		if b.queue != "" {
			fmt.Fprintf(&y, "  queue: %s\n", b.queue)
		}
		if b.group != "" {
			fmt.Fprintf(&y, "  group: %s\n", b.group)
		}
	}
	// 0-3 kubernetes bindings, named by the same regime
	var kbs []bnd
	for j := rng.Range(0, 3); j > 0; j-- {
		b := bnd{name: fmt.Sprintf("k%d", len(kbs)+1)}
		switch naming {
		case 1:
			b.name = ""
		case 2:
			b.name = fmt.Sprintf("k%d", rng.Range(1, 2))
		}
		if !v0 {
			b.queue = PickOne(rng, queues)
		}
		kbs = append(kbs, b)
	}
	if len(kbs) > 0 {
		if v0 {
			y.WriteString("onKubernetesEvent:\n")
		} else {
			y.WriteString("kubernetes:\n")
		}
		for _, b := range kbs {
			y.WriteString("- kind: Pod\n")
			if v0 {
				y.WriteString("  event: [add]\n")
			}
			if b.name != "" {
				fmt.Fprintf(&y, "  name: %s\n", b.name)
			}
			if b.queue != "" {
				fmt.Fprintf(&y, "  queue: %s\n", b.queue)
			}
			if !v0 {
				x, _ := c03KubeExtras(rng, false, naming == 0)
				y.WriteString(x)
			}
		}
	}
	ver := "v1"
	if v0 {
		ver = "v0"
	}
	c.Desc = "controller " + ver + " " + strings.ReplaceAll(strings.TrimSpace(y.String()), "\n", "\\n")
	cfg := &config.HookConfig{}
	if err := cfg.LoadAndValidate([]byte(y.String())); err != nil {
		c.Op("loadconfig", "err")
		return
	}
	c.Op("loadconfig", "ok")
	ctx, cancel := context.WithCancel(context.Background())
	defer cancel()
	hc := controller.NewHookController()
	hc.InitScheduleBindings(cfg.Schedules, schedulemanager.NewScheduleManager(ctx, log.NewNop()))
	hc.EnableScheduleBindings()
	// what the loader made of it, as the model's input: name / entry id (interned) / crontab / queue key as written
	ids := map[string]string{}
	var line []string
	for i, s := range cfg.Schedules {
		if _, ok := ids[s.ScheduleEntry.Id]; !ok {
			ids[s.ScheduleEntry.Id] = fmt.Sprintf("e%d", len(ids)+1)
		}
		q, ct := "-", "c?"
		if i < len(bs) && bs[i].queue != "" {
			q = bs[i].queue
		}
		for k, p := range pool {
			if p == s.ScheduleEntry.Crontab {
				ct = fmt.Sprintf("c%d", k+1)
			}
		}
		line = append(line, fmt.Sprintf("%s/%s/%s/%s", s.BindingName, ids[s.ScheduleEntry.Id], ct, q))
	}
	for k, p := range pool {
		var got []string
		hc.HandleScheduleEvent(p, func(info controller.BindingExecutionInfo) {
			got = append(got, info.Binding+"="+showQueueName(info.QueueName))
		})
		sort.Strings(got)
		c.Op(fmt.Sprintf("schedfan v=%s bs=%s tick=c%d", ver, joinStrs(line), k+1), joinStrs(got))
		var cfgL []string
		for _, b := range bs {
			if b.ct == k {
				q := b.queue
				if q == "" {
					q = "-"
				}
				n := b.name
				if n == "" {
					n = "schedule"
				}
				cfgL = append(cfgL, n+":"+q)
			}
		}
		sort.Strings(cfgL)
		c.Oracle(fmt.Sprintf("fanout kind=schedule cfg=%s got=%s", joinStrs(cfgL), joinStrs(got)))
	}
	// the kubernetes bindings: the real controller's links (monitor id -> binding), one event per monitor
	if len(kbs) > 0 && len(cfg.OnKubernetesEvents) == len(kbs) {
		hc.InitKubernetesBindings(cfg.OnKubernetesEvents, &fakeKem{ch: make(chan kemtypes.KubeEvent, 1)}, log.NewNop())
		if err := hc.HandleEnableKubernetesBindings(func(controller.BindingExecutionInfo) {}); err != nil {
			c.Oracle("opflag what=kubernetes-bindings-enabled ok=false")
			return
		}
		for i, kc := range cfg.OnKubernetesEvents {
			obj := &unstructured.Unstructured{Object: map[string]interface{}{"apiVersion": "v1", "kind": "Pod",
				"metadata": map[string]interface{}{"name": fmt.Sprintf("p%d", i), "namespace": "default"}}}
			ev := kemtypes.KubeEvent{MonitorId: kc.Monitor.Metadata.MonitorId, Type: kemtypes.TypeEvent,
				WatchEvents: []kemtypes.WatchEventType{kemtypes.WatchEventAdded},
				Objects:     []kemtypes.ObjectAndFilterResult{{Object: obj}}}
			var got []string
			hc.HandleKubeEvent(ev, func(info controller.BindingExecutionInfo) {
				got = append(got, info.Binding+"="+showQueueName(info.QueueName))
			})
			q, n := kbs[i].queue, kbs[i].name
			if q == "" {
				q = "-"
			}
			if n == "" {
				n = "kubernetes"
				if v0 {
					n = "onKubernetesEvent"
				}
			}
			c.Oracle(fmt.Sprintf("fanout kind=kubernetes cfg=%s:%s got=%s", n, q, joinStrs(got)))
		}
		c.Note("controller:has-kubernetes-bindings")
	}
	c.Nontrivial = len(bs)+len(kbs) >= 2
	c.Note("kind:controller-" + ver)
	c.Note(fmt.Sprintf("controller:naming-%d", naming))
	// coverage: two bindings on one crontab in one group that name different queues
	for i, a := range bs {
		for _, b := range bs[:i] {
			if a.group != "" && a.group == b.group && a.ct == b.ct && a.queue != b.queue {
				c.Note("controller:one-group-one-crontab-two-queues")
			}
		}
	}
}
