package main

// Fourth-wave families of C03.
//
// c03HeadChange — "the task executed next is always the one at the head of that queue", on the retry
// path: a task fails (or asks to be repeated), the worker sleeps in its back-off, and the head of the
// queue changes meanwhile through the queue's own API (AddFirst — the package documentation's
// "meta-tasks" —, Remove, Filter; with and without CancelTaskDelay). The worker is stepped from yield
// point to yield point (the shared `world`), the change is made while it is parked in the wait loop, and
// the execution that follows the back-off must be of the task that is the head THEN. Plain
// shell-operator never touches the head of a sleeping queue (the consumer appends; handlers compact
// their own queue from inside the handler): the inputs of this family are those of a user of the
// queue package (addon-operator style).
//
// c03LockWindows — "queues do not block each other": real goroutines, real consumer; the worker of
// queue 1 is parked every time it is about to take its queue's lock (yield points queue.lock.*: the
// empty test of the shortcut and of the periodic head check, the status updates of the wait loop), and
// while it stands there events for queue 1 (often empty then) and for the other queues arrive through
// the real consumer. Every event must be placed (the consumer comes back for the next one) and the
// other queues must execute what they got before queue 1's worker is let go. A lock-order cycle
// between the wait loop (waitMu, queue lock) and the consumer (set lock, queue lock) shows as the
// observation `hang`: the consumer never takes the next event.

import (
	"fmt"
	"strconv"
	"strings"
	"sync"
	"sync/atomic"
	"time"

	"github.com/flant/shell-operator/pkg/task"
	"github.com/flant/shell-operator/pkg/task/queue"
)

// opExt: a change of queue n made through the queue's public API by somebody who is not its worker.
func (w *world) opExt(kind string, n int, id int, keep []int) {
	if w.bad != "" {
		return
	}
	q := w.qs[n]
	line := fmt.Sprintf("ext %s %d %d", kind, n, id)
	done := make(chan struct{})
	go func() {
		defer close(done)
		switch kind {
		case "addfirst":
			q.q.AddFirst(mkTask(id).(*task.BaseTask).WithQueueName(q.name))
		case "remove":
			q.q.Remove(strconv.Itoa(id))
		case "filter":
			ks := map[string]bool{}
			for _, k := range keep {
				ks[strconv.Itoa(k)] = true
			}
			q.q.Filter(func(t task.Task) bool { return ks[taskID(t)] })
		}
	}()
	if kind == "filter" {
		line = fmt.Sprintf("ext filter %d %s", n, joinInts(keep))
	}
	// Filter has a yield point of its own with the queue's key: let the caller through
	for waiting := true; waiting; {
		select {
		case <-done:
			waiting = false
		case a := <-q.arrive:
			if a.Name == "queue.filter.locked" {
				a.Release()
			} else {
				// the worker itself arrived somewhere although it is parked: cannot happen; keep it
				q.parked = a
			}
		case <-time.After(wStepTimeout):
			w.bad = "timeout"
			hangs.Add(1)
			w.c.Op(line, "hang")
			return
		}
	}
	w.c.Op(line, w.obs())
}

func c03HeadChange(c *Case, rng *Rng) {
	if tooManyHangs(c) {
		return
	}
	w := newWorld(c, fmt.Sprintf("c03h-%d", c.Idx))
	defer w.close()
	nq := rng.Range(1, 2)
	for i := 1; i <= nq; i++ {
		w.opNew(i, true)
		w.opStart(i)
	}
	// queue 1: tasks 1..k, the first one fails or repeats
	k := rng.Range(1, 3)
	var ts []delivery
	for i := 1; i <= k; i++ {
		ts = append(ts, delivery{1, i})
	}
	if nq > 1 {
		ts = append(ts, delivery{2, 50})
	}
	w.opDeliver(ts, rng.Bool(), "deliver")
	w.opGo(1) // afterCheck
	w.opGo(1) // shortcut: run:1
	if w.bad != "" || w.qs[1].at != "run:1" {
		if w.bad != "" {
			c.Op("harness-timeout", "hang")
		}
		w.oracleLog()
		return
	}
	res := wResult{status: "fail", backMs: rng.Range(0, 4)}
	switch rng.Intn(4) {
	case 0:
		res = wResult{status: "repeat"}
	case 1:
		res = wResult{status: "fail", backMs: rng.Range(1, 3), delayMs: rng.Range(1, 3)}
	}
	w.opRet(1, res) // afterHandler
	w.opGo(1)       // loop
	// where the worker stands when the head changes
	where := rng.Intn(4) // 0 loop, 1 afterCheck, 2 beforeSelect, 3 after a few ticks
	c.Note(fmt.Sprintf("headchange:at-%d", where))
	advance := func() bool { // one step of worker 1; true when it entered a handler or is gone
		q := w.qs[1]
		switch {
		case q.at == "loop" || q.at == "afterCheck" || q.at == "afterHandler":
			w.opGo(1)
		case q.at == "beforeSelect":
			w.opSel(1, false)
		case q.at == "tick":
			w.opTickGo(1)
		default:
			return true
		}
		return w.bad != "" || strings.HasPrefix(w.qs[1].at, "run:") || w.qs[1].at == "exit"
	}
	// what the queue held at each look of waitForTask (nobody but this harness changes the queue, and it
	// does so only while the worker is parked): for the op `waithead` (Model/WaitHead)
	var looks []string
	firstItems := "-"
	plain := advance
	advance = func() bool {
		at, items := w.qs[1].at, itemsOf(w.qs[1].q)
		done := plain()
		switch at {
		case "afterCheck":
			firstItems, looks = items, nil
		case "tick":
			e := 0
			if strings.HasPrefix(w.qs[1].at, "run:") {
				e = 1
			}
			looks = append(looks, fmt.Sprintf("%d:%s", e, items))
		}
		return done
	}
	entered := false
	if where >= 1 {
		entered = advance() // afterCheck
	}
	if where >= 2 && !entered {
		entered = advance() // beforeSelect (or the shortcut's handler when the delay is 0)
	}
	if where == 3 && !entered {
		for i := rng.Range(1, 3); i > 0 && !entered; i-- {
			entered = advance()
		}
	}
	next := 100
	if !entered && w.bad == "" {
		// the head changes
		for n := rng.Range(1, 2); n > 0; n-- {
			switch rng.Intn(4) {
			case 0, 1:
				next++
				w.opExt("addfirst", 1, next, nil)
				c.Note("headchange:addfirst")
			case 2:
				w.opExt("remove", 1, 1, nil)
				c.Note("headchange:remove-failed-task")
			default:
				var keep []int
				for i := 2; i <= k; i++ {
					if rng.Bool() {
						keep = append(keep, i)
					}
				}
				w.opExt("filter", 1, 0, keep)
				c.Note("headchange:filter")
			}
		}
		if rng.Chance(30) {
			w.opCancelDelay(1)
		}
		if nq > 1 && rng.Bool() {
			w.opDeliver([]delivery{{1, 60}, {2, 51}}, rng.Bool(), "deliver")
		}
		// the back-off runs out (real time: a few 1 ms ticks); the next execution is of the head of then
		for i := 0; i < 60 && !entered; i++ {
			entered = advance()
			if !entered && w.qs[1].at == "beforeSelect" && w.qs[1].q.Length() == 0 && i > 20 {
				break // the queue was emptied: nothing to run
			}
		}
	}
	if w.bad != "" {
		c.Op("harness-timeout", "hang")
		return
	}
	if entered && strings.HasPrefix(w.qs[1].at, "run:") {
		sleep := 1
		if res.status == "fail" && res.backMs == 0 && res.delayMs == 0 {
			sleep = 0
		}
		c.Op(fmt.Sprintf("waithead sleep=%d first=%s looks=%s", sleep, firstItems, joinStrsSep(looks, ";")), strings.TrimPrefix(w.qs[1].at, "run:"))
	}
	c.Desc = fmt.Sprintf("head change on the retry path: task 1 of %d returns %s (back-off %d ms, delay %d ms), queue changed while the worker stood at position %d", k, res.status, res.backMs, res.delayMs, where)
	// everything left is executed, successfully
	w.drain(func(int, string) wResult { return wResult{status: "success"} }, 200)
	if w.bad != "" {
		c.Op("harness-timeout", "hang")
		return
	}
	w.oracleLog()
	c.Nontrivial = true
	c.Note("kind:head-change-during-back-off")
}

// ---------------------------------------------------------------- lock windows

var c03NoLockPoints atomic.Bool

func c03LockWindows(c *Case, rng *Rng) {
	if tooManyHangs(c) {
		return
	}
	if c03NoLockPoints.Load() {
		c.Inconcl = "no yield point queue.lock.* in this checkout (see the first case of the family)"
		return
	}
	caseStart := time.Now()
	nq := rng.Range(2, 3)
	prefix := fmt.Sprintf("c03l-%d", c.Idx)
	var failOnce sync.Map
	failPct := rng.Intn(40)
	var execDone atomic.Int64
	f := newFreeWorld(prefix, nq, func(n int, id string) queue.TaskResult {
		if v, _ := strconv.Atoi(id); v%100 < failPct {
			if _, seen := failOnce.LoadOrStore(id, true); !seen {
				if v%2 == 0 {
					return queue.TaskResult{Status: queue.Fail}
				}
				return queue.TaskResult{Status: queue.Repeat}
			}
		}
		execDone.Add(1)
		return queue.TaskResult{Status: queue.Success}
	})
	defer f.cancel()
	var recvMu sync.Mutex
	recvd := map[string]bool{}
	f.onRecv = func(key string) {
		recvMu.Lock()
		recvd[key] = true
		recvMu.Unlock()
	}
	wasReceived := func(key string) bool {
		recvMu.Lock()
		defer recvMu.Unlock()
		return recvd[key]
	}
	key := fmt.Sprintf("lock:%s-1", prefix)
	arrive := sched.Subscribe(key)
	stopDrain := make(chan struct{})
	defer func() {
		sched.Unsubscribe(key)
		close(stopDrain)
		for {
			select {
			case a := <-arrive:
				a.Release()
			default:
				return
			}
		}
	}()
	f.meh.Start()
	for i := 1; i <= nq; i++ {
		f.q(i).Start()
	}
	seq := 0
	sentTotal := 0
	nextID := make([]int, nq+1)
	// event: the tasks of one event through the real consumer, then a second, empty event on the same
	// channel: when the consumer has asked for ITS tasks, the first event's tasks are placed
	event := func(ts []delivery) string {
		viaKube := rng.Bool()
		seq++
		if !f.send(seq, ts, viaKube) {
			return "the-consumer-does-not-take-events-any-more"
		}
		sentTotal += len(ts)
		seq++
		bkey := fmt.Sprintf("ev-%d", seq)
		if !f.send(seq, nil, viaKube) {
			return "the-consumer-does-not-take-events-any-more"
		}
		for t0 := time.Now(); !wasReceived(bkey); time.Sleep(200 * time.Microsecond) {
			if time.Since(t0) > 15*time.Second {
				return "the-consumer-never-came-back-from-placing-the-tasks-of-an-event"
			}
		}
		return ""
	}
	othersIdle := func() bool {
		for n := 2; n <= nq; n++ {
			if f.q(n).Length() > 0 {
				return false
			}
		}
		return true
	}
	mk := func(n int) delivery {
		nextID[n]++
		return delivery{n, n*1000 + nextID[n]}
	}
	why := ""
	lastWindow, lastEvent := "", ""
	windows := map[string]int{}
	events := 0
	steps := rng.Range(40, 120)
	for i := 0; i < steps && why == ""; i++ {
		var a interface {
			Release()
		}
		name := ""
		select {
		case x := <-arrive:
			a, name = x, x.Name
		case <-time.After(15 * time.Second):
			why = "the-worker-of-queue-1-stopped-polling-its-queue"
		}
		if a == nil && i == 0 {
			// not one arrival: this checkout has no yield points queue.lock.* (repo commit "verif hooks: yield points queue.lock…")
			c03NoLockPoints.Store(true)
			c.Inconcl = "no yield point queue.lock.* was reached: the checkout lacks the verif hooks of this family"
			return
		}
		if a == nil {
			break
		}
		windows[name]++
		lastWindow = name
		if rng.Chance(30) {
			// an event arrives while queue 1's worker stands in front of its queue lock
			var ts []delivery
			for j := rng.Range(1, 3); j > 0; j-- {
				if rng.Chance(60) {
					ts = append(ts, mk(1))
				} else {
					ts = append(ts, mk(rng.Range(2, nq)))
				}
			}
			events++
			lastEvent = fmt.Sprintf("%v (queue 1 held %d tasks)", ts, f.q(1).Length())
			why = event(ts)
			// the other queues do their work while queue 1 is held up
			if why == "" {
				last, lastN := time.Now(), execDone.Load()
				for !othersIdle() {
					if n := execDone.Load(); n != lastN {
						last, lastN = time.Now(), n
					}
					if time.Since(last) > 15*time.Second {
						why = "another-queue-does-not-execute-its-tasks-while-the-worker-of-queue-1-waits-for-its-lock"
						break
					}
					time.Sleep(200 * time.Microsecond)
				}
			}
		}
		if rng.Chance(5) {
			cd := make(chan struct{})
			go func() { f.q(1).CancelTaskDelay(); close(cd) }()
			select {
			case <-cd:
			case <-time.After(15 * time.Second):
				why = "CancelTaskDelay-does-not-return"
			}
		}
		a.Release()
		if time.Since(caseStart) > 40*time.Second {
			break
		}
	}
	// let the worker run freely, one more event for every queue, everything drains
	sched.Unsubscribe(key)
	go func() {
		for {
			select {
			case a := <-arrive:
				a.Release()
			case <-stopDrain:
				return
			}
		}
	}()
	if why == "" {
		var ts []delivery
		for n := 1; n <= nq; n++ {
			ts = append(ts, mk(n))
		}
		why = event(ts)
	}
	drained := false
	if why == "" {
		last, lastN := time.Now(), execDone.Load()
		for {
			if int(execDone.Load()) >= sentTotal {
				drained = true
				break
			}
			if n := execDone.Load(); n != lastN {
				last, lastN = time.Now(), n
			}
			if time.Since(last) > 15*time.Second {
				break
			}
			time.Sleep(500 * time.Microsecond)
		}
		// the end markers of the last executions
		for t0 := time.Now(); time.Since(t0) < 5*time.Second; time.Sleep(200 * time.Microsecond) {
			open := 0
			for _, e := range strings.Split(f.rec.str(), ",") {
				if len(e) > 1 && e[0] == 's' {
					open++
				} else if len(e) > 1 && e[0] == 'f' {
					open--
				}
			}
			if open == 0 {
				break
			}
		}
	}
	if why != "" || !drained {
		hangs.Add(1)
	}
	if time.Since(caseStart) > 50*time.Second && (why != "" || !drained) {
		c.Inconcl = "lock-window case still running after 50 s (machine load): undecided"
		return
	}
	var wl []string
	for _, n := range []string{"queue.lock.IsEmpty", "queue.lock.GetStatus", "queue.lock.SetStatus"} {
		wl = append(wl, fmt.Sprintf("%s:%d", strings.TrimPrefix(n, "queue.lock."), windows[n]))
	}
	c.Desc = fmt.Sprintf("lock windows of queue 1 (%s), %d events while its worker stood before the queue lock, %d queues", strings.Join(wl, " "), events, nq)
	if why == "" {
		why = "none"
	} else {
		c.Desc += fmt.Sprintf("; stuck (%s) with the worker of queue 1 parked at %s and the event {queue task} %s", why, lastWindow, lastEvent)
	}
	c.Oracle(fmt.Sprintf("opflag what=every-event-is-placed-and-the-other-queues-run-while-the-worker-of-queue-1-stands-before-its-queue-lock:stuck=%s ok=%v", why, why == "none"))
	c.Oracle(fmt.Sprintf("opflag what=all-queues-drained ok=%v", drained || why != "none"))
	if why == "none" && drained {
		tr := f.rec.str()
		c.Oracle(fmt.Sprintf("logfree q=%s ev=%s", f.names(), tr))
		c.Oracle(fmt.Sprintf("order q=%s ev=%s", f.names(), tr))
		c.Oracle(fmt.Sprintf("complete q=%s ev=%s", f.names(), tr))
	}
	c.Nontrivial = events > 0
	c.Note("kind:lock-windows")
}
