package main

import (
	"context"
	"fmt"
	"sort"
	"strconv"
	"strings"
	"sync"
	"time"

	"github.com/deckhouse/deckhouse/pkg/log"
	"k8s.io/apimachinery/pkg/apis/meta/v1/unstructured"

	kem "github.com/flant/shell-operator/pkg/kube_events_manager"
	kemtypes "github.com/flant/shell-operator/pkg/kube_events_manager/types"
	metric_storage "github.com/flant/shell-operator/pkg/metric_storage"
	"github.com/flant/shell-operator/pkg/utils/verifsched"
)

func init() { suites["c01"] = runC01 }

var c01Metrics = metric_storage.NewMetricStorage(context.Background(), "verif_c01_", true, log.NewNop())

type c01Ev struct {
	id   int
	kind string // a m d
	cs   int
}

func (e c01Ev) String() string { return fmt.Sprintf("%d%s%d", e.id, e.kind, e.cs) }

func c01Evs(es []c01Ev) string {
	if len(es) == 0 {
		return "-"
	}
	ss := make([]string, len(es))
	for i, e := range es {
		ss[i] = e.String()
	}
	return strings.Join(ss, ",")
}

// c01Inf drives ONE real resourceInformer: the harness plays the informer's callback thread (W),
// the snapshot readers and the unlock, and parks them at the verifsched yield points.
type c01Inf struct {
	vi     *kem.VerifInformer
	key    string
	arrive <-chan *verifsched.Arrival
	jq     bool

	mu        sync.Mutex
	delivered []c01Ev
	csOf      map[string]int // checksum string -> model checksum number

	pending  []c01Ev
	noise    int
	wParked  *verifsched.Arrival // W parked after the cache section
	wDone    chan struct{}
	wEv      *c01Ev
	rdParked map[string]*verifsched.Arrival
	rdDone   map[string]chan []kemtypes.ObjectAndFilterResult
	lastView map[string]string
	syncView string
	eDone    chan struct{} // a probed unlock still blocked on the lock
	eApplied bool          // a probed unlock went through although the model says blocked
	w2Going  bool          // a probed W2 is under way (blocked on the lock or unexpectedly done)

	pendingW2Done bool // a probed W2 completed on the implementation although the model says blocked

	// flagReadEarly: the hand-over that was probed inside the unlock (blocked on eventBufLock) got the
	// lock the moment the unlock returned and reached its yield point BEFORE the harness saw the unlock
	// return (both channels ready, select picks either): kept parked for the w2 step that follows.
	flagReadEarly *verifsched.Arrival
}

func newC01Inf(key string, types []string, jq, keepFull bool) *c01Inf {
	inf := &c01Inf{key: key, jq: jq, csOf: map[string]int{}, rdParked: map[string]*verifsched.Arrival{},
		rdDone: map[string]chan []kemtypes.ObjectAndFilterResult{}, lastView: map[string]string{}, syncView: "-"}
	mc := &kem.MonitorConfig{ApiVersion: "v1", Kind: "ConfigMap", KeepFullObjectsInMemory: keepFull}
	mc.Metadata.DebugName = key
	mc.Metadata.MonitorId = key
	mc.Metadata.MetricLabels = map[string]string{}
	mc.Metadata.LogLabels = map[string]string{}
	if jq {
		mc.JqFilter = ".data"
	}
	evt := []kemtypes.WatchEventType{}
	for _, t := range types {
		evt = append(evt, map[string]kemtypes.WatchEventType{"a": kemtypes.WatchEventAdded, "m": kemtypes.WatchEventModified, "d": kemtypes.WatchEventDeleted}[t])
	}
	mc.EventTypes = evt
	inf.vi = kem.VerifNewInformer(mc, c01Metrics, func(ev kemtypes.KubeEvent) {
		inf.mu.Lock()
		defer inf.mu.Unlock()
		for i, we := range ev.WatchEvents {
			if i < len(ev.Objects) {
				inf.delivered = append(inf.delivered, inf.evOf(we, ev.Objects[i]))
			}
		}
	})
	inf.arrive = sched.Subscribe(key)
	return inf
}

// c01Rel releases an arrival that may have been released already (after a `hang` the bookkeeping of
// who is parked is not reliable any more).
func c01Rel(a *verifsched.Arrival) {
	defer func() { _ = recover() }()
	a.Release()
}

func (inf *c01Inf) close() {
	sched.Unsubscribe(inf.key)
	if inf.flagReadEarly != nil {
		c01Rel(inf.flagReadEarly)
	}
	if inf.wParked != nil {
		c01Rel(inf.wParked)
	}
	for _, a := range inf.rdParked {
		c01Rel(a)
	}
	for {
		select {
		case a := <-inf.arrive:
			a.Release()
		case <-time.After(10 * time.Millisecond):
			return
		}
	}
}

func (inf *c01Inf) obj(e c01Ev) *unstructured.Unstructured {
	o := &unstructured.Unstructured{Object: map[string]interface{}{
		"apiVersion": "v1", "kind": "ConfigMap",
		"metadata": map[string]interface{}{"name": fmt.Sprintf("o%d", e.id), "namespace": "default"},
		"data":     map[string]interface{}{"v": strconv.Itoa(e.cs)},
	}}
	if inf.jq {
		// a change outside the projection: must not matter
		inf.noise++
		o.Object["metadata"].(map[string]interface{})["labels"] = map[string]interface{}{"noise": strconv.Itoa(inf.noise)}
	}
	return o
}

func idOfResource(rid string) int {
	i := strings.LastIndex(rid, "/o")
	n, _ := strconv.Atoi(rid[i+2:])
	return n
}

func (inf *c01Inf) evOf(we kemtypes.WatchEventType, o kemtypes.ObjectAndFilterResult) c01Ev {
	k := map[kemtypes.WatchEventType]string{kemtypes.WatchEventAdded: "a", kemtypes.WatchEventModified: "m", kemtypes.WatchEventDeleted: "d"}[we]
	cs, ok := inf.csOf[o.Metadata.Checksum]
	if !ok {
		cs = 99999
	}
	return c01Ev{idOfResource(o.Metadata.ResourceId), k, cs}
}

func (inf *c01Inf) viewStr(objs []kemtypes.ObjectAndFilterResult) string {
	var ss []string
	for _, o := range objs {
		cs, ok := inf.csOf[o.Metadata.Checksum]
		if !ok {
			cs = 99999
		}
		ss = append(ss, fmt.Sprintf("%06d|%d@%d", idOfResource(o.Metadata.ResourceId), idOfResource(o.Metadata.ResourceId), cs))
	}
	sort.Strings(ss)
	for i := range ss {
		ss[i] = ss[i][strings.IndexByte(ss[i], '|')+1:]
	}
	return joinStrs(ss)
}

func (inf *c01Inf) deliveredCopy() []c01Ev {
	inf.mu.Lock()
	defer inf.mu.Unlock()
	return append([]c01Ev(nil), inf.delivered...)
}

// dump is the observation after each step (same shape as the model's dump).
func (inf *c01Inf) dump(extra string) string {
	cache, buf, en := inf.vi.VerifDump()
	var cs []string
	for _, c := range cache {
		at := strings.LastIndexByte(c, '@')
		n, ok := inf.csOf[c[at+1:]]
		if !ok {
			n = 99999
		}
		id := idOfResource(c[:at])
		cs = append(cs, fmt.Sprintf("%06d|%d@%d", id, id, n))
	}
	sort.Strings(cs)
	for i := range cs {
		cs[i] = cs[i][strings.IndexByte(cs[i], '|')+1:]
	}
	var bs []c01Ev
	for _, ev := range buf {
		for i, we := range ev.WatchEvents {
			bs = append(bs, inf.evOf(we, ev.Objects[i]))
		}
	}
	wpc := "idle"
	if inf.wEv != nil {
		wpc = "have:" + inf.wEv.String()
	}
	var rds []string
	for _, t := range []string{"foreign", "sync"} {
		if _, ok := inf.rdParked[t]; ok {
			rds = append(rds, t)
		}
	}
	e := 0
	if en {
		e = 1
	}
	return fmt.Sprintf("cache=%s buf=%s en=%d delivered=%s wpc=%s readers=%s%s", joinStrs(cs), c01Evs(bs), e,
		c01Evs(inf.deliveredCopy()), wpc, joinStrs(rds), extra)
}

const c01Wait = 10 * time.Second
const c01Probe = 40 * time.Millisecond

func (inf *c01Inf) waitArrival(name string, d time.Duration) *verifsched.Arrival {
	select {
	case a := <-inf.arrive:
		if a.Name != name {
			a.Release()
			return nil
		}
		return a
	case <-time.After(d):
		return nil
	}
}

// w1: the callback thread takes the next watch event and runs the cache section.
func (inf *c01Inf) w1() string {
	if inf.wEv != nil || len(inf.pending) == 0 {
		return "disabled"
	}
	e := inf.pending[0]
	inf.pending = inf.pending[1:]
	o := inf.obj(e)
	inf.csOf[inf.vi.VerifChecksum(o)] = e.cs
	if e.kind == "d" {
		// a Deleted event carries the last known state; its checksum is irrelevant to the trigger
	}
	done := make(chan struct{})
	inf.wDone = done
	wt := map[string]kemtypes.WatchEventType{"a": kemtypes.WatchEventAdded, "m": kemtypes.WatchEventModified, "d": kemtypes.WatchEventDeleted}[e.kind]
	go func() { defer close(done); inf.vi.HandleWatchEvent(o, wt) }()
	select {
	case a := <-inf.arrive:
		if a.Name != "informer.watch.cached" {
			a.Release()
			return "unexpected-point:" + a.Name
		}
		inf.wParked = a
		ee := e
		inf.wEv = &ee
	case <-done:
	case <-time.After(c01Wait):
		return "hang"
	}
	return ""
}

// w2: hand the event over (flag read + deliver/append). probeE: try the unlock while the callback
// thread is between the flag read and its use.
func (inf *c01Inf) w2(c *Case, probeE bool) string {
	if inf.wEv == nil {
		return "disabled"
	}
	if !inf.w2Going {
		inf.wParked.Release()
	}
	inf.w2Going = false
	a := inf.flagReadEarly
	inf.flagReadEarly = nil
	if a == nil {
		a = inf.waitArrival("informer.watch.flagRead", c01Wait)
	}
	if a == nil {
		return "hang"
	}
	if probeE && inf.eDone == nil && !inf.eApplied {
		c.Op("probe-in-w2 e", inf.probeE())
		c.Note("probe:e-in-w2")
	}
	a.Release()
	select {
	case <-inf.wDone:
	case <-time.After(c01Wait):
		return "hang"
	}
	inf.wParked, inf.wEv = nil, nil
	return ""
}

func (inf *c01Inf) probeE() string {
	done := make(chan struct{})
	go func() { defer close(done); inf.vi.EnableKubeEventCb() }()
	timer := time.After(c01Probe)
	for {
		select {
		case a := <-inf.arrive:
			if a.Name == "informer.watch.flagRead" && inf.w2Going && inf.flagReadEarly == nil {
				inf.flagReadEarly = a // a probed hand-over, not the unlock: parked for its w2 step
				continue
			}
			// it got the lock although the model says it is held: let it run to its end
			a.Release()
		case <-done:
			inf.eApplied = true
			return "enabled"
		case <-timer:
			inf.eDone = done
			return "blocked"
		}
	}
}

func (inf *c01Inf) s1(tag string) string {
	ch := make(chan []kemtypes.ObjectAndFilterResult, 1)
	go func() { ch <- inf.vi.GetCachedObjects() }()
	a := inf.waitArrival("informer.snapshot.copied", c01Wait)
	if a == nil {
		return "hang"
	}
	inf.rdParked[tag] = a
	inf.rdDone[tag] = ch
	return ""
}

func (inf *c01Inf) s2(tag string) string {
	a := inf.rdParked[tag]
	if a == nil {
		return "disabled"
	}
	a.Release()
	delete(inf.rdParked, tag)
	select {
	case objs := <-inf.rdDone[tag]:
		inf.lastView[tag] = inf.viewStr(objs)
	case <-time.After(c01Wait):
		return "hang"
	}
	return ""
}

func (inf *c01Inf) e() string { return inf.eProbing(nil) }

// eProbing runs the unlock. At its yield points (after the flag flip, before the replay — both
// inside eventBufLock in the code as it is) it tries the hand-over of a parked watch event, which
// must be blocked until the unlock has finished.
func (inf *c01Inf) eProbing(c *Case) string {
	done := make(chan struct{})
	go func() { defer close(done); inf.vi.EnableKubeEventCb() }()
	for {
		select {
		case a := <-inf.arrive:
			if a.Name == "informer.watch.flagRead" && inf.w2Going && inf.flagReadEarly == nil {
				// the unlock has returned (the probed hand-over could take eventBufLock) but `done` has
				// not been seen yet: keep the hand-over parked for the w2 step
				inf.flagReadEarly = a
				continue
			}
			if c != nil && strings.HasPrefix(a.Name, "informer.enable.") && inf.wEv != nil && !inf.pendingW2Done {
				// at EVERY yield point of the unlock: the parked hand-over must still be blocked
				if !inf.w2Going {
					inf.wParked.Release()
					inf.w2Going = true
				}
				select {
				case fa := <-inf.arrive:
					// the hand-over got eventBufLock in the middle of the unlock: let it finish first
					c.Op("probe-in-e w2", "enabled")
					fa.Release()
					select {
					case <-inf.wDone:
					case <-time.After(c01Wait):
						a.Release()
						return "hang"
					}
					inf.wParked, inf.wEv, inf.w2Going = nil, nil, false
					inf.pendingW2Done = true
				case <-time.After(c01Probe):
					c.Op("probe-in-e w2", "blocked")
				}
				c.Note("probe:w2-in-e")
			}
			a.Release()
		case <-done:
			return ""
		case <-time.After(c01Wait):
			return "hang"
		}
	}
}

// c01Track mirrors the CONTROL state of the model (who is parked where), only to generate enabled
// steps; it knows nothing about caches, buffers or events.
type c01Track struct {
	pending     int
	wBusy       bool
	reader      string // tag of the reader holding the lock ("" = none)
	enabled     bool
	foreignLast bool // a foreign copy was taken while locked and no sync copy after it
	syncReads   int
}

func c01Run(c *Case, rng *Rng, types []string, jq, keepFull bool, watch []c01Ev, script []string, knownClass bool) {
	inf := newC01Inf(fmt.Sprintf("c01-%d", c.Idx), types, jq, keepFull)
	defer inf.close()
	inf.pending = append(inf.pending, watch...)
	c.Op("cfg types="+joinStrs(types), "ok")
	c.Op("watch "+c01Evs(watch), "ok")
	stepOracle := func() {
		_, _, en := inf.vi.VerifDump()
		e := 0
		if en {
			e = 1
		}
		c.Oracle(fmt.Sprintf("step en=%d delivered=%s", e, c01Evs(inf.deliveredCopy())))
	}
	do := func(act string) bool {
		f := strings.Fields(act)
		var r string
		extra := ""
		switch f[0] {
		case "w1":
			r = inf.w1()
		case "w2":
			r = inf.w2(c, false)
		case "w2pe": // W2 with an unlock probed in the middle of it; the unlock completes right after
			if inf.wEv == nil {
				c.Op("w2", "disabled")
				act = "e"
				r = inf.e()
				break
			}
			act = "w2 +e"
			r = inf.w2(c, true)
			if r == "" {
				r = inf.finishE()
			}
		case "s1":
			r = inf.s1(f[1])
		case "s2":
			wasEnabled := inf.isEnabled()
			r = inf.s2(f[1])
			extra = " view=" + inf.lastView[f[1]]
			if f[1] == "sync" && !wasEnabled {
				inf.syncView = inf.lastView["sync"]
			}
			if r == "" && len(f) > 2 && f[2] == "+e" {
				// an unlock probed earlier is blocked on the lock this reader holds: it runs right now
				r = inf.finishE()
			}
		case "e":
			r = inf.eProbing(c)
		case "probe":
			switch f[1] {
			case "e":
				c.Op(act, inf.probeE())
				c.Note("probe:e-under-reader")
				return true
			case "w2":
				if inf.wEv == nil {
					c.Op(act, "disabled")
					return true
				}
				inf.wParked.Release()
				inf.w2Going = true
				// blocked on eventBufLock = the flagRead point is not reached
				select {
				case a := <-inf.arrive:
					// went through: put the arrival back by finishing W2 right here
					c.Op(act, "enabled")
					a.Release()
					<-inf.wDone
					inf.wParked, inf.wEv, inf.w2Going = nil, nil, false
					inf.pendingW2Done = true
				case <-time.After(c01Probe):
					c.Op(act, "blocked")
				}
				c.Note("probe:w2-under-reader")
				return true
			}
		}
		if r == "disabled" {
			c.Op(act, "disabled")
			return true
		}
		if r != "" {
			c.Op(act, r)
			return false
		}
		c.Note("act:" + f[0])
		c.Op(act, inf.dump(extra))
		stepOracle()
		if f[0] == "e" && inf.w2Going {
			// a hand-over probed inside the unlock was blocked on eventBufLock: it has the lock now
			// and must finish before anybody else can use it
			c.Note("act:w2")
			if r := inf.w2(c, false); r != "" {
				c.Op("w2", r)
				return false
			}
			c.Op("w2", inf.dump(""))
			stepOracle()
		}
		return true
	}
	for _, a := range script {
		if a == "w2" && inf.pendingW2Done {
			// the probed W2 already completed on the implementation (model said blocked)
			inf.pendingW2Done = false
			c.Op("w2", inf.dump(""))
			stepOracle()
			continue
		}
		if !do(a) {
			return
		}
	}
	// final oracles
	del := c01Evs(inf.deliveredCopy())
	c.Oracle("noloss delivered=" + del)
	if len(types) == 3 {
		// ground truth: the cluster state after the whole history (independent of the implementation)
		fin := map[int]int{}
		for _, e := range watch {
			if e.kind == "d" {
				delete(fin, e.id)
			} else {
				fin[e.id] = e.cs
			}
		}
		var ids []int
		for id := range fin {
			ids = append(ids, id)
		}
		sort.Ints(ids)
		var fs []string
		for _, id := range ids {
			fs = append(fs, fmt.Sprintf("%d@%d", id, fin[id]))
		}
		c.Oracle(fmt.Sprintf("replay view=%s delivered=%s final=%s", inf.syncView, del, joinStrs(fs)))
	}
	if knownClass {
		c.Known = "foreign-snapshot-while-locked"
	}
}

// finishE waits for an unlock that was probed earlier (blocked then, or — on a broken tree —
// already through).
func (inf *c01Inf) finishE() string {
	if inf.eApplied {
		inf.eApplied = false
		return ""
	}
	if inf.eDone == nil {
		return inf.e()
	}
	for {
		select {
		case a := <-inf.arrive:
			if a.Name == "informer.watch.flagRead" && inf.w2Going && inf.flagReadEarly == nil {
				inf.flagReadEarly = a // a probed hand-over got the lock first: parked for its w2 step
				continue
			}
			a.Release() // the yield points inside the unlock itself
			continue
		case <-inf.eDone:
		case <-time.After(c01Wait):
			return "hang"
		}
		break
	}
	inf.eDone = nil
	return ""
}

func (inf *c01Inf) isEnabled() bool { _, _, en := inf.vi.VerifDump(); return en }

// c01GenWatch: histories over <= 3 objects: create / modify (changed or identical projection) /
// delete / re-create.
func c01GenWatch(rng *Rng, n int) []c01Ev {
	live := map[int]int{}
	var w []c01Ev
	next := 10
	for i := 0; i < n; i++ {
		id := rng.Range(1, 3)
		cs, ok := live[id]
		switch {
		case !ok:
			next++
			live[id] = next
			w = append(w, c01Ev{id, "a", next})
		case rng.Chance(25):
			delete(live, id)
			w = append(w, c01Ev{id, "d", cs})
		case rng.Chance(30):
			w = append(w, c01Ev{id, "m", cs}) // identical projection: must be suppressed
		case rng.Chance(10):
			w = append(w, c01Ev{id, "a", cs}) // re-delivered Added (resync / relist)
		default:
			next++
			live[id] = next
			w = append(w, c01Ev{id, "m", next})
		}
	}
	return w
}

// c01GenScript: a random schedule that ends quiescent. allowKnown: foreign copies while locked may
// stay the last copy before the unlock (the recorded finding class).
func c01GenScript(rng *Rng, nWatch int, allowKnown bool) (script []string, known bool) {
	t := c01Track{pending: nWatch}
	probes := 0
	for steps := 0; steps < 200; steps++ {
		if t.pending == 0 && !t.wBusy && t.reader == "" && t.enabled {
			if rng.Chance(60) {
				break
			}
		}
		var opts []string
		if t.reader == "" {
			if !t.wBusy && t.pending > 0 {
				opts = append(opts, "w1", "w1")
			}
			if t.wBusy {
				opts = append(opts, "w2", "w2")
				if probes < 2 {
					opts = append(opts, "w2pe")
				}
			}
			opts = append(opts, "s1 sync")
			if t.enabled || allowKnown || true {
				opts = append(opts, "s1 foreign")
			}
			if !t.enabled && t.syncReads > 0 && (allowKnown || !t.foreignLast) && rng.Chance(50) {
				opts = append(opts, "e")
			}
			if t.enabled && rng.Chance(10) {
				opts = append(opts, "e") // repeated unlock is harmless
			}
		} else {
			opts = append(opts, "s2 "+t.reader, "s2 "+t.reader)
			if !t.wBusy && t.pending > 0 {
				opts = append(opts, "w1") // the cache section does not need eventBufLock
			}
			if probes < 2 {
				if t.wBusy {
					opts = append(opts, "probe w2")
				}
				if !t.enabled && t.syncReads > 0 && (allowKnown || !t.foreignLast) {
					opts = append(opts, "probe e")
				}
			}
		}
		if len(opts) == 0 {
			break
		}
		a := PickOne(rng, opts)
		f := strings.Fields(a)
		switch f[0] {
		case "w1":
			t.pending--
			t.wBusy = true // may turn out not to fire: then w2 answers `disabled` on both sides
		case "w2":
			t.wBusy = false
		case "w2pe":
			probes++
			t.wBusy = false
			if !t.enabled && t.syncReads > 0 && (allowKnown || !t.foreignLast) {
				// the probed unlock is blocked during W2 and completes right after it
				if t.foreignLast {
					known = true
				}
				script = append(script, a)
				t.enabled = true
				continue
			}
			a = "w2"
		case "s1":
			t.reader = f[1]
			if !t.enabled {
				if f[1] == "sync" {
					t.syncReads++
					t.foreignLast = false
				} else {
					t.foreignLast = true
				}
			}
		case "s2":
			t.reader = ""
		case "e":
			if !t.enabled && t.foreignLast {
				known = true
			}
			t.enabled = true
		case "probe":
			probes++
			if f[1] == "e" {
				// blocked now; completes right after the reader releases the lock
				if t.foreignLast {
					known = true
				}
				script = append(script, a, "s2 "+t.reader+" +e")
				t.reader = ""
				t.enabled = true
				continue
			}
			// probe w2: blocked now; completes right after the reader releases the lock
			script = append(script, a, "s2 "+t.reader, "w2")
			t.reader = ""
			t.wBusy = false
			continue
		}
		script = append(script, a)
	}
	// drain to quiescence
	if t.reader != "" {
		script = append(script, "s2 "+t.reader)
	}
	if t.wBusy {
		script = append(script, "w2")
	}
	for ; t.pending > 0; t.pending-- {
		script = append(script, "w1", "w2")
	}
	if !t.enabled {
		if t.syncReads == 0 || (t.foreignLast && !allowKnown) {
			script = append(script, "s1 sync", "s2 sync")
			t.foreignLast = false
		}
		if t.foreignLast {
			known = true
		}
		script = append(script, "e")
	}
	return script, known
}

func runC01(r *Run) {
	r.Rule = "one REAL resourceInformer per case, driven through the verifsched yield points: the harness plays the callback thread (W1 cache section, W2 hand-over), snapshot readers tagged sync/foreign (S1 copy, S2 reset) and the unlock E in a generated interleaving, plus probes that try a step the model says is blocked by eventBufLock (unlock or hand-over while a reader is between copy and reset; unlock in the middle of the hand-over). Watch histories over <=3 objects (create, modify with changed/identical projection, delete, re-create, re-delivered Added), event-type subsets, jqFilter on/off, keepFullObjectsInMemory on/off. Non-trivial: >=2 watch events fire and the schedule interleaves a reader or the unlock between two watch steps. distinct = distinct op-line sequences. Monitor level: one REAL monitor with a namespace.labelSelector binding on the fake cluster; EnableKubeEventCb is interleaved at its yield points with namespace-added callbacks triggered by creating namespaces; afterwards an object is created in every namespace and must reach the event callback. Operator level (exploration, uncontrolled scheduling): a whole ShellOperator on the fake cluster with one real bash hook (group / queue / jqFilter / event-type / failing-Synchronization variants); the cluster changes before start, while each Synchronization attempt is running and afterwards; oracles on the binding-context files the hook received. Operator, window inside the Synchronization run: the run is parked at a yield point of monitor.Snapshot() (before / after each read it makes), the cluster changes there; sweep group x empty/non-empty view x yield point, quiet cases without a later sentinel object. Operator, layouts: 2-5 kubernetes bindings of one hook in blocks (two bindings of one group, or one binding; allowFailure / executeHookOnSynchronization per block, queue per binding); every hook execution is held, the lock state of every binding is observed while it is held and the cluster changes; per binding: unlocked only after its own successful Synchronization, no Event before it, view + Events = cluster. Hook-level dimensions of the layouts: legacy v0 config (onKubernetesEvent, loaded by the real loader; Events in the v0 shape, existence replay), namespace.labelSelector with NO matching namespace at start (the first one appears with objects while the first run is held), 0-2 failing Synchronization runs (combined ones included), one group shared by blocks with and without executeHookOnSynchronization. A binding that is still locked when every Synchronization task has left the main queue is decided as never unlocked (no clock): op-unlock oracle. Monitor level: after every step, no informer passes events before the unlock has begun (m-locked oracle). Operator, layouts with LATER executions held (fixed shapes: one grouped binding in main / own queue, two bindings of one group, group + ungrouped; 35% of the generated layouts): after the Synchronization phase every Event / Group execution is held as well; per round the cluster changes until an execution is held (it has read its snapshots), changes again while that execution is the running head (often the only task) of its queue, then the execution is released; such cases end quiet (no sentinel, no later change: rest = nothing running, queues empty, informer caches = cluster for a long period, stretched when what the hook got does not account for the final state yet). KubeEventsManager level, shared informers: 2-4 monitors over ConfigMaps of one or two namespaces (static name selectors that mostly overlap, namespace.labelSelector monitors) on ONE manager, so that their resource informers share factory entries; generated scripts of start (add + start + Synchronization view + changes that must be buffered + unlock) / StopMonitor / change / namespace delete (objects first) / namespace re-create; fixed cases: the monitor that started the shared informer stops, the one that joined stops, a labelSelector sibling loses the namespace (both start orders); one goroutine consumes the event channel; a sentinel per namespace at the end; per surviving monitor view + Events = final matching state (replay oracle); never-delivered is decided by IsStopped() of the shared informer the monitor is registered with, a merely late sentinel is inconclusive."
	all := []string{"a", "m", "d"}
	// corpus: the proved witness schedules (Props/C01.lean), adapted to the repaired step alphabet
	r.One(0, func(c *Case, rng *Rng) {
		c.Desc = "corpus R1: unlock between the flag read and the append"
		c.Nontrivial = true
		c01Run(c, rng, all, false, true, []c01Ev{{1, "a", 10}}, []string{"s1 sync", "s2 sync", "w1", "w2pe"}, false)
	})
	r.One(1, func(c *Case, rng *Rng) {
		c.Desc = "corpus R2: event cached and handed over between copy and reset"
		c.Nontrivial = true
		c01Run(c, rng, all, false, true, []c01Ev{{1, "a", 10}}, []string{"s1 sync", "w1", "probe w2", "s2 sync", "w2", "e"}, false)
	})
	r.One(2, func(c *Case, rng *Rng) {
		c.Desc = "known finding R3: foreign Snapshot() between the Synchronization view and the unlock"
		c.Nontrivial = true
		c01Run(c, rng, all, false, true, []c01Ev{{1, "a", 10}}, []string{"s1 sync", "s2 sync", "w1", "w2", "s1 foreign", "s2 foreign", "e"}, true)
	})
	r.One(3, func(c *Case, rng *Rng) {
		c.Desc = "corpus: unlock probed while the Synchronization reader is between copy and reset"
		c.Nontrivial = true
		c01Run(c, rng, all, false, true, []c01Ev{{1, "a", 10}, {2, "a", 11}}, []string{"w1", "w2", "s1 sync", "w1", "probe e", "s2 sync +e", "w2"}, false)
	})
	n := r.N(400, 6000)
	r.Cases(10, n, 0, func(c *Case, rng *Rng) {
		types := all
		if rng.Chance(25) {
			types = nil
			for _, t := range all {
				if rng.Chance(60) {
					types = append(types, t)
				}
			}
		}
		jq, keep := rng.Chance(40), rng.Chance(70)
		watch := c01GenWatch(rng, rng.Range(1, 6))
		script, known := c01GenScript(rng, len(watch), false)
		c.Desc = strings.Join(script, " ")
		c01Run(c, rng, types, jq, keep, watch, script, known)
		inter := false
		for i := 1; i+1 < len(script); i++ {
			if (strings.HasPrefix(script[i], "s") || script[i] == "e" || strings.HasPrefix(script[i], "probe")) &&
				strings.HasPrefix(script[i-1], "w") {
				inter = true
			}
		}
		c.Nontrivial = len(watch) >= 2 && inter
		c.Note(fmt.Sprintf("types:%d", len(types)))
		if jq {
			c.Note("jqFilter")
		}
	})
	runC01Monitor(r)
	runC01Operator(r)
	runC01OperatorWindow(r)
	runC01Operator2(r)
	runC01Operator3(r)
	runC01Shared(r)
	// the recorded finding class, explored separately (expected to fail the oracle)
	r.Cases(900000, r.N(20, 200), 0, func(c *Case, rng *Rng) {
		watch := c01GenWatch(rng, rng.Range(1, 5))
		script, known := c01GenScript(rng, len(watch), true)
		c.Desc = "known-class: " + strings.Join(script, " ")
		c01Run(c, rng, all, false, true, watch, script, known)
		c.Note("known-class-explored")
	})
}
